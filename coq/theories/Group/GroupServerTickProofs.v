(* Proofs about the server-level tick with the liveness sweep (GroupServerTick.v):
   1. refinement: every history of the extended machine is a history of the
      admission / relay machine, hence all its invariants carry over;
   2. byte counters and the verdict of one look;
   3. what one sweep does to the server; removal of inactive groups at a tick;
      an idle input is closed (only closed) at the second look. *)
From Coq Require Import NArith ZArith List Bool Lia.
From Lal Require Import Common.LBytes Group.GroupAdmission Group.GroupAdmissionProofs Group.GroupInvariantProofs Group.GroupDeliveryProofs
  Group.GroupServerTick.
From Lal Require Group.GroupIdle Group.GroupIdleProofs.
Import ListNotations.
Open Scope N_scope.

(* ---- 1. refinement -------------------------------------------------------------------------------- *)
Lemma run_app : forall fx cf h1 h2 st,
  run fx cf st (h1 ++ h2) =
  (fst (run fx cf (fst (run fx cf st h1)) h2), snd (run fx cf st h1) ++ snd (run fx cf (fst (run fx cf st h1)) h2)).
Proof.
  intros fx cf h1. induction h1 as [|e t IH]; intros h2 st; simpl.
  - destruct (run fx cf st h2); reflexivity.
  - destruct (step fx cf st e) as [[st1 r] ns]. rewrite (IH h2 st1).
    destruct (run fx cf st1 t) as [c d]. simpl. rewrite app_assoc. reflexivity.
Qed.

(* the events of the base machine one event of the extended machine amounts to *)
Definition expand (fx : fixes) (cf : config) (ts : tstate) (e : tevent) : list event :=
  match e with
  | TEv (ETick c) =>
    ETick c ::
    (if (c mod sweep_interval =? 0) && negb (st_disposed (t_st ts))
     then fst (sweep_events (fst (fst (step fx cf (t_st ts) (ETick c)))) (t_ctr ts)) else [])
  | TEv e0 => [e0]
  | _ => []
  end.

Lemma tstep_run : forall fx cf ts e,
  run fx cf (t_st ts) (expand fx cf ts e) = (t_st (fst (fst (tstep fx cf ts e))), snd (tstep fx cf ts e)).
Proof.
  intros fx cf ts e. destruct e as [e0|n k|s i k].
  - assert (Hgen : forall e1, (forall c, e1 <> ETick c) ->
        run fx cf (t_st ts) [e1] =
        (t_st (fst (fst (let '(st1, r, ns) := step fx cf (t_st ts) e1 in
                        (mk_tstate st1 (traffic (t_st ts) st1 e1 r (t_ctr ts)), r, ns)))),
         snd (let '(st1, r, ns) := step fx cf (t_st ts) e1 in
              (mk_tstate st1 (traffic (t_st ts) st1 e1 r (t_ctr ts)), r, ns)))).
    { intros e1 _. cbn [run]. destruct (step fx cf (t_st ts) e1) as [[st1 r] ns]. cbn. rewrite app_nil_r. reflexivity. }
    destruct e0; try (apply Hgen; intros c Hc; discriminate).
    cbn [expand tstep run].
    destruct (step fx cf (t_st ts) (ETick count)) as [[st1 r] ns] eqn:Es. cbn [fst snd].
    destruct ((count mod sweep_interval =? 0) && negb (st_disposed (t_st ts))).
    + destruct (sweep_events st1 (t_ctr ts)) as [es ctrs]. cbn [fst].
      destruct (run fx cf st1 es) as [st2 ns2]. reflexivity.
    + cbn. rewrite app_nil_r. reflexivity.
  - cbn [expand run tstep]. destruct (find_sess n (st_sess (t_st ts))) as [x|]; [|reflexivity].
    destruct (s_acc x && negb (s_gone x) && negb (s_closed x)); [|reflexivity].
    destruct (s_kind x); reflexivity.
  - cbn [expand run tstep]. destruct (find_att s i (st_atts (t_st ts))) as [a|]; [|reflexivity].
    destruct (a_state a); try reflexivity. destruct (a_rtmp a); reflexivity.
Qed.

Fixpoint expand_all (fx : fixes) (cf : config) (ts : tstate) (h : list tevent) : list event :=
  match h with
  | [] => []
  | e :: t => expand fx cf ts e ++ expand_all fx cf (fst (fst (tstep fx cf ts e))) t
  end.

(* every history of the server with ticks, sweeps and byte counters is a history of the
   admission / relay machine: same state, same notifications *)
Theorem trun_refines : forall fx cf h ts,
  run fx cf (t_st ts) (expand_all fx cf ts h) = (t_st (fst (trun fx cf ts h)), snd (trun fx cf ts h)).
Proof.
  intros fx cf h. induction h as [|e t IH]; intros ts; [reflexivity|].
  cbn [expand_all trun]. rewrite run_app, tstep_run. cbn [fst snd].
  destruct (tstep fx cf ts e) as [[ts1 r] ns]. cbn [fst snd]. rewrite (IH ts1).
  destruct (trun fx cf ts1 t) as [ts2 ns2]. reflexivity.
Qed.

Corollary trun_is_run : forall cf h,
  exists bh, run fixed_tree cf init_state bh =
             (t_st (fst (trun fixed_tree cf tinit h)), snd (trun fixed_tree cf tinit h)).
Proof. intros cf h. exists (expand_all fixed_tree cf tinit h). apply (trun_refines fixed_tree cf h tinit). Qed.

Lemma trun_reachable : forall cf h, reachable fixed_tree cf (t_st (fst (trun fixed_tree cf tinit h))).
Proof.
  intros cf h. destruct (trun_is_run cf h) as [bh E].
  pose proof (run_reachable fixed_tree cf bh init_state (reach_init _ _)) as H. rewrite E in H. exact H.
Qed.

Lemma trun_inv_s : forall cf h,
  INV_S (t_st (fst (trun fixed_tree cf tinit h))) (snd (trun fixed_tree cf tinit h)).
Proof.
  intros cf h. destruct (trun_is_run cf h) as [bh E].
  pose proof (inv_s_run cf bh init_state [] inv_s_init) as H. rewrite E in H. exact H.
Qed.

(* the invariants of C03, for every history with ticks, sweeps and byte counters *)
Theorem srv_single_input : forall cf h s g,
  get_group (t_st (fst (trun fixed_tree cf tinit h))) s = Some g -> (occupied g <= 1)%nat.
Proof. intros cf h s g. exact (single_input fixed_tree cf _ eq_refl eq_refl (trun_reachable cf h) s g). Qed.

Theorem srv_notifications : forall cf h n,
  word (snd (trun fixed_tree cf tinit h)) (WConn n) = conn_word (vsess (t_st (fst (trun fixed_tree cf tinit h))) n).
Proof. intros cf h n. exact (inv_log_conn _ _ (trun_inv_s cf h) n). Qed.

(* ---- 2. byte counters ------------------------------------------------------------------------------ *)
Lemma ckey_eqb_eq : forall a b, ckey_eqb a b = true <-> a = b.
Proof.
  intros a b. destruct a, b; simpl; split; intro H; try discriminate; try congruence.
  - apply N.eqb_eq in H. subst; reflexivity.
  - inversion H. apply N.eqb_refl.
  - apply andb_true_iff in H. destruct H as [A B]. apply N.eqb_eq in A, B. subst; reflexivity.
  - inversion H. rewrite !N.eqb_refl. reflexivity.
  - apply andb_true_iff in H. destruct H as [A B]. apply N.eqb_eq in A. apply Nat.eqb_eq in B. subst; reflexivity.
  - inversion H. rewrite N.eqb_refl, Nat.eqb_refl. reflexivity.
Qed.
Lemma ckey_eqb_refl : forall a, ckey_eqb a a = true.
Proof. intro a. apply ckey_eqb_eq. reflexivity. Qed.
Lemma ckey_eqb_neq : forall a b, a <> b -> ckey_eqb a b = false.
Proof. intros a b H. destruct (ckey_eqb a b) eqn:E; [|reflexivity]. apply ckey_eqb_eq in E. contradiction. Qed.

Lemma get_set_same : forall k c l, get_ctr k (set_ctr k c l) = c.
Proof.
  intros k c l. induction l as [|[k' c'] t IH]; simpl.
  - rewrite ckey_eqb_refl. reflexivity.
  - destruct (ckey_eqb k k') eqn:E; simpl; [rewrite ckey_eqb_refl; reflexivity|rewrite E; exact IH].
Qed.
Lemma get_set_other : forall k k' c l, k' <> k -> get_ctr k' (set_ctr k c l) = get_ctr k' l.
Proof.
  intros k k' c l Hne. induction l as [|[k0 c0] t IH]; simpl.
  - rewrite (ckey_eqb_neq k' k Hne). reflexivity.
  - destruct (ckey_eqb k k0) eqn:E; simpl.
    + apply ckey_eqb_eq in E. subst k0. rewrite (ckey_eqb_neq k' k Hne). reflexivity.
    + destruct (ckey_eqb k' k0); [reflexivity|exact IH].
Qed.

Definition stale_of (c : ctr) : option (N * N) := GroupIdle.st_stale (c_stale c).

(* traffic never touches the stale stat of a connection or of a pull attempt *)
Lemma bump_stale : forall k dr dw l k', stale_of (get_ctr k' (bump k dr dw l)) = stale_of (get_ctr k' l).
Proof.
  intros k dr dw l k'. unfold bump. destruct (ckey_eqb k' k) eqn:E.
  - apply ckey_eqb_eq in E. subst k'. rewrite get_set_same. reflexivity.
  - rewrite get_set_other; [reflexivity|]. intro H. subst k'. rewrite ckey_eqb_refl in E. discriminate.
Qed.
Lemma bump_other : forall k dr dw l k', k' <> k -> get_ctr k' (bump k dr dw l) = get_ctr k' l.
Proof. intros. unfold bump. apply get_set_other. assumption. Qed.
Lemma bump_same : forall k dr dw l,
  get_ctr k (bump k dr dw l) = mk_ctr (c_stale (get_ctr k l)) (u64 (c_r (get_ctr k l) + dr)) (u64 (c_w (get_ctr k l) + dw)).
Proof. intros. unfold bump. apply get_set_same. Qed.

(* one look: the counters stay, the stale stat becomes the current counters *)
Lemma look_counters : forall kd c, c_r (snd (look kd c)) = c_r c /\ c_w (snd (look kd c)) = c_w c.
Proof. intros. unfold look. split; reflexivity. Qed.

Lemma look_stale : forall kd c, kd <> GroupIdle.SPush -> stale_of (snd (look kd c)) = Some (c_r c, c_w c).
Proof.
  intros kd c Hk. unfold look, stale_of, GroupIdle.sweep_one. cbn [GroupIdle.ss_kind GroupIdle.ss_stat GroupIdle.ss_r GroupIdle.ss_w].
  destruct kd; try contradiction;
    unfold GroupIdle.is_alive; destruct (GroupIdle.st_stale (c_stale c)) as [[r0 w0]|]; reflexivity.
Qed.

(* the first look never condemns *)
Lemma look_first : forall kd c, stale_of c = None -> fst (look kd c) = false.
Proof.
  intros kd c Hs. unfold look. cbn [fst].
  pose proof (GroupIdleProofs.first_sweep_keeps (GroupIdle.mk_sess 0 kd (c_stale c) (c_r c) (c_w c) false)) as H.
  cbn [GroupIdle.ss_stat GroupIdle.ss_closed] in H. apply H. exact Hs.
Qed.

Definition judged_read (kd : GroupIdle.skind) : bool :=
  match kd with GroupIdle.SPubRtmp | GroupIdle.SPubRtsp => true | _ => false end.
Definition judged_write (kd : GroupIdle.skind) : bool :=
  match kd with GroupIdle.SSubRtmp | GroupIdle.SSubRtsp | GroupIdle.SSubFlv | GroupIdle.SSubTs => true | _ => false end.

Notation two64 := 18446744073709551616 (only parsing).
Definition ctr_bounded (c : ctr) : Prop :=
  c_r c < two64 /\ c_w c < two64 /\ (forall r0 w0, stale_of c = Some (r0, w0) -> r0 < two64 /\ w0 < two64).

(* later looks: a publisher / pull is condemned iff its read counter equals the one of the previous
   look, a subscriber / push session iff its write counter does (GroupIdle's theorems) *)
Lemma look_read : forall kd c r0 w0, judged_read kd = true -> stale_of c = Some (r0, w0) -> ctr_bounded c ->
  fst (look kd c) = (c_r c =? r0).
Proof.
  intros kd c r0 w0 Hk Hs [B1 [B2 B3]]. destruct (B3 r0 w0 Hs) as [B4 B5]. unfold look. cbn [fst].
  pose proof (GroupIdleProofs.idle_input_dropped (GroupIdle.mk_sess 0 kd (c_stale c) (c_r c) (c_w c) false) r0 w0 kd) as H.
  cbn [GroupIdle.ss_kind GroupIdle.ss_stat GroupIdle.ss_r GroupIdle.ss_w GroupIdle.ss_closed] in H.
  assert (Hkd : kd = GroupIdle.SPubRtmp \/ kd = GroupIdle.SPubRtsp) by (destruct kd; try discriminate; [left|right]; reflexivity).
  exact (H Hkd eq_refl Hs B1 B2 B4 B5).
Qed.
Lemma look_write : forall kd c r0 w0, judged_write kd = true -> stale_of c = Some (r0, w0) -> ctr_bounded c ->
  fst (look kd c) = (c_w c =? w0).
Proof.
  intros kd c r0 w0 Hk Hs [B1 [B2 B3]]. destruct (B3 r0 w0 Hs) as [B4 B5]. unfold look. cbn [fst].
  pose proof (GroupIdleProofs.stalled_subscriber_dropped (GroupIdle.mk_sess 0 kd (c_stale c) (c_r c) (c_w c) false) r0 w0) as H.
  cbn [GroupIdle.ss_kind GroupIdle.ss_stat GroupIdle.ss_r GroupIdle.ss_w GroupIdle.ss_closed] in H.
  assert (Hkd : kd = GroupIdle.SSubRtmp \/ kd = GroupIdle.SSubRtsp \/ kd = GroupIdle.SSubFlv \/ kd = GroupIdle.SSubTs)
    by (destruct kd; try discriminate; [left|right; left|right; right; left|right; right; right]; reflexivity).
  exact (H Hkd Hs B1 B2 B4 B5).
Qed.
(* without any bound: a read counter that is exactly where the previous look saw it condemns *)
Lemma look_read_idle : forall kd c w0, judged_read kd = true -> stale_of c = Some (c_r c, w0) -> fst (look kd c) = true.
Proof.
  intros kd c w0 Hk Hs. unfold look, GroupIdle.sweep_one, GroupIdle.is_alive. unfold stale_of in Hs.
  cbn [GroupIdle.ss_kind GroupIdle.ss_stat GroupIdle.ss_r GroupIdle.ss_w GroupIdle.ss_closed fst].
  destruct kd; try discriminate; rewrite Hs; cbn [GroupIdle.ss_closed];
    replace (c_r c + 18446744073709551616 - c_r c) with 18446744073709551616 by lia; reflexivity.
Qed.

Lemma look_bounded : forall kd c, ctr_bounded c -> ctr_bounded (snd (look kd c)).
Proof.
  intros kd c [B1 [B2 B3]]. destruct (look_counters kd c) as [E1 E2]. split; [rewrite E1; assumption|]. split; [rewrite E2; assumption|].
  intros r0 w0 Hs. destruct kd; try (rewrite look_stale in Hs by discriminate; inversion Hs; subst; split; assumption).
  unfold look, GroupIdle.sweep_one in Hs. cbn in Hs. apply B3. exact Hs.
Qed.

(* ---- 3. one sweep on the server ---------------------------------------------------------------------- *)
(* what the disposal of a session amounts to *)
Definition victim_ev (e : event) : Prop :=
  match e with EKick _ (KConn _) | EPullDone _ _ | EPushDone _ _ => True | _ => False end.

Lemma push_cands_ev : forall s l t c, In c (push_cands s t l) -> victim_ev (cd_ev c).
Proof.
  intros s l. induction l as [|p r IH]; intros t c H; simpl in H; [contradiction|].
  apply in_app_or in H. destruct H as [H|H]; [|eapply IH; exact H].
  destruct (pu_pushing p && pu_att p); simpl in H; [|contradiction]. destruct H as [H|[]]. subst c. exact I.
Qed.

Lemma cands_ev : forall s g c, In c (cands s g) -> victim_ev (cd_ev c).
Proof.
  intros s g c H. unfold cands in H.
  repeat (apply in_app_or in H; destruct H as [H|H]).
  - destruct (g_rtmp g); simpl in H; [destruct H as [H|[]]; subst c; exact I|contradiction].
  - destruct (g_rtsp g); simpl in H; [destruct H as [H|[]]; subst c; exact I|contradiction].
  - destruct (pp_rtmp (g_pp g)); simpl in H; [destruct H as [H|[]]; subst c; exact I|contradiction].
  - destruct (pp_rtsp (g_pp g)); simpl in H; [destruct H as [H|[]]; subst c; exact I|contradiction].
  - apply in_map_iff in H. destruct H as [kn [E _]]. subst c. exact I.
  - eapply push_cands_ev; exact H.
Qed.

Lemma all_cands_ev : forall st c, In c (all_cands st) -> victim_ev (cd_ev c).
Proof.
  intros st c H. unfold all_cands in H. apply in_flat_map in H. destruct H as [[s g] [_ H]]. eapply cands_ev; exact H.
Qed.

Lemma sweep_cands_in : forall cs ctrs e, In e (fst (sweep_cands cs ctrs)) -> exists c, In c cs /\ cd_ev c = e.
Proof.
  intros cs. induction cs as [|c t IH]; intros ctrs e H; [simpl in H; contradiction|].
  cbn [sweep_cands] in H.
  destruct (look (cd_kind c) (get_ctr (cd_key c) ctrs)) as [dead c'].
  specialize (IH (set_ctr (cd_key c) c' ctrs)).
  destruct (sweep_cands t (set_ctr (cd_key c) c' ctrs)) as [es ctrs']. cbn [fst] in *.
  apply in_app_or in H. destruct H as [H|H].
  - destruct dead; simpl in H; [|contradiction]. destruct H as [H|[]]. exists c. split; [left; reflexivity|assumption].
  - destruct (IH e H) as [c0 [A B]]. exists c0. split; [right; assumption|assumption].
Qed.

Lemma sweep_events_in : forall st ctrs e, In e (fst (sweep_events st ctrs)) -> exists c, In c (all_cands st) /\ cd_ev c = e.
Proof.
  intros st ctrs e H. unfold sweep_events in H.
  pose proof (sweep_cands_in (all_cands st) ctrs e) as Hc.
  destruct (sweep_cands (all_cands st) ctrs) as [es ctrs']. cbn [fst] in *.
  apply Hc. apply in_app_or in H. destruct H as [H|H]; apply filter_In in H; tauto.
Qed.

Lemma sweep_events_victims : forall st ctrs, Forall victim_ev (fst (sweep_events st ctrs)).
Proof.
  intros st ctrs. apply Forall_forall. intros e H. destruct (sweep_events_in st ctrs e H) as [c [A B]].
  subst e. eapply all_cands_ev; exact A.
Qed.

(* the disposal of a session neither removes nor creates a group *)
Lemma victim_step_keys : forall fx cf st e s, victim_ev e ->
  get_group (fst (fst (step fx cf st e))) s = None <-> get_group st s = None.
Proof.
  intros fx cf st e s Hv. destruct e; try contradiction.
  - (* EKick *) destruct t as [n|s' i]; [|contradiction]. cbn [step].
    destruct (get_group st s0) as [g|] eqn:Eg; [|reflexivity].
    unfold kick_group. destruct (find_sess n (st_sess st)) as [x|]; [|reflexivity].
    destruct (s_kind x);
      repeat match goal with |- context[if ?c then _ else _] => destruct c end; cbn [fst]; try reflexivity.
    rewrite get_group_put. destruct (N.eqb s s0) eqn:E; [|reflexivity].
    apply N.eqb_eq in E. subst s0. change (get_group (close_sess st n) s) with (get_group st s) in Eg. rewrite Eg. split; discriminate.
  - (* EPullDone *) cbn [step].
    destruct (find_att s0 i (st_atts st)) as [a|]; [|reflexivity].
    destruct (get_group st s0) as [g|] eqn:Eg; [|reflexivity].
    destruct (a_state a); cbn [fst]; try reflexivity.
    change (get_group (set_att (put_group st s0 (pull_del fx g i)) s0 i AFinished) s) with (get_group (put_group st s0 (pull_del fx g i)) s).
    rewrite get_group_put. destruct (N.eqb s s0) eqn:E; [|reflexivity].
    apply N.eqb_eq in E. subst s0. rewrite Eg. split; discriminate.
  - (* EPushDone *) cbn [step]. unfold push_event.
    destruct (get_group st s0) as [g|] eqn:Eg; [|reflexivity].
    destruct (nth_error (g_push g) t) as [p|]; [|reflexivity].
    destruct (pu_pushing p && Bool.eqb (pu_att p) true); cbn [fst]; [|reflexivity].
    rewrite get_group_put. destruct (N.eqb s s0) eqn:E; [|reflexivity].
    apply N.eqb_eq in E. subst s0. rewrite Eg. split; discriminate.
Qed.

Lemma victims_run_keys : forall fx cf es st s, Forall victim_ev es ->
  get_group (fst (run fx cf st es)) s = None <-> get_group st s = None.
Proof.
  intros fx cf es. induction es as [|e t IH]; intros st s H; [reflexivity|].
  inversion H; subst. cbn [run]. pose proof (victim_step_keys fx cf st e s H2) as H1.
  destruct (step fx cf st e) as [[st1 r] ns]. cbn [fst] in H1. specialize (IH st1 s H3).
  destruct (run fx cf st1 t) as [st2 ns2]. cbn [fst] in *. rewrite IH. exact H1.
Qed.

(* Removal of groups: at every tick - sweep or not - exactly the groups with no input, no output
   session and no relay pull pending disappear. *)
Theorem tick_removes_inactive : forall fx cf ts c s,
  NoDup (map fst (st_groups (t_st ts))) -> st_disposed (t_st ts) = false ->
  get_group (t_st (fst (fst (tstep fx cf ts (TEv (ETick c)))))) s = None <->
  (get_group (t_st ts) s = None \/
   exists g, get_group (t_st ts) s = Some g /\ inactive g (st_now (t_st ts)) = true).
Proof.
  intros fx cf ts c s Hnd Hd.
  assert (H1 : get_group (fst (fst (step fx cf (t_st ts) (ETick c)))) s = None <->
               (get_group (t_st ts) s = None \/ exists g, get_group (t_st ts) s = Some g /\ inactive g (st_now (t_st ts)) = true)).
  { cbn [step]. rewrite Hd.
    pose proof (tick_groups_lookup fx (st_now (t_st ts)) (st_groups (t_st ts)) (st_atts (t_st ts)) (st_cnt (t_st ts)) s Hnd) as Hl.
    destruct (tick_groups fx (st_now (t_st ts)) (st_groups (t_st ts)) (st_atts (t_st ts)) (st_cnt (t_st ts))) as [[[gs atts] cnt] ns].
    cbn [fst] in *. unfold get_group at 1. cbn [st_groups st_set_atts st_set_groups]. rewrite Hl.
    unfold get_group. destruct (lookup s (st_groups (t_st ts))) as [g|].
    - destruct (inactive g (st_now (t_st ts))) eqn:Ei.
      + split; [intros _; right; exists g; split; [reflexivity|assumption]|reflexivity].
      + split; [discriminate|]. intros [H|[g0 [A B]]]; [discriminate|]. inversion A; subst. congruence.
    - split; [left; reflexivity|reflexivity]. }
  cbn [tstep]. destruct (step fx cf (t_st ts) (ETick c)) as [[st1 r] ns] eqn:Es. cbn [fst] in H1.
  destruct ((c mod sweep_interval =? 0) && negb (st_disposed (t_st ts))).
  - pose proof (sweep_events_victims st1 (t_ctr ts)) as Hv.
    destruct (sweep_events st1 (t_ctr ts)) as [es ctrs]. cbn [fst] in Hv.
    pose proof (victims_run_keys fx cf es st1 s Hv) as Hk.
    destruct (run fx cf st1 es) as [st2 ns2]. cbn [fst t_st] in *. rewrite Hk. exact H1.
  - cbn [fst t_st]. exact H1.
Qed.

(* ... which is: no input, no output, no pull pending (GroupIdle.group_inactive) *)
Lemma inactive_is_group_inactive : forall g now,
  inactive g now = GroupIdle.group_inactive (has_in g) (has_out g) (pull_alive g now).
Proof. reflexivity. Qed.

(* a name whose group was removed is served by a new Group in its initial state *)
Lemma removed_name_fresh : forall cf st s, get_group st s = None ->
  get_or_create cf st s =
  (st_set_gid (put_group st s (new_group cf (st_gid st + 1) (st_now st))) (st_gid st + 1),
   new_group cf (st_gid st + 1) (st_now st)).
Proof. intros cf st s H. unfold get_or_create. rewrite H. reflexivity. Qed.

(* ---- 3b. the closes of one sweep ------------------------------------------------------------------------ *)
(* kick_session finds the session in the group *)
Definition kick_hits (g : group) (x : sess) (n : N) : bool :=
  match s_kind x with
  | KRtmpPub | KRtmpSub => opt_is (g_rtmp g) n || in_subs SkRtmp n (g_subs g)
  | KRtspPub => opt_is (g_rtsp g) n
  | KFlvSub => in_subs SkFlv n (g_subs g)
  | KTsSub => in_subs SkTs n (g_subs g)
  | KRtspSub => in_subs SkRtsp n (g_subs g)
  | KPsPub | KCustPub => false
  end.

(* ... and closes its connection: nothing else in the server changes *)
Lemma step_kick_hit : forall fx cf st s n g x,
  get_group st s = Some g -> find_sess n (st_sess st) = Some x -> kick_hits g x n = true ->
  step fx cf st (EKick s (KConn n)) = (close_sess st n, RCode 0 RsNone None, []).
Proof.
  intros fx cf st s n g x Hg Hx Hh. cbn [step]. rewrite Hg. unfold kick_group. rewrite Hx.
  unfold kick_hits in Hh. destruct (s_kind x); try discriminate; rewrite Hh; reflexivity.
Qed.

Definition kick_ok (st : state) (e : event) : Prop :=
  match e with
  | EKick s (KConn n) => exists g x, get_group st s = Some g /\ find_sess n (st_sess st) = Some x /\ kick_hits g x n = true
  | _ => False
  end.
Definition kick_target (e : event) : list N := match e with EKick _ (KConn n) => [n] | _ => [] end.

Lemma find_sess_close : forall st m n,
  find_sess n (st_sess (close_sess st m)) =
  if N.eqb n m then option_map s_set_closed (find_sess n (st_sess st)) else find_sess n (st_sess st).
Proof. intros. unfold close_sess. cbn [st_sess st_set_sess]. apply find_sess_upd. reflexivity. Qed.

Lemma kick_ok_close : forall st e m, kick_ok st e -> kick_ok (close_sess st m) e.
Proof.
  intros st e m H. destruct e; try contradiction. destruct t as [n|]; [|contradiction].
  destruct H as [g [x [A [B C]]]]. unfold kick_ok. rewrite find_sess_close.
  destruct (N.eqb n m).
  - exists g, (s_set_closed x). split; [exact A|]. split; [rewrite B; reflexivity|exact C].
  - exists g, x. split; [exact A|]. split; assumption.
Qed.

Lemma run_kicks : forall fx cf es st, Forall (kick_ok st) es ->
  run fx cf st es = (fold_left close_sess (flat_map kick_target es) st, []).
Proof.
  intros fx cf es. induction es as [|e t IH]; intros st H; [reflexivity|].
  inversion H; subst. destruct e; try contradiction. destruct t0 as [n|]; [|contradiction].
  destruct H2 as [g [x [A [B C]]]]. cbn [run]. rewrite (step_kick_hit fx cf st s n g x A B C).
  rewrite (IH (close_sess st n)).
  - reflexivity.
  - eapply Forall_impl; [|exact H3]. intros e He. apply kick_ok_close. exact He.
Qed.

Lemma fold_close_groups : forall l st, st_groups (fold_left close_sess l st) = st_groups st.
Proof. induction l as [|m t IH]; intros st; [reflexivity|]. simpl. rewrite IH. reflexivity. Qed.

Lemma fold_close_find : forall l st n x, find_sess n (st_sess st) = Some x ->
  exists x', find_sess n (st_sess (fold_left close_sess l st)) = Some x' /\
             s_kind x' = s_kind x /\ (s_closed x = true \/ In n l -> s_closed x' = true) /\
             (s_closed x' = true -> s_closed x = true \/ In n l).
Proof.
  induction l as [|m t IH]; intros st n x H.
  - exists x. split; [exact H|]. split; [reflexivity|]. split; [intros [A|[]]; exact A|intro A; left; exact A].
  - simpl. pose proof (find_sess_close st m n) as Hc. rewrite H in Hc. simpl in Hc.
    destruct (N.eqb n m) eqn:E.
    + destruct (IH (close_sess st m) n (s_set_closed x) Hc) as [x' [A [B [C D]]]].
      exists x'. split; [exact A|]. split; [exact B|]. split.
      * intros _. apply C. left. reflexivity.
      * intros _. right. left. apply N.eqb_eq in E. congruence.
    + destruct (IH (close_sess st m) n x Hc) as [x' [A [B [C D]]]].
      exists x'. split; [exact A|]. split; [exact B|]. split.
      * intros [P|[P|P]]; [apply C; left; exact P| |apply C; right; exact P].
        apply N.eqb_neq in E. congruence.
      * intros P. destruct (D P) as [Q|Q]; [left; exact Q|right; right; exact Q].
Qed.

(* the Dels of relay sessions leave the session table alone *)
Definition del_ev (e : event) : Prop := match e with EPullDone _ _ | EPushDone _ _ => True | _ => False end.

Lemma del_step_sess : forall fx cf st e, del_ev e -> st_sess (fst (fst (step fx cf st e))) = st_sess st.
Proof.
  intros fx cf st e H. destruct e; try contradiction; cbn [step].
  - destruct (find_att s i (st_atts st)) as [a|]; [|reflexivity].
    destruct (get_group st s) as [g|]; [|reflexivity]. destruct (a_state a); reflexivity.
  - unfold push_event. destruct (get_group st s) as [g|]; [|reflexivity].
    destruct (nth_error (g_push g) t) as [p|]; [|reflexivity].
    destruct (pu_pushing p && Bool.eqb (pu_att p) true); reflexivity.
Qed.

Lemma dels_run_sess : forall fx cf es st, Forall del_ev es -> st_sess (fst (run fx cf st es)) = st_sess st.
Proof.
  intros fx cf es. induction es as [|e t IH]; intros st H; [reflexivity|].
  inversion H; subst. cbn [run]. pose proof (del_step_sess fx cf st e H2) as H1.
  destruct (step fx cf st e) as [[st1 r] ns]. cbn [fst] in H1. specialize (IH st1 H3).
  destruct (run fx cf st1 t) as [st2 ns2]. cbn [fst] in *. congruence.
Qed.

(* their notifications are about pull attempts only *)
Lemma del_step_notes : forall fx cf st e x, del_ev e -> In x (snd (step fx cf st e)) -> exists s i, n_who x = WAtt s i.
Proof.
  intros fx cf st e x H Hin. destruct e; try contradiction; cbn [step] in Hin.
  - destruct (find_att s i (st_atts st)) as [a|]; [|contradiction].
    destruct (get_group st s) as [g|]; [|contradiction]. destruct (a_state a); cbn in Hin; try contradiction.
    destruct Hin as [Hin|[]]. subst x. exists s, i. reflexivity.
  - destruct (push_event st s t true (mk_push false false)) as [st1 r]. contradiction.
Qed.

Lemma dels_run_notes : forall fx cf es st x, Forall del_ev es -> In x (snd (run fx cf st es)) -> exists s i, n_who x = WAtt s i.
Proof.
  intros fx cf es. induction es as [|e t IH]; intros st x H Hin; [contradiction|].
  inversion H; subst. cbn [run] in Hin. pose proof (del_step_notes fx cf st e x H2) as H1.
  destruct (step fx cf st e) as [[st1 r] ns]. cbn [snd] in H1. specialize (IH st1 x H3).
  destruct (run fx cf st1 t) as [st2 ns2]. cbn [snd] in *. apply in_app_or in Hin. destruct Hin; auto.
Qed.

(* a publisher is the input: no relay pull is attached *)
Definition pub_only (g : group) : Prop := has_pub g = true /\ pp_rtmp (g_pp g) = None /\ pp_rtsp (g_pp g) = None.

Lemma pub_only_of_slots_ok : forall g, slots_ok g -> has_pub g = true -> pub_only g.
Proof.
  intros g Hok Hp. split; [exact Hp|].
  destruct (has_pull g) eqn:E.
  - exfalso. unfold has_pub in Hp.
    pose proof (slots_ok_pull_nopub g PsRtmp Hok E) as A. pose proof (slots_ok_pull_nopub g PsRtsp Hok E) as B.
    pose proof (slots_ok_pull_nopub g PsCust Hok E) as C. pose proof (slots_ok_pull_nopub g PsPs Hok E) as D.
    simpl in A, B, C, D. rewrite A, B, C, D in Hp. discriminate.
  - unfold has_pull in E. destruct (pp_rtmp (g_pp g)), (pp_rtsp (g_pp g)); simpl in E; try discriminate. split; reflexivity.
Qed.

Lemma pub_only_sim : forall g g', sim g g' -> pub_only g -> pub_only g'.
Proof.
  unfold sim, pub_only, slots, has_pub. intros g g' [E _] [A [B C]]. inversion E as [[E1 E2 E3 E4 E5 E6]].
  rewrite E1, E2, E3, E4, E5, E6. repeat split; assumption.
Qed.

Lemma pub_only_has_in : forall g, pub_only g -> has_in g = true.
Proof. unfold pub_only, has_in. intros g [A _]. rewrite A. reflexivity. Qed.

Lemma del_step_keeps : forall cf st e s g, del_ev e -> get_group st s = Some g -> pub_only g ->
  keeps s g (fst (fst (step fixed_tree cf st e))).
Proof.
  intros cf st e s g H Hg Hp. destruct e; try contradiction.
  - apply (foreign_event_step fixed_tree eq_refl eq_refl cf st (EPullDone s0 i) (SAtt s0 i) s g eq_refl Hg (pub_only_has_in g Hp)).
    destruct Hp as [_ [A B]]. simpl. rewrite A, B. simpl. apply andb_false_r.
  - cbn [step]. unfold push_event. destruct (get_group st s0) as [g0|] eqn:E0; [|apply keeps_here; assumption].
    destruct (nth_error (g_push g0) t) as [p|]; [|apply keeps_here; assumption].
    destruct (pu_pushing p && Bool.eqb (pu_att p) true); cbn [fst]; [|apply keeps_here; assumption].
    destruct (N.eq_dec s0 s) as [->|Hne].
    + rewrite Hg in E0. inversion E0; subst g0. apply keeps_put_same. repeat split.
    + apply keeps_put_other; [congruence|apply keeps_here; assumption].
Qed.

Lemma dels_run_keeps : forall cf es st s g, Forall del_ev es -> get_group st s = Some g -> pub_only g ->
  keeps s g (fst (run fixed_tree cf st es)).
Proof.
  intros cf es. induction es as [|e t IH]; intros st s g H Hg Hp; [apply keeps_here; assumption|].
  inversion H; subst. cbn [run]. pose proof (del_step_keeps cf st e s g H2 Hg Hp) as [g1 [Hg1 Hs1]].
  destruct (step fixed_tree cf st e) as [[st1 r] ns]. cbn [fst] in Hg1.
  pose proof (IH st1 s g1 H3 Hg1 (pub_only_sim g g1 Hs1 Hp)) as [g2 [Hg2 Hs2]].
  destruct (run fixed_tree cf st1 t) as [st2 ns2]. cbn [fst] in *.
  exists g2. split; [exact Hg2|eapply sim_trans; eassumption].
Qed.

(* ---- 3c. a tick and an accepted publisher ------------------------------------------------------------------ *)
Lemma sim_start_push : forall g, sim g (start_push g).
Proof.
  intros g. unfold start_push. destruct (g_push g); [apply sim_refl|].
  destruct (is_some (g_rtmp g) || is_some (g_rtsp g)); [repeat split|apply sim_refl].
Qed.

(* Group.Tick leaves the input side of a group whose input is a publisher alone and reports nothing *)
Lemma tick_group_pub_sim : forall fx s g now, pub_only g ->
  sim g (fst (fst (fst (tick_group fx s g now)))) /\ snd (tick_group fx s g now) = [].
Proof.
  intros fx s g now [Hp [A B]]. unfold tick_group, tick_pull.
  set (g1 := if has_sub g then g_set_pp g (pp_set_last (g_pp g) now) else g).
  assert (E1 : pp_rtmp (g_pp g1) = None /\ pp_rtsp (g_pp g1) = None /\ sim g g1).
  { subst g1. destruct (has_sub g); simpl; repeat split; assumption. }
  destruct E1 as [A1 [B1 S1]].
  destruct (should_auto_stop g1 now).
  - unfold stop_pull. cbn [pp_rtmp pp_rtsp pp_set_count g_pp g_set_pp]. rewrite A1, B1. cbn [fst snd].
    split; [|reflexivity]. eapply sim_trans; [exact S1|]. eapply sim_trans; [|apply sim_start_push]. repeat split.
  - unfold pull_if_needed. destruct (should_start g1 now) as [[|] r]; cbn [fst snd]; (split; [|reflexivity]).
    + eapply sim_trans; [exact S1|]. eapply sim_trans; [|apply sim_start_push]. repeat split.
    + eapply sim_trans; [exact S1|]. apply sim_start_push.
Qed.

Lemma In_lookup : forall A k (v : A) l, NoDup (map fst l) -> In (k, v) l -> lookup k l = Some v.
Proof.
  intros A k v l. induction l as [|[k' v'] t IH]; intros Hnd Hin; [contradiction|].
  simpl in Hnd. inversion Hnd; subst. simpl. destruct Hin as [Hin|Hin].
  - inversion Hin; subst. rewrite N.eqb_refl. reflexivity.
  - destruct (N.eqb k k') eqn:E.
    + apply N.eqb_eq in E. subst k'. exfalso. apply H1. apply in_map_iff. exists (k, v). split; [reflexivity|assumption].
    + apply IH; assumption.
Qed.

Lemma tick_step_groups : forall fx cf st c s, NoDup (map fst (st_groups st)) -> st_disposed st = false ->
  get_group (fst (fst (step fx cf st (ETick c)))) s =
  match get_group st s with
  | Some g => if inactive g (st_now st) then None else Some (fst (fst (fst (tick_group fx s g (st_now st)))))
  | None => None
  end.
Proof.
  intros fx cf st c s Hnd Hd. cbn [step]. rewrite Hd.
  pose proof (tick_groups_lookup fx (st_now st) (st_groups st) (st_atts st) (st_cnt st) s Hnd) as Hl.
  destruct (tick_groups fx (st_now st) (st_groups st) (st_atts st) (st_cnt st)) as [[[gs atts] cnt] ns].
  cbn [fst] in *. unfold get_group at 1. cbn [st_groups st_set_atts st_set_groups]. exact Hl.
Qed.

Lemma tick_step_keeps_pub : forall fx cf st c s g, NoDup (map fst (st_groups st)) -> st_disposed st = false ->
  get_group st s = Some g -> pub_only g -> keeps s g (fst (fst (step fx cf st (ETick c)))).
Proof.
  intros fx cf st c s g Hnd Hd Hg Hp. unfold keeps. rewrite (tick_step_groups fx cf st c s Hnd Hd), Hg.
  assert (Hi : inactive g (st_now st) = false) by (unfold inactive; rewrite (pub_only_has_in g Hp); reflexivity).
  rewrite Hi. eexists. split; [reflexivity|]. apply (tick_group_pub_sim fx s g (st_now st) Hp).
Qed.

Lemma tick_step_notes : forall fx cf st c x, In x (snd (step fx cf st (ETick c))) -> exists s i, n_who x = WAtt s i.
Proof.
  intros fx cf st c x H. cbn [step] in H. destruct (st_disposed st); [contradiction|].
  pose proof (tick_groups_notes fx (st_now st) (st_groups st) (st_atts st) (st_cnt st) x) as Hn.
  destruct (tick_groups fx (st_now st) (st_groups st) (st_atts st) (st_cnt st)) as [[[gs atts] cnt] ns].
  cbn [snd] in *. apply Hn. exact H.
Qed.

(* ---- 3d. the candidates of a sweep, in a state of the invariant --------------------------------------------- *)
Lemma in_subs_In : forall k n l, In (k, n) l -> in_subs k n l = true.
Proof.
  intros k n l H. unfold in_subs. apply existsb_exists. exists (k, n). split; [exact H|].
  simpl. rewrite N.eqb_refl. destruct k; reflexivity.
Qed.

Lemma opt_is_some : forall n, opt_is (Some n) n = true.
Proof. intro n. simpl. apply N.eqb_refl. Qed.

Lemma cand_kick_ok : forall st log c, INV_S st log -> In c (all_cands st) -> is_kick (cd_ev c) = true -> kick_ok st (cd_ev c).
Proof.
  intros st log c Hinv Hin Hk. unfold all_cands in Hin. apply in_flat_map in Hin. destruct Hin as [[s g] [Hsg Hc]].
  assert (Hg : get_group st s = Some g) by (apply In_lookup; [apply (inv_keys _ _ Hinv)|exact Hsg]).
  destruct (inv_entry _ _ Hinv s g Hg) as [E1 E2]. cbn [fst snd] in Hc. unfold cands in Hc.
  assert (Hpub : forall sl n, get_slot g sl = Some n -> (sl = PsRtmp \/ sl = PsRtsp) -> kick_ok st (EKick s (KConn n))).
  { intros sl n Hs Hsl. pose proof (E1 sl n Hs) as Hv. destruct (vsess_found st n _ Hv) as [x [Hx Hcore]].
    unfold core in Hcore. injection Hcore as K1 K2 K3 K4. exists g, x. split; [exact Hg|]. split; [exact Hx|].
    unfold kick_hits. rewrite K1. destruct Hsl; subst sl; simpl in Hs |- *; rewrite Hs, opt_is_some; reflexivity. }
  repeat (apply in_app_or in Hc; destruct Hc as [Hc|Hc]).
  - destruct (g_rtmp g) as [n|] eqn:En; simpl in Hc; [|contradiction]. destruct Hc as [Hc|[]]. subst c. cbn [cd_ev].
    apply (Hpub PsRtmp n En). left; reflexivity.
  - destruct (g_rtsp g) as [n|] eqn:En; simpl in Hc; [|contradiction]. destruct Hc as [Hc|[]]. subst c. cbn [cd_ev].
    apply (Hpub PsRtsp n En). right; reflexivity.
  - destruct (pp_rtmp (g_pp g)); simpl in Hc; [destruct Hc as [Hc|[]]; subst c; discriminate|contradiction].
  - destruct (pp_rtsp (g_pp g)); simpl in Hc; [destruct Hc as [Hc|[]]; subst c; discriminate|contradiction].
  - apply in_map_iff in Hc. destruct Hc as [[k n] [Ec Hkn]]. subst c. cbn [cd_ev fst snd].
    destruct (E2 k n Hkn) as [kd [Hsub Hv]]. destruct (vsess_found st n _ Hv) as [x [Hx Hcore]].
    unfold core in Hcore. injection Hcore as K1 K2 K3 K4. exists g, x. split; [exact Hg|]. split; [exact Hx|].
    unfold kick_hits. rewrite K1. pose proof (in_subs_In k n (g_subs g) Hkn) as Hi.
    destruct kd; simpl in Hsub; inversion Hsub; subst k; try exact Hi. rewrite Hi. apply orb_true_r.
  - exfalso. clear - Hc Hk. revert Hc. generalize 0%nat. induction (g_push g) as [|p r IH]; intros t Hc; [contradiction|].
    simpl in Hc. apply in_app_or in Hc. destruct Hc as [Hc|Hc]; [|eapply IH; exact Hc].
    destruct (pu_pushing p && pu_att p); simpl in Hc; [|contradiction]. destruct Hc as [Hc|[]]. subst c. discriminate.
Qed.

(* a candidate whose judged counter is where the previous look left it is condemned *)
Definition read_idle (c : ctr) : Prop := exists w0, stale_of c = Some (c_r c, w0).

Lemma look_keeps_read_idle : forall kd c0, read_idle c0 -> read_idle (snd (look kd c0)).
Proof.
  intros kd c0 [w0 H]. destruct kd; try (exists (c_w c0); rewrite look_stale by discriminate; reflexivity).
  exists w0. unfold look, GroupIdle.sweep_one. cbn. exact H.
Qed.

Lemma sweep_cands_idle_read : forall cs ctrs c, In c cs -> judged_read (cd_kind c) = true ->
  read_idle (get_ctr (cd_key c) ctrs) -> In (cd_ev c) (fst (sweep_cands cs ctrs)).
Proof.
  intros cs. induction cs as [|c0 t IH]; intros ctrs c Hin Hk Hi; [contradiction|].
  cbn [sweep_cands]. destruct (look (cd_kind c0) (get_ctr (cd_key c0) ctrs)) as [dead c'] eqn:El.
  assert (Hi' : read_idle (get_ctr (cd_key c) (set_ctr (cd_key c0) c' ctrs))).
  { destruct (ckey_eqb (cd_key c) (cd_key c0)) eqn:E.
    - apply ckey_eqb_eq in E. rewrite E, get_set_same. rewrite E in Hi.
      replace c' with (snd (look (cd_kind c0) (get_ctr (cd_key c0) ctrs))) by (rewrite El; reflexivity).
      apply look_keeps_read_idle. exact Hi.
    - rewrite get_set_other; [exact Hi|]. intro H. rewrite H, ckey_eqb_refl in E. discriminate. }
  specialize (IH (set_ctr (cd_key c0) c' ctrs) c).
  destruct (sweep_cands t (set_ctr (cd_key c0) c' ctrs)) as [es ctrs']. cbn [fst] in *.
  apply in_or_app. destruct Hin as [Hin|Hin].
  - subst c0. left. destruct Hi as [w0 Hs].
    assert (Hd : dead = true).
    { replace dead with (fst (look (cd_kind c) (get_ctr (cd_key c) ctrs))) by (rewrite El; reflexivity).
      eapply look_read_idle; eassumption. }
    rewrite Hd. left. reflexivity.
  - right. apply IH; assumption.
Qed.

(* An accepted RTMP / RTSP publisher whose read counter has not moved since the previous look is
   closed by the next sweep - and only closed: it stays the accepted input of its stream (slots,
   pipeline, Group object) until its shell reports, and the tick emits no notification about it. *)
Theorem idle_publisher_closed : forall cf ts log c s g n,
  INV_S (t_st ts) log -> st_disposed (t_st ts) = false -> c mod sweep_interval = 0 ->
  get_group (t_st ts) s = Some g -> (g_rtmp g = Some n \/ g_rtsp g = Some n) ->
  read_idle (get_ctr (CConn n) (t_ctr ts)) ->
  let r := tstep fixed_tree cf ts (TEv (ETick c)) in
  (exists x, find_sess n (st_sess (t_st (fst (fst r)))) = Some x /\ s_closed x = true) /\
  keeps s g (t_st (fst (fst r))) /\
  word (snd r) (WConn n) = [].
Proof.
  intros cf ts log c s g n Hinv Hd Hc Hg Hslot Hidle r. subst r.
  pose proof (inv_keys _ _ Hinv) as Hnd.
  assert (Hp : pub_only g).
  { apply pub_only_of_slots_ok; [apply (inv_slots _ _ Hinv s g Hg)|].
    unfold has_pub. destruct Hslot as [E|E]; rewrite E; simpl; [reflexivity|destruct (is_some (g_rtmp g)); reflexivity]. }
  pose proof (tick_step_keeps_pub fixed_tree cf (t_st ts) c s g Hnd Hd Hg Hp) as [g1 [Hg1 Hs1]].
  pose proof (inv_s_step cf (t_st ts) log (ETick c) Hinv) as Hinv1.
  pose proof (tick_step_notes fixed_tree cf (t_st ts) c) as Hn1.
  cbn [tstep]. destruct (step fixed_tree cf (t_st ts) (ETick c)) as [[st1 r1] ns] eqn:Es. cbn [fst snd] in *.
  apply N.eqb_eq in Hc. rewrite Hc, Hd. cbn [andb negb].
  (* the publisher is a candidate of the sweep *)
  assert (Hslot1 : g_rtmp g1 = Some n \/ g_rtsp g1 = Some n).
  { destruct Hs1 as [Hsl _]. unfold slots in Hsl. inversion Hsl as [[A B C D E F]]. rewrite A, B. exact Hslot. }
  assert (Hsg1 : In (s, g1) (st_groups st1)) by (apply lookup_In; exact Hg1).
  set (cd := mk_cand (CConn n) (if is_some (g_rtmp g1) && opt_is (g_rtmp g1) n then GroupIdle.SPubRtmp else GroupIdle.SPubRtsp) (EKick s (KConn n))).
  assert (Hcd : In cd (all_cands st1) /\ judged_read (cd_kind cd) = true).
  { split; [|subst cd; cbn [cd_kind]; destruct (is_some (g_rtmp g1) && opt_is (g_rtmp g1) n); reflexivity].
    unfold all_cands. apply in_flat_map. exists (s, g1). split; [exact Hsg1|]. cbn [fst snd]. unfold cands.
    destruct (g_rtmp g1) as [a|] eqn:Ea.
    - destruct Hslot1 as [E|E].
      + inversion E; subst a. apply in_or_app. left. subst cd. cbn [is_some andb]. rewrite opt_is_some. left. reflexivity.
      + (* both publisher slots cannot be occupied *)
        exfalso. pose proof (inv_slots _ _ Hinv1 s g1 Hg1) as Hok.
        pose proof (slots_ok_two g1 PsRtmp PsRtsp a n Hok Ea E). discriminate.
    - destruct Hslot1 as [E|E]; [discriminate|]. apply in_or_app. right. apply in_or_app. left.
      rewrite E. subst cd. cbn [is_some andb]. left. reflexivity. }
  destruct Hcd as [Hcd1 Hcd2].
  pose proof (sweep_cands_idle_read (all_cands st1) (t_ctr ts) cd Hcd1 Hcd2 Hidle) as Hvict. cbn [cd_ev cd] in Hvict.
  unfold sweep_events.
  pose proof (sweep_cands_in (all_cands st1) (t_ctr ts)) as Hfrom.
  destruct (sweep_cands (all_cands st1) (t_ctr ts)) as [es ctrs']. cbn [fst] in *.
  set (kicks := filter is_kick es). set (dels := filter (fun e => negb (is_kick e)) es).
  assert (Hkicks : Forall (kick_ok st1) kicks).
  { apply Forall_forall. intros e He. apply filter_In in He. destruct He as [He Hk].
    destruct (Hfrom e He) as [c0 [Hc0 Ec0]]. subst e. eapply cand_kick_ok; eassumption. }
  assert (Hdels : Forall del_ev dels).
  { apply Forall_forall. intros e He. apply filter_In in He. destruct He as [He Hk].
    destruct (Hfrom e He) as [c0 [Hc0 Ec0]]. pose proof (all_cands_ev st1 c0 Hc0) as Hv. rewrite Ec0 in Hv.
    destruct e; try contradiction; try exact I. destruct t; [discriminate|contradiction]. }
  rewrite (run_app fixed_tree cf kicks dels st1), (run_kicks fixed_tree cf kicks st1 Hkicks). cbn [fst snd t_st app].
  set (stk := fold_left close_sess (flat_map kick_target kicks) st1).
  assert (Hn_in : In n (flat_map kick_target kicks)).
  { apply in_flat_map. exists (EKick s (KConn n)). split; [|left; reflexivity].
    apply filter_In. split; [exact Hvict|reflexivity]. }
  (* the session of n *)
  destruct (inv_entry _ _ Hinv1 s g1 Hg1) as [E1 _].
  assert (Hv : exists x1, find_sess n (st_sess st1) = Some x1).
  { destruct Hslot1 as [E|E]; [pose proof (E1 PsRtmp n E) as V|pose proof (E1 PsRtsp n E) as V];
      destruct (vsess_found st1 n _ V) as [x1 [Hx1 _]]; exists x1; exact Hx1. }
  destruct Hv as [x1 Hx1].
  destruct (fold_close_find (flat_map kick_target kicks) st1 n x1 Hx1) as [x' [Hx' [_ [Hcl _]]]].
  split; [|split].
  - exists x'. split; [|apply Hcl; right; exact Hn_in].
    rewrite (dels_run_sess fixed_tree cf dels stk Hdels). exact Hx'.
  - assert (Hgk : get_group stk s = Some g1) by (unfold get_group; subst stk; rewrite fold_close_groups; exact Hg1).
    pose proof (dels_run_keeps cf dels stk s g1 Hdels Hgk (pub_only_sim g g1 Hs1 Hp)) as [g2 [Hg2 Hs2]].
    exists g2. split; [exact Hg2|eapply sim_trans; eassumption].
  - rewrite word_app. rewrite (word_conn_notes_att ns Hn1 n). cbn [app].
    apply word_conn_notes_att. intros y Hy. eapply dels_run_notes; [exact Hdels|exact Hy].
Qed.

(* ---- 3e. a tick - sweep or not - never disturbs an accepted publisher ------------------------------------------- *)
Lemma sweep_events_split : forall st ctrs log, INV_S st log ->
  exists kicks dels, fst (sweep_events st ctrs) = kicks ++ dels /\ Forall (kick_ok st) kicks /\ Forall del_ev dels.
Proof.
  intros st ctrs log Hinv. unfold sweep_events.
  pose proof (sweep_cands_in (all_cands st) ctrs) as Hfrom.
  destruct (sweep_cands (all_cands st) ctrs) as [es ctrs']. cbn [fst] in *.
  exists (filter is_kick es), (filter (fun e => negb (is_kick e)) es). split; [reflexivity|]. split.
  - apply Forall_forall. intros e He. apply filter_In in He. destruct He as [He Hk].
    destruct (Hfrom e He) as [c0 [Hc0 Ec0]]. subst e. eapply cand_kick_ok; eassumption.
  - apply Forall_forall. intros e He. apply filter_In in He. destruct He as [He Hk].
    destruct (Hfrom e He) as [c0 [Hc0 Ec0]]. pose proof (all_cands_ev st c0 Hc0) as Hv. rewrite Ec0 in Hv.
    destruct e; try contradiction; try exact I. destruct t; [discriminate|contradiction].
Qed.

Lemma sweep_run_keeps : forall cf st log ctrs s g, INV_S st log -> get_group st s = Some g -> pub_only g ->
  keeps s g (fst (run fixed_tree cf st (fst (sweep_events st ctrs)))).
Proof.
  intros cf st log ctrs s g Hinv Hg Hp.
  destruct (sweep_events_split st ctrs log Hinv) as [kicks [dels [E [Hk Hdl]]]]. rewrite E.
  rewrite (run_app fixed_tree cf kicks dels st), (run_kicks fixed_tree cf kicks st Hk). cbn [fst].
  apply dels_run_keeps; [exact Hdl| |exact Hp]. unfold get_group. rewrite fold_close_groups. exact Hg.
Qed.

Theorem tick_keeps_publisher : forall cf ts log c s g,
  INV_S (t_st ts) log -> get_group (t_st ts) s = Some g -> has_pub g = true ->
  keeps s g (t_st (fst (fst (tstep fixed_tree cf ts (TEv (ETick c)))))).
Proof.
  intros cf ts log c s g Hinv Hg Hpub.
  assert (Hp : pub_only g) by (apply pub_only_of_slots_ok; [apply (inv_slots _ _ Hinv s g Hg)|exact Hpub]).
  destruct (st_disposed (t_st ts)) eqn:Hd.
  - (* the ticker has stopped *)
    cbn [tstep step]. rewrite Hd, andb_false_r. cbn [fst t_st]. apply keeps_here. exact Hg.
  - pose proof (tick_step_keeps_pub fixed_tree cf (t_st ts) c s g (inv_keys _ _ Hinv) Hd Hg Hp) as [g1 [Hg1 Hs1]].
    pose proof (inv_s_step cf (t_st ts) log (ETick c) Hinv) as Hinv1.
    cbn [tstep]. destruct (step fixed_tree cf (t_st ts) (ETick c)) as [[st1 r1] ns] eqn:Es. cbn [fst snd] in *.
    rewrite Hd. destruct ((c mod sweep_interval =? 0) && negb false).
    + pose proof (sweep_run_keeps cf st1 _ (t_ctr ts) s g1 Hinv1 Hg1 (pub_only_sim g g1 Hs1 Hp)) as [g2 [Hg2 Hs2]].
      destruct (sweep_events st1 (t_ctr ts)) as [es ctrs]. cbn [fst] in *.
      destruct (run fixed_tree cf st1 es) as [st2 ns2]. cbn [fst t_st] in *.
      exists g2. split; [exact Hg2|eapply sim_trans; eassumption].
    + cbn [fst t_st]. exists g1. split; assumption.
Qed.

(* ---- 4. two consecutive sweeps ------------------------------------------------------------------------------------- *)
Lemma trun_app : forall fx cf h1 h2 ts,
  trun fx cf ts (h1 ++ h2) =
  (fst (trun fx cf (fst (trun fx cf ts h1)) h2), snd (trun fx cf ts h1) ++ snd (trun fx cf (fst (trun fx cf ts h1)) h2)).
Proof.
  intros fx cf h1. induction h1 as [|e t IH]; intros h2 ts; simpl.
  - destruct (trun fx cf ts h2); reflexivity.
  - destruct (tstep fx cf ts e) as [[ts1 r] ns]. rewrite (IH h2 ts1).
    destruct (trun fx cf ts1 t) as [c d]. simpl. rewrite app_assoc. reflexivity.
Qed.

(* a sweep leaves every counter where it was; every candidate has been looked at *)
Lemma sweep_cands_counters : forall cs ctrs k,
  c_r (get_ctr k (snd (sweep_cands cs ctrs))) = c_r (get_ctr k ctrs) /\
  c_w (get_ctr k (snd (sweep_cands cs ctrs))) = c_w (get_ctr k ctrs).
Proof.
  intros cs. induction cs as [|c t IH]; intros ctrs k; [split; reflexivity|].
  cbn [sweep_cands]. destruct (look (cd_kind c) (get_ctr (cd_key c) ctrs)) as [dead c'] eqn:El.
  specialize (IH (set_ctr (cd_key c) c' ctrs) k).
  destruct (sweep_cands t (set_ctr (cd_key c) c' ctrs)) as [es ctrs']. cbn [snd] in *.
  destruct IH as [A B]. rewrite A, B.
  destruct (ckey_eqb k (cd_key c)) eqn:E.
  - apply ckey_eqb_eq in E. subst k. rewrite get_set_same.
    replace c' with (snd (look (cd_kind c) (get_ctr (cd_key c) ctrs))) by (rewrite El; reflexivity). apply look_counters.
  - rewrite get_set_other; [split; reflexivity|]. intro H. rewrite H, ckey_eqb_refl in E. discriminate.
Qed.

Lemma sweep_cands_looked : forall cs ctrs c, In c cs -> cd_kind c <> GroupIdle.SPush ->
  exists w0, stale_of (get_ctr (cd_key c) (snd (sweep_cands cs ctrs))) = Some (c_r (get_ctr (cd_key c) ctrs), w0).
Proof.
  intros cs. induction cs as [|c0 t IH]; intros ctrs c Hin Hk; [contradiction|].
  cbn [sweep_cands]. destruct (look (cd_kind c0) (get_ctr (cd_key c0) ctrs)) as [dead c'] eqn:El.
  pose proof (sweep_cands_counters t (set_ctr (cd_key c0) c' ctrs)) as Hcnt.
  assert (Hc' : c' = snd (look (cd_kind c0) (get_ctr (cd_key c0) ctrs))) by (rewrite El; reflexivity).
  destruct Hin as [Hin|Hin].
  - subst c0.
    (* after this look the counter is read-idle; later looks keep that *)
    assert (Hi : read_idle (get_ctr (cd_key c) (set_ctr (cd_key c) c' ctrs))).
    { rewrite get_set_same, Hc'. exists (c_w (get_ctr (cd_key c) ctrs)). rewrite look_stale by exact Hk.
      destruct (look_counters (cd_kind c) (get_ctr (cd_key c) ctrs)) as [A _]. rewrite A. reflexivity. }
    assert (Hgen : forall cs2 ctrs2, read_idle (get_ctr (cd_key c) ctrs2) -> read_idle (get_ctr (cd_key c) (snd (sweep_cands cs2 ctrs2)))).
    { clear. intros cs2. induction cs2 as [|c2 t2 IH2]; intros ctrs2 H; [exact H|].
      cbn [sweep_cands]. destruct (look (cd_kind c2) (get_ctr (cd_key c2) ctrs2)) as [d2 c2'] eqn:El2.
      specialize (IH2 (set_ctr (cd_key c2) c2' ctrs2)).
      destruct (sweep_cands t2 (set_ctr (cd_key c2) c2' ctrs2)) as [es2 ctrs2']. cbn [snd] in *. apply IH2.
      destruct (ckey_eqb (cd_key c) (cd_key c2)) eqn:E.
      - apply ckey_eqb_eq in E. rewrite E, get_set_same. rewrite E in H.
        replace c2' with (snd (look (cd_kind c2) (get_ctr (cd_key c2) ctrs2))) by (rewrite El2; reflexivity).
        apply look_keeps_read_idle. exact H.
      - rewrite get_set_other; [exact H|]. intro H0. rewrite H0, ckey_eqb_refl in E. discriminate. }
    specialize (Hgen t _ Hi). destruct (Hcnt (cd_key c)) as [A _].
    destruct (sweep_cands t (set_ctr (cd_key c) c' ctrs)) as [es ctrs']. cbn [snd] in *.
    destruct Hgen as [w0 Hw]. exists w0. rewrite Hw, A, get_set_same, Hc'.
    destruct (look_counters (cd_kind c) (get_ctr (cd_key c) ctrs)) as [A2 _]. rewrite A2. reflexivity.
  - destruct (IH (set_ctr (cd_key c0) c' ctrs) c Hin Hk) as [w0 Hw].
    destruct (sweep_cands t (set_ctr (cd_key c0) c' ctrs)) as [es ctrs']. cbn [snd] in *.
    exists w0. rewrite Hw. f_equal. f_equal.
    destruct (ckey_eqb (cd_key c) (cd_key c0)) eqn:E.
    + apply ckey_eqb_eq in E. rewrite E, get_set_same, Hc'. apply look_counters.
    + rewrite get_set_other; [reflexivity|]. intro H. rewrite H, ckey_eqb_refl in E. discriminate.
Qed.

(* between sweeps nothing touches the stale stat of a connection: traffic moves the counters only *)
Definition no_sweep_ev (e : tevent) : Prop :=
  match e with TEv (ETick c) => (c mod sweep_interval =? 0) = false | _ => True end.

Lemma fold_bump_stale : forall l a k',
  stale_of (get_ctr k' (fold_left (fun a m => bump (CConn m) 0 1 a) l a)) = stale_of (get_ctr k' a).
Proof. induction l as [|m t IH]; intros a k'; [reflexivity|]. simpl. rewrite IH. apply bump_stale. Qed.

Lemma bump_pushes_stale : forall l s t a k', stale_of (get_ctr k' (bump_pushes s t l a)) = stale_of (get_ctr k' a).
Proof.
  induction l as [|p r IH]; intros s t a k'; [reflexivity|]. simpl. rewrite IH.
  destruct (pu_att p); [apply bump_stale|reflexivity].
Qed.

Lemma traffic_stale_conn : forall st st1 e r ctrs n,
  stale_of (get_ctr (CConn n) (traffic st st1 e r ctrs)) = stale_of (get_ctr (CConn n) ctrs).
Proof.
  intros st st1 e r ctrs n. destruct e; cbn [traffic]; try reflexivity; try (destruct r; try reflexivity; apply bump_stale).
  - (* EPullSucc *) destruct (att_state st s i) as [[| |]|]; try reflexivity.
    destruct (att_state st1 s i) as [[| |]|]; try reflexivity.
    destruct (att_is_rtmp st s i); [apply bump_stale|reflexivity].
  - (* EPushOk *) destruct (negb (push_att st s t) && push_att st1 s t); [|reflexivity].
    rewrite get_set_other; [reflexivity|discriminate].
  - (* EMedia *) destruct r; try reflexivity. unfold media_traffic.
    destruct (find_sess n0 (st_sess st)) as [x|]; [|reflexivity].
    assert (H1 : stale_of (get_ctr (CConn n) (match s_kind x with KRtmpPub => bump (CConn n0) 1 0 ctrs | _ => ctrs end)) =
                 stale_of (get_ctr (CConn n) ctrs)) by (destruct (s_kind x); try reflexivity; apply bump_stale).
    destruct (s_gid x) as [id|]; [|exact H1].
    destruct (entry_by_id id (st_groups st)) as [[s g]|]; [|exact H1].
    rewrite bump_pushes_stale, fold_bump_stale. exact H1.
Qed.

Lemma tstep_stale_conn : forall fx cf ts e n, no_sweep_ev e ->
  stale_of (get_ctr (CConn n) (t_ctr (fst (fst (tstep fx cf ts e))))) = stale_of (get_ctr (CConn n) (t_ctr ts)).
Proof.
  intros fx cf ts e n H. destruct e as [e0|m k|s i k].
  - destruct e0;
      try (cbn [tstep]; match goal with |- context[step fx cf (t_st ts) ?ev] => destruct (step fx cf (t_st ts) ev) as [[st1 r] ns] end;
           cbn [fst t_ctr]; apply traffic_stale_conn).
    cbn [no_sweep_ev] in H. cbn [tstep]. destruct (step fx cf (t_st ts) (ETick count)) as [[st1 r] ns].
    rewrite H. cbn [andb fst t_ctr]. reflexivity.
  - cbn [tstep]. destruct (find_sess m (st_sess (t_st ts))) as [x|]; [|reflexivity].
    destruct (s_acc x && negb (s_gone x) && negb (s_closed x)); [|reflexivity].
    destruct (s_kind x); cbn [fst t_ctr]; try reflexivity; apply bump_stale.
  - cbn [tstep]. destruct (find_att s i (st_atts (t_st ts))) as [a|]; [|reflexivity].
    destruct (a_state a); try reflexivity. destruct (a_rtmp a); [cbn [fst t_ctr]; apply bump_stale|reflexivity].
Qed.

Lemma trun_stale_conn : forall fx cf h ts n, Forall no_sweep_ev h ->
  stale_of (get_ctr (CConn n) (t_ctr (fst (trun fx cf ts h)))) = stale_of (get_ctr (CConn n) (t_ctr ts)).
Proof.
  intros fx cf h. induction h as [|e t IH]; intros ts n H; [reflexivity|].
  inversion H; subst. cbn [trun]. pose proof (tstep_stale_conn fx cf ts e n H2) as H1.
  destruct (tstep fx cf ts e) as [[ts1 r] ns]. cbn [fst] in H1. specialize (IH ts1 n H3).
  destruct (trun fx cf ts1 t) as [ts2 ns2]. cbn [fst] in *. congruence.
Qed.

Definition accepted_pub (st : state) (s n : N) : Prop :=
  exists g, get_group st s = Some g /\ (g_rtmp g = Some n \/ g_rtsp g = Some n).

(* the first of two sweeps has looked at the accepted publisher *)
Lemma sweep_tick_looks_at_publisher : forall cf ts log c s n,
  INV_S (t_st ts) log -> st_disposed (t_st ts) = false -> c mod sweep_interval = 0 -> accepted_pub (t_st ts) s n ->
  let ts1 := fst (fst (tstep fixed_tree cf ts (TEv (ETick c)))) in
  exists w0, stale_of (get_ctr (CConn n) (t_ctr ts1)) = Some (c_r (get_ctr (CConn n) (t_ctr ts1)), w0).
Proof.
  intros cf ts log c s n Hinv Hd Hc [g [Hg Hslot]] ts1. subst ts1.
  pose proof (inv_keys _ _ Hinv) as Hnd.
  assert (Hp : pub_only g).
  { apply pub_only_of_slots_ok; [apply (inv_slots _ _ Hinv s g Hg)|].
    unfold has_pub. destruct Hslot as [E|E]; rewrite E; simpl; [reflexivity|destruct (is_some (g_rtmp g)); reflexivity]. }
  pose proof (tick_step_keeps_pub fixed_tree cf (t_st ts) c s g Hnd Hd Hg Hp) as [g1 [Hg1 Hs1]].
  cbn [tstep]. destruct (step fixed_tree cf (t_st ts) (ETick c)) as [[st1 r1] ns] eqn:Es. cbn [fst snd] in *.
  apply N.eqb_eq in Hc. rewrite Hc, Hd. cbn [andb negb].
  assert (Hslot1 : g_rtmp g1 = Some n \/ g_rtsp g1 = Some n).
  { destruct Hs1 as [Hsl _]. unfold slots in Hsl. inversion Hsl as [[A B C D E F]]. rewrite A, B. exact Hslot. }
  assert (Hcd : exists cd, In cd (all_cands st1) /\ cd_key cd = CConn n /\ cd_kind cd <> GroupIdle.SPush).
  { destruct Hslot1 as [E|E].
    - exists (mk_cand (CConn n) GroupIdle.SPubRtmp (EKick s (KConn n))). split; [|split; [reflexivity|discriminate]].
      unfold all_cands. apply in_flat_map. exists (s, g1). split; [apply lookup_In; exact Hg1|].
      cbn [fst snd]. unfold cands. rewrite E. apply in_or_app. left. left. reflexivity.
    - exists (mk_cand (CConn n) GroupIdle.SPubRtsp (EKick s (KConn n))). split; [|split; [reflexivity|discriminate]].
      unfold all_cands. apply in_flat_map. exists (s, g1). split; [apply lookup_In; exact Hg1|].
      cbn [fst snd]. unfold cands. rewrite E. apply in_or_app. right. apply in_or_app. left. left. reflexivity. }
  destruct Hcd as [cd [Hin [Hkey Hkind]]].
  unfold sweep_events.
  pose proof (sweep_cands_looked (all_cands st1) (t_ctr ts) cd Hin Hkind) as [w0 Hw].
  pose proof (sweep_cands_counters (all_cands st1) (t_ctr ts) (CConn n)) as [Hr _].
  destruct (sweep_cands (all_cands st1) (t_ctr ts)) as [es ctrs']. cbn [snd] in *.
  destruct (run fixed_tree cf st1 (filter is_kick es ++ filter (fun e => negb (is_kick e)) es)) as [st2 ns2].
  cbn [fst t_ctr]. exists w0. rewrite Hkey in Hw. rewrite Hw, Hr. reflexivity.
Qed.

(* An accepted input whose read counter did not move between two consecutive sweeps is disposed at
   the second one: for every history h1, a sweep tick c1, every history h2 without a sweep, and a
   sweep tick c2 - if n is the accepted RTMP / RTSP publisher of stream s at both sweeps and its
   connection has read nothing in between, the second sweep closes its connection, leaves it the
   accepted input of s (slots, pipeline, Group object: the server learns of the end from its shell)
   and emits no notification about it. *)
Theorem idle_input_dropped_history : forall cf h1 c1 h2 c2 s n,
  let ts0 := fst (trun fixed_tree cf tinit h1) in
  let ts1 := fst (trun fixed_tree cf tinit (h1 ++ [TEv (ETick c1)])) in
  let ts2 := fst (trun fixed_tree cf tinit (h1 ++ [TEv (ETick c1)] ++ h2)) in
  c1 mod sweep_interval = 0 -> c2 mod sweep_interval = 0 -> Forall no_sweep_ev h2 ->
  st_disposed (t_st ts0) = false -> st_disposed (t_st ts2) = false ->
  accepted_pub (t_st ts0) s n -> accepted_pub (t_st ts2) s n ->
  c_r (get_ctr (CConn n) (t_ctr ts2)) = c_r (get_ctr (CConn n) (t_ctr ts1)) ->
  let r := tstep fixed_tree cf ts2 (TEv (ETick c2)) in
  (exists x, find_sess n (st_sess (t_st (fst (fst r)))) = Some x /\ s_closed x = true) /\
  accepted_pub (t_st (fst (fst r))) s n /\
  word (snd r) (WConn n) = [].
Proof.
  intros cf h1 c1 h2 c2 s n ts0 ts1 ts2 Hc1 Hc2 Hns Hd0 Hd2 Ha0 Ha2 Hr r.
  assert (E1 : ts1 = fst (fst (tstep fixed_tree cf ts0 (TEv (ETick c1))))).
  { subst ts1 ts0. rewrite trun_app. cbn [fst trun].
    destruct (tstep fixed_tree cf (fst (trun fixed_tree cf tinit h1)) (TEv (ETick c1))) as [[a b] d]. reflexivity. }
  assert (E2 : ts2 = fst (trun fixed_tree cf ts1 h2)).
  { subst ts2 ts1. rewrite app_assoc, trun_app. reflexivity. }
  pose proof (sweep_tick_looks_at_publisher cf ts0 _ c1 s n (trun_inv_s cf h1) Hd0 Hc1 Ha0) as [w0 Hw]. cbv zeta in Hw. rewrite <- E1 in Hw.
  assert (Hidle : read_idle (get_ctr (CConn n) (t_ctr ts2))).
  { exists w0. rewrite E2, trun_stale_conn by exact Hns. rewrite <- E2, Hr. exact Hw. }
  destruct Ha2 as [g [Hg Hslot]].
  pose proof (idle_publisher_closed cf ts2 _ c2 s g n (trun_inv_s cf _) Hd2 Hc2 Hg Hslot Hidle) as [A [B C]].
  split; [exact A|]. split; [|exact C].
  destruct B as [g' [Hg' [Hsl _]]]. exists g'. split; [exact Hg'|].
  unfold slots in Hsl. inversion Hsl as [[P Q R S T U]]. rewrite P, Q. exact Hslot.
Qed.

(* byte-counter events do not touch the server *)
Lemma bytes_keep_state : forall fx cf ts n k, t_st (fst (fst (tstep fx cf ts (TBytes n k)))) = t_st ts /\ snd (tstep fx cf ts (TBytes n k)) = [].
Proof.
  intros. cbn [tstep]. destruct (find_sess n (st_sess (t_st ts))) as [x|]; [|split; reflexivity].
  destruct (s_acc x && negb (s_gone x) && negb (s_closed x)); [|split; reflexivity].
  destruct (s_kind x); split; reflexivity.
Qed.
Lemma att_bytes_keep_state : forall fx cf ts s i k,
  t_st (fst (fst (tstep fx cf ts (TAttBytes s i k)))) = t_st ts /\ snd (tstep fx cf ts (TAttBytes s i k)) = [].
Proof.
  intros. cbn [tstep]. destruct (find_att s i (st_atts (t_st ts))) as [a|]; [|split; reflexivity].
  destruct (a_state a); try (split; reflexivity). destruct (a_rtmp a); split; reflexivity.
Qed.

(* an event that is not a tick acts on the server exactly as in the base machine *)
Lemma tstep_TEv_state : forall fx cf ts e0, (forall c, e0 <> ETick c) ->
  t_st (fst (fst (tstep fx cf ts (TEv e0)))) = fst (fst (step fx cf (t_st ts) e0)).
Proof.
  intros fx cf ts e0 H.
  destruct e0; try (cbn [tstep]; match goal with |- context[step fx cf (t_st ts) ?ev] => destruct (step fx cf (t_st ts) ev) as [[st1 r] ns] end; reflexivity).
  exfalso. eapply H. reflexivity.
Qed.
