(* Proofs about shells whose writes fail (GroupShellWrites.v). *)
From Coq Require Import NArith ZArith List Bool Arith Lia.
From Lal Require Import Group.GroupAdmission Group.GroupAdmissionProofs Group.GroupInvariantProofs Group.GroupDeliveryProofs
     Group.GroupRtspShell Group.GroupRtspShellProofs Group.GroupShellWrites.
Import ListNotations.
Open Scope N_scope.

(* an RTMP shell that cannot write one of its replies up to and including the answer to publish / play: the observer
   never sees the session - nothing is notified (in particular no stop), no group is created or changed, the name is
   that of a refused, ended session *)
Theorem rtmp_write_fail_silent : forall fsh fx cf cs pub s n w,
  (w <= rtmp_writes pub)%nat -> fresh (cs_base cs) n = true -> reserved cs n = false ->
  let e := if pub then ERtmpPub s n true else ERtmpSub s n true in
  write_fail_events (cs_base cs) (if pub then WRtmpPub else WRtmpSub) s n w = [CE e] /\
  let '(cs1, r, ns) := cstep fsh fx cf cs (CE e) in
  r = RRef /\ ns = [] /\ st_groups (cs_base cs1) = st_groups (cs_base cs) /\ cs_conns cs1 = cs_conns cs /\
  vsess (cs_base cs1) n = Some (if pub then KRtmpPub else KRtmpSub, s, false, true).
Proof.
  intros fsh fx cf cs pub s n w Hw Hf Hr. cbv zeta. split.
  - apply Nat.leb_le in Hw. destruct pub; cbn [write_fail_events]; rewrite Hw; reflexivity.
  - destruct pub; cbn [cstep arrival_id]; rewrite Hr; cbn [step]; rewrite Hf; cbn [negb];
      (split; [reflexivity|split; [reflexivity|split; [reflexivity|split; [reflexivity|]]]]);
      cbn [cs_base]; [rewrite (add_view (cs_base cs) (cs_base cs) (refused_sess n KRtmpPub s) n eq_refl Hf eq_refl)
                     |rewrite (add_view (cs_base cs) (cs_base cs) (refused_sess n KRtmpSub s) n eq_refl Hf eq_refl)];
      rewrite N.eqb_refl; reflexivity.
Qed.

(* whatever write fails on whatever shell, after any history: the notifications of every connection are exactly
   start (once admitted), then stop (once gone) - a stop only after a start, nothing for a session that was never
   admitted - because a failing write amounts to events of the layers below *)
Theorem write_fail_notifications : forall fsh cf h k s n w m,
  let st := cs_base (fst (crun fsh fixed_tree cf init_cstate h)) in
  let h' := h ++ write_fail_events st k s n w in
  word (snd (crun fsh fixed_tree cf init_cstate h')) (WConn m)
  = conn_word (vsess (cs_base (fst (crun fsh fixed_tree cf init_cstate h'))) m).
Proof. intros. apply shell_notifications. Qed.

Theorem write_fail_single_input : forall fsh cf h k s n w s' g,
  let st := cs_base (fst (crun fsh fixed_tree cf init_cstate h)) in
  let h' := h ++ write_fail_events st k s n w in
  get_group (cs_base (fst (crun fsh fixed_tree cf init_cstate h'))) s' = Some g -> (occupied g <= 1)%nat.
Proof. intros fsh cf h k s n w s' g st h'. apply shell_single_input. Qed.
