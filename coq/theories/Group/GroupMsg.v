(* RTMP message classification helpers of pkg/base/t_rtmp.go, total version:
   payload bytes beyond the end read as 0.  They agree with the Go code on
   every message whose payload is long enough for the bytes Go indexes
   ([rmsg_wf]); shorter payloads make Go panic and belong to C05. *)
From Lal Require Import Common.LBytes.
Open Scope N_scope.

Record rmsg := mk_rmsg { rm_type : N; rm_ts : N; rm_payload : bytes }.

Definition pb (m : rmsg) (i : nat) : N := nth i (rm_payload m) 0.

Definition type_audio : N := 8.
Definition type_video : N := 9.
Definition type_metadata : N := 18.

Definition is_ext_header (m : rmsg) : bool := 128 <=? pb m 0.   (* Payload[0] & 0x80 != 0 *)

Definition is_avc_key_seq_header (m : rmsg) : bool :=
  (rm_type m =? type_video) && (pb m 0 =? 23) && (pb m 1 =? 0).

Definition hvc1_tag (m : rmsg) : bool :=
  (pb m 1 =? 104) && (pb m 2 =? 118) && (pb m 3 =? 99) && (pb m 4 =? 49).

Definition is_hevc_key_seq_header (m : rmsg) : bool :=
  if negb (rm_type m =? type_video) then false
  else if is_ext_header m then hvc1_tag m && (pb m 0 mod 16 =? 0)
  else (pb m 0 =? 28) && (pb m 1 =? 0).

Definition is_video_key_seq_header (m : rmsg) : bool :=
  is_avc_key_seq_header m || is_hevc_key_seq_header m.

Definition is_avc_key_nalu (m : rmsg) : bool :=
  (rm_type m =? type_video) && (pb m 0 =? 23) && (pb m 1 =? 1).

Definition is_hevc_key_nalu (m : rmsg) : bool :=
  if negb (rm_type m =? type_video) then false
  else if is_ext_header m then ((pb m 0 / 16) mod 8 =? 1) && negb (pb m 0 mod 16 =? 0)
  else (pb m 0 =? 28) && (pb m 1 =? 1).

Definition is_video_key_nalu (m : rmsg) : bool := is_avc_key_nalu m || is_hevc_key_nalu m.

Definition audio_codec_id (m : rmsg) : N := pb m 0 / 16.

Definition is_aac_seq_header (m : rmsg) : bool :=
  (rm_type m =? type_audio) && (audio_codec_id m =? 10) && (pb m 1 =? 0).

(* payload long enough for every byte the helpers above may index in Go *)
Definition rmsg_wfb (m : rmsg) : bool :=
  if rm_type m =? type_metadata then true
  else Nat.leb 5 (length (rm_payload m)).

(* "@setDataFrame" as an AMF0 string: 02 00 0d + 13 characters *)
Definition sdf_prefix : bytes :=
  [2; 0; 13; 64; 115; 101; 116; 68; 97; 116; 97; 70; 114; 97; 109; 101].

Fixpoint bytes_eqb (a b : bytes) : bool :=
  match a, b with
  | [], [] => true
  | x :: a', y :: b' => (x =? y) && bytes_eqb a' b'
  | _, _ => false
  end.

Definition has_sdf_prefix (p : bytes) : bool := bytes_eqb (firstn 16 p) sdf_prefix.

(* Amf0.ReadString succeeds on b: marker 2, 2-byte length, enough bytes *)
Definition amf_string_ok (p : bytes) : bool :=
  match p with
  | 2 :: h :: l :: rest => (h * 256 + l) <=? lenN rest
  | _ => false
  end.

(* rtmp.MetadataEnsureWithoutSdf / MetadataEnsureWithSdf (on error: unchanged) *)
Definition metadata_without_sdf (p : bytes) : bytes :=
  if amf_string_ok p && has_sdf_prefix p then skipn 16 p else p.
Definition metadata_with_sdf (p : bytes) : bytes :=
  if amf_string_ok p && negb (has_sdf_prefix p) then sdf_prefix ++ p else p.

(* length of rtmp.Message2Chunks output for the default header built by
   remux.MakeDefaultRtmpHeader (csid 5/6/7: 1-byte basic header; fmt 0 then
   fmt 3; chunk size c) - [ext] says whether the extended timestamp is present *)
Definition chunks_len (c : N) (ext : bool) (len : N) : N :=
  let n := (len + c - 1) / c in
  if n =? 0 then 0 else len + n + 11 + (if ext then 4 * n else 0).
