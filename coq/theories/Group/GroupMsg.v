(* RTMP message classification helpers of pkg/base/t_rtmp.go, total version:
   payload bytes beyond the end read as 0.  They agree with the Go code on
   every message whose payload is long enough for the bytes Go indexes
   ([rmsg_wf]); shorter payloads make Go panic and belong to C05. *)
From Lal Require Import Common.LBytes Common.Res Rtmp.RtmpAmf0 Rtmp.RtmpMetadata.
Open Scope N_scope.

Record rmsg := mk_rmsg { rm_type : N; rm_ts : N; rm_payload : bytes }.

Definition pb (m : rmsg) (i : nat) : N := nth i (rm_payload m) 0.

Definition type_audio : N := 8.
Definition type_video : N := 9.
Definition type_metadata : N := 18.

Definition is_ext_header (m : rmsg) : bool := 128 <=? pb m 0.   (* Payload[0] & 0x80 != 0 *)

Definition is_avc_key_seq_header (m : rmsg) : bool :=
  (rm_type m =? type_video) && (pb m 0 =? 23) && (pb m 1 =? 0).

Definition hvc1_tag (m : rmsg) : bool :=
  (pb m 1 =? 104) && (pb m 2 =? 118) && (pb m 3 =? 99) && (pb m 4 =? 49).

Definition is_hevc_key_seq_header (m : rmsg) : bool :=
  if negb (rm_type m =? type_video) then false
  else if is_ext_header m then hvc1_tag m && (pb m 0 mod 16 =? 0)
  else (pb m 0 =? 28) && (pb m 1 =? 0).

Definition is_video_key_seq_header (m : rmsg) : bool :=
  is_avc_key_seq_header m || is_hevc_key_seq_header m.

Definition is_avc_key_nalu (m : rmsg) : bool :=
  (rm_type m =? type_video) && (pb m 0 =? 23) && (pb m 1 =? 1).

Definition is_hevc_key_nalu (m : rmsg) : bool :=
  if negb (rm_type m =? type_video) then false
  else if is_ext_header m then ((pb m 0 / 16) mod 8 =? 1) && negb (pb m 0 mod 16 =? 0)
  else (pb m 0 =? 28) && (pb m 1 =? 1).

Definition is_video_key_nalu (m : rmsg) : bool := is_avc_key_nalu m || is_hevc_key_nalu m.

Definition audio_codec_id (m : rmsg) : N := pb m 0 / 16.

Definition is_aac_seq_header (m : rmsg) : bool :=
  (rm_type m =? type_audio) && (audio_codec_id m =? 10) && (pb m 1 =? 0).

(* payload long enough for every byte the helpers above may index in Go *)
Definition rmsg_wfb (m : rmsg) : bool :=
  if rm_type m =? type_metadata then true
  else Nat.leb 5 (length (rm_payload m)).

(* rtmp.MetadataEnsureWithoutSdf / MetadataEnsureWithSdf as LazyRtmpChunkDivider /
   LazyRtmpMsg2FlvTag use them: the error is ignored and the (possibly
   unchanged) bytes are taken.  The functions are the C18 model
   (Rtmp/RtmpMetadata.v), which never panics (c18_sdf). *)
Definition metadata_without_sdf (p : bytes) : bytes :=
  match metadata_ensure_without_sdf p with Ok (b, _) => b | _ => p end.
Definition metadata_with_sdf (p : bytes) : bytes :=
  match metadata_ensure_with_sdf p with Ok (b, _) => b | _ => p end.

(* length of rtmp.Message2Chunks output for the default header built by
   remux.MakeDefaultRtmpHeader (csid 5/6/7: 1-byte basic header; fmt 0 then
   fmt 3; chunk size c) - [ext] says whether the extended timestamp is present *)
Definition chunks_len (c : N) (ext : bool) (len : N) : N :=
  let n := (len + c - 1) / c in
  if n =? 0 then 0 else len + n + 11 + (if ext then 4 * n else 0).
