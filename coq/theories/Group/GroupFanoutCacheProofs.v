(* What the caches of the fan-out hold after any history, as a function of
   the history alone (no ring indices): the latest metadata / sequence headers
   of the current input and the most recent GOPs. *)
From Lal Require Import Common.LBytes Group.GroupMsg Group.GroupGopCache Group.GroupFanout
  Group.GroupGopCacheProofs Group.GroupFanoutProofs.
From Coq Require Import Lia.
Open Scope N_scope.

Record cspec := mk_cspec {
  sp_meta_w : option label; sp_meta_wo : option label;
  sp_vsh : option label; sp_ash : option label;
  sp_vsh_p : option (list N); sp_ash_p : option (list N);   (* content of the headers in force *)
  sp_gops : list (list label)      (* every GOP since the input started, oldest first *)
}.

Definition cspec_init : cspec :=
  {| sp_meta_w := None; sp_meta_wo := None; sp_vsh := None; sp_ash := None; sp_vsh_p := None; sp_ash_p := None; sp_gops := [] |}.

(* one non-empty published message, seen by a cache that stores item [b] for
   it ([w]/[wo]: the metadata forms it keeps) *)
Definition cspec_feed (gop_num max : nat) (sp : cspec) (cls : mclass) (b w wo : label) (p : list N) : cspec :=
  {| sp_meta_w := match cls with MMeta => Some w | _ => sp_meta_w sp end;
     sp_meta_wo := match cls with MMeta => Some wo | _ => sp_meta_wo sp end;
     sp_vsh := match cls with MVsh => Some b | _ => sp_vsh sp end;
     sp_ash := match cls with MAsh => Some b | _ => sp_ash sp end;
     sp_vsh_p := match cls with MVsh => Some p | _ => sp_vsh_p sp end;
     sp_ash_p := match cls with MAsh => Some p | _ => sp_ash_p sp end;
     sp_gops := match cls with
                | MVsh => if hdr_changed (sp_vsh_p sp) p then [] else sp_gops sp   (* new parameter sets: cached GOPs dropped *)
                | MAsh => if hdr_changed (sp_ash_p sp) p then [] else sp_gops sp
                | _ => if Nat.ltb 0 gop_num then gops_feed max (sp_gops sp) cls b else sp_gops sp
                end |}.

Definition cache_rel (gop_num max : nat) (g : gop_cache label) (sp : cspec) : Prop :=
  gc_meta_w g = sp_meta_w sp /\ gc_meta_wo g = sp_meta_wo sp /\ gc_vsh g = sp_vsh sp /\ gc_ash g = sp_ash sp /\
  gc_size g = S gop_num /\ gc_max g = max /\ ring_inv label g (sp_gops sp) /\
  gc_vsh_p g = sp_vsh_p sp /\ gc_ash_p g = sp_ash_p sp.

Ltac split7 := split; [|split; [|split; [|split; [|split; [|split; [|split; [|split]]]]]]].

Lemma cache_rel_new gop_num max : cache_rel gop_num max (gc_new gop_num max) cspec_init.
Proof. unfold cache_rel. split7; try reflexivity. apply ring_inv_new. Qed.

Lemma cache_rel_clear gop_num max g sp :
  cache_rel gop_num max g sp -> cache_rel gop_num max (gc_clear g) cspec_init.
Proof.
  intros (H1 & H2 & H3 & H4 & H5 & H6 & H7 & H8 & H9). unfold cache_rel. split7; try assumption; try reflexivity.
  eapply ring_inv_clear; eassumption.
Qed.

Lemma mclass_meta_iff m : mclass_of m = MMeta <-> (rm_type m =? type_metadata) = true.
Proof.
  unfold mclass_of. destruct (rm_type m =? type_metadata); [tauto|].
  destruct (is_aac_seq_header m); [split; discriminate|].
  destruct (is_video_key_seq_header m); [split; discriminate|].
  destruct (is_video_key_nalu m); split; discriminate.
Qed.

(* feeding a message, then SetMetadata when it is metadata - as
   broadcastByRtmpMsg does - keeps cache and specification in step *)
Lemma cache_rel_feed gop_num max g sp m b w wo :
  cache_rel gop_num max g sp ->
  cache_rel gop_num max
    (let g1 := fst (gc_feed g (mclass_of m) b (rm_payload m)) in
     if rm_type m =? type_metadata then gc_set_metadata g1 w wo else g1)
    (cspec_feed gop_num max sp (mclass_of m) b w wo (rm_payload m)).
Proof.
  intros (H1 & H2 & H3 & H4 & H5 & H6 & H7 & H8 & H9).
  pose proof (ring_inv_feed label g (sp_gops sp) (mclass_of m) b (rm_payload m) H7) as Hr.
  unfold gops_after in Hr. rewrite H5, H6, H8, H9 in Hr.
  assert (Hlt : Nat.ltb 1 (S gop_num) = Nat.ltb 0 gop_num) by (destruct gop_num; reflexivity).
  rewrite Hlt in Hr.
  cbv zeta.
  set (p := rm_payload m) in *.
  assert (Hf : forall c,
     let g1 := fst (gc_feed g c b p) in
     gc_size g1 = gc_size g /\ gc_max g1 = gc_max g /\
     (c <> MMeta -> gc_meta_w g1 = gc_meta_w g /\ gc_meta_wo g1 = gc_meta_wo g) /\
     gc_vsh g1 = match c with MVsh => Some b | _ => gc_vsh g end /\
     gc_ash g1 = match c with MAsh => Some b | _ => gc_ash g end /\
     gc_vsh_p g1 = match c with MVsh => Some p | _ => gc_vsh_p g end /\
     gc_ash_p g1 = match c with MAsh => Some p | _ => gc_ash_p g end).
  { intro c. cbv zeta. destruct c; cbn [gc_feed fst];
      try (repeat split; reflexivity).
    - destruct (Nat.ltb 1 (gc_size g)); repeat split; reflexivity.
    - unfold gc_feed_last_gop. destruct (Nat.ltb 1 (gc_size g)); [|repeat split; reflexivity].
      destruct (gc_is_empty g); [repeat split; reflexivity|]. destruct (_ || _); repeat split; reflexivity. }
  destruct (Hf (mclass_of m)) as (Hsz & Hmx & Hmeta & Hvsh & Hash & Hvp & Hap).
  destruct (rm_type m =? type_metadata) eqn:Hm.
  - assert (Hc : mclass_of m = MMeta) by (now apply mclass_meta_iff).
    rewrite Hc in *. unfold cache_rel, cspec_feed, gc_set_metadata.
    cbn [gc_meta_w gc_meta_wo gc_vsh gc_ash gc_vsh_p gc_ash_p gc_size gc_max
         sp_meta_w sp_meta_wo sp_vsh sp_ash sp_vsh_p sp_ash_p sp_gops].
    split7; try reflexivity; try congruence.
    destruct Hr as [R1 R2 R3 R4 R5 R6]. constructor; assumption.
  - assert (Hc : mclass_of m <> MMeta) by (intro E; apply mclass_meta_iff in E; congruence).
    destruct (Hmeta Hc) as [Hw Hwo].
    assert (G1 : gc_meta_w (fst (gc_feed g (mclass_of m) b p)) = match mclass_of m with MMeta => Some w | _ => sp_meta_w sp end)
      by (rewrite Hw, H1; destruct (mclass_of m); congruence).
    assert (G2 : gc_meta_wo (fst (gc_feed g (mclass_of m) b p)) = match mclass_of m with MMeta => Some wo | _ => sp_meta_wo sp end)
      by (rewrite Hwo, H2; destruct (mclass_of m); congruence).
    assert (G3 : gc_vsh (fst (gc_feed g (mclass_of m) b p)) = match mclass_of m with MVsh => Some b | _ => sp_vsh sp end)
      by (rewrite Hvsh, H3; destruct (mclass_of m); reflexivity).
    assert (G4 : gc_ash (fst (gc_feed g (mclass_of m) b p)) = match mclass_of m with MAsh => Some b | _ => sp_ash sp end)
      by (rewrite Hash, H4; destruct (mclass_of m); reflexivity).
    assert (G8 : gc_vsh_p (fst (gc_feed g (mclass_of m) b p)) = match mclass_of m with MVsh => Some p | _ => sp_vsh_p sp end)
      by (rewrite Hvp, H8; destruct (mclass_of m); reflexivity).
    assert (G9 : gc_ash_p (fst (gc_feed g (mclass_of m) b p)) = match mclass_of m with MAsh => Some p | _ => sp_ash_p sp end)
      by (rewrite Hap, H9; destruct (mclass_of m); reflexivity).
    assert (G7 : ring_inv label (fst (gc_feed g (mclass_of m) b p))
                   match mclass_of m with
                   | MVsh => if hdr_changed (sp_vsh_p sp) p then [] else sp_gops sp
                   | MAsh => if hdr_changed (sp_ash_p sp) p then [] else sp_gops sp
                   | _ => if Nat.ltb 0 gop_num then gops_feed max (sp_gops sp) (mclass_of m) b else sp_gops sp
                   end)
      by (destruct (mclass_of m); try congruence; exact Hr).
    unfold cache_rel, cspec_feed.
    cbn [sp_meta_w sp_meta_wo sp_vsh sp_ash sp_vsh_p sp_ash_p sp_gops].
    split7; try assumption; congruence.
Qed.

(* ------------------------------------------------------------------ *)
(* the caches along a history *)

Record sstate := mk_sstate { ss_in : bool; ss_n : nat; ss_rtmp : cspec; ss_flv : cspec }.

Definition sstate_init : sstate := {| ss_in := false; ss_n := 0; ss_rtmp := cspec_init; ss_flv := cspec_init |}.

Definition sstep (cf : cfg) (sp : sstate) (e : ev) : sstate :=
  match e with
  | EvPublish m =>
      let n := ss_n sp in
      if Nat.eqb (length (rm_payload m)) 0 then {| ss_in := ss_in sp; ss_n := S n; ss_rtmp := ss_rtmp sp; ss_flv := ss_flv sp |}
      else
        {| ss_in := ss_in sp; ss_n := S n;
           ss_rtmp := if cf_rtmp_enable cf
                      then cspec_feed (cf_rtmp_gop cf) (cf_rtmp_max cf) (ss_rtmp sp) (mclass_of m) (LC n) (lcw m n) (LC n) (rm_payload m)
                      else ss_rtmp sp;
           ss_flv := if cf_flv_enable cf
                     then cspec_feed (cf_flv_gop cf) (cf_flv_max cf) (ss_flv sp) (mclass_of m) (LT n) (LT n) (LT n) (rm_payload m)
                     else ss_flv sp |}
  | EvInStart => {| ss_in := true; ss_n := ss_n sp; ss_rtmp := ss_rtmp sp; ss_flv := ss_flv sp |}
  | EvInStop =>
      if ss_in sp then {| ss_in := false; ss_n := ss_n sp; ss_rtmp := cspec_init; ss_flv := cspec_init |} else sp
  | EvDispose => {| ss_in := false; ss_n := ss_n sp; ss_rtmp := cspec_init; ss_flv := cspec_init |}
  | _ => sp
  end.

Definition srun (cf : cfg) (h : list ev) : sstate := fold_left (sstep cf) h sstate_init.

Definition sstate_rel (cf : cfg) (s : gstate) (sp : sstate) : Prop :=
  g_in s = ss_in sp /\ g_next s = ss_n sp /\
  cache_rel (cf_rtmp_gop cf) (cf_rtmp_max cf) (g_rtmp_cache s) (ss_rtmp sp) /\
  cache_rel (cf_flv_gop cf) (cf_flv_max cf) (g_flv_cache s) (ss_flv sp).

Lemma publish_fields cf s m : Nat.eqb (length (rm_payload m)) 0 = false ->
  g_in (publish cf s m) = g_in s /\ g_next (publish cf s m) = S (g_next s) /\
  g_rtmp_cache (publish cf s m) =
    (if cf_rtmp_enable cf then
       let g1 := fst (gc_feed (g_rtmp_cache s) (mclass_of m) (LC (g_next s)) (rm_payload m)) in
       if rm_type m =? type_metadata then gc_set_metadata g1 (lcw m (g_next s)) (LC (g_next s)) else g1
     else g_rtmp_cache s) /\
  g_flv_cache (publish cf s m) =
    (if cf_flv_enable cf then
       let g1 := fst (gc_feed (g_flv_cache s) (mclass_of m) (LT (g_next s)) (rm_payload m)) in
       if rm_type m =? type_metadata then gc_set_metadata g1 (LT (g_next s)) (LT (g_next s)) else g1
     else g_flv_cache s).
Proof.
  intro Hne. unfold publish. rewrite Hne. rewrite rtmp_loop_spec.
  destruct (has_kind KRtmp _); [destruct (cf_merge cf =? 0); [|destruct (cf_merge cf <=? _)]|];
    cbn [g_in g_next g_rtmp_cache g_flv_cache]; repeat split; reflexivity.
Qed.

Ltac split4 := split; [|split; [|split]].

Lemma sstate_rel_step cf s sp e : sstate_rel cf s sp -> sstate_rel cf (step cf s e) (sstep cf sp e).
Proof.
  intros (Hin & Hn & Hr & Hf).
  destruct e as [m|k id|id| | |b| |v|pid|raw|]; cbn [step sstep].
  - destruct (Nat.eqb (length (rm_payload m)) 0) eqn:Hne.
    + unfold publish. rewrite Hne. unfold sstate_rel.
      cbn [g_in g_next g_rtmp_cache g_flv_cache ss_in ss_n ss_rtmp ss_flv]. split4; try assumption. congruence.
    + destruct (publish_fields cf s m Hne) as (P1 & P2 & P3 & P4).
      unfold sstate_rel. cbn [ss_in ss_n ss_rtmp ss_flv]. rewrite P1, P2, P3, P4, <- Hn.
      split4; [assumption|reflexivity| |].
      * destruct (cf_rtmp_enable cf); [|assumption]. now apply cache_rel_feed.
      * destruct (cf_flv_enable cf); [|assumption]. now apply cache_rel_feed.
  - destruct (existsb _ _); unfold sstate_rel; cbn [set_subs g_in g_next g_rtmp_cache g_flv_cache]; split4; assumption.
  - destruct (partition _ _). unfold sstate_rel. cbn [g_in g_next g_rtmp_cache g_flv_cache]. split4; assumption.
  - destruct (g_in s) eqn:Hg; unfold sstate_rel; cbn [g_in g_next g_rtmp_cache g_flv_cache ss_in ss_n ss_rtmp ss_flv];
      split4; try assumption; try reflexivity.
  - rewrite <- Hin. destruct (g_in s) eqn:Hg; cbn [negb].
    + destruct (partition _ _). unfold sstate_rel. cbn [g_in g_next g_rtmp_cache g_flv_cache ss_in ss_n ss_rtmp ss_flv].
      split4; [reflexivity|assumption| |]; eapply cache_rel_clear; eassumption.
    + unfold sstate_rel. split4; try assumption. congruence.
  - unfold feed_ts, sstate_rel. cbn [g_in g_next g_rtmp_cache g_flv_cache]. split4; assumption.
  - unfold sstate_rel. cbn [g_in g_next g_rtmp_cache g_flv_cache]. split4; assumption.
  - unfold sstate_rel. cbn [g_in g_next g_rtmp_cache g_flv_cache]. split4; assumption.
  - unfold sstate_rel, set_subs. cbn [g_in g_next g_rtmp_cache g_flv_cache]. split4; assumption.
  - unfold feed_rtp, feed_rtp_gen, sstate_rel. cbn [g_in g_next g_rtmp_cache g_flv_cache]. split4; assumption.
  - unfold sstate_rel. cbn [g_in g_next g_rtmp_cache g_flv_cache ss_in ss_n ss_rtmp ss_flv].
    split4; [reflexivity|assumption| |]; eapply cache_rel_clear; eassumption.
Qed.

Theorem caches_follow_history cf h : sstate_rel cf (run cf h) (srun cf h).
Proof.
  unfold run, srun.
  assert (H0 : sstate_rel cf (g_init cf) sstate_init).
  { unfold sstate_rel. split4; try reflexivity; apply cache_rel_new. }
  revert H0. generalize (g_init cf) sstate_init.
  induction h as [|e h IH]; intros s sp H; [exact H|]. cbn [fold_left]. apply IH. now apply sstate_rel_step.
Qed.

(* the start-up prologue of a fresh RTMP / FLV / push consumer, in terms of the history *)
Definition spec_prologue (gop_num : nat) (sp : cspec) (with_sdf : bool) : list label :=
  opt_list (if with_sdf then sp_meta_w sp else sp_meta_wo sp) ++ opt_list (sp_vsh sp) ++ opt_list (sp_ash sp)
  ++ concat (lastn gop_num (sp_gops sp)).

Theorem prologue_spec gop_num max g sp w :
  cache_rel gop_num max g sp -> prologue g w = spec_prologue gop_num sp w.
Proof.
  intros (H1 & H2 & H3 & H4 & H5 & H6 & H7 & _ & _). unfold prologue, spec_prologue.
  rewrite H1, H2, H3, H4. rewrite (gc_all_spec label g _ H7). rewrite H5.
  replace (S gop_num - 1)%nat with gop_num by lia. reflexivity.
Qed.

Theorem gop_count_spec gop_num max g sp :
  cache_rel gop_num max g sp -> gc_count g = Nat.min (length (sp_gops sp)) gop_num.
Proof.
  intros (H1 & H2 & H3 & H4 & H5 & H6 & H7 & _ & _). destruct H7 as [_ _ _ _ Hc _]. rewrite Hc, H5. f_equal. lia.
Qed.
