(* The server-level tick with the liveness sweep, as an extension of the
   admission / relay state machine (GroupAdmission.v):

     pkg/logic/server_manager__.go  RunLoop, one iteration of the one-second ticker:
                                    groupManager.Iterate: a group with IsInactive() is
                                    disposed and erased, the others get Group.Tick(tickCount)
     pkg/logic/group_manager.go     SimpleGroupManager.GetOrCreateGroup / GetGroup / Iterate
     pkg/logic/group__.go           Tick = tickPullModule; startPushIfNeeded;
                                    disposeInactiveSessions(tickCount); IsInactive
     pkg/logic/group__relay_pull.go disposeInactivePullSession
     pkg/base/basic_session_stat.go isAlive (GroupIdle.is_alive)

   GroupAdmission.step (ETick _) already is the first half of the ticker body
   (erase inactive groups, tickPullModule, startPushIfNeeded).  This file adds
   the byte counters of the sessions and the second half: when the tick count is
   a multiple of 120, every session that sits in a group is looked at
   (GroupIdle.sweep_one decides): RTMP / RTSP publishers and attached relay
   pulls by the bytes their connection READ, the four kinds of subscribers and
   attached relay-push sessions by the bytes WRITTEN; a session whose counter did
   not move since the previous look is disposed.

   What Dispose of a session amounts to is expressed with events of the base
   machine, so that every history of the extended machine is a history of the
   base machine (GroupServerTickProofs.trun_refines) and all invariants of C03 /
   C17 carry over:
     - a network session (publisher, subscriber): its connection is closed, as
       by kick_session: EKick s (KConn n); its server shell reports the end
       later (EGone n);
     - an attached relay pull / relay push: the session is closed and its own
       goroutine reports the Del (DelRtmpPullSession / DelRtmpPushSession), as
       when the peer ends it: EPullDone s i / EPushDone s t.
   All closes of one sweep happen inside the tick (under the group locks); the
   Dels are reported after it: the closes come first.

   Byte counters.  [TBytes n k]: the connection of session n transferred k more
   bytes in the direction the sweep judges it by; [TAttBytes s i k]: the origin
   sent k bytes to the attached RTMP pull.  The traffic the other events cause
   (handshake and commands of an arriving RTMP session, the HTTP response header,
   a media message read from its publisher and written to the RTMP and HTTP-FLV
   subscribers and to the attached push sessions) moves the counters by an
   unspecified positive amount: only whether a counter moved between two looks is
   observable.  RTSP sessions count RTP payload only (none in this model), PS and
   customize publishers are not swept (start_rtp_pub with timeout_ms = 0).
   Tick counts are < 2^32.  No proofs in this file. *)
From Coq Require Import NArith ZArith List Bool.
From Lal Require Import Common.LBytes Group.GroupAdmission.
From Lal Require Group.GroupIdle.
Import ListNotations.
Open Scope N_scope.

(* ---- byte counters ----------------------------------------------------------- *)
Inductive ckey := CConn (n : N) | CAtt (s i : N) | CPush (s : N) (t : nat).

Definition ckey_eqb (a b : ckey) : bool :=
  match a, b with
  | CConn n, CConn m => N.eqb n m
  | CAtt s i, CAtt s' i' => N.eqb s s' && N.eqb i i'
  | CPush s t, CPush s' t' => N.eqb s s' && Nat.eqb t t'
  | _, _ => false
  end.

(* connection.Stat of the session and BasicSessionStat.staleStat *)
Record ctr := mk_ctr { c_stale : GroupIdle.sstat; c_r : N; c_w : N }.
Definition ctr_new : ctr := mk_ctr GroupIdle.sstat_new 0 0.

Fixpoint get_ctr (k : ckey) (l : list (ckey * ctr)) : ctr :=
  match l with
  | [] => ctr_new
  | (k', c) :: t => if ckey_eqb k k' then c else get_ctr k t
  end.
Fixpoint set_ctr (k : ckey) (c : ctr) (l : list (ckey * ctr)) : list (ckey * ctr) :=
  match l with
  | [] => [(k, c)]
  | (k', c') :: t => if ckey_eqb k k' then (k, c) :: t else (k', c') :: set_ctr k c t
  end.

(* dr more bytes read, dw more bytes written (uint64 counters) *)
Definition bump (k : ckey) (dr dw : N) (l : list (ckey * ctr)) : list (ckey * ctr) :=
  let c := get_ctr k l in
  set_ctr k (mk_ctr (c_stale c) (u64 (c_r c + dr)) (u64 (c_w c + dw))) l.

(* one IsAlive call on a session judged as kind kd: (not alive, counters with the new stale stat) *)
Definition look (kd : GroupIdle.skind) (c : ctr) : bool * ctr :=
  let s := GroupIdle.sweep_one (GroupIdle.mk_sess 0 kd (c_stale c) (c_r c) (c_w c) false) in
  (GroupIdle.ss_closed s, mk_ctr (GroupIdle.ss_stat s) (c_r c) (c_w c)).

(* ---- the extended machine --------------------------------------------------------- *)
Record tstate := mk_tstate { t_st : state; t_ctr : list (ckey * ctr) }.
Definition tinit : tstate := mk_tstate init_state [].

Inductive tevent :=
| TEv (e : event)
| TBytes (n k : N)          (* k more bytes on the connection of session n *)
| TAttBytes (s i k : N).    (* the origin sent k bytes to the attached rtmp pull i of stream s *)

Definition sweep_interval : N := GroupIdle.check_interval.   (* base.LogicCheckSessionAliveIntervalSec *)

Definition idle_kind_of_sub (k : subk) : GroupIdle.skind :=
  match k with
  | SkRtmp => GroupIdle.SSubRtmp | SkFlv => GroupIdle.SSubFlv
  | SkTs => GroupIdle.SSubTs | SkRtsp => GroupIdle.SSubRtsp
  end.

(* a session disposeInactiveSessions looks at: its counters, the kind it is judged as, what
   its disposal amounts to *)
Record cand := mk_cand { cd_key : ckey; cd_kind : GroupIdle.skind; cd_ev : event }.

(* an attached relay-push session is an RTMP output judged by the bytes written
   (GroupIdle.SPush, which is never looked at, is a push proxy without session) *)
Fixpoint push_cands (s : N) (t : nat) (l : list push) : list cand :=
  match l with
  | [] => []
  | p :: r =>
    (if pu_pushing p && pu_att p then [mk_cand (CPush s t) GroupIdle.SSubRtmp (EPushDone s t)] else [])
    ++ push_cands s (S t) r
  end.

(* disposeInactiveSessions, in the order of the code *)
Definition cands (s : N) (g : group) : list cand :=
  (match g_rtmp g with Some n => [mk_cand (CConn n) GroupIdle.SPubRtmp (EKick s (KConn n))] | None => [] end) ++
  (match g_rtsp g with Some n => [mk_cand (CConn n) GroupIdle.SPubRtsp (EKick s (KConn n))] | None => [] end) ++
  (match pp_rtmp (g_pp g) with Some i => [mk_cand (CAtt s i) GroupIdle.SPubRtmp (EPullDone s i)] | None => [] end) ++
  (match pp_rtsp (g_pp g) with Some i => [mk_cand (CAtt s i) GroupIdle.SPubRtsp (EPullDone s i)] | None => [] end) ++
  map (fun kn => mk_cand (CConn (snd kn)) (idle_kind_of_sub (fst kn)) (EKick s (KConn (snd kn)))) (g_subs g) ++
  push_cands s 0 (g_push g).

Definition all_cands (st : state) : list cand :=
  flat_map (fun sg => cands (fst sg) (snd sg)) (st_groups st).

(* every candidate is looked at once; the victims *)
Fixpoint sweep_cands (cs : list cand) (ctrs : list (ckey * ctr)) : list event * list (ckey * ctr) :=
  match cs with
  | [] => ([], ctrs)
  | c :: t =>
    let '(dead, c') := look (cd_kind c) (get_ctr (cd_key c) ctrs) in
    let '(es, ctrs') := sweep_cands t (set_ctr (cd_key c) c' ctrs) in
    ((if dead then [cd_ev c] else []) ++ es, ctrs')
  end.

Definition is_kick (e : event) : bool := match e with EKick _ _ => true | _ => false end.

(* the closes happen inside the tick, the Dels of relay sessions are reported after it *)
Definition sweep_events (st : state) (ctrs : list (ckey * ctr)) : list event * list (ckey * ctr) :=
  let '(es, ctrs') := sweep_cands (all_cands st) ctrs in
  (filter is_kick es ++ filter (fun e => negb (is_kick e)) es, ctrs').

(* ---- traffic caused by the events of the base machine ------------------------------- *)
Fixpoint entry_by_id (id : N) (l : list (N * group)) : option (N * group) :=
  match l with
  | [] => None
  | (s, g) :: t => if N.eqb (g_id g) id then Some (s, g) else entry_by_id id t
  end.

Fixpoint bump_pushes (s : N) (t : nat) (l : list push) (ctrs : list (ckey * ctr)) : list (ckey * ctr) :=
  match l with
  | [] => ctrs
  | p :: r => bump_pushes s (S t) r (if pu_att p then bump (CPush s t) 0 1 ctrs else ctrs)
  end.

(* broadcastByRtmpMsg: written to the rtmp and http-flv subscribers whose connection is open and
   to the attached push sessions *)
Definition media_targets (st : state) (g : group) : list N :=
  filter (sess_open (st_sess st))
         (map snd (filter (fun x => subk_eqb (fst x) SkRtmp || subk_eqb (fst x) SkFlv) (g_subs g))).

Definition media_traffic (st : state) (n : N) (ctrs : list (ckey * ctr)) : list (ckey * ctr) :=
  match find_sess n (st_sess st) with
  | None => ctrs
  | Some x =>
    let c1 := match s_kind x with KRtmpPub => bump (CConn n) 1 0 ctrs | _ => ctrs end in
    match s_gid x with
    | None => c1
    | Some id =>
      match entry_by_id id (st_groups st) with
      | None => c1
      | Some (s, g) =>
        bump_pushes s 0 (g_push g) (fold_left (fun a m => bump (CConn m) 0 1 a) (media_targets st g) c1)
      end
    end
  end.

Definition att_state (st : state) (s i : N) : option astate := option_map a_state (find_att s i (st_atts st)).
Definition att_is_rtmp (st : state) (s i : N) : bool :=
  match find_att s i (st_atts st) with Some a => a_rtmp a | None => false end.
Definition push_att (st : state) (s : N) (t : nat) : bool :=
  match get_group st s with
  | Some g => match nth_error (g_push g) t with Some p => pu_att p | None => false end
  | None => false
  end.

(* st: before the event, st1: after it, r: its result *)
Definition traffic (st st1 : state) (e : event) (r : result) (ctrs : list (ckey * ctr)) : list (ckey * ctr) :=
  match e, r with
  | ERtmpPub _ n _, RAcc | ERtmpSub _ n _, RAcc => bump (CConn n) 1 1 ctrs   (* handshake, connect, publish / play *)
  | EFlvSub _ n _, RAcc | ETsSub _ n _, RAcc => bump (CConn n) 0 1 ctrs       (* the HTTP response header *)
  | EMedia n, RMedia _ => media_traffic st n ctrs
  | EPullSucc s i, _ =>
    match att_state st s i, att_state st1 s i with
    | Some AHeld, Some AAttached => if att_is_rtmp st s i then bump (CAtt s i) 1 1 ctrs else ctrs
    | _, _ => ctrs
    end
  | EPushOk s t, _ =>
    (* a new push session object: new counters, no stale stat *)
    if negb (push_att st s t) && push_att st1 s t
    then set_ctr (CPush s t) (mk_ctr GroupIdle.sstat_new 1 1) ctrs else ctrs
  | _, _ => ctrs
  end.

(* ---- one event ---------------------------------------------------------------------------- *)
Definition tstep (fx : fixes) (cf : config) (ts : tstate) (e : tevent) : tstate * result * list notif :=
  match e with
  | TEv (ETick c) =>
    let '(st1, r, ns) := step fx cf (t_st ts) (ETick c) in
    if (c mod sweep_interval =? 0) && negb (st_disposed (t_st ts)) then
      let '(es, ctrs) := sweep_events st1 (t_ctr ts) in
      let '(st2, ns2) := run fx cf st1 es in
      (mk_tstate st2 ctrs, r, ns ++ ns2)
    else (mk_tstate st1 (t_ctr ts), r, ns)
  | TEv e0 =>
    let '(st1, r, ns) := step fx cf (t_st ts) e0 in
    (mk_tstate st1 (traffic (t_st ts) st1 e0 r (t_ctr ts)), r, ns)
  | TBytes n k =>
    match find_sess n (st_sess (t_st ts)) with
    | Some x =>
      if s_acc x && negb (s_gone x) && negb (s_closed x) then
        match s_kind x with
        | KRtmpPub => (mk_tstate (t_st ts) (bump (CConn n) k 0 (t_ctr ts)), RNone, [])
        | KRtmpSub | KFlvSub | KTsSub => (mk_tstate (t_st ts) (bump (CConn n) 0 k (t_ctr ts)), RNone, [])
        | _ => (ts, RBad, [])
        end
      else (ts, RBad, [])
    | None => (ts, RBad, [])
    end
  | TAttBytes s i k =>
    match find_att s i (st_atts (t_st ts)) with
    | Some a =>
      match a_state a with
      | AAttached =>
        if a_rtmp a then (mk_tstate (t_st ts) (bump (CAtt s i) k 0 (t_ctr ts)), RNone, []) else (ts, RBad, [])
      | _ => (ts, RBad, [])
      end
    | None => (ts, RBad, [])
    end
  end.

Fixpoint trun (fx : fixes) (cf : config) (ts : tstate) (h : list tevent) : tstate * list notif :=
  match h with
  | [] => (ts, [])
  | e :: t =>
    let '(ts1, _, ns) := tstep fx cf ts e in
    let '(ts2, ns2) := trun fx cf ts1 t in
    (ts2, ns ++ ns2)
  end.

(* ---- observation of the correspondence harness --------------------------------------------- *)
(* admitted sessions whose connection lal has closed and whose shell has not noticed yet *)
Definition closed_waiting (st : state) : list N :=
  map s_id (filter (fun x => s_acc x && negb (s_gone x) && s_closed x &&
                             match s_kind x with KCustPub | KPsPub => false | _ => true end) (st_sess st)).
