(* Model of pkg/remux/gop_cache.go: ring of GOPs + cached metadata / headers.
   Items are abstract (A): in lal they are the serialised bytes of a message. *)
From Coq Require Import List Arith Bool NArith.
Import ListNotations.

(* payload bytes of a sequence header, compared to notice a change of parameter sets *)
Fixpoint payload_eqb (a b : list N) : bool :=
  match a, b with
  | [], [] => true
  | x :: a', y :: b' => N.eqb x y && payload_eqb a' b'
  | _, _ => false
  end.

Definition hdr_changed (prev : option (list N)) (cur : list N) : bool :=
  match prev with Some q => negb (payload_eqb q cur) | None => false end.

Section GopCache.
Variable A : Type.

Record gop_cache := mk_gop_cache {
  gc_meta_w : option A;      (* MetadataEnsureWithSetDataFrame *)
  gc_meta_wo : option A;     (* MetadataEnsureWithoutSetDataFrame *)
  gc_vsh : option A;         (* VideoSeqHeader *)
  gc_ash : option A;         (* AacSeqHeader *)
  gc_vsh_p : option (list N); (* videoSeqHeaderPayload *)
  gc_ash_p : option (list N); (* aacSeqHeaderPayload *)
  gc_ring : list (list A);   (* gopRing, length gopSize *)
  gc_first : nat;            (* gopRingFirst *)
  gc_last : nat;             (* gopRingLast *)
  gc_size : nat;             (* gopSize = gopNum + 1 *)
  gc_max : nat               (* singleGopMaxFrameNum *)
}.

Definition gc_new (gop_num max : nat) : gop_cache :=
  {| gc_meta_w := None; gc_meta_wo := None; gc_vsh := None; gc_ash := None; gc_vsh_p := None; gc_ash_p := None;
     gc_ring := repeat [] (S gop_num); gc_first := 0; gc_last := 0;
     gc_size := S gop_num; gc_max := max |}.

Fixpoint set_nth {B} (i : nat) (x : B) (l : list B) : list B :=
  match l, i with
  | [], _ => []
  | _ :: t, O => x :: t
  | h :: t, S j => h :: set_nth j x t
  end.

Definition gc_count (g : gop_cache) : nat :=
  (gc_last g + gc_size g - gc_first g) mod gc_size g.

Definition gc_gop_at (g : gop_cache) (pos : nat) : list A :=
  if Nat.ltb pos (gc_count g)
  then nth ((pos + gc_first g) mod gc_size g) (gc_ring g) []
  else [].

(* all cached GOP data, oldest GOP first: the fan-out loop
   for i := 0; i < gopCount; i++ { for item in GetGopDataAt(i) {...} } *)
Definition gc_all (g : gop_cache) : list A :=
  flat_map (gc_gop_at g) (seq 0 (gc_count g)).

Definition gc_is_full (g : gop_cache) : bool := Nat.eqb ((gc_last g + 1) mod gc_size g) (gc_first g).
Definition gc_is_empty (g : gop_cache) : bool := Nat.eqb (gc_first g) (gc_last g).

Definition gc_with_ring (g : gop_cache) ring first last : gop_cache :=
  {| gc_meta_w := gc_meta_w g; gc_meta_wo := gc_meta_wo g; gc_vsh := gc_vsh g; gc_ash := gc_ash g;
     gc_vsh_p := gc_vsh_p g; gc_ash_p := gc_ash_p g;
     gc_ring := ring; gc_first := first; gc_last := last; gc_size := gc_size g; gc_max := gc_max g |}.

Definition gc_feed_new_gop (g : gop_cache) (b : A) : gop_cache :=
  let first := if gc_is_full g then (gc_first g + 1) mod gc_size g else gc_first g in
  gc_with_ring g (set_nth (gc_last g) [b] (gc_ring g)) first ((gc_last g + 1) mod gc_size g).

Definition gc_feed_last_gop (g : gop_cache) (b : A) : gop_cache * bool :=
  if gc_is_empty g then (g, true)
  else
    let pos := (gc_last g + gc_size g - 1) mod gc_size g in
    let gop := nth pos (gc_ring g) [] in
    if Nat.leb (length gop) (gc_max g) || Nat.eqb (gc_max g) 0
    then (gc_with_ring g (set_nth pos (gop ++ [b]) (gc_ring g)) (gc_first g) (gc_last g), true)
    else (g, false).

(* classification of the message, computed by the caller *)
Inductive mclass := MMeta | MAsh | MVsh | MKey | MOther.

(* GopCache.Feed(msg, b); [p] = msg.Payload.  A sequence header whose content
   differs from the cached one drops the cached GOPs (they were coded under the
   previous parameter sets). *)
Definition gc_feed (g : gop_cache) (c : mclass) (b : A) (p : list N) : gop_cache * bool :=
  match c with
  | MMeta => (g, true)
  | MAsh =>
      let reset := hdr_changed (gc_ash_p g) p in
      ({| gc_meta_w := gc_meta_w g; gc_meta_wo := gc_meta_wo g; gc_vsh := gc_vsh g; gc_ash := Some b;
          gc_vsh_p := gc_vsh_p g; gc_ash_p := Some p;
          gc_ring := gc_ring g; gc_first := if reset then 0 else gc_first g; gc_last := if reset then 0 else gc_last g;
          gc_size := gc_size g; gc_max := gc_max g |}, true)
  | MVsh =>
      let reset := hdr_changed (gc_vsh_p g) p in
      ({| gc_meta_w := gc_meta_w g; gc_meta_wo := gc_meta_wo g; gc_vsh := Some b; gc_ash := gc_ash g;
          gc_vsh_p := Some p; gc_ash_p := gc_ash_p g;
          gc_ring := gc_ring g; gc_first := if reset then 0 else gc_first g; gc_last := if reset then 0 else gc_last g;
          gc_size := gc_size g; gc_max := gc_max g |}, true)
  | MKey => if Nat.ltb 1 (gc_size g) then (gc_feed_new_gop g b, true) else (g, true)
  | MOther => if Nat.ltb 1 (gc_size g) then gc_feed_last_gop g b else (g, true)
  end.

Definition gc_set_metadata (g : gop_cache) (w wo : A) : gop_cache :=
  {| gc_meta_w := Some w; gc_meta_wo := Some wo; gc_vsh := gc_vsh g; gc_ash := gc_ash g;
     gc_vsh_p := gc_vsh_p g; gc_ash_p := gc_ash_p g;
     gc_ring := gc_ring g; gc_first := gc_first g; gc_last := gc_last g;
     gc_size := gc_size g; gc_max := gc_max g |}.

(* GopCache.Clear(): ring slots keep their data but become unreachable *)
Definition gc_clear (g : gop_cache) : gop_cache :=
  {| gc_meta_w := None; gc_meta_wo := None; gc_vsh := None; gc_ash := None; gc_vsh_p := None; gc_ash_p := None;
     gc_ring := gc_ring g; gc_first := 0; gc_last := 0; gc_size := gc_size g; gc_max := gc_max g |}.

Definition opt_list (o : option A) : list A := match o with Some x => [x] | None => [] end.

End GopCache.

Arguments gc_meta_w {A}. Arguments gc_meta_wo {A}. Arguments gc_vsh {A}. Arguments gc_ash {A}.
Arguments gc_vsh_p {A}. Arguments gc_ash_p {A}.
Arguments gc_ring {A}. Arguments gc_first {A}. Arguments gc_last {A}. Arguments gc_size {A}. Arguments gc_max {A}.
Arguments gc_new {A}. Arguments gc_count {A}. Arguments gc_gop_at {A}. Arguments gc_all {A}.
Arguments gc_feed {A}. Arguments gc_set_metadata {A}. Arguments gc_clear {A}. Arguments opt_list {A}.
Arguments gc_feed_new_gop {A}. Arguments gc_feed_last_gop {A}. Arguments gc_is_full {A}. Arguments gc_is_empty {A}.
Arguments gc_with_ring {A}.
