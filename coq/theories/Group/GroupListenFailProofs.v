(* start_rtp_pub whose port cannot be bound (Group.StartRtpPub: the session is registered and addIn has run before
   PubSession.Listen; on failure delPsPubSession takes it out again): the call is a REFUSED input. *)
From Coq Require Import NArith ZArith List Bool Lia.
From Lal Require Import Group.GroupAdmission Group.GroupAdmissionProofs Group.GroupInvariantProofs.
Import ListNotations.
Open Scope N_scope.

Lemma admit_pub_refused_state : forall cf st sl s n chk st1 g,
  admit_pub cf st sl s n chk = (st1, false, g) -> st1 = fst (get_or_create cf st s).
Proof.
  intros cf st sl s n chk st1 g E. unfold admit_pub in E. destruct (get_or_create cf st s) as [st0 g0].
  destruct (chk && has_in g0); [inversion E; reflexivity|].
  destruct (next_pipe st0) as [st2 p]. inversion E.
Qed.

(* the whole effect of a start_rtp_pub that fails to listen: the state of a refusal of the same call - the group exists
   (getOrCreateGroup), the name is that of a refused, ended session - nothing is notified, and the answer is an error:
   "listen failed", or "input already exists" when the stream had an input anyway *)
Theorem listen_fail_step : forall fx cf st s n, fresh st n = true ->
  let '(st1, r, ns) := step fx cf st (EPsPub s n false) in
  st1 = add_sess (fst (get_or_create cf st s)) (refused_sess n KPsPub s) /\ ns = [] /\
  (r = RCode code_listen_fail RsNone None \/ r = RCode code_start_rtp_pub_fail RsDup None).
Proof.
  intros fx cf st s n Hf. cbn [step]. rewrite Hf. cbn [negb].
  destruct (admit_pub cf st PsPs s n (fx_f09 fx)) as [[st1 ok] g] eqn:E. destruct ok.
  - split; [reflexivity|]. split; [reflexivity|left; reflexivity].
  - rewrite (admit_pub_refused_state _ _ _ _ _ _ _ _ E). split; [reflexivity|]. split; [reflexivity|right; reflexivity].
Qed.

(* ... in particular every group that existed is exactly what it was: slots, pipeline, subscribers, relay settings *)
Theorem listen_fail_keeps_groups : forall fx cf st s n s' g,
  get_group st s' = Some g -> get_group (fst (fst (step fx cf st (EPsPub s n false)))) s' = Some g.
Proof.
  intros fx cf st s n s' g Hg. cbn [step]. destruct (fresh st n) eqn:Hf; cbn [negb fst]; [|exact Hg].
  pose proof (listen_fail_step fx cf st s n Hf) as H. cbn [step] in H. rewrite Hf in H. cbn [negb] in H.
  destruct (admit_pub cf st PsPs s n (fx_f09 fx)) as [[st1 ok] g1]. 
  assert (X : forall stx, get_group (add_sess (fst (get_or_create cf st s)) stx) s' = Some g).
  { intros stx. change (get_group (add_sess (fst (get_or_create cf st s)) stx) s') with (get_group (fst (get_or_create cf st s)) s').
    unfold get_or_create. destruct (get_group st s) as [g0|] eqn:E0; cbn [fst]; [exact Hg|].
    change (lookup s' (update s (new_group cf (st_gid st + 1) (st_now st)) (st_groups st)) = Some g).
    rewrite lookup_update_other; [exact Hg|].
    intros ->. rewrite E0 in Hg. discriminate Hg. }
  destruct ok; cbn [fst]; [apply X|destruct H as [-> _]; apply X].
Qed.

(* and the stream's group, if the call created it, has no input *)
Theorem listen_fail_no_input : forall cf st s n, fresh st n = true ->
  match get_group (fst (fst (step fixed_tree cf st (EPsPub s n false)))) s with
  | Some g1 => slots g1 = match get_group st s with Some g0 => slots g0 | None => (None, None, None, None, None, None) end
  | None => False
  end.
Proof.
  intros cf st s n Hf. pose proof (listen_fail_step fixed_tree cf st s n Hf) as H.
  destruct (step fixed_tree cf st (EPsPub s n false)) as [[st1 r] ns]. destruct H as [-> _]. cbn [fst].
  change (get_group (add_sess (fst (get_or_create cf st s)) (refused_sess n KPsPub s)) s) with (get_group (fst (get_or_create cf st s)) s).
  unfold get_or_create. destruct (get_group st s) as [g0|] eqn:E0; cbn [fst].
  - rewrite E0. reflexivity.
  - change (match lookup s (update s (new_group cf (st_gid st + 1) (st_now st)) (st_groups st)) with
            | Some g1 => slots g1 = (None, None, None, None, None, None) | None => False end).
    rewrite lookup_update_same. reflexivity.
Qed.
