(* The merge writer's byte counter: it is always below the configured
   merge-write size and equals the total size of the pending units. *)
From Lal Require Import Common.LBytes Group.GroupMsg Group.GroupGopCache Group.GroupFanout Group.GroupFanoutProofs.
From Coq Require Import Lia.
Open Scope N_scope.

(* the messages published so far, by publish index (empty ones included) *)
Fixpoint pubs (h : list ev) : list rmsg :=
  match h with
  | [] => []
  | EvPublish m :: t => m :: pubs t
  | _ :: t => pubs t
  end.

Definition unit_size (cf : cfg) (ms : list rmsg) (l : label) : N :=
  match l with
  | LC i => match nth_error ms i with Some m => label_size cf m false | None => 0 end
  | _ => 0
  end.

Fixpoint total_size (cf : cfg) (ms : list rmsg) (l : list label) : N :=
  match l with [] => 0 | x :: t => unit_size cf ms x + total_size cf ms t end.

Lemma total_size_app cf ms a b : total_size cf ms (a ++ b) = total_size cf ms a + total_size cf ms b.
Proof. induction a as [|x a IH]; cbn [app total_size]; [lia|]. rewrite IH. lia. Qed.

Definition merge_ok (cf : cfg) (ms : list rmsg) (s : gstate) : Prop :=
  g_next s = length ms /\
  Forall (fun l => exists i, l = LC i /\ (i < length ms)%nat) (g_merge s) /\
  g_merge_size s = total_size cf ms (g_merge s) /\
  (0 < cf_merge cf -> g_merge_size s < cf_merge cf).

Lemma unit_size_snoc cf ms m l : (exists i, l = LC i /\ (i < length ms)%nat) ->
  unit_size cf (ms ++ [m]) l = unit_size cf ms l.
Proof. intros (i & -> & Hi). cbn [unit_size]. now rewrite nth_error_app1. Qed.

Lemma total_size_snoc cf ms m l :
  Forall (fun x => exists i, x = LC i /\ (i < length ms)%nat) l ->
  total_size cf (ms ++ [m]) l = total_size cf ms l.
Proof.
  induction l as [|x l IH]; intro H; [reflexivity|]. inversion H; subst.
  cbn [total_size]. rewrite unit_size_snoc by assumption. now rewrite IH.
Qed.

Lemma forall_snoc ms (m : rmsg) l :
  Forall (fun x => exists i, x = LC i /\ (i < length ms)%nat) l ->
  Forall (fun x => exists i, x = LC i /\ (i < length (ms ++ [m]))%nat) l.
Proof.
  intro H. eapply Forall_impl; [|exact H]. intros x (i & -> & Hi). exists i. split; [reflexivity|].
  rewrite app_length. cbn. lia.
Qed.

Lemma merge_ok_publish cf ms s m : merge_ok cf ms s -> merge_ok cf (ms ++ [m]) (publish cf s m).
Proof.
  intros (Hn & Hall & Hsz & Hlt).
  unfold publish. destruct (Nat.eqb (length (rm_payload m)) 0) eqn:Hne.
  - unfold merge_ok. cbn [g_next g_merge g_merge_size]. 
    split; [rewrite app_length; cbn [length]; lia|]. split; [now apply forall_snoc|]. split; [now rewrite total_size_snoc|exact Hlt].
  - rewrite rtmp_loop_spec.
    set (tr := anytrig (g_rtmp_cache s) (is_video_key_nalu m) (g_subs s)).
    set (merge1 := if tr then [] else g_merge s).
    assert (Hm1 : Forall (fun x => exists i, x = LC i /\ (i < length ms)%nat) merge1)
      by (unfold merge1; destruct tr; [constructor|exact Hall]).
    assert (Hs1 : (if Nat.eqb (length merge1) 0 then 0 else g_merge_size s) = total_size cf ms merge1).
    { unfold merge1. destruct tr; cbn [length Nat.eqb total_size]; [reflexivity|].
      rewrite Hsz. destruct (g_merge s); reflexivity. }
    assert (Hb1 : 0 < cf_merge cf -> total_size cf ms merge1 < cf_merge cf).
    { intro Hp. specialize (Hlt Hp). unfold merge1. destruct tr; cbn [total_size]; [exact Hp|]. now rewrite <- Hsz. }
    assert (Hunit : unit_size cf (ms ++ [m]) (LC (g_next s)) = label_size cf m false).
    { cbn [unit_size]. rewrite Hn. rewrite nth_error_app2 by lia. now rewrite Nat.sub_diag. }
    destruct (has_kind KRtmp _).
    + destruct (cf_merge cf =? 0) eqn:Hm0.
      * unfold merge_ok. cbn [g_next g_merge g_merge_size]. 
        split; [rewrite app_length; cbn [length]; lia|]. split; [now apply forall_snoc|]. rewrite Hs1. split; [now rewrite total_size_snoc|].
        intro Hp. apply N.eqb_eq in Hm0. lia.
      * destruct (cf_merge cf <=? _) eqn:Hfl.
        -- unfold merge_ok. cbn [g_next g_merge g_merge_size total_size]. 
           split; [rewrite app_length; cbn [length]; lia|]. split; [constructor|]. split; [reflexivity|]. intro; assumption.
        -- apply N.leb_gt in Hfl.
           unfold merge_ok. cbn [g_next g_merge g_merge_size]. 
           split; [rewrite app_length; cbn [length]; lia|]. split.
           { apply Forall_app. split; [now apply forall_snoc|]. constructor; [|constructor].
             exists (g_next s). split; [reflexivity|]. rewrite app_length. cbn. lia. }
           split.
           { rewrite total_size_app. cbn [total_size]. rewrite Hunit, total_size_snoc by assumption. rewrite Hs1. lia. }
           intro Hp. exact Hfl.
    + unfold merge_ok. cbn [g_next g_merge g_merge_size]. 
      split; [rewrite app_length; cbn [length]; lia|]. split; [now apply forall_snoc|]. rewrite Hs1. split; [now rewrite total_size_snoc|].
      exact Hb1.
Qed.

Lemma merge_ok_step cf h s e : merge_ok cf (pubs h) s -> merge_ok cf (pubs (h ++ [e])) (step cf s e).
Proof.
  intro H.
  assert (Hp : pubs (h ++ [e]) = pubs h ++ (match e with EvPublish m => [m] | _ => [] end)).
  { clear H. induction h as [|x h IH]; [destruct e; reflexivity|]. destruct x; cbn [pubs app]; rewrite ?IH; reflexivity. }
  rewrite Hp. destruct e as [m|k id|id| | |b| |v|pid|raw|]; cbn [step]; rewrite ?app_nil_r.
  - now apply merge_ok_publish.
  - destruct (existsb _ _); exact H.
  - destruct (partition _ _). exact H.
  - destruct (g_in s); exact H.
  - destruct (negb (g_in s)); [exact H|]. destruct (partition _ _). exact H.
  - exact H.
  - exact H.
  - exact H.
  - exact H.
  - exact H.
  - exact H.
Qed.

Theorem merge_ok_run cf h : merge_ok cf (pubs h) (run cf h).
Proof.
  induction h as [|e h IH] using rev_ind.
  - unfold merge_ok, run. cbn. repeat split; try constructor. intro; assumption.
  - rewrite run_app. cbn [fold_left]. now apply merge_ok_step.
Qed.
