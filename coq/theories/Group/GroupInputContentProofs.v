(* Proofs about the content layer (GroupInputContent.v): on the repaired tree the SDP a group holds is, after
   any history, that of its accepted RTSP input (or none) - the SDP of a refused input never reaches the group -,
   events that leave a group's input slots alone leave its SDP alone, and nothing of a relay pull that was not
   attached is forwarded. *)
From Coq Require Import NArith ZArith List Bool Lia.
From Lal Require Import Group.GroupAdmission Group.GroupAdmissionProofs Group.GroupInvariantProofs
     Group.GroupRtspShell Group.GroupRtspShellProofs Group.GroupInputContent.
Import ListNotations.
Open Scope N_scope.

Lemma opt_eqb_eq : forall a b, opt_eqb a b = true -> a = b.
Proof. intros [x|] [y|] H; simpl in H; try discriminate H; [apply N.eqb_eq in H; subst|]; reflexivity. Qed.
Lemma opt_eqb_refl : forall a, opt_eqb a a = true.
Proof. intros [x|]; simpl; [apply N.eqb_refl|reflexivity]. Qed.

Lemma slots_eqb_slots : forall g g', slots_eqb g g' = true <-> slots g = slots g'.
Proof.
  intros g g'. unfold slots_eqb, slots. split.
  - intros H. repeat (apply andb_true_iff in H; destruct H as [H ?]).
    repeat match goal with X : opt_eqb _ _ = true |- _ => apply opt_eqb_eq in X; rewrite X; clear X end. reflexivity.
  - intros H. inversion H. rewrite !opt_eqb_refl. reflexivity.
Qed.

Lemma slots_source : forall s g g', slots g = slots g' -> sdp_source s g = sdp_source s g'.
Proof. intros s g g' H. unfold slots in H. inversion H. unfold sdp_source. rewrite H2, H6. reflexivity. Qed.

Lemma lookup_sdp_table : forall fsdp st refused tbl l s,
  lookup_sdp s (map (sdp_after fsdp st refused tbl) l) =
  match lookup s l with Some ga => snd (sdp_after fsdp st refused tbl (s, ga)) | None => None end.
Proof.
  intros fsdp st refused tbl l s. unfold lookup_sdp. induction l as [|[k g] t IH]; [reflexivity|].
  simpl map. unfold sdp_after at 1. cbn [lookup]. destruct (N.eqb s k) eqn:E.
  - apply N.eqb_eq in E. subst k. reflexivity.
  - exact IH.
Qed.

(* ---- the SDP a group holds is that of its accepted RTSP input ------------------------------------------- *)
Definition SDP_INV (ds : dstate) : Prop :=
  forall s, lookup_sdp s (ds_sdp ds) =
            match get_group (cs_base (ds_shell ds)) s with Some g => sdp_source s g | None => None end.

Lemma sdp_inv_init : SDP_INV init_dstate.
Proof. intros s. reflexivity. Qed.

Lemma sdp_table_inv : forall st st1 ce tbl,
  (forall s, lookup_sdp s tbl = match get_group st s with Some g => sdp_source s g | None => None end) ->
  forall s, lookup_sdp s (sdp_table true st st1 ce tbl) = match get_group st1 s with Some g => sdp_source s g | None => None end.
Proof.
  intros st st1 ce tbl H s. unfold sdp_table. rewrite lookup_sdp_table. change (get_group st1 s) with (lookup s (st_groups st1)).
  destruct (lookup s (st_groups st1)) as [ga|]; [|reflexivity].
  unfold sdp_after. cbn [snd]. destruct (get_group st s) as [gb|] eqn:Eb; [|reflexivity].
  destruct (slots_eqb gb ga) eqn:Es; [|reflexivity].
  apply slots_eqb_slots in Es.
  assert (X : lookup_sdp s tbl = sdp_source s ga) by (rewrite H, Eb; apply slots_source; assumption).
  destruct (rtsp_pull_refused st st1 ce) as [[s' i]|]; [rewrite andb_false_r|]; exact X.
Qed.

Theorem sdp_inv_step : forall fsh fx cf ds de, SDP_INV ds -> SDP_INV (fst (fst (dstep true fsh fx cf ds de))).
Proof.
  intros fsh fx cf ds de H. destruct de as [ce|s i|s]; cbn [dstep].
  - destruct (cstep fsh fx cf (ds_shell ds) ce) as [[cs1 r] ns]. cbn [fst]. intros s. cbn [ds_sdp ds_shell].
    apply sdp_table_inv. exact H.
  - destruct (cstep fsh fx cf (ds_shell ds) (CE (EPullSucc s i))) as [[cs1 r] ns]. cbn [fst]. intros s0. cbn [ds_sdp ds_shell].
    apply sdp_table_inv. exact H.
  - exact H.
Qed.

Theorem sdp_inv_run : forall fsh fx cf h ds, SDP_INV ds -> SDP_INV (fst (drun true fsh fx cf ds h)).
Proof.
  intros fsh fx cf h. induction h as [|e t IH]; intros ds H; [exact H|].
  cbn [drun]. pose proof (sdp_inv_step fsh fx cf ds e H) as H1.
  destruct (dstep true fsh fx cf ds e) as [[ds1 r] ns]. cbn [fst] in H1.
  specialize (IH ds1 H1). destruct (drun true fsh fx cf ds1 t) as [ds2 ns2]. exact IH.
Qed.

(* After any history on the repaired tree: what the group of stream s holds (and answers an RTSP DESCRIBE with) is
   the SDP of the RTSP publisher / RTSP relay pull that IS its accepted input, and nothing when its input is of
   another kind or absent.  In particular it is never the SDP of an input that was refused or has departed. *)
Theorem sdp_is_of_accepted_input : forall fsh fx cf h s,
  let ds := fst (drun true fsh fx cf init_dstate h) in
  snd (fst (dstep true fsh fx cf ds (DSdp s))) =
  DRSdp (match get_group (cs_base (ds_shell ds)) s with Some g => sdp_source s g | None => None end).
Proof.
  intros fsh fx cf h s ds. cbn [dstep snd fst]. f_equal.
  exact (sdp_inv_run fsh fx cf h init_dstate sdp_inv_init s).
Qed.

(* an event that leaves the input slots of a group alone leaves its SDP alone (no invariant needed) *)
Theorem unchanged_slots_keep_sdp : forall st st1 ce tbl s gb ga,
  get_group st s = Some gb -> get_group st1 s = Some ga -> slots ga = slots gb ->
  lookup_sdp s (sdp_table true st st1 ce tbl) = lookup_sdp s tbl.
Proof.
  intros st st1 ce tbl s gb ga Hb Ha Hs. unfold sdp_table. rewrite lookup_sdp_table.
  unfold get_group in Ha. rewrite Ha. unfold sdp_after. cbn [snd]. rewrite Hb.
  assert (E : slots_eqb gb ga = true) by (apply slots_eqb_slots; symmetry; assumption). rewrite E.
  destruct (rtsp_pull_refused st st1 ce) as [[s' i]|]; [rewrite andb_false_r|]; reflexivity.
Qed.

(* ... so an event about a session that is not the accepted input of stream s - a refused arrival, the departure
   of a refused session, a relay pull that is overtaken - does not change the SDP of s *)
Theorem foreign_event_keeps_sdp : forall cf st e x s g tbl,
  get_group st s = Some g -> has_in g = true ->
  subject_of e = Some x -> occupies x s g = false ->
  lookup_sdp s (sdp_table true st (fst (fst (step fixed_tree cf st e))) (CE e) tbl) = lookup_sdp s tbl.
Proof.
  intros cf st e x s g tbl Hg Hin Hs Ho.
  destruct (foreign_event_step fixed_tree eq_refl eq_refl cf st e x s g Hs Hg Hin Ho) as [g' [Hg' [Hsl _]]].
  exact (unchanged_slots_keep_sdp st _ (CE e) tbl s g g' Hg Hg' Hsl).
Qed.

(* ---- media behind the answer of the origin ------------------------------------------------------------- *)
Theorem unattached_pull_forwards_nothing : forall fsdp fsh fx cf ds s i,
  let '(ds1, r, _) := dstep fsdp fsh fx cf ds (DPullSuccMedia s i) in
  (forall a, find_att s i (st_atts (cs_base (ds_shell ds1))) = Some a -> a_state a <> AAttached) ->
  exists r0, r = DRMedia r0 [].
Proof.
  intros fsdp fsh fx cf ds s i. cbn [dstep].
  destruct (cstep fsh fx cf (ds_shell ds) (CE (EPullSucc s i))) as [[cs1 r] ns]. cbn [ds_shell].
  intros H. exists r. f_equal.
  destruct r; try reflexivity;
    (destruct (find_att s i (st_atts (cs_base cs1))) as [at0|] eqn:Ea; [|reflexivity];
     destruct (get_group (cs_base cs1) s); [|reflexivity];
     specialize (H at0 eq_refl); destruct (a_state at0); try reflexivity; contradiction).
Qed.

(* ---- every content-level history is a connection-level history ---------------------------------------------- *)
Definition erase (de : devent) : list cevent :=
  match de with DE ce => [ce] | DPullSuccMedia s i => [CE (EPullSucc s i)] | DSdp _ => [] end.

Theorem drun_shell : forall fsdp fsh fx cf h ds,
  crun fsh fx cf (ds_shell ds) (flat_map erase h) =
  (ds_shell (fst (drun fsdp fsh fx cf ds h)), snd (drun fsdp fsh fx cf ds h)).
Proof.
  intros fsdp fsh fx cf h. induction h as [|e t IH]; intros ds; [reflexivity|].
  cbn [flat_map drun]. rewrite crun_app.
  assert (E : crun fsh fx cf (ds_shell ds) (erase e) =
              (ds_shell (fst (fst (dstep fsdp fsh fx cf ds e))), snd (dstep fsdp fsh fx cf ds e))).
  { destruct e as [ce|s i|s]; cbn [erase crun dstep].
    - destruct (cstep fsh fx cf (ds_shell ds) ce) as [[cs1 r] ns]. cbn [fst snd ds_shell]. rewrite app_nil_r. reflexivity.
    - destruct (cstep fsh fx cf (ds_shell ds) (CE (EPullSucc s i))) as [[cs1 r] ns]. cbn [fst snd ds_shell]. rewrite app_nil_r. reflexivity.
    - reflexivity. }
  rewrite E. cbn [fst snd]. destruct (dstep fsdp fsh fx cf ds e) as [[ds1 r] ns]. cbn [fst snd].
  rewrite IH. destruct (drun fsdp fsh fx cf ds1 t) as [ds2 ns2]. reflexivity.
Qed.

(* ---- F-C03-4, the tree before the repair --------------------------------------------------------------------- *)
(* an RTSP relay pull is connecting, an RTSP publisher is accepted, the origin answers DESCRIBE: the pull is
   refused and disposed - and the group now holds the SDP of the refused pull, not that of its publisher *)
Definition fc034_history : list devent :=
  [DE (CE (EStartPull 1 0 (-1) false)); DE (CE (ERtspPub 1 1 false)); DE (CE (EPullSucc 1 1))].

Lemma sdp_of_refused_pull_unrepaired :
  exists cf h g,
    let ds := fst (drun false true fixed_tree cf init_dstate h) in
    get_group (cs_base (ds_shell ds)) 1 = Some g /\ g_rtsp g = Some 1 /\ pp_rtsp (g_pp g) = None /\
    vatt (cs_base (ds_shell ds)) 1 1 = Some AFinished /\
    lookup_sdp 1 (ds_sdp ds) = Some (OAtt 1 1).
Proof.
  exists (mk_config false 0), fc034_history. eexists. cbv zeta.
  split; [vm_compute; reflexivity|]. repeat split.
Qed.
