(* Proofs about the content layer (GroupInputContent.v): on the repaired tree the SDP a group holds is, after
   any history, that of its accepted RTSP input (or none) - the SDP of a refused input never reaches the group -,
   events that leave a group's input slots alone leave its SDP alone, and nothing of a relay pull that was not
   attached is forwarded. *)
From Coq Require Import NArith ZArith List Bool Lia.
From Lal Require Import Group.GroupAdmission Group.GroupAdmissionProofs Group.GroupInvariantProofs
     Group.GroupRtspShell Group.GroupRtspShellProofs Group.GroupInputContent.
Import ListNotations.
Open Scope N_scope.

Lemma opt_eqb_eq : forall a b, opt_eqb a b = true -> a = b.
Proof. intros [x|] [y|] H; simpl in H; try discriminate H; [apply N.eqb_eq in H; subst|]; reflexivity. Qed.
Lemma opt_eqb_refl : forall a, opt_eqb a a = true.
Proof. intros [x|]; simpl; [apply N.eqb_refl|reflexivity]. Qed.

Lemma slots_eqb_slots : forall g g', slots_eqb g g' = true <-> slots g = slots g'.
Proof.
  intros g g'. unfold slots_eqb, slots. split.
  - intros H. repeat (apply andb_true_iff in H; destruct H as [H ?]).
    repeat match goal with X : opt_eqb _ _ = true |- _ => apply opt_eqb_eq in X; rewrite X; clear X end. reflexivity.
  - intros H. inversion H. rewrite !opt_eqb_refl. reflexivity.
Qed.

Lemma slots_source : forall s g g', slots g = slots g' -> sdp_source s g = sdp_source s g'.
Proof. intros s g g' H. unfold slots in H. inversion H. unfold sdp_source. rewrite H2, H6. reflexivity. Qed.

Lemma lookup_sdp_table : forall fsdp st refused tbl l s,
  lookup_sdp s (map (sdp_after fsdp st refused tbl) l) =
  match lookup s l with Some ga => snd (sdp_after fsdp st refused tbl (s, ga)) | None => None end.
Proof.
  intros fsdp st refused tbl l s. unfold lookup_sdp. induction l as [|[k g] t IH]; [reflexivity|].
  simpl map. unfold sdp_after at 1. cbn [lookup]. destruct (N.eqb s k) eqn:E.
  - apply N.eqb_eq in E. subst k. reflexivity.
  - exact IH.
Qed.

(* ---- the SDP a group holds is that of its accepted RTSP input ------------------------------------------- *)
Lemma lookup_sdp_none_table : forall (l : list (N * group)) s,
  lookup_sdp s (map (fun sg : N * group => (fst sg, @None owner)) l) = None.
Proof.
  intros l s. unfold lookup_sdp. induction l as [|[k g] t IH]; [reflexivity|].
  cbn [map fst lookup]. destruct (N.eqb s k); [reflexivity|exact IH].
Qed.

Definition source_of (st : state) (s : N) : option owner :=
  match get_group st s with Some g => sdp_source s g | None => None end.

(* whatever a group holds is the SDP of its accepted RTSP input: it holds that one or none *)
Definition SDP_OK (ds : dstate) : Prop :=
  forall s, lookup_sdp s (ds_sdp ds) = None \/ lookup_sdp s (ds_sdp ds) = source_of (cs_base (ds_shell ds)) s.
(* ... and exactly that one as long as the server has not been disposed *)
Definition SDP_INV (ds : dstate) : Prop :=
  forall s, lookup_sdp s (ds_sdp ds) = source_of (cs_base (ds_shell ds)) s.

Lemma sdp_inv_init : SDP_INV init_dstate.
Proof. intros s. reflexivity. Qed.
Lemma sdp_inv_ok : forall ds, SDP_INV ds -> SDP_OK ds.
Proof. intros ds H s. right. apply H. Qed.

Lemma sdp_after_value : forall st st1 ce tbl s ga,
  lookup s (st_groups st1) = Some ga ->
  snd (sdp_after true st (rtsp_pull_refused st st1 ce) tbl (s, ga)) =
  match get_group st s with
  | Some gb => if slots_eqb gb ga then lookup_sdp s tbl else sdp_source s ga
  | None => sdp_source s ga
  end.
Proof.
  intros st st1 ce tbl s ga _. unfold sdp_after. cbn [snd]. destruct (get_group st s) as [gb|]; [|reflexivity].
  destruct (slots_eqb gb ga); [|reflexivity].
  destruct (rtsp_pull_refused st st1 ce) as [[s' i]|]; [rewrite andb_false_r|]; reflexivity.
Qed.

Lemma sdp_table_ok : forall st st1 ce tbl,
  (forall s, lookup_sdp s tbl = None \/ lookup_sdp s tbl = source_of st s) ->
  forall s, lookup_sdp s (sdp_table true st st1 ce tbl) = None \/ lookup_sdp s (sdp_table true st st1 ce tbl) = source_of st1 s.
Proof.
  intros st st1 ce tbl H s. unfold sdp_table. destruct (is_dispose ce); [left; apply lookup_sdp_none_table|].
  rewrite lookup_sdp_table. unfold source_of. change (get_group st1 s) with (lookup s (st_groups st1)).
  destruct (lookup s (st_groups st1)) as [ga|] eqn:Ea; [|left; reflexivity].
  rewrite (sdp_after_value st st1 ce tbl s ga Ea).
  destruct (get_group st s) as [gb|] eqn:Eb; [|right; reflexivity].
  destruct (slots_eqb gb ga) eqn:Es; [|right; reflexivity].
  apply slots_eqb_slots in Es. destruct (H s) as [X|X]; [left; exact X|right].
  rewrite X. unfold source_of. rewrite Eb. apply slots_source. assumption.
Qed.

Lemma sdp_table_inv : forall st st1 ce tbl, is_dispose ce = false ->
  (forall s, lookup_sdp s tbl = source_of st s) ->
  forall s, lookup_sdp s (sdp_table true st st1 ce tbl) = source_of st1 s.
Proof.
  intros st st1 ce tbl Hd H s. unfold sdp_table. rewrite Hd.
  rewrite lookup_sdp_table. unfold source_of. change (get_group st1 s) with (lookup s (st_groups st1)).
  destruct (lookup s (st_groups st1)) as [ga|] eqn:Ea; [|reflexivity].
  rewrite (sdp_after_value st st1 ce tbl s ga Ea).
  destruct (get_group st s) as [gb|] eqn:Eb; [|reflexivity].
  destruct (slots_eqb gb ga) eqn:Es; [|reflexivity].
  apply slots_eqb_slots in Es. rewrite H. unfold source_of. rewrite Eb. apply slots_source. assumption.
Qed.

Theorem sdp_ok_step : forall fsh fx cf ds de, SDP_OK ds -> SDP_OK (fst (fst (dstep true fsh fx cf ds de))).
Proof.
  intros fsh fx cf ds de H. destruct de as [ce|s i|s]; cbn [dstep].
  - destruct (cstep fsh fx cf (ds_shell ds) ce) as [[cs1 r] ns]. cbn [fst]. intros s. cbn [ds_sdp ds_shell].
    apply sdp_table_ok. exact H.
  - destruct (cstep fsh fx cf (ds_shell ds) (CE (EPullSucc s i))) as [[cs1 r] ns]. cbn [fst]. intros s0. cbn [ds_sdp ds_shell].
    apply sdp_table_ok. exact H.
  - exact H.
Qed.

Theorem sdp_ok_run : forall fsh fx cf h ds, SDP_OK ds -> SDP_OK (fst (drun true fsh fx cf ds h)).
Proof.
  intros fsh fx cf h. induction h as [|e t IH]; intros ds H; [exact H|].
  cbn [drun]. pose proof (sdp_ok_step fsh fx cf ds e H) as H1.
  destruct (dstep true fsh fx cf ds e) as [[ds1 r] ns]. cbn [fst] in H1.
  specialize (IH ds1 H1). destruct (drun true fsh fx cf ds1 t) as [ds2 ns2]. exact IH.
Qed.

Definition not_dispose (de : devent) : bool := match de with DE ce => negb (is_dispose ce) | _ => true end.

Theorem sdp_inv_step : forall fsh fx cf ds de, not_dispose de = true -> SDP_INV ds -> SDP_INV (fst (fst (dstep true fsh fx cf ds de))).
Proof.
  intros fsh fx cf ds de Hd H. destruct de as [ce|s i|s]; cbn [dstep].
  - destruct (cstep fsh fx cf (ds_shell ds) ce) as [[cs1 r] ns]. cbn [fst]. intros s. cbn [ds_sdp ds_shell].
    apply sdp_table_inv; [apply negb_true_iff; exact Hd|exact H].
  - destruct (cstep fsh fx cf (ds_shell ds) (CE (EPullSucc s i))) as [[cs1 r] ns]. cbn [fst]. intros s0. cbn [ds_sdp ds_shell].
    apply sdp_table_inv; [reflexivity|exact H].
  - exact H.
Qed.

Theorem sdp_inv_run : forall fsh fx cf h ds, forallb not_dispose h = true -> SDP_INV ds -> SDP_INV (fst (drun true fsh fx cf ds h)).
Proof.
  intros fsh fx cf h. induction h as [|e t IH]; intros ds Hh H; [exact H|].
  cbn [forallb] in Hh. apply andb_true_iff in Hh. destruct Hh as [He Ht].
  cbn [drun]. pose proof (sdp_inv_step fsh fx cf ds e He H) as H1.
  destruct (dstep true fsh fx cf ds e) as [[ds1 r] ns]. cbn [fst] in H1.
  specialize (IH ds1 Ht H1). destruct (drun true fsh fx cf ds1 t) as [ds2 ns2]. exact IH.
Qed.

(* After ANY history on the repaired tree: if the group of stream s holds an SDP at all (the one an RTSP DESCRIBE is
   answered with), it is the SDP of the RTSP publisher / RTSP relay pull that IS its accepted input - never that of
   an input that was refused or has departed, never anything when the input is of another kind or absent. *)
Theorem sdp_is_of_accepted_input : forall fsh fx cf h s,
  let ds := fst (drun true fsh fx cf init_dstate h) in
  snd (fst (dstep true fsh fx cf ds (DSdp s))) = DRSdp None \/
  snd (fst (dstep true fsh fx cf ds (DSdp s))) = DRSdp (source_of (cs_base (ds_shell ds)) s).
Proof.
  intros fsh fx cf h s ds. cbn [dstep snd fst].
  destruct (sdp_ok_run fsh fx cf h init_dstate (sdp_inv_ok _ sdp_inv_init) s) as [X|X]; fold ds in X; rewrite X; [left|right]; reflexivity.
Qed.

(* ... and as long as the server has not been disposed (ServerManager.Dispose drops the SDP of every group, also of one
   whose relay pull it leaves attached) the group holds exactly the SDP of its accepted RTSP input *)
Theorem sdp_exact_until_dispose : forall fsh fx cf h s, forallb not_dispose h = true ->
  let ds := fst (drun true fsh fx cf init_dstate h) in
  snd (fst (dstep true fsh fx cf ds (DSdp s))) = DRSdp (source_of (cs_base (ds_shell ds)) s).
Proof.
  intros fsh fx cf h s Hh ds. cbn [dstep snd fst]. f_equal.
  exact (sdp_inv_run fsh fx cf h init_dstate Hh sdp_inv_init s).
Qed.

(* an event other than Dispose that leaves the input slots of a group alone leaves its SDP alone (no invariant needed) *)
Theorem unchanged_slots_keep_sdp : forall st st1 ce tbl s gb ga, is_dispose ce = false ->
  get_group st s = Some gb -> get_group st1 s = Some ga -> slots ga = slots gb ->
  lookup_sdp s (sdp_table true st st1 ce tbl) = lookup_sdp s tbl.
Proof.
  intros st st1 ce tbl s gb ga Hd Hb Ha Hs. unfold sdp_table. rewrite Hd. rewrite lookup_sdp_table.
  unfold get_group in Ha. rewrite Ha. rewrite (sdp_after_value st st1 ce tbl s ga Ha). rewrite Hb.
  assert (E : slots_eqb gb ga = true) by (apply slots_eqb_slots; symmetry; assumption). rewrite E. reflexivity.
Qed.

(* ... so an event about a session that is not the accepted input of stream s - a refused arrival, the departure
   of a refused session, a relay pull that is overtaken - does not change the SDP of s *)
Theorem foreign_event_keeps_sdp : forall cf st e x s g tbl,
  get_group st s = Some g -> has_in g = true ->
  subject_of e = Some x -> occupies x s g = false ->
  lookup_sdp s (sdp_table true st (fst (fst (step fixed_tree cf st e))) (CE e) tbl) = lookup_sdp s tbl.
Proof.
  intros cf st e x s g tbl Hg Hin Hs Ho.
  destruct (foreign_event_step fixed_tree eq_refl eq_refl cf st e x s g Hs Hg Hin Ho) as [g' [Hg' [Hsl _]]].
  assert (Hd : is_dispose (CE e) = false) by (destruct e; try reflexivity; discriminate Hs).
  exact (unchanged_slots_keep_sdp st _ (CE e) tbl s g g' Hd Hg Hg' Hsl).
Qed.

(* ---- media behind the answer of the origin ------------------------------------------------------------- *)
Theorem unattached_pull_forwards_nothing : forall fsdp fsh fx cf ds s i,
  let '(ds1, r, _) := dstep fsdp fsh fx cf ds (DPullSuccMedia s i) in
  (forall a, find_att s i (st_atts (cs_base (ds_shell ds1))) = Some a -> a_state a <> AAttached) ->
  exists r0, r = DRMedia r0 [].
Proof.
  intros fsdp fsh fx cf ds s i. cbn [dstep].
  destruct (cstep fsh fx cf (ds_shell ds) (CE (EPullSucc s i))) as [[cs1 r] ns]. cbn [ds_shell].
  intros H. exists r. f_equal.
  destruct r; try reflexivity;
    (destruct (find_att s i (st_atts (cs_base cs1))) as [at0|] eqn:Ea; [|reflexivity];
     destruct (get_group (cs_base cs1) s); [|reflexivity];
     specialize (H at0 eq_refl); destruct (a_state at0); try reflexivity; contradiction).
Qed.

(* ---- every content-level history is a connection-level history ---------------------------------------------- *)
Definition erase (de : devent) : list cevent :=
  match de with DE ce => [ce] | DPullSuccMedia s i => [CE (EPullSucc s i)] | DSdp _ => [] end.

Theorem drun_shell : forall fsdp fsh fx cf h ds,
  crun fsh fx cf (ds_shell ds) (flat_map erase h) =
  (ds_shell (fst (drun fsdp fsh fx cf ds h)), snd (drun fsdp fsh fx cf ds h)).
Proof.
  intros fsdp fsh fx cf h. induction h as [|e t IH]; intros ds; [reflexivity|].
  cbn [flat_map drun]. rewrite crun_app.
  assert (E : crun fsh fx cf (ds_shell ds) (erase e) =
              (ds_shell (fst (fst (dstep fsdp fsh fx cf ds e))), snd (dstep fsdp fsh fx cf ds e))).
  { destruct e as [ce|s i|s]; cbn [erase crun dstep].
    - destruct (cstep fsh fx cf (ds_shell ds) ce) as [[cs1 r] ns]. cbn [fst snd ds_shell]. rewrite app_nil_r. reflexivity.
    - destruct (cstep fsh fx cf (ds_shell ds) (CE (EPullSucc s i))) as [[cs1 r] ns]. cbn [fst snd ds_shell]. rewrite app_nil_r. reflexivity.
    - reflexivity. }
  rewrite E. cbn [fst snd]. destruct (dstep fsdp fsh fx cf ds e) as [[ds1 r] ns]. cbn [fst snd].
  rewrite IH. destruct (drun fsdp fsh fx cf ds1 t) as [ds2 ns2]. reflexivity.
Qed.

(* ---- F-C03-4, the tree before the repair --------------------------------------------------------------------- *)
(* an RTSP relay pull is connecting, an RTSP publisher is accepted, the origin answers DESCRIBE: the pull is
   refused and disposed - and the group now holds the SDP of the refused pull, not that of its publisher *)
Definition fc034_history : list devent :=
  [DE (CE (EStartPull 1 0 (-1) false)); DE (CE (ERtspPub 1 1 false)); DE (CE (EPullSucc 1 1))].

Lemma sdp_of_refused_pull_unrepaired :
  exists cf h g,
    let ds := fst (drun false true fixed_tree cf init_dstate h) in
    get_group (cs_base (ds_shell ds)) 1 = Some g /\ g_rtsp g = Some 1 /\ pp_rtsp (g_pp g) = None /\
    vatt (cs_base (ds_shell ds)) 1 1 = Some AFinished /\
    lookup_sdp 1 (ds_sdp ds) = Some (OAtt 1 1).
Proof.
  exists (mk_config false 0), fc034_history. eexists. cbv zeta.
  split; [vm_compute; reflexivity|]. repeat split.
Qed.
