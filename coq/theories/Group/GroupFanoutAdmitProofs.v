(* What a consumer receives at the moment it is admitted (C02): a fresh
   session gets the prologue of the cache and then, if it need not wait for a
   key frame, the live message; a waiting session gets nothing until a key
   frame, which it then receives. *)
From Lal Require Import Common.LBytes Group.GroupMsg Group.GroupGopCache Group.GroupFanout
  Group.GroupGopCacheProofs Group.GroupFanoutProofs Group.GroupFanoutCacheProofs.
From Coq Require Import Lia.
Open Scope N_scope.

Ltac fin := repeat split; repeat (progress csimp); rewrite <- ?app_assoc, ?app_nil_r; cbn [app]; try reflexivity; try assumption.

(* HTTP-FLV: the whole visit is one function of the session *)
Theorem flv_fresh_visit cache key lt c :
  c_kind c = KFlv -> c_fresh c = true ->
  let wait1 := if Nat.ltb 0 (gc_count cache) then false else c_wait c in
  let c' := flv_step cache key lt c in
  c_fresh c' = false /\
  c_wait c' = (wait1 && negb key) /\
  c_out c' = c_out c ++ prologue cache false ++ (if wait1 && negb key then [] else [lt]).
Proof.
  intros Hk Hf. cbv zeta. unfold flv_step. rewrite Hk, Hf. cbn [ckind_eqb negb].
  csimp. destruct (Nat.ltb 0 (gc_count cache)); cbn [andb].
  - fin.
  - destruct (c_wait c) eqn:Hw; cbn [andb negb].
    + destruct key; cbn [negb]; fin.
    + fin.
Qed.

Theorem flv_waiting_visit cache key lt c :
  c_kind c = KFlv -> c_fresh c = false -> c_wait c = true ->
  let c' := flv_step cache key lt c in
  c_fresh c' = false /\ c_wait c' = negb key /\ c_out c' = c_out c ++ (if key then [lt] else []).
Proof.
  intros Hk Hf Hw. cbv zeta. unfold flv_step. rewrite Hk, Hf, Hw. cbn [ckind_eqb negb].
  destruct key; fin.
Qed.

(* relay push: prologue with @setDataFrame-ensured metadata, then the live message *)
Theorem push_fresh_visit cache lw c :
  c_kind c = KPush -> c_fresh c = true ->
  let c' := push_step cache lw c in
  c_fresh c' = false /\ c_out c' = c_out c ++ prologue cache true ++ [lw].
Proof.
  intros Hk Hf. cbv zeta. unfold push_step. rewrite Hk, Hf. cbn [ckind_eqb negb]. csimp.
  fin.
Qed.

(* RTMP: the visit in the admission loop *)
Theorem rtmp_fresh_visit cache key c :
  c_fresh c = true ->
  let wait1 := if Nat.ltb 0 (gc_count cache) then false else c_wait c in
  let '(c', flushed) := rtmp_visit cache key c in
  flushed = true /\ c_fresh c' = false /\ c_wait c' = (wait1 && negb key) /\
  c_out c' = c_out c ++ prologue cache false.
Proof.
  intro Hf. cbv zeta. unfold rtmp_visit. rewrite Hf. csimp.
  destruct (Nat.ltb 0 (gc_count cache)); cbn [andb].
  - fin.
  - destruct (c_wait c) eqn:Hw; cbn [andb].
    + destruct key; cbn [negb]; fin.
    + fin.
Qed.

Theorem rtmp_waiting_visit cache key c :
  c_fresh c = false -> c_wait c = true ->
  let '(c', flushed) := rtmp_visit cache key c in
  flushed = key /\ c_fresh c' = false /\ c_wait c' = negb key /\ c_out c' = c_out c.
Proof.
  intros Hf Hw. unfold rtmp_visit. rewrite Hf, Hw. cbn [andb].
  destruct key; fin.
Qed.

(* HTTP-TS: PAT/PMT first, then the cached GOPs, then live data from a boundary on *)
Theorem ts_fresh_visit cache pat boundary lt c :
  c_kind c = KTs -> c_fresh c = true ->
  let wait1 := if Nat.ltb 0 (gc_count cache) then false else c_wait c in
  let c' := ts_step cache pat boundary lt c in
  c_fresh c' = false /\ c_wait c' = (wait1 && negb boundary) /\
  c_out c' = c_out c ++ (opt_list pat ++ gc_all cache) ++ (if wait1 && negb boundary then [] else [lt]).
Proof.
  intros Hk Hf. cbv zeta. unfold ts_step. rewrite Hk, Hf. cbn [ckind_eqb negb].
  csimp. destruct (Nat.ltb 0 (gc_count cache)); cbn [andb].
  - fin.
  - destruct (c_wait c) eqn:Hw; cbn [andb negb].
    + destruct boundary; cbn [negb]; fin.
    + fin.
Qed.

(* a consumer joining while the group knows no video codec is not made to wait *)
Theorem join_wait_rule s k id :
  c_wait (new_consumer s k id) =
  match k with KRtmp | KFlv => g_video_known s | KPush => false | KTs | KRtsp => true end /\
  c_fresh (new_consumer s k id) = true /\
  c_out (new_consumer s k id) = match k with KRtsp => opt_list (g_sdp s) | _ => [] end.
Proof. destruct k; repeat split. Qed.

(* the end of the input wipes caches, PAT/PMT and codec information *)
Theorem in_stop_clears cf s : g_in s = true ->
  let s' := step cf s EvInStop in
  g_video_known s' = false /\ g_patpmt s' = None /\
  prologue (g_rtmp_cache s') false = [] /\ prologue (g_rtmp_cache s') true = [] /\
  prologue (g_flv_cache s') false = [] /\ gc_all (g_ts_cache s') = [] /\ gc_count (g_ts_cache s') = 0%nat /\
  g_sdp s' = None.
Proof.
  intro Hin. cbn [step]. rewrite Hin. cbn [negb].
  destruct (partition _ _) as [pushes stay].
  cbn [g_video_known g_patpmt g_rtmp_cache g_flv_cache g_ts_cache g_sdp].
  assert (Hc : forall g : gop_cache label, gc_count (gc_clear g) = 0%nat /\ gc_all (gc_clear g) = []).
  { intro g. assert (H0 : gc_count (gc_clear g) = 0%nat).
    { unfold gc_count. cbn [gc_clear gc_last gc_first gc_size]. rewrite Nat.add_0_l, Nat.sub_0_r.
      destruct (gc_size g) as [|n]; [reflexivity|]. apply Nat.mod_same. lia. }
    split; [exact H0|]. unfold gc_all. now rewrite H0. }
  unfold prologue. cbn [gc_clear gc_meta_w gc_meta_wo gc_vsh gc_ash opt_list app].
  repeat split; try reflexivity; try apply Hc.
Qed.
