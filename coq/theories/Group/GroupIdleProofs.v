From Lal Require Import Common.LBytes Group.GroupIdle.
From Coq Require Import Lia ZifyN ZifyBool.
Ltac Zify.zify_post_hook ::= Z.div_mod_to_equations.
Open Scope N_scope.

Lemma u64_diff_zero a b : a < 18446744073709551616 -> b < 18446744073709551616 ->
  (u64 (a + 18446744073709551616 - b) =? 0) = (a =? b).
Proof.
  intros Ha Hb. unfold u64.
  destruct (N.eqb_spec a b) as [E|E].
  - subst. replace (b + 18446744073709551616 - b) with 18446744073709551616 by lia. reflexivity.
  - apply N.eqb_neq. lia.
Qed.

(* second and later looks: alive iff the counter moved *)
Theorem is_alive_spec st r w r0 w0 :
  st_stale st = Some (r0, w0) ->
  r < 18446744073709551616 -> w < 18446744073709551616 -> r0 < 18446744073709551616 -> w0 < 18446744073709551616 ->
  is_alive st r w = ((negb (r =? r0), negb (w =? w0)), {| st_stale := Some (r, w) |}).
Proof.
  intros Hs Hr Hw Hr0 Hw0. unfold is_alive. rewrite Hs. now rewrite !u64_diff_zero by assumption.
Qed.

Theorem is_alive_first st r w : st_stale st = None ->
  is_alive st r w = ((true, true), {| st_stale := Some (r, w) |}).
Proof. intro Hs. unfold is_alive. now rewrite Hs. Qed.

(* a publisher whose connection read nothing between two consecutive sweeps is
   disposed at the second one; one that read something is kept *)
Theorem idle_input_dropped s r0 w0 k :
  (k = SPubRtmp \/ k = SPubRtsp) -> ss_kind s = k ->
  st_stale (ss_stat s) = Some (r0, w0) ->
  ss_r s < 18446744073709551616 -> ss_w s < 18446744073709551616 -> r0 < 18446744073709551616 -> w0 < 18446744073709551616 ->
  ss_closed (sweep_one s) = ss_closed s || (ss_r s =? r0).
Proof.
  intros Hk Hkind Hs H1 H2 H3 H4. unfold sweep_one. rewrite Hkind.
  destruct Hk as [-> | ->]; rewrite (is_alive_spec _ _ _ _ _ Hs) by assumption; cbn [ss_closed];
    now rewrite Bool.negb_involutive.
Qed.

Theorem stalled_subscriber_dropped s r0 w0 :
  (ss_kind s = SSubRtmp \/ ss_kind s = SSubRtsp \/ ss_kind s = SSubFlv \/ ss_kind s = SSubTs) ->
  st_stale (ss_stat s) = Some (r0, w0) ->
  ss_r s < 18446744073709551616 -> ss_w s < 18446744073709551616 -> r0 < 18446744073709551616 -> w0 < 18446744073709551616 ->
  ss_closed (sweep_one s) = ss_closed s || (ss_w s =? w0).
Proof.
  intros Hk Hs H1 H2 H3 H4. unfold sweep_one.
  destruct Hk as [Hk|[Hk|[Hk|Hk]]]; rewrite Hk; rewrite (is_alive_spec _ _ _ _ _ Hs) by assumption; cbn [ss_closed];
    now rewrite Bool.negb_involutive.
Qed.

(* nobody is disposed at the first look, push sessions never, and nothing
   happens on ticks that are not multiples of 120 *)
Theorem first_sweep_keeps s : st_stale (ss_stat s) = None -> ss_closed (sweep_one s) = ss_closed s.
Proof.
  intro Hs. unfold sweep_one. destruct (ss_kind s); try reflexivity;
    rewrite (is_alive_first _ _ _ Hs); cbn [ss_closed]; now rewrite Bool.orb_false_r.
Qed.

Theorem push_never_swept s : ss_kind s = SPush -> sweep_one s = s.
Proof. intro H. unfold sweep_one. now rewrite H. Qed.

Theorem off_ticks_do_nothing n l : n mod check_interval <> 0 -> tick n l = l.
Proof. intro H. unfold tick. apply N.eqb_neq in H. now rewrite H. Qed.

(* a group is removable exactly when it has no input, no output and no pull pending *)
Theorem group_inactive_iff i o p : group_inactive i o p = true <-> i = false /\ o = false /\ p = false.
Proof. unfold group_inactive. destruct i, o, p; cbn; intuition discriminate. Qed.
