(* Family A of the state-wide invariant: relay-pull attempts, the pull proxy of the
   groups and the relay notifications agree (repaired tree). *)
From Coq Require Import NArith ZArith List Bool Lia.
From Lal Require Import Group.GroupAdmission Group.GroupAdmissionProofs Group.GroupInvariantProofs.
Import ListNotations.
Open Scope N_scope.

(* what family A looks at in a group: in-flight flag and the two pull slots *)
Definition pview (g : group) : bool * option N * option N := (pp_pulling (g_pp g), pp_rtmp (g_pp g), pp_rtsp (g_pp g)).
Definition pv (st : state) (s : N) : option (bool * option N * option N) := option_map pview (get_group st s).

Lemma pv_some : forall st s g, get_group st s = Some g -> pv st s = Some (pview g).
Proof. intros. unfold pv. rewrite H. reflexivity. Qed.

(* ---- the invariant, stream by stream ---------------------------------------------------------------------
   p  : in-flight flag and pull slots of the stream's group (None: no group)
   va : state of attempt i of the stream      c : attempts so far      w : relay notifications of attempt i *)
Record SA (p : option (bool * option N * option N)) (va : N -> option astate) (c : N) (w : N -> list nkind) : Prop := mk_SA {
  sa_att : forall i, match va i with
           | None => True
           | Some x => 1 <= i <= c /\
             match x with
             | AHeld => exists r t, p = Some (true, r, t) /\ r <> Some i /\ t <> Some i
             | AAttached => exists r t, p = Some (true, r, t) /\ (r = Some i \/ t = Some i)
             | AFinished => True
             end
           end;
  sa_slot : forall b r t i, p = Some (b, r, t) -> (r = Some i \/ t = Some i) -> va i = Some AAttached;
  sa_last : forall i, outstanding (va i) = true -> i = c;
  sa_log : forall i, att_word_ok (va i) (w i)
}.

Definition stream_inv (st : state) (log : list notif) (s : N) : Prop :=
  SA (pv st s) (vatt st s) (cnt_of st s) (fun i => word log (WAtt s i)).

Lemma inv_a_streams : forall st log,
  INV_A st log <-> (NoDup (map fst (st_groups st)) /\ forall s, stream_inv st log s).
Proof.
  intros st log. unfold stream_inv. split.
  - intros [K A B C D]. split; [assumption|]. intros s. constructor.
    + intros i. specialize (A s i). unfold att_ok in A. destruct (vatt st s i) as [[| |]|]; try exact I.
      * destruct A as [A1 [g [G1 [G2 G3]]]]. split; [assumption|]. exists (pp_rtmp (g_pp g)), (pp_rtsp (g_pp g)).
        rewrite (pv_some _ _ _ G1). unfold pview. rewrite G2. unfold attached_in in G3. split; [reflexivity|]. tauto.
      * destruct A as [A1 [g [G1 [G2 G3]]]]. split; [assumption|]. exists (pp_rtmp (g_pp g)), (pp_rtsp (g_pp g)).
        rewrite (pv_some _ _ _ G1). unfold pview. rewrite G2. split; [reflexivity|exact G3].
      * destruct A as [A1 _]. split; [assumption|exact I].
    + intros b r t i Hp Hi. unfold pv in Hp. destruct (get_group st s) as [g|] eqn:E; [|discriminate]. simpl in Hp.
      unfold pview in Hp. inversion Hp; subst. eapply B; [exact E|exact Hi].
    + apply C.
    + apply D.
  - intros [K H]. constructor; try assumption.
    + intros s i. destruct (H s) as [A _ _ _]. specialize (A i). unfold att_ok, attached_in.
      destruct (vatt st s i) as [[| |]|]; try exact I.
      * destruct A as [A1 [r [t [G1 [G2 G3]]]]]. split; [assumption|]. unfold pv in G1.
        destruct (get_group st s) as [g|]; [|discriminate]. exists g. split; [reflexivity|]. simpl in G1. unfold pview in G1.
        inversion G1; subst. tauto.
      * destruct A as [A1 [r [t [G1 G3]]]]. split; [assumption|]. unfold pv in G1.
        destruct (get_group st s) as [g|]; [|discriminate]. exists g. split; [reflexivity|]. simpl in G1. unfold pview in G1.
        inversion G1; subst. tauto.
      * destruct A as [A1 _]. split; [assumption|exact I].
    + intros s g i Hg Hi. destruct (H s) as [_ B _ _]. eapply (B (pp_pulling (g_pp g)) (pp_rtmp (g_pp g)) (pp_rtsp (g_pp g))); [rewrite (pv_some _ _ _ Hg); reflexivity|exact Hi].
    + intros s i. destruct (H s) as [_ _ C _]. apply C.
    + intros s i. destruct (H s) as [_ _ _ D]. apply D.
Qed.

(* ---- per-stream transitions ------------------------------------------------------------------------------ *)
Lemma sa_same : forall p va c w p' va' c' w',
  SA p va c w -> p' = p -> (forall i, va' i = va i) -> c' = c -> (forall i, w' i = w i) -> SA p' va' c' w'.
Proof.
  intros p va c w p' va' c' w' [A B C D] -> Hv -> Hw. constructor.
  - intros i. rewrite Hv. apply A.
  - intros b r t i. rewrite Hv. apply B.
  - intros i. rewrite Hv. apply C.
  - intros i. rewrite Hv, Hw. apply D.
Qed.

Lemma sa_idle_none_outstanding : forall p va c w i,
  SA p va c w -> (p = None \/ exists r t, p = Some (false, r, t)) -> outstanding (va i) = false.
Proof.
  intros p va c w i [A _ _ _] Hp. specialize (A i). destruct (va i) as [[| |]|]; try reflexivity; exfalso;
    destruct A as [_ [r [t [G _]]]]; destruct Hp as [Hp|[r' [t' Hp]]]; rewrite Hp in G; discriminate.
Qed.

(* a group appears, disappears or changes outside the pull proxy's in-flight flag and slots *)
Lemma sa_new_group : forall va c w, SA None va c w -> SA (Some (false, None, None)) va c w.
Proof.
  intros va c w H. pose proof (fun i => sa_idle_none_outstanding None va c w i H (or_introl eq_refl)) as Hno.
  destruct H as [A B C D]. constructor; try assumption.
  - intros i. specialize (A i). specialize (Hno i). destruct (va i) as [[| |]|]; try discriminate; assumption.
  - intros b r t i Hp Hi. inversion Hp; subst. destruct Hi; discriminate.
Qed.

Lemma sa_erase : forall va c w, SA (Some (false, None, None)) va c w -> SA None va c w.
Proof.
  intros va c w H. assert (Hi0 : Some (false, @None N, @None N) = None \/ exists r0 t0, Some (false, @None N, @None N) = Some (false, r0, t0)) by (right; exists None, None; reflexivity).
  pose proof (fun i => sa_idle_none_outstanding _ va c w i H Hi0) as Hno.
  destruct H as [A B C D]. constructor; try assumption.
  - intros i. specialize (A i). specialize (Hno i). destruct (va i) as [[| |]|]; try discriminate; assumption.
  - intros b r0 t0 i Hp. discriminate.
Qed.

(* an attempt starts *)
Lemma sa_start : forall p va c w va',
  SA p va c w -> (p = None \/ p = Some (false, None, None)) ->
  (forall i, va' i = match va i with Some x => Some x | None => if N.eqb (c + 1) i then Some AHeld else None end) ->
  SA (Some (true, None, None)) va' (c + 1) w.
Proof.
  intros p va c w va' H Hidle Hv.
  assert (Hidle2 : p = None \/ exists r t, p = Some (false, r, t)) by (destruct Hidle as [X|X]; [left|right; eauto]; assumption).
  pose proof (fun i => sa_idle_none_outstanding _ _ _ _ i H Hidle2) as Hno.
  destruct H as [A B C D].
  assert (Hbound : forall i x, va i = Some x -> i <= c).
  { intros i x Hx. specialize (A i). rewrite Hx in A. destruct A as [[_ A] _]. exact A. }
  assert (Hcases : forall i, va' i = va i \/ (i = c + 1 /\ va i = None /\ va' i = Some AHeld)).
  { intros i. rewrite Hv. destruct (va i) eqn:E; [left; reflexivity|].
    destruct (N.eqb (c + 1) i) eqn:E2; [|left; reflexivity]. apply N.eqb_eq in E2. subst. right. repeat split; assumption. }
  constructor.
  - intros i. destruct (Hcases i) as [E|[-> [E1 E2]]].
    + rewrite E. specialize (A i). specialize (Hno i). destruct (va i) as [x|] eqn:Ex; [|exact I].
      destruct A as [[A1 A2] A3]. split; [lia|]. destruct x; simpl in Hno; try discriminate. exact I.
    + rewrite E2. split; [lia|]. exists None, None. split; [reflexivity|]. split; discriminate.
  - intros b r t i Hp Hi. inversion Hp; subst. destruct Hi; discriminate.
  - intros i Ho. destruct (Hcases i) as [E|[-> [E1 E2]]].
    + rewrite E, Hno in Ho. discriminate.
    + reflexivity.
  - intros i. destruct (Hcases i) as [E|[-> [E1 E2]]].
    + rewrite E. apply D.
    + rewrite E2. specialize (D (c + 1)). rewrite E1 in D. exact D.
Qed.

(* the held attempt becomes the input *)
Lemma sa_attach : forall va c w i p' va' w',
  SA (Some (true, None, None)) va c w -> va i = Some AHeld ->
  (p' = Some (true, Some i, None) \/ p' = Some (true, None, Some i)) ->
  (forall j, va' j = if N.eqb j i then Some AAttached else va j) ->
  (forall j, w' j = w j ++ if N.eqb j i then [NPullStart] else []) ->
  SA p' va' c w'.
Proof.
  intros va c w i p' va' w' [A B C D] Hi Hp' Hv Hw.
  assert (Hic : i = c) by (apply C; rewrite Hi; reflexivity).
  assert (Hother : forall j, j <> i -> outstanding (va j) = false).
  { intros j Hj. destruct (outstanding (va j)) eqn:E; [|reflexivity]. apply C in E. congruence. }
  constructor.
  - intros j. rewrite Hv. destruct (N.eqb j i) eqn:E.
    + apply N.eqb_eq in E. subst j. specialize (A i). rewrite Hi in A. destruct A as [A1 _]. split; [assumption|].
      destruct Hp' as [->| ->]; [exists (Some i), None|exists None, (Some i)]; (split; [reflexivity|]); [left|right]; reflexivity.
    + apply N.eqb_neq in E. specialize (A j). specialize (Hother j E). destruct (va j) as [[| |]|]; try discriminate; try exact I. exact A.
  - intros b r t j Hp Hj. rewrite Hv. destruct (N.eqb j i) eqn:E; [reflexivity|]. apply N.eqb_neq in E.
    exfalso. destruct Hp' as [->| ->]; inversion Hp; subst; destruct Hj as [Hj|Hj]; inversion Hj; congruence.
  - intros j Ho. rewrite Hv in Ho. destruct (N.eqb j i) eqn:E; [apply N.eqb_eq in E; congruence|]. apply C. assumption.
  - intros j. rewrite Hv, Hw. destruct (N.eqb j i) eqn:E.
    + apply N.eqb_eq in E. subst j. specialize (D i). rewrite Hi in D. simpl in D. rewrite D. reflexivity.
    + rewrite app_nil_r. apply D.
Qed.

(* an outstanding attempt ends (delPullSession) *)
Lemma sa_finish : forall b r t va c w i x p' va' w',
  SA (Some (b, r, t)) va c w -> va i = Some x -> outstanding (Some x) = true ->
  p' = (if match x with AAttached => true | _ => false end then Some (false, None, None) else Some (false, r, t)) ->
  (forall j, va' j = if N.eqb j i then Some AFinished else va j) ->
  (forall j, w' j = w j ++ if N.eqb j i then [NPullStop] else []) ->
  SA p' va' c w'.
Proof.
  intros b r t va c w i x p' va' w' [A B C D] Hi Hx Hp' Hv Hw.
  assert (Hic : i = c) by (apply C; rewrite Hi; assumption).
  assert (Hother : forall j, j <> i -> outstanding (va j) = false).
  { intros j Hj. destruct (outstanding (va j)) eqn:E; [|reflexivity]. apply C in E. congruence. }
  constructor.
  - intros j. rewrite Hv. destruct (N.eqb j i) eqn:E.
    + apply N.eqb_eq in E. subst j. specialize (A i). rewrite Hi in A. destruct A as [A1 _]. split; [assumption|exact I].
    + apply N.eqb_neq in E. specialize (A j). specialize (Hother j E). destruct (va j) as [[| |]|]; try discriminate; try exact I. exact A.
  - intros b0 r0 t0 j Hp Hj. rewrite Hv. destruct (N.eqb j i) eqn:E.
    + exfalso. apply N.eqb_eq in E. subst j. subst p'. destruct x; simpl in Hx; try discriminate.
      * (* held: not in the slots *)
        specialize (A i). rewrite Hi in A. destruct A as [_ [r1 [t1 [G1 [G2 G3]]]]]. inversion G1; subst.
        inversion Hp; subst. destruct Hj; congruence.
      * inversion Hp; subst. destruct Hj; discriminate.
    + apply N.eqb_neq in E. exfalso. subst p'. destruct x; simpl in Hx; try discriminate.
      * inversion Hp; subst. pose proof (B b r0 t0 j eq_refl Hj) as Bj. specialize (Hother j E). rewrite Bj in Hother. discriminate.
      * inversion Hp; subst. destruct Hj; discriminate.
  - intros j Ho. rewrite Hv in Ho. destruct (N.eqb j i) eqn:E; [discriminate|]. apply C. assumption.
  - intros j. rewrite Hv, Hw. destruct (N.eqb j i) eqn:E.
    + apply N.eqb_eq in E. subst j. specialize (D i). rewrite Hi in D. destruct x; simpl in Hx; try discriminate; simpl in D; rewrite D.
      * left. reflexivity.
      * right. reflexivity.
    + rewrite app_nil_r. apply D.
Qed.

(* the in-flight flag and the slots agree with the state of the attempts *)
Lemma sa_attached_state : forall b r t va c w i x, SA (Some (b, r, t)) va c w -> va i = Some x -> outstanding (Some x) = true ->
  ((r = Some i \/ t = Some i) <-> x = AAttached) /\ b = true.
Proof.
  intros b r t va c w i x [A B C D] Hi Hx. specialize (A i). rewrite Hi in A. destruct x; simpl in Hx; try discriminate.
  - destruct A as [_ [r1 [t1 [G1 [G2 G3]]]]]. inversion G1; subst. split; [|reflexivity]. split; [intros [X|X]; congruence|discriminate].
  - destruct A as [_ [r1 [t1 [G1 G2]]]]. inversion G1; subst. split; [|reflexivity]. split; [reflexivity|intros _; assumption].
Qed.

(* ---- component lemmas ---------------------------------------------------------------------------------------- *)
Lemma pv_put : forall st s g s', pv (put_group st s g) s' = if N.eqb s' s then Some (pview g) else pv st s'.
Proof. intros. unfold pv. rewrite get_group_put. destruct (N.eqb s' s); reflexivity. Qed.

Lemma cnt_of_update : forall st s i s', 
  match lookup s' (update s i (st_cnt st)) with Some c => c | None => 0 end = if N.eqb s' s then i else cnt_of st s'.
Proof.
  intros. unfold cnt_of. destruct (N.eqb s' s) eqn:E.
  - apply N.eqb_eq in E. subst. rewrite lookup_update_same. reflexivity.
  - apply N.eqb_neq in E. rewrite lookup_update_other by assumption. reflexivity.
Qed.

Lemma alloc_att_spec : forall st s rt,
  let st1 := fst (alloc_att st s rt) in
  st_groups st1 = st_groups st /\
  (forall s' i, vatt st1 s' i = match vatt st s' i with Some x => Some x
                                | None => if N.eqb s s' && N.eqb (cnt_of st s + 1) i then Some AHeld else None end) /\
  (forall s', cnt_of st1 s' = if N.eqb s' s then cnt_of st s + 1 else cnt_of st s') /\
  snd (alloc_att st s rt) = cnt_of st s + 1.
Proof.
  intros st s rt. unfold alloc_att. cbn [fst snd].
  assert (Hi : match lookup s (st_cnt st) with Some c => c + 1 | None => 1 end = cnt_of st s + 1).
  { unfold cnt_of. destruct (lookup s (st_cnt st)); reflexivity. }
  rewrite Hi. split; [reflexivity|]. split; [|split; [|reflexivity]].
  - intros s' i. unfold vatt. cbn [st_atts st_set_atts]. rewrite find_att_app. destruct (find_att s' i (st_atts st)); [reflexivity|].
    simpl. destruct (_ && _); reflexivity.
  - intros s'. unfold cnt_of at 1. cbn [st_cnt st_set_atts]. apply cnt_of_update.
Qed.

Lemma vatt_set_att : forall st s i x s' j,
  vatt (set_att st s i x) s' j = if N.eqb s' s && N.eqb j i then option_map (fun _ => x) (vatt st s' j) else vatt st s' j.
Proof.
  intros. unfold vatt, set_att. cbn [st_atts st_set_atts]. rewrite find_att_upd.
  destruct (N.eqb s' s && N.eqb j i); [|reflexivity]. destruct (find_att s' j (st_atts st)); reflexivity.
Qed.

Lemma word_att_one : forall k s i g s' j, word [note k (WAtt s i) g] (WAtt s' j) = if N.eqb s s' && N.eqb i j then [k] else [].
Proof. intros. rewrite word_one. reflexivity. Qed.
Lemma word_att_conn : forall k n g s j, word [note k (WConn n) g] (WAtt s j) = [].
Proof. reflexivity. Qed.

(* pullIfNeeded as seen by family A *)
Lemma pull_if_needed_A : forall g now,
  let '(g1, started, _) := pull_if_needed g now in
  if started then pview g = (false, None, None) /\ pview g1 = (true, None, None) else g1 = g.
Proof.
  intros g now. unfold pull_if_needed. destruct (should_start g now) as [[|] r] eqn:E; [|reflexivity].
  unfold should_start in E. destruct (has_in g) eqn:Hin; [discriminate|]. destruct (pp_pulling (g_pp g)) eqn:Hp; [discriminate|].
  unfold has_in, has_pull in Hin. apply orb_false_iff in Hin. destruct Hin as [_ Hin].
  unfold pview. cbn. rewrite Hp. destruct (pp_rtmp (g_pp g)), (pp_rtsp (g_pp g)); simpl in Hin; try discriminate. split; reflexivity.
Qed.

(* ---- state level -------------------------------------------------------------------------------------------------- *)
Definition A2 (st : state) (log : list notif) : Prop := forall s, stream_inv st log s.

Lemma a2_init : A2 init_state [].
Proof.
  intros s. unfold stream_inv. constructor.
  - intros i. exact I.
  - intros b r t i H. discriminate H.
  - intros i H. discriminate H.
  - intros i. reflexivity.
Qed.

Lemma a_frame : forall st st' log ns,
  A2 st log ->
  (forall s, pv st' s = pv st s \/ (pv st s = None /\ pv st' s = Some (false, None, None))) ->
  (forall s i, vatt st' s i = vatt st s i) -> (forall s, cnt_of st' s = cnt_of st s) ->
  (forall s i, word ns (WAtt s i) = []) ->
  A2 st' (log ++ ns).
Proof.
  intros st st' log ns H Hp Hv Hc Hn s. specialize (H s). unfold stream_inv in *.
  destruct (Hp s) as [E|[E1 E2]].
  - eapply sa_same; [exact H|exact E|apply Hv|apply Hc|]. intros i. simpl. rewrite word_app, Hn, app_nil_r. reflexivity.
  - rewrite E1 in H. apply sa_new_group in H. eapply sa_same; [exact H|exact E2|apply Hv|apply Hc|].
    intros i. simpl. rewrite word_app, Hn, app_nil_r. reflexivity.
Qed.

Lemma a_frame0 : forall st st' log,
  A2 st log ->
  (forall s, pv st' s = pv st s \/ (pv st s = None /\ pv st' s = Some (false, None, None))) ->
  (forall s i, vatt st' s i = vatt st s i) -> (forall s, cnt_of st' s = cnt_of st s) ->
  A2 st' log.
Proof. intros. rewrite <- (app_nil_r log). eapply a_frame; eauto. Qed.

(* a single stream changes *)
Lemma a_one_stream : forall st st' log ns s,
  A2 st log ->
  (forall s', s' <> s -> pv st' s' = pv st s' /\ (forall i, vatt st' s' i = vatt st s' i) /\ cnt_of st' s' = cnt_of st s' /\
                          (forall i, word ns (WAtt s' i) = [])) ->
  stream_inv st' (log ++ ns) s ->
  A2 st' (log ++ ns).
Proof.
  intros st st' log ns s H Hother Hs s'. destruct (N.eq_dec s' s) as [->|Hne]; [assumption|].
  destruct (Hother s' Hne) as [A [B [C D]]]. specialize (H s'). unfold stream_inv in *.
  eapply sa_same; [exact H|exact A|exact B|exact C|]. intros i. simpl. rewrite word_app, D, app_nil_r. reflexivity.
Qed.

Lemma get_or_create_A : forall cf st s st1 g, get_or_create cf st s = (st1, g) ->
  get_group st1 s = Some g /\ st_atts st1 = st_atts st /\ st_cnt st1 = st_cnt st /\ st_now st1 = st_now st /\
  (forall s', s' <> s -> pv st1 s' = pv st s') /\
  (pv st1 s = pv st s \/ (pv st s = None /\ pv st1 s = Some (false, None, None))).
Proof.
  intros cf st s st1 g E. unfold get_or_create in E. destruct (get_group st s) as [g0|] eqn:Eg.
  - inversion E; subst. repeat split; auto.
  - inversion E; subst. clear E. split; [|split; [reflexivity|split; [reflexivity|split; [reflexivity|split]]]].
    + change (get_group (put_group st s (new_group cf (st_gid st + 1) (st_now st))) s = Some (new_group cf (st_gid st + 1) (st_now st))).
      rewrite get_group_put, N.eqb_refl. reflexivity.
    + intros s' Hne. change (pv (put_group st s (new_group cf (st_gid st + 1) (st_now st))) s' = pv st s').
      rewrite pv_put. apply N.eqb_neq in Hne. rewrite Hne. reflexivity.
    + right. split; [unfold pv; rewrite Eg; reflexivity|].
      change (pv (put_group st s (new_group cf (st_gid st + 1) (st_now st))) s = Some (false, None, None)).
      rewrite pv_put, N.eqb_refl. reflexivity.
Qed.

Lemma vatt_same_atts : forall st st' s i, st_atts st' = st_atts st -> vatt st' s i = vatt st s i.
Proof. intros. unfold vatt. rewrite H. reflexivity. Qed.
Lemma cnt_same : forall st st' s, st_cnt st' = st_cnt st -> cnt_of st' s = cnt_of st s.
Proof. intros. unfold cnt_of. rewrite H. reflexivity. Qed.

Lemma a_get_or_create : forall cf st log s st1 g, A2 st log -> get_or_create cf st s = (st1, g) -> A2 st1 log.
Proof.
  intros cf st log s st1 g H E. destruct (get_or_create_A _ _ _ _ _ E) as [_ [Ha [Hc [_ [Ho Hs]]]]].
  eapply a_frame0; [exact H| | |].
  - intros s'. destruct (N.eq_dec s' s) as [->|Hne]; [exact Hs|left; apply Ho; assumption].
  - intros s' i. apply vatt_same_atts. assumption.
  - intros s'. apply cnt_same. assumption.
Qed.

(* replacing a group by one with the same in-flight flag and slots; tables untouched *)
Lemma a_put_same : forall st st' log s g g',
  A2 st log -> get_group st s = Some g -> pview g' = pview g ->
  st_groups st' = st_groups (put_group st s g') -> st_atts st' = st_atts st -> st_cnt st' = st_cnt st ->
  A2 st' log.
Proof.
  intros st st' log s g g' H Hg Hp Hgr Ha Hc. eapply a_frame0; [exact H| | |].
  - intros s'. left. unfold pv, get_group. rewrite Hgr. fold (get_group (put_group st s g') s'). rewrite get_group_put.
    destruct (N.eqb s' s) eqn:E; [|reflexivity]. apply N.eqb_eq in E. subst. fold (get_group st s). rewrite Hg. simpl. rewrite Hp. reflexivity.
  - intros s' i. apply vatt_same_atts. assumption.
  - intros s'. apply cnt_same. assumption.
Qed.

(* pullIfNeeded on a group whose in-flight flag and slots are those recorded for the stream *)
Lemma a_pull_st : forall st1 st' log s g0 st2 g2 o r,
  A2 st1 log -> pv st1 s = Some (pview g0) -> pull_if_needed_st st1 s g0 = (st2, g2, o, r) ->
  st_groups st' = st_groups (put_group st2 s g2) -> st_atts st' = st_atts st2 -> st_cnt st' = st_cnt st2 ->
  A2 st' log.
Proof.
  intros st1 st' log s g0 st2 g2 o r H Hp E Hgr Ha Hc. unfold pull_if_needed_st in E.
  pose proof (pull_if_needed_A g0 (st_now st1)) as Hs.
  destruct (pull_if_needed g0 (st_now st1)) as [[g1 started] r1].
  assert (Hpv' : forall s', pv st' s' = if N.eqb s' s then Some (pview g2) else pv st2 s').
  { intros s'. unfold pv, get_group. rewrite Hgr. fold (get_group (put_group st2 s g2) s'). rewrite get_group_put.
    destruct (N.eqb s' s); reflexivity. }
  destruct started.
  - destruct Hs as [P0 P1].
    pose proof (alloc_att_spec st1 s (pp_rtmp_url (g_pp g1))) as Hal. cbv zeta in Hal.
    destruct (alloc_att st1 s (pp_rtmp_url (g_pp g1))) as [st3 i3]. cbn [fst snd] in Hal. destruct Hal as [G3 [V3 [C3 I3]]].
    inversion E; subst st3 g1 o r1. clear E.
    rewrite <- (app_nil_r log). apply (a_one_stream st1 st' log [] s H).
    + intros s' Hne. assert (En : N.eqb s' s = false) by (apply N.eqb_neq; assumption). split; [|split; [|split]].
      * rewrite Hpv', En. unfold pv, get_group. rewrite G3. reflexivity.
      * intros i. rewrite (vatt_same_atts st2 st' s' i Ha), V3.
        assert (En2 : N.eqb s s' = false) by (apply N.eqb_neq; congruence). rewrite En2. simpl. destruct (vatt st1 s' i); reflexivity.
      * rewrite (cnt_same st2 st' s' Hc), C3, En. reflexivity.
      * reflexivity.
    + unfold stream_inv. rewrite app_nil_r. specialize (H s). unfold stream_inv in H. rewrite Hp, P0 in H.
      rewrite Hpv', N.eqb_refl, P1.
      eapply sa_same with (va := fun i => match vatt st1 s i with Some x => Some x | None => if N.eqb (cnt_of st1 s + 1) i then Some AHeld else None end)
                          (c := cnt_of st1 s + 1) (w := fun i => word log (WAtt s i)).
      * eapply sa_start; [exact H|right; reflexivity|]. intros i. reflexivity.
      * reflexivity.
      * intros i. rewrite (vatt_same_atts st2 st' s i Ha), V3, N.eqb_refl. reflexivity.
      * rewrite (cnt_same st2 st' s Hc), C3, N.eqb_refl. reflexivity.
      * reflexivity.
  - subst g1. inversion E; subst st2 g2 o r1. clear E. eapply a_frame0; [exact H| | |].
    + intros s'. left. rewrite Hpv'. destruct (N.eqb s' s) eqn:En; [|reflexivity]. apply N.eqb_eq in En. subst. symmetry. assumption.
    + intros s' i. apply vatt_same_atts. assumption.
    + intros s'. apply cnt_same. assumption.
Qed.

Lemma pview_pull_del : forall g i,
  pview (pull_del fixed_tree g i) =
  if opt_is (pp_rtmp (g_pp g)) i || opt_is (pp_rtsp (g_pp g)) i then (false, None, None)
  else (false, pp_rtmp (g_pp g), pp_rtsp (g_pp g)).
Proof.
  intros g i. unfold pull_del. cbn [fx_f10 fixed_tree]. destruct (_ || _); reflexivity.
Qed.

Lemma opt_is_iff : forall o n, opt_is o n = true <-> o = Some n.
Proof. intros. split; [apply opt_is_true|]. intros ->. simpl. apply N.eqb_refl. Qed.

(* an outstanding attempt ends: delPullSession on a group whose flag and slots are the recorded ones *)
Lemma a_finish : forall st st' log s g g' i x,
  A2 st log -> get_group st s = Some g -> pview g' = pview g ->
  vatt st s i = Some x -> outstanding (Some x) = true ->
  st_groups st' = st_groups (put_group st s (pull_del fixed_tree g' i)) ->
  (forall s' j, vatt st' s' j = if N.eqb s' s && N.eqb j i then Some AFinished else vatt st s' j) ->
  (forall s', cnt_of st' s' = cnt_of st s') ->
  A2 st' (log ++ [note NPullStop (WAtt s i) (pull_del fixed_tree g' i)]).
Proof.
  intros st st' log s g g' i x H Hg Hp Hx Ho Hgr Hv Hc.
  assert (Hpv' : forall s', pv st' s' = if N.eqb s' s then Some (pview (pull_del fixed_tree g' i)) else pv st s').
  { intros s'. unfold pv, get_group. rewrite Hgr. fold (get_group (put_group st s (pull_del fixed_tree g' i)) s'). rewrite get_group_put.
    destruct (N.eqb s' s); reflexivity. }
  apply (a_one_stream st st' log _ s H).
  - intros s' Hne. assert (En : N.eqb s' s = false) by (apply N.eqb_neq; assumption). split; [|split; [|split]].
    + rewrite Hpv', En. reflexivity.
    + intros j. rewrite Hv, En. reflexivity.
    + apply Hc.
    + intros j. rewrite word_att_one. assert (En2 : N.eqb s s' = false) by (apply N.eqb_neq; congruence). rewrite En2. reflexivity.
  - unfold stream_inv. specialize (H s). unfold stream_inv in H. rewrite (pv_some _ _ _ Hg) in H.
    destruct (pview g) as [[b r] t] eqn:Epv.
    destruct (sa_attached_state b r t _ _ _ i x H Hx Ho) as [Hatt Hb].
    rewrite Hc.
    eapply sa_finish with (va := vatt st s) (w := fun j => word log (WAtt s j)) (i := i) (x := x); [exact H|exact Hx|exact Ho| | |].
    + rewrite Hpv', N.eqb_refl, pview_pull_del.
      assert (Hrt : pp_rtmp (g_pp g') = r /\ pp_rtsp (g_pp g') = t).
      { unfold pview in Hp. inversion Hp. split; reflexivity. }
      destruct Hrt as [-> ->].
      destruct (opt_is r i || opt_is t i) eqn:Ea.
      * assert (x = AAttached). { apply Hatt. apply orb_true_iff in Ea. destruct Ea as [Ea|Ea]; apply opt_is_true in Ea; tauto. }
        subst x. reflexivity.
      * destruct x; simpl in Ho; try discriminate; try reflexivity.
        exfalso. destruct Hatt as [_ Hatt]. destruct (Hatt eq_refl) as [Y|Y]; subst; simpl in Ea; rewrite N.eqb_refl in Ea; simpl in Ea;
          [discriminate|rewrite orb_true_r in Ea; discriminate].
    + intros j. rewrite Hv, N.eqb_refl. reflexivity.
    + intros j. simpl. rewrite word_app, word_att_one, N.eqb_refl. simpl. rewrite N.eqb_sym. reflexivity.
Qed.

Lemma a_stop_and_del : forall st log s g,
  A2 st log -> get_group st s = Some g ->
  let '(g1, a, ns) := stop_and_del fixed_tree s (g_set_pp g (pp_set_api (g_pp g) false)) in
  A2 (finish_att (put_group st s g1) s a) (log ++ ns).
Proof.
  intros st log s g H Hg. unfold stop_and_del, stop_pull.
  set (g1 := g_set_pp (g_set_pp g (pp_set_api (g_pp g) false)) _).
  assert (Hp1 : pview g1 = pview g) by reflexivity.
  change (match pp_rtmp (pp_set_count (g_pp (g_set_pp g (pp_set_api (g_pp g) false))) 0%Z) with
          | Some a => Some a | None => pp_rtsp (pp_set_count (g_pp (g_set_pp g (pp_set_api (g_pp g) false))) 0%Z) end)
    with (match pp_rtmp (g_pp g) with Some a => Some a | None => pp_rtsp (g_pp g) end).
  destruct (match pp_rtmp (g_pp g) with Some a => Some a | None => pp_rtsp (g_pp g) end) as [i|] eqn:Ea.
  - cbv beta iota.
    assert (Hat : pp_rtmp (g_pp g) = Some i \/ pp_rtsp (g_pp g) = Some i).
    { destruct (pp_rtmp (g_pp g)) as [a|]; [left; congruence|right; assumption]. }
    assert (Hx : vatt st s i = Some AAttached).
    { pose proof (H s) as Hs. unfold stream_inv in Hs. rewrite (pv_some _ _ _ Hg) in Hs. destruct Hs as [_ B _ _].
      eapply (B (pp_pulling (g_pp g)) (pp_rtmp (g_pp g)) (pp_rtsp (g_pp g))); [reflexivity|exact Hat]. }
    eapply (a_finish st _ log s g g1 i AAttached); try eassumption; try reflexivity.
    intros s' j. unfold finish_att. rewrite vatt_set_att.
    change (vatt (put_group st s (pull_del fixed_tree g1 i)) s' j) with (vatt st s' j).
    destruct (N.eqb s' s && N.eqb j i) eqn:E; [|reflexivity].
    apply andb_prop in E. destruct E as [E1 E2]. apply N.eqb_eq in E1, E2. subst. rewrite Hx. reflexivity.
  - cbv beta iota. rewrite app_nil_r. eapply (a_put_same st _ log s g g1); try eassumption; reflexivity.
Qed.

(* the held attempt attaches *)
Lemma a_attach : forall st st' log s g g1 i,
  A2 st log -> get_group st s = Some g -> has_in g = false -> vatt st s i = Some AHeld ->
  (pview g1 = (pp_pulling (g_pp g), Some i, None) \/ pview g1 = (pp_pulling (g_pp g), None, Some i)) ->
  st_groups st' = st_groups (put_group st s g1) ->
  (forall s' j, vatt st' s' j = if N.eqb s' s && N.eqb j i then Some AAttached else vatt st s' j) ->
  (forall s', cnt_of st' s' = cnt_of st s') ->
  A2 st' (log ++ [note NPullStart (WAtt s i) g1]).
Proof.
  intros st st' log s g g1 i H Hg Hin Hx Hp1 Hgr Hv Hc.
  assert (Hpv' : forall s', pv st' s' = if N.eqb s' s then Some (pview g1) else pv st s').
  { intros s'. unfold pv, get_group. rewrite Hgr. fold (get_group (put_group st s g1) s'). rewrite get_group_put.
    destruct (N.eqb s' s); reflexivity. }
  apply (a_one_stream st st' log _ s H).
  - intros s' Hne. assert (En : N.eqb s' s = false) by (apply N.eqb_neq; assumption). split; [|split; [|split]].
    + rewrite Hpv', En. reflexivity.
    + intros j. rewrite Hv, En. reflexivity.
    + apply Hc.
    + intros j. rewrite word_att_one. assert (En2 : N.eqb s s' = false) by (apply N.eqb_neq; congruence). rewrite En2. reflexivity.
  - unfold stream_inv. specialize (H s). unfold stream_inv in H. rewrite (pv_some _ _ _ Hg) in H.
    assert (Hslots : pp_rtmp (g_pp g) = None /\ pp_rtsp (g_pp g) = None).
    { unfold has_in, has_pull in Hin. apply orb_false_iff in Hin. destruct Hin as [_ Hin].
      destruct (pp_rtmp (g_pp g)), (pp_rtsp (g_pp g)); simpl in Hin; try discriminate. split; reflexivity. }
    destruct Hslots as [Hr Ht]. unfold pview in H. rewrite Hr, Ht in H.
    destruct (sa_attached_state _ _ _ _ _ _ i AHeld H Hx eq_refl) as [_ Hb]. rewrite Hb in *.
    rewrite Hc. eapply sa_attach with (va := vatt st s) (w := fun j => word log (WAtt s j)) (i := i); [exact H|exact Hx| | |].
    + rewrite Hpv', N.eqb_refl. destruct Hp1 as [->| ->]; [left|right]; reflexivity.
    + intros j. rewrite Hv, N.eqb_refl. reflexivity.
    + intros j. simpl. rewrite word_app, word_att_one, N.eqb_refl. simpl. rewrite N.eqb_sym. reflexivity.
Qed.

(* ---- tick: tables stream by stream -------------------------------------------------------------------------------- *)
Definition va_l (atts : list att) (s i : N) : option astate := option_map a_state (find_att s i atts).
Definition cn_l (cnt : list (N * N)) (s : N) : N := match lookup s cnt with Some c => c | None => 0 end.

Definition start_apply (started : bool) (c : N) (va : N -> option astate) : N -> option astate :=
  fun i => if started then match va i with Some x => Some x | None => if N.eqb (c + 1) i then Some AHeld else None end else va i.
Definition fin_apply (fin : option N) (va : N -> option astate) : N -> option astate :=
  fun i => match fin with Some j => if N.eqb i j then option_map (fun _ => AFinished) (va i) else va i | None => va i end.

Lemma va_l_app : forall atts s i a,
  va_l (atts ++ [a]) s i = match va_l atts s i with Some x => Some x | None => if N.eqb (a_stream a) s && N.eqb (a_idx a) i then Some (a_state a) else None end.
Proof. intros. unfold va_l. rewrite find_att_app. destruct (find_att s i atts); [reflexivity|]. destruct (_ && _); reflexivity. Qed.

Lemma va_l_upd : forall atts s i s' i' x,
  va_l (upd_att s' i' x atts) s i = if N.eqb s s' && N.eqb i i' then option_map (fun _ => x) (va_l atts s i) else va_l atts s i.
Proof. intros. unfold va_l. rewrite find_att_upd. destruct (_ && _); [|reflexivity]. destruct (find_att s i atts); reflexivity. Qed.

Lemma cn_l_update : forall cnt s i s', cn_l (update s i cnt) s' = if N.eqb s' s then i else cn_l cnt s'.
Proof.
  intros. unfold cn_l. destruct (N.eqb s' s) eqn:E.
  - apply N.eqb_eq in E. subst. rewrite lookup_update_same. reflexivity.
  - apply N.eqb_neq in E. rewrite lookup_update_other by assumption. reflexivity.
Qed.

Lemma tick_group_notes : forall fx s g now s' i, s' <> s ->
  word (snd (tick_group fx s g now)) (WAtt s' i) = [].
Proof.
  intros fx s g now s' i Hne. unfold tick_group. destruct (tick_pull g now) as [[g1 started] [a|]]; cbn [snd]; [|reflexivity].
  rewrite word_att_one. assert (E : N.eqb s s' = false) by (apply N.eqb_neq; congruence). rewrite E. reflexivity.
Qed.

Definition tick_atts1 (s : N) (g1 : group) (started : bool) (atts : list att) (cnt : list (N * N)) : list att :=
  if started then atts ++ [mk_att s (match lookup s cnt with Some c => c + 1 | None => 1 end) (pp_rtmp_url (g_pp g1)) AHeld] else atts.
Definition tick_cnt1 (s : N) (started : bool) (cnt : list (N * N)) : list (N * N) :=
  if started then update s (match lookup s cnt with Some c => c + 1 | None => 1 end) cnt else cnt.
Definition tick_atts2 (s : N) (fin : option N) (atts1 : list att) : list att :=
  match fin with Some i => upd_att s i AFinished atts1 | None => atts1 end.

Lemma tick_groups_cons_active : forall fx now s g t atts cnt, inactive g now = false ->
  tick_groups fx now ((s, g) :: t) atts cnt =
  let '(g1, started, fin, ns) := tick_group fx s g now in
  let r := tick_groups fx now t (tick_atts2 s fin (tick_atts1 s g1 started atts cnt)) (tick_cnt1 s started cnt) in
  ((s, g1) :: fst (fst (fst r)), snd (fst (fst r)), snd (fst r), ns ++ snd r).
Proof.
  intros. cbn [tick_groups]. rewrite H. destruct (tick_group fx s g now) as [[[g1 started] fin] ns].
  unfold tick_atts1, tick_cnt1, tick_atts2. destruct started; cbv zeta;
    match goal with |- context[tick_groups fx now t ?a ?c] => destruct (tick_groups fx now t a c) as [[[t1 a3] c3] ns2] end; reflexivity.
Qed.

Lemma tick_groups_tables : forall fx now l atts cnt, NoDup (map fst l) ->
  forall s,
  let r := tick_groups fx now l atts cnt in
  match (match lookup s l with Some g => if inactive g now then None else Some g | None => None end) with
  | None => (forall i, va_l (snd (fst (fst r))) s i = va_l atts s i) /\ cn_l (snd (fst r)) s = cn_l cnt s /\ (forall i, word (snd r) (WAtt s i) = [])
  | Some g =>
    let '(g1, started, fin, ns1) := tick_group fx s g now in
    (forall i, va_l (snd (fst (fst r))) s i = fin_apply fin (start_apply started (cn_l cnt s) (va_l atts s)) i) /\
    cn_l (snd (fst r)) s = (if started then cn_l cnt s + 1 else cn_l cnt s) /\
    (forall i, word (snd r) (WAtt s i) = word ns1 (WAtt s i))
  end.
Proof.
  intros fx now l. induction l as [|[s0 g0] t IH]; intros atts cnt Hnd s.
  - simpl. repeat split.
  - inversion Hnd as [|? ? Hnin Hnd']; subst. cbv zeta. cbn [lookup].
    destruct (inactive g0 now) eqn:Ei.
    + cbn [tick_groups]. rewrite Ei. specialize (IH atts cnt Hnd' s). cbv zeta in IH.
      destruct (N.eqb s s0) eqn:E; [|exact IH].
      apply N.eqb_eq in E. subst s0. apply lookup_none_keys in Hnin. rewrite Hnin in IH. rewrite Ei. exact IH.
    + rewrite (tick_groups_cons_active fx now s0 g0 t atts cnt Ei).
      destruct (tick_group fx s0 g0 now) as [[[g1 started] fin] ns1] eqn:Et. cbv zeta.
      set (atts2 := tick_atts2 s0 fin (tick_atts1 s0 g1 started atts cnt)). set (cnt1 := tick_cnt1 s0 started cnt).
      specialize (IH atts2 cnt1 Hnd' s). cbv zeta in IH. cbn [fst snd].
      set (i0 := match lookup s0 cnt with Some c => c + 1 | None => 1 end).
      assert (Hi0 : i0 = cn_l cnt s0 + 1) by (subst i0; unfold cn_l; destruct (lookup s0 cnt); reflexivity).
      assert (Hva2 : forall s' i, va_l atts2 s' i = if N.eqb s' s0 then fin_apply fin (start_apply started (cn_l cnt s0) (va_l atts s0)) i else va_l atts s' i).
      { intros s' i. subst atts2. unfold tick_atts2, tick_atts1, fin_apply, start_apply. fold i0.
        destruct (N.eqb s' s0) eqn:E.
        - apply N.eqb_eq in E. subst s'.
          destruct fin as [j|]; destruct started; rewrite ?va_l_upd, ?va_l_app; cbn [a_stream a_idx a_state];
            rewrite ?N.eqb_refl, ?Hi0; cbn [andb]; reflexivity.
        - assert (E' : N.eqb s0 s' = false) by (rewrite N.eqb_sym; assumption).
          destruct fin as [j|]; destruct started; rewrite ?va_l_upd, ?va_l_app; cbn [a_stream a_idx a_state];
            rewrite ?E, ?E'; cbn [andb]; try reflexivity; destruct (va_l atts s' i); reflexivity. }
      assert (Hcn1 : forall s', cn_l cnt1 s' = if N.eqb s' s0 then (if started then cn_l cnt s0 + 1 else cn_l cnt s0) else cn_l cnt s').
      { intros s'. subst cnt1. unfold tick_cnt1. fold i0. destruct started.
        - rewrite cn_l_update, Hi0. reflexivity.
        - destruct (N.eqb s' s0) eqn:E; [apply N.eqb_eq in E; subst; reflexivity|reflexivity]. }
      destruct (N.eqb s s0) eqn:E.
      * apply N.eqb_eq in E. subst s0. rewrite Ei. cbv beta iota. rewrite Et. apply lookup_none_keys in Hnin. rewrite Hnin in IH.
        destruct IH as [I1 [I2 I3]]. split; [|split].
        -- intros i. rewrite I1, Hva2, N.eqb_refl. reflexivity.
        -- rewrite I2, Hcn1, N.eqb_refl. reflexivity.
        -- intros i. rewrite word_app, I3, app_nil_r. reflexivity.
      * assert (Hne : s <> s0) by (apply N.eqb_neq; assumption).
        assert (Hw1 : forall i, word ns1 (WAtt s i) = []).
        { intros i. pose proof (tick_group_notes fx s0 g0 now s i Hne) as Hx. rewrite Et in Hx. exact Hx. }
        destruct (match lookup s t with Some g => if inactive g now then None else Some g | None => None end) as [g|].
        -- destruct (tick_group fx s g now) as [[[g2 st2] fin2] ns3]. destruct IH as [I1 [I2 I3]]. split; [|split].
           ++ intros i. rewrite I1. unfold fin_apply, start_apply. rewrite Hcn1, E.
              destruct fin2 as [j|]; destruct st2; rewrite ?Hva2, ?E; reflexivity.
           ++ rewrite I2, Hcn1, E. reflexivity.
           ++ intros i. rewrite word_app, Hw1, I3. reflexivity.
        -- destruct IH as [I1 [I2 I3]]. split; [|split].
           ++ intros i. rewrite I1, Hva2, E. reflexivity.
           ++ rewrite I2, Hcn1, E. reflexivity.
           ++ intros i. rewrite word_app, Hw1, I3. reflexivity.
Qed.

Lemma pview_start_push : forall g, pview (start_push g) = pview g.
Proof. intros g. unfold start_push. destruct (g_push g); [reflexivity|]. destruct (_ || _); reflexivity. Qed.

(* Group.Tick and the Del of a pull it disposed, as a transition of the stream's invariant *)
Lemma sa_tick_group : forall s g now va c w,
  SA (Some (pview g)) va c w ->
  let '(g1, started, fin, ns1) := tick_group fixed_tree s g now in
  SA (Some (pview g1)) (fin_apply fin (start_apply started c va)) (if started then c + 1 else c)
     (fun i => w i ++ word ns1 (WAtt s i)).
Proof.
  intros s g now va c w H. unfold tick_group, tick_pull.
  set (g0 := if has_sub g then g_set_pp g (pp_set_last (g_pp g) now) else g).
  assert (Hp0 : pview g0 = pview g) by (subst g0; destruct (has_sub g); reflexivity).
  destruct (should_auto_stop g0 now).
  - (* auto stop *)
    unfold stop_pull. cbn [fst snd].
    set (gb := g_set_pp g0 (pp_set_count (g_pp g0) 0%Z)).
    assert (Hpb : pview (start_push gb) = pview g) by (rewrite pview_start_push; subst gb; exact Hp0).
    change (match pp_rtmp (pp_set_count (g_pp g0) 0%Z) with Some a => Some a | None => pp_rtsp (pp_set_count (g_pp g0) 0%Z) end)
      with (match pp_rtmp (g_pp g0) with Some a => Some a | None => pp_rtsp (g_pp g0) end).
    destruct (match pp_rtmp (g_pp g0) with Some a => Some a | None => pp_rtsp (g_pp g0) end) as [i|] eqn:Ea.
    + assert (Hat : pp_rtmp (g_pp g) = Some i \/ pp_rtsp (g_pp g) = Some i).
      { unfold pview in Hp0. inversion Hp0 as [[A B C]].
        destruct (pp_rtmp (g_pp g0)) as [a|]; [left; congruence|right; congruence]. }
      assert (Hx : va i = Some AAttached).
      { destruct H as [_ B _ _]. eapply (B (pp_pulling (g_pp g)) (pp_rtmp (g_pp g)) (pp_rtsp (g_pp g))); [reflexivity|exact Hat]. }
      unfold pview in H.
      eapply sa_finish with (i := i) (x := AAttached); [exact H|exact Hx|reflexivity| | |].
      * rewrite pview_pull_del.
        assert (Hrt : pp_rtmp (g_pp (start_push gb)) = pp_rtmp (g_pp g) /\ pp_rtsp (g_pp (start_push gb)) = pp_rtsp (g_pp g)).
        { unfold pview in Hpb. inversion Hpb. split; reflexivity. }
        destruct Hrt as [-> ->].
        assert (Ho : opt_is (pp_rtmp (g_pp g)) i || opt_is (pp_rtsp (g_pp g)) i = true).
        { destruct Hat as [->| ->]; simpl; rewrite N.eqb_refl; [reflexivity|apply orb_true_r]. }
        rewrite Ho. reflexivity.
      * intros j. unfold fin_apply, start_apply. destruct (N.eqb j i) eqn:E; [|reflexivity].
        apply N.eqb_eq in E. subst j. rewrite Hx. reflexivity.
      * intros j. rewrite word_att_one, N.eqb_refl. simpl. rewrite N.eqb_sym. reflexivity.
    + cbn [fst snd]. rewrite Hpb. eapply sa_same; [exact H|reflexivity| |reflexivity|].
      * intros j. reflexivity.
      * intros j. simpl. rewrite app_nil_r. reflexivity.
  - pose proof (pull_if_needed_A g0 now) as Hs.
    destruct (pull_if_needed g0 now) as [[gb started] r]. cbn [fst snd].
    destruct started.
    + destruct Hs as [P0 P1]. rewrite pview_start_push, P1. rewrite <- Hp0, P0 in H.
      eapply sa_same with (w := w); [eapply sa_start; [exact H|right; reflexivity|intros j; reflexivity]|reflexivity| |reflexivity|].
      * intros j. reflexivity.
      * intros j. simpl. rewrite app_nil_r. reflexivity.
    + subst gb. rewrite pview_start_push, Hp0. eapply sa_same; [exact H|reflexivity| |reflexivity|].
      * intros j. reflexivity.
      * intros j. simpl. rewrite app_nil_r. reflexivity.
Qed.

Lemma inactive_pview : forall g now, inactive g now = true -> pview g = (false, None, None).
Proof.
  intros g now H. unfold inactive in H. apply andb_prop in H. destruct H as [_ H]. apply negb_true_iff in H.
  unfold pull_alive in H. apply orb_false_iff in H. destruct H as [H _]. apply orb_false_iff in H. destruct H as [H1 H2].
  unfold has_pull in H1. unfold pview. rewrite H2.
  destruct (pp_rtmp (g_pp g)), (pp_rtsp (g_pp g)); simpl in H1; try discriminate. reflexivity.
Qed.

Lemma a_tick : forall st log,
  A2 st log -> NoDup (map fst (st_groups st)) ->
  let '(gs, atts, cnt, ns) := tick_groups fixed_tree (st_now st) (st_groups st) (st_atts st) (st_cnt st) in
  A2 (st_set_atts (st_set_groups st gs) atts cnt) (log ++ ns).
Proof.
  intros st log H Hnd.
  pose proof (fun s => tick_groups_lookup fixed_tree (st_now st) (st_groups st) (st_atts st) (st_cnt st) s Hnd) as Hlk.
  pose proof (fun s => tick_groups_tables fixed_tree (st_now st) (st_groups st) (st_atts st) (st_cnt st) Hnd s) as Htb.
  destruct (tick_groups fixed_tree (st_now st) (st_groups st) (st_atts st) (st_cnt st)) as [[[gs atts] cnt] ns].
  cbn [fst snd] in *. intros s. specialize (H s). specialize (Hlk s). specialize (Htb s). cbv zeta in Htb.
  unfold stream_inv in *.
  assert (Hpv : pv (st_set_atts (st_set_groups st gs) atts cnt) s = option_map pview (lookup s gs)) by reflexivity.
  assert (Hva : forall i, vatt (st_set_atts (st_set_groups st gs) atts cnt) s i = va_l atts s i) by reflexivity.
  assert (Hcn : cnt_of (st_set_atts (st_set_groups st gs) atts cnt) s = cn_l cnt s) by reflexivity.
  assert (Hva0 : forall i, vatt st s i = va_l (st_atts st) s i) by reflexivity.
  assert (Hcn0 : cnt_of st s = cn_l (st_cnt st) s) by reflexivity.
  rewrite Hpv, Hlk, Hcn. unfold pv, get_group in H.
  destruct (lookup s (st_groups st)) as [g|] eqn:El.
  - destruct (inactive g (st_now st)) eqn:Ei.
    + destruct Htb as [T1 [T2 T3]]. simpl in H. rewrite (inactive_pview _ _ Ei) in H. apply sa_erase in H.
      eapply sa_same; [exact H|reflexivity| | |].
      * intros i. rewrite Hva, T1. reflexivity.
      * rewrite T2. reflexivity.
      * intros i. simpl. rewrite word_app, T3, app_nil_r. reflexivity.
    + pose proof (sa_tick_group s g (st_now st) _ _ _ H) as Ht.
      destruct (tick_group fixed_tree s g (st_now st)) as [[[g1 started] fin] ns1]. cbn [fst option_map].
      destruct Htb as [T1 [T2 T3]].
      eapply sa_same; [exact Ht|reflexivity| | |].
      * intros i. rewrite Hva, T1. reflexivity.
      * rewrite T2. reflexivity.
      * intros i. simpl. rewrite word_app, T3. reflexivity.
  - destruct Htb as [T1 [T2 T3]]. eapply sa_same; [exact H|reflexivity| | |].
    + intros i. rewrite Hva, T1. reflexivity.
    + rewrite T2. reflexivity.
    + intros i. simpl. rewrite word_app, T3, app_nil_r. reflexivity.
Qed.

(* ---- family A: every step -------------------------------------------------------------------------------------------- *)
Lemma a_nil : forall st log, A2 st log -> A2 st (log ++ []).
Proof. intros. rewrite app_nil_r. assumption. Qed.

Lemma a_same_tables : forall st st' log,
  A2 st log -> st_groups st' = st_groups st -> st_atts st' = st_atts st -> st_cnt st' = st_cnt st -> A2 st' log.
Proof.
  intros st st' log H Hg Ha Hc. eapply a_frame0; [exact H| | |].
  - intros s. left. unfold pv, get_group. rewrite Hg. reflexivity.
  - intros s i. apply vatt_same_atts. assumption.
  - intros s. apply cnt_same. assumption.
Qed.

Lemma a_log_conn : forall st log k n g, A2 st log -> A2 st (log ++ [note k (WConn n) g]).
Proof. intros st log k n g H. eapply a_frame; [exact H| | | |]; try (intros; reflexivity). intros s. left. reflexivity. Qed.

Lemma a_admit_pub : forall cf st log sl s n,
  A2 st log -> A2 (fst (fst (admit_pub cf st sl s n true))) log.
Proof.
  intros cf st log sl s n H. unfold admit_pub.
  destruct (get_or_create cf st s) as [st1 g] eqn:Eg.
  pose proof (a_get_or_create _ _ _ _ _ _ H Eg) as H1. destruct (get_or_create_A _ _ _ _ _ Eg) as [Hg1 _].
  cbn [andb]. destruct (has_in g); cbn [fst]; [assumption|].
  unfold next_pipe. cbn [fst snd].
  apply (a_put_same st1 _ log s g (add_in (st_pipe st1 + 1) (set_slot g sl n))); try assumption; try reflexivity.
  unfold add_in. rewrite pview_start_push. destruct sl; reflexivity.
Qed.

Lemma a_admit_sub : forall cf st log k s n pull,
  A2 st log ->
  match admit_sub cf st k s n pull with Some (st1, g) => A2 st1 log | None => True end.
Proof.
  intros cf st log k s n pull H. unfold admit_sub.
  destruct (get_or_create cf st s) as [st1 g] eqn:Eg.
  pose proof (a_get_or_create _ _ _ _ _ _ H Eg) as H1. destruct (get_or_create_A _ _ _ _ _ Eg) as [Hg1 _].
  destruct (g_disposed g); [exact I|].
  set (g0 := g_set_subs g (g_subs g ++ [(k, n)])).
  destruct pull.
  - destruct (pull_if_needed_st st1 s g0) as [[[st2 g2] o] r] eqn:Ep.
    eapply (a_pull_st st1 _ log s g0); try eassumption; try reflexivity.
    rewrite (pv_some _ _ _ Hg1). reflexivity.
  - apply (a_put_same st1 _ log s g g0); try assumption; reflexivity.
Qed.

Lemma a_depart_pub : forall st st0 log sl s n b,
  A2 st log -> st_groups st0 = st_groups st -> st_atts st0 = st_atts st -> st_cnt st0 = st_cnt st ->
  A2 (fst (depart_pub st0 sl s n b)) (log ++ snd (depart_pub st0 sl s n b)).
Proof.
  intros st st0 log sl s n b H Hg Ha Hc.
  pose proof (a_same_tables _ _ _ H Hg Ha Hc) as H0. unfold depart_pub.
  destruct (get_group st0 s) as [g|] eqn:Eg; cbn [fst snd]; [|apply a_nil; assumption].
  assert (H1 : A2 (put_group st0 s (if opt_is (get_slot g sl) n then del_in g else g)) log).
  { apply (a_put_same st0 _ log s g (if opt_is (get_slot g sl) n then del_in g else g)); try assumption; try reflexivity.
    destruct (opt_is _ n); reflexivity. }
  destruct b; [apply a_log_conn|apply a_nil]; assumption.
Qed.

Lemma a_depart_sub : forall st st0 log k s n,
  A2 st log -> st_groups st0 = st_groups st -> st_atts st0 = st_atts st -> st_cnt st0 = st_cnt st ->
  A2 (fst (depart_sub st0 k s n)) (log ++ snd (depart_sub st0 k s n)).
Proof.
  intros st st0 log k s n H Hg Ha Hc.
  pose proof (a_same_tables _ _ _ H Hg Ha Hc) as H0. unfold depart_sub.
  destruct (get_group st0 s) as [g|] eqn:Eg; cbn [fst snd]; [|apply a_nil; assumption].
  apply a_log_conn. apply (a_put_same st0 _ log s g (g_set_subs g (remove_sub k n (g_subs g)))); try assumption; reflexivity.
Qed.

Lemma vatt_find : forall st s i a, find_att s i (st_atts st) = Some a -> vatt st s i = Some (a_state a).
Proof. intros. unfold vatt. rewrite H. reflexivity. Qed.

Theorem a_step : forall cf st log e, A2 st log -> NoDup (map fst (st_groups st)) ->
  A2 (fst (fst (step fixed_tree cf st e))) (log ++ snd (step fixed_tree cf st e)).
Proof.
  intros cf st log e H Hnd. destruct e; cbn [step].
  - (* ERtmpPub *)
    destruct (fresh st n); cbn [negb fst snd]; [|apply a_nil; assumption].
    destruct deny; cbn [fst snd]; [apply a_nil; eapply a_same_tables; [exact H|reflexivity..]|].
    pose proof (a_admit_pub cf st log PsRtmp s n H) as Ha.
    destruct (admit_pub cf st PsRtmp s n true) as [[st1 ok] g]. cbn [fst] in Ha.
    destruct ok; cbn [fst snd]; [apply a_log_conn|apply a_nil]; (eapply a_same_tables; [exact Ha|reflexivity..]).
  - (* ERtmpSub *)
    destruct (fresh st n); cbn [negb fst snd]; [|apply a_nil; assumption].
    destruct deny; cbn [fst snd]; [apply a_nil; eapply a_same_tables; [exact H|reflexivity..]|].
    pose proof (a_admit_sub cf st log SkRtmp s n true H) as Ha.
    destruct (admit_sub cf st SkRtmp s n true) as [[st1 g]|]; cbn [fst snd]; [|apply a_nil; assumption].
    apply a_log_conn. eapply a_same_tables; [exact Ha|reflexivity..].
  - (* ERtspPub *)
    destruct (fresh st n); cbn [negb fst snd]; [|apply a_nil; assumption].
    destruct deny; cbn [fst snd fx_f11 fixed_tree]; [apply a_nil; eapply a_same_tables; [exact H|reflexivity..]|].
    pose proof (a_admit_pub cf st log PsRtsp s n H) as Ha.
    destruct (admit_pub cf st PsRtsp s n true) as [[st1 ok] g]. cbn [fst] in Ha.
    destruct ok; cbn [fst snd fx_f11 fixed_tree]; [apply a_log_conn|apply a_nil]; (eapply a_same_tables; [exact Ha|reflexivity..]).
  - (* ERtspSub *)
    destruct (fresh st n); cbn [negb fst snd]; [|apply a_nil; assumption].
    destruct deny; cbn [fst snd fx_f11 fixed_tree]; [apply a_nil; eapply a_same_tables; [exact H|reflexivity..]|].
    pose proof (a_admit_sub cf st log SkRtsp s n false H) as Ha.
    destruct (admit_sub cf st SkRtsp s n false) as [[st1 g]|]; cbn [fst snd]; [|apply a_nil; assumption].
    apply a_log_conn. eapply a_same_tables; [exact Ha|reflexivity..].
  - (* ERtspPlay *)
    destruct (find_sess n (st_sess st)) as [x|]; cbn [fst snd]; [|apply a_nil; assumption].
    destruct (s_kind x); cbn [fst snd]; try (apply a_nil; assumption).
    destruct (s_gone x || s_closed x); cbn [fst snd]; [apply a_nil; assumption|].
    destruct (get_or_create cf st (s_stream x)) as [st1 g] eqn:Eg.
    pose proof (a_get_or_create _ _ _ _ _ _ H Eg) as H1. destruct (get_or_create_A _ _ _ _ _ Eg) as [Hg1 _].
    destruct (pull_if_needed_st st1 (s_stream x) g) as [[[st2 g2] o] r] eqn:Ep. cbn [fst snd].
    apply a_nil. eapply (a_pull_st st1 _ log (s_stream x) g); try eassumption; try reflexivity.
    rewrite (pv_some _ _ _ Hg1). reflexivity.
  - (* EFlvSub *)
    destruct (fresh st n); cbn [negb fst snd]; [|apply a_nil; assumption].
    destruct deny; cbn [fst snd]; [apply a_nil; eapply a_same_tables; [exact H|reflexivity..]|].
    pose proof (a_admit_sub cf st log SkFlv s n true H) as Ha.
    destruct (admit_sub cf st SkFlv s n true) as [[st1 g]|]; cbn [fst snd]; [|apply a_nil; assumption].
    apply a_log_conn. eapply a_same_tables; [exact Ha|reflexivity..].
  - (* ETsSub *)
    destruct (fresh st n); cbn [negb fst snd]; [|apply a_nil; assumption].
    destruct deny; cbn [fst snd]; [apply a_nil; eapply a_same_tables; [exact H|reflexivity..]|].
    pose proof (a_admit_sub cf st log SkTs s n true H) as Ha.
    destruct (admit_sub cf st SkTs s n true) as [[st1 g]|]; cbn [fst snd]; [|apply a_nil; assumption].
    apply a_log_conn. eapply a_same_tables; [exact Ha|reflexivity..].
  - (* ECustPub *)
    destruct (fresh st n); cbn [negb fst snd]; [|apply a_nil; assumption].
    pose proof (a_admit_pub cf st log PsCust s n H) as Ha.
    destruct (admit_pub cf st PsCust s n true) as [[st1 ok] g]. cbn [fst] in Ha.
    destruct ok; cbn [fst snd]; apply a_nil; (eapply a_same_tables; [exact Ha|reflexivity..]).
  - (* EPsPub *)
    destruct (fresh st n); cbn [negb fst snd]; [|apply a_nil; assumption].
    cbn [fx_f09 fixed_tree].
    pose proof (a_admit_pub cf st log PsPs s n H) as Ha.
    destruct (admit_pub cf st PsPs s n true) as [[st1 ok] g]. cbn [fst] in Ha.
    destruct ok; cbn [fst snd]; [destruct listen; cbn [fst snd]|]; apply a_nil; try (eapply a_same_tables; [exact Ha|reflexivity..]).
    (* Listen failed: the state of a refusal *)
    destruct (get_or_create cf st s) as [st0 g0] eqn:Eg. cbn [fst].
    pose proof (a_get_or_create _ _ _ _ _ _ H Eg) as H0. eapply a_same_tables; [exact H0|reflexivity..].
  - (* EGone *)
    destruct (find_sess n (st_sess st)) as [x|]; cbn [fst snd]; [|apply a_nil; assumption].
    destruct (s_gone x); cbn [fst snd]; [apply a_nil; assumption|].
    destruct (s_kind x); cbn [fst snd]; try (apply a_nil; assumption);
    match goal with
    | |- context[depart_pub ?a ?b ?c ?d ?e] =>
        pose proof (a_depart_pub st a log b c d e H) as Hd; destruct (depart_pub a b c d e) as [st1 ns]; cbn [fst snd] in *; apply Hd
    | |- context[depart_sub ?a ?b ?c ?d] =>
        pose proof (a_depart_sub st a log b c d H) as Hd; destruct (depart_sub a b c d) as [st1 ns]; cbn [fst snd] in *; apply Hd
    end; try reflexivity; destruct (fx_f26 fixed_tree && _); reflexivity.
  - (* EKick *)
    destruct (get_group st s) as [g|] eqn:Eg; cbn [fst snd]; [|apply a_nil; assumption].
    unfold kick_group. destruct t as [n|s' i].
    + destruct (find_sess n (st_sess st)) as [x|]; cbn [fst snd]; [|apply a_nil; assumption].
      destruct (s_kind x); cbn [fst snd]; try (apply a_nil; assumption);
        match goal with |- context[if ?c then _ else _] => destruct c eqn:Ec end; cbn [fst snd];
        try (apply a_nil; assumption);
        try (apply a_nil; eapply a_same_tables; [exact H|reflexivity..]).
      apply a_nil. apply (a_put_same st _ log s g (ps_del g n)); try assumption; try reflexivity.
      unfold ps_del. destruct (opt_is (g_ps g) n); reflexivity.
    + destruct (_ && _); cbn [fst snd]; [|apply a_nil; assumption].
      pose proof (a_stop_and_del st log s g H Eg) as Hs.
      destruct (stop_and_del fixed_tree s _) as [[g1 a] ns]. cbn [fst snd]. exact Hs.
  - (* EStartPull *)
    destruct (get_or_create cf st s) as [st1 g] eqn:Eg.
    pose proof (a_get_or_create _ _ _ _ _ _ H Eg) as H1. destruct (get_or_create_A _ _ _ _ _ Eg) as [Hg1 _].
    set (g0 := g_set_pp g (pp_set_req (g_pp g) rtmp retry autostop)).
    destruct (pull_if_needed_st st1 s g0) as [[[st2 g2] o] r] eqn:Ep. cbn [fst snd].
    apply a_nil. eapply (a_pull_st st1 _ log s g0); try eassumption; try reflexivity.
    rewrite (pv_some _ _ _ Hg1). reflexivity.
  - (* EStopPull *)
    destruct (get_group st s) as [g|] eqn:Eg; cbn [fst snd]; [|apply a_nil; assumption].
    pose proof (a_stop_and_del st log s g H Eg) as Hs.
    destruct (stop_and_del fixed_tree s _) as [[g1 a] ns]. cbn [fst snd]. exact Hs.
  - (* EPullSucc *)
    destruct (find_att s i (st_atts st)) as [a|] eqn:Ea; cbn [fst snd]; [|apply a_nil; assumption].
    destruct (get_group st s) as [g|] eqn:Eg; cbn [fst snd]; [|apply a_nil; assumption].
    pose proof (vatt_find _ _ _ _ Ea) as Hx.
    destruct (a_state a) eqn:Est; cbn [fst snd]; try (apply a_nil; assumption).
    destruct (has_in g || _) eqn:Ei; cbn [fst snd].
    + eapply (a_finish st _ log s g g i AHeld); try eassumption; try reflexivity.
      intros s' j. rewrite vatt_set_att. change (vatt (put_group st s (pull_del fixed_tree g i)) s' j) with (vatt st s' j).
      destruct (N.eqb s' s && N.eqb j i) eqn:E; [|reflexivity].
      apply andb_prop in E. destruct E as [E1 E2]. apply N.eqb_eq in E1, E2. subst. rewrite Hx. reflexivity.
    + apply orb_false_iff in Ei. destruct Ei as [Ei _].
      set (g1 := add_in (st_pipe st + 1) (attach_pull g (a_rtmp a) i)).
      apply (a_attach st (set_att (put_group (st_set_pipe st (st_pipe st + 1)) s g1) s i AAttached) log s g g1 i H Eg Ei Hx).
      * subst g1. unfold add_in. rewrite pview_start_push. unfold attach_pull.
        assert (Hs0 : pp_rtmp (g_pp g) = None /\ pp_rtsp (g_pp g) = None).
        { unfold has_in, has_pull in Ei. apply orb_false_iff in Ei. destruct Ei as [_ Ei].
          destruct (pp_rtmp (g_pp g)), (pp_rtsp (g_pp g)); simpl in Ei; try discriminate. split; reflexivity. }
        destruct Hs0 as [R0 T0]. destruct (a_rtmp a); [left|right]; unfold pview; cbn; rewrite ?R0, ?T0; reflexivity.
      * reflexivity.
      * intros s' j. rewrite vatt_set_att.
        change (vatt (put_group (st_set_pipe st (st_pipe st + 1)) s g1) s' j) with (vatt st s' j).
        destruct (N.eqb s' s && N.eqb j i) eqn:E; [|reflexivity].
        apply andb_prop in E. destruct E as [E1 E2]. apply N.eqb_eq in E1, E2. subst. rewrite Hx. reflexivity.
      * intros s'. reflexivity.
  - (* EPullFail *)
    destruct (find_att s i (st_atts st)) as [a|] eqn:Ea; cbn [fst snd]; [|apply a_nil; assumption].
    destruct (get_group st s) as [g|] eqn:Eg; cbn [fst snd]; [|apply a_nil; assumption].
    pose proof (vatt_find _ _ _ _ Ea) as Hx.
    destruct (a_state a) eqn:Est; cbn [fst snd]; try (apply a_nil; assumption).
    eapply (a_finish st _ log s g g i AHeld); try eassumption; try reflexivity.
    intros s' j. rewrite vatt_set_att. change (vatt (put_group st s (pull_del fixed_tree g i)) s' j) with (vatt st s' j).
    destruct (N.eqb s' s && N.eqb j i) eqn:E; [|reflexivity].
    apply andb_prop in E. destruct E as [E1 E2]. apply N.eqb_eq in E1, E2. subst. rewrite Hx. reflexivity.
  - (* EPullDone *)
    destruct (find_att s i (st_atts st)) as [a|] eqn:Ea; cbn [fst snd]; [|apply a_nil; assumption].
    destruct (get_group st s) as [g|] eqn:Eg; cbn [fst snd]; [|apply a_nil; assumption].
    pose proof (vatt_find _ _ _ _ Ea) as Hx.
    destruct (a_state a) eqn:Est; cbn [fst snd]; try (apply a_nil; assumption).
    eapply (a_finish st _ log s g g i AAttached); try eassumption; try reflexivity.
    intros s' j. rewrite vatt_set_att. change (vatt (put_group st s (pull_del fixed_tree g i)) s' j) with (vatt st s' j).
    destruct (N.eqb s' s && N.eqb j i) eqn:E; [|reflexivity].
    apply andb_prop in E. destruct E as [E1 E2]. apply N.eqb_eq in E1, E2. subst. rewrite Hx. reflexivity.
  - (* EPushOk *)
    match goal with |- context[push_event st s t false ?nx] => generalize nx; intros next end.
    unfold push_event. destruct (get_group st s) as [g|] eqn:Eg; cbn [fst snd]; [|apply a_nil; assumption].
    destruct (nth_error (g_push g) t) as [q|]; cbn [fst snd]; [|apply a_nil; assumption].
    destruct (_ && _); cbn [fst snd]; [|apply a_nil; assumption].
    apply a_nil. apply (a_put_same st _ log s g (push_apply g t next)); try assumption; reflexivity.
  - (* EPushFail *)
    unfold push_event. destruct (get_group st s) as [g|] eqn:Eg; cbn [fst snd]; [|apply a_nil; assumption].
    destruct (nth_error (g_push g) t) as [q|]; cbn [fst snd]; [|apply a_nil; assumption].
    destruct (_ && _); cbn [fst snd]; [|apply a_nil; assumption].
    apply a_nil. apply (a_put_same st _ log s g (push_apply g t (mk_push false false))); try assumption; reflexivity.
  - (* EPushDone *)
    unfold push_event. destruct (get_group st s) as [g|] eqn:Eg; cbn [fst snd]; [|apply a_nil; assumption].
    destruct (nth_error (g_push g) t) as [q|]; cbn [fst snd]; [|apply a_nil; assumption].
    destruct (_ && _); cbn [fst snd]; [|apply a_nil; assumption].
    apply a_nil. apply (a_put_same st _ log s g (push_apply g t (mk_push false false))); try assumption; reflexivity.
  - (* ETick *)
    destruct (st_disposed st); cbn [fst snd]; [apply a_nil; assumption|].
    pose proof (a_tick st log H Hnd) as Ht.
    destruct (tick_groups fixed_tree (st_now st) (st_groups st) (st_atts st) (st_cnt st)) as [[[gs atts] cnt] ns].
    cbn [fst snd]. exact Ht.
  - (* EAdvance *)
    cbn [fst snd]. apply a_nil. eapply a_same_tables; [exact H|reflexivity..].
  - (* EDispose *)
    destruct (st_disposed st); cbn [fst snd]; [apply a_nil; assumption|].
    apply a_nil. eapply a_frame0; [exact H| | |]; try (intros; reflexivity).
    intros s. left. unfold pv, get_group. cbn [st_groups st_set_disposed st_set_sess st_set_groups].
    rewrite lookup_map_snd. destruct (lookup s (st_groups st)); reflexivity.
  - (* EMedia *)
    destruct (find_sess n (st_sess st)) as [x|]; cbn [fst snd]; [|apply a_nil; assumption].
    destruct (s_kind x); cbn [fst snd]; try (apply a_nil; assumption);
    match goal with |- context[if ?c then _ else _] => destruct c end; cbn [fst snd]; apply a_nil; assumption.
Qed.

(* ---- runs --------------------------------------------------------------------------------------------------------------- *)
Lemma both_run : forall cf h st log, INV_S st log -> A2 st log ->
  INV_S (fst (run fixed_tree cf st h)) (log ++ snd (run fixed_tree cf st h)) /\
  A2 (fst (run fixed_tree cf st h)) (log ++ snd (run fixed_tree cf st h)).
Proof.
  intros cf h. induction h as [|e t IH]; intros st log HS HA; simpl.
  - rewrite app_nil_r. split; assumption.
  - pose proof (inv_s_step cf st log e HS) as H1. pose proof (a_step cf st log e HA (inv_keys _ _ HS)) as H2.
    destruct (step fixed_tree cf st e) as [[st1 r] ns]. cbn [fst snd] in H1, H2.
    specialize (IH st1 (log ++ ns) H1 H2). destruct (run fixed_tree cf st1 t) as [st2 ns2]. cbn [fst snd] in *.
    rewrite app_assoc. exact IH.
Qed.

Lemma a2_run : forall cf h, A2 (fst (run fixed_tree cf init_state h)) (snd (run fixed_tree cf init_state h)).
Proof. intros cf h. destruct (both_run cf h init_state [] inv_s_init a2_init) as [_ H]. exact H. Qed.

(* never two relay-pull attempts of one stream outstanding (in flight or attached), after any history *)
Theorem single_attempt : forall cf h s i j,
  let st := fst (run fixed_tree cf init_state h) in
  outstanding (vatt st s i) = true -> outstanding (vatt st s j) = true -> i = j.
Proof.
  intros cf h s i j st Hi Hj. pose proof (a2_run cf h s) as H. unfold stream_inv in H. fold st in H.
  destruct H as [_ _ C _]. rewrite (C i Hi), (C j Hj). reflexivity.
Qed.

(* an outstanding attempt keeps the group's in-flight flag set, so nothing can start meanwhile *)
Theorem outstanding_blocks_start : forall cf h s i g now,
  let st := fst (run fixed_tree cf init_state h) in
  outstanding (vatt st s i) = true -> get_group st s = Some g -> snd (fst (pull_if_needed g now)) = false.
Proof.
  intros cf h s i g now st Hi Hg. pose proof (a2_run cf h s) as H. unfold stream_inv in H. fold st in H.
  rewrite (pv_some _ _ _ Hg) in H. destruct H as [A _ _ _]. specialize (A i).
  unfold pull_if_needed, should_start.
  destruct (vatt st s i) as [[| |]|]; simpl in Hi; try discriminate;
    destruct A as [_ [r [t [G _]]]]; unfold pview in G; inversion G as [[P R T]];
    destruct (has_in g); [reflexivity| |reflexivity|]; rewrite P; reflexivity.
Qed.

(* relay notifications of an attempt: none while it is in flight; its start while it is attached;
   once it has ended exactly one stop, preceded by the start iff it had attached *)
Theorem notifications_pull : forall cf h s i,
  let '(st, log) := run fixed_tree cf init_state h in
  att_word_ok (vatt st s i) (word log (WAtt s i)).
Proof.
  intros cf h s i. pose proof (a2_run cf h s) as H. destruct (run fixed_tree cf init_state h) as [st log].
  cbn [fst snd] in H. destruct H as [_ _ _ D]. apply D.
Qed.

(* the pull session the stat API lists is an attached attempt of that stream *)
Theorem stat_pull_attached : forall cf h s g i,
  let st := fst (run fixed_tree cf init_state h) in
  get_group st s = Some g -> stat_pull g = Some i -> vatt st s i = Some AAttached.
Proof.
  intros cf h s g i st Hg Hi. pose proof (a2_run cf h s) as H. unfold stream_inv in H. fold st in H.
  rewrite (pv_some _ _ _ Hg) in H. destruct H as [_ B _ _].
  eapply (B (pp_pulling (g_pp g)) (pp_rtmp (g_pp g)) (pp_rtsp (g_pp g))); [reflexivity|].
  unfold stat_pull in Hi. destruct (pp_rtmp (g_pp g)) as [a|]; [left; congruence|right; assumption].
Qed.
