(* Proofs about the fan-out model: the RTMP admission loop has an
   order-free characterisation; every step extends the stream of every
   admitted consumer by exactly the unit of the published message. *)
From Lal Require Import Common.LBytes Group.GroupMsg Group.GroupGopCache Group.GroupFanout.
From Coq Require Import Lia Permutation.
Open Scope N_scope.

Definition is_rtmp (c : consumer) : bool := ckind_eqb (c_kind c) KRtmp.

Lemma c_append_nil c : c_append c [] = c.
Proof. destruct c; unfold c_append; cbn. now rewrite app_nil_r. Qed.

Lemma c_append_app c a b : c_append (c_append c a) b = c_append c (a ++ b).
Proof. destruct c; unfold c_append; cbn. now rewrite app_assoc. Qed.

Lemma write_rtmp_admitted_nil l : write_rtmp_admitted [] l = l.
Proof.
  unfold write_rtmp_admitted. induction l as [|c l IH]; [reflexivity|].
  cbn [map]. rewrite IH. destruct (ckind_eqb (c_kind c) KRtmp && admitted c); [now rewrite c_append_nil|reflexivity].
Qed.

Section Loop.
Variable cache : gop_cache label.
Variable key hdr : bool.
Variable lc : label.

(* visiting c calls MergeWriter.Flush() *)
Definition trig (c : consumer) : bool :=
  is_rtmp c && negb (admitted c) && snd (rtmp_visit cache key hdr lc c).

Definition anytrig (l : list consumer) : bool := existsb trig l.

(* what the loop does to one session, given what earlier flushes owe it
   ([pend]) and what the flush of this loop delivers ([x]) *)
Definition fin (pend x : list label) (c : consumer) : consumer :=
  if is_rtmp c then
    if admitted c then c_append c (pend ++ x) else fst (rtmp_visit cache key hdr lc c)
  else c.

(* a visit that does not flush leaves the session as it was, except that a
   waiting session may have been handed the header message *)
Lemma rtmp_visit_noflush c0 c1 : rtmp_visit cache key hdr lc c0 = (c1, false) ->
  c1 = c0 \/ (c1 = c_append c0 [lc] /\ c_wait c0 = true).
Proof.
  unfold rtmp_visit. destruct (c_fresh c0).
  - destruct (c_wait _ && key); [intro H; inversion H|]. destruct (c_wait _ && hdr); intro H; inversion H.
  - destruct (c_wait c0 && key); [intro H; inversion H|].
    destruct (c_wait c0) eqn:Hw; cbn [andb]; [|intro H; inversion H; now left].
    destruct hdr; intro H; inversion H; [right; split; reflexivity|now left].
Qed.

Lemma rtmp_loop_aux_spec : forall todo done merge pend,
  rtmp_loop_aux cache key hdr lc done todo merge pend =
  let x := if anytrig todo then merge else [] in
  (rev (write_rtmp_admitted x done) ++ map (fin pend x) todo,
   if anytrig todo then [] else merge).
Proof.
  induction todo as [|c0 rest IH]; intros done merge pend.
  - cbn. now rewrite write_rtmp_admitted_nil, app_nil_r.
  - cbn [rtmp_loop_aux]. unfold anytrig. cbn [existsb map]. fold (anytrig rest).
    destruct (ckind_eqb (c_kind c0) KRtmp) eqn:Hk; cbn [negb].
    2:{ assert (Ht : trig c0 = false) by (unfold trig, is_rtmp; now rewrite Hk).
        rewrite Ht. cbn [orb]. rewrite IH. cbn zeta.
        unfold fin at 2, is_rtmp. rewrite Hk.
        unfold write_rtmp_admitted at 1. cbn [map rev]. fold (write_rtmp_admitted (if anytrig rest then merge else []) done).
        rewrite Hk. cbn [andb]. rewrite <- app_assoc. reflexivity. }
    destruct (admitted c0) eqn:Ha.
    + assert (Ht : trig c0 = false) by (unfold trig, is_rtmp; now rewrite Hk, Ha).
      rewrite Ht. cbn [orb]. rewrite IH. cbn zeta.
      unfold fin at 2, is_rtmp. rewrite Hk, Ha.
      unfold write_rtmp_admitted at 1. cbn [map rev]. fold (write_rtmp_admitted (if anytrig rest then merge else []) done).
      assert (Hk' : ckind_eqb (c_kind (c_append c0 pend)) KRtmp = true) by (destruct c0; exact Hk).
      assert (Ha' : admitted (c_append c0 pend) = true) by (destruct c0; exact Ha).
      rewrite Hk', Ha'. cbn [andb]. rewrite c_append_app, <- app_assoc. reflexivity.
    + destruct (rtmp_visit cache key hdr lc c0) as [c1 flushed] eqn:Hv.
      assert (Hfin : fin pend (if trig c0 || anytrig rest then merge else []) c0 = c1).
      { unfold fin, is_rtmp. now rewrite Hk, Ha, Hv. }
      rewrite Hfin.
      destruct flushed.
      * assert (Ht : trig c0 = true) by (unfold trig, is_rtmp; now rewrite Hk, Ha, Hv).
        rewrite Ht. cbn [orb]. rewrite IH. cbn zeta.
        assert (Hx : (if anytrig rest then [] else @nil label) = []) by (destruct (anytrig rest); reflexivity).
        rewrite Hx. rewrite write_rtmp_admitted_nil. cbn [rev].
        rewrite <- app_assoc. cbn [app]. f_equal.
        f_equal. f_equal. apply map_ext. intro c. unfold fin.
        destruct (is_rtmp c); [|reflexivity]. destruct (admitted c); [|reflexivity].
        now rewrite app_nil_r.
      * assert (Ht : trig c0 = false) by (unfold trig, is_rtmp; now rewrite Hk, Ha, Hv).
        rewrite Ht. cbn [orb]. rewrite IH. cbn zeta.
        unfold write_rtmp_admitted at 1. cbn [map rev]. fold (write_rtmp_admitted (if anytrig rest then merge else []) done).
        (* a visited session that did not flush is still not admitted *)
        assert (Hna : ckind_eqb (c_kind c1) KRtmp && admitted c1 = false).
        { destruct (rtmp_visit_noflush _ _ Hv) as [->|[-> Hw]]; [rewrite Ha; apply Bool.andb_false_r|].
          unfold admitted, c_append. cbn [c_fresh c_wait]. rewrite Hw. cbn. now rewrite !Bool.andb_false_r. }
        rewrite Hna. rewrite <- app_assoc. reflexivity.
Qed.

Lemma rtmp_loop_spec subs merge :
  rtmp_loop cache key hdr lc subs merge =
  (map (fin [] (if anytrig subs then merge else [])) subs, if anytrig subs then [] else merge).
Proof. unfold rtmp_loop. rewrite rtmp_loop_aux_spec. reflexivity. Qed.

End Loop.

(* ------------------------------------------------------------------ *)
(* looking consumers up by id *)

Definition idp (id : N) (c : consumer) : bool := c_id c =? id.
Definition find_sub (s : gstate) (id : N) : option consumer := find (idp id) (g_subs s).

Lemma find_map_id (f : consumer -> consumer) id l :
  (forall c, c_id (f c) = c_id c) ->
  find (idp id) (map f l) = option_map f (find (idp id) l).
Proof.
  intro Hf. induction l as [|c l IH]; [reflexivity|].
  cbn [map find]. unfold idp at 1 3. rewrite Hf. destruct (c_id c =? id); [reflexivity|exact IH].
Qed.

Lemma find_app_some {A} (p : A -> bool) l1 l2 x : find p l1 = Some x -> find p (l1 ++ l2) = Some x.
Proof. induction l1 as [|a l1 IH]; cbn; [discriminate|]. destruct (p a); auto. Qed.

Lemma find_partition_snd {A} (p q : A -> bool) l x :
  find p l = Some x -> q x = false -> find p (snd (partition q l)) = Some x.
Proof.
  induction l as [|a l IH]; cbn [find partition]; [discriminate|].
  destruct (partition q l) as [g s] eqn:Hp. cbn [snd] in IH.
  destruct (p a) eqn:Hpa.
  - intro H; inversion H; subst. intro Hq. rewrite Hq. cbn [snd find]. now rewrite Hpa.
  - intros H Hq. destruct (q a); cbn [snd find]; [now apply IH|]. rewrite Hpa. now apply IH.
Qed.

Lemma c_id_append c l : c_id (c_append c l) = c_id c. Proof. reflexivity. Qed.
Lemma c_id_set c f w : c_id (c_set c f w) = c_id c. Proof. reflexivity. Qed.
Lemma c_kind_append c l : c_kind (c_append c l) = c_kind c. Proof. reflexivity. Qed.
Lemma c_kind_set c f w : c_kind (c_set c f w) = c_kind c. Proof. reflexivity. Qed.

Lemma c_fresh_append c l : c_fresh (c_append c l) = c_fresh c. Proof. reflexivity. Qed.
Lemma c_wait_append c l : c_wait (c_append c l) = c_wait c. Proof. reflexivity. Qed.
Lemma c_out_append c l : c_out (c_append c l) = c_out c ++ l. Proof. reflexivity. Qed.
Lemma c_fresh_set c f w : c_fresh (c_set c f w) = f. Proof. reflexivity. Qed.
Lemma c_wait_set c f w : c_wait (c_set c f w) = w. Proof. reflexivity. Qed.
Lemma c_out_set c f w : c_out (c_set c f w) = c_out c. Proof. reflexivity. Qed.
Lemma admitted_append c l : admitted (c_append c l) = admitted c. Proof. reflexivity. Qed.
Ltac csimp := rewrite ?c_kind_append, ?c_kind_set, ?c_id_append, ?c_id_set, ?c_fresh_append, ?c_wait_append,
  ?c_out_append, ?c_fresh_set, ?c_wait_set, ?c_out_set, ?admitted_append.

Lemma rtmp_visit_id cache key hdr lc c : c_id (fst (rtmp_visit cache key hdr lc c)) = c_id c.
Proof.
  unfold rtmp_visit. destruct (c_fresh c); cbn [fst snd].
  - repeat match goal with |- context [if ?b && ?k then _ else _] => destruct (b && k) end; reflexivity.
  - destruct (c_wait c && key); [reflexivity|]. destruct (c_wait c && hdr); reflexivity.
Qed.

Lemma fin_id cache key hdr lc pend x c : c_id (fin cache key hdr lc pend x c) = c_id c.
Proof.
  unfold fin. destruct (is_rtmp c); [|reflexivity].
  destruct (admitted c); [reflexivity|apply rtmp_visit_id].
Qed.

Lemma write1_id l c :
  c_id (if ckind_eqb (c_kind c) KRtmp && admitted c then c_append c l else c) = c_id c.
Proof. destruct (ckind_eqb (c_kind c) KRtmp && admitted c); reflexivity. Qed.

Lemma push_step_id cache lw c : c_id (push_step cache lw c) = c_id c.
Proof.
  unfold push_step. destruct (negb (ckind_eqb (c_kind c) KPush)); [reflexivity|].
  destruct (c_fresh c); reflexivity.
Qed.

Lemma flv_step_id cache key hdr lt c : c_id (flv_step cache key hdr lt c) = c_id c.
Proof.
  unfold flv_step. destruct (negb (ckind_eqb (c_kind c) KFlv)); [reflexivity|].
  destruct (c_fresh c); cbn.
  - match goal with |- context [if (if ?a then _ else _) then _ else _] => destruct a end;
      cbn; try destruct (c_wait c); try destruct key; try destruct hdr; reflexivity.
  - destruct (c_wait c); [destruct key; [|destruct hdr]|]; reflexivity.
Qed.

Lemma ts_step_id cache pat b lt c : c_id (ts_step cache pat b lt c) = c_id c.
Proof.
  unfold ts_step. destruct (negb (ckind_eqb (c_kind c) KTs)); [reflexivity|].
  destruct (c_fresh c); cbn.
  - match goal with |- context [if (if ?a then _ else _) then _ else _] => destruct a end;
      cbn; try destruct (c_wait c); try destruct b; reflexivity.
  - destruct (c_wait c); [destruct b|]; reflexivity.
Qed.

Lemma sdp_step_id l c : c_id (sdp_step l c) = c_id c.
Proof. unfold sdp_step. destruct (_ && _); reflexivity. Qed.
Lemma play_step_id vk id c : c_id (play_step vk id c) = c_id c.
Proof. unfold play_step. destruct (_ && _); reflexivity. Qed.
Lemma rtsp_step_id w b wr l c : c_id (rtsp_step w b wr l c) = c_id c.
Proof.
  unfold rtsp_step. destruct (negb (ckind_eqb (c_kind c) KRtsp)); [reflexivity|].
  destruct (c_fresh c); [reflexivity|]. destruct wr, (negb w || negb (c_wait c)), b; reflexivity.
Qed.
Lemma not_rtsp_eqb c : c_kind c <> KRtsp -> ckind_eqb (c_kind c) KRtsp = false.
Proof. destruct (c_kind c); intro H; try reflexivity. congruence. Qed.
Lemma sdp_step_other l c : c_kind c <> KRtsp -> sdp_step l c = c.
Proof. intro H. unfold sdp_step. now rewrite (not_rtsp_eqb c H). Qed.
Lemma play_step_other vk id c : c_kind c <> KRtsp -> play_step vk id c = c.
Proof. intro H. unfold play_step. rewrite (not_rtsp_eqb c H). now rewrite Bool.andb_false_r. Qed.
Lemma rtsp_step_other w b wr l c : c_kind c <> KRtsp -> rtsp_step w b wr l c = c.
Proof. intro H. unfold rtsp_step. now rewrite (not_rtsp_eqb c H). Qed.

(* ------------------------------------------------------------------ *)
(* what an admitted consumer has received, counting what the merge writer
   still holds for it *)

Definition pending_for (s : gstate) (c : consumer) : list label :=
  if is_rtmp c && admitted c then g_merge s else [].
Definition vout (s : gstate) (c : consumer) : list label := c_out c ++ pending_for s c.

Definition unit_of (k : ckind) (m : rmsg) (i : nat) : list label :=
  match k with KRtmp => [LC i] | KFlv => [LT i] | KPush => [lcw m i] | KTs | KRtsp => [] end.

Definition live_units (s : gstate) (e : ev) (k : ckind) : list label :=
  match e with
  | EvPublish m => if Nat.eqb (length (rm_payload m)) 0 then [] else unit_of k m (g_next s)
  | _ => []
  end.

Definition stays (e : ev) (c : consumer) : Prop :=
  match e with
  | EvLeave id => c_id c <> id
  | EvInStop => c_kind c <> KPush
  | EvDispose => False
  | _ => True
  end.

Definition merge_inv (cf : cfg) (s : gstate) : Prop := cf_merge cf = 0 -> g_merge s = [].

Lemma admitted_flags c : admitted c = true -> c_fresh c = false /\ c_wait c = false.
Proof. unfold admitted. destruct (c_fresh c), (c_wait c); cbn; intuition discriminate. Qed.

Lemma find_idp_some id l c : find (idp id) l = Some c -> In c l /\ c_id c = id.
Proof. intro H. apply find_some in H. destruct H as [H1 H2]. split; [exact H1|]. now apply N.eqb_eq. Qed.

Lemma rtmp_visit_kind cache key hdr lc c : c_kind (fst (rtmp_visit cache key hdr lc c)) = c_kind c.
Proof.
  unfold rtmp_visit. destruct (c_fresh c); cbn [fst snd].
  - repeat match goal with |- context [if ?b && ?k then _ else _] => destruct (b && k) end; reflexivity.
  - destruct (c_wait c && key); [reflexivity|]. destruct (c_wait c && hdr); reflexivity.
Qed.

Lemma has_kind_map_fin cache key hdr lc pend x l c :
  In c l -> c_kind c = KRtmp -> has_kind KRtmp (map (fin cache key hdr lc pend x) l) = true.
Proof.
  intros Hin Hk. unfold has_kind. apply existsb_exists.
  exists (fin cache key hdr lc pend x c). split; [now apply in_map|].
  unfold fin, is_rtmp. rewrite Hk. cbn.
  destruct (admitted c); [now rewrite c_kind_append, Hk|].
  now rewrite rtmp_visit_kind, Hk.
Qed.

Lemma publish_admitted cf s m id c :
  merge_inv cf s ->
  find_sub s id = Some c -> admitted c = true -> c_kind c <> KTs -> c_kind c <> KRtsp ->
  Nat.eqb (length (rm_payload m)) 0 = false ->
  exists c', find_sub (publish cf s m) id = Some c' /\ c_kind c' = c_kind c /\ admitted c' = true /\
             vout (publish cf s m) c' = vout s c ++ unit_of (c_kind c) m (g_next s).
Proof.
  intros Hinv Hfind Hadm Hkts Hkrt Hne.
  destruct (admitted_flags _ Hadm) as [Hfr Hwt].
  destruct (find_idp_some _ _ _ Hfind) as [Hin Hid].
  unfold find_sub, publish. rewrite Hne. rewrite rtmp_loop_spec.
  set (cache := g_rtmp_cache s). set (key := is_video_key_nalu m). set (hdr := is_hdr_msg m). set (lc := LC (g_next s)).
  set (tr := anytrig cache key hdr lc (g_subs s)).
  set (x := if tr then g_merge s else []).
  set (merge1 := if tr then [] else g_merge s).
  set (subs1 := map (fin cache key hdr lc [] x) (g_subs s)).
  assert (Hxm : x ++ merge1 = g_merge s).
  { unfold x, merge1. destruct tr; [apply app_nil_r|reflexivity]. }
  (* the consumer after the admission loop *)
  assert (Hf1 : find (idp id) subs1 = Some (fin cache key hdr lc [] x c)).
  { unfold subs1. rewrite find_map_id by (intro; apply fin_id). unfold find_sub in Hfind. now rewrite Hfind. }
  destruct (c_kind c) eqn:Hk; [| | |congruence|congruence].
  - (* RTMP subscriber *)
    assert (Hfin : fin cache key hdr lc [] x c = c_append c x).
    { unfold fin, is_rtmp. now rewrite Hk, Hadm. }
    assert (Hhk : has_kind KRtmp subs1 = true) by (eapply has_kind_map_fin; eassumption).
    rewrite Hhk.
    destruct (cf_merge cf =? 0) eqn:Hm0.
    + (* no merge writer: direct write *)
      apply N.eqb_eq in Hm0. specialize (Hinv Hm0).
      cbn [g_subs g_merge].
      rewrite !find_map_id by (intro; first [apply flv_step_id|apply push_step_id]).
      unfold write_rtmp_admitted. rewrite find_map_id by (intro; apply write1_id).
      rewrite Hf1, Hfin. cbn [option_map].
      eexists. split; [reflexivity|].
      csimp. rewrite Hk, Hadm. cbn [ckind_eqb andb].
      unfold push_step. csimp. rewrite Hk. cbn [ckind_eqb negb]. unfold flv_step. csimp. rewrite Hk. cbn [ckind_eqb negb].
      split; [csimp; exact Hk|]. split; [csimp; exact Hadm|].
      unfold vout, pending_for, is_rtmp. csimp. rewrite Hk, Hadm. cbn [ckind_eqb andb g_merge].
      assert (Hx : x = []) by (unfold x; rewrite Hinv; now destruct tr).
      assert (Hm1 : merge1 = []) by (unfold merge1; rewrite Hinv; now destruct tr).
      rewrite Hx, Hm1, Hinv. now rewrite !app_nil_r.
    + (* merge writer *)
      destruct (cf_merge cf <=? _) eqn:Hfl.
      * cbn [g_subs g_merge].
        rewrite !find_map_id by (intro; first [apply flv_step_id|apply push_step_id]).
        unfold write_rtmp_admitted. rewrite find_map_id by (intro; apply write1_id).
        rewrite Hf1, Hfin. cbn [option_map].
        eexists. split; [reflexivity|].
        csimp. rewrite Hk, Hadm. cbn [ckind_eqb andb].
        unfold push_step. csimp. rewrite Hk. cbn [ckind_eqb negb]. unfold flv_step. csimp. rewrite Hk. cbn [ckind_eqb negb].
        split; [csimp; exact Hk|]. split; [csimp; exact Hadm|].
        unfold vout, pending_for, is_rtmp. csimp. rewrite Hk, Hadm. cbn [ckind_eqb andb g_merge].
        rewrite app_nil_r. rewrite <- Hxm. now rewrite !app_assoc.
      * cbn [g_subs g_merge].
        rewrite !find_map_id by (intro; first [apply flv_step_id|apply push_step_id]).
        rewrite Hf1, Hfin. cbn [option_map].
        eexists. split; [reflexivity|].
        unfold push_step. csimp. rewrite Hk. cbn [ckind_eqb negb]. unfold flv_step. csimp. rewrite Hk. cbn [ckind_eqb negb].
        split; [csimp; exact Hk|]. split; [csimp; exact Hadm|].
        unfold vout, pending_for, is_rtmp. csimp. rewrite Hk, Hadm. cbn [ckind_eqb andb g_merge].
        rewrite <- Hxm. now rewrite !app_assoc.
  - (* HTTP-FLV subscriber: untouched by the RTMP loop and the merge writer *)
    assert (Hfin : fin cache key hdr lc [] x c = c).
    { unfold fin, is_rtmp. now rewrite Hk. }
    assert (Hres : forall subs2,
      find (idp id) subs2 = Some c ->
      exists c', find (idp id) (map (flv_step (g_flv_cache s) key hdr (LT (g_next s)))
                           (map (push_step cache (lcw m (g_next s))) subs2)) = Some c' /\
                 c_kind c' = KFlv /\ admitted c' = true /\ c_out c' = c_out c ++ [LT (g_next s)]).
    { intros subs2 Hf2.
      rewrite !find_map_id by (intro; first [apply flv_step_id|apply push_step_id]).
      rewrite Hf2. cbn [option_map]. eexists. split; [reflexivity|].
      unfold push_step. rewrite Hk. cbn [ckind_eqb negb].
      unfold flv_step. rewrite Hk. cbn [ckind_eqb negb]. rewrite Hfr, Hwt.
      repeat split; csimp; try reflexivity; assumption. }
    assert (Hw : forall l, find (idp id) (write_rtmp_admitted l subs1) = Some c).
    { intro l. unfold write_rtmp_admitted. rewrite find_map_id by (intro; apply write1_id).
      rewrite Hf1, Hfin. cbn [option_map]. now rewrite Hk. }
    rewrite Hfin in Hf1.
    destruct (has_kind KRtmp subs1); [destruct (cf_merge cf =? 0); [|destruct (cf_merge cf <=? _)]|];
      cbn [g_subs g_merge];
      (match goal with
       | |- context [map (flv_step _ _ _ _) (map (push_step _ _) ?S2)] =>
           destruct (Hres S2) as (c' & Hc1 & Hc2 & Hc3 & Hc4); [first [apply Hw|exact Hf1]|]
       end);
      exists c'; (split; [exact Hc1|]); (split; [exact Hc2|]); (split; [exact Hc3|]);
      unfold vout, pending_for, is_rtmp; rewrite Hc2, Hk; cbn [ckind_eqb andb]; now rewrite !app_nil_r, Hc4.
  - (* relay push *)
    assert (Hfin : fin cache key hdr lc [] x c = c).
    { unfold fin, is_rtmp. now rewrite Hk. }
    assert (Hres : forall subs2,
      find (idp id) subs2 = Some c ->
      exists c', find (idp id) (map (flv_step (g_flv_cache s) key hdr (LT (g_next s)))
                           (map (push_step cache (lcw m (g_next s))) subs2)) = Some c' /\
                 c_kind c' = KPush /\ admitted c' = true /\ c_out c' = c_out c ++ [lcw m (g_next s)]).
    { intros subs2 Hf2.
      rewrite !find_map_id by (intro; first [apply flv_step_id|apply push_step_id]).
      rewrite Hf2. cbn [option_map]. eexists. split; [reflexivity|].
      unfold push_step. rewrite Hk. cbn [ckind_eqb negb]. rewrite Hfr.
      unfold flv_step. cbn [c_kind c_append]. rewrite Hk. cbn [ckind_eqb negb].
      repeat split; csimp; try reflexivity; assumption. }
    assert (Hw : forall l, find (idp id) (write_rtmp_admitted l subs1) = Some c).
    { intro l. unfold write_rtmp_admitted. rewrite find_map_id by (intro; apply write1_id).
      rewrite Hf1, Hfin. cbn [option_map]. now rewrite Hk. }
    rewrite Hfin in Hf1.
    destruct (has_kind KRtmp subs1); [destruct (cf_merge cf =? 0); [|destruct (cf_merge cf <=? _)]|];
      cbn [g_subs g_merge];
      (match goal with
       | |- context [map (flv_step _ _ _ _) (map (push_step _ _) ?S2)] =>
           destruct (Hres S2) as (c' & Hc1 & Hc2 & Hc3 & Hc4); [first [apply Hw|exact Hf1]|]
       end);
      exists c'; (split; [exact Hc1|]); (split; [exact Hc2|]); (split; [exact Hc3|]);
      unfold vout, pending_for, is_rtmp; rewrite Hc2, Hk; cbn [ckind_eqb andb]; now rewrite !app_nil_r, Hc4.
Qed.

(* ------------------------------------------------------------------ *)
(* the merge buffer is empty when no merge writer is configured *)

Lemma merge_inv_step cf s e : merge_inv cf s -> merge_inv cf (step cf s e).
Proof.
  intros Hinv Hm0. specialize (Hinv Hm0).
  destruct e as [m|k id|id| | |b| |v|pid|raw|]; cbn [step].
  - unfold publish. destruct (Nat.eqb _ 0); [exact Hinv|].
    rewrite rtmp_loop_spec. rewrite Hinv.
    assert (Hm1 : (if anytrig (g_rtmp_cache s) (is_video_key_nalu m) (is_hdr_msg m) (LC (g_next s)) (g_subs s) then [] else @nil label) = [])
      by (now destruct (anytrig _ _ _)).
    rewrite Hm1. rewrite Hm0. cbn [N.eqb].
    destruct (has_kind KRtmp _); reflexivity.
  - destruct (existsb _ _); [exact Hinv|]. exact Hinv.
  - destruct (partition _ _). exact Hinv.
  - destruct (g_in s); exact Hinv.
  - destruct (negb (g_in s)); [exact Hinv|]. destruct (partition _ _). exact Hinv.
  - exact Hinv.
  - exact Hinv.
  - exact Hinv.
  - exact Hinv.
  - exact Hinv.
  - exact Hinv.
Qed.

Lemma merge_inv_init cf : merge_inv cf (g_init cf).
Proof. intro. reflexivity. Qed.

Lemma merge_inv_run cf h : merge_inv cf (run cf h).
Proof.
  unfold run. generalize (merge_inv_init cf). generalize (g_init cf).
  induction h as [|e h IH]; intros s Hs; [exact Hs|]. cbn [fold_left]. apply IH. now apply merge_inv_step.
Qed.

(* ------------------------------------------------------------------ *)
(* one step, seen by an admitted consumer that is not detached by it:
   its stream is extended by exactly the unit of the published message *)

Lemma vout_same_subs s s' c :
  g_merge s' = g_merge s -> vout s' c = vout s c.
Proof. intro H. unfold vout, pending_for. now rewrite H. Qed.

Theorem step_admitted cf s e id c :
  merge_inv cf s ->
  find_sub s id = Some c -> admitted c = true -> c_kind c <> KTs -> c_kind c <> KRtsp -> stays e c ->
  exists c', find_sub (step cf s e) id = Some c' /\ c_kind c' = c_kind c /\ admitted c' = true /\
             vout (step cf s e) c' = vout s c ++ live_units s e (c_kind c).
Proof.
  intros Hinv Hfind Hadm Hkts Hkrt Hstay.
  destruct (find_idp_some _ _ _ Hfind) as [Hin Hid].
  destruct e as [m|k jid|lid| | |b| |v|pid|raw|]; cbn [step live_units].
  - destruct (Nat.eqb (length (rm_payload m)) 0) eqn:Hne.
    + exists c. unfold publish. rewrite Hne. unfold find_sub. cbn [g_subs].
      repeat split; try assumption. unfold vout, pending_for. cbn [g_merge]. now rewrite app_nil_r.
    + now apply publish_admitted.
  - exists c. destruct (existsb _ _).
    + repeat split; try assumption. now rewrite app_nil_r.
    + unfold find_sub, set_subs. cbn [g_subs]. split; [now apply find_app_some|].
      repeat split; try assumption. unfold vout, pending_for. cbn [g_merge]. now rewrite app_nil_r.
  - exists c. cbn [stays] in Hstay.
    destruct (partition (fun x => c_id x =? lid) (g_subs s)) as [gone stay] eqn:Hp.
    unfold find_sub. cbn [g_subs].
    split.
    { change stay with (snd (gone, stay)). rewrite <- Hp. apply find_partition_snd; [exact Hfind|].
      apply N.eqb_neq. congruence. }
    repeat split; try assumption. unfold vout, pending_for. cbn [g_merge]. now rewrite app_nil_r.
  - exists c. destruct (g_in s); unfold find_sub; cbn [g_subs];
      repeat split; try assumption; unfold vout, pending_for; cbn [g_merge]; now rewrite app_nil_r.
  - exists c. cbn [stays] in Hstay. destruct (negb (g_in s)).
    + repeat split; try assumption. now rewrite app_nil_r.
    + destruct (partition (fun x => ckind_eqb (c_kind x) KPush) (g_subs s)) as [pushes stay] eqn:Hp.
      unfold find_sub. cbn [g_subs]. split.
      { change stay with (snd (pushes, stay)). rewrite <- Hp. apply find_partition_snd; [exact Hfind|].
        destruct (c_kind c); try reflexivity. congruence. }
      repeat split; try assumption. unfold vout, pending_for. cbn [g_merge]. now rewrite app_nil_r.
  - (* TS blobs do not touch RTMP / FLV / push consumers *)
    exists c. unfold feed_ts, find_sub. cbn [g_subs].
    rewrite find_map_id by (intro; apply ts_step_id). unfold find_sub in Hfind. rewrite Hfind. cbn [option_map].
    assert (Hts : ts_step (g_ts_cache s) (g_patpmt s) b (LTs (g_next_ts s)) c = c).
    { unfold ts_step. destruct (c_kind c); try reflexivity. congruence. }
    rewrite Hts. repeat split; try assumption. unfold vout, pending_for. cbn [g_merge]. now rewrite app_nil_r.
  - exists c. unfold find_sub. cbn [g_subs].
    assert (Hid1 : forall x : consumer, c_id (if ckind_eqb (c_kind x) KTs && negb (c_fresh x) then c_append x [LPat (g_next_pat s)] else x) = c_id x)
      by (intro x; destruct (ckind_eqb (c_kind x) KTs && negb (c_fresh x)); reflexivity).
    rewrite (find_map_id _ id (g_subs s) Hid1). unfold find_sub in Hfind. rewrite Hfind. cbn [option_map].
    assert (Hc : (if ckind_eqb (c_kind c) KTs && negb (c_fresh c) then c_append c [LPat (g_next_pat s)] else c) = c).
    { destruct (c_kind c); try reflexivity. congruence. }
    rewrite Hc. repeat split; try assumption. unfold vout, pending_for. cbn [g_merge]. now rewrite app_nil_r.
  - exists c. unfold find_sub. cbn [g_subs].
    rewrite find_map_id by (intro; apply sdp_step_id). unfold find_sub in Hfind. rewrite Hfind. cbn [option_map].
    rewrite (sdp_step_other _ c Hkrt).
    repeat split; try assumption. unfold vout, pending_for. cbn [g_merge]. now rewrite app_nil_r.
  - exists c. unfold find_sub, set_subs. cbn [g_subs].
    rewrite find_map_id by (intro; apply play_step_id). unfold find_sub in Hfind. rewrite Hfind. cbn [option_map].
    rewrite (play_step_other _ _ c Hkrt).
    repeat split; try assumption. unfold vout, pending_for. cbn [g_merge]. now rewrite app_nil_r.
  - exists c. unfold feed_rtp, feed_rtp_gen, find_sub. cbn [g_subs].
    assert (Hf : find (idp id) match rtp_pt raw with
                               | Some pt => map (rtsp_step (cf_rtsp_wait cf)
                                   match g_sdp s with None => false | Some _ => rtp_is_boundary true (g_vcodec s) pt raw end
                                   (rtp_pt_written pt) (LRtp (g_next_rtp s))) (g_subs s)
                               | None => g_subs s end = Some c).
    { destruct (rtp_pt raw); [|exact Hfind].
      rewrite find_map_id by (intro; apply rtsp_step_id). unfold find_sub in Hfind. rewrite Hfind. cbn [option_map].
      now rewrite (rtsp_step_other _ _ _ _ c Hkrt). }
    rewrite Hf.
    repeat split; try assumption. unfold vout, pending_for. cbn [g_merge]. now rewrite app_nil_r.
  - destruct Hstay.
Qed.

(* ------------------------------------------------------------------ *)
(* histories *)

Fixpoint units (k : ckind) (n : nat) (h : list ev) : list label :=
  match h with
  | [] => []
  | EvPublish m :: t =>
      (if Nat.eqb (length (rm_payload m)) 0 then [] else unit_of k m n) ++ units k (S n) t
  | _ :: t => units k n t
  end.

(* the consumer is neither detached by a leave nor (for a push session) by the end of the input *)
Fixpoint attached (id : N) (k : ckind) (h : list ev) : Prop :=
  match h with
  | [] => True
  | EvLeave id' :: t => id' <> id /\ attached id k t
  | EvInStop :: t => k <> KPush /\ attached id k t
  | EvDispose :: t => False
  | _ :: t => attached id k t
  end.

Lemma g_next_step cf s e :
  g_next (step cf s e) = match e with EvPublish _ => S (g_next s) | _ => g_next s end.
Proof.
  destruct e as [m|k id|id| | |b| |v|pid|raw|]; cbn [step].
  - unfold publish. destruct (Nat.eqb _ 0); [reflexivity|].
    rewrite rtmp_loop_spec.
    destruct (has_kind KRtmp _); [destruct (cf_merge cf =? 0); [|destruct (cf_merge cf <=? _)]|]; reflexivity.
  - destruct (existsb _ _); reflexivity.
  - destruct (partition _ _); reflexivity.
  - destruct (g_in s); reflexivity.
  - destruct (negb (g_in s)); [reflexivity|]. destruct (partition _ _); reflexivity.
  - reflexivity.
  - reflexivity.
  - reflexivity.
  - reflexivity.
  - reflexivity.
  - reflexivity.
Qed.

Theorem history_admitted cf : forall h s id c,
  merge_inv cf s ->
  find_sub s id = Some c -> admitted c = true -> c_kind c <> KTs -> c_kind c <> KRtsp -> attached id (c_kind c) h ->
  exists c', find_sub (fold_left (step cf) h s) id = Some c' /\ c_kind c' = c_kind c /\ admitted c' = true /\
             vout (fold_left (step cf) h s) c' = vout s c ++ units (c_kind c) (g_next s) h.
Proof.
  induction h as [|e h IH]; intros s id c Hinv Hfind Hadm Hkts Hkrt Hatt.
  - exists c. cbn. repeat split; try assumption. now rewrite app_nil_r.
  - cbn [fold_left].
    assert (Hstay : stays e c /\ attached id (c_kind c) h).
    { destruct (find_idp_some _ _ _ Hfind) as [_ Hid].
      destruct e; cbn [attached stays] in *; try (split; [exact I|exact Hatt]).
      - destruct Hatt as [H1 H2]. split; [congruence|exact H2].
      - exact Hatt.
      - destruct Hatt. }
    destruct Hstay as [Hstay Hatt'].
    destruct (step_admitted cf s e id c Hinv Hfind Hadm Hkts Hkrt Hstay) as (c1 & Hf1 & Hk1 & Ha1 & Hv1).
    rewrite <- Hk1 in Hatt', Hkts, Hkrt.
    destruct (IH (step cf s e) id c1 (merge_inv_step _ _ _ Hinv) Hf1 Ha1 Hkts Hkrt Hatt') as (c2 & Hf2 & Hk2 & Ha2 & Hv2).
    exists c2. split; [exact Hf2|]. split; [congruence|]. split; [exact Ha2|].
    rewrite Hv2, Hv1, Hk1, <- app_assoc. f_equal.
    rewrite g_next_step. destruct e; cbn [units live_units]; try reflexivity.
Qed.

Lemma run_app cf h0 h : run cf (h0 ++ h) = fold_left (step cf) h (run cf h0).
Proof. unfold run. apply fold_left_app. Qed.

Theorem contiguous_run cf h0 h id c :
  find_sub (run cf h0) id = Some c -> admitted c = true -> c_kind c <> KTs -> c_kind c <> KRtsp ->
  attached id (c_kind c) h ->
  exists c', find_sub (run cf (h0 ++ h)) id = Some c' /\ c_kind c' = c_kind c /\ admitted c' = true /\
             vout (run cf (h0 ++ h)) c' = vout (run cf h0) c ++ units (c_kind c) (g_next (run cf h0)) h.
Proof.
  intros. rewrite run_app. apply history_admitted; try assumption. apply merge_inv_run.
Qed.

(* ------------------------------------------------------------------ *)
(* the order in which Go iterates over the subscriber set is irrelevant *)

Lemma anytrig_perm cache key hdr lc l l' : Permutation l l' -> anytrig cache key hdr lc l = anytrig cache key hdr lc l'.
Proof.
  intro H. unfold anytrig. induction H; cbn [existsb]; try congruence.
  - destruct (trig cache key hdr lc x), (trig cache key hdr lc y); reflexivity.
Qed.

Lemma has_kind_perm k l l' : Permutation l l' -> has_kind k l = has_kind k l'.
Proof.
  intro H. unfold has_kind. induction H; cbn [existsb]; try congruence.
  destruct (ckind_eqb (c_kind x) k), (ckind_eqb (c_kind y) k); reflexivity.
Qed.

Definition same_but_subs (s s' : gstate) : Prop :=
  g_next s = g_next s' /\ g_next_ts s = g_next_ts s' /\ g_next_pat s = g_next_pat s' /\
  g_rtmp_cache s = g_rtmp_cache s' /\ g_flv_cache s = g_flv_cache s' /\ g_ts_cache s = g_ts_cache s' /\
  g_patpmt s = g_patpmt s' /\ g_sdp s = g_sdp s' /\ g_next_sdp s = g_next_sdp s' /\ g_merge s = g_merge s' /\ g_merge_size s = g_merge_size s' /\
  g_video_known s = g_video_known s' /\ Permutation (g_subs s) (g_subs s') /\
  Permutation (g_gone s) (g_gone s') /\ g_rec_open s = g_rec_open s' /\ g_rec s = g_rec s' /\ g_in s = g_in s' /\
  g_next_rtp s = g_next_rtp s' /\ g_vcodec s = g_vcodec s' /\ g_hook s = g_hook s' /\ g_trec s = g_trec s'.

Lemma existsb_perm {A} (p : A -> bool) l l' : Permutation l l' -> existsb p l = existsb p l'.
Proof.
  intro H. induction H; cbn [existsb]; try congruence.
  destruct (p x), (p y); reflexivity.
Qed.

Lemma partition_perm {A} (p : A -> bool) l l' : Permutation l l' ->
  Permutation (fst (partition p l)) (fst (partition p l')) /\
  Permutation (snd (partition p l)) (snd (partition p l')).
Proof.
  intro H. induction H.
  - split; constructor.
  - cbn [partition]. destruct (partition p l) as [a b], (partition p l') as [a' b'].
    cbn [fst snd] in *. destruct IHPermutation. destruct (p x); cbn [fst snd]; split; auto.
  - cbn [partition]. destruct (partition p l) as [a b]. destruct (p x), (p y); cbn [fst snd]; split;
      try apply Permutation_refl; apply perm_swap.
  - destruct IHPermutation1, IHPermutation2. split; eapply Permutation_trans; eassumption.
Qed.

Theorem step_order_independent cf s s' e :
  same_but_subs s s' -> same_but_subs (step cf s e) (step cf s' e).
Proof.
  intros (H1 & H2 & H3 & H4 & H5 & H6 & H7 & Hs1 & Hs2 & H8 & H9 & H10 & Hp & Hg & H11 & H12 & H13 & H14 & H15 & H16 & H17).
  destruct e as [m|k id|id| | |b| |v|pid|raw|]; cbn [step].
  - unfold publish. rewrite <- H1. destruct (Nat.eqb _ 0).
    + unfold same_but_subs. cbn. repeat split; try assumption; congruence.
    + rewrite !rtmp_loop_spec. rewrite <- H4, <- H5, <- H8, <- H9, <- H10, <- H11, <- H12. rewrite <- ?H13, <- ?H16, <- ?H17.
      rewrite <- (anytrig_perm _ _ _ _ _ _ Hp).
      set (F1 := fin (g_rtmp_cache s) (is_video_key_nalu m) (is_hdr_msg m) (LC (g_next s)) [] _).
      assert (Hp1 : Permutation (map F1 (g_subs s)) (map F1 (g_subs s'))) by (now apply Permutation_map).
      rewrite <- (has_kind_perm _ _ _ Hp1).
      destruct (has_kind KRtmp _); [destruct (cf_merge cf =? 0); [|destruct (cf_merge cf <=? _)]|];
        unfold same_but_subs; cbn [g_next g_next_ts g_next_pat g_rtmp_cache g_flv_cache g_ts_cache g_patpmt g_sdp g_next_sdp g_merge
                                   g_merge_size g_video_known g_subs g_gone g_rec_open g_rec g_in g_next_rtp g_vcodec g_hook g_trec];
        repeat split; try assumption; try congruence;
        repeat apply Permutation_map; try assumption.
  - rewrite <- (existsb_perm _ _ _ Hp). destruct (existsb _ _).
    + unfold same_but_subs. repeat split; assumption.
    + unfold same_but_subs, set_subs. cbn. repeat split; try assumption.
      unfold new_consumer. rewrite <- H10, <- Hs1. now apply Permutation_app_tail.
  - destruct (partition_perm (fun x => c_id x =? id) _ _ Hp) as [Pa Pb].
    destruct (partition _ (g_subs s)) as [a bb], (partition _ (g_subs s')) as [a' bb']. cbn [fst snd] in *.
    unfold same_but_subs. cbn. repeat split; try assumption. now apply Permutation_app.
  - rewrite <- H12, <- H16, <- H17. replace (g_in s') with (g_in s). destruct (g_in s) eqn:Hgin; unfold same_but_subs; cbn; repeat split; try assumption; try congruence.
  - replace (g_in s') with (g_in s). destruct (negb (g_in s)) eqn:Hgin.
    + unfold same_but_subs. repeat split; assumption.
    + destruct (partition_perm (fun x => ckind_eqb (c_kind x) KPush) _ _ Hp) as [Pa Pb].
      destruct (partition _ (g_subs s)) as [a bb], (partition _ (g_subs s')) as [a' bb']. cbn [fst snd] in *.
      rewrite <- H16, <- H17.
      unfold same_but_subs. cbn. repeat split; try assumption; try congruence. now apply Permutation_app.
  - unfold feed_ts. unfold same_but_subs. cbn. rewrite <- H2, <- H6, <- H7, <- H13, <- H17.
    repeat split; try assumption; try congruence. now apply Permutation_map.
  - unfold same_but_subs. cbn. rewrite <- H3, <- H13, <- H17. repeat split; try assumption; try congruence. now apply Permutation_map.
  - unfold same_but_subs. cbn. rewrite <- Hs2. repeat split; try assumption; try congruence. now apply Permutation_map.
  - unfold same_but_subs, set_subs. cbn. rewrite <- H10. repeat split; try assumption; try congruence. now apply Permutation_map.
  - unfold feed_rtp, feed_rtp_gen, same_but_subs. cbn. rewrite <- H14, <- H15, <- Hs1.
    repeat split; try assumption; try congruence.
    destruct (rtp_pt raw); [now apply Permutation_map|assumption].
  - unfold same_but_subs. cbn. rewrite <- H13, <- H16. repeat split; try assumption; try congruence.
    + constructor.
    + apply Permutation_app; assumption.
Qed.
