(* Proofs about the RTSP server shell (GroupRtspShell.v): every shell step is a sequence of
   admission steps, and - on the repaired tree - when a command connection has ended none of the
   sessions created on it is still admitted. *)
From Coq Require Import NArith ZArith List Bool Lia.
From Lal Require Import Group.GroupAdmission Group.GroupAdmissionProofs Group.GroupInvariantProofs Group.GroupDeliveryProofs
     Group.GroupRtspShell.
Import ListNotations.
Open Scope N_scope.

(* ---- how a step of the admission machine changes what is known about a connection --------------- *)
Definition arrival_kind (e : event) : skind :=
  match e with
  | ERtmpPub _ _ _ => KRtmpPub | ERtmpSub _ _ _ => KRtmpSub | ERtspPub _ _ _ => KRtspPub | ERtspSub _ _ _ => KRtspSub
  | EFlvSub _ _ _ => KFlvSub | ETsSub _ _ _ => KTsSub | ECustPub _ _ => KCustPub | _ => KPsPub
  end.

Definition view_change (st st' : state) (e : event) (m : N) : Prop :=
  vsess st' m = vsess st m \/
  (arrival_id e = Some m /\ vsess st m = None /\ exists s a, vsess st' m = Some (arrival_kind e, s, a, negb a)) \/
  (e = EGone m /\ exists kd s a, vsess st m = Some (kd, s, a, false) /\ vsess st' m = Some (kd, s, a, true)).

Lemma add_view : forall st stX x n, st_sess stX = st_sess st -> fresh st n = true -> s_id x = n ->
  forall m, vsess (add_sess stX x) m = if N.eqb n m then Some (core x) else vsess st m.
Proof.
  intros st stX x n Hs Hf Hid m. rewrite vsess_add.
  - rewrite Hid. unfold vsess. rewrite Hs. reflexivity.
  - rewrite Hid, Hs. apply fresh_none. assumption.
Qed.

Lemma arrival_change : forall st stX x n e k s a,
  st_sess stX = st_sess st -> fresh st n = true -> s_id x = n -> core x = (k, s, a, negb a) ->
  arrival_id e = Some n -> arrival_kind e = k ->
  forall m, view_change st (add_sess stX x) e m.
Proof.
  intros st stX x n e k s a Hs Hf Hid Hc Ha Hk m. unfold view_change. rewrite (add_view st stX x n Hs Hf Hid).
  destruct (N.eqb n m) eqn:E.
  - apply N.eqb_eq in E. subst m. right. left. split; [assumption|]. split; [apply fresh_vsess; assumption|].
    exists s, a. rewrite Hc, Hk. reflexivity.
  - left. reflexivity.
Qed.

Lemma same_change : forall st st' e m, (forall k, vsess st' k = vsess st k) -> view_change st st' e m.
Proof. intros. left. apply H. Qed.

Lemma same_sess_change : forall st st' e m, st_sess st' = st_sess st -> view_change st st' e m.
Proof. intros. left. unfold vsess. rewrite H. reflexivity. Qed.

Lemma admit_sub_sess : forall cf st k s n pull st1 g, admit_sub cf st k s n pull = Some (st1, g) -> st_sess st1 = st_sess st.
Proof.
  intros cf st k s n pull st1 g E. unfold admit_sub in E.
  pose proof (get_or_create_sess cf st s) as H. destruct (get_or_create cf st s) as [st0 g0]. simpl in H.
  destruct (g_disposed g0); [discriminate|]. destruct pull.
  - unfold pull_if_needed_st in E. destruct (pull_if_needed _ _) as [[g1 started] r].
    destruct started; [unfold alloc_att in E|]; inversion E; subst; exact H.
  - inversion E; subst. exact H.
Qed.

Lemma depart_sub_sess : forall st k s n, st_sess (fst (depart_sub st k s n)) = st_sess st.
Proof. intros. unfold depart_sub. destruct (get_group st s); reflexivity. Qed.

Lemma gone_change : forall st st0 st' n x,
  find_sess n (st_sess st) = Some x -> s_gone x = false -> gone_of st st0 n -> st_sess st' = st_sess st0 ->
  forall m, view_change st st' (EGone n) m.
Proof.
  intros st st0 st' n x Hx Hg [_ [_ Hv]] Hs m. unfold view_change.
  assert (E : vsess st' m = vsess st0 m) by (unfold vsess; rewrite Hs; reflexivity).
  rewrite E, Hv. destruct (N.eqb m n) eqn:En.
  - apply N.eqb_eq in En. subst m. right. right. split; [reflexivity|].
    rewrite (vsess_find _ _ _ Hx), Hg. exists (s_kind x), (s_stream x), (s_acc x). split; reflexivity.
  - left. reflexivity.
Qed.

Theorem step_view : forall fx cf st e m, view_change st (fst (fst (step fx cf st e))) e m.
Proof.
  intros fx cf st e m. destruct e; cbn [step].
  - (* ERtmpPub *)
    destruct (fresh st n) eqn:Hf; cbn [negb fst]; [|left; reflexivity].
    destruct deny; cbn [fst]; [eapply arrival_change with (n := n) (a := false); try reflexivity; assumption|].
    pose proof (admit_pub_sess cf st PsRtmp s n true) as Hs.
    destruct (admit_pub cf st PsRtmp s n true) as [[st1 ok] g]. cbn [fst] in Hs.
    destruct ok; cbn [fst]; [eapply arrival_change with (n := n) (a := true)|eapply arrival_change with (n := n) (a := false)]; try reflexivity; assumption.
  - (* ERtmpSub *)
    destruct (fresh st n) eqn:Hf; cbn [negb fst]; [|left; reflexivity].
    destruct deny; cbn [fst]; [eapply arrival_change with (n := n) (a := false); try reflexivity; assumption|].
    destruct (admit_sub cf st SkRtmp s n true) as [[st1 g]|] eqn:E; cbn [fst]; [|left; reflexivity].
    eapply arrival_change with (n := n) (a := true); try reflexivity; try assumption. exact (admit_sub_sess _ _ _ _ _ _ _ _ E).
  - (* ERtspPub *)
    destruct (fresh st n) eqn:Hf; cbn [negb fst]; [|left; reflexivity].
    destruct deny; cbn [fst]; [eapply arrival_change with (n := n) (a := false); try reflexivity; assumption|].
    pose proof (admit_pub_sess cf st PsRtsp s n true) as Hs.
    destruct (admit_pub cf st PsRtsp s n true) as [[st1 ok] g]. cbn [fst] in Hs.
    destruct ok; cbn [fst]; [eapply arrival_change with (n := n) (a := true)|eapply arrival_change with (n := n) (a := false)]; try reflexivity; assumption.
  - (* ERtspSub *)
    destruct (fresh st n) eqn:Hf; cbn [negb fst]; [|left; reflexivity].
    destruct deny; cbn [fst]; [eapply arrival_change with (n := n) (a := false); try reflexivity; assumption|].
    destruct (admit_sub cf st SkRtsp s n false) as [[st1 g]|] eqn:E; cbn [fst]; [|left; reflexivity].
    eapply arrival_change with (n := n) (a := true); try reflexivity; try assumption. exact (admit_sub_sess _ _ _ _ _ _ _ _ E).
  - (* ERtspPlay *)
    destruct (find_sess n (st_sess st)) as [x|]; cbn [fst]; [|left; reflexivity].
    destruct (s_kind x); cbn [fst]; try (left; reflexivity).
    destruct (s_gone x || s_closed x); cbn [fst]; [left; reflexivity|].
    pose proof (get_or_create_sess cf st (s_stream x)) as Hs.
    destruct (get_or_create cf st (s_stream x)) as [st1 g]. cbn [fst] in Hs.
    unfold pull_if_needed_st. destruct (pull_if_needed g (st_now st1)) as [[g1 started] r].
    destruct started; [unfold alloc_att|]; cbn [fst]; apply same_sess_change; exact Hs.
  - (* EFlvSub *)
    destruct (fresh st n) eqn:Hf; cbn [negb fst]; [|left; reflexivity].
    destruct deny; cbn [fst]; [eapply arrival_change with (n := n) (a := false); try reflexivity; assumption|].
    destruct (admit_sub cf st SkFlv s n true) as [[st1 g]|] eqn:E; cbn [fst]; [|left; reflexivity].
    eapply arrival_change with (n := n) (a := true); try reflexivity; try assumption. exact (admit_sub_sess _ _ _ _ _ _ _ _ E).
  - (* ETsSub *)
    destruct (fresh st n) eqn:Hf; cbn [negb fst]; [|left; reflexivity].
    destruct deny; cbn [fst]; [eapply arrival_change with (n := n) (a := false); try reflexivity; assumption|].
    destruct (admit_sub cf st SkTs s n true) as [[st1 g]|] eqn:E; cbn [fst]; [|left; reflexivity].
    eapply arrival_change with (n := n) (a := true); try reflexivity; try assumption. exact (admit_sub_sess _ _ _ _ _ _ _ _ E).
  - (* ECustPub *)
    destruct (fresh st n) eqn:Hf; cbn [negb fst]; [|left; reflexivity].
    pose proof (admit_pub_sess cf st PsCust s n true) as Hs.
    destruct (admit_pub cf st PsCust s n true) as [[st1 ok] g]. cbn [fst] in Hs.
    destruct ok; cbn [fst]; [eapply arrival_change with (n := n) (a := true)|eapply arrival_change with (n := n) (a := false)]; try reflexivity; assumption.
  - (* EPsPub *)
    destruct (fresh st n) eqn:Hf; cbn [negb fst]; [|left; reflexivity].
    pose proof (admit_pub_sess cf st PsPs s n (fx_f09 fx)) as Hs.
    destruct (admit_pub cf st PsPs s n (fx_f09 fx)) as [[st1 ok] g]. cbn [fst] in Hs.
    destruct ok; cbn [fst]; [destruct listen; cbn [fst];
      [eapply arrival_change with (n := n) (a := true)
      |eapply arrival_change with (n := n) (a := false); [exact (get_or_create_sess cf st s)|..]]
     |eapply arrival_change with (n := n) (a := false)]; try reflexivity; assumption.
  - (* EGone *)
    destruct (find_sess n (st_sess st)) as [x|] eqn:Ex; cbn [fst]; [|left; reflexivity].
    destruct (s_gone x) eqn:Eg; cbn [fst]; [left; reflexivity|].
    destruct (s_kind x); cbn [fst]; try (left; reflexivity);
    match goal with
    | |- context[depart_pub ?a ?b ?c ?d ?e] =>
        pose proof (depart_pub_sess a b c d e) as Hd; destruct (depart_pub a b c d e) as [st1 ns]; cbn [fst] in *
    | |- context[depart_sub ?a ?b ?c ?d] =>
        pose proof (depart_sub_sess a b c d) as Hd; destruct (depart_sub a b c d) as [st1 ns]; cbn [fst] in *
    end;
    try (eapply gone_change; [exact Ex|exact Eg|apply gone_of_gone_sess|exact Hd]);
    try (eapply gone_change; [exact Ex|exact Eg|apply gone_of_close_gone|exact Hd]).
    destruct (fx_f26 fx && _); (eapply gone_change; [exact Ex|exact Eg| |exact Hd]); [apply gone_of_gone_close|apply gone_of_gone_sess].
  - (* EKick *)
    destruct (get_group st s) as [g|]; cbn [fst]; [|left; reflexivity].
    unfold kick_group. destruct t as [n|s' i].
    + destruct (find_sess n (st_sess st)) as [x|]; cbn [fst]; [|left; reflexivity].
      destruct (s_kind x); cbn [fst]; try (left; reflexivity);
        match goal with |- context[if ?c then _ else _] => destruct c end; cbn [fst]; try (left; reflexivity);
        apply same_change; intros k; unfold vsess, close_sess; cbn [st_sess st_set_sess put_group st_set_groups]; apply view_closed.
    + destruct (_ && _); cbn [fst]; [|left; reflexivity].
      destruct (stop_and_del fx s _) as [[g1 a] ns]. cbn [fst]. destruct a; left; reflexivity.
  - (* EStartPull *)
    pose proof (get_or_create_sess cf st s) as Hs.
    destruct (get_or_create cf st s) as [st1 g]. cbn [fst] in Hs.
    unfold pull_if_needed_st. destruct (pull_if_needed _ (st_now st1)) as [[g1 started] r].
    destruct started; [unfold alloc_att|]; cbn [fst]; apply same_sess_change; exact Hs.
  - (* EStopPull *)
    destruct (get_group st s) as [g|]; cbn [fst]; [|left; reflexivity].
    destruct (stop_and_del fx s _) as [[g1 a] ns]. cbn [fst]. destruct a; left; reflexivity.
  - (* EPullSucc *)
    destruct (find_att s i (st_atts st)) as [a|]; cbn [fst]; [|left; reflexivity].
    destruct (get_group st s) as [g|]; cbn [fst]; [|left; reflexivity].
    destruct (a_state a); cbn [fst]; try (left; reflexivity). destruct (has_in g || _); left; reflexivity.
  - destruct (find_att s i (st_atts st)) as [a|]; cbn [fst]; [|left; reflexivity].
    destruct (get_group st s) as [g|]; cbn [fst]; [|left; reflexivity].
    destruct (a_state a); left; reflexivity.
  - destruct (find_att s i (st_atts st)) as [a|]; cbn [fst]; [|left; reflexivity].
    destruct (get_group st s) as [g|]; cbn [fst]; [|left; reflexivity].
    destruct (a_state a); left; reflexivity.
  - match goal with |- context[push_event st s t false ?nx] => generalize nx; intros next end.
    unfold push_event. destruct (get_group st s) as [g|]; cbn [fst]; [|left; reflexivity].
    destruct (nth_error (g_push g) t); cbn [fst]; [|left; reflexivity]. destruct (_ && _); left; reflexivity.
  - unfold push_event. destruct (get_group st s) as [g|]; cbn [fst]; [|left; reflexivity].
    destruct (nth_error (g_push g) t); cbn [fst]; [|left; reflexivity]. destruct (_ && _); left; reflexivity.
  - unfold push_event. destruct (get_group st s) as [g|]; cbn [fst]; [|left; reflexivity].
    destruct (nth_error (g_push g) t); cbn [fst]; [|left; reflexivity]. destruct (_ && _); left; reflexivity.
  - (* ETick *)
    destruct (st_disposed st); cbn [fst]; [left; reflexivity|].
    destruct (tick_groups fx (st_now st) (st_groups st) (st_atts st) (st_cnt st)) as [[[gs atts] cnt] ns]. left; reflexivity.
  - left; reflexivity.
  - (* EDispose *)
    destruct (st_disposed st); cbn [fst]; [left; reflexivity|].
    apply same_change. intros k. unfold vsess. cbn [st_sess st_set_disposed st_set_sess]. apply view_closed_many.
  - (* EMedia *)
    destruct (find_sess n (st_sess st)) as [x|]; cbn [fst]; [|left; reflexivity].
    destruct (s_kind x); cbn [fst]; try (left; reflexivity);
    match goal with |- context[if ?c then _ else _] => destruct c end; left; reflexivity.
Qed.

(* the departure of an RTSP session marks it gone *)
Lemma egone_rtsp : forall fx cf st n kd s a,
  vsess st n = Some (kd, s, a, false) -> (kd = KRtspPub \/ kd = KRtspSub) ->
  vsess (fst (fst (step fx cf st (EGone n)))) n = Some (kd, s, a, true).
Proof.
  intros fx cf st n kd s a Hv Hk. destruct (vsess_found _ _ _ Hv) as [x [Hx Hc]]. unfold core in Hc. inversion Hc; subst.
  cbn [step]. rewrite Hx, H3. cbn [fst].
  assert (Hg : forall st0 st', gone_of st st0 n -> st_sess st' = st_sess st0 -> vsess st' n = Some (s_kind x, s_stream x, s_acc x, true)).
  { intros st0 st' [_ [_ G]] E. unfold vsess at 1. rewrite E. fold (vsess st0 n). rewrite G, N.eqb_refl, Hv. reflexivity. }
  destruct Hk as [Hk|Hk]; rewrite Hk; cbn [fst].
  - pose proof (depart_pub_sess (gone_sess st n) PsRtsp (s_stream x) n true) as Hd.
    destruct (depart_pub _ _ _ _ _) as [st1 ns]. cbn [fst] in *. rewrite <- Hk. eapply Hg; [apply gone_of_gone_sess|exact Hd].
  - pose proof (depart_sub_sess (gone_sess st n) SkRtsp (s_stream x) n) as Hd.
    destruct (depart_sub _ _ _ _) as [st1 ns]. cbn [fst] in *. rewrite <- Hk. eapply Hg; [apply gone_of_gone_sess|exact Hd].
Qed.

(* ... and so does the departure of an RTMP session *)
Lemma egone_rtmp : forall fx cf st n kd s a,
  vsess st n = Some (kd, s, a, false) -> (kd = KRtmpPub \/ kd = KRtmpSub) ->
  vsess (fst (fst (step fx cf st (EGone n)))) n = Some (kd, s, a, true).
Proof.
  intros fx cf st n kd s a Hv Hk. destruct (vsess_found _ _ _ Hv) as [x [Hx Hc]]. unfold core in Hc. inversion Hc; subst.
  cbn [step]. rewrite Hx, H3. cbn [fst].
  assert (Hg : forall st0 st', gone_of st st0 n -> st_sess st' = st_sess st0 -> vsess st' n = Some (s_kind x, s_stream x, s_acc x, true)).
  { intros st0 st' [_ [_ G]] E. unfold vsess at 1. rewrite E. fold (vsess st0 n). rewrite G, N.eqb_refl, Hv. reflexivity. }
  destruct Hk as [Hk|Hk]; rewrite Hk; cbn [fst].
  - pose proof (depart_pub_sess (gone_sess st n) PsRtmp (s_stream x) n true) as Hd.
    destruct (depart_pub _ _ _ _ _) as [st1 ns]. cbn [fst] in *. rewrite <- Hk. eapply Hg; [apply gone_of_gone_sess|exact Hd].
  - pose proof (depart_sub_sess (gone_sess st n) SkRtmp (s_stream x) n) as Hd.
    destruct (depart_sub _ _ _ _) as [st1 ns]. cbn [fst] in *. rewrite <- Hk. eapply Hg; [apply gone_of_gone_sess|exact Hd].
Qed.

(* the first command of a connection: accepted iff the session is admitted *)
Lemma rtsp_pub_step : forall fx cf st s n d, fresh st n = true ->
  let '(st1, r, _) := step fx cf st (ERtspPub s n d) in
  (r = RAcc /\ vsess st1 n = Some (KRtspPub, s, true, false)) \/ (r = RRef /\ vsess st1 n = Some (KRtspPub, s, false, true)).
Proof.
  intros fx cf st s n d Hf. cbn [step]. rewrite Hf. cbn [negb].
  destruct d.
  - right. split; [reflexivity|]. rewrite (add_view st st (refused_sess n KRtspPub s) n eq_refl Hf eq_refl), N.eqb_refl. reflexivity.
  - pose proof (admit_pub_sess cf st PsRtsp s n true) as Hs.
    destruct (admit_pub cf st PsRtsp s n true) as [[st1 ok] g]. cbn [fst] in Hs. destruct ok.
    + left. split; [reflexivity|]. rewrite (add_view st st1 (admitted_sess n KRtspPub s (Some (g_id g))) n Hs Hf eq_refl), N.eqb_refl. reflexivity.
    + right. split; [reflexivity|]. rewrite (add_view st st1 (refused_sess n KRtspPub s) n Hs Hf eq_refl), N.eqb_refl. reflexivity.
Qed.

Lemma rtsp_sub_step : forall fx cf st s n d, fresh st n = true ->
  let '(st1, r, ns) := step fx cf st (ERtspSub s n d) in
  (r = RAcc /\ vsess st1 n = Some (KRtspSub, s, true, false)) \/ (r = RRef /\ vsess st1 n = Some (KRtspSub, s, false, true)) \/
  (r = RPanic /\ st1 = st /\ ns = []).
Proof.
  intros fx cf st s n d Hf. cbn [step]. rewrite Hf. cbn [negb].
  destruct d.
  - right. left. split; [reflexivity|]. rewrite (add_view st st (refused_sess n KRtspSub s) n eq_refl Hf eq_refl), N.eqb_refl. reflexivity.
  - destruct (admit_sub cf st SkRtsp s n false) as [[st1 g]|] eqn:E.
    + left. split; [reflexivity|]. rewrite (add_view st st1 (admitted_sess n KRtspSub s None) n (admit_sub_sess _ _ _ _ _ _ _ _ E) Hf eq_refl), N.eqb_refl. reflexivity.
    + right. right. repeat split.
Qed.

Lemma not_fresh_step : forall fx cf st e n, arrival_id e = Some n -> fresh st n = false ->
  step fx cf st e = (st, RBad, []).
Proof.
  intros fx cf st e n Ha Hf. destruct e; simpl in Ha; try discriminate Ha; inversion Ha; subst; cbn [step]; rewrite Hf; reflexivity.
Qed.

(* ---- every shell step is a sequence of admission steps ---------------------------------------------- *)
Lemma run_one : forall fx cf st e, run fx cf st [e] = (fst (fst (step fx cf st e)), snd (step fx cf st e)).
Proof. intros. simpl. destruct (step fx cf st e) as [[st1 r] ns]. simpl. rewrite app_nil_r. reflexivity. Qed.

Lemma run_app : forall fx cf h1 h2 st,
  run fx cf st (h1 ++ h2) = (fst (run fx cf (fst (run fx cf st h1)) h2), snd (run fx cf st h1) ++ snd (run fx cf (fst (run fx cf st h1)) h2)).
Proof.
  intros fx cf h1. induction h1 as [|e t IH]; intros h2 st; simpl.
  - destruct (run fx cf st h2); reflexivity.
  - destruct (step fx cf st e) as [[st1 r] ns]. rewrite IH.
    destruct (run fx cf st1 t) as [a b]. simpl. destruct (run fx cf a h2) as [c d]. simpl. rewrite app_assoc. reflexivity.
Qed.

Lemma close_conn_sim : forall fx cf st c, exists es, run fx cf st es = close_conn fx cf st c.
Proof.
  intros fx cf st c. unfold close_conn. destruct (cn_pub c) as [p|].
  - exists [EGone p]. rewrite run_one. destruct (step fx cf st (EGone p)) as [[a b] d]. reflexivity.
  - destruct (cn_sub c) as [q|].
    + exists [EGone q]. rewrite run_one. destruct (step fx cf st (EGone q)) as [[a b] d]. reflexivity.
    + exists []. reflexivity.
Qed.

Lemma step_sim1 : forall fx cf st e, exists es, run fx cf st es = (fst (fst (step fx cf st e)), snd (step fx cf st e)).
Proof. intros. exists [e]. apply run_one. Qed.

Lemma pass_sim : forall fx cf st conns e,
  exists es, run fx cf st es =
    (cs_base (fst (fst (let '(st1, r, ns) := step fx cf st e in (mk_cstate st1 conns, r, ns)))),
     snd (let '(st1, r, ns) := step fx cf st e in (mk_cstate st1 conns, r, ns))).
Proof. intros. exists [e]. rewrite run_one. destruct (step fx cf st e) as [[st1 r] ns]. reflexivity. Qed.

Theorem cstep_sim : forall fsh fx cf cs ce,
  exists es, run fx cf (cs_base cs) es =
             (cs_base (fst (fst (cstep fsh fx cf cs ce))), snd (cstep fsh fx cf cs ce)).
Proof.
  intros fsh fx cf cs ce.
  assert (Hnil : exists es, run fx cf (cs_base cs) es = (cs_base cs, [])) by (exists []; reflexivity).
  assert (Hclose : forall c cs', cs_base (fst (let '(st1, ns) := close_conn fx cf (cs_base cs) c in (mk_cstate st1 cs', ns))) = fst (close_conn fx cf (cs_base cs) c)).
  { intros. destruct (close_conn fx cf (cs_base cs) c). reflexivity. }
  destruct ce as [e|s c n d|s c n d|s n pb]; cbn [cstep].
  - destruct (arrival_id e) as [n|] eqn:Ea.
    + destruct (reserved cs n); [exact Hnil|].
      destruct (step_sim1 fx cf (cs_base cs) e) as [es Hes]. exists es. rewrite Hes.
      destruct (step fx cf (cs_base cs) e) as [[st1 r] ns]. cbn [fst snd].
      destruct e; try reflexivity; destruct (result_bad r); reflexivity.
    + destruct e; simpl in Ea; try discriminate Ea; try apply pass_sim.
      * (* ERtspPlay *)
        destruct (get_conn n (cs_conns cs)) as [k|].
        -- destruct (negb (cn_open k) || conn_closed (cs_base cs) k || negb (kind_is (cs_base cs) n KRtspSub)); [exact Hnil|].
           destruct (cn_sub k) as [q|].
           ++ destruct (step_sim1 fx cf (cs_base cs) (ERtspPlay q)) as [es Hes]. exists es. rewrite Hes.
              destruct (step fx cf (cs_base cs) (ERtspPlay q)) as [[st1 r] ns]. reflexivity.
           ++ destruct (close_conn_sim fx cf (cs_base cs) k) as [es Hes]. exists es. rewrite Hes.
              destruct (close_conn fx cf (cs_base cs) k) as [st1 ns]. reflexivity.
        -- destruct (step_sim1 fx cf (cs_base cs) (ERtspPlay n)) as [es Hes]. exists es. rewrite Hes.
           destruct (step fx cf (cs_base cs) (ERtspPlay n)) as [[st1 r] ns]. reflexivity.
      * (* EGone *)
        destruct (get_conn n (cs_conns cs)) as [k|].
        -- destruct (cn_open k); [|exact Hnil].
           destruct (close_conn_sim fx cf (cs_base cs) k) as [es Hes]. exists es. rewrite Hes.
           destruct (close_conn fx cf (cs_base cs) k) as [st1 ns]. reflexivity.
        -- destruct (step_sim1 fx cf (cs_base cs) (EGone n)) as [es Hes]. exists es. rewrite Hes.
           destruct (step fx cf (cs_base cs) (EGone n)) as [[st1 r] ns]. reflexivity.
  - (* CAnnounce *)
    destruct (negb (fresh (cs_base cs) n) || reserved cs n); [exact Hnil|].
    destruct (get_conn c (cs_conns cs)) as [k|]; [|exact Hnil].
    destruct (negb (cn_open k) || conn_closed (cs_base cs) k); [exact Hnil|].
    destruct (fsh && _).
    + destruct (close_conn_sim fx cf (cs_base cs) k) as [es Hes]. exists es. rewrite Hes.
      destruct (close_conn fx cf (cs_base cs) k) as [st1 ns]. reflexivity.
    + pose proof (run_one fx cf (cs_base cs) (ERtspPub s n d)) as H1.
      destruct (step fx cf (cs_base cs) (ERtspPub s n d)) as [[st1 r] ns]. cbn [fst snd] in H1.
      destruct (result_acc r).
      * exists [ERtspPub s n d]. exact H1.
      * match goal with |- context[close_conn fx cf st1 ?kk] => destruct (close_conn_sim fx cf st1 kk) as [es Hes]; destruct (close_conn fx cf st1 kk) as [st2 ns2] end.
        exists ([ERtspPub s n d] ++ es). rewrite run_app, H1. cbn [fst snd]. rewrite Hes. reflexivity.
  - (* CDescribe *)
    destruct (negb (fresh (cs_base cs) n) || reserved cs n); [exact Hnil|].
    destruct (get_conn c (cs_conns cs)) as [k|]; [|exact Hnil].
    destruct (negb (cn_open k) || conn_closed (cs_base cs) k); [exact Hnil|].
    destruct (fsh && _).
    + destruct (close_conn_sim fx cf (cs_base cs) k) as [es Hes]. exists es. rewrite Hes.
      destruct (close_conn fx cf (cs_base cs) k) as [st1 ns]. reflexivity.
    + pose proof (run_one fx cf (cs_base cs) (ERtspSub s n d)) as H1.
      destruct (step fx cf (cs_base cs) (ERtspSub s n d)) as [[st1 r] ns]. cbn [fst snd] in H1.
      destruct (result_bad r); [exact Hnil|].
      destruct (result_acc r).
      * exists [ERtspSub s n d]. exact H1.
      * match goal with |- context[close_conn fx cf st1 ?kk] => destruct (close_conn_sim fx cf st1 kk) as [es Hes]; destruct (close_conn fx cf st1 kk) as [st2 ns2] end.
        exists ([ERtspSub s n d] ++ es). rewrite run_app, H1. cbn [fst snd]. rewrite Hes. reflexivity.
  - (* CRtmpCmd *)
    destruct (find_sess n (st_sess (cs_base cs))) as [x|]; [|exact Hnil].
    destruct (s_kind x); try exact Hnil;
      (destruct (negb (s_acc x) || s_gone x || s_closed x); [exact Hnil|];
       destruct (step_sim1 fx cf (cs_base cs) (EGone n)) as [es Hes]; exists es; rewrite Hes;
       destruct (step fx cf (cs_base cs) (EGone n)) as [[st1 r] ns]; reflexivity).
Qed.

(* whatever the RTSP connections do, the state and the notification log are those of a history of
   admission events: every theorem about [run] applies *)
Theorem crun_sim : forall fsh fx cf h cs,
  exists es, run fx cf (cs_base cs) es = (cs_base (fst (crun fsh fx cf cs h)), snd (crun fsh fx cf cs h)).
Proof.
  intros fsh fx cf h. induction h as [|e t IH]; intros cs.
  - exists []. reflexivity.
  - destruct (cstep_sim fsh fx cf cs e) as [es1 H1]. cbn [crun].
    destruct (cstep fsh fx cf cs e) as [[cs1 r] ns]. cbn [fst snd] in H1.
    destruct (IH cs1) as [es2 H2]. destruct (crun fsh fx cf cs1 t) as [cs2 ns2]. cbn [fst snd] in *.
    exists (es1 ++ es2). rewrite run_app, H1. cbn [fst snd]. rewrite H2. reflexivity.
Qed.

(* ---- the list of connections --------------------------------------------------------------------------- *)
Definition all_members (l : list conn) : list N := concat (map cn_members l).

Lemma memb_In : forall n c, memb n c = true <-> In n (cn_members c).
Proof.
  intros. unfold memb. rewrite existsb_exists. split.
  - intros [x [H1 H2]]. apply N.eqb_eq in H2. subst. assumption.
  - intros H. exists n. split; [assumption|apply N.eqb_refl].
Qed.

Lemma get_conn_In : forall n l c, get_conn n l = Some c -> In c l /\ In n (cn_members c).
Proof.
  induction l as [|a t IH]; simpl; intros c H; [discriminate|].
  destruct (memb n a) eqn:E.
  - inversion H; subst. split; [left; reflexivity|apply memb_In; assumption].
  - destruct (IH c H) as [A B]. split; [right; assumption|assumption].
Qed.

Lemma get_conn_none : forall n l, get_conn n l = None <-> ~ In n (all_members l).
Proof.
  induction l as [|a t IH]; simpl; [tauto|]. unfold all_members in *. simpl. rewrite in_app_iff.
  destruct (memb n a) eqn:E.
  - apply memb_In in E. split; [discriminate|tauto].
  - assert (~ In n (cn_members a)) by (intros H; apply memb_In in H; congruence). rewrite IH. tauto.
Qed.

Lemma reserved_false : forall cs n, reserved cs n = false <-> ~ In n (all_members (cs_conns cs)).
Proof.
  intros. unfold reserved. rewrite <- get_conn_none. destruct (get_conn n (cs_conns cs)); simpl; split; intros H; try discriminate H; reflexivity.
Qed.

Lemma in_all_members : forall l n, In n (all_members l) <-> exists c, In c l /\ In n (cn_members c).
Proof.
  intros. unfold all_members. rewrite in_concat. split.
  - intros [x [H1 H2]]. apply in_map_iff in H1. destruct H1 as [c [E Hc]]. subst. exists c. split; assumption.
  - intros [c [H1 H2]]. exists (cn_members c). split; [apply in_map; assumption|assumption].
Qed.

Lemma all_members_app : forall l c, all_members (l ++ [c]) = all_members l ++ cn_members c.
Proof. intros. unfold all_members. rewrite map_app, concat_app. simpl. rewrite app_nil_r. reflexivity. Qed.

Lemma NoDup_app_disjoint : forall (a b : list N), NoDup (a ++ b) -> forall x, In x a -> ~ In x b.
Proof.
  induction a as [|y t IH]; simpl; intros b H x Hx; [contradiction|].
  inversion H; subst. destruct Hx as [->|Hx].
  - intros Hb. apply H2. apply in_or_app. right. assumption.
  - apply IH; assumption.
Qed.

Lemma NoDup_app_l : forall (a b : list N), NoDup (a ++ b) -> NoDup a.
Proof. induction a as [|y t IH]; simpl; intros b H; [constructor|]. inversion H; subst. constructor; [intros X; apply H2; apply in_or_app; left; assumption|eapply IH; eassumption]. Qed.
Lemma NoDup_app_r : forall (a b : list N), NoDup (a ++ b) -> NoDup b.
Proof. induction a as [|y t IH]; simpl; intros b H; [assumption|]. inversion H; subst. apply IH. assumption. Qed.

Lemma NoDup_app_intro : forall (a b : list N), NoDup a -> NoDup b -> (forall x, In x a -> ~ In x b) -> NoDup (a ++ b).
Proof.
  induction a as [|y t IH]; simpl; intros b Ha Hb Hd; [assumption|].
  inversion Ha; subst. constructor.
  - rewrite in_app_iff. intros [X|X]; [contradiction|]. apply (Hd y); [left; reflexivity|assumption].
  - apply IH; try assumption. intros x Hx. apply Hd. right. assumption.
Qed.

(* replacing the connection of n by one with the same members plus fresh ones *)
Lemma set_conn_spec : forall n k k' l extra,
  NoDup (all_members l) -> get_conn n l = Some k -> cn_members k' = cn_members k ++ extra ->
  NoDup extra -> (forall x, In x extra -> ~ In x (all_members l)) ->
  NoDup (all_members (set_conn n k' l)) /\
  (forall m, In m (all_members l) -> In m (all_members (set_conn n k' l))) /\
  (forall m, In m (all_members (set_conn n k' l)) -> In m (all_members l) \/ In m extra) /\
  (forall c, In c (set_conn n k' l) -> c = k' \/ (In c l /\ forall x, In x (cn_members c) -> ~ In x (cn_members k))).
Proof.
  intros n k k' l extra. induction l as [|a t IH]; intros Hnd Hg Hm Hex Hfresh; [discriminate Hg|].
  simpl in Hg. simpl set_conn. unfold all_members in *. simpl in *. destruct (memb n a) eqn:E.
  - inversion Hg; subst a. simpl. rewrite Hm. split; [|split; [|split]].
    + rewrite <- app_assoc. apply NoDup_app_intro.
      * eapply NoDup_app_l; eassumption.
      * apply NoDup_app_intro; [assumption|eapply NoDup_app_r; eassumption|].
        intros x Hx Hc. apply (Hfresh x Hx). apply in_or_app. right. assumption.
      * intros x Hx. rewrite in_app_iff. intros [X|X].
        -- apply (Hfresh x X). apply in_or_app. left. assumption.
        -- exact (NoDup_app_disjoint _ _ Hnd x Hx X).
    + intros m Hin. apply in_app_or in Hin. rewrite <- app_assoc. apply in_or_app.
      destruct Hin as [X|X]; [left; assumption|right; apply in_or_app; right; assumption].
    + intros m Hin. rewrite <- app_assoc in Hin. apply in_app_or in Hin. destruct Hin as [X|X].
      * left. apply in_or_app. left. assumption.
      * apply in_app_or in X. destruct X as [X|X]; [right; assumption|left; apply in_or_app; right; assumption].
    + intros c [->|Hc]; [left; reflexivity|right]. split; [right; assumption|].
      intros x Hx Hk. apply (NoDup_app_disjoint _ _ Hnd x Hk). apply in_concat. exists (cn_members c). split; [apply in_map; assumption|assumption].
  - simpl.
    assert (Hnd' : NoDup (concat (map cn_members t))) by (eapply NoDup_app_r; eassumption).
    assert (Hfresh' : forall x, In x extra -> ~ In x (concat (map cn_members t))).
    { intros x Hx Hc. apply (Hfresh x Hx). apply in_or_app. right. assumption. }
    destruct (IH Hnd' Hg Hm Hex Hfresh') as [I1 [I2 [I3 I4]]].
    destruct (get_conn_In _ _ _ Hg) as [Hkt Hnk].
    split; [|split; [|split]].
    + apply NoDup_app_intro; [eapply NoDup_app_l; eassumption|assumption|].
      intros x Hx Hc. destruct (I3 x Hc) as [X|X].
      * exact (NoDup_app_disjoint _ _ Hnd x Hx X).
      * apply (Hfresh x X). apply in_or_app. left. assumption.
    + intros m Hin. apply in_app_or in Hin. apply in_or_app. destruct Hin as [X|X]; [left; assumption|right; apply I2; assumption].
    + intros m Hin. apply in_app_or in Hin. destruct Hin as [X|X].
      * left. apply in_or_app. left. assumption.
      * destruct (I3 m X) as [Y|Y]; [left; apply in_or_app; right; assumption|right; assumption].
    + intros c [->|Hc].
      * right. split; [left; reflexivity|]. intros x Hx Hk. apply (NoDup_app_disjoint _ _ Hnd x Hx).
        apply in_concat. exists (cn_members k). split; [apply in_map; assumption|assumption].
      * destruct (I4 c Hc) as [->|[A B]]; [left; reflexivity|right; split; [right; assumption|assumption]].
Qed.

(* ---- the shell's bookkeeping is complete (repaired tree) ------------------------------------------------ *)
Definition rtsp_kind (kd : skind) : Prop := kd = KRtspPub \/ kd = KRtspSub.

Record SHELL_INV (cs : cstate) : Prop := mk_SHELL_INV {
  sh_nodup : NoDup (all_members (cs_conns cs));
  (* an open connection carries exactly one session, admitted and not gone, in the field of its kind *)
  sh_open : forall c, In c (cs_conns cs) -> cn_open c = true ->
    exists n kd s, cn_members c = [n] /\ vsess (cs_base cs) n = Some (kd, s, true, false) /\
      ((kd = KRtspPub /\ cn_pub c = Some n /\ cn_sub c = None) \/ (kd = KRtspSub /\ cn_pub c = None /\ cn_sub c = Some n));
  (* no session created on a connection that has ended is still admitted *)
  sh_closed : forall c, In c (cs_conns cs) -> cn_open c = false ->
    forall m kd s, In m (cn_members c) -> vsess (cs_base cs) m <> Some (kd, s, true, false);
  (* every admitted RTSP session belongs to a connection *)
  sh_owned : forall n kd s, vsess (cs_base cs) n = Some (kd, s, true, false) -> rtsp_kind kd -> In n (all_members (cs_conns cs))
}.

Lemma shell_inv_init : SHELL_INV init_cstate.
Proof.
  constructor; simpl.
  - constructor.
  - intros c H. destruct H.
  - intros c H. destruct H.
  - intros n kd s H. discriminate H.
Qed.

(* an admission step that neither ends a session of a connection nor uses one of their names *)
Lemma inv_base_step : forall fx cf cs e,
  SHELL_INV cs ->
  (forall p, e = EGone p -> ~ In p (all_members (cs_conns cs))) ->
  (forall n, arrival_id e = Some n -> ~ In n (all_members (cs_conns cs)) /\ ~ rtsp_kind (arrival_kind e)) ->
  SHELL_INV (mk_cstate (fst (fst (step fx cf (cs_base cs) e))) (cs_conns cs)).
Proof.
  intros fx cf cs e [ND OP CL OW] Hg Ha.
  pose proof (step_view fx cf (cs_base cs) e) as V. set (st1 := fst (fst (step fx cf (cs_base cs) e))) in *.
  assert (Hmem : forall m, In m (all_members (cs_conns cs)) -> vsess st1 m = vsess (cs_base cs) m \/
                           exists kd s a, vsess st1 m = Some (kd, s, a, true)).
  { intros m Hm. destruct (V m) as [X|[[A _]|[A _]]].
    - left. assumption.
    - exfalso. destruct (Ha m A) as [B _]. contradiction.
    - exfalso. exact (Hg m A Hm). }
  constructor; cbn [cs_base cs_conns].
  - assumption.
  - intros c Hc Ho. destruct (OP c Hc Ho) as [n [kd [s [M [Vn F]]]]]. exists n, kd, s. split; [assumption|]. split; [|assumption].
    assert (Hin : In n (all_members (cs_conns cs))) by (apply in_all_members; exists c; split; [assumption|rewrite M; left; reflexivity]).
    destruct (V n) as [X|[[A _]|[A _]]].
    + rewrite X. assumption.
    + exfalso. destruct (Ha n A) as [B _]. contradiction.
    + exfalso. exact (Hg n A Hin).
  - intros c Hc Ho m kd s Hm Hv.
    assert (Hin : In m (all_members (cs_conns cs))) by (apply in_all_members; exists c; split; assumption).
    destruct (Hmem m Hin) as [X|[kd' [s' [a' X]]]].
    + rewrite X in Hv. exact (CL c Hc Ho m kd s Hm Hv).
    + rewrite X in Hv. discriminate Hv.
  - intros n kd s Hv Hk. destruct (V n) as [X|[[A [B [s' [a' C]]]]|[A [kd' [s' [a' [B C]]]]]]].
    + rewrite X in Hv. exact (OW n kd s Hv Hk).
    + exfalso. rewrite C in Hv. inversion Hv; subst. destruct (Ha n A) as [_ D]. contradiction.
    + rewrite C in Hv. discriminate Hv.
Qed.

(* a connection ends: the session it carries departs; names that never became sessions may be added *)
Lemma inv_close : forall cf cs c k extra,
  SHELL_INV cs -> get_conn c (cs_conns cs) = Some k -> cn_open k = true ->
  NoDup extra -> (forall x, In x extra -> ~ In x (all_members (cs_conns cs)) /\ vsess (cs_base cs) x = None) ->
  SHELL_INV (mk_cstate (fst (close_conn fixed_tree cf (cs_base cs) k))
                       (set_conn c (mk_conn (cn_members k ++ extra) (cn_pub k) (cn_sub k) false) (cs_conns cs))).
Proof.
  intros cf cs c k extra [ND OP CL OW] Hg Ho Hex Hfresh.
  destruct (get_conn_In _ _ _ Hg) as [Hk _].
  destruct (OP k Hk Ho) as [n0 [kd0 [s0 [M0 [V0 F0]]]]].
  assert (Hclose : fst (close_conn fixed_tree cf (cs_base cs) k) = fst (fst (step fixed_tree cf (cs_base cs) (EGone n0)))).
  { unfold close_conn. destruct F0 as [[_ [P S]]|[_ [P S]]]; rewrite P; [|rewrite S];
      destruct (step fixed_tree cf (cs_base cs) (EGone n0)) as [[a b] d]; reflexivity. }
  rewrite Hclose. set (st1 := fst (fst (step fixed_tree cf (cs_base cs) (EGone n0)))).
  assert (Hk0 : rtsp_kind kd0) by (destruct F0 as [[A _]|[A _]]; [left|right]; assumption).
  assert (V1 : vsess st1 n0 = Some (kd0, s0, true, true)) by (apply egone_rtsp; assumption).
  assert (Vo : forall m, m <> n0 -> vsess st1 m = vsess (cs_base cs) m).
  { intros m Hm. destruct (step_view fixed_tree cf (cs_base cs) (EGone n0) m) as [X|[[A _]|[A _]]]; [assumption|discriminate A|inversion A; congruence]. }
  set (k' := mk_conn (cn_members k ++ extra) (cn_pub k) (cn_sub k) false).
  destruct (set_conn_spec c k k' (cs_conns cs) extra ND Hg eq_refl Hex (fun x Hx => proj1 (Hfresh x Hx))) as [S1 [S2 [S3 S4]]].
  constructor; cbn [cs_base cs_conns].
  - assumption.
  - intros c0 Hc0 Hopen. destruct (S4 c0 Hc0) as [->|[A B]]; [discriminate Hopen|].
    destruct (OP c0 A Hopen) as [n [kd [s [M [Vn F]]]]]. exists n, kd, s. split; [assumption|]. split; [|assumption].
    rewrite Vo; [assumption|]. intros ->. apply (B n0); [rewrite M; left; reflexivity|rewrite M0; left; reflexivity].
  - intros c0 Hc0 Hopen m kd s Hm Hv. destruct (S4 c0 Hc0) as [->|[A B]].
    + simpl in Hm. apply in_app_or in Hm. destruct Hm as [Hm|Hm].
      * rewrite M0 in Hm. destruct Hm as [<-|[]]. rewrite V1 in Hv. discriminate Hv.
      * destruct (Hfresh m Hm) as [F1 F2]. assert (m <> n0).
        { intros ->. apply F1. apply in_all_members. exists k. split; [assumption|rewrite M0; left; reflexivity]. }
        rewrite Vo in Hv by assumption. rewrite F2 in Hv. discriminate Hv.
    + assert (m <> n0) by (intros ->; apply (B n0 Hm); rewrite M0; left; reflexivity).
      rewrite Vo in Hv by assumption. exact (CL c0 A Hopen m kd s Hm Hv).
  - intros n kd s Hv Hkd. assert (n <> n0) by (intros ->; rewrite V1 in Hv; discriminate Hv).
    rewrite Vo in Hv by assumption. apply S2. exact (OW n kd s Hv Hkd).
Qed.

(* a first ANNOUNCE / DESCRIBE: a new connection *)
Lemma inv_register : forall cs st1 n kd s acc,
  SHELL_INV cs -> ~ In n (all_members (cs_conns cs)) -> rtsp_kind kd ->
  (forall m, m <> n -> vsess st1 m = vsess (cs_base cs) m) ->
  vsess st1 n = Some (kd, s, acc, negb acc) ->
  forall c', cn_members c' = [n] -> cn_open c' = acc ->
  (acc = true -> (kd = KRtspPub /\ cn_pub c' = Some n /\ cn_sub c' = None) \/ (kd = KRtspSub /\ cn_pub c' = None /\ cn_sub c' = Some n)) ->
  SHELL_INV (mk_cstate st1 (cs_conns cs ++ [c'])).
Proof.
  intros cs st1 n kd s acc [ND OP CL OW] Hn Hk Vo Vn c' Mc Oc Fc.
  assert (Hmem : forall m, In m (all_members (cs_conns cs)) -> vsess st1 m = vsess (cs_base cs) m).
  { intros m Hm. apply Vo. intros ->. contradiction. }
  constructor; cbn [cs_base cs_conns].
  - rewrite all_members_app, Mc. apply NoDup_app_intro; [assumption|constructor; [intros []|constructor]|].
    intros x Hx [<-|[]]. contradiction.
  - intros c Hc Ho. apply in_app_or in Hc. destruct Hc as [Hc|[<-|[]]].
    + destruct (OP c Hc Ho) as [m [kd1 [s1 [M [Vm F]]]]]. exists m, kd1, s1. split; [assumption|]. split; [|assumption].
      rewrite Hmem; [assumption|]. apply in_all_members. exists c. split; [assumption|rewrite M; left; reflexivity].
    + rewrite Oc in Ho. subst acc. rewrite Ho in Vn. exists n, kd, s. split; [assumption|]. split; [exact Vn|apply Fc; assumption].
  - intros c Hc Ho m kd1 s1 Hm Hv. apply in_app_or in Hc. destruct Hc as [Hc|[<-|[]]].
    + rewrite Hmem in Hv; [exact (CL c Hc Ho m kd1 s1 Hm Hv)|]. apply in_all_members. exists c. split; assumption.
    + rewrite Mc in Hm. destruct Hm as [<-|[]]. rewrite Oc in Ho. subst acc. rewrite Ho in Vn. rewrite Vn in Hv. discriminate Hv.
  - intros m kd1 s1 Hv Hk1. rewrite all_members_app. apply in_or_app. destruct (N.eq_dec m n) as [->|Hne].
    + right. rewrite Mc. left. reflexivity.
    + left. rewrite Vo in Hv by assumption. exact (OW m kd1 s1 Hv Hk1).
Qed.

Lemma inv_eta : forall cs, SHELL_INV cs -> SHELL_INV (mk_cstate (cs_base cs) (cs_conns cs)).
Proof. intros [b c] H. exact H. Qed.

Lemma step_other : forall fx cf st e n m, arrival_id e = Some n -> m <> n ->
  vsess (fst (fst (step fx cf st e))) m = vsess st m.
Proof.
  intros fx cf st e n m Ha Hm. destruct (step_view fx cf st e m) as [X|[[A _]|[A _]]]; [assumption| |].
  - rewrite Ha in A. inversion A. congruence.
  - subst e. discriminate Ha.
Qed.

Lemma fresh_of_vsess : forall st n, fresh st n = true <-> vsess st n = None.
Proof.
  intros. unfold fresh, vsess, view. destruct (find_sess n (st_sess st)); simpl; split; intros H; try discriminate H; reflexivity.
Qed.

Theorem shell_inv_step : forall cf cs ce, SHELL_INV cs -> SHELL_INV (fst (fst (cstep true fixed_tree cf cs ce))).
Proof.
  intros cf cs ce H.
  assert (Hopen_field : forall k, In k (cs_conns cs) -> cn_open k = true -> is_some (cn_pub k) || is_some (cn_sub k) = true).
  { intros k Hk Ho. destruct (sh_open _ H k Hk Ho) as [n [kd [s [_ [_ [[_ [P _]]|[_ [_ S]]]]]]]]; [rewrite P|rewrite S]; simpl; [reflexivity|apply orb_true_r]. }
  destruct ce as [e|s c n d|s c n d|s n pb]; cbn [cstep].
  - destruct (arrival_id e) as [n|] eqn:Ea.
    + destruct (reserved cs n) eqn:Er; [exact H|]. apply reserved_false in Er.
      destruct (fresh (cs_base cs) n) eqn:Hf.
      2:{ rewrite (not_fresh_step fixed_tree cf (cs_base cs) e n Ea Hf). destruct e; try (apply inv_eta; exact H). }
      destruct e; simpl in Ea; try discriminate Ea; inversion Ea; subst n0;
        try (match goal with |- context[step fixed_tree cf (cs_base cs) ?ev] =>
               pose proof (inv_base_step fixed_tree cf cs ev H) as Hb; destruct (step fixed_tree cf (cs_base cs) ev) as [[st1 r] ns] end;
             cbn [fst] in *; apply Hb; [intros p Hp; discriminate Hp|];
             intros n1 Hn1; inversion Hn1; subst n1; split; [assumption|]; intros [X|X]; discriminate X).
      * (* ERtspPub *)
        pose proof (rtsp_pub_step fixed_tree cf (cs_base cs) s n deny Hf) as Hr.
        pose proof (fun m => step_other fixed_tree cf (cs_base cs) (ERtspPub s n deny) n m eq_refl) as Vo.
        destruct (step fixed_tree cf (cs_base cs) (ERtspPub s n deny)) as [[st1 r] ns]. cbn [fst] in *.
        destruct Hr as [[-> Vn]|[-> Vn]]; cbn [result_bad result_acc fst].
        -- eapply (inv_register cs st1 n KRtspPub s true); try eassumption; try reflexivity; [left; reflexivity|].
           intros _. left. repeat split.
        -- eapply (inv_register cs st1 n KRtspPub s false); try eassumption; try reflexivity; [left; reflexivity|].
           intros X. discriminate X.
      * (* ERtspSub *)
        pose proof (rtsp_sub_step fixed_tree cf (cs_base cs) s n deny Hf) as Hr.
        pose proof (fun m => step_other fixed_tree cf (cs_base cs) (ERtspSub s n deny) n m eq_refl) as Vo.
        destruct (step fixed_tree cf (cs_base cs) (ERtspSub s n deny)) as [[st1 r] ns]. cbn [fst] in *.
        destruct Hr as [[-> Vn]|[[-> Vn]|[-> [-> _]]]]; cbn [result_bad result_acc fst].
        -- eapply (inv_register cs st1 n KRtspSub s true); try eassumption; try reflexivity; [right; reflexivity|].
           intros _. right. repeat split.
        -- eapply (inv_register cs st1 n KRtspSub s false); try eassumption; try reflexivity; [right; reflexivity|].
           intros X. discriminate X.
        -- apply inv_eta. exact H.
    + assert (Hpass : forall ev, arrival_id ev = None -> (forall p, ev = EGone p -> ~ In p (all_members (cs_conns cs))) ->
                SHELL_INV (fst (fst (let '(st1, r, ns) := step fixed_tree cf (cs_base cs) ev in (mk_cstate st1 (cs_conns cs), r, ns))))).
      { intros ev Hev Hg. pose proof (inv_base_step fixed_tree cf cs ev H Hg) as Hb.
        destruct (step fixed_tree cf (cs_base cs) ev) as [[st1 r] ns]. cbn [fst] in *. apply Hb. intros n1 Hn1. rewrite Hev in Hn1. discriminate Hn1. }
      destruct e; simpl in Ea; try discriminate Ea; try (apply Hpass; [reflexivity|intros p Hp; discriminate Hp]).
      * (* ERtspPlay *)
        destruct (get_conn n (cs_conns cs)) as [k|] eqn:Eg; [|apply Hpass; [reflexivity|intros p Hp; discriminate Hp]].
        destruct (negb (cn_open k) || conn_closed (cs_base cs) k || negb (kind_is (cs_base cs) n KRtspSub)) eqn:Eguard; [exact H|].
        destruct (cn_sub k) as [q|] eqn:Es; [apply (Hpass (ERtspPlay q)); [reflexivity|intros p Hp; discriminate Hp]|].
        apply orb_false_iff in Eguard. destruct Eguard as [Eguard _]. apply orb_false_iff in Eguard. destruct Eguard as [Eo _].
        apply negb_false_iff in Eo.
        pose proof (inv_close cf cs n k [] H Eg Eo (NoDup_nil _) (fun x Hx => match Hx with end)) as Hc.
        rewrite app_nil_r, Es in Hc. destruct (close_conn fixed_tree cf (cs_base cs) k) as [st1 ns]. cbn [fst] in *. exact Hc.
      * (* EGone *)
        destruct (get_conn n (cs_conns cs)) as [k|] eqn:Eg.
        -- destruct (cn_open k) eqn:Eo; [|exact H].
           pose proof (inv_close cf cs n k [] H Eg Eo (NoDup_nil _) (fun x Hx => match Hx with end)) as Hc.
           rewrite app_nil_r in Hc. destruct (close_conn fixed_tree cf (cs_base cs) k) as [st1 ns]. cbn [fst] in *. exact Hc.
        -- apply Hpass; [reflexivity|]. intros p Hp. inversion Hp; subst p. apply get_conn_none. assumption.
  - (* CAnnounce *)
    destruct (negb (fresh (cs_base cs) n) || reserved cs n) eqn:Eg1; [exact H|].
    apply orb_false_iff in Eg1. destruct Eg1 as [Ef Er]. apply negb_false_iff in Ef. apply reserved_false in Er.
    destruct (get_conn c (cs_conns cs)) as [k|] eqn:Eg; [|exact H].
    destruct (negb (cn_open k) || conn_closed (cs_base cs) k) eqn:Eg2; [exact H|].
    apply orb_false_iff in Eg2. destruct Eg2 as [Eo _]. apply negb_false_iff in Eo.
    rewrite (Hopen_field k (proj1 (get_conn_In _ _ _ Eg)) Eo). cbn [andb].
    assert (Hex : forall x, In x [n] -> ~ In x (all_members (cs_conns cs)) /\ vsess (cs_base cs) x = None).
    { intros x [<-|[]]. split; [assumption|apply fresh_of_vsess; assumption]. }
    pose proof (inv_close cf cs c k [n] H Eg Eo (NoDup_cons n (@in_nil N n) (NoDup_nil _)) Hex) as Hc.
    destruct (close_conn fixed_tree cf (cs_base cs) k) as [st1 ns]. cbn [fst] in *. exact Hc.
  - (* CDescribe *)
    destruct (negb (fresh (cs_base cs) n) || reserved cs n) eqn:Eg1; [exact H|].
    apply orb_false_iff in Eg1. destruct Eg1 as [Ef Er]. apply negb_false_iff in Ef. apply reserved_false in Er.
    destruct (get_conn c (cs_conns cs)) as [k|] eqn:Eg; [|exact H].
    destruct (negb (cn_open k) || conn_closed (cs_base cs) k) eqn:Eg2; [exact H|].
    apply orb_false_iff in Eg2. destruct Eg2 as [Eo _]. apply negb_false_iff in Eo.
    rewrite (Hopen_field k (proj1 (get_conn_In _ _ _ Eg)) Eo). cbn [andb].
    assert (Hex : forall x, In x [n] -> ~ In x (all_members (cs_conns cs)) /\ vsess (cs_base cs) x = None).
    { intros x [<-|[]]. split; [assumption|apply fresh_of_vsess; assumption]. }
    pose proof (inv_close cf cs c k [n] H Eg Eo (NoDup_cons n (@in_nil N n) (NoDup_nil _)) Hex) as Hc.
    destruct (close_conn fixed_tree cf (cs_base cs) k) as [st1 ns]. cbn [fst] in *. exact Hc.
  - (* CRtmpCmd: an admitted live RTMP session belongs to no RTSP connection *)
    destruct (find_sess n (st_sess (cs_base cs))) as [x|] eqn:Ef; [|exact H].
    assert (Hn : s_acc x = true -> s_gone x = false -> (s_kind x = KRtmpPub \/ s_kind x = KRtmpSub) -> ~ In n (all_members (cs_conns cs))).
    { intros Ha Hg Hk Hin. apply in_all_members in Hin. destruct Hin as [c [Hc Hm]].
      assert (Vn : vsess (cs_base cs) n = Some (s_kind x, s_stream x, true, false)).
      { rewrite (vsess_find _ _ _ Ef). unfold core. rewrite Ha, Hg. reflexivity. }
      destruct (cn_open c) eqn:Eo.
      - destruct (sh_open _ H c Hc Eo) as [n1 [kd [s1 [M [V1 F]]]]]. rewrite M in Hm. destruct Hm as [<-|[]].
        rewrite V1 in Vn. inversion Vn. destruct F as [[-> _]|[-> _]]; destruct Hk; congruence.
      - exact (sh_closed _ H c Hc Eo n _ _ Hm Vn). }
    destruct (s_kind x) eqn:Ek; try exact H;
      (destruct (negb (s_acc x) || s_gone x || s_closed x) eqn:Eg; [exact H|];
       apply orb_false_iff in Eg; destruct Eg as [Eg _]; apply orb_false_iff in Eg; destruct Eg as [Ea Eg]; apply negb_false_iff in Ea;
       pose proof (inv_base_step fixed_tree cf cs (EGone n) H) as Hb;
       destruct (step fixed_tree cf (cs_base cs) (EGone n)) as [[st1 r] ns]; cbn [fst] in *; apply Hb;
       [intros p Hp; inversion Hp; subst p; apply Hn; auto | intros n1 Hn1; discriminate Hn1]).
Qed.

Theorem shell_inv_run : forall cf h cs, SHELL_INV cs -> SHELL_INV (fst (crun true fixed_tree cf cs h)).
Proof.
  intros cf h. induction h as [|e t IH]; intros cs H; [exact H|].
  cbn [crun]. pose proof (shell_inv_step cf cs e H) as H1.
  destruct (cstep true fixed_tree cf cs e) as [[cs1 r] ns]. cbn [fst] in H1.
  specialize (IH cs1 H1). destruct (crun true fixed_tree cf cs1 t) as [cs2 ns2]. exact IH.
Qed.

(* When a connection has ended, none of the sessions that were created on it is still admitted;
   and every admitted RTSP session is THE session of an open connection, stored in the field whose
   departure the shell reports when that connection ends. *)
Theorem conn_end_complete : forall cf h,
  let cs := fst (crun true fixed_tree cf init_cstate h) in
  (forall c m kd s, In c (cs_conns cs) -> cn_open c = false -> In m (cn_members c) ->
                    vsess (cs_base cs) m <> Some (kd, s, true, false)) /\
  (forall n kd s, vsess (cs_base cs) n = Some (kd, s, true, false) -> rtsp_kind kd ->
     exists c, In c (cs_conns cs) /\ cn_open c = true /\ cn_members c = [n] /\
               ((kd = KRtspPub /\ cn_pub c = Some n /\ cn_sub c = None) \/ (kd = KRtspSub /\ cn_pub c = None /\ cn_sub c = Some n))).
Proof.
  intros cf h cs. pose proof (shell_inv_run cf h init_cstate shell_inv_init) as H. fold cs in H. split.
  - intros c m kd s Hc Ho Hm. exact (sh_closed _ H c Hc Ho m kd s Hm).
  - intros n kd s Hv Hk. pose proof (sh_owned _ H n kd s Hv Hk) as Hin. apply in_all_members in Hin.
    destruct Hin as [c [Hc Hm]]. exists c. split; [assumption|].
    destruct (cn_open c) eqn:Eo; [|exfalso; exact (sh_closed _ H c Hc Eo n kd s Hm Hv)].
    split; [reflexivity|]. destruct (sh_open _ H c Hc Eo) as [n1 [kd1 [s1 [M [V1 F]]]]].
    rewrite M in Hm. destruct Hm as [<-|[]]. rewrite V1 in Hv. inversion Hv; subst. split; assumption.
Qed.

(* before the repair: the first publisher survives the end of its connection *)
Definition fc032_history : list cevent := [CE (ERtspPub 1 1 false); CAnnounce 1 1 2 false].
Lemma conn_end_refuted_unrepaired :
  exists cf h c m kd s,
    let cs := fst (crun false fixed_tree cf init_cstate h) in
    In c (cs_conns cs) /\ cn_open c = false /\ In m (cn_members c) /\ vsess (cs_base cs) m = Some (kd, s, true, false) /\
    exists g, get_group (cs_base cs) s = Some g /\ stat_pub g = Some m.
Proof.
  exists (mk_config false 0), fc032_history. eexists. exists 1. eexists. eexists. cbv zeta.
  split; [vm_compute; left; reflexivity|]. split; [reflexivity|]. split; [left; reflexivity|]. split; [vm_compute; reflexivity|].
  eexists. split; [vm_compute; reflexivity|reflexivity].
Qed.

(* ---- the C03 theorems about admission histories, read on connection-level histories ---------------------- *)
Theorem shell_history : forall fsh cf h,
  exists es, run fixed_tree cf init_state es =
             (cs_base (fst (crun fsh fixed_tree cf init_cstate h)), snd (crun fsh fixed_tree cf init_cstate h)).
Proof. intros. exact (crun_sim fsh fixed_tree cf h init_cstate). Qed.

Theorem shell_notifications : forall fsh cf h n,
  word (snd (crun fsh fixed_tree cf init_cstate h)) (WConn n)
  = conn_word (vsess (cs_base (fst (crun fsh fixed_tree cf init_cstate h))) n).
Proof.
  intros fsh cf h n. destruct (shell_history fsh cf h) as [es He].
  pose proof (notifications_conn cf es n) as Hn. rewrite He in Hn. exact Hn.
Qed.

Theorem shell_single_input : forall fsh cf h s g,
  get_group (cs_base (fst (crun fsh fixed_tree cf init_cstate h))) s = Some g -> (occupied g <= 1)%nat.
Proof.
  intros fsh cf h s g Hg. destruct (shell_history fsh cf h) as [es He].
  pose proof (run_reachable fixed_tree cf es init_state (reach_init _ _)) as Hr. rewrite He in Hr. cbn [fst] in Hr.
  exact (single_input fixed_tree cf _ eq_refl eq_refl Hr s g Hg).
Qed.

Theorem shell_stat_attached : forall fsh cf h s g,
  let st := cs_base (fst (crun fsh fixed_tree cf init_cstate h)) in
  get_group st s = Some g ->
  (forall n, stat_pub g = Some n ->
     exists kd, vsess st n = Some (kd, s, true, false) /\ (g_rtmp g = Some n \/ g_rtsp g = Some n \/ g_ps g = Some n)) /\
  (forall n, In n (stat_subs g) -> exists kd k, subk_of kd = Some k /\ In (k, n) (g_subs g) /\ vsess st n = Some (kd, s, true, false)).
Proof.
  intros fsh cf h s g st Hg. destruct (shell_history fsh cf h) as [es He].
  pose proof (stat_lists_attached cf es s g) as Hs. cbv zeta in Hs. rewrite He in Hs. exact (Hs Hg).
Qed.

(* ---- a further publish / play command on an RTMP connection ------------------------------------------- *)
(* The command is refused, and its effect is exactly the departure of the session from the stream it
   was admitted to: the stream [s] and the kind [pb] of the refused command play no part.  With
   [shell_stat_attached] / [shell_notifications]: the session is listed nowhere afterwards and its
   stop has been notified. *)
Theorem rtmp_cmd_departs : forall fsh fx cf cs s pb n x,
  find_sess n (st_sess (cs_base cs)) = Some x -> (s_kind x = KRtmpPub \/ s_kind x = KRtmpSub) ->
  s_acc x = true -> s_gone x = false -> s_closed x = false ->
  let '(cs1, r, ns) := cstep fsh fx cf cs (CRtmpCmd s n pb) in
  r = RRef /\
  cs_base cs1 = fst (fst (step fx cf (cs_base cs) (EGone n))) /\ ns = snd (step fx cf (cs_base cs) (EGone n)) /\
  cs_conns cs1 = cs_conns cs /\
  vsess (cs_base cs1) n = Some (s_kind x, s_stream x, true, true).
Proof.
  intros fsh fx cf cs s pb n x Hx Hk Ha Hg Hc. cbn [cstep]. rewrite Hx.
  assert (Hv : vsess (cs_base cs) n = Some (s_kind x, s_stream x, true, false)).
  { rewrite (vsess_find _ _ _ Hx). unfold core. rewrite Ha, Hg. reflexivity. }
  pose proof (egone_rtmp fx cf (cs_base cs) n _ _ _ Hv Hk) as He.
  destruct Hk as [Hk|Hk]; rewrite Hk in *; rewrite Ha, Hg, Hc; cbn [negb orb];
    destruct (step fx cf (cs_base cs) (EGone n)) as [[st1 r] ns]; cbn [fst snd cs_base cs_conns] in *; repeat split; exact He.
Qed.

Lemma crun_app : forall fsh fx cf h1 h2 cs,
  crun fsh fx cf cs (h1 ++ h2) =
  (fst (crun fsh fx cf (fst (crun fsh fx cf cs h1)) h2),
   snd (crun fsh fx cf cs h1) ++ snd (crun fsh fx cf (fst (crun fsh fx cf cs h1)) h2)).
Proof.
  intros fsh fx cf h1. induction h1 as [|e t IH]; intros h2 cs; simpl.
  - destruct (crun fsh fx cf cs h2); reflexivity.
  - destruct (cstep fsh fx cf cs e) as [[cs1 r] ns]. rewrite IH.
    destruct (crun fsh fx cf cs1 t) as [a b]. simpl. destruct (crun fsh fx cf a h2) as [c d]. simpl. rewrite app_assoc. reflexivity.
Qed.

(* after any history, a further publish / play command on the connection of an admitted live RTMP
   session - naming any stream - leaves that session listed by no stream's stat and, by
   [shell_notifications], with its stop notified *)
Theorem rtmp_cmd_unlisted : forall fsh cf h s pb n x,
  let cs := fst (crun fsh fixed_tree cf init_cstate h) in
  find_sess n (st_sess (cs_base cs)) = Some x -> (s_kind x = KRtmpPub \/ s_kind x = KRtmpSub) ->
  s_acc x = true -> s_gone x = false -> s_closed x = false ->
  let cs1 := fst (crun fsh fixed_tree cf init_cstate (h ++ [CRtmpCmd s n pb])) in
  vsess (cs_base cs1) n = Some (s_kind x, s_stream x, true, true) /\
  forall s' g, get_group (cs_base cs1) s' = Some g -> stat_pub g <> Some n /\ ~ In n (stat_subs g).
Proof.
  intros fsh cf h s pb n x cs Hx Hk Ha Hg Hc cs1.
  assert (Hv : vsess (cs_base cs1) n = Some (s_kind x, s_stream x, true, true)).
  { unfold cs1. rewrite crun_app. cbn [fst crun]. fold cs.
    pose proof (rtmp_cmd_departs fsh fixed_tree cf cs s pb n x Hx Hk Ha Hg Hc) as H.
    destruct (cstep fsh fixed_tree cf cs (CRtmpCmd s n pb)) as [[c1 r] ns]. cbn [fst]. destruct H as [_ [_ [_ [_ H]]]]. exact H. }
  split; [exact Hv|]. intros s' g Hgr.
  pose proof (shell_stat_attached fsh cf (h ++ [CRtmpCmd s n pb]) s' g) as Hs. cbv zeta in Hs. fold cs1 in Hs.
  destruct (Hs Hgr) as [Hp Hsub]. split.
  - intros E. destruct (Hp n E) as [kd [V _]]. rewrite Hv in V. discriminate V.
  - intros E. destruct (Hsub n E) as [kd [k [_ [_ V]]]]. rewrite Hv in V. discriminate V.
Qed.
