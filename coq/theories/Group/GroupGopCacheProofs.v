(* The GOP ring of pkg/remux/gop_cache.go refines a plain queue of GOPs:
   after any feed sequence the cache holds exactly the most recent
   min(gop_num, #gops) GOPs, oldest first, each cut at the frame cap. *)
From Lal Require Import Group.GroupGopCache.
From Coq Require Import List Arith Bool Lia NArith.
Import ListNotations.

Section Spec.
Variable A : Type.

(* all GOPs since the last Clear, oldest first: a key frame opens a GOP, other
   frames go to the newest GOP while it holds at most [max] entries (max = 0:
   unlimited); frames before the first key frame are not cached *)
Definition gops_feed (max : nat) (acc : list (list A)) (c : mclass) (b : A) : list (list A) :=
  match c with
  | MKey => acc ++ [[b]]
  | MOther =>
      match rev acc with
      | [] => acc
      | lastg :: before =>
          if Nat.leb (length lastg) max || Nat.eqb max 0
          then rev before ++ [lastg ++ [b]] else acc
      end
  | _ => acc
  end.

Definition lastn {B} (n : nat) (l : list B) : list B := skipn (length l - n) l.

End Spec.
Arguments gops_feed {A}. 

(* modular arithmetic on the ring indices *)
Lemma mod_add_inj f a b s : a < s -> b < s -> (f + a) mod s = (f + b) mod s -> a = b.
Proof.
  intros Ha Hb H.
  assert (Hs : s <> 0) by lia.
  pose proof (Nat.div_mod (f + a) s Hs) as E1.
  pose proof (Nat.div_mod (f + b) s Hs) as E2.
  pose proof (Nat.mod_upper_bound (f + a) s Hs) as B1.
  rewrite H in E1.
  assert (Hq : (f + a) / s = (f + b) / s \/ (f + a) / s = S ((f + b) / s) \/ (f + b) / s = S ((f + a) / s)) by nia.
  destruct Hq as [Hq|[Hq|Hq]]; rewrite Hq in *; nia.
Qed.

Lemma mod_wrap s x : 0 < s -> x < 2 * s -> x mod s = if Nat.ltb x s then x else x - s.
Proof.
  intros Hs Hx. destruct (Nat.ltb_spec x s) as [H|H].
  - now apply Nat.mod_small.
  - replace x with ((x - s) + 1 * s) at 1 by lia. rewrite Nat.mod_add by lia. apply Nat.mod_small. lia.
Qed.

Section Lists.
Context {B : Type}.
Lemma set_nth_length i (x : B) l : length (set_nth i x l) = length l.
Proof. revert i; induction l as [|h t IH]; intro i; destruct i; cbn; auto. Qed.
Lemma nth_set_nth_eq i (x d : B) l : i < length l -> nth i (set_nth i x l) d = x.
Proof. revert i; induction l as [|h t IH]; intros i Hi; cbn in Hi; [lia|]. destruct i; cbn; [reflexivity|apply IH; lia]. Qed.
Lemma nth_set_nth_neq i j (x d : B) l : i <> j -> nth j (set_nth i x l) d = nth j l d.
Proof.
  revert i j; induction l as [|h t IH]; intros i j Hij; [destruct i; reflexivity|].
  destruct i, j; cbn; try reflexivity; try lia. apply IH. lia.
Qed.
End Lists.

Section Refinement.
Variable A : Type.
Implicit Types g : gop_cache A.

Record ring_inv g (G : list (list A)) : Prop := {
  ri_size : 0 < gc_size g;
  ri_len : length (gc_ring g) = gc_size g;
  ri_first : gc_first g < gc_size g;
  ri_last : gc_last g < gc_size g;
  ri_count : gc_count g = Nat.min (length G) (gc_size g - 1);
  ri_data : forall i, i < gc_count g ->
      nth ((gc_first g + i) mod gc_size g) (gc_ring g) [] = nth (length G - gc_count g + i) G []
}.

Lemma count_wrap g : 0 < gc_size g -> gc_first g < gc_size g -> gc_last g < gc_size g ->
  gc_count g = if Nat.leb (gc_first g) (gc_last g) then gc_last g - gc_first g
               else gc_last g + gc_size g - gc_first g.
Proof.
  intros Hs Hf Hl. unfold gc_count. rewrite mod_wrap by lia.
  destruct (Nat.ltb_spec (gc_last g + gc_size g - gc_first g) (gc_size g));
  destruct (Nat.leb_spec (gc_first g) (gc_last g)); lia.
Qed.

Lemma ring_inv_new gop_num max : ring_inv (gc_new gop_num max) [].
Proof.
  constructor; cbn [gc_new gc_size gc_ring gc_first gc_last]; try lia.
  - now rewrite repeat_length.
  - unfold gc_count. cbn [gc_new gc_size gc_first gc_last]. rewrite Nat.add_0_l, Nat.sub_0_r, Nat.mod_same by lia. reflexivity.
  - intros i Hi. unfold gc_count in Hi. cbn [gc_new gc_size gc_first gc_last] in Hi.
    rewrite Nat.add_0_l, Nat.sub_0_r, Nat.mod_same in Hi by lia. lia.
Qed.

Lemma ring_inv_clear g G : ring_inv g G -> ring_inv (gc_clear g) [].
Proof.
  intros [Hs Hlen Hf Hl Hc Hd]. constructor; cbn [gc_clear gc_size gc_ring gc_first gc_last]; try lia.
  - unfold gc_count. cbn [gc_clear gc_size gc_first gc_last]. rewrite Nat.add_0_l, Nat.sub_0_r, Nat.mod_same by lia. reflexivity.
  - intros i Hi. unfold gc_count in Hi. cbn [gc_clear gc_size gc_first gc_last] in Hi.
    rewrite Nat.add_0_l, Nat.sub_0_r, Nat.mod_same in Hi by lia. lia.
Qed.

Lemma nth_app_last {B} (l : list B) x d : nth (length l) (l ++ [x]) d = x.
Proof. rewrite app_nth2 by lia. now rewrite Nat.sub_diag. Qed.

Definition wrap (s x : nat) : nat := if Nat.ltb x s then x else x - s.

Lemma mod_wrap' s x : 0 < s -> x < 2 * s -> x mod s = wrap s x.
Proof. apply mod_wrap. Qed.

Ltac wrap_cases :=
  unfold wrap in *;
  repeat match goal with
         | |- context [Nat.ltb ?a ?b] => destruct (Nat.ltb_spec a b)
         | H : context [Nat.ltb ?a ?b] |- _ => destruct (Nat.ltb_spec a b)
         | |- context [Nat.leb ?a ?b] => destruct (Nat.leb_spec a b)
         | H : context [Nat.leb ?a ?b] |- _ => destruct (Nat.leb_spec a b)
         | |- context [Nat.eqb ?a ?b] => destruct (Nat.eqb_spec a b)
         | H : context [Nat.eqb ?a ?b] |- _ => destruct (Nat.eqb_spec a b)
         end.

(* the arithmetic core, on plain numbers *)
Lemma new_gop_arith f l s cnt :
  1 < s -> f < s -> l < s ->
  cnt = (if Nat.leb f l then l - f else l + s - f) ->
  let l' := wrap s (l + 1) in
  let full := Nat.eqb l' f in
  let f' := if full then wrap s (f + 1) else f in
  let cnt' := if full then cnt else S cnt in
  l' < s /\ f' < s /\
  full = Nat.eqb cnt (s - 1) /\
  cnt' = (if Nat.leb f' l' then l' - f' else l' + s - f') /\
  (forall i, i < cnt' -> (wrap s (f' + i) = l <-> i = cnt' - 1)) /\
  (forall i, i < cnt' -> i <> cnt' - 1 -> wrap s (f' + i) = wrap s (f + (if full then S i else i))).
Proof.
  intros Hs Hf Hl Hc. cbv zeta.
  repeat split; try (intros i Hi); try (intros Hne); subst cnt; wrap_cases; try lia.
Qed.

Lemma ring_inv_new_gop g G b : 1 < gc_size g ->
  ring_inv g G -> ring_inv (gc_feed_new_gop g b) (G ++ [[b]]).
Proof.
  intros Hs1 [Hs Hlen Hf Hl Hc Hd].
  pose proof (count_wrap g Hs Hf Hl) as Hcw.
  destruct (new_gop_arith (gc_first g) (gc_last g) (gc_size g) (gc_count g) Hs1 Hf Hl Hcw)
    as (Hl' & Hf' & Hfull & Hcnt' & Hnewest & Hold).
  unfold gc_feed_new_gop, gc_is_full.
  rewrite (mod_wrap' (gc_size g) (gc_last g + 1)) by lia.
  rewrite (mod_wrap' (gc_size g) (gc_first g + 1)) by lia.
  set (l' := wrap (gc_size g) (gc_last g + 1)) in *.
  set (full := Nat.eqb l' (gc_first g)) in *.
  set (f' := if full then wrap (gc_size g) (gc_first g + 1) else gc_first g) in *.
  set (cnt' := if full then gc_count g else S (gc_count g)) in *.
  set (g' := gc_with_ring g (set_nth (gc_last g) [b] (gc_ring g)) f' l').
  assert (Hcg' : gc_count g' = cnt').
  { rewrite (count_wrap g') by (cbn; assumption). cbn [g' gc_with_ring gc_first gc_last gc_size]. now rewrite Hcnt'. }
  assert (Hcb : cnt' < gc_size g) by (rewrite Hcnt'; wrap_cases; lia).
  constructor; cbn [g' gc_with_ring gc_size gc_ring gc_first gc_last]; try assumption.
  - now rewrite set_nth_length.
  - fold g'. rewrite Hcg', app_length. cbn [length]. unfold cnt'. rewrite Hfull.
    destruct (Nat.eqb_spec (gc_count g) (gc_size g - 1)); lia.
  - fold g'. rewrite Hcg'. intros i Hi. rewrite app_length. cbn [length].
    rewrite mod_wrap' by lia.
    destruct (Nat.eq_dec i (cnt' - 1)) as [Ei|Ei].
    + rewrite (proj2 (Hnewest i Hi) Ei). rewrite nth_set_nth_eq by lia.
      replace (length G + 1 - cnt' + i) with (length G).
      * now rewrite nth_app_last.
      * unfold cnt' in *. rewrite Hfull in *. destruct (Nat.eqb_spec (gc_count g) (gc_size g - 1)); lia.
    + rewrite nth_set_nth_neq by (intro E; apply Ei, (Hnewest i Hi); now symmetry).
      assert (Hi_old : (if full then S i else i) < gc_count g) by (unfold cnt' in *; destruct full; lia).
      rewrite app_nth1 by (unfold cnt' in *; rewrite Hfull in *; destruct (Nat.eqb_spec (gc_count g) (gc_size g - 1)); lia).
      specialize (Hd _ Hi_old). rewrite mod_wrap' in Hd by lia.
      rewrite (Hold i Hi Ei). rewrite Hd. f_equal.
      unfold cnt' in *. rewrite Hfull in *. destruct (Nat.eqb_spec (gc_count g) (gc_size g - 1)); lia.
Qed.

Lemma ring_inv_last_gop g G b : 1 < gc_size g ->
  ring_inv g G ->
  ring_inv (fst (gc_feed_last_gop g b)) (gops_feed (gc_max g) G MOther b).
Proof.
  intros Hs1 Hinv. pose proof Hinv as [Hs Hlen Hf Hl Hc Hd].
  pose proof (count_wrap g Hs Hf Hl) as Hcw.
  unfold gc_feed_last_gop, gc_is_empty, gops_feed.
  destruct (Nat.eqb_spec (gc_first g) (gc_last g)) as [Hemp|Hne].
  - (* empty ring: no GOP at all *)
    cbn [fst].
    assert (Hc0 : gc_count g = 0) by (rewrite Hcw; wrap_cases; lia).
    assert (HG : G = []) by (rewrite Hc0 in Hc; destruct G; [reflexivity|cbn [length] in Hc; lia]).
    subst G. cbn [rev]. exact Hinv.
  - assert (Hcpos : 0 < gc_count g) by (rewrite Hcw; wrap_cases; lia).
    assert (HGne : G <> []) by (intro E; subst G; cbn [length] in Hc; lia).
    destruct (exists_last HGne) as (before & lastg & HG). subst G.
    assert (Hc2 : gc_count g <= length before + 1) by (rewrite app_length in Hc; cbn [length] in Hc; lia).
    rewrite rev_unit. rewrite rev_involutive.
    rewrite mod_wrap' by lia.
    (* the slot holding the newest GOP *)
    assert (Hslot : wrap (gc_size g) (gc_last g + gc_size g - 1) = wrap (gc_size g) (gc_first g + (gc_count g - 1)))
      by (rewrite Hcw; wrap_cases; lia).
    assert (Hlastg : nth (wrap (gc_size g) (gc_last g + gc_size g - 1)) (gc_ring g) [] = lastg).
    { rewrite Hslot. specialize (Hd (gc_count g - 1)). rewrite mod_wrap' in Hd by lia. rewrite Hd by lia.
      rewrite app_length. cbn [length].
      replace (length before + 1 - gc_count g + (gc_count g - 1)) with (length before) by lia.
      apply nth_app_last. }
    rewrite Hlastg.
    destruct (Nat.leb (length lastg) (gc_max g) || Nat.eqb (gc_max g) 0); cbn [fst]; [|exact Hinv].
    assert (Hcnt : gc_count (gc_with_ring g (set_nth (wrap (gc_size g) (gc_last g + gc_size g - 1)) (lastg ++ [b]) (gc_ring g)) (gc_first g) (gc_last g)) = gc_count g) by reflexivity.
    constructor; cbn [gc_with_ring gc_size gc_ring gc_first gc_last]; try assumption.
    + now rewrite set_nth_length.
    + rewrite Hcnt, Hc. now rewrite !app_length.
    + rewrite Hcnt. intros i Hi. rewrite mod_wrap' by lia.
      rewrite app_length in *. cbn [length] in *.
      destruct (Nat.eq_dec i (gc_count g - 1)) as [Ei|Ei].
      * subst i. rewrite <- Hslot. rewrite nth_set_nth_eq by (rewrite Hlen; unfold wrap; wrap_cases; lia).
        replace (length before + 1 - gc_count g + (gc_count g - 1)) with (length before) by lia.
        now rewrite nth_app_last.
      * rewrite nth_set_nth_neq.
        2:{ rewrite Hslot. intro E. apply Ei.
            assert (Hinj : (gc_first g + (gc_count g - 1)) mod gc_size g = (gc_first g + i) mod gc_size g)
              by (rewrite !mod_wrap' by lia; exact E).
            apply mod_add_inj in Hinj; lia. }
        specialize (Hd i Hi). rewrite mod_wrap' in Hd by lia. rewrite Hd.
        rewrite !app_nth1 by lia. reflexivity.
Qed.

(* dropping every cached GOP (a sequence header with new content arrived) *)
Lemma ring_inv_reset g G : ring_inv g G ->
  ring_inv {| gc_meta_w := gc_meta_w g; gc_meta_wo := gc_meta_wo g; gc_vsh := gc_vsh g; gc_ash := gc_ash g;
              gc_vsh_p := gc_vsh_p g; gc_ash_p := gc_ash_p g;
              gc_ring := gc_ring g; gc_first := 0; gc_last := 0; gc_size := gc_size g; gc_max := gc_max g |} [].
Proof.
  intros [Hs Hlen Hf Hl Hc Hd]. constructor; cbn [gc_size gc_ring gc_first gc_last]; try lia.
  - unfold gc_count. cbn [gc_size gc_first gc_last]. rewrite Nat.add_0_l, Nat.sub_0_r, Nat.mod_same by lia. reflexivity.
  - intros i Hi. unfold gc_count in Hi. cbn [gc_size gc_first gc_last] in Hi.
    rewrite Nat.add_0_l, Nat.sub_0_r, Nat.mod_same in Hi by lia. lia.
Qed.

Lemma ring_inv_hdr_fields g G v a vp ap :
  ring_inv g G ->
  ring_inv {| gc_meta_w := gc_meta_w g; gc_meta_wo := gc_meta_wo g; gc_vsh := v; gc_ash := a;
              gc_vsh_p := vp; gc_ash_p := ap;
              gc_ring := gc_ring g; gc_first := gc_first g; gc_last := gc_last g; gc_size := gc_size g; gc_max := gc_max g |} G.
Proof. intros [Hs Hlen Hf Hl Hc Hd]. constructor; assumption. Qed.

(* the queue of GOPs the cache is specified to hold after one feed *)
Definition gops_after (g : gop_cache A) (G : list (list A)) (c : mclass) (b : A) (p : list N) : list (list A) :=
  match c with
  | MVsh => if hdr_changed (gc_vsh_p g) p then [] else G
  | MAsh => if hdr_changed (gc_ash_p g) p then [] else G
  | _ => if Nat.ltb 1 (gc_size g) then gops_feed (gc_max g) G c b else G
  end.

(* every feed keeps the ring in step with the queue of GOPs *)
Theorem ring_inv_feed g G c b p :
  ring_inv g G -> ring_inv (fst (gc_feed g c b p)) (gops_after g G c b p).
Proof.
  intro Hinv. destruct c; cbn [gc_feed fst gops_after gops_feed].
  - destruct (Nat.ltb 1 (gc_size g)); exact Hinv.
  - destruct (hdr_changed (gc_ash_p g) p).
    + pose proof (ring_inv_reset g G Hinv) as H. destruct H; constructor; assumption.
    + destruct Hinv; constructor; assumption.
  - destruct (hdr_changed (gc_vsh_p g) p).
    + pose proof (ring_inv_reset g G Hinv) as H. destruct H; constructor; assumption.
    + destruct Hinv; constructor; assumption.
  - destruct (Nat.ltb_spec 1 (gc_size g)); cbn [fst]; [now apply ring_inv_new_gop|exact Hinv].
  - destruct (Nat.ltb_spec 1 (gc_size g)); cbn [fst]; [now apply ring_inv_last_gop|exact Hinv].
Qed.

(* what a fresh consumer is sent: the most recent GOPs, oldest first *)
Theorem gc_all_spec g G : ring_inv g G ->
  gc_all g = concat (lastn (gc_size g - 1) G).
Proof.
  intros [Hs Hlen Hf Hl Hc Hd]. unfold gc_all, lastn.
  assert (Hgop : forall pos, pos < gc_count g -> gc_gop_at g pos = nth (length G - gc_count g + pos) G []).
  { intros pos Hp. unfold gc_gop_at. replace (Nat.ltb pos (gc_count g)) with true by (symmetry; apply Nat.ltb_lt; lia).
    rewrite Nat.add_comm. now apply Hd. }
  replace (length G - (gc_size g - 1)) with (length G - gc_count g) by lia.
  assert (Hle : gc_count g <= length G) by lia.
  clear Hc Hd. revert Hgop Hle. generalize (gc_count g) as k. intro k.
  (* skipn (n-k) G has k elements: the last k of G *)
  intros Hgop Hle.
  assert (Hgen : forall (l : list (list A)) n, n <= length l ->
             skipn n l = map (fun i => nth (n + i) l []) (seq 0 (length l - n))).
  { induction l as [|x l IHl]; intros n Hn.
    - cbn in Hn. replace n with 0 by lia. reflexivity.
    - destruct n as [|n].
      + cbn [skipn length Nat.sub seq map plus]. f_equal.
        rewrite <- seq_shift, map_map. specialize (IHl 0 ltac:(lia)). cbn [skipn] in IHl.
        rewrite Nat.sub_0_r in IHl. rewrite IHl at 1. apply map_ext. intro i. reflexivity.
      + cbn [skipn length]. cbn [length] in Hn. rewrite IHl by lia.
        replace (S (length l) - S n) with (length l - n) by lia. apply map_ext. intro i. reflexivity. }
  assert (Hsk : skipn (length G - k) G = map (fun pos => nth (length G - k + pos) G []) (seq 0 k)).
  { rewrite Hgen by lia. replace (length G - (length G - k)) with k by lia. reflexivity. }
  rewrite Hsk. rewrite flat_map_concat_map. f_equal.
  apply map_ext_in. intros pos Hin. apply in_seq in Hin. apply Hgop. lia.
Qed.

End Refinement.

(* every GOP of the specification starts with a key frame and is cut at the cap *)
Section GopShape.
Variable A : Type.
Variable is_key : A -> Prop.

Definition gop_ok (max : nat) (g : list A) : Prop :=
  (exists b rest, g = b :: rest /\ is_key b) /\ (max = 0 \/ length g <= S max).

Lemma gops_feed_shape max G c b :
  (c = MKey -> is_key b) ->
  Forall (gop_ok max) G -> Forall (gop_ok max) (gops_feed max G c b).
Proof.
  intros Hkey HG. destruct c; cbn [gops_feed]; try exact HG.
  - apply Forall_app. split; [exact HG|]. constructor; [|constructor].
    split; [exists b, []; split; [reflexivity|now apply Hkey]|]. destruct max; [now left|right; cbn; lia].
  - destruct (rev G) as [|lastg before] eqn:Hr; [exact HG|].
    assert (HG' : G = rev before ++ [lastg]).
    { rewrite <- (rev_involutive G), Hr. reflexivity. }
    destruct (Nat.leb (length lastg) max || Nat.eqb max 0) eqn:Hc; [|exact HG].
    rewrite HG' in HG. apply Forall_app in HG. destruct HG as [Hb Hl].
    apply Forall_app. split; [exact Hb|]. constructor; [|constructor].
    inversion Hl as [|? ? Hlast _]; subst. destruct Hlast as [(b0 & rest & -> & Hk0) Hlen].
    split; [exists b0, (rest ++ [b]); split; [reflexivity|exact Hk0]|].
    apply Bool.orb_true_iff in Hc. destruct Hc as [Hc|Hc].
    + apply Nat.leb_le in Hc. destruct max; [now left|right]. rewrite app_length. cbn [length] in *. lia.
    + apply Nat.eqb_eq in Hc. now left.
Qed.
End GopShape.
