(* C02, header in force (after the repair of F-08i): over ALL histories, every
   frame an RTMP / HTTP-FLV consumer has received is preceded, in its own
   stream, by a sequence header with the content of the one that was in force
   when the frame was published.

   Ghost state ([istate]): the log of published messages, each stamped with
   the video / AAC sequence-header content in force at that moment (a function
   of the history alone: the latest header published since the input started).
   Invariant ([hinv]): the caches hold only frames published under the cached
   headers (that is what fix F-08ii gives), every consumer past its prologue
   has, as the last header it received, the one in force (that is what fix
   F-08i gives: a header published while it waits is not withheld), and every
   stream delivered so far is in order. *)
From Lal Require Import Common.LBytes Group.GroupMsg Group.GroupGopCache Group.GroupFanout
  Group.GroupGopCacheProofs Group.GroupFanoutProofs Group.GroupFanoutCacheProofs Group.GroupFanoutAdmitProofs
  Group.GroupFanoutMergeProofs Group.GroupFanoutRtspProofs.
From Coq Require Import Lia.
Open Scope N_scope.

(* ------------------------------------------------------------------ *)
(* the history-only side: which sequence headers are in force *)

Definition entry := (rmsg * option bytes * option bytes)%type.   (* message, VSH / ASH content in force when it was published *)

Record istate := mk_istate {
  is_in : bool;                 (* an input is attached *)
  is_v : option bytes;          (* content of the video sequence header in force *)
  is_a : option bytes;          (* content of the AAC sequence header in force *)
  is_log : list entry           (* one entry per EvPublish, by publish index *)
}.

Definition istate_init : istate := {| is_in := false; is_v := None; is_a := None; is_log := [] |}.

Definition next_v (m : rmsg) (v : option bytes) : option bytes :=
  match mclass_of m with MVsh => Some (rm_payload m) | _ => v end.
Definition next_a (m : rmsg) (a : option bytes) : option bytes :=
  match mclass_of m with MAsh => Some (rm_payload m) | _ => a end.

(* a published sequence header is in force until the next one, or until the
   input ends (its successor announces its own) *)
Definition istep (st : istate) (e : ev) : istate :=
  match e with
  | EvPublish m =>
      let log' := is_log st ++ [(m, is_v st, is_a st)] in
      if Nat.eqb (length (rm_payload m)) 0
      then {| is_in := is_in st; is_v := is_v st; is_a := is_a st; is_log := log' |}
      else {| is_in := is_in st; is_v := next_v m (is_v st); is_a := next_a m (is_a st); is_log := log' |}
  | EvInStart => {| is_in := true; is_v := is_v st; is_a := is_a st; is_log := is_log st |}
  | EvInStop => if is_in st then {| is_in := false; is_v := None; is_a := None; is_log := is_log st |} else st
  | EvDispose => {| is_in := false; is_v := None; is_a := None; is_log := is_log st |}
  | _ => st
  end.

Definition irun (h : list ev) : istate := fold_left istep h istate_init.

(* ------------------------------------------------------------------ *)
(* reading a consumer's stream *)

Definition label_idx (l : label) : option nat :=
  match l with LC i | LCW i | LT i => Some i | _ => None end.

Definition lookup (log : list entry) (l : label) : option entry :=
  match label_idx l with Some i => nth_error log i | None => None end.

Definition hdst := (option bytes * option bytes)%type.    (* last video / AAC sequence header received *)
Definition hd0 : hdst := (None, None).

Definition upd (log : list entry) (hd : hdst) (l : label) : hdst :=
  match lookup log l with
  | Some (m, _, _) => (next_v m (fst hd), next_a m (snd hd))
  | None => hd
  end.

Definition hdrs (log : list entry) (hd : hdst) (out : list label) : hdst := fold_left (upd log) out hd.

(* [c] is at least the header [f] in force: if one was in force, it is the one received last *)
Definition covers (c f : option bytes) : Prop := forall p, f = Some p -> c = Some p.

Definition frame_ok (m : rmsg) (fv fa : option bytes) (hd : hdst) : Prop :=
  (rm_type m = type_video -> covers (fst hd) fv) /\ (rm_type m = type_audio -> covers (snd hd) fa).

Definition lab_ok (log : list entry) (hd : hdst) (l : label) : Prop :=
  match lookup log l with
  | None => False
  | Some (m, fv, fa) => match mclass_of m with MKey | MOther => frame_ok m fv fa hd | _ => True end
  end.

Fixpoint stream_ok (log : list entry) (hd : hdst) (out : list label) : Prop :=
  match out with
  | [] => True
  | l :: t => lab_ok log hd l /\ stream_ok log (upd log hd l) t
  end.

Lemma covers_refl c : covers c c.
Proof. intros p H. exact H. Qed.

Lemma covers_none c : covers c None.
Proof. intros p H. discriminate. Qed.

Lemma hdrs_app log hd a b : hdrs log hd (a ++ b) = hdrs log (hdrs log hd a) b.
Proof. unfold hdrs. apply fold_left_app. Qed.

Lemma stream_ok_app log : forall a hd b,
  stream_ok log hd (a ++ b) <-> stream_ok log hd a /\ stream_ok log (hdrs log hd a) b.
Proof.
  induction a as [|l a IH]; intros hd b; cbn [app stream_ok hdrs fold_left].
  - tauto.
  - fold (hdrs log (upd log hd l) a). rewrite IH. tauto.
Qed.

(* the explicit reading: split the stream at any frame *)
Lemma stream_ok_split log hd a l b m fv fa :
  stream_ok log hd (a ++ l :: b) -> lookup log l = Some (m, fv, fa) -> is_hdr_msg m = false ->
  frame_ok m fv fa (hdrs log hd a).
Proof.
  intros H Hl Hh. apply stream_ok_app in H. destruct H as [_ H]. cbn [stream_ok] in H. destruct H as [H _].
  unfold lab_ok in H. rewrite Hl in H.
  unfold is_hdr_msg in Hh. unfold mclass_of in H.
  destruct (rm_type m =? type_metadata); [discriminate|].
  destruct (is_aac_seq_header m); [rewrite Bool.orb_true_r in Hh; discriminate|].
  destruct (is_video_key_seq_header m); [discriminate|].
  destruct (is_video_key_nalu m); exact H.
Qed.

Lemma hdr_class m :
  is_hdr_msg m = match mclass_of m with MMeta | MAsh | MVsh => true | _ => false end.
Proof.
  unfold is_hdr_msg, mclass_of.
  destruct (rm_type m =? type_metadata); [reflexivity|].
  destruct (is_aac_seq_header m); [now rewrite Bool.orb_true_r|].
  destruct (is_video_key_seq_header m); [reflexivity|].
  destruct (is_video_key_nalu m); reflexivity.
Qed.

(* the log only grows: labels that resolve keep their meaning *)
Lemma lookup_grow log x l e : lookup log l = Some e -> lookup (log ++ x) l = Some e.
Proof.
  unfold lookup. destruct (label_idx l) as [i|]; [|discriminate].
  intro H. rewrite nth_error_app1; [exact H|]. apply nth_error_Some. congruence.
Qed.

Lemma lab_ok_lookup log hd l : lab_ok log hd l -> exists e, lookup log l = Some e.
Proof. unfold lab_ok. destruct (lookup log l) as [e|]; [eauto|tauto]. Qed.

Lemma stream_grow log x : forall out hd,
  stream_ok log hd out -> stream_ok (log ++ x) hd out /\ hdrs (log ++ x) hd out = hdrs log hd out.
Proof.
  induction out as [|l out IH]; intros hd H; [split; [exact I|reflexivity]|].
  cbn [stream_ok] in H. destruct H as [Hl Ht].
  destruct (lab_ok_lookup _ _ _ Hl) as [e He].
  assert (Hu : upd (log ++ x) hd l = upd log hd l).
  { unfold upd. now rewrite (lookup_grow log x l e He), He. }
  destruct (IH _ Ht) as [I1 I2].
  cbn [stream_ok hdrs fold_left]. rewrite Hu. split; [split|exact I2]; [|exact I1].
  unfold lab_ok in *. rewrite (lookup_grow log x l e He). now rewrite He in Hl.
Qed.

Lemma stream_ok_prefix log hd a b : stream_ok log hd (a ++ b) -> stream_ok log hd a.
Proof. intro H. now apply stream_ok_app in H. Qed.

(* ------------------------------------------------------------------ *)
(* what the caches may hold *)

Definition entry_ok (log : list entry) (vp ap : option bytes) (l : label) : Prop :=
  exists m fv fa, lookup log l = Some (m, fv, fa) /\ (mclass_of m = MKey \/ mclass_of m = MOther) /\
                  covers vp fv /\ covers ap fa.

Definition hdr_lab_ok (log : list entry) (cls : mclass) (lab : option label) (p : option bytes) : Prop :=
  match lab, p with
  | None, None => True
  | Some l, Some q => exists m fv fa, lookup log l = Some (m, fv, fa) /\ mclass_of m = cls /\ rm_payload m = q
  | _, _ => False
  end.

Definition cspec_ok (log : list entry) (iv ia : option bytes) (sp : cspec) : Prop :=
  sp_vsh_p sp = iv /\ sp_ash_p sp = ia /\
  hdr_lab_ok log MVsh (sp_vsh sp) (sp_vsh_p sp) /\ hdr_lab_ok log MAsh (sp_ash sp) (sp_ash_p sp) /\
  (forall l, sp_meta_wo sp = Some l -> exists m fv fa, lookup log l = Some (m, fv, fa) /\ mclass_of m = MMeta) /\
  Forall (Forall (entry_ok log iv ia)) (sp_gops sp).

Lemma cspec_ok_init log : cspec_ok log None None cspec_init.
Proof. unfold cspec_ok, cspec_init. cbn. repeat split; try constructor. intros l H. discriminate. Qed.

Lemma entry_ok_grow log x vp ap l : entry_ok log vp ap l -> entry_ok (log ++ x) vp ap l.
Proof. intros (m & fv & fa & H1 & H2). exists m, fv, fa. split; [now apply lookup_grow|exact H2]. Qed.

Lemma hdr_lab_ok_grow log x cls lab p : hdr_lab_ok log cls lab p -> hdr_lab_ok (log ++ x) cls lab p.
Proof.
  unfold hdr_lab_ok. destruct lab, p; try tauto.
  intros (m & fv & fa & H1 & H2). exists m, fv, fa. split; [now apply lookup_grow|exact H2].
Qed.

Lemma Forall2_impl {A} (P Q : A -> Prop) (G : list (list A)) :
  (forall a, P a -> Q a) -> Forall (Forall P) G -> Forall (Forall Q) G.
Proof. intros H HG. eapply Forall_impl; [|exact HG]. intros g Hg. eapply Forall_impl; [|exact Hg]. exact H. Qed.

Lemma cspec_ok_grow log x iv ia sp : cspec_ok log iv ia sp -> cspec_ok (log ++ x) iv ia sp.
Proof.
  intros (H1 & H2 & H3 & H4 & H5 & H6). unfold cspec_ok.
  split; [exact H1|]. split; [exact H2|]. split; [now apply hdr_lab_ok_grow|]. split; [now apply hdr_lab_ok_grow|]. split.
  - intros l Hl. destruct (H5 l Hl) as (m & fv & fa & E1 & E2). exists m, fv, fa. split; [now apply lookup_grow|exact E2].
  - eapply Forall2_impl; [|exact H6]. intros a. apply entry_ok_grow.
Qed.

Lemma gops_feed_Forall {A} (P : A -> Prop) max G c b :
  P b -> Forall (Forall P) G -> Forall (Forall P) (gops_feed max G c b).
Proof.
  intros Hb HG. destruct c; cbn [gops_feed]; try exact HG.
  - apply Forall_app. split; [exact HG|]. repeat constructor. exact Hb.
  - destruct (rev G) as [|lastg before] eqn:Hr; [exact HG|].
    assert (HG' : G = rev before ++ [lastg]) by (rewrite <- (rev_involutive G), Hr; reflexivity).
    destruct (_ || _); [|exact HG].
    rewrite HG' in HG. apply Forall_app in HG. destruct HG as [H1 H2].
    apply Forall_app. split; [exact H1|]. constructor; [|constructor].
    inversion H2; subst. apply Forall_app. split; [assumption|]. repeat constructor. exact Hb.
Qed.

Lemma payload_eqb_eq : forall a b, payload_eqb a b = true -> a = b.
Proof.
  induction a as [|x a IH]; destruct b as [|y b]; cbn [payload_eqb]; try discriminate; [reflexivity|].
  intro H. apply Bool.andb_true_iff in H. destruct H as [H1 H2]. apply N.eqb_eq in H1. f_equal; [exact H1|now apply IH].
Qed.

(* a header that does not drop the GOPs has the content of its predecessor, or had none *)
Lemma covers_unchanged prev p f : hdr_changed prev p = false -> covers prev f -> covers (Some p) f.
Proof.
  unfold hdr_changed. destruct prev as [q|].
  - intro H. apply Bool.negb_false_iff in H. apply payload_eqb_eq in H. now subst.
  - intros _ Hc q Hf. specialize (Hc q Hf). discriminate.
Qed.

(* one non-empty message fed to a cache whose items for it are [b] / [wo] *)
Lemma cspec_ok_feed gop_num max log iv ia sp m b w wo :
  cspec_ok log iv ia sp ->
  label_idx b = Some (length log) -> label_idx wo = Some (length log) ->
  cspec_ok (log ++ [(m, iv, ia)]) (next_v m iv) (next_a m ia)
           (cspec_feed gop_num max sp (mclass_of m) b w wo (rm_payload m)).
Proof.
  intros Hok Hb Hwo.
  apply (cspec_ok_grow log [(m, iv, ia)]) in Hok.
  set (log' := log ++ [(m, iv, ia)]) in *.
  assert (Lb : lookup log' b = Some (m, iv, ia)).
  { unfold lookup, log'. rewrite Hb. rewrite nth_error_app2 by lia. now rewrite Nat.sub_diag. }
  assert (Lwo : lookup log' wo = Some (m, iv, ia)).
  { unfold lookup, log'. rewrite Hwo. rewrite nth_error_app2 by lia. now rewrite Nat.sub_diag. }
  destruct Hok as (H1 & H2 & H3 & H4 & H5 & H6).
  unfold cspec_ok, cspec_feed, next_v, next_a.
  cbn [sp_meta_w sp_meta_wo sp_vsh sp_ash sp_vsh_p sp_ash_p sp_gops].
  destruct (mclass_of m) eqn:Hc.
  - (* metadata *)
    split; [exact H1|]. split; [exact H2|]. split; [exact H3|]. split; [exact H4|]. split.
    + intros l Hl. inversion Hl; subst l. exists m, iv, ia. split; [exact Lwo|exact Hc].
    + destruct (Nat.ltb 0 gop_num); exact H6.
  - (* AAC sequence header *)
    split; [exact H1|]. split; [reflexivity|]. split; [exact H3|]. split.
    { cbn [hdr_lab_ok]. exists m, iv, ia. split; [exact Lb|]. split; [exact Hc|reflexivity]. }
    split; [exact H5|].
    destruct (hdr_changed (sp_ash_p sp) (rm_payload m)) eqn:Hch; [constructor|].
    eapply Forall2_impl; [|exact H6]. intros l (m0 & fv & fa & E1 & E2 & E3 & E4).
    exists m0, fv, fa. split; [exact E1|]. split; [exact E2|]. split; [exact E3|].
    rewrite H2 in Hch. eapply covers_unchanged; eassumption.
  - (* video sequence header *)
    split; [reflexivity|]. split; [exact H2|]. split.
    { cbn [hdr_lab_ok]. exists m, iv, ia. split; [exact Lb|]. split; [exact Hc|reflexivity]. }
    split; [exact H4|]. split; [exact H5|].
    destruct (hdr_changed (sp_vsh_p sp) (rm_payload m)) eqn:Hch; [constructor|].
    eapply Forall2_impl; [|exact H6]. intros l (m0 & fv & fa & E1 & E2 & E3 & E4).
    exists m0, fv, fa. split; [exact E1|]. split; [exact E2|]. split; [|exact E4].
    rewrite H1 in Hch. eapply covers_unchanged; eassumption.
  - (* key frame *)
    split; [exact H1|]. split; [exact H2|]. split; [exact H3|]. split; [exact H4|]. split; [exact H5|].
    destruct (Nat.ltb 0 gop_num); [|exact H6]. apply gops_feed_Forall; [|exact H6].
    exists m, iv, ia. split; [exact Lb|]. split; [now left|]. split; apply covers_refl.
  - (* other frame *)
    split; [exact H1|]. split; [exact H2|]. split; [exact H3|]. split; [exact H4|]. split; [exact H5|].
    destruct (Nat.ltb 0 gop_num); [|exact H6]. apply gops_feed_Forall; [|exact H6].
    exists m, iv, ia. split; [exact Lb|]. split; [now right|]. split; apply covers_refl.
Qed.

(* cached frames replayed after the cached headers: in order, and the headers stay the last ones *)
Lemma entries_stream log cv ca : forall ls,
  Forall (entry_ok log cv ca) ls -> stream_ok log (cv, ca) ls /\ hdrs log (cv, ca) ls = (cv, ca).
Proof.
  induction ls as [|l ls IH]; intro H; [split; [exact I|reflexivity]|].
  inversion H as [|? ? (m & fv & fa & E1 & E2 & E3 & E4) Ht]; subst.
  assert (Hu : upd log (cv, ca) l = (cv, ca)).
  { unfold upd, next_v, next_a. rewrite E1. cbn [fst snd]. destruct E2 as [-> | ->]; reflexivity. }
  cbn [stream_ok hdrs fold_left]. rewrite Hu. destruct (IH Ht) as [I1 I2]. split; [split; [|exact I1]|exact I2].
  unfold lab_ok. rewrite E1. unfold frame_ok. cbn [fst snd].
  destruct E2 as [-> | ->]; split; intros _; assumption.
Qed.

(* the start-up prologue: metadata, headers, the cached GOPs *)
Lemma prologue_stream gop_num log iv ia sp :
  cspec_ok log iv ia sp ->
  stream_ok log hd0 (spec_prologue gop_num sp false) /\ hdrs log hd0 (spec_prologue gop_num sp false) = (iv, ia).
Proof.
  intros (H1 & H2 & H3 & H4 & H5 & H6). unfold spec_prologue.
  (* metadata *)
  assert (M : stream_ok log hd0 (opt_list (sp_meta_wo sp)) /\ hdrs log hd0 (opt_list (sp_meta_wo sp)) = hd0).
  { destruct (sp_meta_wo sp) as [l|] eqn:Hm; [|split; [exact I|reflexivity]].
    destruct (H5 l eq_refl) as (m & fv & fa & E1 & E2).
    cbn [opt_list stream_ok hdrs fold_left]. unfold lab_ok, upd, next_v, next_a. rewrite E1, E2. cbn. repeat split. }
  (* video header *)
  assert (V : stream_ok log hd0 (opt_list (sp_vsh sp)) /\ hdrs log hd0 (opt_list (sp_vsh sp)) = (iv, None)).
  { unfold hdr_lab_ok in H3. rewrite H1 in H3. destruct (sp_vsh sp) as [l|], iv as [q|]; try tauto; try (split; [exact I|reflexivity]).
    destruct H3 as (m & fv & fa & E1 & E2 & E3).
    cbn [opt_list stream_ok hdrs fold_left]. unfold lab_ok, upd, next_v, next_a. rewrite E1, E2, E3. cbn. repeat split. }
  (* AAC header *)
  assert (A : stream_ok log (iv, None) (opt_list (sp_ash sp)) /\ hdrs log (iv, None) (opt_list (sp_ash sp)) = (iv, ia)).
  { unfold hdr_lab_ok in H4. rewrite H2 in H4. destruct (sp_ash sp) as [l|], ia as [q|]; try tauto; try (split; [exact I|reflexivity]).
    destruct H4 as (m & fv & fa & E1 & E2 & E3).
    cbn [opt_list stream_ok hdrs fold_left]. unfold lab_ok, upd, next_v, next_a. rewrite E1, E2, E3. cbn. repeat split. }
  (* GOPs *)
  assert (G : Forall (entry_ok log iv ia) (concat (lastn gop_num (sp_gops sp)))).
  { unfold lastn. apply Forall_concat.
    rewrite <- (firstn_skipn (length (sp_gops sp) - gop_num) (sp_gops sp)) in H6.
    apply Forall_app in H6. apply H6. }
  destruct (entries_stream log iv ia _ G) as [G1 G2].
  destruct M as [M1 M2], V as [V1 V2], A as [A1 A2].
  split.
  - apply stream_ok_app. split; [exact M1|]. rewrite M2.
    apply stream_ok_app. split; [exact V1|]. rewrite V2.
    apply stream_ok_app. split; [exact A1|]. rewrite A2. exact G1.
  - rewrite !hdrs_app, M2, V2, A2. exact G2.
Qed.

(* ------------------------------------------------------------------ *)
(* one more unit at the end of a stream that is in step with the headers in force *)

Definition synced (iv ia : option bytes) (hd : hdst) : Prop := covers (fst hd) iv /\ covers (snd hd) ia.

Lemma synced_none hd : synced None None hd.
Proof. split; apply covers_none. Qed.

Lemma deliver_ok log iv ia m l base (deliver : bool) :
  label_idx l = Some (length log) ->
  stream_ok log hd0 base -> synced iv ia (hdrs log hd0 base) ->
  (deliver = false -> is_hdr_msg m = false) ->
  let log' := log ++ [(m, iv, ia)] in
  let out := base ++ (if deliver then [l] else []) in
  stream_ok log' hd0 out /\ synced (next_v m iv) (next_a m ia) (hdrs log' hd0 out).
Proof.
  intros Hl Hs Hy Hd. cbv zeta.
  destruct (stream_grow log [(m, iv, ia)] base hd0 Hs) as [G1 G2].
  set (log' := log ++ [(m, iv, ia)]) in *.
  destruct Hy as [Yv Ya].
  destruct deliver.
  - assert (L : lookup log' l = Some (m, iv, ia)).
    { unfold lookup, log'. rewrite Hl. rewrite nth_error_app2 by lia. now rewrite Nat.sub_diag. }
    split.
    + apply stream_ok_app. split; [exact G1|]. rewrite G2. cbn [stream_ok]. split; [|exact I].
      unfold lab_ok. rewrite L. destruct (mclass_of m); try exact I; split; intros _; assumption.
    + rewrite hdrs_app, G2. cbn [hdrs fold_left]. unfold upd. rewrite L. unfold synced, next_v, next_a. cbn [fst snd].
      destruct (mclass_of m); split; try assumption; apply covers_refl.
  - rewrite app_nil_r. specialize (Hd eq_refl). rewrite hdr_class in Hd.
    split; [exact G1|]. rewrite G2. unfold synced, next_v, next_a.
    destruct (mclass_of m); try discriminate; split; assumption.
Qed.

(* ------------------------------------------------------------------ *)
(* what one (non-empty) publish does to every RTMP / HTTP-FLV consumer *)

Definition W (l : list label) (c : consumer) : consumer :=
  if ckind_eqb (c_kind c) KRtmp && admitted c then c_append c l else c.

Lemma W_nil c : W [] c = c.
Proof. unfold W. destruct (_ && _); [apply c_append_nil|reflexivity]. Qed.

Lemma publish_shape cf s m :
  merge_inv cf s -> Nat.eqb (length (rm_payload m)) 0 = false ->
  let i := g_next s in
  let cache := g_rtmp_cache s in let key := is_video_key_nalu m in let hdr := is_hdr_msg m in
  let tr := anytrig cache key hdr (LC i) (g_subs s) in
  let x := if tr then g_merge s else [] in
  let merge1 := if tr then [] else g_merge s in
  exists l mg,
    g_subs (publish cf s m) =
      map (fun c => flv_step (g_flv_cache s) key hdr (LT i) (push_step cache (lcw m i) (W l (fin cache key hdr (LC i) [] x c)))) (g_subs s) /\
    g_merge (publish cf s m) = mg /\
    ((exists c, In c (g_subs s) /\ c_kind c = KRtmp) -> l ++ mg = merge1 ++ [LC i]).
Proof.
  intros Hinv Hne. cbv zeta. unfold publish. rewrite Hne, rtmp_loop_spec.
  set (i := g_next s). set (cache := g_rtmp_cache s). set (key := is_video_key_nalu m). set (hdr := is_hdr_msg m).
  set (tr := anytrig cache key hdr (LC i) (g_subs s)).
  set (x := if tr then g_merge s else []). set (merge1 := if tr then [] else g_merge s).
  destruct (has_kind KRtmp (map (fin cache key hdr (LC i) [] x) (g_subs s))) eqn:Hhk.
  - destruct (cf_merge cf =? 0) eqn:Hm0.
    + exists [LC i], merge1. cbn [g_subs g_merge]. split; [|split; [reflexivity|]].
      * unfold write_rtmp_admitted. rewrite !map_map. reflexivity.
      * intros _. apply N.eqb_eq in Hm0. specialize (Hinv Hm0).
        assert (Hm1 : merge1 = []) by (unfold merge1; rewrite Hinv; now destruct tr).
        rewrite Hm1. reflexivity.
    + destruct (cf_merge cf <=? _).
      * exists (merge1 ++ [LC i]), []. cbn [g_subs g_merge]. split; [|split; [reflexivity|]].
        -- unfold write_rtmp_admitted. rewrite !map_map. reflexivity.
        -- intros _. apply app_nil_r.
      * exists [], (merge1 ++ [LC i]). cbn [g_subs g_merge]. split; [|split; [reflexivity|]].
        -- rewrite !map_map. apply map_ext. intro c. now rewrite W_nil.
        -- intros _. reflexivity.
  - exists [], merge1. cbn [g_subs g_merge]. split; [|split; [reflexivity|]].
    + rewrite !map_map. apply map_ext. intro c. now rewrite W_nil.
    + intros (c & Hin & Hk). rewrite (has_kind_map_fin cache key hdr (LC i) [] x _ c Hin Hk) in Hhk. discriminate.
Qed.

(* the unit [l] of the message is appended to the consumer's stream iff [deliver];
   a consumer that was fresh starts with the prologue of its cache *)
Definition desc (s s' : gstate) (cache : gop_cache label) (l : label) (hdr : bool) (c c' : consumer) (deliver : bool) : Prop :=
  c_fresh c' = false /\
  vout s' c' = (if c_fresh c then prologue cache false else vout s c) ++ (if deliver then [l] else []) /\
  (deliver = false -> hdr = false).

Lemma admitted_false_wait c : admitted c = false -> c_fresh c = false -> c_wait c = true.
Proof. unfold admitted. intros H Hf. rewrite Hf in H. cbn in H. now destruct (c_wait c). Qed.

Lemma publish_consumers cf s m :
  merge_inv cf s -> Nat.eqb (length (rm_payload m)) 0 = false ->
  let s' := publish cf s m in
  exists G, g_subs s' = map G (g_subs s) /\ (forall c, c_kind (G c) = c_kind c) /\
    forall c, In c (g_subs s) -> (c_fresh c = true -> c_out c = []) ->
      (c_kind c = KRtmp -> exists deliver, desc s s' (g_rtmp_cache s) (LC (g_next s)) (is_hdr_msg m) c (G c) deliver) /\
      (c_kind c = KFlv -> exists deliver, desc s s' (g_flv_cache s) (LT (g_next s)) (is_hdr_msg m) c (G c) deliver).
Proof.
  intros Hinv Hne. cbv zeta.
  destruct (publish_shape cf s m Hinv Hne) as (l & mg & Hsubs & Hmg & Hlm). cbv zeta in Hsubs, Hlm.
  set (i := g_next s) in *. set (cache := g_rtmp_cache s) in *. set (key := is_video_key_nalu m) in *. set (hdr := is_hdr_msg m) in *.
  set (tr := anytrig cache key hdr (LC i) (g_subs s)) in *.
  set (x := if tr then g_merge s else []) in *. set (merge1 := if tr then [] else g_merge s) in *.
  assert (Hxm : x ++ merge1 = g_merge s) by (unfold x, merge1; destruct tr; [apply app_nil_r|reflexivity]).
  eexists. split; [exact Hsubs|]. split.
  { intro c. rewrite flv_step_kind, push_step_kind. unfold W. rewrite write1_kind. apply fin_kind. }
  intros c Hin Hfo. split; intro Hk.
  - (* RTMP subscriber: the relay-push and HTTP-FLV passes do not touch it *)
    specialize (Hlm (ex_intro _ c (conj Hin Hk))).
    set (c1 := fin cache key hdr (LC i) [] x c).
    assert (Hk1 : c_kind (W l c1) = KRtmp) by (unfold W; rewrite write1_kind; unfold c1; now rewrite fin_kind).
    assert (HP : push_step cache (lcw m i) (W l c1) = W l c1) by (unfold push_step; now rewrite Hk1).
    assert (HV : flv_step (g_flv_cache s) key hdr (LT i) (W l c1) = W l c1) by (unfold flv_step; now rewrite Hk1).
    rewrite HP, HV.
    assert (Hvo : forall c2, c_kind c2 = KRtmp ->
               vout (publish cf s m) (W l c2) = c_out c2 ++ (if admitted c2 then l ++ mg else [])).
    { intros c2 Hk2. unfold W. rewrite Hk2. cbn [ckind_eqb andb]. destruct (admitted c2) eqn:Ha2.
      - unfold vout, pending_for, is_rtmp. csimp. rewrite Hk2, Ha2, Hmg. cbn [ckind_eqb andb]. now rewrite <- app_assoc.
      - unfold vout, pending_for, is_rtmp. rewrite Hk2, Ha2. reflexivity. }
    assert (Hkc1 : c_kind c1 = KRtmp) by (unfold c1; now rewrite fin_kind).
    assert (Hfw : forall c2, c_fresh (W l c2) = c_fresh c2) by (intro c2; unfold W; destruct (_ && _); reflexivity).
    unfold desc. rewrite (Hvo c1 Hkc1), Hfw.
    destruct (admitted c) eqn:Ha.
    + (* already admitted: gets what the merge writer held plus the new unit *)
      destruct (admitted_flags _ Ha) as [Hfr Hwt].
      assert (E1 : c1 = c_append c x) by (unfold c1, fin, is_rtmp; now rewrite Hk, Ha).
      exists true. rewrite E1. csimp. rewrite Ha, Hfr. split; [reflexivity|]. split; [|discriminate].
      unfold vout, pending_for, is_rtmp. rewrite Hk, Ha. cbn [ckind_eqb andb].
      rewrite Hlm, <- Hxm. now rewrite <- !app_assoc.
    + assert (E1 : c1 = fst (rtmp_visit cache key hdr (LC i) c)) by (unfold c1, fin, is_rtmp; now rewrite Hk, Ha).
      assert (Htrig : snd (rtmp_visit cache key hdr (LC i) c) = true -> merge1 = []).
      { intro Hs. assert (Ht : tr = true).
        { unfold tr, anytrig. apply existsb_exists. exists c. split; [exact Hin|]. unfold trig, is_rtmp. now rewrite Hk, Ha, Hs. }
        unfold merge1. now rewrite Ht. }
      assert (Hvs : vout s c = c_out c) by (unfold vout, pending_for; rewrite Ha, Bool.andb_false_r; apply app_nil_r).
      destruct (c_fresh c) eqn:Hfr.
      * (* fresh: prologue; admitted at once unless it has to wait *)
        pose proof (rtmp_fresh_visit cache key hdr (LC i) c Hfr) as Hv. cbv zeta in Hv.
        destruct (rtmp_visit cache key hdr (LC i) c) as [c1' fl] eqn:Hvis. cbn [fst snd] in E1, Htrig. subst c1'.
        destruct Hv as (Hfl & Hf1 & Hw1 & Ho1). specialize (Htrig Hfl).
        rewrite Hf1, Ho1, (Hfo eq_refl). cbn [app].
        set (w1 := (if Nat.ltb 0 (gc_count cache) then false else c_wait c) && negb key) in *.
        assert (Ha1 : admitted c1 = negb w1) by (unfold admitted; now rewrite Hf1, Hw1).
        rewrite Ha1. destruct w1; cbn [negb andb].
        -- exists hdr. split; [reflexivity|]. split; [|tauto]. rewrite app_nil_r. now destruct hdr.
        -- exists true. split; [reflexivity|]. split; [|discriminate]. rewrite Hlm, Htrig. now rewrite app_nil_r.
      * (* waiting for a key frame *)
        pose proof (admitted_false_wait c Ha Hfr) as Hwt.
        pose proof (rtmp_waiting_visit cache key hdr (LC i) c Hfr Hwt) as Hv.
        destruct (rtmp_visit cache key hdr (LC i) c) as [c1' fl] eqn:Hvis. cbn [fst snd] in E1, Htrig. subst c1'.
        destruct Hv as (Hfl & Hf1 & Hw1 & Ho1).
        rewrite Hf1, Ho1, Hvs.
        assert (Ha1 : admitted c1 = key) by (unfold admitted; rewrite Hf1, Hw1; now destruct key).
        rewrite Ha1. destruct key; cbn [negb andb].
        -- exists true. split; [reflexivity|]. split; [|discriminate]. rewrite Hlm, (Htrig Hfl). now rewrite app_nil_r.
        -- exists hdr. split; [reflexivity|]. split; [|tauto]. rewrite app_nil_r. now destruct hdr.
  - (* HTTP-FLV subscriber: untouched by the RTMP loop, the live write and the relay push *)
    assert (E1 : fin cache key hdr (LC i) [] x c = c) by (unfold fin, is_rtmp; now rewrite Hk).
    assert (E2 : W l c = c) by (unfold W; now rewrite Hk).
    assert (E3 : push_step cache (lcw m i) c = c) by (unfold push_step; now rewrite Hk).
    rewrite E1, E2, E3.
    set (c' := flv_step (g_flv_cache s) key hdr (LT i) c).
    assert (Hk' : c_kind c' = KFlv) by (unfold c'; now rewrite flv_step_kind).
    assert (Hvo : vout (publish cf s m) c' = c_out c') by (unfold vout, pending_for, is_rtmp; rewrite Hk'; apply app_nil_r).
    assert (Hvs : vout s c = c_out c) by (unfold vout, pending_for, is_rtmp; rewrite Hk; apply app_nil_r).
    unfold desc. rewrite Hvo, Hvs.
    destruct (c_fresh c) eqn:Hfr.
    + destruct (flv_fresh_visit (g_flv_cache s) key hdr (LT i) c Hk Hfr) as (Hf1 & Hw1 & Ho1). fold c' in Hf1, Hw1, Ho1.
      rewrite Hf1, Ho1, (Hfo eq_refl). cbn [app].
      set (w1 := (if Nat.ltb 0 (gc_count (g_flv_cache s)) then false else c_wait c) && negb key) in *.
      exists (negb (w1 && negb hdr)). split; [reflexivity|]. split.
      * destruct (w1 && negb hdr); reflexivity.
      * intro H. apply Bool.negb_false_iff, Bool.andb_true_iff in H. destruct H as [_ H]. now destruct hdr.
    + destruct (c_wait c) eqn:Hwt.
      * destruct (flv_waiting_visit (g_flv_cache s) key hdr (LT i) c Hk Hfr Hwt) as (Hf1 & Hw1 & Ho1). fold c' in Hf1, Hw1, Ho1.
        rewrite Hf1, Ho1. exists (key || hdr). split; [reflexivity|]. split; [reflexivity|].
        intro H. apply Bool.orb_false_iff in H. tauto.
      * exists true. unfold c', flv_step. rewrite Hk, Hfr, Hwt. cbn [ckind_eqb negb]. csimp.
        split; [exact Hfr|]. split; [reflexivity|discriminate].
Qed.

(* ------------------------------------------------------------------ *)
(* the invariant *)

(* the consumers the statement is about: RTMP subscribers when the RTMP cache is
   fed (RtmpConfig.Enable), HTTP-FLV / WebSocket-FLV subscribers when the FLV one is *)
Definition in_scope (cf : cfg) (c : consumer) : Prop :=
  (c_kind c = KRtmp /\ cf_rtmp_enable cf = true) \/ (c_kind c = KFlv /\ cf_flv_enable cf = true).

Definition sub_ok (cf : cfg) (log : list entry) (iv ia : option bytes) (s : gstate) (c : consumer) : Prop :=
  in_scope cf c ->
  if c_fresh c then c_out c = []
  else stream_ok log hd0 (vout s c) /\ synced iv ia (hdrs log hd0 (vout s c)).

Definition gone_ok (cf : cfg) (log : list entry) (c : consumer) : Prop :=
  in_scope cf c -> stream_ok log hd0 (c_out c).

Definition hinv (cf : cfg) (s : gstate) (st : istate) (sp : sstate) : Prop :=
  sstate_rel cf s sp /\ merge_inv cf s /\ g_next s = length (is_log st) /\ g_in s = is_in st /\
  (cf_rtmp_enable cf = true -> cspec_ok (is_log st) (is_v st) (is_a st) (ss_rtmp sp)) /\
  (cf_flv_enable cf = true -> cspec_ok (is_log st) (is_v st) (is_a st) (ss_flv sp)) /\
  Forall (sub_ok cf (is_log st) (is_v st) (is_a st) s) (g_subs s) /\
  Forall (gone_ok cf (is_log st)) (g_gone s).

Lemma sub_ok_merge cf log iv ia s s' c : g_merge s' = g_merge s -> sub_ok cf log iv ia s c -> sub_ok cf log iv ia s' c.
Proof. intros Hm H Hs. specialize (H Hs). now rewrite (vout_same_subs s s' c Hm). Qed.

Lemma sub_ok_reset cf log iv ia s s' c : g_merge s' = g_merge s -> sub_ok cf log iv ia s c -> sub_ok cf log None None s' c.
Proof.
  intros Hm H Hs. specialize (H Hs). rewrite (vout_same_subs s s' c Hm).
  destruct (c_fresh c); [exact H|]. split; [apply H|apply synced_none].
Qed.

Lemma sub_ok_grow cf log x iv ia s s' c : g_merge s' = g_merge s -> sub_ok cf log iv ia s c -> sub_ok cf (log ++ x) iv ia s' c.
Proof.
  intros Hm H Hs. specialize (H Hs). rewrite (vout_same_subs s s' c Hm).
  destruct (c_fresh c); [exact H|]. destruct H as [H1 H2].
  destruct (stream_grow log x _ _ H1) as [G1 G2]. rewrite G2. split; assumption.
Qed.

Lemma gone_ok_grow cf log x c : gone_ok cf log c -> gone_ok cf (log ++ x) c.
Proof. intros H Hs. now apply stream_grow, H. Qed.

(* leaving: what was delivered is a prefix of what was due *)
Lemma sub_gone cf log iv ia s c : sub_ok cf log iv ia s c -> gone_ok cf log c.
Proof.
  intros H Hs. specialize (H Hs). destruct (c_fresh c).
  - rewrite H. exact I.
  - destruct H as [H _]. unfold vout in H. now apply stream_ok_prefix in H.
Qed.

Lemma Forall_sub cf log iv ia s (P : consumer -> bool) l :
  Forall (sub_ok cf log iv ia s) l ->
  Forall (sub_ok cf log iv ia s) (snd (partition P l)) /\ Forall (gone_ok cf log) (fst (partition P l)).
Proof.
  induction l as [|c l IH]; intro H; [split; constructor|].
  inversion H as [|? ? Hc Hl]; subst. destruct (IH Hl) as [I1 I2].
  cbn [partition]. destruct (partition P l) as [g r]. cbn [fst snd] in *.
  destruct (P c); cbn [fst snd]; split; try assumption; constructor; try assumption.
  eapply sub_gone; eassumption.
Qed.

(* events that do not touch RTMP / FLV consumers *)
Lemma subs_untouched cf log iv ia s s' (F : consumer -> consumer) l :
  g_merge s' = g_merge s ->
  (forall c, c_kind (F c) = c_kind c) -> (forall c, c_kind c = KRtmp \/ c_kind c = KFlv -> F c = c) ->
  Forall (sub_ok cf log iv ia s) l -> Forall (sub_ok cf log iv ia s') (map F l).
Proof.
  intros Hm Hk Hid H. apply Forall_map. eapply Forall_impl; [|exact H].
  intros c Hc Hs.
  assert (Hsc : in_scope cf c) by (unfold in_scope in *; now rewrite Hk in Hs).
  assert (E : F c = c) by (apply Hid; destruct Hsc as [[? _]|[? _]]; auto).
  rewrite E. now apply (sub_ok_merge cf log iv ia s s' c Hm Hc).
Qed.

Lemma ts_step_other cache pat b lt c : c_kind c <> KTs -> ts_step cache pat b lt c = c.
Proof. intro H. unfold ts_step. destruct (c_kind c); try reflexivity. congruence. Qed.

Lemma play_step_kind vk id c : c_kind (play_step vk id c) = c_kind c.
Proof. unfold play_step. destruct (_ && _); reflexivity. Qed.
Lemma sdp_step_kind l c : c_kind (sdp_step l c) = c_kind c.
Proof. unfold sdp_step. destruct (_ && _); reflexivity. Qed.
Lemma rtsp_step_kind w b wr l c : c_kind (rtsp_step w b wr l c) = c_kind c.
Proof.
  unfold rtsp_step. destruct (negb (ckind_eqb (c_kind c) KRtsp)); [reflexivity|].
  destruct (c_fresh c); [reflexivity|]. destruct wr, (negb w || negb (c_wait c)), b; reflexivity.
Qed.

Ltac not_kind := let H := fresh in intros ? [H|H]; rewrite H; discriminate.

Theorem hinv_step cf s st sp e : hinv cf s st sp -> hinv cf (step cf s e) (istep st e) (sstep cf sp e).
Proof.
  intros (Hrel & Hmi & Hn & Hin & Hr & Hf & Hsubs & Hgone).
  pose proof (sstate_rel_step cf s sp e Hrel) as Hrel'.
  pose proof (merge_inv_step cf s e Hmi) as Hmi'.
  unfold hinv. split; [exact Hrel'|]. split; [exact Hmi'|]. clear Hrel' Hmi'.
  destruct Hrel as (Rin & Rn & Rr & Rf).
  destruct e as [m|k id|id| | |b| |v|pid|raw|]; cbn [step istep sstep].
  - (* publish *)
    destruct (Nat.eqb (length (rm_payload m)) 0) eqn:Hne.
    + unfold publish. rewrite Hne. cbn [g_next g_in g_subs g_gone is_log is_in is_v is_a ss_rtmp ss_flv].
      split; [rewrite app_length; cbn [length]; lia|]. split; [exact Hin|].
      split; [intro E; now apply cspec_ok_grow, Hr|]. split; [intro E; now apply cspec_ok_grow, Hf|]. split.
      * eapply Forall_impl; [|exact Hsubs]. intros c Hc. eapply sub_ok_grow; [|exact Hc]. reflexivity.
      * eapply Forall_impl; [|exact Hgone]. intros c. apply gone_ok_grow.
    + destruct (publish_fields cf s m Hne) as (P1 & P2 & _ & _).
      cbn [is_log is_in is_v is_a ss_rtmp ss_flv].
      split; [rewrite P2, app_length; cbn [length]; lia|]. split; [now rewrite P1|].
      split; [|split; [|split]].
      * intro E. rewrite E. rewrite <- Rn, Hn. apply cspec_ok_feed; [now apply Hr|reflexivity|reflexivity].
      * intro E. rewrite E. rewrite <- Rn, Hn. apply cspec_ok_feed; [now apply Hf|reflexivity|reflexivity].
      * destruct (publish_consumers cf s m Hmi Hne) as (G & HG & HGk & HGd). cbv zeta in HG, HGd.
        rewrite HG. apply Forall_map. apply Forall_forall. intros c Hc.
        pose proof (proj1 (Forall_forall _ _) Hsubs c Hc) as Hok.
        intro Hs.
        assert (Hsc : in_scope cf c) by (unfold in_scope in *; now rewrite HGk in Hs).
        specialize (Hok Hsc).
        assert (Hfo : c_fresh c = true -> c_out c = []) by (intro E; now rewrite E in Hok).
        destruct (HGd c Hc Hfo) as [DR DF].
        assert (Hgen : forall cache l gop_num max spc,
                  label_idx l = Some (length (is_log st)) ->
                  cache_rel gop_num max cache spc -> cspec_ok (is_log st) (is_v st) (is_a st) spc ->
                  (exists deliver, desc s (publish cf s m) cache l (is_hdr_msg m) c (G c) deliver) ->
                  if c_fresh (G c) then c_out (G c) = []
                  else stream_ok (is_log st ++ [(m, is_v st, is_a st)]) hd0 (vout (publish cf s m) (G c)) /\
                       synced (next_v m (is_v st)) (next_a m (is_a st))
                              (hdrs (is_log st ++ [(m, is_v st, is_a st)]) hd0 (vout (publish cf s m) (G c)))).
        { intros cache l gop_num max spc Hl Hcr Hcs (deliver & D1 & D2 & D3).
          rewrite D1, D2.
          apply deliver_ok; [exact Hl| | |exact D3].
          - destruct (c_fresh c).
            + rewrite (prologue_spec _ _ _ _ false Hcr). exact (proj1 (prologue_stream gop_num _ _ _ _ Hcs)).
            + apply Hok.
          - destruct (c_fresh c).
            + rewrite (prologue_spec _ _ _ _ false Hcr).
              destruct (prologue_stream gop_num _ _ _ _ Hcs) as [_ E]. rewrite E. split; apply covers_refl.
            + apply Hok. }
        destruct Hsc as [[Hk He]|[Hk He]].
        -- eapply (Hgen (g_rtmp_cache s) (LC (g_next s))); [cbn [label_idx]; now rewrite Hn|exact Rr|now apply Hr|now apply DR].
        -- eapply (Hgen (g_flv_cache s) (LT (g_next s))); [cbn [label_idx]; now rewrite Hn|exact Rf|now apply Hf|now apply DF].
      * assert (Hg : g_gone (publish cf s m) = g_gone s).
        { unfold publish. rewrite Hne, rtmp_loop_spec.
          destruct (has_kind KRtmp _); [destruct (cf_merge cf =? 0); [|destruct (cf_merge cf <=? _)]|]; reflexivity. }
        rewrite Hg. eapply Forall_impl; [|exact Hgone]. intros c. apply gone_ok_grow.
  - (* join *)
    destruct (existsb _ _); [split; [exact Hn|]; split; [exact Hin|]; split; [exact Hr|]; split; [exact Hf|]; split; [exact Hsubs|exact Hgone]|].
    unfold set_subs. cbn [g_next g_in g_subs g_gone].
    split; [exact Hn|]. split; [exact Hin|]. split; [exact Hr|]. split; [exact Hf|]. split; [|exact Hgone].
    apply Forall_app. split.
    + eapply Forall_impl; [|exact Hsubs]. intros c Hc. eapply sub_ok_merge; [|exact Hc]. reflexivity.
    + constructor; [|constructor]. intros [[Hk _]|[Hk _]]; unfold new_consumer in *; cbn [c_kind c_fresh c_out] in *; subst k; reflexivity.
  - (* leave *)
    destruct (Forall_sub cf _ _ _ s (fun x => c_id x =? id) _ Hsubs) as [I1 I2].
    destruct (partition _ (g_subs s)) as [gone stay]. cbn [fst snd] in *. cbn [g_next g_in g_subs g_gone].
    split; [exact Hn|]. split; [exact Hin|]. split; [exact Hr|]. split; [exact Hf|]. split.
    + eapply Forall_impl; [|exact I1]. intros c Hc. eapply sub_ok_merge; [|exact Hc]. reflexivity.
    + apply Forall_app. split; assumption.
  - (* input start *)
    destruct (g_in s) eqn:Hgi; cbn [g_next g_in g_subs g_gone is_in is_v is_a is_log].
    + split; [exact Hn|]. split; [exact Hgi|]. split; [exact Hr|]. split; [exact Hf|]. split; [exact Hsubs|exact Hgone].
    + split; [exact Hn|]. split; [reflexivity|]. split; [exact Hr|]. split; [exact Hf|]. split; [|exact Hgone].
      eapply Forall_impl; [|exact Hsubs]. intros c Hc. eapply sub_ok_merge; [|exact Hc]. reflexivity.
  - (* input stop *)
    rewrite <- Rin, <- Hin. destruct (g_in s) eqn:Hgi; cbn [negb].
    + destruct (Forall_sub cf _ _ _ s (fun x => ckind_eqb (c_kind x) KPush) _ Hsubs) as [I1 I2].
      destruct (partition _ (g_subs s)) as [pushes stay]. cbn [fst snd] in *.
      cbn [g_next g_in g_subs g_gone is_in is_v is_a is_log ss_rtmp ss_flv].
      split; [exact Hn|]. split; [reflexivity|]. split; [intros _; apply cspec_ok_init|]. split; [intros _; apply cspec_ok_init|]. split.
      * eapply Forall_impl; [|exact I1]. intros c Hc. eapply sub_ok_reset; [|exact Hc]. reflexivity.
      * apply Forall_app. split; assumption.
    + split; [exact Hn|]. split; [congruence|]. split; [exact Hr|]. split; [exact Hf|]. split; [exact Hsubs|exact Hgone].
  - (* TS data *)
    unfold feed_ts. cbn [g_next g_in g_subs g_gone].
    split; [exact Hn|]. split; [exact Hin|]. split; [exact Hr|]. split; [exact Hf|]. split; [|exact Hgone].
    eapply subs_untouched; [reflexivity|intro; apply ts_step_kind| |exact Hsubs].
    intros c Hk. apply ts_step_other. destruct Hk as [E|E]; rewrite E; discriminate.
  - (* PAT/PMT *)
    cbn [g_next g_in g_subs g_gone].
    split; [exact Hn|]. split; [exact Hin|]. split; [exact Hr|]. split; [exact Hf|]. split; [|exact Hgone].
    eapply subs_untouched; [reflexivity| | |exact Hsubs].
    + intro c. destruct (_ && _); reflexivity.
    + intros c Hk. destruct Hk as [E|E]; rewrite E; reflexivity.
  - (* SDP *)
    cbn [g_next g_in g_subs g_gone].
    split; [exact Hn|]. split; [exact Hin|]. split; [exact Hr|]. split; [exact Hf|]. split; [|exact Hgone].
    eapply subs_untouched; [reflexivity|intro; apply sdp_step_kind| |exact Hsubs].
    intros c Hk. apply sdp_step_other. destruct Hk as [E|E]; rewrite E; discriminate.
  - (* PLAY *)
    unfold set_subs. cbn [g_next g_in g_subs g_gone].
    split; [exact Hn|]. split; [exact Hin|]. split; [exact Hr|]. split; [exact Hf|]. split; [|exact Hgone].
    eapply subs_untouched; [reflexivity|intro; apply play_step_kind| |exact Hsubs].
    intros c Hk. apply play_step_other. destruct Hk as [E|E]; rewrite E; discriminate.
  - (* RTP *)
    unfold feed_rtp, feed_rtp_gen. cbn [g_next g_in g_subs g_gone].
    split; [exact Hn|]. split; [exact Hin|]. split; [exact Hr|]. split; [exact Hf|]. split; [|exact Hgone].
    destruct (rtp_pt raw).
    + eapply subs_untouched; [reflexivity|intro; apply rtsp_step_kind| |exact Hsubs].
      intros c Hk. apply rtsp_step_other. destruct Hk as [E|E]; rewrite E; discriminate.
    + eapply Forall_impl; [|exact Hsubs]. intros c Hc. eapply sub_ok_merge; [|exact Hc]. reflexivity.
  - (* dispose *)
    cbn [g_next g_in g_subs g_gone is_in is_v is_a is_log ss_rtmp ss_flv].
    split; [exact Hn|]. split; [reflexivity|]. split; [intros _; apply cspec_ok_init|]. split; [intros _; apply cspec_ok_init|].
    split; [constructor|]. apply Forall_app. split; [exact Hgone|].
    eapply Forall_impl; [|exact Hsubs]. intros c. apply sub_gone.
Qed.

Lemma hinv_init cf : hinv cf (g_init cf) istate_init sstate_init.
Proof.
  unfold hinv. split.
  { unfold sstate_rel. split4; try reflexivity; apply cache_rel_new. }
  split; [apply merge_inv_init|]. split; [reflexivity|]. split; [reflexivity|].
  split; [intros _; apply cspec_ok_init|]. split; [intros _; apply cspec_ok_init|]. split; constructor.
Qed.

Theorem hinv_run cf h : hinv cf (run cf h) (irun h) (srun cf h).
Proof.
  unfold run, irun, srun. generalize (hinv_init cf). generalize (g_init cf) istate_init sstate_init.
  induction h as [|e h IH]; intros s st sp H; [exact H|]. cbn [fold_left]. apply IH. now apply hinv_step.
Qed.

(* ------------------------------------------------------------------ *)
(* the log is the list of published messages, each with the headers in force before it *)

Lemma irun_app h1 h2 : irun (h1 ++ h2) = fold_left istep h2 (irun h1).
Proof. unfold irun. apply fold_left_app. Qed.

Lemma istep_log st e :
  is_log (istep st e) = is_log st ++ match e with EvPublish m => [(m, is_v st, is_a st)] | _ => [] end.
Proof.
  destruct e; cbn [istep]; try (now rewrite app_nil_r).
  - destruct (Nat.eqb _ 0); reflexivity.
  - destruct (is_in st); cbn [is_log]; now rewrite app_nil_r.
Qed.

Lemma ifold_log : forall h st, exists x, is_log (fold_left istep h st) = is_log st ++ x.
Proof.
  induction h as [|e h IH]; intro st; [exists []; now rewrite app_nil_r|].
  cbn [fold_left]. destruct (IH (istep st e)) as [x Hx]. rewrite Hx, istep_log, <- app_assoc. eauto.
Qed.

Lemma ifold_pubs : forall h st,
  map (fun e : entry => fst (fst e)) (is_log (fold_left istep h st)) = map (fun e : entry => fst (fst e)) (is_log st) ++ pubs h.
Proof.
  induction h as [|e h IH]; intro st; [now rewrite app_nil_r|].
  cbn [fold_left]. rewrite IH, istep_log, map_app, <- app_assoc. f_equal.
  destruct e; reflexivity.
Qed.

Theorem irun_log_pubs h : map (fun e : entry => fst (fst e)) (is_log (irun h)) = pubs h.
Proof. unfold irun. now rewrite ifold_pubs. Qed.

Lemma irun_log_len h : length (is_log (irun h)) = length (pubs h).
Proof. now rewrite <- irun_log_pubs, map_length. Qed.

Theorem irun_log_at h1 m h2 :
  nth_error (is_log (irun (h1 ++ EvPublish m :: h2))) (length (pubs h1)) = Some (m, is_v (irun h1), is_a (irun h1)).
Proof.
  rewrite irun_app. cbn [fold_left].
  destruct (ifold_log h2 (istep (irun h1) (EvPublish m))) as [x Hx]. rewrite Hx, istep_log, <- app_assoc.
  rewrite nth_error_app2 by (rewrite irun_log_len; lia). now rewrite irun_log_len, Nat.sub_diag.
Qed.

(* ------------------------------------------------------------------ *)
(* the theorems *)

(* every stream delivered to an RTMP / FLV consumer - attached or gone - is in order *)
Theorem delivered_streams_ok cf h c :
  In c (all_consumers (run cf h)) -> in_scope cf c -> stream_ok (is_log (irun h)) hd0 (c_out c).
Proof.
  intros Hin Hs. destruct (hinv_run cf h) as (_ & _ & _ & _ & _ & _ & Hsubs & Hgone).
  unfold all_consumers in Hin. apply in_app_or in Hin. destruct Hin as [Hin|Hin].
  - exact (proj1 (Forall_forall _ _) Hgone c Hin Hs).
  - exact (sub_gone _ _ _ _ _ _ (proj1 (Forall_forall _ _) Hsubs c Hin) Hs).
Qed.

(* Header in force.  Split the history at the publication of any frame [m] and
   the consumer's stream at the unit of that frame: the sequence headers the
   consumer had received last before it are the ones in force when the frame
   was published (video header for a video frame, AAC header for an audio frame). *)
Theorem header_in_force cf h1 m h2 c a l b :
  let h := h1 ++ EvPublish m :: h2 in
  In c (all_consumers (run cf h)) -> in_scope cf c ->
  c_out c = a ++ l :: b -> label_idx l = Some (length (pubs h1)) -> is_hdr_msg m = false ->
  frame_ok m (is_v (irun h1)) (is_a (irun h1)) (hdrs (is_log (irun h)) hd0 a).
Proof.
  cbv zeta. intros Hin Hs Ho Hl Hm.
  pose proof (delivered_streams_ok cf _ c Hin Hs) as Hok. rewrite Ho in Hok.
  eapply stream_ok_split; [exact Hok| |exact Hm].
  unfold lookup. rewrite Hl. apply irun_log_at.
Qed.

(* ... and at every moment every attached consumer that is past its prologue -
   admitted or still waiting for a key frame - holds, as the last headers it was
   sent (counting what the merge writer keeps for it), the ones in force: a header
   published while it waits is not withheld (fix F-08i) *)
Theorem headers_in_step cf h c :
  In c (g_subs (run cf h)) -> in_scope cf c -> c_fresh c = false ->
  stream_ok (is_log (irun h)) hd0 (vout (run cf h) c) /\
  synced (is_v (irun h)) (is_a (irun h)) (hdrs (is_log (irun h)) hd0 (vout (run cf h) c)).
Proof.
  intros Hin Hs Hf. destruct (hinv_run cf h) as (_ & _ & _ & _ & _ & _ & Hsubs & _).
  pose proof (proj1 (Forall_forall _ _) Hsubs c Hin Hs) as H. now rewrite Hf in H.
Qed.
