(* What of an input's CONTENT reaches the group, on top of the admission machine (GroupAdmission.v) and
   the connection-level shells (GroupRtspShell.v):
     pkg/logic/group__core_streaming.go  OnSdp (group.sdpCtx := the SDP; waiting RTSP subscribers are fed it; the
                                         rtsp->rtmp remuxer is given it), OnReadRtmpAvMsg (broadcast)
     pkg/logic/group__in.go              AddRtspPubSession (SetObserver: the publisher's SDP reaches OnSdp),
                                         AddRtspPullSession, delIn (sdpCtx := nil)
     pkg/rtsp/client_pull_session.go     OnDescribeResponse: the Add callback, then InitWithSdp - which calls OnSdp
     pkg/logic/group__relay_pull.go      pullIfNeeded: WithOnPullSucc (AddRtmpPullSession; refused: Dispose),
                                         WithOnReadRtmpAvMsg(group.OnReadRtmpAvMsg)
   Two components are added to the state: per stream, WHOSE SDP the group holds ([ds_sdp]; it is what an RTSP
   DESCRIBE of that stream is answered with), and an observation of the media that reaches the subscribers when an
   origin sends media right behind its answer to the play request ([DPullSuccMedia]).

   The SDP of a stream changes with its input: when the occupied slot changes, the group holds the SDP of the new
   input if that is an RTSP publisher or an RTSP relay pull, and none otherwise (delIn clears it; inputs of the other
   kinds bring none in the configurations modelled: the rtmp->rtsp remuxer is off); ServerManager.Dispose drops the SDP
   of every group, whatever still occupies its slots.  [fsdp] = false is the tree
   before the repair of F-C03-4: the SDP of an RTSP relay pull that the group REFUSED (another input is accepted,
   or the pull was stopped while connecting) is delivered to the group all the same.  Deviation of that variant
   from the old code: a stale SDP left in a group WITHOUT input survives the arrival of a non-RTSP input there
   (addIn does not clear it); here it is dropped.
   No proofs in this file. *)
From Coq Require Import NArith ZArith List Bool.
From Lal Require Import Group.GroupAdmission Group.GroupRtspShell.
Import ListNotations.
Open Scope N_scope.

Inductive owner := OConn (n : N) | OAtt (s i : N).

Record dstate := mk_dstate {
  ds_shell : cstate;
  ds_sdp : list (N * option owner)      (* stream -> the input whose SDP the group holds *)
}.
Definition init_dstate : dstate := mk_dstate init_cstate [].

Inductive devent :=
| DE (ce : cevent)                 (* an event of the layers below *)
| DPullSuccMedia (s i : N)         (* EPullSucc s i where the origin sends one audio message in the same write as its answer *)
| DSdp (s : N).                    (* observation: whose SDP does the group of stream s hold *)

Inductive dresult :=
| DR (r : result)
| DRMedia (r : result) (l : list N)     (* subscribers the message behind the answer was written to *)
| DRSdp (o : option owner).

Definition in_slots (g : group) : option N * option N * option N * option N * option N * option N :=
  (g_rtmp g, g_rtsp g, g_cust g, g_ps g, pp_rtmp (g_pp g), pp_rtsp (g_pp g)).

Definition opt_eqb (a b : option N) : bool :=
  match a, b with
  | None, None => true
  | Some x, Some y => N.eqb x y
  | _, _ => false
  end.

Definition slots_eqb (g g' : group) : bool :=
  opt_eqb (g_rtmp g) (g_rtmp g') && opt_eqb (g_rtsp g) (g_rtsp g') && opt_eqb (g_cust g) (g_cust g') &&
  opt_eqb (g_ps g) (g_ps g') && opt_eqb (pp_rtmp (g_pp g)) (pp_rtmp (g_pp g')) && opt_eqb (pp_rtsp (g_pp g)) (pp_rtsp (g_pp g')).

(* the accepted input of a group that delivers an SDP to it *)
Definition sdp_source (s : N) (g : group) : option owner :=
  match g_rtsp g with
  | Some n => Some (OConn n)
  | None => match pp_rtsp (g_pp g) with Some i => Some (OAtt s i) | None => None end
  end.

Definition lookup_sdp (s : N) (tbl : list (N * option owner)) : option owner :=
  match lookup s tbl with Some o => o | None => None end.

(* the event is the answer of the origin to an RTSP relay pull that the group does not attach *)
Definition rtsp_pull_refused (st st1 : state) (ce : cevent) : option (N * N) :=
  match ce with
  | CE (EPullSucc s i) =>
    match find_att s i (st_atts st) with
    | Some a =>
      match a_state a with
      | AHeld =>
        if a_rtmp a then None
        else match get_group st1 s with
             | Some g => if opt_is (pp_rtsp (g_pp g)) i then None else Some (s, i)
             | None => Some (s, i)
             end
      | _ => None
      end
    | None => None
    end
  | _ => None
  end.

Definition sdp_after (fsdp : bool) (st : state) (refused : option (N * N)) (tbl : list (N * option owner))
           (sg : N * group) : N * option owner :=
  let '(s, ga) := sg in
  (s,
   match get_group st s with
   | Some gb =>
     if slots_eqb gb ga then
       match refused with
       | Some (s', i) => if N.eqb s s' && negb fsdp then Some (OAtt s i) else lookup_sdp s tbl
       | None => lookup_sdp s tbl
       end
     else sdp_source s ga
   | None => sdp_source s ga
   end).

(* ServerManager.Dispose: Group.Dispose ends with delIn, which drops the SDP (and the pipeline) of every group - also of a
   group whose input is a relay pull, which Group.Dispose does not touch: its slot stays occupied, its SDP is gone *)
Definition is_dispose (ce : cevent) : bool := match ce with CE EDispose => true | _ => false end.

Definition sdp_table (fsdp : bool) (st st1 : state) (ce : cevent) (tbl : list (N * option owner)) : list (N * option owner) :=
  if is_dispose ce then map (fun sg : N * group => (fst sg, None)) (st_groups st1)
  else map (sdp_after fsdp st (rtsp_pull_refused st st1 ce) tbl) (st_groups st1).

Definition dstep (fsdp fsh : bool) (fx : fixes) (cf : config) (ds : dstate) (de : devent) : dstate * dresult * list notif :=
  let cs := ds_shell ds in
  let st := cs_base cs in
  match de with
  | DE ce =>
    let '(cs1, r, ns) := cstep fsh fx cf cs ce in
    (mk_dstate cs1 (sdp_table fsdp st (cs_base cs1) ce (ds_sdp ds)), DR r, ns)
  | DPullSuccMedia s i =>
    let ce := CE (EPullSucc s i) in
    let '(cs1, r, ns) := cstep fsh fx cf cs ce in
    let st1 := cs_base cs1 in
    let got :=
      match r with
      | RBad => []
      | _ =>
        match find_att s i (st_atts st1), get_group st1 s with
        | Some a, Some g =>
          match a_state a with
          | AAttached => if a_rtmp a then deliver st1 (Some (g_id g)) else []
          | _ => []            (* not attached: the session was disposed, nothing of it is forwarded *)
          end
        | _, _ => []
        end
      end in
    (mk_dstate cs1 (sdp_table fsdp st st1 ce (ds_sdp ds)), DRMedia r got, ns)
  | DSdp s => (ds, DRSdp (lookup_sdp s (ds_sdp ds)), [])
  end.

Fixpoint drun (fsdp fsh : bool) (fx : fixes) (cf : config) (ds : dstate) (h : list devent) : dstate * list notif :=
  match h with
  | [] => (ds, [])
  | e :: t =>
    let '(ds1, _, ns) := dstep fsdp fsh fx cf ds e in
    let '(ds2, ns2) := drun fsdp fsh fx cf ds1 t in
    (ds2, ns ++ ns2)
  end.
