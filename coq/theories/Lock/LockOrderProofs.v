(* C20, general part: soundness of the acyclicity check and the lock-order
   theorem (no reachable state of the lock machine is a deadlock when every
   "acquire b while holding a" is an edge of an acyclic graph). *)
From Coq Require Import List NArith Bool Arith Lia ZifyN ZifyNat ZifyBool.
From Lal Require Import Lock.LockOrder Lock.LockMachine.
Import ListNotations.
Open Scope N_scope.

(* ---- the check ---------------------------------------------------------- *)

Lemma check_ranked_sound : forall g t, check_ranked g t = true -> ranked g (lookup t).
Proof.
  unfold check_ranked, ranked. intros g t Hc a b Hin.
  rewrite forallb_forall in Hc. specialize (Hc (a, b) Hin). cbn [fst snd] in Hc.
  apply N.ltb_lt in Hc. exact Hc.
Qed.

Lemma acyclicb_ranked : forall g, acyclicb g = true -> ranked g (lookup (ranks g)).
Proof. intros g H. apply check_ranked_sound. exact H. Qed.

Lemma ranked_path : forall g rk, ranked g rk -> forall a b, path g a b -> rk a < rk b.
Proof.
  intros g rk Hr a b Hp. induction Hp as [a b He|a b c He Hp IH].
  - apply Hr. exact He.
  - apply N.lt_trans with (rk b); [apply Hr; exact He|exact IH].
Qed.

Lemma ranked_acyclic : forall g rk, ranked g rk -> acyclic g.
Proof.
  intros g rk Hr a Hp. apply (ranked_path g rk Hr) in Hp. lia.
Qed.

Theorem acyclicb_sound : forall g, acyclicb g = true -> acyclic g.
Proof. intros g H. apply ranked_acyclic with (lookup (ranks g)). apply acyclicb_ranked. exact H. Qed.

Lemma lookup_le_max : forall t l, lookup t l <= table_max t.
Proof.
  induction t as [|[k v] r IH]; intro l; cbn [lookup table_max fold_right snd].
  - lia.
  - fold (table_max r). destruct (k =? l); [lia|]. specialize (IH l). lia.
Qed.

(* ---- confirming a cycle -------------------------------------------------- *)

Lemma has_edge_sound : forall g a b, has_edge g a b = true -> edge g a b.
Proof.
  unfold has_edge, edge. intros g a b H. apply existsb_exists in H.
  destruct H as [[x y] [Hin Hxy]]. cbn [fst snd] in Hxy.
  apply andb_true_iff in Hxy. destruct Hxy as [Hx Hy].
  apply N.eqb_eq in Hx. apply N.eqb_eq in Hy. subst. exact Hin.
Qed.

Lemma has_edge_complete : forall g a b, edge g a b -> has_edge g a b = true.
Proof.
  unfold has_edge, edge. intros g a b H. apply existsb_exists. exists (a, b).
  split; [exact H|]. cbn [fst snd]. rewrite !N.eqb_refl. reflexivity.
Qed.

Lemma walkb_path : forall g first w a, walkb g first (a :: w) = true -> path g a first.
Proof.
  intros g first w. induction w as [|b r IH]; intros a H.
  - cbn [walkb] in H. apply path_one. apply has_edge_sound. exact H.
  - change (has_edge g a b && walkb g first (b :: r) = true) in H.
    apply andb_true_iff in H. destruct H as [H1 H2].
    apply path_cons with b; [apply has_edge_sound; exact H1|apply IH; exact H2].
Qed.

Theorem is_cycleb_sound : forall g w, is_cycleb g w = true -> exists a, path g a a.
Proof.
  intros g [|a w] H; [discriminate|]. exists a. apply walkb_path with w. exact H.
Qed.

Corollary is_cycleb_not_acyclic : forall g w, is_cycleb g w = true -> ~ acyclic g.
Proof. intros g w H Ha. destruct (is_cycleb_sound g w H) as [a Hp]. exact (Ha a Hp). Qed.

Corollary is_cycleb_acyclicb_false : forall g w, is_cycleb g w = true -> acyclicb g = false.
Proof.
  intros g w H. destruct (acyclicb g) eqn:E; [|reflexivity].
  exfalso. exact (is_cycleb_not_acyclic g w H (acyclicb_sound g E)).
Qed.

(* ---- the wait-for argument ----------------------------------------------- *)

(* If every thread that wants l while owning h does so along an edge (h, l)
   of a ranked graph with bounded ranks, no set of threads is deadlocked:
   following "the owner of the lock I want" inside the set climbs strictly in
   rank for ever. *)
Lemma no_deadlock_generic : forall g rk M (wants : tid -> lock -> Prop) (o : owners),
  ranked g rk -> (forall l, rk l <= M) ->
  (forall t l h, wants t l -> o h = Some t -> edge g h l) ->
  forall D, ~ deadlocked wants o D.
Proof.
  intros g rk M wants o Hr HM Hinv D [[t0 Ht0] Hall].
  assert (climb : forall n t l t', D t -> wants t l -> o l = Some t' -> D t' ->
                   (N.to_nat (M - rk l) < n)%nat -> False).
  { induction n as [|n IH]; intros t l t' Dt Wt Ol Dt' Hn; [lia|].
    destruct (Hall t' Dt') as [l' [t'' [Wt' [Ol' Dt'']]]].
    assert (He : edge g l l') by (apply (Hinv t' l' l Wt' Ol)).
    apply Hr in He. specialize (HM l').
    apply (IH t' l' t'' Dt' Wt' Ol' Dt''). lia. }
  destruct (Hall t0 Ht0) as [l [t' [W [O Dt']]]].
  apply (climb (S (N.to_nat (M - rk l))) t0 l t' Ht0 W O Dt'). lia.
Qed.

Lemma no_deadlock_acyclicb : forall g (wants : tid -> lock -> Prop) (o : owners),
  acyclicb g = true ->
  (forall t l h, wants t l -> o h = Some t -> edge g h l) ->
  forall D, ~ deadlocked wants o D.
Proof.
  intros g wants o Hac Hinv D.
  apply (no_deadlock_generic g (lookup (ranks g)) (table_max (ranks g)) wants o).
  - apply acyclicb_ranked. exact Hac.
  - apply lookup_le_max.
  - exact Hinv.
Qed.

(* ---- small facts about the updates --------------------------------------- *)

Lemma set_at_same : forall A (f : tid -> A) t v, set_at f t v t = v.
Proof. intros. unfold set_at. rewrite Nat.eqb_refl. reflexivity. Qed.

Lemma set_at_other : forall A (f : tid -> A) t v x, x <> t -> set_at f t v x = f x.
Proof. intros A f t v x H. unfold set_at. apply Nat.eqb_neq in H. rewrite H. reflexivity. Qed.

Lemma set_owner_same : forall o l v, set_owner o l v l = v.
Proof. intros. unfold set_owner. rewrite N.eqb_refl. reflexivity. Qed.

Lemma set_owner_other : forall o l v x, x <> l -> set_owner o l v x = o x.
Proof. intros o l v x H. unfold set_owner. apply N.eqb_neq in H. rewrite H. reflexivity. Qed.

(* ---- program machine ------------------------------------------------------ *)

Lemma respects_anti : forall g p (H H' : lock -> Prop),
  (forall x, H' x -> H x) -> respects g H p -> respects g H' p.
Proof.
  intros g p. induction p as [|[l|l] r IH]; intros H H' Hsub Hr; cbn [respects] in *.
  - exact I.
  - destruct Hr as [He Hr]. split.
    + intros h Hh. apply He. apply Hsub. exact Hh.
    + apply IH with (fun x => x = l \/ H x); [|exact Hr].
      intros x [Hx|Hx]; [left; exact Hx|right; apply Hsub; exact Hx].
  - apply IH with (fun x => x <> l /\ H x); [|exact Hr].
    intros x [Hx1 Hx2]. split; [exact Hx1|apply Hsub; exact Hx2].
Qed.

Definition pinv (g : graph) (s : pstate) : Prop :=
  forall t, respects g (fun l => powner s l = Some t) (progs s t).

Lemma pinv_init : forall g s, pinit g s -> pinv g s.
Proof.
  intros g s [Ho Hp] t. apply respects_anti with (fun _ => False); [|apply Hp].
  intros x Hx. rewrite Ho in Hx. discriminate.
Qed.

Lemma pinv_step : forall g s s', pinv g s -> pstep s s' -> pinv g s'.
Proof.
  intros g s s' Hinv Hst. destruct Hst as [s t l r Hp Ho|s t l r Hp Ho]; intro u; cbn [progs powner].
  - (* acquire *)
    destruct (Nat.eq_dec u t) as [->|Hne].
    + rewrite set_at_same. specialize (Hinv t). rewrite Hp in Hinv. cbn [respects] in Hinv.
      destruct Hinv as [_ Hr]. apply respects_anti with (fun x => x = l \/ powner s x = Some t); [|exact Hr].
      intros x Hx. destruct (N.eq_dec x l) as [->|Hxl]; [left; reflexivity|right].
      rewrite set_owner_other in Hx by exact Hxl. exact Hx.
    + rewrite set_at_other by exact Hne. apply respects_anti with (fun x => powner s x = Some u); [|apply Hinv].
      intros x Hx. destruct (N.eq_dec x l) as [->|Hxl].
      * rewrite set_owner_same in Hx. congruence.
      * rewrite set_owner_other in Hx by exact Hxl. exact Hx.
  - (* release *)
    destruct (Nat.eq_dec u t) as [->|Hne].
    + rewrite set_at_same. specialize (Hinv t). rewrite Hp in Hinv. cbn [respects] in Hinv.
      apply respects_anti with (fun x => x <> l /\ powner s x = Some t); [|exact Hinv].
      intros x Hx. destruct (N.eq_dec x l) as [->|Hxl].
      * rewrite set_owner_same in Hx. discriminate.
      * rewrite set_owner_other in Hx by exact Hxl. split; [exact Hxl|exact Hx].
    + rewrite set_at_other by exact Hne. apply respects_anti with (fun x => powner s x = Some u); [|apply Hinv].
      intros x Hx. destruct (N.eq_dec x l) as [->|Hxl].
      * rewrite set_owner_same in Hx. discriminate.
      * rewrite set_owner_other in Hx by exact Hxl. exact Hx.
Qed.

Lemma pinv_reach : forall g s0 s, pinit g s0 -> preach s0 s -> pinv g s.
Proof.
  intros g s0 s Hi Hr. induction Hr as [|s s' _ IH Hst].
  - apply pinv_init. exact Hi.
  - apply pinv_step with s; assumption.
Qed.

Lemma pinv_wants : forall g s, pinv g s ->
  forall t l h, pwants s t l -> powner s h = Some t -> edge g h l.
Proof.
  intros g s Hinv t l h [r Hp] Ho. specialize (Hinv t). rewrite Hp in Hinv.
  cbn [respects] in Hinv. destruct Hinv as [He _]. apply He. exact Ho.
Qed.

Theorem program_no_deadlock : forall g s0 s,
  acyclicb g = true -> pinit g s0 -> preach s0 s -> ~ pdeadlock s.
Proof.
  intros g s0 s Hac Hi Hr [D HD].
  apply (no_deadlock_acyclicb g (pwants s) (powner s) Hac) with (D := D); [|exact HD].
  apply pinv_wants. apply pinv_reach with s0; assumption.
Qed.

(* a thread never asks for a lock of a class it already holds (self-deadlock
   of a non-reentrant mutex): that would need a self-edge *)
Theorem program_no_self_deadlock : forall g s0 s t l,
  acyclicb g = true -> pinit g s0 -> preach s0 s ->
  pwants s t l -> powner s l <> Some t.
Proof.
  intros g s0 s t l Hac Hi Hr Hw Ho.
  assert (He : edge g l l) by (apply (pinv_wants g s (pinv_reach g s0 s Hi Hr) t l l Hw Ho)).
  exact (acyclicb_sound g Hac l (path_one g l l He)).
Qed.

Lemma respectsb_sound : forall g p h,
  respectsb g h p = true -> respects g (fun x => In x h) p.
Proof.
  intros g p. induction p as [|[l|l] r IH]; intros h Hb; cbn [respects respectsb] in *.
  - exact I.
  - apply andb_true_iff in Hb. destruct Hb as [H1 H2]. split.
    + intros x Hx. rewrite forallb_forall in H1. apply has_edge_sound. apply H1. exact Hx.
    + apply respects_anti with (fun x => In x (l :: h)); [|apply IH; exact H2].
      intros x [Hx|Hx]; [left; symmetry; exact Hx|right; exact Hx].
  - apply respects_anti with (fun x => In x (remove_one l h)); [|apply IH; exact Hb].
    intros x [Hx1 Hx2]. clear Hb IH. induction h as [|y h IHh]; [contradiction|].
    cbn [remove_one]. destruct (y =? l) eqn:E.
    + apply N.eqb_eq in E. subst y. destruct Hx2 as [Hx2|Hx2]; [congruence|exact Hx2].
    + destruct Hx2 as [Hx2|Hx2]; [left; exact Hx2|right; apply IHh; exact Hx2].
Qed.

(* ---- free machine ---------------------------------------------------------- *)

Definition finv (g : graph) (s : fstate) : Prop :=
  forall t l h, fwant s t = Some l -> fowner s h = Some t -> edge g h l.

Lemma finv_init : forall g s, finit s -> finv g s.
Proof. intros g s [Hw _] t l h H. rewrite Hw in H. discriminate. Qed.

Lemma finv_step : forall g s s', finv g s -> fstep g s s' -> finv g s'.
Proof.
  intros g s s' Hinv Hst.
  destruct Hst as [s t l Hw Hd|s t l Hw Ho|s t l Hw Ho]; intros u l' h Hu Hh; cbn [fwant fowner] in *.
  - destruct (Nat.eq_dec u t) as [->|Hne].
    + rewrite set_at_same in Hu. injection Hu as <-. apply Hd. exact Hh.
    + rewrite set_at_other in Hu by exact Hne. apply (Hinv u l' h Hu Hh).
  - destruct (Nat.eq_dec u t) as [->|Hne].
    + rewrite set_at_same in Hu. discriminate.
    + rewrite set_at_other in Hu by exact Hne.
      destruct (N.eq_dec h l) as [->|Hhl].
      * rewrite set_owner_same in Hh. congruence.
      * rewrite set_owner_other in Hh by exact Hhl. apply (Hinv u l' h Hu Hh).
  - destruct (N.eq_dec h l) as [->|Hhl].
    + rewrite set_owner_same in Hh. discriminate.
    + rewrite set_owner_other in Hh by exact Hhl. apply (Hinv u l' h Hu Hh).
Qed.

Lemma finv_reach : forall g s0 s, finit s0 -> freach g s0 s -> finv g s.
Proof.
  intros g s0 s Hi Hr. induction Hr as [|s s' _ IH Hst].
  - apply finv_init. exact Hi.
  - apply finv_step with s; assumption.
Qed.

Theorem free_no_deadlock : forall g s0 s,
  acyclicb g = true -> finit s0 -> freach g s0 s -> ~ fdeadlock s.
Proof.
  intros g s0 s Hac Hi Hr [D HD].
  apply (no_deadlock_acyclicb g (fwants s) (fowner s) Hac) with (D := D); [|exact HD].
  intros t l h Hw Ho. apply (finv_reach g s0 s Hi Hr t l h Hw Ho).
Qed.

(* ---- the hypothesis is needed --------------------------------------------- *)

(* with the two orders A-then-B and B-then-A both allowed, two threads reach a
   deadlock: thread 0 holds lock 0 and wants 1, thread 1 holds 1 and wants 0 *)
Definition inverted_graph : graph := [(0, 1); (1, 0)].

Definition inverted_start : pstate :=
  {| progs := fun t => match t with
                       | O => [Acq 0; Acq 1]
                       | S O => [Acq 1; Acq 0]
                       | _ => []
                       end;
     powner := fun _ => None |}.

Lemma inverted_order_deadlocks :
  acyclicb inverted_graph = false /\
  exists s, pinit inverted_graph inverted_start /\ preach inverted_start s /\ pdeadlock s.
Proof.
  split; [vm_compute; reflexivity|].
  set (s1 := {| progs := set_at (progs inverted_start) 0%nat [Acq 1];
                powner := set_owner (powner inverted_start) 0 (Some 0%nat) |}).
  set (s2 := {| progs := set_at (progs s1) 1%nat [Acq 0];
                powner := set_owner (powner s1) 1 (Some 1%nat) |}).
  exists s2. split; [|split].
  - split; [intro l; reflexivity|].
    intros [|[|t]]; cbn [inverted_start progs respects].
    + split; [intros h []|]. split; [|exact I].
      intros h [->|[]]. left. reflexivity.
    + split; [intros h []|]. split; [|exact I].
      intros h [->|[]]. right. left. reflexivity.
    + exact I.
  - apply pr_step with s1.
    + apply pr_step with inverted_start; [apply pr_refl|].
      apply (ps_acq inverted_start 0%nat 0 [Acq 1]); reflexivity.
    + apply (ps_acq s1 1%nat 1 [Acq 0]); reflexivity.
  - exists (fun t => t = 0%nat \/ t = 1%nat). split.
    + exists 0%nat. left. reflexivity.
    + intros t [->| ->].
      * exists 1, 1%nat. split; [exists []; reflexivity|]. split; [reflexivity|right; reflexivity].
      * exists 0, 0%nat. split; [exists []; reflexivity|]. split; [reflexivity|left; reflexivity].
Qed.

(* a thread that leaks a lock (returns without releasing it) and later takes
   it again blocks on itself for ever: the one-thread deadlock *)
Definition leak_start : pstate :=
  {| progs := fun t => match t with O => [Acq 0; Acq 0] | _ => [] end;
     powner := fun _ => None |}.

Lemma leaked_lock_self_deadlock :
  exists s, preach leak_start s /\ pdeadlock s.
Proof.
  set (s1 := {| progs := set_at (progs leak_start) 0%nat [Acq 0];
                powner := set_owner (powner leak_start) 0 (Some 0%nat) |}).
  exists s1. split.
  - apply pr_step with leak_start; [apply pr_refl|].
    apply (ps_acq leak_start 0%nat 0 [Acq 0]); reflexivity.
  - exists (fun t => t = 0%nat). split; [exists 0%nat; reflexivity|].
    intros t ->. exists 0, 0%nat. split; [exists []; reflexivity|]. split; reflexivity.
Qed.

(* every edge of a graph is realisable by a well-formed program *)
Lemma edge_program_respects : forall g a b,
  In (a, b) g -> respects g (fun _ => False) [Acq a; Acq b; Rel b; Rel a].
Proof.
  intros g a b Hin. cbn [respects]. split; [intros h []|]. split; [|exact I].
  intros h [->|[]]. exact Hin.
Qed.
