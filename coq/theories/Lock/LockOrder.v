(* C20, general part: lock-order graphs over numbered lock classes and the
   executable acyclicity check.  Definitions only (proofs: LockOrderProofs.v).

   A graph is a finite list of edges (a, b): "some thread may acquire b while
   it holds a".  [acyclicb] computes, by |nodes| rounds of relaxation, for every
   node the length of the longest path ending in it and then CHECKS that every
   edge goes strictly upwards.  Only the final check matters for soundness. *)
From Coq Require Import List NArith Bool.
Import ListNotations.
Open Scope N_scope.

Definition lock := N.
Definition graph := list (lock * lock).

Definition edge (g : graph) (a b : lock) : Prop := In (a, b) g.

(* one or more edges *)
Inductive path (g : graph) : lock -> lock -> Prop :=
| path_one  : forall a b, edge g a b -> path g a b
| path_cons : forall a b c, edge g a b -> path g b c -> path g a c.

Definition acyclic (g : graph) : Prop := forall a, ~ path g a a.

(* a rank function: every edge goes strictly upwards *)
Definition ranked (g : graph) (rk : lock -> N) : Prop :=
  forall a b, In (a, b) g -> rk a < rk b.

(* ---- executable part ---------------------------------------------------- *)

Definition rank_table := list (lock * N).

Fixpoint lookup (t : rank_table) (l : lock) : N :=
  match t with
  | [] => 0
  | (k, v) :: r => if k =? l then v else lookup r l
  end.

Fixpoint nodes_acc (g : graph) (acc : list lock) : list lock :=
  match g with
  | [] => acc
  | (a, b) :: r =>
      let acc1 := if existsb (N.eqb a) acc then acc else a :: acc in
      let acc2 := if existsb (N.eqb b) acc1 then acc1 else b :: acc1 in
      nodes_acc r acc2
  end.

Definition nodes (g : graph) : list lock := nodes_acc g [].

(* new rank of b: max over the edges (a, b) of old rank a + 1, at least the old one *)
Definition relax1 (g : graph) (t : rank_table) (b : lock) : N :=
  fold_left (fun m e => if snd e =? b then N.max m (lookup t (fst e) + 1) else m) g (lookup t b).

Definition relax (g : graph) (ns : list lock) (t : rank_table) : rank_table :=
  map (fun n => (n, relax1 g t n)) ns.

Fixpoint relax_n (g : graph) (ns : list lock) (fuel : nat) (t : rank_table) : rank_table :=
  match fuel with
  | O => t
  | S k => relax_n g ns k (relax g ns t)
  end.

Definition ranks (g : graph) : rank_table :=
  let ns := nodes g in relax_n g ns (length ns) (map (fun n => (n, 0)) ns).

Definition check_ranked (g : graph) (t : rank_table) : bool :=
  forallb (fun e => lookup t (fst e) <? lookup t (snd e)) g.

Definition acyclicb (g : graph) : bool := check_ranked g (ranks g).

(* the largest rank in a table: bound used by the deadlock argument *)
Definition table_max (t : rank_table) : N := fold_right (fun kv m => N.max (snd kv) m) 0 t.

(* a closed walk given as the list of its nodes [n0; n1; ...; nk]: every
   consecutive pair and (nk, n0) is an edge.  Used to CONFIRM a cycle. *)
Definition has_edge (g : graph) (a b : lock) : bool :=
  existsb (fun e => (fst e =? a) && (snd e =? b)) g.

Fixpoint walkb (g : graph) (first : lock) (w : list lock) : bool :=
  match w with
  | [] => false
  | [a] => has_edge g a first
  | a :: ((b :: _) as r) => has_edge g a b && walkb g first r
  end.

Definition is_cycleb (g : graph) (w : list lock) : bool :=
  match w with [] => false | a :: _ => walkb g a w end.
