(* C20: the guarded-field facts emitted by the translator and how the reviewed
   whitelist is applied to them.  Definitions only. *)
From Coq Require Import List NArith Bool.
Import ListNotations.
Open Scope N_scope.

(* access kinds: 0 read, 1 address taken, 2 write.
   exempt entry (field, level): accesses of kind <= level are exempt
   (0 immutable after construction; 1 also pointer-receiver getters; 2 self-synchronised) *)
Definition field_exempt (ex : list (N * N)) (f : N) (kind : N) : bool :=
  existsb (fun e => (fst e =? f) && (kind <=? snd e)) ex.

(* accesses (field, kind) reachable without the guarding mutex that the whitelist does not cover *)
Definition field_violations (ex : list (N * N)) (acc : list (N * N)) : list (N * N) :=
  filter (fun a => negb (field_exempt ex (fst a) (snd a))) acc.

(* every mutex class is accounted for: it guards at least one field, or is listed as guarding none *)
Definition classes_covered (all : list N) (guarded_by : list (N * N)) (none : list N) : bool :=
  forallb (fun c => existsb (fun g => snd g =? c) guarded_by || existsb (N.eqb c) none) all.
