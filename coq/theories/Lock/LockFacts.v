(* C20: the guarded-field facts emitted by the translator and how the reviewed
   whitelist is applied to them.  Definitions only. *)
From Coq Require Import List NArith Bool.
Import ListNotations.
Open Scope N_scope.

(* exempt entry: (field, true = every access | false = reads only) *)
Definition field_exempt (ex : list (N * bool)) (f : N) (is_read : bool) : bool :=
  existsb (fun e => (fst e =? f) && (snd e || is_read)) ex.

(* accesses (field, is_read) reachable without the guarding mutex that the whitelist does not cover *)
Definition field_violations (ex : list (N * bool)) (acc : list (N * bool)) : list (N * bool) :=
  filter (fun a => negb (field_exempt ex (fst a) (snd a))) acc.
