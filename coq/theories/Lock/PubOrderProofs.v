(* C20, publication order: the boolean check is sound for every linearisation
   of an abstract trace. *)
From Coq Require Import List NArith Bool Lia.
From Lal Require Import Lock.PubOrder.
Import ListNotations.
Open Scope N_scope.

Section Proofs.
  Variable owner  : N -> N.
  Variable shared : N -> N -> bool.
  Variable covers : N -> N -> bool.
  Variable exempt : N -> N -> bool.

  Notation hazard := (hazard owner shared covers exempt).
  Notation safeb := (safeb owner shared covers exempt).
  Notation races_at := (races_at owner shared covers exempt).

  Lemma hazard_mono : forall p q f, incl p q -> hazard p f = true -> hazard q f = true.
  Proof.
    unfold PubOrder.hazard. intros p q f Hi He. apply existsb_exists in He. destruct He as [t [Hin Ht]].
    apply existsb_exists. exists t. split; [apply Hi; exact Hin|exact Ht].
  Qed.

  Lemma hazard_intro : forall p f t, In t p -> shared t f = true -> covers t (owner f) = true -> exempt t f = false ->
    hazard p f = true.
  Proof.
    intros p f t Hin Hs Hc He. unfold PubOrder.hazard.
    apply existsb_exists. exists t. split; [exact Hin|]. rewrite Hs, Hc, He. reflexivity.
  Qed.

  (* the events of a bag, in any order, started with published types p that are
     all among ps ++ pubd *)
  Lemma bag_sound : forall ws ps pubd l b,
    forallb (fun f => negb (hazard (ps ++ pubd) f)) ws = true ->
    (forall p', incl p' (ps ++ pubd) -> ~ races_at p' l) ->
    Forall (in_bag ws ps) b ->
    forall p, incl p (ps ++ pubd) -> ~ races_at p (b ++ l).
  Proof.
    intros ws ps pubd l b Hws Hl Hb. induction Hb as [|e b He Hb IH]; intros p Hp.
    - cbn [app]. apply Hl. exact Hp.
    - intros [pre [f [post [t [Heq [Hpub [Hs [Hc Hx]]]]]]]].
      destruct pre as [|e' pre'].
      + cbn [app] in Heq. injection Heq as He' _. subst e.
        destruct Hpub as [Hpub|[]]. cbn [in_bag] in He.
        rewrite forallb_forall in Hws. specialize (Hws f He).
        rewrite (hazard_intro (ps ++ pubd) f t (Hp t Hpub) Hs Hc Hx) in Hws. discriminate.
      + cbn [app] in Heq. injection Heq as He' Hrest. subst e'.
        destruct e as [f0|t0].
        * apply (IH p Hp). exists pre', f, post, t. split; [exact Hrest|]. split; [|auto].
          destruct Hpub as [Hpub|[Hpub|Hpub]]; [left; exact Hpub|discriminate|right; exact Hpub].
        * cbn [in_bag] in He.
          apply (IH (t0 :: p)).
          -- intros x [<-|Hx']; [apply in_or_app; left; exact He|apply Hp; exact Hx'].
          -- exists pre', f, post, t. split; [exact Hrest|]. split; [|auto].
             destruct Hpub as [Hpub|[Hpub|Hpub]].
             ++ left. right. exact Hpub.
             ++ injection Hpub as <-. left. left. reflexivity.
             ++ right. exact Hpub.
  Qed.

  Theorem safeb_sound : forall tr l, lin tr l -> forall pubd, safeb pubd tr = true -> ~ races_at pubd l.
  Proof.
    intros tr l Hlin. induction Hlin as [|f r l Hlin IH|t0 r l Hlin IH|ws ps r b l Hb Hlin IH]; intros pubd Hsafe.
    - intros [pre [f [post [t [Heq _]]]]]. destruct pre; discriminate.
    - cbn [PubOrder.safeb] in Hsafe. apply andb_true_iff in Hsafe. destruct Hsafe as [Hh Hr].
      intros [pre [f' [post [t [Heq [Hpub [Hs [Hc Hx]]]]]]]].
      destruct pre as [|e pre'].
      + cbn [app] in Heq. injection Heq as <- _. destruct Hpub as [Hpub|[]].
        rewrite (hazard_intro pubd f t Hpub Hs Hc Hx) in Hh. discriminate.
      + cbn [app] in Heq. injection Heq as <- Hrest.
        apply (IH pubd Hr). exists pre', f', post, t. split; [exact Hrest|]. split; [|auto].
        destruct Hpub as [Hpub|[Hpub|Hpub]]; [left; exact Hpub|discriminate|right; exact Hpub].
    - cbn [PubOrder.safeb] in Hsafe.
      intros [pre [f [post [t [Heq [Hpub [Hs [Hc Hx]]]]]]]].
      destruct pre as [|e pre']; [discriminate|].
      cbn [app] in Heq. injection Heq as <- Hrest.
      apply (IH (t0 :: pubd) Hsafe). exists pre', f, post, t. split; [exact Hrest|]. split; [|auto].
      destruct Hpub as [Hpub|[Hpub|Hpub]].
      + left. right. exact Hpub.
      + injection Hpub as <-. left. left. reflexivity.
      + right. exact Hpub.
    - cbn [PubOrder.safeb] in Hsafe. apply andb_true_iff in Hsafe. destruct Hsafe as [Hws Hr].
      apply (bag_sound ws ps pubd l b Hws); [|exact Hb|].
      + intros p' Hp' Hrace. apply (IH (ps ++ pubd) Hr).
        destruct Hrace as [pre [f [post [t [Heq [Hpub [Hs [Hc Hx]]]]]]]].
        exists pre, f, post, t. split; [exact Heq|]. split; [|auto].
        destruct Hpub as [Hpub|Hpub]; [left; apply Hp'; exact Hpub|right; exact Hpub].
      + intros x Hx. apply in_or_app. right. exact Hx.
  Qed.

  (* the check is also complete for traces without bags: a rejected trace has a racing linearisation *)
  Theorem safeb_complete_simple : forall tr pubd,
    (forall e, In e tr -> match e with PBag _ _ => False | _ => True end) ->
    safeb pubd tr = false -> exists l, lin tr l /\ races_at pubd l.
  Proof.
    induction tr as [|e r IH]; intros pubd Hnb Hs; [discriminate|].
    assert (Hnb' : forall e', In e' r -> match e' with PBag _ _ => False | _ => True end)
      by (intros e' He'; apply Hnb; right; exact He').
    destruct e as [f|t|ws ps].
    - cbn [PubOrder.safeb] in Hs. destruct (hazard pubd f) eqn:Hh.
      + (* this write races *)
        assert (Hl : exists l, lin r l).
        { clear -Hnb'. induction r as [|e r IHr]; [exists []; constructor|].
          destruct IHr as [l Hl]; [intros e' He'; apply Hnb'; right; exact He'|].
          specialize (Hnb' e (or_introl eq_refl)).
          destruct e as [f0|t0|]; [exists (SWr f0 :: l)|exists (SPub t0 :: l)|contradiction]; constructor; exact Hl. }
        destruct Hl as [l Hl]. exists (SWr f :: l). split; [constructor; exact Hl|].
        unfold PubOrder.hazard in Hh.
        apply existsb_exists in Hh. destruct Hh as [t [Hin Ht]]. apply andb_true_iff in Ht. destruct Ht as [Ht Hx].
        apply andb_true_iff in Ht. destruct Ht as [Hsh Hc].
        exists [], f, l, t. split; [reflexivity|]. split; [left; exact Hin|]. split; [exact Hsh|]. split; [exact Hc|].
        destruct (exempt t f); [discriminate|reflexivity].
      + cbn [negb andb] in Hs. destruct (IH pubd Hnb' Hs) as [l [Hl [pre [f' [post [t [Heq [Hpub H3]]]]]]]].
        exists (SWr f :: l). split; [constructor; exact Hl|].
        exists (SWr f :: pre), f', post, t. split; [rewrite Heq; reflexivity|]. split; [|exact H3].
        destruct Hpub as [Hpub|Hpub]; [left; exact Hpub|right; right; exact Hpub].
    - cbn [PubOrder.safeb] in Hs. destruct (IH (t :: pubd) Hnb' Hs) as [l [Hl [pre [f' [post [t' [Heq [Hpub H3]]]]]]]].
      exists (SPub t :: l). split; [constructor; exact Hl|].
      exists (SPub t :: pre), f', post, t'. split; [rewrite Heq; reflexivity|]. split; [|exact H3].
      destruct Hpub as [[<-|Hpub]|Hpub]; [right; left; reflexivity|left; exact Hpub|right; right; exact Hpub].
    - exfalso. apply (Hnb (PBag ws ps)). left. reflexivity.
  Qed.
End Proofs.
