(* C20, publication order: definitions.

   A goroutine constructs an object (a session, its connection), initialises
   its plain (non-mutex, non-atomic) fields and then PUBLISHES it: hands it to
   code through which other goroutines reach it (observer.OnNew*Session /
   group.Add*Session, a go statement, a channel send, a store into a shared map
   under a lock).  Publication is a synchronisation point (it goes through a
   mutex, a channel or goroutine creation), so everything written BEFORE it is
   visible to the other goroutines; a plain write AFTER it to a field those
   goroutines touch is a data race.

   Abstract trace of one construction path (extracted by the translator):
     PWr f        unsynchronised write of field f
     PPub t       publication of an object of struct type t
     PBag ws ps   a call whose callees may perform, in unknown order and any
                  number of times, the writes ws and the publications ps *)
From Coq Require Import List NArith Bool.
Import ListNotations.
Open Scope N_scope.

Inductive pev := PWr (f : N) | PPub (t : N) | PBag (ws : list N) (ps : list N).
Definition ptrace := list pev.

(* a concrete (linear) event sequence *)
Inductive sev := SWr (f : N) | SPub (t : N).

Definition in_bag (ws ps : list N) (e : sev) : Prop :=
  match e with SWr f => In f ws | SPub t => In t ps end.

Inductive lin : ptrace -> list sev -> Prop :=
| lin_nil : lin [] []
| lin_wr  : forall f r l, lin r l -> lin (PWr f :: r) (SWr f :: l)
| lin_pub : forall t r l, lin r l -> lin (PPub t :: r) (SPub t :: l)
| lin_bag : forall ws ps r b l, Forall (in_bag ws ps) b -> lin r l -> lin (PBag ws ps :: r) (b ++ l).

Section PubOrder.
  Variable owner  : N -> N.          (* field -> the struct type it belongs to *)
  Variable shared : N -> N -> bool.  (* shared t f: another goroutine reaches field f through a published object of type t *)
  Variable covers : N -> N -> bool.  (* publishing t makes objects of type t' reachable (t' = t, or through fields) *)
  Variable exempt : N -> N -> bool.  (* reviewed (published type, field) pairs *)

  (* a write of f is hazardous once a type covering f's owner has been published *)
  Definition hazard (pubd : list N) (f : N) : bool :=
    existsb (fun t => shared t f && covers t (owner f) && negb (exempt t f)) pubd.

  Fixpoint safeb (pubd : list N) (tr : ptrace) : bool :=
    match tr with
    | [] => true
    | PWr f :: r => negb (hazard pubd f) && safeb pubd r
    | PPub t :: r => safeb (t :: pubd) r
    | PBag ws ps :: r => forallb (fun f => negb (hazard (ps ++ pubd) f)) ws && safeb (ps ++ pubd) r
    end.

  (* the property: in the linear sequence l (started with the types pubd already
     published) some unsynchronised write of a shared field follows a
     publication that covers its owner *)
  Definition races_at (pubd : list N) (l : list sev) : Prop :=
    exists pre f post t,
      l = pre ++ SWr f :: post /\ (In t pubd \/ In (SPub t) pre) /\
      shared t f = true /\ covers t (owner f) = true /\ exempt t f = false.
End PubOrder.

(* table lookups used by the generated instance *)
Fixpoint assoc_default (t : list (N * N)) (k d : N) : N :=
  match t with [] => d | (a, b) :: r => if a =? k then b else assoc_default r k d end.

Definition memN (l : list N) (x : N) : bool := existsb (N.eqb x) l.

Definition mem_pair (l : list (N * N)) (a b : N) : bool :=
  existsb (fun p => (fst p =? a) && (snd p =? b)) l.
