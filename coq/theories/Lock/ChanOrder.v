(* C20, channel discipline: definitions.

   A send on a closed channel panics ("send on closed channel"), and so does a
   second close.  For one channel that is closed somewhere, the machine below
   runs any number of threads, each a finite list of the actions the translator
   extracts for the recognised protocols:

     CSend        plain send                     (panics when the channel is closed)
     CClose       plain close                    (panics when it is closed already)
     CGuardSend   under the protocol mutex: if the closed flag is clear, send
     CFlagClose   under the protocol mutex: if the flag is clear, set it and close
     CDone        WaitGroup.Done of a sender goroutine
     CWaitClose   WaitGroup.Wait has returned (counter 0), then close

   The sections CGuardSend / CFlagClose are atomic steps because both run with
   the same mutex held (a translator fact). *)
From Coq Require Import List NArith Bool Arith.
Import ListNotations.

Inductive cact := CSend | CClose | CGuardSend | CFlagClose | CDone | CWaitClose.

Record cstate := {
  closed  : bool;            (* the channel *)
  flag    : bool;            (* the "closed" flag of protocol (a) *)
  pending : nat;             (* WaitGroup counter of protocol (d) *)
  cprogs  : nat -> list cact (* remaining actions of every thread *)
}.

Definition cset (f : nat -> list cact) (t : nat) (p : list cact) : nat -> list cact :=
  fun x => if Nat.eqb x t then p else f x.

Inductive cres := CStep (s : cstate) | CPanic.

(* one step of thread t (None: the thread has nothing to do or is blocked) *)
Definition cstep (s : cstate) (t : nat) : option cres :=
  match cprogs s t with
  | [] => None
  | a :: r =>
      let adv c f p := CStep {| closed := c; flag := f; pending := p; cprogs := cset (cprogs s) t r |} in
      match a with
      | CSend => Some (if closed s then CPanic else adv (closed s) (flag s) (pending s))
      | CClose => Some (if closed s then CPanic else adv true (flag s) (pending s))
      | CGuardSend =>
          Some (if flag s then adv (closed s) (flag s) (pending s)
                else if closed s then CPanic else adv (closed s) (flag s) (pending s))
      | CFlagClose =>
          Some (if flag s then adv (closed s) (flag s) (pending s)
                else if closed s then CPanic else adv true true (pending s))
      | CDone => Some (adv (closed s) (flag s) (Nat.pred (pending s)))
      | CWaitClose =>
          match pending s with
          | O => Some (if closed s then CPanic else adv true (flag s) O)
          | S _ => None (* Wait blocks *)
          end
      end
  end.

Inductive creach (s0 : cstate) : cstate -> Prop :=
| cr_refl : creach s0 s0
| cr_step : forall s t s', creach s0 s -> cstep s t = Some (CStep s') -> creach s0 s'.

Definition cpanics (s0 : cstate) : Prop := exists s t, creach s0 s /\ cstep s t = Some CPanic.

(* ---- the protocols, as conditions on the initial state ------------------------ *)

Definition only (allowed : cact -> bool) (p : list cact) : Prop := Forall (fun a => allowed a = true) p.

(* (a) every thread only uses the guarded sections *)
Definition proto_a (s : cstate) : Prop :=
  closed s = false /\ flag s = false /\
  forall t, only (fun a => match a with CGuardSend | CFlagClose => true | _ => false end) (cprogs s t).

(* (b) a single thread sends and closes, and in its program no send or close follows the close *)
Fixpoint sends_then_close (p : list cact) : bool :=
  match p with
  | [] => true
  | CSend :: r => sends_then_close r
  | CClose :: r => match r with [] => true | _ => false end
  | _ => false
  end.

Definition proto_b (s : cstate) (owner : nat) : Prop :=
  closed s = false /\ sends_then_close (cprogs s owner) = true /\
  forall t, t <> owner -> cprogs s t = [].

(* (d) senders are joined before the close: every sender thread is sends ++ [CDone] and is
   counted in pending; the closer is [CWaitClose]; nobody else touches the channel *)
Fixpoint sender_prog (p : list cact) : bool :=
  match p with
  | [CDone] => true
  | CSend :: r => sender_prog r
  | _ => false
  end.

Definition proto_d (s : cstate) (closer : nat) (senders : list nat) : Prop :=
  closed s = false /\ NoDup senders /\ ~ In closer senders /\ pending s = length senders /\
  cprogs s closer = [CWaitClose] /\
  (forall t, In t senders -> sender_prog (cprogs s t) = true) /\
  (forall t, t <> closer -> ~ In t senders -> cprogs s t = []).

(* ---- what the translator reports per send site of a closed channel -------------- *)
(* protocol ids: 1 = (a) mutex + flag, 2 = (b) unique sender closes, 4 = (d) joined before close;
   0 = none recognised *)
Definition sends_justified (sites : list (N * N * N)) : bool :=
  forallb (fun x => negb (N.eqb (snd x) 0)) sites.

(* close sites: 1 inside sync.Once.Do, 2 flag tested and set under a mutex (both are the
   section CFlagClose), 3 the maker closes its own channel once (protocol (b)), 5 reviewed; 0 none *)
Definition closes_justified (sites : list (N * N * N)) : bool :=
  forallb (fun x => negb (N.eqb (snd x) 0)) sites.

(* escaping values that share guarded memory: (site, justification): 2 the function re-makes the slice / map
   before it takes the value, 3 it hands the memory over (stores a fresh value right after), 5 reviewed; 0 none *)
Definition escapes_justified (sites : list (N * N)) : bool :=
  forallb (fun x => negb (N.eqb (snd x) 0)) sites.
