(* C20, channel discipline: under each recognised protocol no interleaving panics
   (no send on a closed channel, no double close). *)
From Coq Require Import List NArith Bool Arith Lia.
From Lal Require Import Lock.ChanOrder.
Import ListNotations.

Lemma cset_same : forall f t p, cset f t p t = p.
Proof. intros. unfold cset. rewrite Nat.eqb_refl. reflexivity. Qed.

Lemma cset_other : forall f t p x, x <> t -> cset f t p x = f x.
Proof. intros f t p x H. unfold cset. apply Nat.eqb_neq in H. rewrite H. reflexivity. Qed.

Lemma only_tail : forall al a r, only al (a :: r) -> al a = true /\ only al r.
Proof. intros al a r H. inversion H; subst. split; assumption. Qed.

(* ---- (a) ------------------------------------------------------------------------ *)

Definition inv_a (s : cstate) : Prop :=
  (closed s = true -> flag s = true) /\
  forall t, only (fun a => match a with CGuardSend | CFlagClose => true | _ => false end) (cprogs s t).

Lemma inv_a_step : forall s t s', inv_a s -> cstep s t = Some (CStep s') -> inv_a s'.
Proof.
  intros s t s' [Hcf Hon] Hst. unfold cstep in Hst.
  destruct (cprogs s t) as [|a r] eqn:Hp; [discriminate|].
  pose proof (Hon t) as Ht. rewrite Hp in Ht. apply only_tail in Ht. destruct Ht as [Ha Hr].
  assert (Hprogs : forall u, only (fun a => match a with CGuardSend | CFlagClose => true | _ => false end)
                               (cset (cprogs s) t r u)).
  { intro u. destruct (Nat.eq_dec u t) as [->|Hne]; [rewrite cset_same; exact Hr|rewrite cset_other by exact Hne; apply Hon]. }
  destruct a; try discriminate Ha.
  - destruct (flag s) eqn:Hf.
    + injection Hst as <-. split; [cbn; intros _; reflexivity|exact Hprogs].
    + destruct (closed s) eqn:Hc; [discriminate|]. injection Hst as <-. split; [cbn; intro H; discriminate H|exact Hprogs].
  - destruct (flag s) eqn:Hf.
    + injection Hst as <-. split; [cbn; intros _; reflexivity|exact Hprogs].
    + destruct (closed s) eqn:Hc; [discriminate|]. injection Hst as <-. split; [cbn; reflexivity|exact Hprogs].
Qed.

Lemma inv_a_reach : forall s0 s, proto_a s0 -> creach s0 s -> inv_a s.
Proof.
  intros s0 s [Hc [Hf Hon]] Hr. induction Hr as [|s u s' _ IH Hst].
  - split; [intro H; rewrite Hc in H; discriminate|exact Hon].
  - apply inv_a_step with s u; [exact IH|exact Hst].
Qed.

Theorem proto_a_safe : forall s0, proto_a s0 -> ~ cpanics s0.
Proof.
  intros s0 Hpa [s [t [Hr Hp]]].
  pose proof (inv_a_reach s0 s Hpa Hr) as Hinv.
  destruct Hinv as [Hcf Hon']. unfold cstep in Hp.
  destruct (cprogs s t) as [|a r] eqn:Hpt; [discriminate|].
  pose proof (Hon' t) as Ht. rewrite Hpt in Ht. apply only_tail in Ht. destruct Ht as [Ha _].
  destruct a; try discriminate Ha.
  - destruct (flag s) eqn:Hfl; [discriminate|]. destruct (closed s) eqn:Hcl; [|discriminate].
    specialize (Hcf eq_refl). discriminate.
  - destruct (flag s) eqn:Hfl; [discriminate|]. destruct (closed s) eqn:Hcl; [|discriminate].
    specialize (Hcf eq_refl). discriminate.
Qed.

(* ---- (b) ------------------------------------------------------------------------ *)

Definition inv_b (owner : nat) (s : cstate) : Prop :=
  (forall t, t <> owner -> cprogs s t = []) /\
  ((closed s = false /\ sends_then_close (cprogs s owner) = true) \/ (closed s = true /\ cprogs s owner = [])).

Lemma inv_b_step : forall owner s t s', inv_b owner s -> cstep s t = Some (CStep s') -> inv_b owner s'.
Proof.
  intros owner s t s' [Hoth Hown] Hst. unfold cstep in Hst.
  destruct (cprogs s t) as [|a r] eqn:Hp; [discriminate|].
  assert (t = owner) as -> by (destruct (Nat.eq_dec t owner) as [E|E]; [exact E|rewrite (Hoth t E) in Hp; discriminate]).
  assert (Hoth' : forall u, u <> owner -> cset (cprogs s) owner r u = []).
  { intros u Hu. rewrite cset_other by exact Hu. apply Hoth. exact Hu. }
  destruct Hown as [[Hc Hs]|[Hc He]]; [|rewrite He in Hp; discriminate].
  rewrite Hp in Hs. destruct a; cbn [sends_then_close] in Hs; try discriminate Hs.
  - rewrite Hc in Hst. injection Hst as <-. split; [exact Hoth'|]. left. cbn. rewrite cset_same. split; [first [exact Hc|reflexivity]|exact Hs].
  - rewrite Hc in Hst. injection Hst as <-. split; [exact Hoth'|]. right. cbn. rewrite cset_same.
    split; [reflexivity|]. destruct r; [reflexivity|discriminate].
Qed.

Lemma inv_b_reach : forall s0 owner s, proto_b s0 owner -> creach s0 s -> inv_b owner s.
Proof.
  intros s0 owner s [Hc [Hs Hoth]] Hr. induction Hr as [|s u s' _ IH Hst].
  - split; [exact Hoth|left; split; assumption].
  - apply inv_b_step with s u; [exact IH|exact Hst].
Qed.

Theorem proto_b_safe : forall s0 owner, proto_b s0 owner -> ~ cpanics s0.
Proof.
  intros s0 owner Hpb [s [t [Hr Hp]]].
  pose proof (inv_b_reach s0 owner s Hpb Hr) as Hinv.
  destruct Hinv as [Hoth' Hown]. unfold cstep in Hp.
  destruct (cprogs s t) as [|a r] eqn:Hpt; [discriminate|].
  assert (t = owner) as -> by (destruct (Nat.eq_dec t owner) as [E|E]; [exact E|rewrite (Hoth' t E) in Hpt; discriminate]).
  destruct Hown as [[Hcl Hss]|[Hcl He]]; [|rewrite He in Hpt; discriminate].
  rewrite Hpt in Hss. destruct a; cbn [sends_then_close] in Hss; try discriminate Hss; rewrite Hcl in Hp; discriminate.
Qed.

(* ---- (d) ------------------------------------------------------------------------ *)

(* the senders that still have their CDone ahead are exactly counted by pending;
   once the channel is closed every sender has finished *)
Definition inv_d (closer : nat) (s : cstate) : Prop :=
  exists live : list nat,
    NoDup live /\ ~ In closer live /\ pending s = length live /\
    (forall t, In t live -> sender_prog (cprogs s t) = true) /\
    (forall t, t <> closer -> ~ In t live -> cprogs s t = []) /\
    ((closed s = false /\ cprogs s closer = [CWaitClose]) \/ (closed s = true /\ cprogs s closer = [] /\ live = [])).

Lemma sender_prog_cases : forall p, sender_prog p = true ->
  p = [CDone] \/ exists r, p = CSend :: r /\ sender_prog r = true.
Proof.
  intros [|a r] H; [discriminate|]. destruct a; cbn [sender_prog] in H; try discriminate H.
  - right. exists r. split; [reflexivity|exact H].
  - destruct r; [left; reflexivity|discriminate].
Qed.

Lemma remove_live : forall (l : list nat) t, NoDup l -> In t l ->
  exists l', NoDup l' /\ length l = S (length l') /\ ~ In t l' /\ (forall x, In x l' <-> In x l /\ x <> t).
Proof.
  induction l as [|a l IH]; intros t Hnd Hin; [contradiction|].
  inversion Hnd as [|? ? Hna Hnd']; subst. destruct Hin as [->|Hin].
  - exists l. split; [exact Hnd'|]. split; [reflexivity|]. split; [exact Hna|].
    intro x. split; [intro Hx; split; [right; exact Hx|intro; subst; contradiction]|intros [[->|Hx] Hne]; [contradiction|exact Hx]].
  - destruct (IH t Hnd' Hin) as [l' [Hnd2 [Hlen [Hnt Hiff]]]].
    assert (Hat : a <> t) by (intro; subst; contradiction).
    exists (a :: l'). split; [constructor; [intro Ha; apply Hiff in Ha; destruct Ha; contradiction|exact Hnd2]|].
    split; [cbn; rewrite Hlen; reflexivity|]. split; [intros [E|Hx]; [contradiction|contradiction]|].
    intro x. cbn [In]. rewrite Hiff. split.
    + intros [->|[Hx Hne]]; [split; [left; reflexivity|exact Hat]|split; [right; exact Hx|exact Hne]].
    + intros [[->|Hx] Hne]; [left; reflexivity|right; split; assumption].
Qed.

Lemma inv_d_step : forall closer s t s', inv_d closer s -> cstep s t = Some (CStep s') -> inv_d closer s'.
Proof.
  intros closer s t s' [live [Hnd [Hncl [Hpen [Hsend [Hidle Hcl]]]]]] Hst. unfold cstep in Hst.
  destruct (cprogs s t) as [|a r] eqn:Hp; [discriminate|].
  destruct (Nat.eq_dec t closer) as [->|Htc].
  - (* the closer *)
    destruct Hcl as [[Hc Hcp]|[Hc [Hcp _]]]; [|rewrite Hcp in Hp; discriminate].
    rewrite Hcp in Hp. injection Hp as <- <-. destruct (pending s) eqn:Hpe; [|discriminate].
    rewrite Hc in Hst. injection Hst as <-.
    assert (live = []) as -> by (destruct live; [reflexivity|cbn in Hpen; discriminate Hpen]).
    exists []. cbn. split; [constructor|]. split; [intros []|]. split; [reflexivity|]. split; [intros ? []|].
    split; [intros u Hu _; rewrite cset_other by exact Hu; apply Hidle; [exact Hu|intros []]|].
    right. rewrite cset_same. repeat split; reflexivity.
  - (* a sender *)
    destruct (in_dec Nat.eq_dec t live) as [Hin|Hnin]; [|rewrite (Hidle t Htc Hnin) in Hp; discriminate].
    pose proof (Hsend t Hin) as Hsp. rewrite Hp in Hsp.
    destruct Hcl as [[Hc Hcp]|[Hc [_ He]]]; [|subst live; contradiction].
    apply sender_prog_cases in Hsp. destruct Hsp as [Hd|[r' [Hs Hr']]].
    + (* CDone *)
      injection Hd as -> ->. injection Hst as <-.
      destruct (remove_live live t Hnd Hin) as [l' [Hnd2 [Hlen [Hnt Hiff]]]].
      exists l'. cbn. split; [exact Hnd2|]. split; [intro Hx; apply Hiff in Hx; destruct Hx; contradiction|].
      split; [rewrite Hpen, Hlen; reflexivity|].
      split; [intros u Hu; apply Hiff in Hu; destruct Hu as [Hu Hne]; rewrite cset_other by exact Hne; apply Hsend; exact Hu|].
      split.
      * intros u Huc Hul. destruct (Nat.eq_dec u t) as [->|Hne]; [rewrite cset_same; reflexivity|].
        rewrite cset_other by exact Hne. apply Hidle; [exact Huc|]. intro Hx. apply Hul. apply Hiff. split; assumption.
      * left. split; [first [exact Hc|reflexivity]|]. rewrite cset_other by (intro E; apply Htc; symmetry; exact E). exact Hcp.
    + (* CSend *)
      injection Hs as -> ->. rewrite Hc in Hst. injection Hst as <-.
      exists live. cbn. split; [exact Hnd|]. split; [exact Hncl|]. split; [exact Hpen|].
      split; [intros u Hu; destruct (Nat.eq_dec u t) as [->|Hne]; [rewrite cset_same; exact Hr'|rewrite cset_other by exact Hne; apply Hsend; exact Hu]|].
      split; [intros u Huc Hul; rewrite cset_other by (intro; subst; contradiction); apply Hidle; assumption|].
      left. split; [first [exact Hc|reflexivity]|]. rewrite cset_other by (intro E; apply Htc; symmetry; exact E). exact Hcp.
Qed.

Lemma inv_d_reach : forall s0 closer senders s, proto_d s0 closer senders -> creach s0 s -> inv_d closer s.
Proof.
  intros s0 closer senders s [Hc [Hnd [Hncl [Hpen [Hcp [Hsend Hidle]]]]]] Hr. induction Hr as [|s u s' _ IH Hst].
  - exists senders. split; [exact Hnd|]. split; [exact Hncl|]. split; [exact Hpen|]. split; [exact Hsend|].
    split; [exact Hidle|]. left. split; assumption.
  - apply inv_d_step with s u; [exact IH|exact Hst].
Qed.

Theorem proto_d_safe : forall s0 closer senders, proto_d s0 closer senders -> ~ cpanics s0.
Proof.
  intros s0 closer senders Hpd [s [t [Hr Hp]]].
  pose proof (inv_d_reach s0 closer senders s Hpd Hr) as Hinv.
  destruct Hinv as [live [Hnd' [Hncl' [Hpen' [Hsend' [Hidle' Hcl]]]]]]. unfold cstep in Hp.
  destruct (cprogs s t) as [|a r] eqn:Hpt; [discriminate|].
  destruct (Nat.eq_dec t closer) as [->|Htc].
  - destruct Hcl as [[Hcc Hcpp]|[Hcc [Hcpp _]]]; [|rewrite Hcpp in Hpt; discriminate].
    rewrite Hcpp in Hpt. injection Hpt as <- <-. destruct (pending s); [rewrite Hcc in Hp; discriminate|discriminate].
  - destruct (in_dec Nat.eq_dec t live) as [Hin|Hnin]; [|rewrite (Hidle' t Htc Hnin) in Hpt; discriminate].
    destruct Hcl as [[Hcc _]|[_ [_ He]]]; [|subst live; contradiction].
    pose proof (Hsend' t Hin) as Hsp. rewrite Hpt in Hsp. apply sender_prog_cases in Hsp.
    destruct Hsp as [Hd|[r' [Hs _]]].
    + injection Hd as -> ->. discriminate.
    + injection Hs as -> ->. rewrite Hcc in Hp. discriminate.
Qed.

(* ---- the hypotheses matter: flag test and send not under one mutex ------------- *)

(* the seeded shape: the sender tests a flag (sees it clear), the closer sets the flag and
   closes, the sender sends.  As separate steps this is CSend racing with CClose. *)
Definition unprotected_start : cstate :=
  {| closed := false; flag := false; pending := 0;
     cprogs := fun t => match t with O => [CSend] | S O => [CClose] | _ => [] end |}.

Lemma unprotected_send_panics : cpanics unprotected_start.
Proof.
  set (s1 := {| closed := true; flag := false; pending := 0; cprogs := cset (cprogs unprotected_start) 1 [] |}).
  exists s1, 0. split.
  - apply cr_step with unprotected_start 1; [apply cr_refl|reflexivity].
  - reflexivity.
Qed.

(* two unprotected closes of one channel: the second one panics ("close of closed channel") *)
Definition double_close_start : cstate :=
  {| closed := false; flag := false; pending := 0;
     cprogs := fun t => match t with O => [CClose] | S O => [CClose] | _ => [] end |}.

Lemma double_close_panics : cpanics double_close_start.
Proof.
  set (s1 := {| closed := true; flag := false; pending := 0; cprogs := cset (cprogs double_close_start) 0 [] |}).
  exists s1, 1. split.
  - apply cr_step with double_close_start 0; [apply cr_refl|reflexivity].
  - reflexivity.
Qed.

(* any number of closers that go through the test-and-set section (sync.Once.Do, or a flag under a
   mutex) never close twice: instance of protocol (a) without senders *)
Corollary once_close_safe : forall s0,
  closed s0 = false -> flag s0 = false ->
  (forall t, only (fun a => match a with CFlagClose => true | _ => false end) (cprogs s0 t)) ->
  ~ cpanics s0.
Proof.
  intros s0 Hc Hf Hon. apply proto_a_safe. split; [exact Hc|]. split; [exact Hf|].
  intro t. specialize (Hon t). unfold only in *. induction Hon as [|a r Ha _ IH]; constructor; [|exact IH].
  destruct a; try discriminate Ha; reflexivity.
Qed.
