(* C20, general part: the abstract lock machine.  Definitions only.

   Any number of threads (thread ids are natural numbers, all of them exist),
   any number of non-reentrant mutexes (Go's sync.Mutex; a read/write mutex is
   treated as exclusive).  Two presentations:

   - program machine: every thread runs a finite sequence of Acq/Rel actions
     (one concrete execution path of a goroutine; any finite prefix of an
     infinite one);
   - free machine: no programs at all - any thread may at any moment announce
     that it wants a lock, the only restriction being the lock-order
     discipline.  It subsumes branching, loops and dynamically created
     threads.

   A deadlock is a non-empty set of threads each of which is blocked on a
   lock owned by a member of the set (a thread blocked on a lock it owns
   itself is the one-element case: sync.Mutex self-deadlock). *)
From Coq Require Import List NArith Bool.
From Lal Require Import Lock.LockOrder.
Import ListNotations.
Open Scope N_scope.

Definition tid := nat.

Inductive action := Acq (l : lock) | Rel (l : lock).
Definition program := list action.

Definition owners := lock -> option tid.

Definition set_owner (o : owners) (l : lock) (v : option tid) : owners :=
  fun x => if x =? l then v else o x.

Definition set_at {A} (f : tid -> A) (t : tid) (v : A) : tid -> A :=
  fun x => if Nat.eqb x t then v else f x.

(* ---- generic notion of deadlock over a "wants" relation ------------------ *)

Definition deadlocked (wants : tid -> lock -> Prop) (o : owners) (D : tid -> Prop) : Prop :=
  (exists t, D t) /\
  forall t, D t -> exists l t', wants t l /\ o l = Some t' /\ D t'.

(* ---- program machine ----------------------------------------------------- *)

Record pstate := { progs : tid -> program; powner : owners }.

Inductive pstep : pstate -> pstate -> Prop :=
| ps_acq : forall s t l r,
    progs s t = Acq l :: r -> powner s l = None ->
    pstep s {| progs := set_at (progs s) t r; powner := set_owner (powner s) l (Some t) |}
| ps_rel : forall s t l r,
    progs s t = Rel l :: r -> powner s l = Some t ->
    pstep s {| progs := set_at (progs s) t r; powner := set_owner (powner s) l None |}.

Inductive preach (s0 : pstate) : pstate -> Prop :=
| pr_refl : preach s0 s0
| pr_step : forall s s', preach s0 s -> pstep s s' -> preach s0 s'.

Definition pwants (s : pstate) (t : tid) (l : lock) : Prop :=
  exists r, progs s t = Acq l :: r.

Definition pdeadlock (s : pstate) : Prop := exists D, deadlocked (pwants s) (powner s) D.

(* static discipline of one program: started with the locks in H held, every
   acquisition of l happens with (h, l) an edge of g for every held h *)
Fixpoint respects (g : graph) (H : lock -> Prop) (p : program) : Prop :=
  match p with
  | [] => True
  | Acq l :: r => (forall h, H h -> edge g h l) /\ respects g (fun x => x = l \/ H x) r
  | Rel l :: r => respects g (fun x => x <> l /\ H x) r
  end.

Definition pinit (g : graph) (s : pstate) : Prop :=
  (forall l, powner s l = None) /\ forall t, respects g (fun _ => False) (progs s t).

(* executable version of [respects] for examples: held locks as a list *)
Fixpoint remove_one (l : lock) (h : list lock) : list lock :=
  match h with
  | [] => []
  | x :: r => if x =? l then r else x :: remove_one l r
  end.

Fixpoint respectsb (g : graph) (h : list lock) (p : program) : bool :=
  match p with
  | [] => true
  | Acq l :: r => forallb (fun x => has_edge g x l) h && respectsb g (l :: h) r
  | Rel l :: r => respectsb g (remove_one l h) r
  end.

(* ---- free machine -------------------------------------------------------- *)

Record fstate := { fwant : tid -> option lock; fowner : owners }.

Inductive fstep (g : graph) : fstate -> fstate -> Prop :=
| fs_request : forall s t l,
    fwant s t = None ->
    (forall h, fowner s h = Some t -> edge g h l) ->
    fstep g s {| fwant := set_at (fwant s) t (Some l); fowner := fowner s |}
| fs_grant : forall s t l,
    fwant s t = Some l -> fowner s l = None ->
    fstep g s {| fwant := set_at (fwant s) t None; fowner := set_owner (fowner s) l (Some t) |}
| fs_release : forall s t l,
    fwant s t = None -> fowner s l = Some t ->
    fstep g s {| fwant := fwant s; fowner := set_owner (fowner s) l None |}.

Inductive freach (g : graph) (s0 : fstate) : fstate -> Prop :=
| fr_refl : freach g s0 s0
| fr_step : forall s s', freach g s0 s -> fstep g s s' -> freach g s0 s'.

Definition finit (s : fstate) : Prop :=
  (forall t, fwant s t = None) /\ forall l, fowner s l = None.

Definition fwants (s : fstate) (t : tid) (l : lock) : Prop := fwant s t = Some l.

Definition fdeadlock (s : fstate) : Prop := exists D, deadlocked (fwants s) (fowner s) D.

(* ---- balanced programs (every acquired lock is released, only held locks
        are released): needed for progress, not for deadlock freedom -------- *)

Fixpoint final_held (h : list lock) (p : program) : option (list lock) :=
  match p with
  | [] => Some h
  | Acq l :: r => final_held (l :: h) r
  | Rel l :: r => if existsb (N.eqb l) h then final_held (remove_one l h) r else None
  end.

Definition balanced (p : program) : Prop := final_held [] p = Some [].
