(* C20, general part: progress.  With programs that are balanced (release
   exactly what they acquire) and respect an acyclic lock order, the machine
   is never stuck while some thread is unfinished: some thread can take a step.
   (Without balance a finished thread may keep a lock for ever - the lock-leak
   finding - and the others starve without any wait-for cycle.) *)
From Coq Require Import List NArith Bool Arith Lia ZifyN ZifyNat ZifyBool.
From Lal Require Import Lock.LockOrder Lock.LockMachine Lock.LockOrderProofs.
Import ListNotations.
Open Scope N_scope.

Lemma existsb_eqb_In : forall l h, existsb (N.eqb l) h = true <-> In l h.
Proof.
  intros l h. rewrite existsb_exists. split.
  - intros [x [Hin Hx]]. apply N.eqb_eq in Hx. subst. exact Hin.
  - intro Hin. exists l. split; [exact Hin|apply N.eqb_refl].
Qed.

Lemma remove_one_In : forall l h x, NoDup h -> (In x (remove_one l h) <-> x <> l /\ In x h).
Proof.
  intros l h x. induction h as [|y h IH]; intro Hnd; cbn [remove_one].
  - cbn. tauto.
  - inversion Hnd as [|? ? Hny Hnd']; subst. destruct (y =? l) eqn:E.
    + apply N.eqb_eq in E. subst y. split.
      * intro Hx. split; [intro; subst; contradiction|right; exact Hx].
      * intros [Hne [Hx|Hx]]; [congruence|exact Hx].
    + apply N.eqb_neq in E. cbn [In]. rewrite (IH Hnd'). split.
      * intros [Hx|[Hne Hx]]; [subst; split; [exact E|left; reflexivity]|split; [exact Hne|right; exact Hx]].
      * intros [Hne [Hx|Hx]]; [left; exact Hx|right; split; assumption].
Qed.

Lemma remove_one_NoDup : forall l h, NoDup h -> NoDup (remove_one l h).
Proof.
  intros l h. induction h as [|y h IH]; intro Hnd; cbn [remove_one]; [constructor|].
  inversion Hnd as [|? ? Hny Hnd']; subst. destruct (y =? l); [exact Hnd'|].
  constructor; [|apply IH; exact Hnd'].
  intro Hin. apply (remove_one_In l h y Hnd') in Hin. tauto.
Qed.

(* per thread: the locks it owns, as a duplicate-free list from which the rest of its program is balanced *)
Definition kinv (s : pstate) : Prop :=
  forall t, exists h, NoDup h /\ (forall l, In l h <-> powner s l = Some t) /\ final_held h (progs s t) = Some [].

Lemma kinv_init : forall g s, pinit g s -> (forall t, balanced (progs s t)) -> kinv s.
Proof.
  intros g s [Ho _] Hb t. exists []. split; [constructor|]. split; [|apply Hb].
  intro l. rewrite Ho. split; [intros []|discriminate].
Qed.

Lemma kinv_step : forall s s', kinv s -> pstep s s' -> kinv s'.
Proof.
  intros s s' Hk Hst. destruct Hst as [s t l r Hp Ho|s t l r Hp Ho]; intro u; cbn [progs powner].
  - destruct (Nat.eq_dec u t) as [->|Hne].
    + destruct (Hk t) as [h [Hnd [Hin Hf]]]. rewrite Hp in Hf. cbn [final_held] in Hf.
      exists (l :: h). rewrite set_at_same. split; [|split; [|exact Hf]].
      * constructor; [|exact Hnd]. intro Hl. apply Hin in Hl. congruence.
      * intro x. cbn [In]. destruct (N.eq_dec x l) as [->|Hxl].
        -- rewrite set_owner_same. split; [reflexivity|left; reflexivity].
        -- rewrite set_owner_other by exact Hxl. rewrite <- Hin. split; [intros [Hx|Hx]; [congruence|exact Hx]|right; assumption].
    + destruct (Hk u) as [h [Hnd [Hin Hf]]]. exists h. rewrite set_at_other by exact Hne.
      split; [exact Hnd|]. split; [|exact Hf].
      intro x. destruct (N.eq_dec x l) as [->|Hxl].
      * rewrite set_owner_same. rewrite Hin, Ho. split; [discriminate|congruence].
      * rewrite set_owner_other by exact Hxl. apply Hin.
  - destruct (Nat.eq_dec u t) as [->|Hne].
    + destruct (Hk t) as [h [Hnd [Hin Hf]]]. rewrite Hp in Hf. cbn [final_held] in Hf.
      assert (Hl : In l h) by (apply Hin; exact Ho).
      apply existsb_eqb_In in Hl. rewrite Hl in Hf.
      exists (remove_one l h). rewrite set_at_same. split; [apply remove_one_NoDup; exact Hnd|]. split; [|exact Hf].
      intro x. rewrite (remove_one_In l h x Hnd). destruct (N.eq_dec x l) as [->|Hxl].
      * rewrite set_owner_same. split; [tauto|discriminate].
      * rewrite set_owner_other by exact Hxl. rewrite Hin. tauto.
    + destruct (Hk u) as [h [Hnd [Hin Hf]]]. exists h. rewrite set_at_other by exact Hne.
      split; [exact Hnd|]. split; [|exact Hf].
      intro x. destruct (N.eq_dec x l) as [->|Hxl].
      * rewrite set_owner_same. rewrite Hin, Ho. split; [congruence|discriminate].
      * rewrite set_owner_other by exact Hxl. apply Hin.
Qed.

Lemma kinv_reach : forall g s0 s, pinit g s0 -> (forall t, balanced (progs s0 t)) -> preach s0 s -> kinv s.
Proof.
  intros g s0 s Hi Hb Hr. induction Hr as [|s s' _ IH Hst].
  - apply kinv_init with g; assumption.
  - apply kinv_step with s; assumption.
Qed.

(* a thread that owns a lock still has something to do, and its next action is possible or is an acquisition *)
Lemma owner_unfinished : forall s t l, kinv s -> powner s l = Some t -> progs s t <> [].
Proof.
  intros s t l Hk Ho Hp. destruct (Hk t) as [h [_ [Hin Hf]]]. rewrite Hp in Hf. cbn [final_held] in Hf.
  injection Hf as ->. apply Hin in Ho. contradiction.
Qed.

Lemma head_release_owned : forall s t l r, kinv s -> progs s t = Rel l :: r -> powner s l = Some t.
Proof.
  intros s t l r Hk Hp. destruct (Hk t) as [h [_ [Hin Hf]]]. rewrite Hp in Hf. cbn [final_held] in Hf.
  destruct (existsb (N.eqb l) h) eqn:E; [|discriminate]. apply existsb_eqb_In in E. apply Hin. exact E.
Qed.

Theorem program_progress : forall g s0 s t,
  acyclicb g = true -> pinit g s0 -> (forall u, balanced (progs s0 u)) -> preach s0 s ->
  progs s t <> [] -> exists s', pstep s s'.
Proof.
  intros g s0 s t Hac Hi Hb Hr Hne.
  pose proof (kinv_reach g s0 s Hi Hb Hr) as Hk.
  pose proof (pinv_reach g s0 s Hi Hr) as Hinv.
  pose proof (acyclicb_ranked g Hac) as Hrk.
  set (rk := lookup (ranks g)) in *. set (M := table_max (ranks g)).
  assert (HM : forall l, rk l <= M) by (intro l; apply lookup_le_max).
  (* a thread with a non-empty program either steps or waits for an owner *)
  assert (next : forall u, progs s u <> [] ->
            (exists s', pstep s s') \/ exists l r u', progs s u = Acq l :: r /\ powner s l = Some u').
  { intros u Hu. destruct (progs s u) as [|[l|l] r] eqn:Hp; [congruence| |].
    - destruct (powner s l) as [u'|] eqn:Ho.
      + right. exists l, r, u'. split; [reflexivity|exact Ho].
      + left. eexists. apply (ps_acq s u l r Hp Ho).
    - left. eexists. apply (ps_rel s u l r Hp). apply (head_release_owned s u l r Hk Hp). }
  assert (climb : forall n u l r u', progs s u = Acq l :: r -> powner s l = Some u' ->
                    (N.to_nat (M - rk l) < n)%nat -> exists s', pstep s s').
  { induction n as [|n IH]; intros u l r u' Hp Ho Hn; [lia|].
    destruct (next u' (owner_unfinished s u' l Hk Ho)) as [Hs|[l' [r' [u'' [Hp' Ho']]]]]; [exact Hs|].
    assert (He : edge g l l') by (apply (pinv_wants g s Hinv u' l' l); [exists r'; exact Hp'|exact Ho]).
    apply Hrk in He. specialize (HM l'). apply (IH u' l' r' u'' Hp' Ho'). lia. }
  destruct (next t Hne) as [Hs|[l [r [u' [Hp Ho]]]]]; [exact Hs|].
  apply (climb (S (N.to_nat (M - rk l))) t l r u' Hp Ho). lia.
Qed.
