(* Vocabulary shared by the depacketiser proofs and the reorder proof:
   packets as the container stores them, and what it means for a run of
   consecutive packets to be one frame of a protocol.  Definitions only. *)
From Lal Require Import Common.LBytes Common.Res Rtp.RtpSeqArith Rtp.RtpPacker Rtp.RtpUnpacker.
Open Scope N_scope.

Definition dummy_upkt : upkt := mk_upkt 0 0 [] 0.

(* position the container computes when the packet is fed *)
Definition pos_of (pr : proto) (body : bytes) : N :=
  match calc_position pr body with Ok p => p | _ => pos_unknown end.

(* payloads of one frame as stored packets: consecutive sequence numbers
   from s, one timestamp *)
Fixpoint mk_upkts (pr : proto) (s ts : N) (pls : list bytes) : list upkt :=
  match pls with
  | [] => []
  | p :: t => mk_upkt s ts p (pos_of pr p) :: mk_upkts pr (seq_succ s) ts t
  end.

(* F is one frame with output o:
   - whenever the list starts with all of F, TryUnpackOne emits o, reports
     the last sequence number of F, unlinks exactly F and subtracts |F|;
   - whenever the list starts with a proper non-empty prefix of F followed by
     nothing or by a packet that is not the successor, TryUnpackOne fails. *)
Definition frame_good (pr : proto) (rate : N) (F : list upkt) (o : list avout) : Prop :=
  F <> [] /\
  (forall L, try_unpack_one pr rate (F ++ L)
             = Ok (Some (o, u_seq (last F dummy_upkt), L, Z.of_nat (length F)))) /\
  (forall m L, (0 < m < length F)%nat ->
     (L = [] \/ exists p L', L = p :: L' /\ sub_seq (u_seq p) (u_seq (nth (m - 1) F dummy_upkt)) <> 1%Z) ->
     try_unpack_one pr rate (firstn m F ++ L) = Ok None).

Definition rate_ok (rate : N) : Prop := 1000 <= rate /\ rate < 4294967296000.

Definition proto_of_codec (c : vcodec) : proto := match c with Avc => PAvc | Hevc => PHevc end.

(* NAL types lal's depacketiser treats as "single NAL unit packet" *)
Definition single_type_ok (c : vcodec) (nal : bytes) : Prop :=
  match c with
  | Avc => avc_nal_type (nth 0 nal 0) <= 23
  | Hevc => hevc_type_known (hevc_nal_type (nth 0 nal 0)) = true
  end.
