(* Packer output as a stream for the container: RtpPacker.Pack composed with
   RtpUnpackContainer.Feed. *)
From Coq Require Import List Arith NArith ZArith Lia Sorted ZifyN ZifyNat ZifyBool.
From Lal Require Import Common.LBytes Common.Res Common.LBytesProofs Rtp.RtpSeqArith Rtp.RtpPacker Rtp.RtpUnpacker
  Rtp.RtpReorder Rtp.RtpFrames Rtp.RtpSeqProofs Rtp.RtpPackerProofs Rtp.RtpUnpackerProofs
  Rtp.RtpReorderAbs Rtp.RtpReorderAbsProofs Rtp.RtpReorderProofs Rtp.RtpStreamProofs.
Import ListNotations.
Ltac Zify.zify_post_hook ::= Z.div_mod_to_equations.
Local Open Scope nat_scope.

(* a unit on the wire: RTP timestamp, payloads of its packets, what it decodes to *)
Definition wire_unit := (N * list bytes * list avout)%type.

Fixpoint unit_stream (pr : proto) (s : N) (units : list wire_unit) : stream :=
  match units with
  | [] => []
  | (ts, pls, o) :: t => (mk_upkts pr s ts pls, o) :: unit_stream pr (seq_add s (lenN pls)) t
  end.

Definition calc_ok (pr : proto) (b : bytes) : Prop := calc_position pr b = Ok (pos_of pr b).

Definition unit_ok (pr : proto) (rate : N) (u : wire_unit) : Prop :=
  let '(ts, pls, o) := u in
  pls <> [] /\ Forall (calc_ok pr) pls /\
  forall s, (s < 65536)%N -> frame_good pr rate (mk_upkts pr s ts pls) o.

Lemma mk_upkts_calc_ok pr ts : forall pls s, Forall (calc_ok pr) pls ->
  Forall (fun p => calc_position pr (u_body p) = Ok (u_pos p)) (mk_upkts pr s ts pls).
Proof.
  induction pls as [|p t IH]; intros s H; cbn [mk_upkts]; [constructor|].
  apply Forall_cons_iff in H. destruct H as [H0 H']. constructor; [exact H0|auto].
Qed.

Lemma unit_stream_wf pr rate : forall units s,
  (s < 65536)%N -> Forall (unit_ok pr rate) units ->
  (forall i, i < length (pkts (unit_stream pr s units)) ->
     u_seq (nth i (pkts (unit_stream pr s units)) dummy_upkt) = seq_add s (N.of_nat i)) /\
  Forall (fun p => calc_position pr (u_body p) = Ok (u_pos p)) (pkts (unit_stream pr s units)) /\
  Forall (fun fo => frame_good pr rate (fst fo) (snd fo)) (unit_stream pr s units).
Proof.
  induction units as [|[[ts pls] o] t IH]; intros s Hs Hu.
  - cbn. split; [intros i Hi; lia|]. split; constructor.
  - apply Forall_cons_iff in Hu. destruct Hu as [(Hne & Hc & Hg) Hu'].
    destruct (IH (seq_add s (lenN pls)) (seq_add_lt _ _) Hu') as (I1 & I2 & I3).
    cbn [unit_stream]. unfold pkts in *. cbn [map concat fst snd]. split; [|split].
    + intros i Hi. rewrite app_length, mk_upkts_length in Hi.
      destruct (Nat.lt_ge_cases i (length pls)) as [Hlt|Hge].
      * rewrite app_nth1 by (rewrite mk_upkts_length; assumption).
        apply mk_upkts_nth_seq; assumption.
      * rewrite app_nth2 by (rewrite mk_upkts_length; assumption). rewrite mk_upkts_length.
        rewrite I1 by lia. rewrite seq_add_add. f_equal. unfold lenN. lia.
    + apply Forall_app. split; [apply mk_upkts_calc_ok; assumption|exact I2].
    + constructor; [cbn [fst snd]; apply Hg; assumption|exact I3].
Qed.

Lemma unit_stream_wf' pr rate d units :
  (d < 65536)%N -> Forall (unit_ok pr rate) units ->
  stream_wf pr rate d (unit_stream pr (seq_succ d) units).
Proof.
  intros Hd Hu.
  destruct (unit_stream_wf pr rate units (seq_succ d)) as (I1 & I2 & I3); [unfold seq_succ, seq_mod; lia|assumption|].
  repeat split; [|assumption|assumption].
  intros i Hi. unfold pkt_at. rewrite I1 by assumption. apply seq_add_succ.
Qed.

Lemma outs_of_unit_stream pr : forall units s,
  outs_of (unit_stream pr s units) = concat (map snd units).
Proof.
  induction units as [|[[ts pls] o] t IH]; intros s; [reflexivity|].
  unfold outs_of in *. cbn [unit_stream map concat snd]. f_equal. apply IH.
Qed.

(* ---- lal's video packer ---- *)
Definition payloads_of (c : vcodec) (maxp : N) (nal : bytes) : list bytes :=
  match pack_nal true c nal maxp with Ok pls => pls | _ => [] end.

Definition video_unit (c : vcodec) (maxp rate : N) (tn : N * bytes) : wire_unit :=
  (fst tn, payloads_of c maxp (snd tn), [(rtp_ms rate (fst tn), avcc (snd tn))%N]).

Definition nal_ok (c : vcodec) (nal : bytes) : Prop :=
  nal <> [] /\ (nth 0 nal 0 < 256)%N /\ single_type_ok c nal.

Lemma pack_nal_total c nal maxp :
  (fu_hdr_size c < maxp)%N -> exists pls, pack_nal true c nal maxp = Ok pls.
Proof.
  intros H. destruct (N.le_gt_cases (lenN nal) maxp).
  - eexists. apply pack_nal_single. assumption.
  - eexists. apply pack_nal_fu; assumption.
Qed.

Lemma calc_ok_packed c nal maxp pls :
  (fu_hdr_size c < maxp)%N -> nal_ok c nal -> pack_nal true c nal maxp = Ok pls ->
  pls <> [] /\ Forall (calc_ok (proto_of_codec c)) pls.
Proof.
  intros Hh (Hne & Hb0 & Hty) Hp. destruct (N.le_gt_cases (lenN nal) maxp) as [Hle|Hgt].
  - rewrite pack_nal_single in Hp by assumption. apply ok_inj in Hp. subst pls.
    split; [discriminate|]. constructor; [|constructor]. unfold calc_ok.
    rewrite pos_of_single by assumption.
    destruct nal as [|b0 r]; [congruence|].
    destruct c; cbn [proto_of_codec calc_position calc_position_avc calc_position_hevc single_type_ok nth] in *.
    + destruct (avc_nal_type b0 <=? 23)%N eqn:E; [reflexivity|lia].
    + rewrite Hty. reflexivity.
  - rewrite pack_nal_fu in Hp by assumption. apply ok_inj in Hp. subst pls.
    split.
    + destruct (pack_nal_fu_two c nal maxp Hgt Hh) as (p & q & t & ->). discriminate.
    + apply mark_pieces_forall with (Q := fun _ => True).
      * intros f l p _. unfold calc_ok, pos_of. destruct c; cbn [proto_of_codec calc_position calc_position_avc calc_position_hevc fu_packet].
        -- rewrite avc_fu_indicator_type by assumption. reflexivity.
        -- rewrite hevc_fu_hdr_type by assumption. reflexivity.
      * apply Forall_forall. auto.
Qed.

Lemma video_unit_ok c maxp rate tn :
  (fu_hdr_size c < maxp)%N -> rate_ok rate -> nal_ok c (snd tn) ->
  unit_ok (proto_of_codec c) rate (video_unit c maxp rate tn).
Proof.
  intros Hh Hr Hn. destruct tn as [ts nal]. cbn [snd] in Hn. unfold video_unit, payloads_of. cbn [fst snd].
  destruct (pack_nal_total c nal maxp Hh) as [pls Ep]. rewrite Ep.
  destruct (calc_ok_packed c nal maxp pls Hh Hn Ep) as [H1 H2].
  destruct Hn as (Hne & Hb0 & Hty).
  split; [assumption|]. split; [assumption|].
  intros s Hs. apply (video_frame_good c nal maxp rate s ts pls); assumption.
Qed.

(* ---- lal's audio packers ---- *)
Definition aac_unit (maxp rate : N) (tf : N * bytes) : wire_unit :=
  (fst tf, pack_aac (snd tf) maxp, [(rtp_ms rate (fst tf), snd tf)%N]).
Definition raw_unit (maxp rate : N) (tf : N * bytes) : wire_unit :=
  (fst tf, pack_raw (snd tf) maxp, [(rtp_ms rate (fst tf), snd tf)%N]).

Lemma aac_unit_ok maxp rate tf :
  (0 < maxp)%N -> rate_ok rate -> (lenN (snd tf) < 8192)%N -> unit_ok PAac rate (aac_unit maxp rate tf).
Proof.
  intros Hm Hr Hl. destruct tf as [ts f]. unfold aac_unit. cbn [fst snd] in *.
  split; [|split].
  - unfold pack_aac. destruct (maxp =? 0)%N eqn:E; [lia|discriminate].
  - unfold pack_aac. destruct (maxp =? 0)%N; constructor; [reflexivity|constructor].
  - intros s _. apply aac_frame_good; assumption.
Qed.

Lemma raw_unit_ok maxp rate tf :
  (0 < maxp)%N -> rate_ok rate -> unit_ok PRaw rate (raw_unit maxp rate tf).
Proof.
  intros Hm Hr. destruct tf as [ts f]. unfold raw_unit. cbn [fst snd] in *.
  split; [|split].
  - unfold pack_raw. destruct (maxp =? 0)%N eqn:E; [lia|discriminate].
  - unfold pack_raw. destruct (maxp =? 0)%N; constructor; [reflexivity|constructor].
  - intros s _. apply raw_frame_good; assumption.
Qed.

(* ---- RtpPacker.Pack produces exactly these packets ---- *)
Lemma rtp_pack_payloads_arrivals pr pt ts ssrc : forall pls s,
  map arrival_of (fst (rtp_pack_payloads pt ts ssrc s pls)) = map upkt_arrival (mk_upkts pr s ts pls).
Proof.
  induction pls as [|p t IH]; intros s; [reflexivity|].
  cbn [rtp_pack_payloads mk_upkts]. specialize (IH (seq_succ s)).
  destruct (rtp_pack_payloads pt ts ssrc (seq_succ s) t) as [r s1]. cbn [fst map] in *.
  f_equal. exact IH.
Qed.

Lemma rtp_pack_stream_arrivals pr pt rate ssrc (o : list avout) : forall frames s, (s < 65536)%N ->
  map arrival_of (concat (fst (rtp_pack_stream pt rate ssrc s frames)))
  = map upkt_arrival (pkts (unit_stream pr s (map (fun f => (rtp_timestamp (fst f) rate, snd f, o)) frames))).
Proof.
  induction frames as [|[ms pls] t IH]; intros s Hs; [reflexivity|].
  cbn [rtp_pack_stream map unit_stream fst snd]. unfold rtp_pack.
  pose proof (rtp_pack_payloads_arrivals pr pt (rtp_timestamp ms rate) ssrc pls s) as H1.
  destruct (rtp_pack_payloads pt (rtp_timestamp ms rate) ssrc s pls) as [a s1] eqn:E1.
  destruct (rtp_pack_payloads_spec _ _ _ _ _ _ _ E1) as (_ & _ & _ & Es1 & _).
  assert (Hs1 : s1 = seq_add s (lenN pls)).
  { rewrite Es1. destruct (lenN pls =? 0)%N eqn:E0; [|reflexivity].
    replace (lenN pls) with 0%N by lia. symmetry. apply seq_add_0. assumption. }
  assert (Hlt : (s1 < 65536)%N) by (rewrite Hs1; apply seq_add_lt).
  specialize (IH s1 Hlt).
  destruct (rtp_pack_stream pt rate ssrc s1 t) as [b s2]. cbn [fst concat] in *.
  unfold pkts in *. cbn [map concat fst]. rewrite !map_app. f_equal; [exact H1|].
  rewrite IH, Hs1. reflexivity.
Qed.

(* ---- AVCC mode: several NAL units per AvPacket ---- *)
(* the wire image of a unit list depends only on its (timestamp, payload) sequence *)
Definition flat (units : list wire_unit) : list (N * bytes) :=
  concat (map (fun u : wire_unit => map (pair (fst (fst u))) (snd (fst u))) units).

Fixpoint arr (s : N) (l : list (N * bytes)) : list (N * N * bytes) :=
  match l with
  | [] => []
  | (ts, p) :: t => (s, ts, p) :: arr (seq_succ s) t
  end.

Lemma arr_app : forall a b s, (s < 65536)%N ->
  arr s (a ++ b) = arr s a ++ arr (seq_add s (lenN a)) b.
Proof.
  induction a as [|[ts p] t IH]; intros b s Hs.
  - cbn. rewrite seq_add_0 by assumption. reflexivity.
  - cbn [app arr]. f_equal. rewrite IH by (unfold seq_succ, seq_mod; lia). f_equal. f_equal.
    rewrite seq_add_succ. f_equal. unfold lenN. cbn [length]. lia.
Qed.

Lemma arr_mk_upkts pr ts : forall pls s,
  map upkt_arrival (mk_upkts pr s ts pls) = arr s (map (pair ts) pls).
Proof. induction pls as [|p t IH]; intros s; [reflexivity|]. cbn [mk_upkts map arr]. f_equal. apply IH. Qed.

Lemma arrivals_flat pr : forall units s, (s < 65536)%N ->
  map upkt_arrival (pkts (unit_stream pr s units)) = arr s (flat units).
Proof.
  induction units as [|[[ts pls] o] t IH]; intros s Hs; [reflexivity|].
  unfold pkts, flat in *. cbn [unit_stream map concat fst snd].
  rewrite map_app, arr_app by assumption. rewrite arr_mk_upkts. f_equal.
  rewrite IH by apply seq_add_lt. f_equal. unfold lenN. rewrite map_length. reflexivity.
Qed.

Definition not_aud (c : vcodec) (nal : bytes) : bool := negb (is_aud c nal).

Definition frame_payloads (c : vcodec) (maxp : N) (nals : list bytes) : list bytes :=
  concat (map (payloads_of c maxp) (filter (not_aud c) nals)).

Lemma pack_nals_frame c maxp : (fu_hdr_size c < maxp)%N -> forall nals,
  pack_nals true c nals maxp = Ok (frame_payloads c maxp nals).
Proof.
  intros Hh. induction nals as [|nal t IH]; [reflexivity|].
  unfold frame_payloads in *. cbn [pack_nals filter]. unfold not_aud at 1.
  destruct (is_aud c nal); cbn [negb]; [exact IH|].
  destruct (pack_nal_total c nal maxp Hh) as [pls Ep]. rewrite Ep, IH. cbn [bind map concat].
  unfold payloads_of at 2. rewrite Ep. reflexivity.
Qed.

(* Pack in AVCC mode: the payloads of one AvPacket *)
Lemma pack_video_frame_payloads c maxp nals : (fu_hdr_size c < maxp)%N ->
  pack_video_frame true c nals maxp = Ok (frame_payloads c maxp nals).
Proof.
  intros Hh. unfold pack_video_frame. destruct (maxp =? 0)%N eqn:E; [destruct c; cbn in Hh; lia|].
  apply pack_nals_frame. assumption.
Qed.

(* the NAL-level units of a sequence of AvPackets (ms, NAL list) *)
Definition frames_units (c : vcodec) (maxp rate : N) (frames : list (N * list bytes)) : list wire_unit :=
  concat (map (fun f => map (fun nal => video_unit c maxp rate (rtp_timestamp (fst f) rate, nal))
                            (filter (not_aud c) (snd f))) frames).

Lemma flat_app a b : flat (a ++ b) = flat a ++ flat b.
Proof. unfold flat. rewrite map_app, concat_app. reflexivity. Qed.

(* RtpPacker.Pack over AVCC frames emits exactly the packets of the NAL-level
   unit stream (same sequence numbers, timestamps, payloads) *)
Theorem pack_frames_arrivals c pt rate ssrc maxp (o : list avout) :
  forall frames s, (s < 65536)%N ->
  map arrival_of (concat (fst (rtp_pack_stream pt rate ssrc s
                                 (map (fun f => (fst f, frame_payloads c maxp (snd f))) frames))))
  = map upkt_arrival (pkts (unit_stream (proto_of_codec c) s (frames_units c maxp rate frames))).
Proof.
  intros frames s Hs.
  rewrite (rtp_pack_stream_arrivals (proto_of_codec c) pt rate ssrc o) by assumption.
  rewrite !arrivals_flat by assumption. f_equal. clear s Hs.
  induction frames as [|[ms nals] t IH]; [reflexivity|].
  unfold frames_units in *. cbn [map concat fst snd]. rewrite flat_app, <- IH. clear IH.
  change (flat ((rtp_timestamp ms rate, frame_payloads c maxp nals, o) :: ?x)) with
    (map (pair (rtp_timestamp ms rate)) (frame_payloads c maxp nals) ++ flat x).
  unfold flat at 1. cbn [map concat fst snd]. fold (flat (map (fun f : N * list bytes => (rtp_timestamp (fst f) rate, snd f, o))
    (map (fun f : N * list bytes => (fst f, frame_payloads c maxp (snd f))) t))).
  f_equal. unfold frame_payloads, flat. generalize (filter (not_aud c) nals). intros l.
  induction l as [|nal l' IHl]; [reflexivity|]. cbn [map concat fst snd video_unit]. rewrite map_app. f_equal. exact IHl.
Qed.
