(* Model of pkg/rtprtcp/rtp.go: CompareSeq and SubSeq on uint16 sequence
   numbers.  Arguments are N values < 65536 (uint16); the subtractions a-b
   are only evaluated on the branch where they do not wrap.  No proofs. *)
From Coq Require Import NArith ZArith.
Open Scope N_scope.

Definition seq_mod : N := 65536.

(* uint16 increment, r.seq++ *)
Definition seq_succ (s : N) : N := (s + 1) mod seq_mod.
(* s + k on uint16 *)
Definition seq_add (s k : N) : N := (s + k) mod seq_mod.

(* CompareSeq(a, b uint16) int *)
Definition compare_seq (a b : N) : Z :=
  if a =? b then 0%Z
  else if b <? a then (if a - b <? 32768 then 1%Z else (-1)%Z)
  else (if b - a <? 32768 then (-1)%Z else 1%Z).

(* SubSeq(a, b uint16) int *)
Definition sub_seq (a b : N) : Z :=
  if a =? b then 0%Z
  else if b <? a then
    (let d := a - b in if d <? 16384 then Z.of_N d else (Z.of_N d - 65536)%Z)
  else
    (let d := b - a in if d <? 16384 then (- Z.of_N d)%Z else (65536 - Z.of_N d)%Z).
