(* The container (Insert / IsStale / Feed loop) refines the reference reorder
   buffer as long as the arrival schedule stays inside the window; hence the
   depacketised output does not depend on the arrival order (c12_reorder). *)
From Coq Require Import List Arith NArith ZArith Lia Sorted ZifyN ZifyNat ZifyBool.
From Lal Require Import Common.LBytes Common.Res Rtp.RtpSeqArith Rtp.RtpPacker Rtp.RtpUnpacker
  Rtp.RtpReorder Rtp.RtpFrames Rtp.RtpSeqProofs Rtp.RtpReorderAbs Rtp.RtpReorderAbsProofs.
Import ListNotations.
Ltac Zify.zify_post_hook ::= Z.div_mod_to_equations.
Local Open Scope nat_scope.

Lemma seq_add_inj d a b : (a < b + 65536)%N -> (b < a + 65536)%N -> seq_add d a = seq_add d b -> a = b.
Proof. unfold seq_add, seq_mod. lia. Qed.

Lemma firstn_seq m : forall f k, m <= k -> firstn m (seq f k) = seq f m.
Proof.
  induction m as [|m IH]; intros f k H; [reflexivity|].
  destruct k as [|k]; [lia|]. cbn [seq firstn]. f_equal. apply IH. lia.
Qed.

Section Refine.
Variables (pr : proto) (rate : N) (w : Z) (d : N) (P : nat -> upkt) (n : nat).
Hypothesis Hd : (d < 65536)%N.
Hypothesis Pseq : forall i, i < n -> u_seq (P i) = seq_add d (N.of_nat i + 1).
Hypothesis Ppos : forall i, i < n -> calc_position pr (u_body (P i)) = Ok (u_pos (P i)).

Notation astate := (astate avout).
Notation aframe := (aframe avout).

(* every frame of the stream is a frame for the protocol *)
Fixpoint frames_good (b : nat) (fs : list aframe) : Prop :=
  match fs with
  | [] => True
  | (k, o) :: t => frame_good pr rate (map P (seq b k)) o /\ frames_good (b + k) t
  end.

(* the container state that represents a state of the reference buffer *)
Definition img (st : astate) : cstate :=
  mk_cstate (map P (a_pend st)) (Z.of_nat (length (a_pend st))) true (seq_add d (N.of_nat (a_front st))).

Definition arrival (i : nat) : N * N * bytes := (u_seq (P i), u_ts (P i), u_body (P i)).

Lemma stale_img st i : i < n ->
  (N.of_nat (a_front st) < N.of_nat i + win)%N -> (N.of_nat i < N.of_nat (a_front st) + win)%N ->
  is_stale (img st) (u_seq (P i)) = (i <? a_front st).
Proof.
  intros Hi H1 H2. unfold is_stale, img. cbn [c_flag c_done andb]. rewrite Pseq by assumption.
  unfold win in *. rewrite compare_seq_window by lia. unfold zsgn.
  destruct (N.of_nat i + 1 =? N.of_nat (a_front st))%N eqn:E1;
  destruct (N.of_nat (a_front st) <? N.of_nat i + 1)%N eqn:E2;
  destruct (i <? a_front st) eqn:E3; cbn; lia.
Qed.

Lemma insert_img i : forall pend, i < n ->
  Forall (fun e => e < n /\ (N.of_nat e < N.of_nat i + 32768)%N /\ (N.of_nat i < N.of_nat e + 32768)%N) pend ->
  exists b, insert (P i) (map P pend) = (map P (ins i pend), b) /\
            Z.of_nat (length (ins i pend)) = (Z.of_nat (length pend) + (if b then 1 else 0))%Z.
Proof.
  intros pend Hi. induction pend as [|h t IH]; intros Hall.
  - exists true. cbn. split; reflexivity.
  - inversion Hall as [|? ? (Hh & H1 & H2) Hall']; subst. cbn [map insert ins].
    rewrite (Pseq i Hi), (Pseq h Hh). rewrite compare_seq_window by lia. unfold zsgn.
    destruct (N.of_nat i + 1 =? N.of_nat h + 1)%N eqn:E1.
    + replace (i =? h) with true by (symmetry; apply Nat.eqb_eq; lia). cbn [Z.eqb].
      exists false. split; [reflexivity|cbn [length]; lia].
    + replace (i =? h) with false by (symmetry; apply Nat.eqb_neq; lia).
      destruct (N.of_nat h + 1 <? N.of_nat i + 1)%N eqn:E2.
      * replace (i <? h) with false by (symmetry; apply Nat.ltb_ge; lia).
        change (1 =? 0)%Z with false. change (1 =? 1)%Z with true. cbv iota.
        destruct (IH Hall') as (b & Eb & Lb). rewrite Eb. exists b. split; [reflexivity|cbn [length]; lia].
      * replace (i <? h) with true by (symmetry; apply Nat.ltb_lt; lia).
        change (-1 =? 0)%Z with false. change (-1 =? 1)%Z with false. cbv iota.
        exists true. split; [reflexivity|cbn [length]; lia].
Qed.

Lemma last_map_seq f k : last (map P (seq f (S k))) dummy_upkt = P (f + k).
Proof. rewrite seq_S, map_app. cbn [map]. apply last_last. Qed.

Lemma nth_map_seq f k j : j < k -> nth j (map P (seq f k)) dummy_upkt = P (f + j).
Proof.
  intros H. rewrite (nth_indep _ dummy_upkt (P 0)) by (rewrite map_length, seq_length; assumption).
  rewrite map_nth, seq_nth by assumption. reflexivity.
Qed.

Lemma drain_frames_good : forall fs front pend,
  frames_good front fs ->
  let '(st, _, _) := drain front fs pend in frames_good (a_front st) (a_fs st).
Proof.
  induction fs as [|[k o] t IH]; intros front pend Hg; cbn [drain].
  - exact I.
  - destruct (take_run front k pend) as [rest|]; [|exact Hg].
    destruct Hg as [_ Hg]. specialize (IH (front + k) rest Hg).
    destruct (drain (front + k) t rest) as [[st os] any]. exact IH.
Qed.

Lemma drain_no_output : forall (fs : list aframe) front pend,
  let '(st, os, any) := drain front fs pend in any = false -> os = [] /\ st = mk_astate front fs pend.
Proof.
  intros fs front pend. destruct fs as [|[k o] t]; cbn [drain]; [auto|].
  destruct (take_run front k pend); [|auto].
  destruct (drain (front + k) t l) as [[st os] any]. discriminate.
Qed.

(* the "as many sequential frames as possible" loop = drain *)
Lemma seq_loop_img : forall fs front pend fuel,
  pend_ok n front pend -> front + total fs = n ->
  Forall (fun f : aframe => 0 < fst f) fs -> frames_good front fs -> length pend < fuel ->
  seq_loop fuel pr rate (img (mk_astate front fs pend)) =
  let '(st', os, any) := drain front fs pend in Ok (img st', os, any).
Proof.
  induction fs as [|[k o] t IH]; intros front pend fuel Hp Hn Hk Hg Hf.
  - (* no frame left: nothing is pending *)
    cbn [total] in Hn. destruct Hp as [_ Hall].
    destruct pend as [|h pt]; [|apply Forall_cons_iff in Hall; destruct Hall as [(Hh1 & Hh2) _]; lia].
    destruct fuel; [cbn in Hf; lia|]. reflexivity.
  - destruct fuel as [|f]; [lia|]. cbn [seq_loop drain].
    apply Forall_cons_iff in Hk. destruct Hk as [Hk0 Hk']. cbn [fst] in Hk0. cbn [total] in Hn.
    destruct Hg as [Hg0 Hg'].
    destruct pend as [|h pt].
    + (* empty list *)
      cbn [img a_pend map is_first_sequential c_items]. destruct k; [lia|]. reflexivity.
    + destruct Hp as [Hs Hall]. pose proof Hall as Hall0.
      apply Forall_cons_iff in Hall. destruct Hall as [(Hh1 & Hh2) Hall'].
      match goal with |- context [is_first_sequential ?s] => set (st0 := s) end.
      assert (Hfs : is_first_sequential st0 = (h =? front)).
      { unfold st0, is_first_sequential, img. cbn [c_items a_pend map c_flag c_done a_front].
        rewrite (Pseq h) by lia.
        destruct (h =? front) eqn:E.
        - apply Nat.eqb_eq in E. subst h. apply Z.eqb_eq. apply sub_seq_one; [apply seq_add_lt|apply seq_add_lt|].
          rewrite seq_succ_add, seq_add_add. reflexivity.
        - apply Nat.eqb_neq in E. apply Z.eqb_neq. intros C.
          apply sub_seq_one in C; [|apply seq_add_lt|apply seq_add_lt].
          rewrite seq_succ_add, seq_add_add in C. apply seq_add_inj in C; unfold win in *; lia. }
      rewrite Hfs. destruct (h =? front) eqn:Eh.
      * apply Nat.eqb_eq in Eh. subst h.
        unfold try_one. unfold st0. cbn [img c_items a_pend c_size].
        destruct (take_run front k (front :: pt)) as [rest|] eqn:Et.
        -- (* the frame is complete *)
           pose proof (take_run_some _ _ _ _ Et) as Ep. rewrite Ep, map_app.
           destruct Hg0 as (_ & G1 & _). rewrite G1. cbn [bind].
           assert (Hlast : u_seq (last (map P (seq front k)) dummy_upkt) = seq_add d (N.of_nat (front + k))).
           { destruct k as [|k']; [lia|]. rewrite last_map_seq, Pseq by lia. f_equal. lia. }
           assert (Himg : mk_cstate (map P rest) (Z.of_nat (length (seq front k ++ rest)) - Z.of_nat (length (map P (seq front k)))) true
                            (u_seq (last (map P (seq front k)) dummy_upkt))
                          = img (mk_astate (front + k) t rest)).
           { unfold img. cbn [a_pend a_front]. rewrite Hlast. f_equal.
             rewrite app_length, map_length, seq_length. lia. }
           rewrite Himg.
           assert (Hp' : pend_ok n (front + k) rest).
           { apply pend_ok_after_run; [assumption|]. rewrite <- Ep. split; assumption. }
           rewrite (IH (front + k) rest f Hp' ltac:(lia) Hk' Hg').
           ++ destruct (drain (front + k) t rest) as [[st' os] any]. reflexivity.
           ++ rewrite Ep, app_length, seq_length in Hf. cbn [length] in Hf. lia.
        -- (* a proper prefix of the frame, then the end of the list or a gap *)
           destruct (take_run_none_split k front (front :: pt) Hs eq_refl Et) as (m & L' & Hm & Ep & HL).
           rewrite Ep, map_app.
           destruct Hg0 as (_ & _ & G2).
           assert (Efirst : map P (seq front m) = firstn m (map P (seq front k))).
           { rewrite firstn_map, firstn_seq by lia. reflexivity. }
           rewrite Efirst. rewrite G2; [reflexivity|rewrite map_length, seq_length; lia|].
           destruct HL as [->|(h' & t' & -> & Hh')]; [left; reflexivity|right].
           exists (P h'), (map P t'). split; [reflexivity|].
           rewrite nth_map_seq by lia.
           assert (Hin : In h' (front :: pt)) by (rewrite Ep; apply in_or_app; right; left; reflexivity).
           rewrite Forall_forall in Hall0. destruct (Hall0 h' Hin) as (Hb1 & Hb2).
           rewrite (Pseq h') by lia. rewrite (Pseq (front + (m - 1))) by lia.
           intros C. apply sub_seq_one in C; [|apply seq_add_lt|apply seq_add_lt].
           rewrite seq_succ_add, seq_add_add in C. apply seq_add_inj in C; unfold win in *; lia.
      * (* the head is not the next packet *)
        apply Nat.eqb_neq in Eh. destruct k as [|k']; [lia|]. cbn [take_run].
        replace (h =? front) with false by (symmetry; apply Nat.eqb_neq; assumption). reflexivity.
Qed.

Lemma eta_upkt p : mk_upkt (u_seq p) (u_ts p) (u_body p) (u_pos p) = p.
Proof. destruct p; reflexivity. Qed.

(* one Feed = one step of the reference buffer *)
Lemma feed_img st i :
  ainv avout n st -> frames_good (a_front st) (a_fs st) -> i < n ->
  (N.of_nat (a_front st) < N.of_nat i + win)%N -> (N.of_nat i < N.of_nat (a_front st) + win)%N ->
  (Z.of_nat (length (a_pend (fst (astep st i)))) < w)%Z ->
  feed pr rate w (img st) (u_seq (P i)) (u_ts (P i)) (u_body (P i))
    = Ok (img (fst (astep st i)), snd (astep st i)) /\
  frames_good (a_front (fst (astep st i))) (a_fs (fst (astep st i))).
Proof.
  intros (Hp & Hn & Hk & Hdr) Hg Hi Hw1 Hw2 Hlen. unfold feed.
  rewrite stale_img by assumption. unfold astep in *.
  destruct (i <? a_front st) eqn:E; [cbn [fst snd]; auto|].
  apply Nat.ltb_ge in E.
  rewrite Ppos by assumption. cbn [bind]. rewrite eta_upkt.
  destruct (insert_img i (a_pend st) Hi) as (b & Eb & Lb).
  { destruct Hp as [_ Hall]. eapply Forall_impl; [|exact Hall]. cbn. unfold win in *. intros e He. lia. }
  change (c_items (img st)) with (map P (a_pend st)).
  change (c_size (img st)) with (Z.of_nat (length (a_pend st))).
  change (c_flag (img st)) with true.
  change (c_done (img st)) with (seq_add d (N.of_nat (a_front st))).
  rewrite Eb.
  assert (Hst1 : mk_cstate (map P (ins i (a_pend st)))
                   (if b then (Z.of_nat (length (a_pend st)) + 1)%Z else Z.of_nat (length (a_pend st)))
                   true (seq_add d (N.of_nat (a_front st)))
                 = img (mk_astate (a_front st) (a_fs st) (ins i (a_pend st)))).
  { unfold img. cbn [a_pend a_front]. f_equal. destruct b; lia. }
  rewrite Hst1. rewrite map_length.
  assert (Hp' : pend_ok n (a_front st) (ins i (a_pend st))) by (apply ins_pend_ok; [assumption|lia|assumption]).
  rewrite (seq_loop_img (a_fs st) (a_front st) (ins i (a_pend st)) _ Hp' Hn Hk Hg) by lia.
  pose proof (drain_frames_good (a_fs st) (a_front st) (ins i (a_pend st)) Hg) as HG.
  pose proof (drain_no_output (a_fs st) (a_front st) (ins i (a_pend st))) as HN.
  destruct (drain (a_front st) (a_fs st) (ins i (a_pend st))) as [[st' os] any].
  cbn [fst snd] in *. cbn [bind]. split; [|exact HG].
  destruct any; [reflexivity|]. destruct (HN eq_refl) as [-> ->].
  unfold img at 1. cbn [c_size a_pend]. cbn [a_pend] in Hlen.
  destruct (w <=? Z.of_nat (length (ins i (a_pend st))))%Z eqn:Ew; [lia|reflexivity].
Qed.

Theorem reorder_refines : forall sched st,
  ainv avout n st -> frames_good (a_front st) (a_fs st) -> sched_ok w st sched ->
  feed_all pr rate w (img st) (map arrival sched)
    = Ok (img (fst (arun st sched)), snd (arun st sched)).
Proof.
  induction sched as [|i t IH]; intros st Hinv Hg Hok; [reflexivity|].
  cbn [sched_ok] in Hok. destruct Hok as (Hi & Hw1 & Hw2 & Hlen & Hok).
  assert (Hn : a_front st + total (a_fs st) = n) by apply Hinv.
  cbn [map feed_all arun]. unfold arrival at 1.
  destruct (feed_img st i Hinv Hg ltac:(lia) Hw1 Hw2 Hlen) as [Ef Hg'].
  rewrite Ef. cbn [bind].
  pose proof (astep_spec avout n st i Hinv ltac:(lia) Hw2) as HS.
  destruct (astep st i) as [st1 o1]. cbn [fst snd] in *. destruct HS as (Hinv1 & _).
  rewrite (IH st1 Hinv1 Hg' Hok). cbn [bind]. destruct (arun st1 t) as [st2 o2]. reflexivity.
Qed.
End Refine.
