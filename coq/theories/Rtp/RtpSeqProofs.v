(* Proofs about CompareSeq / SubSeq (c12_seq_order). *)
From Coq Require Import NArith ZArith Lia ZifyN ZifyNat ZifyBool.
From Lal Require Import Rtp.RtpSeqArith.
Open Scope N_scope.
Ltac Zify.zify_post_hook ::= Z.div_mod_to_equations.

Definition zsgn (i j : N) : Z := if i =? j then 0%Z else if j <? i then 1%Z else (-1)%Z.

Lemma seq_add_lt d k : seq_add d k < 65536.
Proof. unfold seq_add, seq_mod. lia. Qed.

Lemma seq_succ_add d : seq_succ d = seq_add d 1.
Proof. reflexivity. Qed.

Lemma seq_add_add d a b : seq_add (seq_add d a) b = seq_add d (a + b).
Proof. unfold seq_add, seq_mod. lia. Qed.

Lemma seq_add_0 d : d < 65536 -> seq_add d 0 = d.
Proof. unfold seq_add, seq_mod. lia. Qed.

(* on any window of width 2^15 anchored at d, compare_seq is the order of the offsets *)
Lemma compare_seq_window d i j :
  i < j + 32768 -> j < i + 32768 ->
  compare_seq (seq_add d i) (seq_add d j) = zsgn i j.
Proof.
  intros Hi Hj. unfold compare_seq, seq_add, seq_mod, zsgn.
  destruct ((d + i) mod 65536 =? (d + j) mod 65536) eqn:E1;
  destruct (i =? j) eqn:E2; try lia;
  destruct ((d + j) mod 65536 <? (d + i) mod 65536) eqn:E3;
  destruct (j <? i) eqn:E4; try lia;
  try (destruct ((d + i) mod 65536 - (d + j) mod 65536 <? 32768) eqn:E5; lia);
  try (destruct ((d + j) mod 65536 - (d + i) mod 65536 <? 32768) eqn:E6; lia).
Qed.

Lemma sub_seq_window d i j :
  i < j + 16384 -> j < i + 16384 ->
  sub_seq (seq_add d i) (seq_add d j) = (Z.of_N i - Z.of_N j)%Z.
Proof.
  intros Hi Hj. unfold sub_seq, seq_add, seq_mod.
  destruct ((d + i) mod 65536 =? (d + j) mod 65536) eqn:E1; try lia;
  destruct ((d + j) mod 65536 <? (d + i) mod 65536) eqn:E3; cbv zeta;
  try (destruct ((d + i) mod 65536 - (d + j) mod 65536 <? 16384) eqn:E5; lia);
  try (destruct ((d + j) mod 65536 - (d + i) mod 65536 <? 16384) eqn:E6; lia).
Qed.

(* SubSeq(a,b) == 1 exactly for the successor, for all uint16 a b *)
Lemma sub_seq_one a b : a < 65536 -> b < 65536 ->
  (sub_seq a b = 1%Z <-> a = seq_succ b).
Proof.
  intros Ha Hb. unfold sub_seq, seq_succ, seq_mod.
  destruct (a =? b) eqn:E1; [lia|].
  destruct (b <? a) eqn:E2; cbv zeta.
  - destruct (a - b <? 16384) eqn:E3; lia.
  - destruct (b - a <? 16384) eqn:E3; lia.
Qed.

Lemma compare_seq_values a b :
  compare_seq a b = 0%Z \/ compare_seq a b = 1%Z \/ compare_seq a b = (-1)%Z.
Proof.
  unfold compare_seq. destruct (a =? b); [auto|].
  destruct (b <? a); [destruct (a - b <? 32768)|destruct (b - a <? 32768)]; auto.
Qed.

Lemma compare_seq_refl a : compare_seq a a = 0%Z.
Proof. unfold compare_seq. rewrite N.eqb_refl. reflexivity. Qed.

Lemma compare_seq_eq a b : compare_seq a b = 0%Z <-> a = b.
Proof.
  unfold compare_seq. destruct (a =? b) eqn:E; [lia|].
  destruct (b <? a); [destruct (a - b <? 32768)|destruct (b - a <? 32768)]; lia.
Qed.

(* antisymmetry holds for ALL uint16 pairs (also at distance exactly 2^15) *)
Lemma compare_seq_antisym a b : a < 65536 -> b < 65536 ->
  compare_seq b a = (- compare_seq a b)%Z.
Proof.
  intros Ha Hb. unfold compare_seq.
  destruct (a =? b) eqn:E1; destruct (b =? a) eqn:E2; try lia.
  destruct (b <? a) eqn:E3; destruct (a <? b) eqn:E4; try lia.
  - destruct (a - b <? 32768) eqn:E5; lia.
  - destruct (b - a <? 32768) eqn:E5; lia.
Qed.

(* ... but transitivity fails outside a half-range window *)
Lemma compare_seq_not_transitive :
  compare_seq 0 20000 = (-1)%Z /\ compare_seq 20000 40000 = (-1)%Z /\ compare_seq 0 40000 = 1%Z.
Proof. vm_compute. auto. Qed.
