(* lal's depacketisers applied to what lal's packers produce: every frame of
   the packer is a [frame_good] frame whose output is the original unit. *)
From Coq Require Import NArith ZArith Lia ZifyN ZifyNat ZifyBool.
From Lal Require Import Common.LBytes Common.Res Common.LBytesProofs Common.ByteCases
  Rtp.RtpSeqArith Rtp.RtpPacker Rtp.RtpUnpacker Rtp.RtpFrames Rtp.RtpSeqProofs Rtp.RtpPackerProofs.
Ltac Zify.zify_post_hook ::= Z.div_mod_to_equations.
Open Scope N_scope.

(* ---- facts about single bytes, by exhaustive computation ---- *)
Ltac by_bytes P := apply N.eqb_eq; apply (byte_cases P); [vm_compute; reflexivity|assumption].

Lemma avc_fu_indicator_type b0 : b0 < 256 -> avc_nal_type (N.lor 28 (N.land b0 224)) = 28.
Proof. intros H. by_bytes (fun b0 => avc_nal_type (N.lor 28 (N.land b0 224)) =? 28). Qed.

Lemma hevc_fu_hdr_type b0 : b0 < 256 -> hevc_nal_type (N.lor (N.land b0 129) 98) = 49.
Proof. intros H. by_bytes (fun b0 => hevc_nal_type (N.lor (N.land b0 129) 98) =? 49). Qed.

Lemma avc_hdr_rebuild b0 fl : b0 < 256 -> (fl = 128 \/ fl = 64 \/ fl = 0) ->
  N.lor (N.land (N.lor 28 (N.land b0 224)) 224) (N.land (N.lor (avc_nal_type b0) fl) 31) = b0.
Proof.
  intros H [ -> | [ -> | -> ] ].
  - by_bytes (fun b0 => N.lor (N.land (N.lor 28 (N.land b0 224)) 224) (N.land (N.lor (avc_nal_type b0) 128) 31) =? b0).
  - by_bytes (fun b0 => N.lor (N.land (N.lor 28 (N.land b0 224)) 224) (N.land (N.lor (avc_nal_type b0) 64) 31) =? b0).
  - by_bytes (fun b0 => N.lor (N.land (N.lor 28 (N.land b0 224)) 224) (N.land (N.lor (avc_nal_type b0) 0) 31) =? b0).
Qed.

Lemma hevc_hdr_rebuild b0 : b0 < 256 ->
  N.lor (N.land (N.lor (N.land b0 129) 98) 129) (N.land (N.lor (hevc_nal_type b0) 128) 63 * 2) = b0.
Proof. intros H. by_bytes (fun b0 => N.lor (N.land (N.lor (N.land b0 129) 98) 129) (N.land (N.lor (hevc_nal_type b0) 128) 63 * 2) =? b0). Qed.

Lemma fu_pos_flag_avc b0 first last : b0 < 256 ->
  fu_pos_of (N.lor (avc_nal_type b0) (fu_flag first last)) =
  if last then pos_fu_end else if first then pos_fu_start else pos_fu_middle.
Proof.
  intros H. destruct last; [|destruct first]; cbn [fu_flag].
  - by_bytes (fun b0 => fu_pos_of (N.lor (avc_nal_type b0) 64) =? pos_fu_end).
  - by_bytes (fun b0 => fu_pos_of (N.lor (avc_nal_type b0) 128) =? pos_fu_start).
  - by_bytes (fun b0 => fu_pos_of (N.lor (avc_nal_type b0) 0) =? pos_fu_middle).
Qed.

Lemma fu_pos_flag_hevc b0 first last : b0 < 256 ->
  fu_pos_of (N.lor (hevc_nal_type b0) (fu_flag first last)) =
  if last then pos_fu_end else if first then pos_fu_start else pos_fu_middle.
Proof.
  intros H. destruct last; [|destruct first]; cbn [fu_flag].
  - by_bytes (fun b0 => fu_pos_of (N.lor (hevc_nal_type b0) 64) =? pos_fu_end).
  - by_bytes (fun b0 => fu_pos_of (N.lor (hevc_nal_type b0) 128) =? pos_fu_start).
  - by_bytes (fun b0 => fu_pos_of (N.lor (hevc_nal_type b0) 0) =? pos_fu_middle).
Qed.

(* rewrite the scrutinee of an option match with an equation that holds up to
   conversion of implicit arguments (bytes vs list N) *)
Ltac rew_scrut E :=
  match goal with
  | |- context [match ?X with Some _ => _ | None => _ end] =>
      match type of E with _ = ?R => replace X with R by (symmetry; exact E) end
  end.

(* ---- FU packets as the container sees them ---- *)
Section Fu.
Variable c : vcodec.
Variables b0 b1 : N.
Hypothesis Hb0 : b0 < 256.
Let pr := proto_of_codec c.
Let mk := fu_packet true c b0 b1.
Let hdr := N.to_nat (fu_hdr_size c).

Lemma pos_of_fu first last chunk :
  pos_of pr (mk first last chunk) = if last then pos_fu_end else if first then pos_fu_start else pos_fu_middle.
Proof.
  unfold pos_of, pr, mk. destruct c; cbn [proto_of_codec calc_position fu_packet calc_position_avc calc_position_hevc].
  - rewrite avc_fu_indicator_type by assumption. cbn [N.leb N.eqb N.compare Pos.compare Pos.compare_cont Pos.eqb].
    change (28 <=? 23) with false. change (28 =? 28) with true. cbv iota.
    apply fu_pos_flag_avc. assumption.
  - rewrite hevc_fu_hdr_type by assumption.
    change (hevc_type_known 49) with false. change (49 =? 49) with true. cbv iota.
    apply fu_pos_flag_hevc. assumption.
Qed.

Lemma skip_fu first last chunk : skipn hdr (mk first last chunk) = chunk.
Proof. unfold hdr, mk. destruct c; reflexivity. Qed.

Lemma fu_header_of_start chunk :
  fu_nal_header c (mk true false chunk) = match c with Avc => [b0] | Hevc => [b0; b1] end.
Proof.
  unfold mk. destruct c; cbn [fu_nal_header fu_packet nth fu_flag].
  - rewrite avc_hdr_rebuild; auto.
  - rewrite hevc_hdr_rebuild; auto.
Qed.

(* walking over the continuation packets: all remaining pieces are collected *)
Lemma fu_collect_marked : forall ps s ts acc L,
  ps <> [] -> s < 65536 ->
  exists pend,
    fu_collect hdr s (mk_upkts pr (seq_succ s) ts (mark_pieces mk false ps) ++ L) acc
      = Some (rev acc ++ ps, pend, L)
    /\ u_seq pend = seq_add s (lenN ps) /\ u_ts pend = ts.
Proof.
  induction ps as [|p t IH]; intros s ts acc L Hne Hs; [congruence|].
  assert (Hsub : (sub_seq (seq_succ s) s =? 1)%Z = true).
  { apply Z.eqb_eq. apply sub_seq_one; [unfold seq_succ, seq_mod; lia|assumption|reflexivity]. }
  destruct t as [|q t'].
  - cbn [mark_pieces mk_upkts app fu_collect u_seq u_pos u_body].
    rewrite Hsub. rewrite pos_of_fu. change (pos_fu_end =? pos_fu_middle) with false.
    change (pos_fu_end =? pos_fu_end) with true. cbv iota. rewrite skip_fu.
    eexists. split; [reflexivity|]. cbn [u_seq u_ts]. split; reflexivity.
  - rewrite mark_pieces_cons2. cbn [mk_upkts app fu_collect u_seq u_pos u_body].
    rewrite Hsub. rewrite pos_of_fu. change (pos_fu_middle =? pos_fu_middle) with true. cbv iota.
    rewrite skip_fu.
    destruct (IH (seq_succ s) ts (p :: acc) L) as (pend & E & E1 & E2); [discriminate|unfold seq_succ, seq_mod; lia|].
    exists pend. split.
    { etransitivity; [exact E|]. cbn [rev]. rewrite <- app_assoc. reflexivity. }
    split; [|assumption].
    rewrite E1. rewrite seq_add_succ. f_equal. unfold lenN. cbn [length]. lia.
Qed.

(* ... and a list that ends (or has a gap) before the end packet: no frame *)
Lemma fu_collect_incomplete : forall ps j s ts acc L,
  (j < length ps)%nat -> s < 65536 ->
  (L = [] \/ exists p L', L = p :: L' /\ sub_seq (u_seq p) (seq_add s (N.of_nat j)) <> 1%Z) ->
  fu_collect hdr s (firstn j (mk_upkts pr (seq_succ s) ts (mark_pieces mk false ps)) ++ L) acc = None.
Proof.
  induction ps as [|p t IH]; intros j s ts acc L Hj Hs HL; [cbn in Hj; lia|].
  destruct j as [|j'].
  - cbn [firstn app]. destruct HL as [->|(q & L' & -> & Hq)]; [reflexivity|].
    cbn [fu_collect]. rewrite seq_add_0 in Hq by assumption.
    destruct (sub_seq (u_seq q) s =? 1)%Z eqn:E; [apply Z.eqb_eq in E; congruence|reflexivity].
  - cbn [length] in Hj. destruct t as [|q t']; [cbn in Hj; lia|].
    rewrite mark_pieces_cons2. cbn [mk_upkts firstn app fu_collect u_seq u_pos u_body].
    assert (Hsub : (sub_seq (seq_succ s) s =? 1)%Z = true).
    { apply Z.eqb_eq. apply sub_seq_one; [unfold seq_succ, seq_mod; lia|assumption|reflexivity]. }
    rewrite Hsub, pos_of_fu. change (pos_fu_middle =? pos_fu_middle) with true. cbv iota.
    apply IH; [lia|unfold seq_succ, seq_mod; lia|].
    destruct HL as [->|(r & L' & -> & Hr)]; [left; reflexivity|right].
    exists r, L'. split; [reflexivity|]. rewrite seq_add_succ.
    replace (N.of_nat j' + 1) with (N.of_nat (S j')) by lia. assumption.
Qed.
End Fu.

(* ---- generic facts about mk_upkts ---- *)
Lemma mk_upkts_length pr s ts pls : length (mk_upkts pr s ts pls) = length pls.
Proof. revert s. induction pls; intros s; cbn; [reflexivity|f_equal; auto]. Qed.

Lemma mk_upkts_nth_seq pr ts : forall pls s j, (j < length pls)%nat -> s < 65536 ->
  u_seq (nth j (mk_upkts pr s ts pls) dummy_upkt) = seq_add s (N.of_nat j).
Proof.
  induction pls as [|p t IH]; intros s j Hj Hs; [cbn in Hj; lia|].
  destruct j as [|j']; cbn [mk_upkts nth u_seq].
  - symmetry. apply seq_add_0. assumption.
  - cbn [length] in Hj. rewrite IH; [|lia|unfold seq_succ, seq_mod; lia].
    rewrite seq_add_succ. f_equal. lia.
Qed.

Lemma mk_upkts_last_seq pr ts : forall pls s, pls <> [] -> s < 65536 ->
  u_seq (last (mk_upkts pr s ts pls) dummy_upkt) = seq_add s (lenN pls - 1).
Proof.
  induction pls as [|p t IH]; intros s Hne Hs; [congruence|].
  destruct t as [|q t'].
  - cbn. symmetry. apply seq_add_0. assumption.
  - change (last (mk_upkts pr s ts (p :: q :: t')) dummy_upkt)
      with (last (mk_upkts pr (seq_succ s) ts (q :: t')) dummy_upkt).
    rewrite IH; [|discriminate|unfold seq_succ, seq_mod; lia].
    rewrite seq_add_succ. f_equal. unfold lenN. cbn [length]. lia.
Qed.

Lemma out_ts_ok site rate ts : rate_ok rate -> out_ts site rate ts = Ok (rtp_ms rate ts).
Proof.
  intros [H1 H2]. unfold out_ts.
  destruct (rate =? 0) eqn:E0; [apply N.eqb_eq in E0; lia|reflexivity].
Qed.

Lemma try_unpack_one_video c rate l :
  try_unpack_one (proto_of_codec c) rate l = try_unpack_video c rate l.
Proof. destruct c; reflexivity. Qed.

Lemma pos_of_single c nal : nal <> [] -> single_type_ok c nal -> pos_of (proto_of_codec c) nal = pos_single.
Proof.
  intros Hne Hs. destruct nal as [|b0 r]; [congruence|]. unfold pos_of.
  destruct c; cbn [proto_of_codec calc_position calc_position_avc calc_position_hevc single_type_ok nth] in *.
  - destruct (avc_nal_type b0 <=? 23) eqn:E; [reflexivity|lia].
  - rewrite Hs. reflexivity.
Qed.

(* the frame of one NAL unit *)
Lemma video_frame_good c nal maxp rate s ts pls :
  fu_hdr_size c < maxp -> nal <> [] -> nth 0 nal 0 < 256 ->
  single_type_ok c nal -> rate_ok rate -> s < 65536 ->
  pack_nal true c nal maxp = Ok pls ->
  frame_good (proto_of_codec c) rate (mk_upkts (proto_of_codec c) s ts pls)
             [(rtp_ms rate ts, avcc nal)].
Proof.
  intros Hh Hne Hb0 Hty Hrate Hs Hp.
  destruct (N.le_gt_cases (lenN nal) maxp) as [Hle|Hgt].
  - (* single NAL unit packet *)
    rewrite pack_nal_single in Hp by assumption. injection Hp as <-.
    cbn [mk_upkts]. rewrite pos_of_single by assumption.
    split; [discriminate|]. split.
    + intros L. rewrite try_unpack_one_video. cbn [app try_unpack_video u_pos].
      change (pos_single =? pos_single) with true. cbv iota.
      rewrite out_ts_ok by assumption. reflexivity.
    + intros m L Hm. cbn in Hm. lia.
  - (* fragmentation units *)
    rewrite pack_nal_fu in Hp by assumption. injection Hp as <-.
    destruct (pack_nal_fu_two c nal maxp Hgt Hh) as (p & q & t & Ep).
    set (b0 := nth 0 nal 0) in *. set (b1 := nth 1 nal 0).
    assert (Hcat : concat (p :: q :: t) = skipn (fu_skip c) nal).
    { rewrite <- Ep. pose proof (fu_skip_lt_hdr c). unfold lenN in Hgt. apply fu_pieces_concat.
      - unfold fu_chunk. lia.
      - rewrite skipn_length. lia.
      - lia. }
    rewrite Ep. rewrite mark_pieces_cons2.
    set (mk := fu_packet true c b0 b1).
    assert (Hnal : nal = match c with Avc => [b0] | Hevc => [b0; b1] end ++ skipn (fu_skip c) nal).
    { unfold b0, b1. destruct c; cbn [fu_skip].
      - destruct nal as [|x r]; [congruence|reflexivity].
      - destruct nal as [|x [|y r]]; [congruence| |reflexivity].
        exfalso. cbn in Hgt, Hh. lia. }
    cbn [mk_upkts]. pose proof (pos_of_fu c b0 b1 Hb0 true false p) as Hpos. fold mk in Hpos. rewrite Hpos. clear Hpos.
    change (if false then pos_fu_end else if true then pos_fu_start else pos_fu_middle) with pos_fu_start.
    assert (Hskip : skipn (N.to_nat (fu_hdr_size c)) (mk true false p) = p) by apply (skip_fu c b0 b1).
    assert (Hhdr : fu_nal_header c (mk true false p) = match c with Avc => [b0] | Hevc => [b0; b1] end)
      by apply (fu_header_of_start c b0 b1 Hb0).
    split; [discriminate|]. split.
    + intros L. rewrite try_unpack_one_video. cbn [app try_unpack_video u_pos u_seq u_body].
      change (pos_fu_start =? pos_single) with false. change (pos_fu_start =? pos_stapa) with false.
      change (pos_fu_start =? pos_ap) with false. change (pos_fu_start =? pos_fu_start) with true.
      cbn [orb]. cbv iota.
      rewrite Hskip.
      destruct (fu_collect_marked c b0 b1 Hb0 (q :: t) s ts [p] L) as (pend & E & E1 & E2); [discriminate|assumption|].
      fold mk in E. rew_scrut E. cbv iota beta. rewrite E2. rewrite out_ts_ok by assumption. cbn [bind].
      rewrite Hhdr. cbn [rev app].
      rewrite Hcat.
      assert (Hpay : be_put 4 (u32 (lenN (skipn (fu_skip c) nal) + lenN (match c with Avc => [b0] | Hevc => [b0; b1] end)))
                      ++ match c with Avc => [b0] | Hevc => [b0; b1] end ++ skipn (fu_skip c) nal = avcc nal).
      { unfold avcc. pose proof (f_equal (@lenN N) Hnal) as Hlen. rewrite lenN_app in Hlen.
        rewrite <- Hnal. f_equal. f_equal. f_equal. lia. }
      apply f_equal, f_equal. apply f_equal2; [apply f_equal2; [apply f_equal2|reflexivity]|].
      * do 2 f_equal. exact Hpay.
      * rewrite E1.
        assert (Hl : u_seq (last (mk_upkt s ts (mk true false p) pos_fu_start
                     :: mk_upkts (proto_of_codec c) (seq_succ s) ts (mark_pieces mk false (q :: t))) dummy_upkt)
                     = seq_add (seq_succ s) (lenN (mark_pieces mk false (q :: t)) - 1)).
        { rewrite <- (mk_upkts_last_seq (proto_of_codec c) ts).
          - cbn [last]. destruct (mk_upkts (proto_of_codec c) (seq_succ s) ts (mark_pieces mk false (q :: t))) eqn:E0; [|reflexivity].
            apply (f_equal (@length upkt)) in E0. rewrite mk_upkts_length, mark_pieces_length in E0. cbn in E0. lia.
          - intros E0. apply (f_equal (@length bytes)) in E0. rewrite mark_pieces_length in E0. cbn in E0. lia.
          - unfold seq_succ, seq_mod. lia. }
        rewrite Hl. rewrite seq_add_succ. f_equal. unfold lenN. rewrite mark_pieces_length. cbn [length]. lia.
      * cbn [length]. rewrite mk_upkts_length, mark_pieces_length. reflexivity.
    + intros m L Hm HL. rewrite try_unpack_one_video.
      cbn [length] in Hm. rewrite mk_upkts_length, mark_pieces_length in Hm.
      destruct m as [|j]; [lia|]. cbn [firstn app try_unpack_video u_pos u_seq u_body].
      change (pos_fu_start =? pos_single) with false. change (pos_fu_start =? pos_stapa) with false.
      change (pos_fu_start =? pos_ap) with false. change (pos_fu_start =? pos_fu_start) with true.
      cbn [orb]. cbv iota.
      rewrite (fu_collect_incomplete c b0 b1 Hb0 (q :: t) j s ts); [reflexivity|lia|assumption|].
      destruct HL as [->|(r & L' & -> & Hr)]; [left; reflexivity|right].
      exists r, L'. split; [reflexivity|].
      replace (S j - 1)%nat with j in Hr by lia.
      assert (Hn : u_seq (nth j (mk_upkt s ts (mk true false p) pos_fu_start
                  :: mk_upkts (proto_of_codec c) (seq_succ s) ts (mark_pieces mk false (q :: t))) dummy_upkt)
                   = seq_add s (N.of_nat j)).
      { destruct j as [|j']; cbn [nth u_seq].
        - symmetry. apply seq_add_0. assumption.
        - rewrite mk_upkts_nth_seq; [|rewrite mark_pieces_length; cbn [length] in *; lia|unfold seq_succ, seq_mod; lia].
          rewrite seq_add_succ. f_equal. lia. }
      rewrite Hn in Hr. assumption.
Qed.

(* ---- audio ---- *)
Lemma land_248_mult8 y : y < 256 -> y mod 8 = 0 -> N.land y 248 = y.
Proof.
  intros H H8.
  assert (E : (negb (y mod 8 =? 0) || (N.land y 248 =? y)) = true).
  { apply (byte_cases (fun y => negb (y mod 8 =? 0) || (N.land y 248 =? y))); [vm_compute; reflexivity|assumption]. }
  rewrite H8 in E. cbn in E. apply N.eqb_eq. exact E.
Qed.

Lemma parse_au_single hi lo frame :
  parse_au (0 :: 16 :: hi :: lo :: frame) = Ok [((hi * 256 + N.land lo 248) / 8, 4)].
Proof.
  unfold parse_au. change ((0 * 256 + 16 + 7) / 8) with 2. change (2 / 2) with 1. change (2 + 2) with 4.
  replace (lenN (0 :: 16 :: hi :: lo :: frame) <? 4) with false by (unfold lenN; cbn [length]; lia).
  change (N.to_nat 1) with 1%nat. cbn [parse_au_loop].
  change (N.to_nat 2) with 2%nat. change (N.to_nat (2 + 1)) with 3%nat. cbn [nth_error bind].
  change (1 <? 1) with false. reflexivity.
Qed.

Lemma aac_size_field n : n < 8192 ->
  (u8 (n / 32) * 256 + N.land (u8 (n mod 32 * 8)) 248) / 8 = n.
Proof.
  intros H. unfold u8.
  rewrite (N.mod_small (n / 32)) by lia. rewrite (N.mod_small (n mod 32 * 8)) by lia.
  rewrite land_248_mult8 by lia. lia.
Qed.

Lemma aac_frame_good frame maxp rate s ts :
  0 < maxp -> lenN frame < 8192 -> rate_ok rate ->
  frame_good PAac rate (mk_upkts PAac s ts (pack_aac frame maxp)) [(rtp_ms rate ts, frame)].
Proof.
  intros Hm Hl Hr. unfold pack_aac. destruct (maxp =? 0) eqn:E; [lia|].
  cbn [mk_upkts app]. split; [discriminate|]. split.
  - intros L. cbn [try_unpack_one app try_unpack_aac u_body u_seq u_ts last].
    rewrite parse_au_single. cbn [bind]. rewrite aac_size_field by assumption.
    replace (lenN (0 :: 16 :: u8 (lenN frame / 32) :: u8 (lenN frame mod 32 * 8) :: frame) <? 4) with false
      by (unfold lenN; cbn [length]; lia).
    change (N.to_nat 4) with 4%nat. cbn [skipn].
    rewrite N.leb_refl. rewrite out_ts_ok by assumption. cbn [bind].
    unfold lenN. rewrite Nat2N.id, firstn_all. reflexivity.
  - intros m L Hm'. cbn in Hm'. lia.
Qed.

Lemma raw_frame_good frame maxp rate s ts :
  0 < maxp -> rate_ok rate ->
  frame_good PRaw rate (mk_upkts PRaw s ts (pack_raw frame maxp)) [(rtp_ms rate ts, frame)].
Proof.
  intros Hm Hr. unfold pack_raw. destruct (maxp =? 0) eqn:E; [lia|].
  cbn [mk_upkts]. split; [discriminate|]. split.
  - intros L. cbn [try_unpack_one app try_unpack_raw u_body u_seq u_ts last].
    rewrite out_ts_ok by assumption. reflexivity.
  - intros m L Hm'. cbn in Hm'. lia.
Qed.
