(* Model of the packetising side of pkg/rtprtcp:
     rtp_packer_payload_avc_hevc.go  (Pack / PackNal: single NAL, FU-A, HEVC FU)
     rtp_packer_payload_aac.go       (one AU-header, one access unit)
     rtp_packer_payload_pcm.go, rtp_packer_payload_opus.go (raw)
     rtp_packer.go                   (RtpPacker.Pack: marker, seq mod 2^16, timestamp)
     rtp_packet.go                   (MakeRtpPacket / RtpHeader.PackTo)
   No proofs in this file.

   [fixed] selects between the pinned tree (false: the FU packetiser keeps
   only NRI for AVC and replaces the HEVC layer-id/TID byte by 01, finding
   F-05) and the repaired code (true: every NAL header bit is carried in the
   FU indicator / PayloadHdr).  The current tree is [fixed = true]. *)
From Lal Require Import Common.LBytes Common.Res Rtp.RtpSeqArith.
Open Scope N_scope.

Inductive vcodec := Avc | Hevc.

Definition site_packnal_index : N := 1.

(* headerSize / bpos of PackNal *)
Definition fu_hdr_size (c : vcodec) : N := match c with Avc => 2 | Hevc => 3 end.
Definition fu_skip (c : vcodec) : nat := match c with Avc => 1%nat | Hevc => 2%nat end.

Definition avc_nal_type (b0 : N) : N := N.land b0 31.              (* avc.ParseNaluType *)
Definition hevc_nal_type (b0 : N) : N := N.land (b0 / 2) 63.        (* hevc.ParseNaluType *)

(* start / end flag of one FU packet: only a non-last packet can carry the
   start bit (item[sepos] |= 0x80 is inside the "not the last packet" branch) *)
Definition fu_flag (first last : bool) : N :=
  if last then 64 else if first then 128 else 0.

(* one FU payload: header bytes then the fragment *)
Definition fu_packet (fixed : bool) (c : vcodec) (b0 b1 : N) (first last : bool) (chunk : bytes) : bytes :=
  match c with
  | Avc =>
      let nri := N.land b0 (if fixed then 224 else 96) in
      N.lor 28 nri :: N.lor (avc_nal_type b0) (fu_flag first last) :: chunk
  | Hevc =>
      (if fixed then N.lor (N.land b0 129) 98 else 98)
        :: (if fixed then b1 else 1)
        :: N.lor (hevc_nal_type b0) (fu_flag first last) :: chunk
  end.

(* the for-loop of PackNal over the NAL body (header byte(s) skipped):
   while more than [chunk] bytes remain emit a full packet, then the last one.
   fuel = length of the body (each round consumes chunk >= 1 bytes). *)
Fixpoint fu_loop (fuel : nat) (mk : bool -> bool -> bytes -> bytes) (chunk : nat)
         (first : bool) (body : bytes) : list bytes :=
  match fuel with
  | O => []
  | S f =>
      match skipn chunk body with
      | [] => [mk false true body]
      | rest => mk first false (firstn chunk body) :: fu_loop f mk chunk false rest
      end
  end.

(* RtpPackerPayloadAvcHevc.PackNal(nal, maxSize), maxSize >= 1.
   maxSize < headerSize: item[headerSize-1] is out of range (panic);
   maxSize = headerSize: the Go loop never advances (reported as out-of-fuel;
   never run on the Go side). *)
Definition pack_nal (fixed : bool) (c : vcodec) (nal : bytes) (maxp : N) : res (list bytes) :=
  if lenN nal <=? maxp then Ok [nal]
  else if maxp <? fu_hdr_size c then Panic site_packnal_index
  else if maxp =? fu_hdr_size c then Err err_out_of_fuel
  else
    let b0 := nth 0 nal 0 in
    let b1 := nth 1 nal 0 in
    Ok (fu_loop (length nal) (fu_packet fixed c b0 b1) (N.to_nat (maxp - fu_hdr_size c))
                true (skipn (fu_skip c) nal)).

(* access unit delimiters are skipped by Pack in AVCC / Annex-B mode *)
Definition is_aud (c : vcodec) (nal : bytes) : bool :=
  match c with
  | Avc => avc_nal_type (nth 0 nal 0) =? 9
  | Hevc => hevc_nal_type (nth 0 nal 0) =? 35
  end.

(* Pack in AVCC mode on a frame given as its NAL list (the splitter
   avc.SplitNaluAvcc belongs to C19; every NAL is non-empty) *)
Fixpoint pack_nals (fixed : bool) (c : vcodec) (nals : list bytes) (maxp : N) : res (list bytes) :=
  match nals with
  | [] => Ok []
  | nal :: t =>
      if is_aud c nal then pack_nals fixed c t maxp
      else
        let* a := pack_nal fixed c nal maxp in
        let* b := pack_nals fixed c t maxp in
        Ok (a ++ b)
  end.

(* in == nil || maxSize <= 0  =>  no payloads *)
Definition pack_video_frame (fixed : bool) (c : vcodec) (nals : list bytes) (maxp : N) : res (list bytes) :=
  if maxp =? 0 then Ok [] else pack_nals fixed c nals maxp.

(* RtpPackerPayloadAac.Pack: AU-headers-length = 16 bits, one AU header with a
   13-bit size and a 3-bit index of 0; uint8 truncation of len>>5 as in Go *)
Definition pack_aac (frame : bytes) (maxp : N) : list bytes :=
  if maxp =? 0 then []
  else [ [0; 16; u8 (lenN frame / 32); u8 ((lenN frame mod 32) * 8)] ++ frame ].

(* RtpPackerPayloadPcm.Pack / RtpPackerPayloadOpus.Pack *)
Definition pack_raw (frame : bytes) (maxp : N) : list bytes :=
  if maxp =? 0 then [] else [frame].

(* ---- RtpPacker ---- *)
Record rtp_packet := mk_rtp {
  rp_mark : N; rp_pt : N; rp_seq : N; rp_ts : N; rp_ssrc : N; rp_payload : bytes }.

(* uint32(float64(ms) * float64(rate) / 1000): exact for ms*rate < 2^50 *)
Definition rtp_timestamp (ms rate : N) : N := u32 (ms * rate / 1000).

(* MakeRtpPacket: V=2, P=0, X=0, CC=0 | M,PT | seq | timestamp | ssrc | payload *)
Definition rtp_raw (p : rtp_packet) : bytes :=
  [128; N.lor (u8 (rp_pt p)) (rp_mark p * 128)]
    ++ be_put 2 (rp_seq p) ++ be_put 4 (rp_ts p) ++ be_put 4 (u32 (rp_ssrc p)) ++ rp_payload p.

(* the loop of RtpPacker.Pack over the payloads of one AvPacket *)
Fixpoint rtp_pack_payloads (pt ts ssrc seq : N) (pls : list bytes) : list rtp_packet * N :=
  match pls with
  | [] => ([], seq)
  | p :: t =>
      let mark := match t with [] => 1 | _ => 0 end in
      let (r, s') := rtp_pack_payloads pt ts ssrc (seq_succ seq) t in
      (mk_rtp mark pt seq ts ssrc p :: r, s')
  end.

Definition rtp_pack (pt rate ssrc seq ms : N) (pls : list bytes) : list rtp_packet * N :=
  rtp_pack_payloads pt (rtp_timestamp ms rate) ssrc seq pls.

(* a whole stream: frames (media time in ms, payload list) packed one after
   the other by one RtpPacker *)
Fixpoint rtp_pack_stream (pt rate ssrc seq : N) (frames : list (N * list bytes)) : list (list rtp_packet) * N :=
  match frames with
  | [] => ([], seq)
  | (ms, pls) :: t =>
      let (a, s1) := rtp_pack pt rate ssrc seq ms pls in
      let (b, s2) := rtp_pack_stream pt rate ssrc s1 t in
      (a :: b, s2)
  end.
