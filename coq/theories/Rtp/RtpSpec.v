(* Independent reference depacketisers written from the RFC texts (not from
   lal): RFC 6184 (H.264: single NAL unit packet, STAP-A, FU-A; non-interleaved
   mode), RFC 7798 (H.265: single NAL unit packet, AP, FU; no DONL), RFC 3640
   (AAC-hbr: 16-bit AU-headers-length, AU headers of 13-bit size + 3-bit index,
   complete access units).  Input: the RTP payloads in sequence order.
   Output: the NAL units / access units.  Arithmetic only (/, mod), no
   sharing with the lal model.  No proofs in this file. *)
From Lal Require Import Common.LBytes.
Open Scope N_scope.

(* [size16 | unit]* , exact fit *)
Fixpoint spec_aggr (fuel : nat) (b : bytes) : option (list bytes) :=
  match fuel, b with
  | _, [] => Some []
  | S f, s1 :: s0 :: rest =>
      let n := s1 * 256 + s0 in
      if n <=? lenN rest then
        match spec_aggr f (skipn (N.to_nat n) rest) with
        | Some l => Some (firstn (N.to_nat n) rest :: l)
        | None => None
        end
      else None
  | _, _ => None
  end.

(* RFC 6184 section 5.2-5.8.  st = the NAL unit being reassembled from FU-As *)
Fixpoint rfc6184_depack (st : option bytes) (pls : list bytes) : option (list bytes) :=
  match pls with
  | [] => match st with None => Some [] | Some _ => None end
  | p :: t =>
      match p with
      | [] => None
      | ind :: r =>
          let ty := ind mod 32 in
          if (1 <=? ty) && (ty <=? 23) then
            match st with
            | Some _ => None
            | None => match rfc6184_depack None t with Some l => Some (p :: l) | None => None end
            end
          else if ty =? 24 then
            match st, spec_aggr (length r) r with
            | None, Some us =>
                match rfc6184_depack None t with Some l => Some (us ++ l) | None => None end
            | _, _ => None
            end
          else if ty =? 28 then
            match r with
            | [] => None
            | fh :: data =>
                let s := fh / 128 in
                let e := (fh / 64) mod 2 in
                let nalhdr := (ind / 32) * 32 + fh mod 32 in   (* F, NRI from the indicator; type from the FU header *)
                let cur :=
                  if s =? 1 then match st with None => Some (nalhdr :: data) | Some _ => None end
                  else match st with Some acc => Some (acc ++ data) | None => None end in
                match cur with
                | None => None
                | Some acc =>
                    if e =? 1 then
                      match rfc6184_depack None t with Some l => Some (acc :: l) | None => None end
                    else rfc6184_depack (Some acc) t
                end
            end
          else None
      end
  end.

(* RFC 7798 section 4.4.  PayloadHdr = 2 bytes with the NAL header layout
   F(1) Type(6) LayerId(6) TID(3). *)
Fixpoint rfc7798_depack (st : option bytes) (pls : list bytes) : option (list bytes) :=
  match pls with
  | [] => match st with None => Some [] | Some _ => None end
  | p :: t =>
      match p with
      | h0 :: h1 :: r =>
          let ty := (h0 / 2) mod 64 in
          if ty =? 48 then
            match st, spec_aggr (length r) r with
            | None, Some us =>
                match rfc7798_depack None t with Some l => Some (us ++ l) | None => None end
            | _, _ => None
            end
          else if ty =? 49 then
            match r with
            | [] => None
            | fh :: data =>
                let s := fh / 128 in
                let e := (fh / 64) mod 2 in
                let futype := fh mod 64 in
                (* F and the high LayerId bit from PayloadHdr byte 0, the type
                   from the FU header; byte 1 (LayerId low bits, TID) copied *)
                let nal0 := (h0 / 128) * 128 + futype * 2 + h0 mod 2 in
                let cur :=
                  if s =? 1 then match st with None => Some (nal0 :: h1 :: data) | Some _ => None end
                  else match st with Some acc => Some (acc ++ data) | None => None end in
                match cur with
                | None => None
                | Some acc =>
                    if e =? 1 then
                      match rfc7798_depack None t with Some l => Some (acc :: l) | None => None end
                    else rfc7798_depack (Some acc) t
                end
            end
          else if ty =? 50 then None
          else
            match st with
            | Some _ => None
            | None => match rfc7798_depack None t with Some l => Some (p :: l) | None => None end
            end
      | _ => None
      end
  end.

(* RFC 3640 section 3.2.1 / 3.3.6, one packet: AU-headers-length in bits,
   n = that / 16 headers, sizes = first 13 bits of each header *)
Fixpoint spec_au_sizes (n : nat) (hdrs : bytes) : option (list N) :=
  match n with
  | O => Some []
  | S k =>
      match hdrs with
      | a :: b :: r =>
          match spec_au_sizes k r with
          | Some l => Some ((a * 256 + b) / 8 :: l)
          | None => None
          end
      | _ => None
      end
  end.

Fixpoint spec_cut (sizes : list N) (data : bytes) : option (list bytes) :=
  match sizes with
  | [] => match data with [] => Some [] | _ => None end
  | n :: t =>
      if n <=? lenN data then
        match spec_cut t (skipn (N.to_nat n) data) with
        | Some l => Some (firstn (N.to_nat n) data :: l)
        | None => None
        end
      else None
  end.

Definition rfc3640_packet (p : bytes) : option (list bytes) :=
  match p with
  | l1 :: l0 :: r =>
      let bits := l1 * 256 + l0 in
      if negb (bits mod 16 =? 0) then None
      else
        let n := bits / 16 in
        if 2 * n <=? lenN r then
          match spec_au_sizes (N.to_nat n) r with
          | Some sizes => spec_cut sizes (skipn (N.to_nat (2 * n)) r)
          | None => None
          end
        else None
  | _ => None
  end.

Fixpoint rfc3640_depack (pls : list bytes) : option (list bytes) :=
  match pls with
  | [] => Some []
  | p :: t =>
      match rfc3640_packet p, rfc3640_depack t with
      | Some a, Some b => Some (a ++ b)
      | _, _ => None
      end
  end.
