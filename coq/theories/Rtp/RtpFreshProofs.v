(* The container as created (doneSeqFlag = false): the first frame fed in
   order primes it; from then on the refinement theorem applies. *)
From Coq Require Import List Arith NArith ZArith Lia Sorted ZifyN ZifyNat ZifyBool.
From Lal Require Import Common.LBytes Common.Res Common.LBytesProofs Rtp.RtpSeqArith Rtp.RtpPacker Rtp.RtpUnpacker
  Rtp.RtpReorder Rtp.RtpFrames Rtp.RtpSeqProofs Rtp.RtpPackerProofs Rtp.RtpUnpackerProofs
  Rtp.RtpReorderAbs Rtp.RtpReorderAbsProofs Rtp.RtpReorderProofs Rtp.RtpStreamProofs Rtp.RtpRoundtripProofs.
Import ListNotations.
Ltac Zify.zify_post_hook ::= Z.div_mod_to_equations.
Local Open Scope nat_scope.

Lemma feed_all_app pr rate w : forall a b st,
  feed_all pr rate w st (a ++ b) =
  match feed_all pr rate w st a with
  | Ok (st1, o1) =>
      match feed_all pr rate w st1 b with
      | Ok (st2, o2) => Ok (st2, o1 ++ o2)
      | Err e => Err e
      | Panic x => Panic x
      end
  | Err e => Err e
  | Panic x => Panic x
  end.
Proof.
  induction a as [|[[sq ts] body] t IH]; intros b st; cbn [app feed_all].
  - destruct (feed_all pr rate w st b) as [[st2 o2]| |]; reflexivity.
  - destruct (feed pr rate w st sq ts body) as [[st1 o1]| |]; cbn [bind]; try reflexivity.
    rewrite IH. destruct (feed_all pr rate w st1 t) as [[st2 o2]| |]; cbn [bind]; try reflexivity.
    destruct (feed_all pr rate w st2 b) as [[st3 o3]| |]; cbn [bind]; try reflexivity.
    rewrite app_assoc. reflexivity.
Qed.

Lemma insert_at_end p : forall l,
  Forall (fun e => compare_seq (u_seq p) (u_seq e) = 1%Z) l -> insert p l = (l ++ [p], true).
Proof.
  induction l as [|e t IH]; intros H; [reflexivity|].
  apply Forall_cons_iff in H. destruct H as [H0 H']. cbn [insert app]. rewrite H0.
  change (1 =? 0)%Z with false. change (1 =? 1)%Z with true. cbv iota. rewrite (IH H'). reflexivity.
Qed.

Section Fresh.
Variables (pr : proto) (rate : N) (w : Z) (s0 : N).
Variable F : list upkt.
Variable o : list avout.
Hypothesis Hgood : frame_good pr rate F o.
Hypothesis Hseq : forall i, i < length F -> u_seq (nth i F dummy_upkt) = seq_add s0 (N.of_nat i).
Hypothesis Hpos : Forall (fun p => calc_position pr (u_body p) = Ok (u_pos p)) F.
Hypothesis Hw : (Z.of_nat (length F) <= w)%Z.
Hypothesis Hlen : (N.of_nat (length F) <= 32768)%N.

Lemma fresh_steps : forall rest pre, F = pre ++ rest -> rest <> [] ->
  feed_all pr rate w (mk_cstate pre (Z.of_nat (length pre)) false 0) (map upkt_arrival rest)
  = Ok (mk_cstate [] 0 true (u_seq (last F dummy_upkt)), o).
Proof.
  induction rest as [|p rest' IH]; intros pre EF Hne; [congruence|].
  cbn [map feed_all]. unfold upkt_arrival at 1. unfold feed.
  unfold is_stale. cbn [c_flag andb].
  assert (Hin : In p F) by (rewrite EF; apply in_or_app; right; left; reflexivity).
  rewrite Forall_forall in Hpos. rewrite (Hpos p Hin). cbn [bind]. rewrite eta_upkt.
  cbn [c_items c_size c_done].
  assert (Hp : nth (length pre) F dummy_upkt = p) by (rewrite EF, app_nth2, Nat.sub_diag by lia; reflexivity).
  assert (HlenF : length F = length pre + S (length rest')) by (rewrite EF, app_length; reflexivity).
  rewrite insert_at_end.
  2:{ apply Forall_forall. intros e He. apply In_nth with (d := dummy_upkt) in He. destruct He as (i & Hi & <-).
      assert (Ee : nth i pre dummy_upkt = nth i F dummy_upkt) by (rewrite EF, app_nth1 by assumption; reflexivity).
      rewrite Ee, <- Hp, !Hseq by lia. rewrite compare_seq_window by lia. unfold zsgn.
      destruct (N.of_nat (length pre) =? N.of_nat i)%N eqn:E1; [lia|].
      destruct (N.of_nat i <? N.of_nat (length pre))%N eqn:E2; [reflexivity|lia]. }
  destruct Hgood as (HFne & G1 & G2).
  cbn [seq_loop]. unfold is_first_sequential at 1. cbn [c_items c_flag].
  destruct (pre ++ [p]) as [|x l] eqn:Epp; [destruct pre; discriminate|]. rewrite <- Epp.
  unfold try_one at 1. cbn [c_items c_size].
  destruct rest' as [|q rest''].
  - (* the frame is complete *)
    assert (EF' : F = pre ++ [p]) by exact EF.
    rewrite <- EF'. rewrite <- (app_nil_r F) at 1. rewrite G1. cbn [bind].
    rewrite EF' at 1. rewrite app_length. cbn [length seq_loop].
    replace (length pre + 1) with (S (length pre)) by lia. cbn [seq_loop].
    unfold is_first_sequential. cbn [c_items bind].
    cbn [map feed_all bind]. rewrite !app_nil_r. do 3 f_equal. rewrite EF', app_length. cbn [length]. lia.
  - (* a proper prefix: wait *)
    assert (Efirst : pre ++ [p] = firstn (S (length pre)) F).
    { rewrite EF. rewrite firstn_app. rewrite firstn_all2 by lia.
      replace (S (length pre) - length pre) with 1 by lia. reflexivity. }
    rewrite Efirst. rewrite <- (app_nil_r (firstn (S (length pre)) F)) at 1.
    rewrite G2; [|cbn [length] in HlenF; lia|left; reflexivity]. cbn [bind].
    rewrite <- Efirst. cbn [c_size].
    destruct (w <=? (Z.of_nat (length pre) + 1))%Z eqn:Ew; [cbn [length] in HlenF; lia|].
    cbn [bind].
    specialize (IH (pre ++ [p])). rewrite app_length in IH. cbn [length] in IH.
    replace (Z.of_nat (length pre + 1)) with (Z.of_nat (length pre) + 1)%Z in IH by lia.
    rewrite IH; [reflexivity| |discriminate]. rewrite <- app_assoc. exact EF.
Qed.

Lemma fresh_frame :
  feed_all pr rate w c_init (map upkt_arrival F) = Ok (mk_cstate [] 0 true (u_seq (last F dummy_upkt)), o).
Proof.
  apply (fresh_steps F []); [reflexivity|]. destruct Hgood as (H & _). exact H.
Qed.
End Fresh.

(* fresh container: the first frame of the stream in order, then any
   admissible schedule over the rest *)
Theorem stream_fresh pr rate w s0 F o s sched :
  frame_good pr rate F o ->
  (forall i, i < length F -> u_seq (nth i F dummy_upkt) = seq_add s0 (N.of_nat i)) ->
  Forall (fun p => calc_position pr (u_body p) = Ok (u_pos p)) F ->
  (Z.of_nat (length F) <= w)%Z -> (N.of_nat (length F) <= 32768)%N ->
  let d := u_seq (last F dummy_upkt) in
  (d < 65536)%N -> stream_wf pr rate d s -> sched_ok w (init_astate s) sched ->
  feed_all pr rate w c_init (map upkt_arrival F ++ map (fun i => upkt_arrival (pkt_at s i)) sched)
  = Ok (img d (pkt_at s) (fst (arun (init_astate s) sched)), o ++ snd (arun (init_astate s) sched)).
Proof.
  intros Hg Hseq Hpos Hw Hl d Hd Hwf Hok.
  rewrite feed_all_app. rewrite (fresh_frame pr rate w s0 F o Hg Hseq Hpos Hw Hl).
  fold d. change (mk_cstate [] 0 true d) with (primed d).
  rewrite (stream_reorder pr rate w d s sched Hd Hwf Hok). reflexivity.
Qed.

(* unpack_inorder (pack nal) = [avcc nal] on a container as created *)
Theorem video_inorder_fresh c nal maxp rate w s ts pls :
  (fu_hdr_size c < maxp)%N -> nal_ok c nal -> rate_ok rate -> (s < 65536)%N ->
  pack_nal true c nal maxp = Ok pls ->
  (Z.of_nat (length pls) <= w)%Z -> (N.of_nat (length pls) <= 32768)%N ->
  feed_all (proto_of_codec c) rate w c_init (map upkt_arrival (mk_upkts (proto_of_codec c) s ts pls))
  = Ok (mk_cstate [] 0 true (seq_add s (lenN pls - 1)), [(rtp_ms rate ts, avcc nal)%N]).
Proof.
  intros Hh Hn Hr Hs Hp Hw Hl.
  destruct (calc_ok_packed c nal maxp pls Hh Hn Hp) as [Hne Hc].
  destruct Hn as (Hnn & Hb0 & Hty).
  rewrite (fresh_frame (proto_of_codec c) rate w s (mk_upkts (proto_of_codec c) s ts pls) [(rtp_ms rate ts, avcc nal)%N]).
  - rewrite mk_upkts_last_seq by assumption. reflexivity.
  - apply (video_frame_good c nal maxp rate s ts pls); assumption.
  - intros i Hi. rewrite mk_upkts_length in Hi. apply mk_upkts_nth_seq; assumption.
  - apply mk_upkts_calc_ok. assumption.
  - rewrite mk_upkts_length. assumption.
  - rewrite mk_upkts_length. assumption.
Qed.
