(* C12 and C13 model some functions of pkg/rtprtcp twice (C12: Rtp/RtpUnpacker.v,
   written for the round-trip proofs; C13: Net/NetUnpack.v, Net/NetAuHeader.v,
   written for panic-freedom with a fixed/pinned switch).  On well-formed bytes
   (every element < 256) the two models of the position functions and of
   parseAu agree for the current tree (fx = true). *)
From Coq Require Import List NArith ZArith Lia ZifyN ZifyNat ZifyBool.
From Lal Require Import Common.LBytes Common.Res Common.LBytesProofs Common.ByteCases
  Rtp.RtpPacker Rtp.RtpUnpacker Net.NetChk Net.NetUnpack Net.NetAuHeader.
Import ListNotations.
Ltac Zify.zify_post_hook ::= Z.div_mod_to_equations.
Open Scope N_scope.

Ltac by_bytes P := apply N.eqb_eq; apply (byte_cases P); [vm_compute; reflexivity|assumption].

Lemma avc_type_is_mod b0 : b0 < 256 -> avc_nal_type b0 = b0 mod 32.
Proof. intros H. by_bytes (fun b0 => avc_nal_type b0 =? b0 mod 32). Qed.

Lemma hevc_type_is_mod b0 : b0 < 256 -> hevc_nal_type b0 = (b0 mod 128) / 2.
Proof. intros H. by_bytes (fun b0 => hevc_nal_type b0 =? (b0 mod 128) / 2). Qed.

Lemma fu_pos_agrees b1 : b1 < 256 ->
  fu_pos_of b1 = if 128 <=? b1 then pos_fua_start else if 64 <=? b1 mod 128 then pos_fua_end else pos_fua_middle.
Proof.
  intros H. by_bytes (fun b1 => fu_pos_of b1 =? if 128 <=? b1 then pos_fua_start else if 64 <=? b1 mod 128 then pos_fua_end else pos_fua_middle).
Qed.

Lemma idx0 site x t : idx site (x :: t) 0 = Ok x.
Proof. unfold idx. replace (0 <? lenN (x :: t)) with true by (unfold lenN; cbn [length]; lia). reflexivity. Qed.
Lemma idx1 site x y t : idx site (x :: y :: t) 1 = Ok y.
Proof. unfold idx. replace (1 <? lenN (x :: y :: t)) with true by (unfold lenN; cbn [length]; lia). reflexivity. Qed.
Lemma idx2 site x y z t : idx site (x :: y :: z :: t) 2 = Ok z.
Proof. unfold idx. replace (2 <? lenN (x :: y :: z :: t)) with true by (unfold lenN; cbn [length]; lia). reflexivity. Qed.

Lemma len_lt_false {A} (l : list A) k : N.of_nat (length l) >= k -> (lenN l <? k) = false.
Proof. unfold lenN. lia. Qed.

Theorem calc_position_avc_agrees b : bytes_ok b ->
  calc_position_avc b = calc_pos_avc true b.
Proof.
  intros Hb. unfold calc_pos_avc. cbn [andb].
  destruct b as [|b0 t]; [reflexivity|].
  apply Forall_cons_iff in Hb. destruct Hb as [H0 Ht].
  rewrite len_lt_false by (cbn [length]; lia). rewrite idx0. cbn [bind calc_position_avc].
  rewrite avc_type_is_mod by assumption.
  destruct (b0 mod 32 <=? 23); [reflexivity|].
  destruct (b0 mod 32 =? 28); [|reflexivity].
  destruct t as [|b1 t']; [reflexivity|].
  apply Forall_cons_iff in Ht. destruct Ht as [H1 _].
  rewrite len_lt_false by (cbn [length]; lia). rewrite idx1. cbn [bind].
  rewrite fu_pos_agrees by assumption.
  destruct (128 <=? b1); [reflexivity|]. destruct (64 <=? b1 mod 128); reflexivity.
Qed.

Theorem calc_position_hevc_agrees b : bytes_ok b ->
  calc_position_hevc b = calc_pos_hevc true b.
Proof.
  intros Hb. unfold calc_pos_hevc. cbn [andb].
  destruct b as [|b0 t]; [reflexivity|].
  apply Forall_cons_iff in Hb. destruct Hb as [H0 Ht].
  rewrite len_lt_false by (cbn [length]; lia). rewrite idx0. cbn [bind calc_position_hevc].
  rewrite hevc_type_is_mod by assumption.
  change (hevc_single_type true ((b0 mod 128) / 2)) with (hevc_type_known ((b0 mod 128) / 2)).
  destruct (hevc_type_known ((b0 mod 128) / 2)); [reflexivity|].
  destruct ((b0 mod 128) / 2 =? 49).
  - destruct t as [|b1 [|b2 t']]; try reflexivity.
    apply Forall_cons_iff in Ht. destruct Ht as [_ Ht]. apply Forall_cons_iff in Ht. destruct Ht as [H2 _].
    rewrite len_lt_false by (cbn [length]; lia). rewrite idx2. cbn [bind].
    rewrite fu_pos_agrees by assumption.
    destruct (128 <=? b2); [reflexivity|]. destruct (64 <=? b2 mod 128); reflexivity.
  - destruct ((b0 mod 128) / 2 =? 48); [|reflexivity].
    destruct t as [|b1 t']; [reflexivity|]. rewrite len_lt_false by (cbn [length]; lia). reflexivity.
Qed.

(* ---- parseAu ---- *)
Lemma land_248_sub y : y < 256 -> N.land y 248 = y - y mod 8.
Proof. intros H. by_bytes (fun y => N.land y 248 =? y - y mod 8). Qed.

Lemma idx_nth site b i :
  idx site b i = match nth_error b (N.to_nat i) with Some x => Ok x | None => Panic site end.
Proof.
  unfold idx. destruct (i <? lenN b) eqn:E; [reflexivity|].
  assert (H : nth_error b (N.to_nat i) = None) by (apply nth_error_None; unfold lenN in E; lia).
  rewrite H. reflexivity.
Qed.

Definition au_of (x : N * N) : au := mk_au (fst x) (snd x).
Definition lift_aus (r : res (list (N * N))) : res (list au) :=
  match r with Ok l => Ok (map au_of l) | Err e => Err e | Panic _ => Panic s_parseau_index end.

Lemma parse_au_loop_agrees b : bytes_ok b -> forall n pauh pau acc,
  NetAuHeader.parse_au_loop n b pauh pau acc =
  match RtpUnpacker.parse_au_loop n b pauh pau with
  | Ok r => Ok (rev acc ++ map au_of r, fold_left (fun a x => a + fst x) r pau)
  | Err e => Err e
  | Panic _ => Panic s_parseau_index
  end.
Proof.
  intros Hb. induction n as [|n IH]; intros pauh pau acc.
  - cbn. rewrite app_nil_r. reflexivity.
  - cbn [NetAuHeader.parse_au_loop RtpUnpacker.parse_au_loop]. rewrite !idx_nth.
    destruct (nth_error b (N.to_nat pauh)) as [x|] eqn:E1; [|reflexivity]. cbn [bind].
    destruct (nth_error b (N.to_nat (pauh + 1))) as [y|] eqn:E2; [|reflexivity]. cbn [bind].
    assert (Hy : y < 256).
    { apply nth_error_In in E2. unfold bytes_ok in Hb. rewrite Forall_forall in Hb. auto. }
    rewrite land_248_sub by assumption. rewrite IH.
    destruct (RtpUnpacker.parse_au_loop n b (pauh + 2) (pau + (x * 256 + (y - y mod 8)) / 8)) as [r| |]; cbn [bind]; try reflexivity.
    cbn [rev map fold_left fst snd au_of]. rewrite <- app_assoc. reflexivity.
Qed.

Theorem parse_au_agrees b : bytes_ok b ->
  NetAuHeader.parse_au true b = lift_aus (RtpUnpacker.parse_au b).
Proof.
  intros Hb. unfold NetAuHeader.parse_au, RtpUnpacker.parse_au. cbn [andb].
  destruct b as [|b0 [|b1 t]]; [reflexivity|reflexivity|].
  rewrite len_lt_false by (cbn [length]; lia). rewrite idx0, idx1. cbn [bind].
  destruct (lenN (b0 :: b1 :: t) <? 2 + (b0 * 256 + b1 + 7) / 8); [reflexivity|].
  rewrite (parse_au_loop_agrees _ Hb).
  destruct (RtpUnpacker.parse_au_loop (N.to_nat ((b0 * 256 + b1 + 7) / 8 / 2)) (b0 :: b1 :: t) 2 (2 + (b0 * 256 + b1 + 7) / 8)) as [r| |]; cbn [bind lift_aus]; try reflexivity.
  cbn [rev app].
  destruct ((1 <? (b0 * 256 + b1 + 7) / 8 / 2) && (lenN (b0 :: b1 :: t) <? fold_left (fun a x => a + fst x) r (2 + (b0 * 256 + b1 + 7) / 8))); reflexivity.
Qed.
