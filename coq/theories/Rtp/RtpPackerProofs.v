(* Proofs about the packetising side: shape of the FU loop, payload limit,
   marker / sequence / timestamp of RtpPacker.Pack. *)
From Coq Require Import NArith ZArith Lia ZifyN ZifyNat ZifyBool.
From Lal Require Import Common.LBytes Common.Res Common.LBytesProofs Common.ByteCases
  Rtp.RtpSeqArith Rtp.RtpPacker Rtp.RtpSeqProofs.
Ltac Zify.zify_post_hook ::= Z.div_mod_to_equations.
Open Scope N_scope.

Lemma ok_inj {A} (a b : A) : @Ok A a = Ok b -> a = b.
Proof. intros H. injection H. auto. Qed.

(* ---- the pieces the FU loop cuts the NAL body into ---- *)
Fixpoint fu_pieces (fuel chunk : nat) (body : bytes) : list bytes :=
  match fuel with
  | O => []
  | S f => match skipn chunk body with
           | [] => [body]
           | rest => firstn chunk body :: fu_pieces f chunk rest
           end
  end.

(* start bit on the first piece unless it is also the last, end bit on the last *)
Fixpoint mark_pieces (mk : bool -> bool -> bytes -> bytes) (first : bool) (ps : list bytes) : list bytes :=
  match ps with
  | [] => []
  | [p] => [mk false true p]
  | p :: t => mk first false p :: mark_pieces mk false t
  end.

Lemma skipn_nonempty_length {A} n (l : list A) x r : skipn n l = x :: r -> (n < length l)%nat.
Proof.
  intros H. destruct (Nat.lt_ge_cases n (length l)) as [|Hge]; [assumption|].
  rewrite skipn_all2 in H by lia. discriminate.
Qed.

Lemma fu_pieces_nonempty fuel chunk body : (0 < fuel)%nat -> fu_pieces fuel chunk body <> [].
Proof. destruct fuel; [lia|]. intros _. cbn. destruct (skipn chunk body); discriminate. Qed.

Lemma fu_loop_pieces mk chunk : (0 < chunk)%nat -> forall fuel first body,
  (length body <= fuel)%nat -> (0 < fuel)%nat ->
  fu_loop fuel mk chunk first body = mark_pieces mk first (fu_pieces fuel chunk body).
Proof.
  intros Hc. induction fuel as [|f IH]; intros first body Hl Hf; [lia|].
  cbn [fu_loop fu_pieces]. destruct (skipn chunk body) as [|x r] eqn:E; [reflexivity|].
  assert (Hlen : (chunk < length body)%nat) by (eapply skipn_nonempty_length; eauto).
  assert (Hr : length (x :: r) = (length body - chunk)%nat) by (rewrite <- E; apply skipn_length).
  assert (Hf' : (0 < f)%nat) by lia.
  rewrite IH; [|rewrite Hr; lia|lia].
  cbn [mark_pieces]. destruct (fu_pieces f chunk (x :: r)) eqn:E2.
  - exfalso. eapply fu_pieces_nonempty; eauto.
  - reflexivity.
Qed.

Lemma fu_pieces_concat chunk : (0 < chunk)%nat -> forall fuel body,
  (length body <= fuel)%nat -> (0 < fuel)%nat -> concat (fu_pieces fuel chunk body) = body.
Proof.
  intros Hc. induction fuel as [|f IH]; intros body Hl Hf; [lia|].
  cbn [fu_pieces]. destruct (skipn chunk body) as [|x r] eqn:E.
  - cbn. apply app_nil_r.
  - assert (Hlen : (chunk < length body)%nat) by (eapply skipn_nonempty_length; eauto).
    assert (Hr : length (x :: r) = (length body - chunk)%nat) by (rewrite <- E; apply skipn_length).
    cbn [concat]. rewrite IH; [|rewrite Hr; lia|lia]. rewrite <- E. apply firstn_skipn.
Qed.

Lemma fu_pieces_sizes chunk : (0 < chunk)%nat -> forall fuel body,
  (length body <= fuel)%nat -> (0 < fuel)%nat -> body <> [] ->
  Forall (fun p => (0 < length p <= chunk)%nat) (fu_pieces fuel chunk body).
Proof.
  intros Hc. induction fuel as [|f IH]; intros body Hl Hf Hne; [lia|].
  cbn [fu_pieces]. destruct (skipn chunk body) as [|x r] eqn:E.
  - constructor; [|constructor]. split.
    + destruct body; [congruence|cbn; lia].
    + destruct (Nat.le_gt_cases (length body) chunk) as [|Hgt]; [assumption|].
      assert (length (skipn chunk body) = (length body - chunk)%nat) by apply skipn_length.
      rewrite E in H. cbn in H. lia.
  - assert (Hlen : (chunk < length body)%nat) by (eapply skipn_nonempty_length; eauto).
    assert (Hr : length (x :: r) = (length body - chunk)%nat) by (rewrite <- E; apply skipn_length).
    constructor.
    + rewrite firstn_length. lia.
    + apply IH; [rewrite Hr; lia|lia|discriminate].
Qed.

(* more than one chunk of data => at least two pieces *)
Lemma fu_pieces_two chunk fuel body : (chunk < length body)%nat -> (0 < chunk)%nat ->
  (length body <= fuel)%nat ->
  exists p q t, fu_pieces fuel chunk body = p :: q :: t.
Proof.
  intros Hlen Hc Hl. destruct fuel as [|f]; [lia|]. cbn [fu_pieces].
  destruct (skipn chunk body) as [|x r] eqn:E.
  - assert (length (skipn chunk body) = (length body - chunk)%nat) by apply skipn_length.
    rewrite E in H. cbn in H. lia.
  - assert (Hr : length (x :: r) = (length body - chunk)%nat) by (rewrite <- E; apply skipn_length).
    destruct (fu_pieces f chunk (x :: r)) as [|q t] eqn:E2.
    + exfalso. eapply (fu_pieces_nonempty f chunk (x :: r)); [cbn in Hr; lia|eauto].
    + eauto.
Qed.

Lemma mark_pieces_length mk first ps : length (mark_pieces mk first ps) = length ps.
Proof.
  revert first. induction ps as [|p t IH]; intros first; [reflexivity|].
  destruct t as [|q t']; [reflexivity|]. cbn [mark_pieces length]. f_equal. apply (IH false).
Qed.

Lemma mark_pieces_cons2 mk f p q t :
  mark_pieces mk f (p :: q :: t) = mk f false p :: mark_pieces mk false (q :: t).
Proof. reflexivity. Qed.

Lemma mark_pieces_forall (Q R : bytes -> Prop) mk :
  (forall f l p, Q p -> R (mk f l p)) ->
  forall ps first, Forall Q ps -> Forall R (mark_pieces mk first ps).
Proof.
  intros H. induction ps as [|p t IH]; intros first HF; [constructor|].
  inversion HF; subst. destruct t as [|q t'].
  - constructor; [auto|constructor].
  - cbn [mark_pieces]. constructor; [auto|]. apply IH. assumption.
Qed.

(* ---- PackNal ---- *)
Definition fu_chunk (c : vcodec) (maxp : N) : nat := N.to_nat (maxp - fu_hdr_size c).

Lemma pack_nal_single fixed c nal maxp :
  lenN nal <= maxp -> pack_nal fixed c nal maxp = Ok [nal].
Proof. intros H. unfold pack_nal. destruct (lenN nal <=? maxp) eqn:E; [reflexivity|lia]. Qed.

Lemma pack_nal_fu fixed c nal maxp :
  maxp < lenN nal -> fu_hdr_size c < maxp ->
  pack_nal fixed c nal maxp =
    Ok (mark_pieces (fu_packet fixed c (nth 0 nal 0) (nth 1 nal 0)) true
          (fu_pieces (length nal) (fu_chunk c maxp) (skipn (fu_skip c) nal))).
Proof.
  intros H1 H2. unfold pack_nal.
  destruct (lenN nal <=? maxp) eqn:E1; [lia|].
  destruct (maxp <? fu_hdr_size c) eqn:E2; [lia|].
  destruct (maxp =? fu_hdr_size c) eqn:E3; [lia|].
  f_equal. apply fu_loop_pieces.
  - unfold fu_chunk. lia.
  - rewrite skipn_length. lia.
  - unfold lenN in H1. lia.
Qed.

Lemma fu_packet_length fixed c b0 b1 f l p :
  length (fu_packet fixed c b0 b1 f l p) = (N.to_nat (fu_hdr_size c) + length p)%nat.
Proof. destruct c; reflexivity. Qed.

Lemma fu_skip_lt_hdr c : (N.of_nat (fu_skip c) < fu_hdr_size c).
Proof. destruct c; cbn; lia. Qed.

(* every payload respects the limit *)
Lemma pack_nal_limit fixed c nal maxp pls :
  fu_hdr_size c < maxp -> pack_nal fixed c nal maxp = Ok pls ->
  Forall (fun p => lenN p <= maxp) pls.
Proof.
  intros Hh Hp. destruct (N.le_gt_cases (lenN nal) maxp) as [Hle|Hgt].
  - rewrite pack_nal_single in Hp by assumption. injection Hp as <-. constructor; [assumption|constructor].
  - rewrite pack_nal_fu in Hp by assumption. injection Hp as <-.
    apply mark_pieces_forall with (Q := fun p => (0 < length p <= fu_chunk c maxp)%nat).
    + intros f l p [_ Hl]. unfold lenN. rewrite fu_packet_length. unfold fu_chunk in Hl. lia.
    + pose proof (fu_skip_lt_hdr c). unfold lenN in Hgt.
      apply fu_pieces_sizes.
      * unfold fu_chunk. lia.
      * rewrite skipn_length. lia.
      * lia.
      * intros E. apply (f_equal (@length N)) in E. rewrite skipn_length in E. cbn in E. lia.
Qed.

(* an oversized NAL always needs at least two FU packets: the start and the
   end bit never share a packet *)
Lemma pack_nal_fu_two c nal maxp :
  maxp < lenN nal -> fu_hdr_size c < maxp ->
  exists p q t, fu_pieces (length nal) (fu_chunk c maxp) (skipn (fu_skip c) nal) = p :: q :: t.
Proof.
  intros H1 H2. pose proof (fu_skip_lt_hdr c). unfold lenN in H1.
  apply fu_pieces_two.
  - rewrite skipn_length. unfold fu_chunk. lia.
  - unfold fu_chunk. lia.
  - rewrite skipn_length. lia.
Qed.

Lemma pack_nals_limit fixed c maxp : fu_hdr_size c < maxp -> forall nals pls,
  pack_nals fixed c nals maxp = Ok pls -> Forall (fun p => lenN p <= maxp) pls.
Proof.
  intros Hh. induction nals as [|nal t IH]; intros pls Hp; cbn [pack_nals] in Hp.
  - injection Hp as <-. constructor.
  - destruct (is_aud c nal); [auto|].
    destruct (pack_nal fixed c nal maxp) as [a| |] eqn:E1; cbn [bind] in Hp; try discriminate.
    destruct (pack_nals fixed c t maxp) as [b| |] eqn:E2; cbn [bind] in Hp; try discriminate.
    injection Hp as <-. apply Forall_app. split; [eapply pack_nal_limit; eauto|auto].
Qed.

(* ---- RtpPacker.Pack ---- *)
(* consecutive sequence numbers modulo 2^16 starting at s *)
Fixpoint seq_chain (s : N) (l : list rtp_packet) : Prop :=
  match l with
  | [] => True
  | p :: t => rp_seq p = s /\ seq_chain (seq_succ s) t
  end.

(* marker on the last packet only *)
Fixpoint marks_ok (l : list rtp_packet) : Prop :=
  match l with
  | [] => True
  | [p] => rp_mark p = 1
  | p :: t => rp_mark p = 0 /\ marks_ok t
  end.

Lemma seq_add_succ s k : seq_add (seq_succ s) k = seq_add s (k + 1).
Proof. unfold seq_add, seq_succ, seq_mod. lia. Qed.

Lemma rtp_pack_payloads_spec pt ts ssrc : forall pls s out s',
  rtp_pack_payloads pt ts ssrc s pls = (out, s') ->
  map rp_payload out = pls /\ seq_chain s out /\ marks_ok out /\
  s' = (if lenN pls =? 0 then s else seq_add s (lenN pls)) /\
  Forall (fun p => rp_ts p = ts /\ rp_pt p = pt /\ rp_ssrc p = ssrc) out.
Proof.
  induction pls as [|p t IH]; intros s out s' H; cbn [rtp_pack_payloads] in H.
  - injection H as <- <-. cbn. auto.
  - destruct (rtp_pack_payloads pt ts ssrc (seq_succ s) t) as [r s1] eqn:E.
    injection H as <- <-. destruct (IH _ _ _ E) as (H1 & H2 & H3 & H4 & H5).
    repeat split.
    + cbn. f_equal. assumption.
    + assumption.
    + destruct t as [|q t'].
      * cbn in E. injection E as <- _. reflexivity.
      * cbn [marks_ok rp_mark]. destruct r as [|r0 r']; [cbn in H1; discriminate|]. split; [reflexivity|assumption].
    + subst s1. unfold lenN. cbn [length].
      destruct (N.of_nat (length t) =? 0) eqn:E0.
      * replace (N.of_nat (S (length t))) with 1 by lia. cbn. reflexivity.
      * replace (N.of_nat (S (length t)) =? 0) with false by lia.
        rewrite seq_add_succ. f_equal. lia.
    + constructor; [cbn; auto|assumption].
Qed.

Lemma seq_chain_app s a b : seq_chain s a -> seq_chain (seq_add s (lenN a)) b -> s < 65536 ->
  seq_chain s (a ++ b).
Proof.
  revert s. induction a as [|p t IH]; intros s Ha Hb Hs.
  - cbn in Hb. rewrite seq_add_0 in Hb by assumption. assumption.
  - cbn in Ha. destruct Ha as [H1 H2]. cbn. split; [assumption|]. apply IH; [assumption| |].
    + rewrite seq_add_succ. unfold lenN in *. cbn [length] in Hb. replace (N.of_nat (length t) + 1) with (N.of_nat (S (length t))) by lia. assumption.
    + unfold seq_succ, seq_mod. lia.
Qed.

(* the whole stream: one chain of sequence numbers across frames, marker on
   the last packet of each frame, timestamp = floor(ms*rate/1000) mod 2^32 *)
Lemma rtp_pack_stream_spec pt rate ssrc : forall frames s out s',
  s < 65536 ->
  rtp_pack_stream pt rate ssrc s frames = (out, s') ->
  s' < 65536 /\
  map (map rp_payload) out = map snd frames /\
  seq_chain s (concat out) /\
  s' = seq_add s (lenN (concat out)) /\
  Forall marks_ok out /\
  Forall2 (fun fr pk => Forall (fun p => rp_ts p = u32 (fst fr * rate / 1000) /\ rp_pt p = pt /\ rp_ssrc p = ssrc) pk) frames out.
Proof.
  induction frames as [|[ms pls] t IH]; intros s out s' Hs H; cbn [rtp_pack_stream] in H.
  - injection H as <- <-. cbn. rewrite seq_add_0 by assumption. repeat split; auto.
  - unfold rtp_pack in H. destruct (rtp_pack_payloads pt (rtp_timestamp ms rate) ssrc s pls) as [a s1] eqn:E1.
    destruct (rtp_pack_stream pt rate ssrc s1 t) as [b s2] eqn:E2. injection H as <- <-.
    destruct (rtp_pack_payloads_spec _ _ _ _ _ _ _ E1) as (A1 & A2 & A3 & A4 & A5).
    assert (Hla : lenN a = lenN pls) by (unfold lenN; rewrite <- A1, map_length; reflexivity).
    assert (Hs1 : s1 < 65536).
    { subst s1. destruct (lenN pls =? 0); [assumption|apply seq_add_lt]. }
    assert (Hs1' : s1 = seq_add s (lenN a)).
    { subst s1. rewrite Hla. destruct (lenN pls =? 0) eqn:E0; [|reflexivity].
      replace (lenN pls) with 0 by lia. symmetry. apply seq_add_0. assumption. }
    destruct (IH _ _ _ Hs1 E2) as (B0 & B1 & B2 & B3 & B4 & B5).
    repeat split.
    + assumption.
    + cbn. f_equal; assumption.
    + cbn [concat]. apply seq_chain_app; [assumption| |assumption]. rewrite <- Hs1'. assumption.
    + cbn [concat]. rewrite lenN_app. rewrite B3, Hs1'. apply seq_add_add.
    + constructor; assumption.
    + constructor; [cbn [fst]; exact A5|assumption].
Qed.
