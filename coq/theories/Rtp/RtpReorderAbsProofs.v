(* Facts about the reference reorder buffer (pure list / arithmetic). *)
From Coq Require Import List Arith NArith ZArith Lia Sorted ZifyN ZifyNat ZifyBool.
From Lal Require Import Rtp.RtpReorderAbs.
Import ListNotations.

Definition win : N := 16384%N.

(* ---- ins ---- *)
Lemma ins_in i l x : In x (ins i l) <-> x = i \/ In x l.
Proof.
  induction l as [|h t IH]; cbn [ins].
  - cbn. intuition.
  - destruct (i =? h) eqn:E1.
    + apply Nat.eqb_eq in E1. subst. cbn. intuition.
    + destruct (i <? h) eqn:E2; cbn [In]; [intuition|]. rewrite IH. intuition.
Qed.

Lemma ins_sorted i l : StronglySorted lt l -> StronglySorted lt (ins i l).
Proof.
  induction l as [|h t IH]; intros Hs; cbn [ins].
  - constructor; constructor.
  - inversion Hs as [|? ? Ht Hall]; subst.
    destruct (i =? h) eqn:E1; [assumption|].
    destruct (i <? h) eqn:E2.
    + constructor; [assumption|]. apply Nat.ltb_lt in E2. constructor; [assumption|].
      eapply Forall_impl; [|exact Hall]. cbn. intros; lia.
    + constructor; [auto|]. apply Forall_forall. intros x Hx. apply ins_in in Hx.
      apply Nat.eqb_neq in E1. apply Nat.ltb_ge in E2.
      destruct Hx as [->|Hx]; [lia|]. rewrite Forall_forall in Hall. auto.
Qed.

Lemma ins_length i l : length l <= length (ins i l) <= S (length l).
Proof.
  induction l as [|h t IH]; cbn [ins length]; [lia|].
  destruct (i =? h); [cbn [length]; lia|]. destruct (i <? h); cbn [length]; lia.
Qed.

Lemma ins_seq_end f j : ins (f + j) (seq f j) = seq f (S j).
Proof.
  revert f. induction j as [|j IH]; intros f.
  - cbn. rewrite Nat.add_0_r. reflexivity.
  - cbn [seq ins]. replace (f + S j =? f) with false by (symmetry; apply Nat.eqb_neq; lia).
    replace (f + S j <? f) with false by (symmetry; apply Nat.ltb_ge; lia).
    f_equal. replace (f + S j) with (S f + j) by lia. rewrite IH. reflexivity.
Qed.

(* ---- take_run ---- *)
Lemma take_run_some k : forall f l r, take_run f k l = Some r -> l = seq f k ++ r.
Proof.
  induction k as [|k IH]; intros f l r H; cbn [take_run] in H.
  - injection H as <-. reflexivity.
  - destruct l as [|h t]; [discriminate|]. destruct (h =? f) eqn:E; [|discriminate].
    apply Nat.eqb_eq in E. subst h. cbn [seq app]. f_equal. apply IH. assumption.
Qed.

Lemma take_run_seq k : forall f r, take_run f k (seq f k ++ r) = Some r.
Proof.
  induction k as [|k IH]; intros f r; cbn [take_run seq app]; [reflexivity|].
  rewrite Nat.eqb_refl. apply IH.
Qed.

Lemma take_run_short k : forall f j, j < k -> take_run f k (seq f j) = None.
Proof.
  induction k as [|k IH]; intros f j Hj; [lia|]. cbn [take_run].
  destruct j as [|j]; cbn [seq]; [reflexivity|]. rewrite Nat.eqb_refl. apply IH. lia.
Qed.

Lemma take_run_none_split k : forall f l,
  StronglySorted lt l -> hd_error l = Some f -> take_run f k l = None ->
  exists m L', 1 <= m < k /\ l = seq f m ++ L' /\
               (L' = [] \/ exists h t, L' = h :: t /\ f + m < h).
Proof.
  induction k as [|k IH]; intros f l Hs Hh Hn; cbn [take_run] in Hn; [discriminate|].
  destruct l as [|h t]; [discriminate|]. cbn in Hh. injection Hh as ->.
  rewrite Nat.eqb_refl in Hn. inversion Hs as [|? ? Ht Hall]; subst.
  destruct k as [|k']; [cbn in Hn; discriminate|].
  destruct t as [|h2 t2].
  - exists 1, []. repeat split; [lia|lia|left; reflexivity].
  - inversion Hall as [|? ? Hlt _]; subst.
    destruct (Nat.eq_dec h2 (S f)) as [->|Hne].
    + destruct (IH (S f) (S f :: t2) Ht eq_refl Hn) as (m & L' & Hm & El & HL).
      exists (S m), L'. repeat split; [lia|lia| |].
      * cbn [seq app]. f_equal. exact El.
      * destruct HL as [->|(x & y & -> & Hx)]; [left; reflexivity|right]. exists x, y. split; [reflexivity|lia].
    + exists 1, (h2 :: t2). repeat split; [lia|lia|]. right. exists h2, t2. split; [reflexivity|lia].
Qed.

Section Abs.
Variable out : Type.
Variable n : nat.   (* number of packets of the stream *)
Notation astate := (astate out).

Definition pend_ok (front : nat) (pend : list nat) : Prop :=
  StronglySorted lt pend /\
  Forall (fun e => front <= e < n /\ (N.of_nat e < N.of_nat front + win)%N) pend.

Definition drained (st : astate) : Prop :=
  match a_fs st with
  | [] => True
  | (k, _) :: _ => take_run (a_front st) k (a_pend st) = None
  end.

Definition ainv (st : astate) : Prop :=
  pend_ok (a_front st) (a_pend st) /\
  a_front st + total (a_fs st) = n /\
  Forall (fun f : aframe out => 0 < fst f) (a_fs st) /\
  drained st.

Lemma pend_ok_after_run front k rest :
  0 < k -> pend_ok front (seq front k ++ rest) -> pend_ok (front + k) rest.
Proof.
  intros Hk [Hs Hall]. split.
  - clear Hall. induction (seq front k) as [|a l IH]; [exact Hs|].
    cbn [app] in Hs. inversion Hs; subst. auto.
  - assert (Hlast : In (front + k - 1) (seq front k)) by (apply in_seq; lia).
    apply Forall_app in Hall. destruct Hall as [_ Hr].
    apply Forall_forall. intros e He. rewrite Forall_forall in Hr. specialize (Hr e He).
    assert (front + k - 1 < e).
    { clear Hr. revert Hs Hlast He. generalize (front + k - 1). generalize (seq front k).
      induction l as [|a l IH]; intros x Hs Hin He; [destruct Hin|].
      cbn [app] in Hs. inversion Hs as [|? ? Hs' Hall']; subst. destruct Hin as [->|Hin].
      - rewrite Forall_forall in Hall'. apply Hall'. apply in_or_app. right. exact He.
      - eapply IH; eauto. }
    unfold win in *. lia.
Qed.

Lemma drain_spec : forall fs front pend,
  pend_ok front pend -> front + total fs = n -> Forall (fun f : aframe out => 0 < fst f) fs ->
  let '(st, os, any) := drain front fs pend in
  ainv st /\ front <= a_front st /\
  (forall x, In x pend -> a_front st <= x -> In x (a_pend st)) /\
  length (a_pend st) <= length pend /\
  os ++ concat (map snd (a_fs st)) = concat (map snd fs) /\
  (any = false -> st = mk_astate front fs pend).
Proof.
  induction fs as [|[k o] t IH]; intros front pend Hp Ht Hk; cbn [drain].
  - split.
    + unfold ainv, drained. cbn [a_front a_fs a_pend]. destruct Hp. repeat split; auto.
    + cbn [a_front a_fs a_pend]. repeat split; auto.
  - destruct (take_run front k pend) as [rest|] eqn:E.
    + apply take_run_some in E. subst pend. inversion Hk as [|? ? Hk0 Hk']; subst. cbn [fst] in Hk0.
      cbn [total] in Ht.
      specialize (IH (front + k) rest (pend_ok_after_run _ _ _ Hk0 Hp) ltac:(lia) Hk').
      destruct (drain (front + k) t rest) as [[st os] any].
      destruct IH as (I1 & I2 & I3 & I4 & I5 & I6).
      split; [exact I1|]. split; [lia|]. split; [|split; [|split]].
      * intros x Hx Hge. apply in_app_or in Hx. destruct Hx as [Hx|Hx]; [|auto].
        apply in_seq in Hx. lia.
      * rewrite app_length. lia.
      * cbn [map snd concat]. rewrite <- app_assoc. f_equal. exact I5.
      * discriminate.
    + split.
      * unfold ainv, drained. cbn [a_front a_fs a_pend]. destruct Hp. repeat split; auto.
      * cbn [a_front a_fs a_pend]. repeat split; auto.
Qed.

Lemma ins_pend_ok front pend i :
  pend_ok front pend -> front <= i < n -> (N.of_nat i < N.of_nat front + win)%N ->
  pend_ok front (ins i pend).
Proof.
  intros [Hs Hall] Hi Hw. split; [apply ins_sorted; assumption|].
  apply Forall_forall. intros x Hx. apply ins_in in Hx. destruct Hx as [->|Hx]; [auto|].
  rewrite Forall_forall in Hall. auto.
Qed.

Lemma astep_spec st i :
  ainv st -> i < n -> (N.of_nat i < N.of_nat (a_front st) + win)%N ->
  let '(st', os) := astep st i in
  ainv st' /\ a_front st <= a_front st' /\
  (forall x, (x = i \/ In x (a_pend st)) -> a_front st' <= x -> In x (a_pend st')) /\
  os ++ concat (map snd (a_fs st')) = concat (map snd (a_fs st)).
Proof.
  intros (Hp & Ht & Hk & Hd) Hi Hw. unfold astep.
  destruct (i <? a_front st) eqn:E.
  - apply Nat.ltb_lt in E. split; [unfold ainv; auto|]. split; [lia|]. split; [|reflexivity].
    intros x [->|Hx] Hge; [lia|assumption].
  - apply Nat.ltb_ge in E.
    pose proof (drain_spec (a_fs st) (a_front st) (ins i (a_pend st))
                  (ins_pend_ok _ _ _ Hp (conj E Hi) Hw) Ht Hk) as H.
    destruct (drain (a_front st) (a_fs st) (ins i (a_pend st))) as [[st' os] any].
    destruct H as (I1 & I2 & I3 & I4 & I5 & I6). split; [exact I1|]. split; [exact I2|]. split; [|exact I5].
    intros x Hx Hge. apply I3; [|assumption]. apply ins_in. exact Hx.
Qed.

Lemma arun_spec w : forall sched st, ainv st -> sched_ok w st sched ->
  let '(st', os) := arun st sched in
  ainv st' /\ a_front st <= a_front st' /\
  os ++ concat (map snd (a_fs st')) = concat (map snd (a_fs st)) /\
  (forall x, (In x sched \/ In x (a_pend st)) -> a_front st' <= x -> In x (a_pend st')).
Proof.
  induction sched as [|i t IH]; intros st Hinv Hok; cbn [arun].
  - split; [assumption|]. split; [lia|]. split; [reflexivity|]. intros x [[]|Hx] _. assumption.
  - cbn [sched_ok] in Hok. destruct Hok as (Hi & Hw1 & Hw2 & Hlen & Hok).
    assert (Hn : a_front st + total (a_fs st) = n) by apply Hinv.
    pose proof (astep_spec st i Hinv ltac:(lia) Hw2) as H1.
    destruct (astep st i) as [st1 o1]. cbn [fst] in Hok.
    destruct H1 as (A1 & A2 & A3 & A4).
    specialize (IH st1 A1 Hok). destruct (arun st1 t) as [st2 o2].
    destruct IH as (B1 & B2 & B3 & B4).
    split; [assumption|]. split; [lia|]. split.
    + rewrite <- app_assoc, B3. exact A4.
    + intros x Hx Hge. destruct Hx as [[->|Hx]|Hx].
      * apply B4; [|assumption]. right. apply A3; [left; reflexivity|lia].
      * apply B4; [left|]; assumption.
      * apply B4; [|assumption]. right. apply A3; [right; assumption|lia].
Qed.

Lemma sorted_prefix k : forall f l,
  StronglySorted lt l -> Forall (fun e => f <= e) l -> (forall x, f <= x < f + k -> In x l) ->
  exists r, l = seq f k ++ r.
Proof.
  induction k as [|k IH]; intros f l Hs Hge Hin; [exists l; reflexivity|].
  assert (Hf : In f l) by (apply Hin; lia).
  destruct l as [|h t]; [destruct Hf|].
  inversion Hs as [|? ? Ht Hall]; subst. inversion Hge as [|? ? Hh Hge']; subst.
  assert (h = f).
  { destruct Hf as [->|Hf]; [reflexivity|]. rewrite Forall_forall in Hall. specialize (Hall f Hf). lia. }
  subst h. destruct (IH (S f) t Ht) as [r Er].
  - rewrite Forall_forall in *. intros x Hx. specialize (Hall x Hx). lia.
  - intros x Hx. destruct (Hin x ltac:(lia)) as [->|Hx']; [lia|assumption].
  - exists r. cbn [seq app]. f_equal. exact Er.
Qed.

(* every packet arrived at least once  =>  every frame is delivered *)
Lemma arun_complete w sched st : ainv st -> sched_ok w st sched ->
  (forall x, a_front st <= x < n -> In x sched \/ In x (a_pend st)) ->
  a_fs (fst (arun st sched)) = [] /\ snd (arun st sched) = concat (map snd (a_fs st)).
Proof.
  intros Hinv Hok Hall. pose proof (arun_spec w sched st Hinv Hok) as H.
  destruct (arun st sched) as [st' os]. cbn [fst snd]. destruct H as (A1 & A2 & A3 & A4).
  assert (E : a_fs st' = []).
  { destruct A1 as ((Hs & Hf) & Hn & Hk & Hd). unfold drained in Hd.
    destruct (a_fs st') as [|[k o] t]; [reflexivity|exfalso]. cbn [total] in Hn.
    destruct (sorted_prefix k (a_front st') (a_pend st') Hs) as [r Er].
    - eapply Forall_impl; [|exact Hf]. cbn. intros; lia.
    - intros x Hx. apply A4; [|lia]. apply Hall. lia.
    - rewrite Er, take_run_seq in Hd. discriminate. }
  split; [assumption|]. rewrite E in A3. cbn in A3. rewrite app_nil_r in A3. exact A3.
Qed.

(* ---- the in-order schedule ---- *)
Lemma arun_app : forall a b (st : astate),
  arun st (a ++ b) = let (s1, o1) := arun st a in let (s2, o2) := arun s1 b in (s2, o1 ++ o2).
Proof.
  induction a as [|i t IH]; intros b st; cbn [app arun].
  - destruct (arun st b). reflexivity.
  - destruct (astep st i) as [st1 o1]. rewrite IH. destruct (arun st1 t) as [s1 o2].
    destruct (arun s1 b) as [s2 o3]. rewrite app_assoc. reflexivity.
Qed.

Lemma sched_ok_app w : forall a b (st : astate),
  sched_ok w st (a ++ b) <-> sched_ok w st a /\ sched_ok w (fst (arun st a)) b.
Proof.
  induction a as [|i t IH]; intros b st; cbn [app sched_ok arun fst].
  - intuition.
  - rewrite IH. destruct (astep st i) as [st1 o1]. cbn [fst]. destruct (arun st1 t) as [s1 o2]. cbn [fst]. intuition.
Qed.

Lemma drain_nil : forall (fs : list (aframe out)) f,
  Forall (fun fr : aframe out => 0 < fst fr) fs -> drain f fs [] = (mk_astate f fs [], [], false).
Proof.
  intros fs f Hk. destruct fs as [|[k o] t]; [reflexivity|]. cbn [drain].
  inversion Hk; subst. cbn [fst] in *. destruct k; [lia|]. reflexivity.
Qed.

Lemma frame_prefix w k o (t : list (aframe out)) front : forall j, j < k ->
  (Z.of_nat k <= w)%Z -> (N.of_nat k <= win)%N -> front + k <= n ->
  arun (mk_astate front ((k, o) :: t) []) (seq front j) = (mk_astate front ((k, o) :: t) (seq front j), []) /\
  sched_ok w (mk_astate front ((k, o) :: t) []) (seq front j).
Proof.
  induction j as [|j IH]; intros Hj Hw Hwin Hn.
  - cbn. auto.
  - destruct (IH ltac:(lia) Hw Hwin Hn) as [E1 E2]. rewrite seq_S, arun_app, E1.
    assert (Es : astep (mk_astate front ((k, o) :: t) (seq front j)) (front + j)
                 = (mk_astate front ((k, o) :: t) (seq front (S j)), [])).
    { unfold astep. cbn [a_front a_fs a_pend].
      replace (front + j <? front) with false by (symmetry; apply Nat.ltb_ge; lia).
      rewrite ins_seq_end. cbn [drain]. rewrite take_run_short by lia. reflexivity. }
    split.
    + cbn [arun]. rewrite Es. rewrite seq_S. reflexivity.
    + apply sched_ok_app. split; [assumption|]. rewrite E1. cbn [fst sched_ok a_front a_fs total].
      rewrite Es. cbn [fst a_pend]. rewrite seq_length. unfold win in *. repeat split; try lia.
Qed.

Lemma frame_inorder w k o (t : list (aframe out)) front :
  0 < k -> (Z.of_nat k <= w)%Z -> (N.of_nat k <= win)%N -> front + k <= n ->
  Forall (fun fr : aframe out => 0 < fst fr) t ->
  arun (mk_astate front ((k, o) :: t) []) (seq front k) = (mk_astate (front + k) t [], o) /\
  sched_ok w (mk_astate front ((k, o) :: t) []) (seq front k).
Proof.
  intros Hk Hw Hwin Hn Ht. destruct k as [|j]; [lia|].
  destruct (frame_prefix w (S j) o t front j ltac:(lia) Hw Hwin Hn) as [E1 E2].
  rewrite seq_S, arun_app, E1.
  assert (Es : astep (mk_astate front ((S j, o) :: t) (seq front j)) (front + j)
               = (mk_astate (front + S j) t [], o)).
  { unfold astep. cbn [a_front a_fs a_pend].
    replace (front + j <? front) with false by (symmetry; apply Nat.ltb_ge; lia).
    rewrite ins_seq_end. cbn [drain].
    rewrite <- (app_nil_r (seq front (S j))), take_run_seq. rewrite drain_nil by assumption.
    rewrite app_nil_r. reflexivity. }
  split.
  - cbn [arun]. rewrite Es. rewrite app_nil_r. reflexivity.
  - apply sched_ok_app. split; [assumption|]. rewrite E1. cbn [fst sched_ok a_front a_fs total].
    rewrite Es. cbn [fst a_pend length]. unfold win in *. repeat split; try lia.
Qed.

Lemma arun_inorder w : forall (fs : list (aframe out)) front,
  Forall (fun fr : aframe out => 0 < fst fr /\ (Z.of_nat (fst fr) <= w)%Z /\ (N.of_nat (fst fr) <= win)%N) fs ->
  front + total fs = n ->
  arun (mk_astate front fs []) (seq front (total fs)) = (mk_astate n [] [], concat (map snd fs)) /\
  sched_ok w (mk_astate front fs []) (seq front (total fs)).
Proof.
  induction fs as [|[k o] t IH]; intros front Hall Hn; cbn [total] in *.
  - cbn. rewrite Nat.add_0_r in Hn. rewrite Hn. auto.
  - apply Forall_cons_iff in Hall. destruct Hall as [(Hk & Hw & Hwin) Hall']. cbn [fst] in *.
    assert (Ht : Forall (fun fr : aframe out => 0 < fst fr) t).
    { eapply Forall_impl; [|exact Hall']. cbn. tauto. }
    destruct (frame_inorder w k o t front Hk Hw Hwin ltac:(lia) Ht) as [E1 E2].
    destruct (IH (front + k) Hall' ltac:(lia)) as [F1 F2].
    rewrite seq_app, arun_app.
    match goal with |- context [arun ?s (seq front k)] =>
      replace (arun s (seq front k)) with (mk_astate (out:=out) (front + k) t [], o) by (symmetry; exact E1) end.
    rewrite F1. split.
    + cbn [map snd concat]. reflexivity.
    + apply sched_ok_app. split; [assumption|].
      match goal with |- context [arun ?s (seq front k)] =>
        replace (arun s (seq front k)) with (mk_astate (out:=out) (front + k) t [], o) by (symmetry; exact E1) end.
      exact F2.
Qed.
End Abs.
