(* The reference reorder buffer the container is compared with (a
   specification, independent of lal): packets are numbered 0,1,2,... in
   sending order, frames are runs of consecutive numbers.  The buffer keeps
   the sorted set of received, not yet delivered numbers and delivers a frame
   as soon as all of its packets are there.  Definitions only. *)
From Coq Require Import List Arith NArith ZArith.
Import ListNotations.

Section Abs.
Variable out : Type.

(* a frame: number of packets, what it decodes to *)
Definition aframe := (nat * list out)%type.

Record astate := mk_astate { a_front : nat; a_fs : list aframe; a_pend : list nat }.

(* sorted set insert *)
Fixpoint ins (i : nat) (l : list nat) : list nat :=
  match l with
  | [] => [i]
  | h :: t => if i =? h then l else if i <? h then i :: l else h :: ins i t
  end.

(* does the list start with front, front+1, ..., front+k-1 ? *)
Fixpoint take_run (front k : nat) (pend : list nat) : option (list nat) :=
  match k with
  | O => Some pend
  | S k' => match pend with
            | h :: t => if h =? front then take_run (S front) k' t else None
            | [] => None
            end
  end.

(* deliver every frame that is complete *)
Fixpoint drain (front : nat) (fs : list aframe) (pend : list nat) : astate * list out * bool :=
  match fs with
  | [] => (mk_astate front [] pend, [], false)
  | (k, o) :: t =>
      match take_run front k pend with
      | Some rest => let '(st, os, _) := drain (front + k) t rest in (st, o ++ os, true)
      | None => (mk_astate front fs pend, [], false)
      end
  end.

(* arrival of packet number i *)
Definition astep (st : astate) (i : nat) : astate * list out :=
  if i <? a_front st then (st, [])
  else let '(st', os, _) := drain (a_front st) (a_fs st) (ins i (a_pend st)) in (st', os).

Fixpoint arun (st : astate) (sched : list nat) : astate * list out :=
  match sched with
  | [] => (st, [])
  | i :: t => let (st1, o1) := astep st i in let (st2, o2) := arun st1 t in (st2, o1 ++ o2)
  end.

Fixpoint total (fs : list aframe) : nat :=
  match fs with [] => 0 | (k, _) :: t => k + total t end.

(* the arrival schedule stays inside the window the property speaks of:
   every arriving number is a packet of the stream, lies within 2^14 of the
   delivery frontier, and fewer than w packets are pending afterwards *)
Fixpoint sched_ok (w : Z) (st : astate) (sched : list nat) : Prop :=
  match sched with
  | [] => True
  | i :: t =>
      i < a_front st + total (a_fs st) /\
      (N.of_nat (a_front st) < N.of_nat i + 16384)%N /\ (N.of_nat i < N.of_nat (a_front st) + 16384)%N /\
      (Z.of_nat (length (a_pend (fst (astep st i)))) < w)%Z /\
      sched_ok w (fst (astep st i)) t
  end.
End Abs.

Arguments mk_astate {out}.
Arguments a_front {out}.
Arguments a_fs {out}.
Arguments a_pend {out}.
Arguments drain {out}.
Arguments astep {out}.
Arguments arun {out}.
Arguments total {out}.
Arguments sched_ok {out}.
