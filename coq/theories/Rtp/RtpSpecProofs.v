(* The RFC 6184 / 7798 / 3640 reference depacketisers applied to the payloads
   lal's packers produce return exactly the original unit. *)
From Coq Require Import NArith ZArith Lia ZifyN ZifyNat ZifyBool.
From Lal Require Import Common.LBytes Common.Res Common.LBytesProofs Common.ByteCases
  Rtp.RtpSeqArith Rtp.RtpPacker Rtp.RtpSpec Rtp.RtpPackerProofs.
Ltac Zify.zify_post_hook ::= Z.div_mod_to_equations.
Open Scope N_scope.

Ltac by_bytes P := apply N.eqb_eq; apply (byte_cases P); [vm_compute; reflexivity|assumption].

(* ---------------- H.264 ---------------- *)
Lemma avc_type_mod b0 : b0 < 256 -> avc_nal_type b0 = b0 mod 32.
Proof. intros H. by_bytes (fun b0 => avc_nal_type b0 =? b0 mod 32). Qed.

Lemma avc_ind_mod b0 : b0 < 256 -> (N.lor 28 (N.land b0 224)) mod 32 = 28.
Proof. intros H. by_bytes (fun b0 => (N.lor 28 (N.land b0 224)) mod 32 =? 28). Qed.

Lemma avc_fh_s b0 fl : b0 < 256 -> (fl = 128 \/ fl = 64 \/ fl = 0) ->
  N.lor (avc_nal_type b0) fl / 128 = (if fl =? 128 then 1 else 0) /\
  (N.lor (avc_nal_type b0) fl / 64) mod 2 = (if fl =? 64 then 1 else 0).
Proof.
  intros H [ -> | [ -> | -> ] ]; split.
  - by_bytes (fun b0 => N.lor (avc_nal_type b0) 128 / 128 =? 1).
  - by_bytes (fun b0 => (N.lor (avc_nal_type b0) 128 / 64) mod 2 =? 0).
  - by_bytes (fun b0 => N.lor (avc_nal_type b0) 64 / 128 =? 0).
  - by_bytes (fun b0 => (N.lor (avc_nal_type b0) 64 / 64) mod 2 =? 1).
  - by_bytes (fun b0 => N.lor (avc_nal_type b0) 0 / 128 =? 0).
  - by_bytes (fun b0 => (N.lor (avc_nal_type b0) 0 / 64) mod 2 =? 0).
Qed.

Lemma avc_hdr_spec b0 : b0 < 256 ->
  N.lor 28 (N.land b0 224) / 32 * 32 + N.lor (avc_nal_type b0) 128 mod 32 = b0.
Proof. intros H. by_bytes (fun b0 => N.lor 28 (N.land b0 224) / 32 * 32 + N.lor (avc_nal_type b0) 128 mod 32 =? b0). Qed.

Lemma fu_flag_cases first last : fu_flag first last = 128 \/ fu_flag first last = 64 \/ fu_flag first last = 0.
Proof. destruct first, last; cbn; auto. Qed.

Section Avc.
Variables b0 b1 : N.
Hypothesis Hb0 : b0 < 256.
Let mk := fu_packet true Avc b0 b1.

Lemma rfc6184_start chunk t :
  rfc6184_depack None (mk true false chunk :: t) = rfc6184_depack (Some (b0 :: chunk)) t.
Proof.
  unfold mk. cbn [rfc6184_depack fu_packet fu_flag].
  rewrite avc_ind_mod by assumption.
  change ((1 <=? 28) && (28 <=? 23)) with false. change (28 =? 24) with false. change (28 =? 28) with true. cbv iota.
  destruct (avc_fh_s b0 128 Hb0 (or_introl eq_refl)) as [-> ->]. cbn [N.eqb Pos.eqb]. cbv iota.
  rewrite avc_hdr_spec by assumption. reflexivity.
Qed.

Lemma rfc6184_middle acc chunk t :
  rfc6184_depack (Some acc) (mk false false chunk :: t) = rfc6184_depack (Some (acc ++ chunk)) t.
Proof.
  unfold mk. cbn [rfc6184_depack fu_packet fu_flag].
  rewrite avc_ind_mod by assumption.
  change ((1 <=? 28) && (28 <=? 23)) with false. change (28 =? 24) with false. change (28 =? 28) with true. cbv iota.
  destruct (avc_fh_s b0 0 Hb0 (or_intror (or_intror eq_refl))) as [-> ->]. cbn [N.eqb Pos.eqb]. cbv iota.
  reflexivity.
Qed.

Lemma rfc6184_end acc chunk t first :
  rfc6184_depack (Some acc) (mk first true chunk :: t) =
  match rfc6184_depack None t with Some l => Some ((acc ++ chunk) :: l) | None => None end.
Proof.
  unfold mk. cbn [rfc6184_depack fu_packet fu_flag].
  rewrite avc_ind_mod by assumption.
  change ((1 <=? 28) && (28 <=? 23)) with false. change (28 =? 24) with false. change (28 =? 28) with true. cbv iota.
  destruct (avc_fh_s b0 64 Hb0 (or_intror (or_introl eq_refl))) as [-> ->]. cbn [N.eqb Pos.eqb]. cbv iota.
  reflexivity.
Qed.

Lemma rfc6184_cont : forall ps acc t, ps <> [] ->
  rfc6184_depack (Some acc) (mark_pieces mk false ps ++ t) =
  match rfc6184_depack None t with Some l => Some ((acc ++ concat ps) :: l) | None => None end.
Proof.
  induction ps as [|p ps' IH]; intros acc t Hne; [congruence|].
  destruct ps' as [|q ps''].
  - cbn [mark_pieces app concat]. rewrite rfc6184_end. rewrite app_nil_r. reflexivity.
  - rewrite mark_pieces_cons2. cbn [app]. rewrite rfc6184_middle. rewrite IH by discriminate.
    cbn [concat]. rewrite <- app_assoc. reflexivity.
Qed.
End Avc.

Definition rfc_unit_ok (c : vcodec) (nal : bytes) : Prop :=
  match c with
  | Avc => 1 <= avc_nal_type (nth 0 nal 0) <= 23
  | Hevc => (2 <= length nal)%nat /\ hevc_nal_type (nth 0 nal 0) <> 48 /\
            hevc_nal_type (nth 0 nal 0) <> 49 /\ hevc_nal_type (nth 0 nal 0) <> 50
  end.

Lemma rfc6184_pack_nal nal maxp pls t :
  2 < maxp -> nal <> [] -> nth 0 nal 0 < 256 -> rfc_unit_ok Avc nal ->
  pack_nal true Avc nal maxp = Ok pls ->
  rfc6184_depack None (pls ++ t) =
  match rfc6184_depack None t with Some l => Some (nal :: l) | None => None end.
Proof.
  intros Hh Hne Hb0 Hty Hp. cbn [rfc_unit_ok] in Hty.
  destruct (N.le_gt_cases (lenN nal) maxp) as [Hle|Hgt].
  - rewrite pack_nal_single in Hp by assumption. injection Hp as <-.
    destruct nal as [|ind r]; [congruence|]. cbn [nth] in *. cbn [app rfc6184_depack].
    rewrite <- avc_type_mod by assumption.
    replace ((1 <=? avc_nal_type ind) && (avc_nal_type ind <=? 23)) with true by lia. reflexivity.
  - rewrite pack_nal_fu in Hp by (cbn [fu_hdr_size]; assumption). injection Hp as <-.
    destruct (pack_nal_fu_two Avc nal maxp Hgt Hh) as (p & q & r & Ep).
    assert (Hcat : concat (p :: q :: r) = skipn 1 nal).
    { rewrite <- Ep. unfold lenN in Hgt. apply fu_pieces_concat.
      - unfold fu_chunk. cbn [fu_hdr_size]. lia.
      - rewrite skipn_length. lia.
      - lia. }
    match goal with |- context [fu_pieces _ _ ?x] => change x with (skipn (fu_skip Avc) nal) end.
    rewrite Ep, mark_pieces_cons2. cbn [app].
    rewrite rfc6184_start by assumption. rewrite rfc6184_cont by (assumption || discriminate).
    cbn [concat] in Hcat.
    replace ((nth 0 nal 0 :: p) ++ concat (q :: r)) with nal; [reflexivity|].
    cbn [app concat]. rewrite Hcat. destruct nal; [congruence|reflexivity].
Qed.

(* ---------------- H.265 ---------------- *)
Lemma hevc_type_mod b0 : b0 < 256 -> hevc_nal_type b0 = (b0 / 2) mod 64.
Proof. intros H. by_bytes (fun b0 => hevc_nal_type b0 =? (b0 / 2) mod 64). Qed.

Lemma hevc_h0_type b0 : b0 < 256 -> (N.lor (N.land b0 129) 98 / 2) mod 64 = 49.
Proof. intros H. by_bytes (fun b0 => (N.lor (N.land b0 129) 98 / 2) mod 64 =? 49). Qed.

Lemma hevc_fh_s b0 fl : b0 < 256 -> (fl = 128 \/ fl = 64 \/ fl = 0) ->
  N.lor (hevc_nal_type b0) fl / 128 = (if fl =? 128 then 1 else 0) /\
  (N.lor (hevc_nal_type b0) fl / 64) mod 2 = (if fl =? 64 then 1 else 0).
Proof.
  intros H [ -> | [ -> | -> ] ]; split.
  - by_bytes (fun b0 => N.lor (hevc_nal_type b0) 128 / 128 =? 1).
  - by_bytes (fun b0 => (N.lor (hevc_nal_type b0) 128 / 64) mod 2 =? 0).
  - by_bytes (fun b0 => N.lor (hevc_nal_type b0) 64 / 128 =? 0).
  - by_bytes (fun b0 => (N.lor (hevc_nal_type b0) 64 / 64) mod 2 =? 1).
  - by_bytes (fun b0 => N.lor (hevc_nal_type b0) 0 / 128 =? 0).
  - by_bytes (fun b0 => (N.lor (hevc_nal_type b0) 0 / 64) mod 2 =? 0).
Qed.

Lemma hevc_hdr_spec b0 : b0 < 256 ->
  N.lor (N.land b0 129) 98 / 128 * 128 + N.lor (hevc_nal_type b0) 128 mod 64 * 2 + N.lor (N.land b0 129) 98 mod 2 = b0.
Proof. intros H. by_bytes (fun b0 => N.lor (N.land b0 129) 98 / 128 * 128 + N.lor (hevc_nal_type b0) 128 mod 64 * 2 + N.lor (N.land b0 129) 98 mod 2 =? b0). Qed.

Section Hevc.
Variables b0 b1 : N.
Hypothesis Hb0 : b0 < 256.
Let mk := fu_packet true Hevc b0 b1.

Lemma rfc7798_start chunk t :
  rfc7798_depack None (mk true false chunk :: t) = rfc7798_depack (Some (b0 :: b1 :: chunk)) t.
Proof.
  unfold mk. cbn [rfc7798_depack fu_packet fu_flag].
  rewrite hevc_h0_type by assumption.
  change (49 =? 48) with false. change (49 =? 49) with true. cbv iota.
  destruct (hevc_fh_s b0 128 Hb0 (or_introl eq_refl)) as [-> ->]. cbn [N.eqb Pos.eqb]. cbv iota.
  rewrite hevc_hdr_spec by assumption. reflexivity.
Qed.

Lemma rfc7798_middle acc chunk t :
  rfc7798_depack (Some acc) (mk false false chunk :: t) = rfc7798_depack (Some (acc ++ chunk)) t.
Proof.
  unfold mk. cbn [rfc7798_depack fu_packet fu_flag].
  rewrite hevc_h0_type by assumption.
  change (49 =? 48) with false. change (49 =? 49) with true. cbv iota.
  destruct (hevc_fh_s b0 0 Hb0 (or_intror (or_intror eq_refl))) as [-> ->]. cbn [N.eqb Pos.eqb]. cbv iota.
  reflexivity.
Qed.

Lemma rfc7798_end acc chunk t first :
  rfc7798_depack (Some acc) (mk first true chunk :: t) =
  match rfc7798_depack None t with Some l => Some ((acc ++ chunk) :: l) | None => None end.
Proof.
  unfold mk. cbn [rfc7798_depack fu_packet fu_flag].
  rewrite hevc_h0_type by assumption.
  change (49 =? 48) with false. change (49 =? 49) with true. cbv iota.
  destruct (hevc_fh_s b0 64 Hb0 (or_intror (or_introl eq_refl))) as [-> ->]. cbn [N.eqb Pos.eqb]. cbv iota.
  reflexivity.
Qed.

Lemma rfc7798_cont : forall ps acc t, ps <> [] ->
  rfc7798_depack (Some acc) (mark_pieces mk false ps ++ t) =
  match rfc7798_depack None t with Some l => Some ((acc ++ concat ps) :: l) | None => None end.
Proof.
  induction ps as [|p ps' IH]; intros acc t Hne; [congruence|].
  destruct ps' as [|q ps''].
  - cbn [mark_pieces app concat]. rewrite rfc7798_end. rewrite app_nil_r. reflexivity.
  - rewrite mark_pieces_cons2. cbn [app]. rewrite rfc7798_middle. rewrite IH by discriminate.
    cbn [concat]. rewrite <- app_assoc. reflexivity.
Qed.
End Hevc.

Lemma rfc7798_pack_nal nal maxp pls t :
  3 < maxp -> nth 0 nal 0 < 256 -> rfc_unit_ok Hevc nal ->
  pack_nal true Hevc nal maxp = Ok pls ->
  rfc7798_depack None (pls ++ t) =
  match rfc7798_depack None t with Some l => Some (nal :: l) | None => None end.
Proof.
  intros Hh Hb0 Hty Hp. cbn [rfc_unit_ok] in Hty. destruct Hty as (Hlen & T48 & T49 & T50).
  destruct nal as [|h0 [|h1 r]]; cbn [length] in Hlen; try lia. cbn [nth] in *.
  destruct (N.le_gt_cases (lenN (h0 :: h1 :: r)) maxp) as [Hle|Hgt].
  - rewrite pack_nal_single in Hp by assumption. injection Hp as <-.
    cbn [app rfc7798_depack]. rewrite <- hevc_type_mod by assumption.
    destruct (hevc_nal_type h0 =? 48) eqn:E1; [lia|].
    destruct (hevc_nal_type h0 =? 49) eqn:E2; [lia|].
    destruct (hevc_nal_type h0 =? 50) eqn:E3; [lia|]. reflexivity.
  - rewrite pack_nal_fu in Hp by (cbn [fu_hdr_size]; assumption). apply ok_inj in Hp. subst pls.
    destruct (pack_nal_fu_two Hevc (h0 :: h1 :: r) maxp Hgt Hh) as (p & q & u & Ep).
    assert (Hcat : concat (p :: q :: u) = r).
    { rewrite <- Ep. unfold lenN in Hgt. cbn [fu_skip skipn]. apply fu_pieces_concat.
      - unfold fu_chunk. cbn [fu_hdr_size]. lia.
      - cbn [length] in *. lia.
      - cbn [length]. lia. }
    rewrite Ep, mark_pieces_cons2. cbn [app nth].
    rewrite rfc7798_start by assumption. rewrite rfc7798_cont by (assumption || discriminate).
    cbn [concat] in Hcat.
    replace ((h0 :: h1 :: p) ++ concat (q :: u)) with (h0 :: h1 :: r); [reflexivity|].
    cbn [app concat]. rewrite Hcat. reflexivity.
Qed.

(* ---------------- AAC (RFC 3640) ---------------- *)
Lemma rfc3640_pack_aac frame maxp :
  0 < maxp -> lenN frame < 8192 ->
  rfc3640_depack (pack_aac frame maxp) = Some [frame].
Proof.
  intros Hm Hl. unfold pack_aac. destruct (maxp =? 0) eqn:E; [lia|].
  cbn [rfc3640_depack app rfc3640_packet].
  change ((0 * 256 + 16) mod 16 =? 0) with true. change (negb true) with false. cbv iota.
  change ((0 * 256 + 16) / 16) with 1. change (2 * 1) with 2.
  replace (2 <=? lenN (u8 (lenN frame / 32) :: u8 (lenN frame mod 32 * 8) :: frame)) with true
    by (unfold lenN; cbn [length]; lia).
  change (N.to_nat 1) with 1%nat. change (N.to_nat 2) with 2%nat. cbn [spec_au_sizes skipn spec_cut].
  assert (Hs : (u8 (lenN frame / 32) * 256 + u8 (lenN frame mod 32 * 8)) / 8 = lenN frame).
  { unfold u8. rewrite (N.mod_small (lenN frame / 32)) by lia. rewrite (N.mod_small (lenN frame mod 32 * 8)) by lia. lia. }
  rewrite Hs. rewrite N.leb_refl. unfold lenN. rewrite Nat2N.id, skipn_all, firstn_all. reflexivity.
Qed.
