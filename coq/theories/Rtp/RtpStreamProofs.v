(* Instantiation of the refinement theorem on concrete packet streams:
   a stream is a list of frames (packets as stored by the container, expected
   output); the container fed with any schedule inside the window emits the
   outputs of the delivered frames; complete schedules emit every frame. *)
From Coq Require Import List Arith NArith ZArith Lia Sorted ZifyN ZifyNat ZifyBool.
From Lal Require Import Common.LBytes Common.Res Rtp.RtpSeqArith Rtp.RtpPacker Rtp.RtpUnpacker
  Rtp.RtpReorder Rtp.RtpFrames Rtp.RtpSeqProofs Rtp.RtpReorderAbs Rtp.RtpReorderAbsProofs Rtp.RtpReorderProofs.
Import ListNotations.
Ltac Zify.zify_post_hook ::= Z.div_mod_to_equations.
Local Open Scope nat_scope.

Definition stream := list (list upkt * list avout).
Definition pkts (s : stream) : list upkt := concat (map fst s).
Definition frames_of (s : stream) : list (aframe avout) := map (fun fo => (length (fst fo), snd fo)) s.
Definition outs_of (s : stream) : list avout := concat (map snd s).
Definition pkt_at (s : stream) (i : nat) : upkt := nth i (pkts s) dummy_upkt.
Definition upkt_arrival (p : upkt) : N * N * bytes := (u_seq p, u_ts p, u_body p).

(* packets numbered d+1, d+2, ... modulo 2^16; positions as the container
   computes them; every frame is a frame of the protocol *)
Definition stream_wf (pr : proto) (rate d : N) (s : stream) : Prop :=
  (forall i, i < length (pkts s) -> u_seq (pkt_at s i) = seq_add d (N.of_nat i + 1)) /\
  Forall (fun p => calc_position pr (u_body p) = Ok (u_pos p)) (pkts s) /\
  Forall (fun fo => frame_good pr rate (fst fo) (snd fo)) s.

Lemma total_frames_of s : total (frames_of s) = length (pkts s).
Proof.
  induction s as [|[F o] t IH]; [reflexivity|].
  unfold pkts in *. cbn [frames_of map total fst snd concat]. rewrite app_length. f_equal. exact IH.
Qed.

Lemma map_nth_mid {A} (d : A) (F : list A) : forall pre post,
  map (fun i => nth i (pre ++ F ++ post) d) (seq (length pre) (length F)) = F.
Proof.
  induction F as [|x F IH]; intros pre post; [reflexivity|].
  cbn [length seq map]. f_equal.
  - rewrite app_nth2 by lia. rewrite Nat.sub_diag. reflexivity.
  - specialize (IH (pre ++ [x]) post). rewrite app_length in IH. cbn [length] in IH.
    rewrite Nat.add_1_r in IH. rewrite <- app_assoc in IH. exact IH.
Qed.

Lemma map_nth_all {A} (d : A) (l : list A) : map (fun i => nth i l d) (seq 0 (length l)) = l.
Proof. pose proof (map_nth_mid d l [] []) as H. cbn [app length] in H. rewrite app_nil_r in H. exact H. Qed.

Section Inst.
Variables (pr : proto) (rate : N) (w : Z) (d : N).

Lemma frames_good_stream all : forall s2 s1, all = s1 ++ s2 ->
  Forall (fun fo => frame_good pr rate (fst fo) (snd fo)) s2 ->
  frames_good pr rate (pkt_at all) (length (pkts s1)) (frames_of s2).
Proof.
  induction s2 as [|[F o] t IH]; intros s1 E Hg; [exact I|].
  apply Forall_cons_iff in Hg. destruct Hg as [Hg0 Hg']. cbn [fst snd] in Hg0.
  cbn [frames_of map frames_good fst snd]. split.
  - unfold pkt_at. subst all. unfold pkts. rewrite map_app, concat_app. cbn [map concat fst].
    change (concat (map fst s1)) with (pkts s1). rewrite map_nth_mid. exact Hg0.
  - specialize (IH (s1 ++ [(F, o)])). unfold pkts in IH. rewrite map_app, concat_app, app_length in IH.
    cbn [map concat fst] in IH. rewrite app_nil_r in IH. apply IH; [|exact Hg'].
    rewrite <- app_assoc. exact E.
Qed.

Definition init_astate (s : stream) : astate avout := mk_astate 0 (frames_of s) [].

(* the container that has just delivered sequence number d *)
Definition primed : cstate := mk_cstate [] 0 true d.

Lemma ainv_init s : Forall (fun fo => frame_good pr rate (fst fo) (snd fo)) s ->
  ainv avout (length (pkts s)) (init_astate s).
Proof.
  intros Hg. unfold ainv, init_astate. cbn [a_front a_fs a_pend].
  assert (Hk : Forall (fun f : aframe avout => 0 < fst f) (frames_of s)).
  { unfold frames_of. apply Forall_map. eapply Forall_impl; [|exact Hg]. cbn. intros [F o] (Hne & _).
    cbn [fst] in *. destruct F; [congruence|cbn; lia]. }
  repeat split.
  - constructor.
  - constructor.
  - cbn. apply total_frames_of.
  - exact Hk.
  - unfold drained. cbn [a_fs a_front a_pend]. destruct (frames_of s) as [|[k o] t]; [exact I|].
    apply Forall_cons_iff in Hk. destruct Hk as [Hk _]. cbn [fst] in Hk. destruct k; [lia|reflexivity].
Qed.

Theorem stream_reorder s sched :
  (d < 65536)%N -> stream_wf pr rate d s -> sched_ok w (init_astate s) sched ->
  feed_all pr rate w primed (map (fun i => upkt_arrival (pkt_at s i)) sched)
  = Ok (img d (pkt_at s) (fst (arun (init_astate s) sched)), snd (arun (init_astate s) sched)).
Proof.
  intros Hd (Hseq & Hpos & Hg) Hok.
  assert (Ei : primed = img d (pkt_at s) (init_astate s)).
  { unfold primed, img, init_astate. cbn [a_pend a_front map length]. f_equal.
    symmetry. apply seq_add_0. assumption. }
  rewrite Ei.
  apply (reorder_refines pr rate w d (pkt_at s) (length (pkts s)) Hd Hseq).
  - intros i Hi. rewrite Forall_forall in Hpos. apply Hpos. apply nth_In. assumption.
  - apply ainv_init. assumption.
  - apply (frames_good_stream s s []); [reflexivity|assumption].
  - assumption.
Qed.

(* complete schedule: every frame comes out, in order, and nothing is left *)
Theorem stream_reorder_complete s sched :
  (d < 65536)%N -> stream_wf pr rate d s -> sched_ok w (init_astate s) sched ->
  (forall i, i < length (pkts s) -> In i sched) ->
  feed_all pr rate w primed (map (fun i => upkt_arrival (pkt_at s i)) sched)
  = Ok (mk_cstate [] 0 true (seq_add d (N.of_nat (length (pkts s)))), outs_of s).
Proof.
  intros Hd Hwf Hok Hall. rewrite (stream_reorder s sched Hd Hwf Hok).
  destruct Hwf as (_ & _ & Hg). pose proof (ainv_init s Hg) as Hinv.
  destruct (arun_complete avout (length (pkts s)) w sched (init_astate s) Hinv Hok) as [E1 E2].
  { intros x Hx. left. apply Hall. lia. }
  pose proof (arun_spec avout (length (pkts s)) w sched (init_astate s) Hinv Hok) as HS.
  destruct (arun (init_astate s) sched) as [st' os]. cbn [fst snd] in *.
  destruct HS as (((Hs & Hf) & Hn & _) & _). rewrite E1 in Hn. cbn [total] in Hn.
  assert (Ep : a_pend st' = []).
  { destruct (a_pend st') as [|h t]; [reflexivity|]. apply Forall_cons_iff in Hf. lia. }
  unfold img. rewrite Ep. cbn [map length]. rewrite E2.
  replace (a_front st') with (length (pkts s)) by lia.
  unfold outs_of, init_astate, frames_of. cbn [a_fs]. rewrite map_map. reflexivity.
Qed.

(* the in-order schedule is inside the window when no frame has more than w
   (and 2^14) packets *)
Theorem stream_inorder s :
  (d < 65536)%N -> stream_wf pr rate d s ->
  Forall (fun fo => (Z.of_nat (length (fst fo)) <= w)%Z /\ (N.of_nat (length (fst fo)) <= win)%N) s ->
  sched_ok w (init_astate s) (seq 0 (length (pkts s))) /\
  feed_all pr rate w primed (map upkt_arrival (pkts s))
  = Ok (mk_cstate [] 0 true (seq_add d (N.of_nat (length (pkts s)))), outs_of s).
Proof.
  intros Hd Hwf Hsz.
  assert (Hok : sched_ok w (init_astate s) (seq 0 (length (pkts s)))).
  { destruct Hwf as (_ & _ & Hg). rewrite <- total_frames_of.
    apply (arun_inorder avout (length (pkts s)) w (frames_of s) 0).
    - unfold frames_of. apply Forall_map. rewrite Forall_forall in *. intros [F o] Hin.
      specialize (Hg _ Hin). specialize (Hsz _ Hin). cbn [fst snd] in *. destruct Hg as (Hne & _).
      destruct F; [congruence|]. cbn [length] in *. lia.
    - apply total_frames_of. }
  split; [exact Hok|].
  rewrite <- (stream_reorder_complete s (seq 0 (length (pkts s))) Hd Hwf Hok).
  - f_equal. unfold pkt_at. clear. generalize (pkts s). intros l.
    rewrite <- (map_map (fun i => nth i l dummy_upkt) upkt_arrival). f_equal.
    symmetry. apply map_nth_all.
  - intros i Hi. apply in_seq. lia.
Qed.
End Inst.
