(* Model of the depacketising protocols of pkg/rtprtcp:
     rtp_unpacker_avc_hevc.go (calcPositionIfNeededAvc/Hevc, TryUnpackOne:
                               single / STAP-A / AP / FU reassembly)
     rtp_unpacker_aac.go      (parseAu, TryUnpackOne: one AU, several AUs,
                               fragmented AU)
     rtp_unpacker_raw.go      (one packet = one frame)
   The packet list is a Coq list (head = RtpPacketList.Head.Next).
   No proofs in this file. *)
From Lal Require Import Common.LBytes Common.Res Rtp.RtpSeqArith Rtp.RtpPacker.
Open Scope N_scope.

Inductive proto := PAvc | PHevc | PAac | PRaw.

(* panic sites *)
Definition site_calcpos_avc : N := 2.
Definition site_calcpos_hevc : N := 3.
Definition site_avchevc_divide : N := 4.
Definition site_avchevc_slice : N := 5.
Definition site_parseau_index : N := 6.
Definition site_aac_slice : N := 7.
Definition site_aac_divide : N := 8.
Definition site_raw_divide : N := 9.
Definition site_popfirst_nil : N := 10.

(* PositionType* *)
Definition pos_unknown : N := 0.
Definition pos_single : N := 1.
Definition pos_fu_start : N := 2.
Definition pos_fu_middle : N := 3.
Definition pos_fu_end : N := 4.
Definition pos_stapa : N := 5.
Definition pos_ap : N := 6.

(* a packet as the container sees it: header fields it reads, Body(), and
   the position computed at insertion *)
Record upkt := mk_upkt { u_seq : N; u_ts : N; u_body : bytes; u_pos : N }.

(* an emitted base.AvPacket: (Timestamp, Payload) *)
Definition avout := (N * bytes)%type.

(* the types lal treats as a single NAL unit packet: every type below 48
   (RFC 7798 4.4.1; C07 fix, lal b865944).  Before: the keys of
   hevc.NaluTypeMapping only, so that filler data (38), end of sequence (36),
   end of bit stream (37) and the reserved types got no position and blocked
   the queue (Properties/C07.v c07_hevc_filler_pinned_refuted). *)
Definition hevc_type_known_pinned (t : N) : bool :=
  (t <=? 9) || ((16 <=? t) && (t <=? 23)) || ((32 <=? t) && (t <=? 35)) || (t =? 39) || (t =? 40).
Definition hevc_type_known (t : N) : bool := t <? 48.

Definition fu_pos_of (fuhdr : N) : N :=
  if negb (N.land fuhdr 128 =? 0) then pos_fu_start
  else if negb (N.land fuhdr 64 =? 0) then pos_fu_end
  else pos_fu_middle.

(* calcPositionIfNeededAvc.  A body too short for its payload header gets no
   position (C13 fix 24f0e14; the pinned tree indexed past the body). *)
Definition calc_position_avc (b : bytes) : res N :=
  match b with
  | [] => Ok pos_unknown
  | b0 :: t =>
      let ty := avc_nal_type b0 in
      if ty <=? 23 then Ok pos_single
      else if ty =? 28 then
        match t with
        | [] => Ok pos_unknown
        | b1 :: _ => Ok (fu_pos_of b1)
        end
      else if ty =? 24 then Ok pos_stapa
      else Ok pos_unknown
  end.

(* calcPositionIfNeededHevc *)
Definition calc_position_hevc (b : bytes) : res N :=
  match b with
  | [] => Ok pos_unknown
  | b0 :: t =>
      let ty := hevc_nal_type b0 in
      if hevc_type_known ty then Ok pos_single
      else if ty =? 49 then
        match t with
        | _ :: b2 :: _ => Ok (fu_pos_of b2)
        | _ => Ok pos_unknown
        end
      else if ty =? 48 then
        match t with
        | [] => Ok pos_unknown
        | _ :: _ => Ok pos_ap
        end
      else Ok pos_unknown
  end.

Definition calc_position (pr : proto) (b : bytes) : res N :=
  match pr with
  | PAvc => calc_position_avc b
  | PHevc => calc_position_hevc b
  | _ => Ok pos_unknown
  end.

(* int64(uint64(Header.Timestamp) * 1000 / uint64(clockRate))  -- after the C07
   fix (lal 186fc1c); before it: Header.Timestamp / uint32(clockRate/1000),
   which used 44 for 44100 Hz (DESIGN F-24, Properties/C07.v c07_ts_drift_pinned_refuted).
   The clock rate is a non-negative int here, timestamps are below 2^32, so the
   uint64 product does not wrap. *)
Definition rtp_ms (rate ts : N) : N := ts * 1000 / rate.
Definition out_ts (site : N) (rate ts : N) : res N :=
  if rate =? 0 then Panic site else Ok (rtp_ms rate ts).

(* AVCC framing of one NAL: 4-byte big-endian length (uint32 truncation) *)
Definition avcc (nal : bytes) : bytes := be_put 4 (u32 (lenN nal)) ++ nal.

(* the two passes over a STAP-A / AP body: [size16 nal]* must fit exactly *)
Fixpoint parse_aggr (fuel : nat) (buf : bytes) : option (list bytes) :=
  match buf with
  | [] => Some []
  | _ =>
      match fuel with
      | O => None
      | S f =>
          match buf with
          | s1 :: s0 :: rest =>
              match split_exactN (s1 * 256 + s0) rest with
              | None => None
              | Some (nal, rest') =>
                  match parse_aggr f rest' with
                  | None => None
                  | Some l => Some (nal :: l)
                  end
              end
          | _ => None
          end
      end
  end.

(* result of a successful TryUnpackOne: emitted packets, unpackedSeq, the
   remaining list, and the amount subtracted from list.Size *)
Definition unpacked := (list avout * N * list upkt * Z)%type.

(* walk from the packet after the FU start: consecutive sequence numbers,
   middle packets, then the end packet *)
Fixpoint fu_collect (skip : nat) (prev_seq : N) (l : list upkt) (acc : list bytes)
  : option (list bytes * upkt * list upkt) :=
  match l with
  | [] => None
  | p :: t =>
      if (sub_seq (u_seq p) prev_seq =? 1)%Z then
        if u_pos p =? pos_fu_middle then fu_collect skip (u_seq p) t (skipn skip (u_body p) :: acc)
        else if u_pos p =? pos_fu_end then Some (rev (skipn skip (u_body p) :: acc), p, t)
        else None
      else None
  end.

(* reconstructed NAL header from the FU start packet *)
Definition fu_nal_header (c : vcodec) (b : bytes) : bytes :=
  match c with
  | Avc => [N.lor (N.land (nth 0 b 0) 224) (N.land (nth 1 b 0) 31)]
  | Hevc => [N.lor (N.land (nth 0 b 0) 129) ((N.land (nth 2 b 0) 63) * 2); nth 1 b 0]
  end.

Definition try_unpack_video (c : vcodec) (rate : N) (l : list upkt) : res (option unpacked) :=
  match l with
  | [] => Ok None
  | first :: rest =>
      let pos := u_pos first in
      if pos =? pos_single then
        let* ts := out_ts site_avchevc_divide rate (u_ts first) in
        Ok (Some ([(ts, avcc (u_body first))], u_seq first, rest, 1%Z))
      else if (pos =? pos_stapa) || (pos =? pos_ap) then
        let skip := if pos =? pos_stapa then 1%nat else 2%nat in
        let* ts := out_ts site_avchevc_divide rate (u_ts first) in
        if Nat.ltb (length (u_body first)) skip then Panic site_avchevc_slice
        else
          let buf := skipn skip (u_body first) in
          match parse_aggr (length buf) buf with
          | None => Ok None
          | Some nals => Ok (Some ([(ts, concat (map avcc nals))], u_seq first, rest, 1%Z))
          end
      else if pos =? pos_fu_start then
        let skip := N.to_nat (fu_hdr_size c) in
        match fu_collect skip (u_seq first) rest [skipn skip (u_body first)] with
        | None => Ok None
        | Some (chunks, pend, rest') =>
            let* ts := out_ts site_avchevc_divide rate (u_ts pend) in
            let hdr := fu_nal_header c (u_body first) in
            let data := concat chunks in
            Ok (Some ([(ts, be_put 4 (u32 (lenN data + lenN hdr)) ++ hdr ++ data)],
                      u_seq pend, rest', Z.of_nat (length chunks)))
        end
      else Ok None
  end.

(* ---- AAC ---- *)
(* parseAu: list of (size, pos) *)
Fixpoint parse_au_loop (n : nat) (b : bytes) (pauh pau : N) : res (list (N * N)) :=
  match n with
  | O => Ok []
  | S k =>
      match nth_error b (N.to_nat pauh), nth_error b (N.to_nat (pauh + 1)) with
      | Some h0, Some h1 =>
          let size := (h0 * 256 + N.land h1 248) / 8 in
          let* r := parse_au_loop k b (pauh + 2) (pau + size) in
          Ok ((size, pau) :: r)
      | _, _ => Panic site_parseau_index
      end
  end.

(* parseAu with the three length guards of C13 fix 420cb65: a body that
   cannot hold the announced AU-header section, or (for more than one AU) the
   announced access units, yields no access unit *)
Definition parse_au (b : bytes) : res (list (N * N)) :=
  match b with
  | b0 :: b1 :: _ =>
      let ahl := (b0 * 256 + b1 + 7) / 8 in
      let nb := ahl / 2 in
      if lenN b <? 2 + ahl then Ok []
      else
        (* 2*nb <= ahl <= len b - 2: the unary counter is bounded by the body *)
        let* r := parse_au_loop (N.to_nat nb) b 2 (2 + ahl) in
        let pau := fold_left (fun a x => a + fst x) r (2 + ahl) in
        if (1 <? nb) && (lenN b <? pau) then Ok [] else Ok r
  | _ => Ok []
  end.

(* b[pos:pos+size] *)
Definition slice_chk (site : N) (b : bytes) (pos size : N) : res bytes :=
  if pos + size <=? lenN b then Ok (firstn (N.to_nat size) (skipn (N.to_nat pos) b))
  else Panic site.

(* the "more complete access unit" loop *)
Fixpoint aac_multi (rate base : N) (b : bytes) (i : N) (aus : list (N * N)) : res (list avout) :=
  match aus with
  | [] => Ok []
  | (size, pos) :: t =>
      if rate =? 0 then Panic site_aac_divide else
      let ts := base + u32 (i * 1024000 / rate) in
      let* pl := slice_chk site_aac_slice b pos size in
      let* r := aac_multi rate base b (i + 1) t in
      Ok ((ts, pl) :: r)
  end.

(* continuation packets of a fragmented access unit.
   cnt = packetCount so far, cache = bytes collected so far.
   The pinned tree started the count at 0 (the first fragment was unlinked
   but not subtracted from list.Size); the current tree starts at 1. *)
Fixpoint aac_frag (rate total ts0 prev_seq : N) (l : list upkt) (acc : list bytes) (cache : N) (cnt : Z)
  : res (option unpacked) :=
  match l with
  | [] => Ok None
  | p :: t =>
      let cnt := (cnt + 1)%Z in
      if negb (sub_seq (u_seq p) prev_seq =? 1)%Z then Ok None
      else if negb (u_ts p =? ts0) then Ok None
      else
        let* aus := parse_au (u_body p) in
        match aus with
        | [(size, pos)] =>
            if negb (size =? total) then Ok None
            else if lenN (u_body p) <? pos then Panic site_aac_slice
            else
              let part := skipn (N.to_nat pos) (u_body p) in
              let cache := cache + lenN part in
              if cache <? total then aac_frag rate total ts0 (u_seq p) t (part :: acc) cache cnt
              else if cache =? total then
                let* ts := out_ts site_aac_divide rate (u_ts p) in
                Ok (Some ([(ts, concat (rev (part :: acc)))], u_seq p, t, cnt))
              else Ok None
        | _ => Ok None
        end
  end.

Definition try_unpack_aac (rate : N) (l : list upkt) : res (option unpacked) :=
  match l with
  | [] => Ok None
  | p :: rest =>
      let b := u_body p in
      let* aus := parse_au b in
      match aus with
      | [(size, pos)] =>
          if lenN b <? pos then Panic site_aac_slice
          else
            let avail := skipn (N.to_nat pos) b in
            if size <=? lenN avail then
              let* ts := out_ts site_aac_divide rate (u_ts p) in
              Ok (Some ([(ts, firstn (N.to_nat size) avail)], u_seq p, rest, 1%Z))
            else aac_frag rate size (u_ts p) (u_seq p) rest [avail] (lenN avail) 1%Z
      | _ =>
          let* outs :=
             match aus with
             | [] => Ok []
             | _ => let* base := out_ts site_aac_divide rate (u_ts p) in aac_multi rate base b 0 aus
             end in
          Ok (Some (outs, u_seq p, rest, 1%Z))
      end
  end.

Definition try_unpack_raw (rate : N) (l : list upkt) : res (option unpacked) :=
  match l with
  | [] => Ok None
  | p :: rest =>
      let* ts := out_ts site_raw_divide rate (u_ts p) in
      Ok (Some ([(ts, u_body p)], u_seq p, rest, 1%Z))
  end.

Definition try_unpack_one (pr : proto) (rate : N) (l : list upkt) : res (option unpacked) :=
  match pr with
  | PAvc => try_unpack_video Avc rate l
  | PHevc => try_unpack_video Hevc rate l
  | PAac => try_unpack_aac rate l
  | PRaw => try_unpack_raw rate l
  end.
