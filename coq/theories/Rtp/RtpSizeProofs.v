(* RtpPacketList.Size is the length of the list, for every protocol and every
   (also hostile) arrival sequence.  On the pinned tree this failed for
   fragmented AAC access units. *)
From Coq Require Import List Arith NArith ZArith Lia ZifyN ZifyNat ZifyBool.
From Lal Require Import Common.LBytes Common.Res Rtp.RtpSeqArith Rtp.RtpPacker Rtp.RtpUnpacker Rtp.RtpReorder.
Import ListNotations.
Local Open Scope nat_scope.

Definition dec_ok (l : list upkt) (r : res (option unpacked)) : Prop :=
  match r with
  | Ok (Some (_, _, rest, dec)) => (Z.of_nat (length l) - dec = Z.of_nat (length rest))%Z /\ length rest < length l
  | _ => True
  end.

Lemma bind_dec_ok {A} l (x : res A) f : (forall a, x = Ok a -> dec_ok l (f a)) -> dec_ok l (bind x f).
Proof. destruct x; cbn; auto. Qed.

Lemma fu_collect_len skip : forall l prev acc chunks pend rest,
  fu_collect skip prev l acc = Some (chunks, pend, rest) ->
  length chunks + length rest = length acc + length l /\ length rest < length l.
Proof.
  induction l as [|p t IH]; intros prev acc chunks pend rest H; cbn [fu_collect] in H; [discriminate|].
  destruct (sub_seq (u_seq p) prev =? 1)%Z; [|discriminate].
  destruct (u_pos p =? pos_fu_middle)%N.
  - apply IH in H. cbn [length] in *. lia.
  - destruct (u_pos p =? pos_fu_end)%N; [|discriminate]. injection H as E1 E2 E3. subst chunks pend rest.
    rewrite app_length, rev_length. cbn [length]. unfold bytes in *. lia.
Qed.

Lemma video_dec_ok c rate l : dec_ok l (try_unpack_video c rate l).
Proof.
  unfold try_unpack_video. destruct l as [|first rest]; [exact I|].
  destruct (u_pos first =? pos_single)%N.
  { apply bind_dec_ok. intros ts _. cbn [dec_ok length]. lia. }
  destruct ((u_pos first =? pos_stapa)%N || (u_pos first =? pos_ap)%N).
  { apply bind_dec_ok. intros ts _.
    destruct (length (u_body first) <? (if (u_pos first =? pos_stapa)%N then 1 else 2)); [exact I|].
    destruct (parse_aggr _ _); [|exact I]. cbn [dec_ok length]. lia. }
  destruct (u_pos first =? pos_fu_start)%N; [|exact I].
  destruct (fu_collect _ _ rest _) as [[[chunks pend] rest']|] eqn:E; [|exact I].
  apply fu_collect_len in E. cbn [length] in E.
  apply bind_dec_ok. intros ts _. cbn [dec_ok length]. lia.
Qed.

Lemma aac_frag_dec_ok rate total ts0 : forall l prev acc cache cnt l0,
  (0 <= cnt)%Z -> (Z.of_nat (length l0) = cnt + Z.of_nat (length l))%Z ->
  dec_ok l0 (aac_frag rate total ts0 prev l acc cache cnt).
Proof.
  induction l as [|p t IH]; intros prev acc cache cnt l0 Hc H; cbn [aac_frag]; [exact I|].
  destruct (negb (sub_seq (u_seq p) prev =? 1)%Z); [exact I|].
  destruct (negb (u_ts p =? ts0)%N); [exact I|].
  apply bind_dec_ok. intros aus _.
  destruct aus as [|[size pos] [|? ?]]; try exact I.
  destruct (negb (size =? total)%N); [exact I|].
  destruct (lenN (u_body p) <? pos)%N; [exact I|].
  destruct (cache + lenN (skipn (N.to_nat pos) (u_body p)) <? total)%N.
  - apply IH; [lia|]. cbn [length] in H. lia.
  - destruct (cache + lenN (skipn (N.to_nat pos) (u_body p)) =? total)%N; [|exact I].
    apply bind_dec_ok. intros ts _. cbn [dec_ok length] in *. lia.
Qed.

Lemma aac_dec_ok rate l : dec_ok l (try_unpack_aac rate l).
Proof.
  unfold try_unpack_aac. destruct l as [|p rest]; [exact I|].
  apply bind_dec_ok. intros aus _.
  destruct aus as [|[size pos] [|a2 aus']].
  - cbn [bind dec_ok length]. lia.
  - destruct (lenN (u_body p) <? pos)%N; [exact I|].
    destruct (size <=? lenN (skipn (N.to_nat pos) (u_body p)))%N.
    + apply bind_dec_ok. intros ts _. cbn [dec_ok length]. lia.
    + apply aac_frag_dec_ok; [lia|]. cbn [length]. lia.
  - apply bind_dec_ok. intros outs _. cbn [dec_ok length]. lia.
Qed.

Lemma try_unpack_one_dec_ok pr rate l : dec_ok l (try_unpack_one pr rate l).
Proof.
  destruct pr; cbn [try_unpack_one]; [apply video_dec_ok|apply video_dec_ok|apply aac_dec_ok|].
  unfold try_unpack_raw. destruct l as [|p rest]; [exact I|].
  apply bind_dec_ok. intros ts _. cbn [dec_ok length]. lia.
Qed.

Definition size_ok (st : cstate) : Prop := c_size st = Z.of_nat (length (c_items st)).

Lemma try_one_size pr rate st st' o :
  size_ok st -> try_one pr rate st = Ok (Some (st', o)) ->
  size_ok st' /\ length (c_items st') < length (c_items st).
Proof.
  unfold try_one, size_ok. intros Hs H. pose proof (try_unpack_one_dec_ok pr rate (c_items st)) as D.
  destruct (try_unpack_one pr rate (c_items st)) as [[[[[outs sq] rest] dec]|]| |]; cbn [bind] in H; try discriminate.
  injection H as <- <-. cbn [dec_ok c_size c_items] in *. lia.
Qed.

Lemma seq_loop_size pr rate : forall fuel st st' o any,
  size_ok st -> seq_loop fuel pr rate st = Ok (st', o, any) -> size_ok st'.
Proof.
  induction fuel as [|f IH]; intros st st' o any Hs H; cbn [seq_loop] in H; [discriminate|].
  destruct (is_first_sequential st).
  - destruct (try_one pr rate st) as [[[st1 o1]|]| |] eqn:E; cbn [bind] in H; try discriminate.
    + destruct (try_one_size pr rate st st1 o1 Hs E) as [Hs1 _].
      destruct (seq_loop f pr rate st1) as [[[st2 o2] any2]| |] eqn:E2; cbn [bind] in H; try discriminate.
      injection H as <- <- <-. eapply IH; eauto.
    + injection H as <- <- <-. assumption.
  - injection H as <- <- <-. assumption.
Qed.

Lemma insert_length p : forall l, length (fst (insert p l)) = if snd (insert p l) then S (length l) else length l.
Proof.
  induction l as [|e t IH]; [reflexivity|]. cbn [insert].
  destruct (compare_seq (u_seq p) (u_seq e) =? 0)%Z; [reflexivity|].
  destruct (compare_seq (u_seq p) (u_seq e) =? 1)%Z; [|reflexivity].
  destruct (insert p t) as [t' b]. cbn [fst snd length] in *. destruct b; lia.
Qed.

Lemma feed_size pr rate w st sq ts body st' o :
  size_ok st -> feed pr rate w st sq ts body = Ok (st', o) -> size_ok st'.
Proof.
  intros Hs H. unfold feed in H. destruct (is_stale st sq); [injection H as <- <-; assumption|].
  destruct (calc_position pr body) as [pos| |]; cbn [bind] in H; try discriminate.
  pose proof (insert_length (mk_upkt sq ts body pos) (c_items st)) as HL.
  destruct (insert (mk_upkt sq ts body pos) (c_items st)) as [items ins]. cbn [fst snd] in HL.
  set (st1 := mk_cstate items (if ins then (c_size st + 1)%Z else c_size st) (c_flag st) (c_done st)) in H.
  assert (Hs1 : size_ok st1).
  { unfold size_ok, st1 in *. cbn [c_size c_items]. destruct ins; lia. }
  destruct (seq_loop (S (length items)) pr rate st1) as [[[st2 o2] any]| |] eqn:E; cbn [bind] in H; try discriminate.
  pose proof (seq_loop_size pr rate _ _ _ _ _ Hs1 E) as Hs2.
  destruct any; [injection H as <- <-; assumption|].
  destruct (w <=? c_size st2)%Z; [|injection H as <- <-; assumption].
  destruct (try_one pr rate st2) as [[[st3 o3]|]| |] eqn:E3; cbn [bind] in H; try discriminate.
  - destruct (try_one_size pr rate st2 st3 o3 Hs2 E3) as [Hs3 _].
    destruct (seq_loop (S (length (c_items st3))) pr rate st3) as [[[st4 o4] any4]| |] eqn:E4; cbn [bind] in H; try discriminate.
    injection H as <- <-. eapply seq_loop_size; eauto.
  - unfold size_ok in *. destruct (c_items st2) as [|x t] eqn:Ei; [discriminate|].
    injection H as <- <-. cbn [c_size c_items length] in *. lia.
Qed.

Theorem feed_all_size pr rate w : forall arr st st' o,
  size_ok st -> feed_all pr rate w st arr = Ok (st', o) -> size_ok st'.
Proof.
  induction arr as [|[[sq ts] body] t IH]; intros st st' o Hs H; cbn [feed_all] in H.
  - injection H as <- <-. assumption.
  - destruct (feed pr rate w st sq ts body) as [[st1 o1]| |] eqn:E; cbn [bind] in H; try discriminate.
    destruct (feed_all pr rate w st1 t) as [[st2 o2]| |] eqn:E2; cbn [bind] in H; try discriminate.
    injection H as <- <-. eapply IH; [|exact E2]. eapply feed_size; eauto.
Qed.

(* pinned tree: the fragmented path started packetCount at 0 *)
Local Open Scope N_scope.
Lemma aac_frag_pinned_refuted :
  exists l o sq rest dec,
    aac_frag 44100 10 1024 0
      [mk_upkt 1 1024 [0; 16; 0; 80; 238; 255; 0; 17; 34; 51] 0] [[170; 187; 204; 221]] 4 0%Z
      = Ok (Some (o, sq, rest, dec)) /\
    l = [mk_upkt 0 1024 [0; 16; 0; 80; 170; 187; 204; 221] 0; mk_upkt 1 1024 [0; 16; 0; 80; 238; 255; 0; 17; 34; 51] 0] /\
    (Z.of_nat (length l) - dec <> Z.of_nat (length rest))%Z.
Proof. do 5 eexists. split; [vm_compute; reflexivity|]. split; [reflexivity|]. vm_compute. discriminate. Qed.
