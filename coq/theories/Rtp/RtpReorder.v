(* Model of rtp_packet_list.go (IsStale, Insert, PopFirst, Full,
   IsFirstSequential, SetDoneSeq) and rtp_unpack_container.go (Feed,
   tryUnpackOneSequential, tryUnpackOne).  No proofs in this file. *)
From Lal Require Import Common.LBytes Common.Res Rtp.RtpSeqArith Rtp.RtpPacker Rtp.RtpUnpacker.
Open Scope N_scope.

(* RtpPacketList: the linked list, Size (kept separately by the Go code),
   doneSeqFlag, doneSeq.  maxSize is a parameter of feed. *)
Record cstate := mk_cstate { c_items : list upkt; c_size : Z; c_flag : bool; c_done : N }.

Definition c_init : cstate := mk_cstate [] 0 false 0.

(* IsStale *)
Definition is_stale (st : cstate) (seq : N) : bool :=
  c_flag st && (compare_seq seq (c_done st) <=? 0)%Z.

(* Insert: sorted insert with duplicate drop; the boolean says whether the
   packet was linked in (Size++) *)
Fixpoint insert (p : upkt) (l : list upkt) : list upkt * bool :=
  match l with
  | [] => ([p], true)
  | e :: t =>
      let r := compare_seq (u_seq p) (u_seq e) in
      if (r =? 0)%Z then (l, false)
      else if (r =? 1)%Z then (let (t', b) := insert p t in (e :: t', b))
      else (p :: l, true)
  end.

(* IsFirstSequential *)
Definition is_first_sequential (st : cstate) : bool :=
  match c_items st with
  | [] => false
  | p :: _ => if c_flag st then (sub_seq (u_seq p) (c_done st) =? 1)%Z else true
  end.

(* tryUnpackOne: protocol TryUnpackOne + SetDoneSeq *)
Definition try_one (pr : proto) (rate : N) (st : cstate) : res (option (cstate * list avout)) :=
  let* r := try_unpack_one pr rate (c_items st) in
  match r with
  | None => Ok None
  | Some (outs, sq, rest, dec) => Ok (Some (mk_cstate rest (c_size st - dec) true sq, outs))
  end.

(* for { if !tryUnpackOneSequential() break; count++ }.
   Every success unlinks at least one packet: fuel = S (length items). *)
Fixpoint seq_loop (fuel : nat) (pr : proto) (rate : N) (st : cstate) : res (cstate * list avout * bool) :=
  match fuel with
  | O => Err err_out_of_fuel
  | S f =>
      if is_first_sequential st then
        let* r := try_one pr rate st in
        match r with
        | None => Ok (st, [], false)
        | Some (st', o) =>
            let* r' := seq_loop f pr rate st' in
            let '(st'', o', _) := r' in
            Ok (st'', o ++ o', true)
        end
      else Ok (st, [], false)
  end.

(* RtpUnpackContainer.Feed; w = maxSize; the packet arrives without a
   position *)
Definition feed (pr : proto) (rate : N) (w : Z) (st : cstate) (seq ts : N) (body : bytes)
  : res (cstate * list avout) :=
  if is_stale st seq then Ok (st, [])
  else
    let* pos := calc_position pr body in
    let (items, ins) := insert (mk_upkt seq ts body pos) (c_items st) in
    let st1 := mk_cstate items (if ins then c_size st + 1 else c_size st)%Z (c_flag st) (c_done st) in
    let* r := seq_loop (S (length items)) pr rate st1 in
    let '(st2, o2, any) := r in
    if any then Ok (st2, o2)
    else if (w <=? c_size st2)%Z then
      let* r3 := try_one pr rate st2 in
      match r3 with
      | None =>
          match c_items st2 with
          | [] => Panic site_popfirst_nil
          | _ :: t => Ok (mk_cstate t (c_size st2 - 1) (c_flag st2) (c_done st2), [])
          end
      | Some (st3, o3) =>
          let* r4 := seq_loop (S (length (c_items st3))) pr rate st3 in
          let '(st4, o4, _) := r4 in
          Ok (st4, o3 ++ o4)
      end
    else Ok (st2, []).

(* a whole arrival sequence *)
Fixpoint feed_all (pr : proto) (rate : N) (w : Z) (st : cstate) (arr : list (N * N * bytes))
  : res (cstate * list avout) :=
  match arr with
  | [] => Ok (st, [])
  | (seq, ts, body) :: t =>
      let* r := feed pr rate w st seq ts body in
      let (st', o) := r in
      let* r' := feed_all pr rate w st' t in
      let (st'', o') := r' in
      Ok (st'', o ++ o')
  end.

(* packets of the packer as arrivals *)
Definition arrival_of (p : rtp_packet) : N * N * bytes := (rp_seq p, rp_ts p, rp_payload p).
