(* The C19 record parsers, as the fan-out uses them after the two hevc crash
   fixes, never panic on a non-empty payload; instantiation of the generic
   no-panic result for the model the drivers run. *)
From Lal Require Import Common.LBytes Common.Res Media.MediaMsgChecked Media.MediaMsgProofs Media.MediaDummyAudio Media.MediaDummyProofs
  Media.MediaTsRemux Media.MediaTsProofs Media.MediaRtspRemux Media.MediaRtspProofs Media.MediaBroadcast Media.MediaBroadcastProofs
  Media.MediaCodecGlue Media.MediaCostProofs Media.MediaAmortProofs.
From Lal Require Import Codec.CodecBits Codec.CodecSpsAvc Codec.CodecSpsHevc Codec.CodecAvcSeqHeader Codec.CodecHevcSeqHeader Codec.CodecPadProofs.
From Coq Require Import Lia ZifyN ZifyNat ZifyBool.
Open Scope N_scope.

(* ---- avc ---------------------------------------------------------------------- *)
Lemma avc_parse_no_panic p : no_panic (avc_parse_seq_header p).
Proof.
  intro s. unfold avc_parse_seq_header.
  repeat match goal with |- (if ?c then _ else _) <> _ => destruct c; try discriminate end.
Qed.

Lemma read_ps_list_no_panic cnt : forall p, no_panic (read_ps_list cnt p).
Proof.
  induction cnt as [|k IH]; intros p s; cbn [read_ps_list]; [discriminate|].
  destruct (split_exact 2 p) as [[l2 r]|]; [|discriminate].
  destruct (split_exactN (be_get l2) r) as [[item r']|]; [|discriminate].
  specialize (IH r'). destruct (read_ps_list k r') as [[items r'']|e|s']; cbn [bind]; try discriminate.
  exfalso. exact (IH s' eq_refl).
Qed.

Lemma avc_sh2annexb_no_panic p : no_panic (avc_seq_header2annexb p).
Proof.
  intro s. unfold avc_seq_header2annexb, avc_parse_seq_header_list.
  destruct (lenN p <? 5); [discriminate|]. destruct (negb _); [discriminate|].
  destruct (split_exact 10 p) as [[x r]|]; [|discriminate].
  destruct r as [|b r1]; [discriminate|].
  pose proof (read_ps_list_no_panic (N.to_nat (N.land b 31)) r1) as H1.
  destruct (read_ps_list (N.to_nat (N.land b 31)) r1) as [[spss r2]|e|s1]; cbn [bind]; [|discriminate|exfalso; exact (H1 s1 eq_refl)].
  destruct r2 as [|b2 r3]; [discriminate|].
  pose proof (read_ps_list_no_panic (N.to_nat b2) r3) as H2.
  destruct (read_ps_list (N.to_nat b2) r3) as [[ppss r4]|e|s2]; cbn [bind]; [discriminate|discriminate|exfalso; exact (H2 s2 eq_refl)].
Qed.

(* ---- hevc, fixed ---------------------------------------------------------------- *)
Lemma hidx_ok p i : i < lenN p -> exists b, CodecHevcSeqHeader.idx p i = Ok b.
Proof.
  intro H. unfold CodecHevcSeqHeader.idx. destruct (nth_error p (N.to_nat i)) eqn:E; [eexists; reflexivity|].
  apply nth_error_None in E. unfold lenN in H. lia.
Qed.

Lemma u16_at_ok p i : i + 1 < lenN p -> exists v, u16_at p i = Ok v.
Proof.
  intro H. unfold u16_at. destruct (hidx_ok p i) as [a ->]; [lia|]. destruct (hidx_ok p (i + 1)) as [b ->]; [lia|].
  cbn [bind]. eexists. reflexivity.
Qed.

Lemma slice_chk_ok p a b : a <= b -> b <= lenN p -> exists d, slice_chk p a b = Ok d.
Proof.
  intros H1 H2. unfold slice_chk. apply N.leb_le in H1. apply N.leb_le in H2. rewrite H1, H2. eexists; reflexivity.
Qed.

(* one array whose 5 header bytes are inside the payload *)
Lemma hevc_record_array_no_panic p index typ need :
  index + 4 < lenN p -> need = index + 5 -> no_panic (hevc_record_array p index typ need).
Proof.
  intros Hlen Hneed s. unfold hevc_record_array.
  destruct (hidx_ok p index) as [t ->]; [lia|]. cbn [bind].
  destruct (negb _); [discriminate|].
  destruct (u16_at_ok p (index + 1)) as [n ->]; [lia|]. cbn [bind].
  destruct (negb _); [discriminate|].
  destruct (u16_at_ok p (index + 3)) as [l ->]; [lia|]. cbn [bind].
  destruct (lenN p <? need + l) eqn:E; [discriminate|]. apply N.ltb_ge in E.
  destruct (slice_chk_ok p (index + 5) (index + 5 + l)) as [d ->]; [lia|lia|]. discriminate.
Qed.

Lemma hevc_record_array_len p index typ need d l :
  hevc_record_array p index typ need = Ok (d, l) -> need + l <= lenN p.
Proof.
  unfold hevc_record_array.
  destruct (CodecHevcSeqHeader.idx p index); cbn [bind]; try discriminate.
  destruct (negb _); [discriminate|].
  destruct (u16_at p (index + 1)); cbn [bind]; try discriminate.
  destruct (negb _); [discriminate|].
  destruct (u16_at p (index + 3)) as [l0| |]; cbn [bind]; try discriminate.
  destruct (lenN p <? need + l0) eqn:E; [discriminate|]. apply N.ltb_ge in E.
  destruct (slice_chk p (index + 5) (index + 5 + l0)); cbn [bind]; try discriminate.
  intro H. inversion H; subst. exact E.
Qed.

Lemma hevc_record_fixed_no_panic p : no_panic (hevc_parse_record_f true p).
Proof.
  intro s. unfold hevc_parse_record_f. cbn [andb].
  destruct (lenN p <? 33) eqn:L; [discriminate|]. apply N.ltb_ge in L.
  destruct (hidx_ok p 27) as [na ->]; [lia|]. cbn [bind].
  destruct (negb _); [discriminate|].
  pose proof (hevc_record_array_no_panic p 28 32 33 ltac:(lia) eq_refl) as H1.
  destruct (hevc_record_array p 28 32 33) as [[vps vl]|e|s1] eqn:E1; cbn [bind]; [|discriminate|exfalso; exact (H1 s1 eq_refl)].
  destruct (lenN p <? 38 + vl) eqn:L2; [discriminate|]. apply N.ltb_ge in L2.
  pose proof (hevc_record_array_no_panic p (33 + vl) 33 (38 + vl) ltac:(lia) ltac:(lia)) as H2.
  destruct (hevc_record_array p (33 + vl) 33 (38 + vl)) as [[sps sl]|e|s2] eqn:E2; cbn [bind]; [|discriminate|exfalso; exact (H2 s2 eq_refl)].
  destruct (lenN p <? 43 + vl + sl) eqn:L3; [discriminate|]. apply N.ltb_ge in L3.
  pose proof (hevc_record_array_no_panic p (38 + vl + sl) 34 (43 + vl + sl) ltac:(lia) ltac:(lia)) as H3.
  destruct (hevc_record_array p (38 + vl + sl) 34 (43 + vl + sl)) as [[pps pl]|e|s3] eqn:E3; cbn [bind]; [discriminate|discriminate|exfalso; exact (H3 s3 eq_refl)].
Qed.

Lemma hevc_annexb_fixed_no_panic fuel : forall p i acc, no_panic (hevc_annexb_loop true fuel p i acc).
Proof.
  induction fuel as [|f IH]; intros p i acc s; cbn [hevc_annexb_loop].
  - destruct (negb _); discriminate.
  - destruct (negb _); [discriminate|].
    destruct (index_sc4 (skipn (N.to_nat i) p) 0) as [start|]; [|discriminate].
    match goal with |- context [firstn ?n ?l] => destruct (firstn n l) as [|b t] end.
    + apply IH.
    + destruct acc as [[v sq] q]. apply IH.
Qed.

Lemma hevc_parse_fixed_no_panic p : no_panic (hevc_parse_seq_header_f true p).
Proof.
  intro s. unfold hevc_parse_seq_header_f.
  destruct (lenN p <? 5); [discriminate|]. destruct (negb _); [discriminate|]. destruct (lenN p <? 33); [discriminate|].
  pose proof (hevc_record_fixed_no_panic p) as H1.
  destruct (hevc_parse_record_f true p) as [x|e|s1]; [discriminate| |exfalso; exact (H1 s1 eq_refl)].
  unfold hevc_parse_annexb_record_f.
  pose proof (hevc_annexb_fixed_no_panic (length p) p 0 ([], [], [])) as H2.
  destruct (hevc_annexb_loop true (length p) p 0 ([], [], [])) as [[[v sq] q]|e2|s2]; cbn [bind]; [|discriminate|exfalso; exact (H2 s2 eq_refl)].
  destruct v; [discriminate|]. destruct sq; [discriminate|]. destruct q; discriminate.
Qed.

Lemma hevc_parse_enh_fixed_no_panic p : (1 <= length p)%nat -> no_panic (hevc_parse_enhanced_seq_header_f true p).
Proof.
  intros Hne s. unfold hevc_parse_enhanced_seq_header_f.
  destruct (hidx_ok p 0) as [b ->]; [unfold lenN; lia|]. cbn [bind].
  destruct (_ =? 0); [apply hevc_record_fixed_no_panic|discriminate].
Qed.

Lemma glue_annexb3_no_panic r : no_panic r -> no_panic (glue_annexb3 r).
Proof. intros H s. unfold glue_annexb3. destruct r as [[[v sq] q]|e|s1]; cbn [bind]; [discriminate|discriminate|]. exfalso. exact (H s1 eq_refl). Qed.

(* the remuxers call the record parsers on payloads longer than 5 bytes only; the
   generic proofs ask for all payloads, so the enhanced parser is wrapped *)
Lemma glue_rf_safe : rf_safe (glue_rf fixes_all).
Proof.
  intros p Hne. cbn [glue_rf rf_avc_parse rf_hevc_parse rf_hevc_parse_enh]. unfold glue_hevc_parse, glue_hevc_parse_enh. cbn [fx_hevc fixes_all].
  split; [apply avc_parse_no_panic|]. split; [apply hevc_parse_fixed_no_panic|apply hevc_parse_enh_fixed_no_panic; exact Hne].
Qed.

Lemma glue_cf_safe : cf_safe (glue_cf fixes_all).
Proof.
  intros p Hne. cbn [glue_cf cf_avc_sh2annexb cf_hevc_sh2annexb cf_hevc_esh2annexb]. unfold glue_hevc_parse, glue_hevc_parse_enh. cbn [fx_hevc fixes_all].
  split; [apply avc_sh2annexb_no_panic|]. split; apply glue_annexb3_no_panic; [apply hevc_parse_fixed_no_panic|apply hevc_parse_enh_fixed_no_panic; exact Hne].
Qed.

Lemma fixes_all_ok : fx_all_ok fixes_all.
Proof. repeat split. Qed.

(* the model the drivers run: no history step panics or runs out of fuel *)
Lemma m_grun_no_panic c l :
  Forall (ev_ok (glue_rf fixes_all) (glue_sf fixes_all)) l ->
  snd (m_grun fixes_all c l) = None.
Proof.
  intros Hl. unfold m_grun.
  apply (grun_ok fixes_all (glue_cf fixes_all) (glue_rf fixes_all) (glue_sf fixes_all) cfg_fixed c fixes_all_ok glue_cf_safe glue_rf_safe l grp_init 0).
  - apply ginv_init.
  - exact Hl.
Qed.

(* ---- the statements Properties/C05.v closes ---------------------------------- *)
(* a well-framed message: 32-bit timestamp (type and payload are arbitrary) *)
Definition well_framed (m : mmsg) : Prop := mm_ts m < 4294967296.

(* after the F-13 repair avc/hevc.ParseSps return (a value or an error) on every byte string *)
Lemma glue_avc_dims_ok sps : is_ok (glue_avc_dims fixes_all sps).
Proof.
  unfold glue_avc_dims. cbn [fx_pad fixes_all]. fold parse_sps_avc.
  destruct (parse_sps_avc_total sps) as [[ctx ->]|[e [-> He]]]; [eexists; reflexivity|].
  apply N.eqb_neq in He. rewrite He. eexists; reflexivity.
Qed.
Lemma glue_hevc_dims_ok sps : is_ok (glue_hevc_dims fixes_all sps).
Proof.
  unfold glue_hevc_dims. cbn [fx_pad fixes_all]. fold hevc_parse_sps.
  destruct (hevc_parse_sps_total sps []) as [[c ->]|[e [-> He]]]; [eexists; reflexivity|].
  apply N.eqb_neq in He. rewrite He. eexists; reflexivity.
Qed.
Lemma glue_stat_safe m : stat_safe (glue_rf fixes_all) (glue_sf fixes_all) m.
Proof. intros _. repeat split; intros; first [apply glue_avc_dims_ok | apply glue_hevc_dims_ok]. Qed.

Lemma no_panic_main (c : grp_cfg) (history : list gev) :
  (forall m, In (GPub m) history -> well_framed m) ->
  snd (m_grun fixes_all c history) = None.
Proof.
  intros H. apply m_grun_no_panic.
  apply Forall_forall. intros e He. destruct e as [m| | | |]; cbn; try exact I.
  split; [apply glue_stat_safe|exact (H m He)].
Qed.

(* amortised work of a whole history on the model the drivers run *)
Lemma bounded_work_main (c : grp_cfg) (history : list gev) :
  (forall m, In (GPub m) history -> well_framed m) ->
  exists tot, m_gtotal fixes_all c history = Some tot /\
              tot <= (11 + joins_count history) * pubs_cost history
                     + (10 + joins_count history) * 4293 * pubs_count history.
Proof.
  intros H. unfold m_gtotal.
  destruct (gtotal_amort fixes_all (glue_cf fixes_all) (glue_rf fixes_all) (glue_sf fixes_all) cfg_fixed c fixes_all_ok glue_cf_safe glue_rf_safe
              (10 + joins_count history) history grp_init) as (tot & E & Hle).
  - apply ginv_init.
  - apply Forall_forall. intros e He. destruct e as [m| | | |]; cbn; try exact I.
    split; [apply glue_stat_safe|exact (H m He)].
  - change (fan grp_init) with 8. lia.
  - exists tot. split; [exact E|].
    assert (P0 : phi (10 + joins_count history) grp_init = 0) by (unfold phi; vm_compute pending; change (dW (g_dummy grp_init)) with 0; lia).
    rewrite P0 in Hle. unfold fill_cost in Hle.
    replace (10 + joins_count history + 1) with (11 + joins_count history) in Hle by lia. lia.
Qed.
