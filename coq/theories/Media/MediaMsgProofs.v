(* Totality of the checked message helpers after the fixes, and the exact
   conditions under which the unguarded ones are defined. *)
From Lal Require Import Common.LBytes Common.Res Media.MediaMsgChecked.
From Coq Require Import Lia ZifyN ZifyNat ZifyBool.
Open Scope N_scope.

Definition no_panic {A} (r : res A) : Prop := forall s, r <> Panic s.
Definition is_ok {A} (r : res A) : Prop := exists a, r = Ok a.

Lemma is_ok_no_panic {A} (r : res A) : is_ok r -> no_panic r.
Proof. intros [a ->] s. discriminate. Qed.

Lemma idx_ok site p i : (i < length p)%nat -> is_ok (idx site p i).
Proof.
  intro H. unfold idx. destruct (nth_error p i) eqn:E; [eexists; reflexivity|].
  apply nth_error_None in E. lia.
Qed.

Lemma from_ok site p n : (n <= length p)%nat -> from site p n = Ok (skipn n p).
Proof. intro H. unfold from. destruct (Nat.leb n (length p)) eqn:E; [reflexivity|]. apply Nat.leb_gt in E. lia. Qed.

Lemma short_false p n : short p n = false -> (n <= length p)%nat.
Proof. unfold short. intro H. apply Nat.ltb_ge in H. exact H. Qed.
Lemma short_true p n : short p n = true -> (length p < n)%nat.
Proof. unfold short. intro H. apply Nat.ltb_lt in H. exact H. Qed.

Lemma byte_is_ok site p i v : (i < length p)%nat -> is_ok (byte_is site p i v).
Proof. intro H. unfold byte_is. destruct (idx_ok site p i H) as [b ->]. eexists; reflexivity. Qed.

Lemma andr_ok a b : is_ok a -> is_ok b -> is_ok (andr a b).
Proof. intros [x ->] [y ->]. unfold andr. cbn. destruct x; eexists; reflexivity. Qed.
Lemma orr_ok a b : is_ok a -> is_ok b -> is_ok (orr a b).
Proof. intros [x ->] [y ->]. unfold orr. cbn. destruct x; eexists; reflexivity. Qed.

Lemma hvc1_at_ok site p : (5 <= length p)%nat -> is_ok (hvc1_at site p).
Proof.
  intro H. unfold hvc1_at.
  repeat (apply andr_ok; [apply byte_is_ok; lia|]). apply byte_is_ok; lia.
Qed.

Lemma be24_ok q : (3 <= length q)%nat -> is_ok (be24 q).
Proof.
  intro H. unfold be24.
  destruct (idx_ok s_be24 q 2) as [b2 ->]; [lia|].
  destruct (idx_ok s_be24 q 1) as [b1 ->]; [lia|].
  destruct (idx_ok s_be24 q 0) as [b0 ->]; [lia|]. eexists; reflexivity.
Qed.

(* ---- the helpers fixed by C05 are total ---------------------------------- *)
Section Fixed.
Variable fx : fixes.

Lemma avcsh_total m : fx_avcsh fx = true -> is_ok (is_avc_key_seq_header fx m).
Proof.
  intro F. unfold is_avc_key_seq_header. rewrite F.
  destruct (negb (mm_type m =? t_video)); [eexists; reflexivity|].
  cbn [andb]. destruct (short (mm_pay m) 2) eqn:S; [eexists; reflexivity|].
  apply short_false in S. apply andr_ok; apply byte_is_ok; lia.
Qed.

Lemma hevcsh_total m : fx_hevcsh fx = true -> is_ok (is_hevc_key_seq_header fx m).
Proof.
  intro F. unfold is_hevc_key_seq_header. rewrite F.
  destruct (negb (mm_type m =? t_video)); [eexists; reflexivity|].
  cbn [andb]. destruct (short (mm_pay m) 1) eqn:S1; [eexists; reflexivity|].
  apply short_false in S1.
  destruct (idx_ok s_hevcsh (mm_pay m) 0) as [b0 ->]; [lia|]. cbn [bind].
  destruct (is_ext b0).
  - destruct (short (mm_pay m) 5) eqn:S5; [eexists; reflexivity|]. apply short_false in S5.
    apply andr_ok; [apply hvc1_at_ok; lia|eexists; reflexivity].
  - destruct (short (mm_pay m) 2) eqn:S2; [eexists; reflexivity|]. apply short_false in S2.
    apply andr_ok; [eexists; reflexivity|apply byte_is_ok; lia].
Qed.

Lemma vsh_total m : fx_avcsh fx = true -> fx_hevcsh fx = true -> is_ok (is_video_key_seq_header fx m).
Proof. intros. apply orr_ok; [now apply avcsh_total|now apply hevcsh_total]. Qed.

Lemma avckn_total m : fx_avckn fx = true -> is_ok (is_avc_key_nalu fx m).
Proof.
  intro F. unfold is_avc_key_nalu. rewrite F.
  destruct (negb (mm_type m =? t_video)); [eexists; reflexivity|].
  cbn [andb]. destruct (short (mm_pay m) 2) eqn:S; [eexists; reflexivity|].
  apply short_false in S. apply andr_ok; apply byte_is_ok; lia.
Qed.

Lemma hevckn_total m : fx_hevckn fx = true -> is_ok (is_hevc_key_nalu fx m).
Proof.
  intro F. unfold is_hevc_key_nalu. rewrite F.
  destruct (negb (mm_type m =? t_video)); [eexists; reflexivity|].
  cbn [andb]. destruct (short (mm_pay m) 1) eqn:S1; [eexists; reflexivity|].
  apply short_false in S1.
  destruct (idx_ok s_hevckn (mm_pay m) 0) as [b0 ->]; [lia|]. cbn [bind].
  destruct (is_ext b0); [eexists; reflexivity|].
  destruct (short (mm_pay m) 2) eqn:S2; [eexists; reflexivity|]. apply short_false in S2.
  apply andr_ok; [eexists; reflexivity|apply byte_is_ok; lia].
Qed.

Lemma vkn_total m : fx_avckn fx = true -> fx_hevckn fx = true -> is_ok (is_video_key_nalu fx m).
Proof. intros. apply orr_ok; [now apply avckn_total|now apply hevckn_total]. Qed.

Lemma acid_ok m : (1 <= length (mm_pay m))%nat -> is_ok (audio_codec_id m).
Proof.
  intro H. unfold audio_codec_id. destruct (idx_ok s_acid (mm_pay m) 0) as [b ->]; [lia|]. eexists; reflexivity.
Qed.

Lemma aacsh_total m : fx_aacsh fx = true -> is_ok (is_aac_seq_header fx m).
Proof.
  intro F. unfold is_aac_seq_header. rewrite F.
  destruct (negb (mm_type m =? t_audio)); [eexists; reflexivity|].
  cbn [andb]. destruct (short (mm_pay m) 2) eqn:S; [eexists; reflexivity|].
  apply short_false in S. apply andr_ok; [|apply byte_is_ok; lia].
  destruct (acid_ok m) as [c ->]; [lia|]. eexists; reflexivity.
Qed.

Lemma vcid_total m : fx_vcid fx = true -> is_ok (video_codec_id fx m).
Proof.
  intro F. unfold video_codec_id. rewrite F. cbn [andb].
  destruct (short (mm_pay m) 1) eqn:S1; [eexists; reflexivity|]. apply short_false in S1.
  destruct (idx_ok s_vcid (mm_pay m) 0) as [b0 ->]; [lia|]. cbn [bind].
  destruct (negb (is_ext b0)); [eexists; reflexivity|].
  destruct (short (mm_pay m) 5) eqn:S5; [eexists; reflexivity|]. apply short_false in S5.
  destruct (hvc1_at_ok s_vcid (mm_pay m)) as [h ->]; [lia|]. eexists; reflexivity.
Qed.
End Fixed.

Lemma avcsh_true_video fx m : is_avc_key_seq_header fx m = Ok true -> mm_type m = t_video.
Proof.
  unfold is_avc_key_seq_header. destruct (mm_type m =? t_video) eqn:T; cbn [negb]; [|discriminate].
  intros _. now apply N.eqb_eq.
Qed.
Lemma hevcsh_true_video fx m : is_hevc_key_seq_header fx m = Ok true -> mm_type m = t_video.
Proof.
  unfold is_hevc_key_seq_header. destruct (mm_type m =? t_video) eqn:T; cbn [negb]; [|discriminate].
  intros _. now apply N.eqb_eq.
Qed.
Lemma aacsh_true_audio fx m : is_aac_seq_header fx m = Ok true -> mm_type m = t_audio.
Proof.
  unfold is_aac_seq_header. destruct (mm_type m =? t_audio) eqn:T; cbn [negb]; [|discriminate].
  intros _. now apply N.eqb_eq.
Qed.

(* ---- the unguarded helpers: defined on a non-empty payload ----------------- *)
Lemma enh_ok m : (1 <= length (mm_pay m))%nat -> is_ok (is_enhanced m).
Proof. intro H. unfold is_enhanced. destruct (idx_ok s_enh (mm_pay m) 0) as [b ->]; [lia|]. eexists; reflexivity. Qed.
Lemma enhn_ok m : (1 <= length (mm_pay m))%nat -> is_ok (is_enhanced_hevc_nalu m).
Proof. intro H. unfold is_enhanced_hevc_nalu. destruct (idx_ok s_enhn (mm_pay m) 0) as [b ->]; [lia|]. eexists; reflexivity. Qed.
Lemma enhi_ok m : (1 <= length (mm_pay m))%nat -> exists i, enhanced_hevc_nalu_index m = Ok i /\ (i = 0 \/ i = 5 \/ i = 8)%nat.
Proof.
  intro H. unfold enhanced_hevc_nalu_index. destruct (idx_ok s_enhi (mm_pay m) 0) as [b ->]; [lia|]. cbn [bind].
  eexists; split; [reflexivity|]. destruct (is_ext b); [|lia]. destruct (b mod 16 =? 1); [lia|]. destruct (b mod 16 =? 3); lia.
Qed.

Lemma enhi_of_enhn m i : is_enhanced_hevc_nalu m = Ok true -> enhanced_hevc_nalu_index m = Ok i -> (i = 5 \/ i = 8)%nat.
Proof.
  unfold is_enhanced_hevc_nalu, enhanced_hevc_nalu_index, idx.
  destruct (nth_error (mm_pay m) 0) as [b|]; cbn [bind]; [|discriminate].
  intros H1 H2. inversion H1 as [E]. inversion H2 as [E2]. clear H1 H2.
  destruct (is_ext b); cbn [andb] in E; [|discriminate].
  destruct (b mod 16 =? 1); [right; reflexivity|]. cbn [orb] in E. rewrite E. left; reflexivity.
Qed.

(* Cts: 5 bytes are enough for the classic header, 8 for enhanced CodedFrames *)
Lemma cts_ok m : (8 <= length (mm_pay m))%nat -> is_ok (cts m).
Proof.
  intro H. unfold cts.
  assert (F2 : from s_cts_slice (mm_pay m) 2 = Ok (skipn 2 (mm_pay m))) by (apply from_ok; lia).
  assert (F5 : from s_cts_slice (mm_pay m) 5 = Ok (skipn 5 (mm_pay m))) by (apply from_ok; lia).
  assert (B2 : is_ok (be24 (skipn 2 (mm_pay m)))) by (apply be24_ok; rewrite skipn_length; lia).
  assert (B5 : is_ok (be24 (skipn 5 (mm_pay m)))) by (apply be24_ok; rewrite skipn_length; lia).
  destruct (mm_type m =? t_audio); [rewrite F2; exact B2|].
  destruct (idx_ok s_cts_index (mm_pay m) 0) as [b ->]; [lia|]. cbn [bind].
  destruct (is_ext b).
  - destruct (b mod 16 =? 1); [rewrite F5; exact B5|eexists; reflexivity].
  - rewrite F2; exact B2.
Qed.

(* the classic (non-enhanced, or enhanced but not CodedFrames) header needs 5 bytes only *)
Lemma cts_ok5 m b0 :
  (5 <= length (mm_pay m))%nat -> idx s_cts_index (mm_pay m) 0 = Ok b0 ->
  (is_ext b0 && (b0 mod 16 =? 1)) = false -> is_ok (cts m).
Proof.
  intros H Hb Hc. unfold cts.
  assert (F2 : from s_cts_slice (mm_pay m) 2 = Ok (skipn 2 (mm_pay m))) by (apply from_ok; lia).
  assert (B2 : is_ok (be24 (skipn 2 (mm_pay m)))) by (apply be24_ok; rewrite skipn_length; lia).
  destruct (mm_type m =? t_audio); [rewrite F2; exact B2|].
  rewrite Hb. cbn [bind]. destruct (is_ext b0); cbn [andb] in Hc.
  - rewrite Hc. eexists; reflexivity.
  - rewrite F2; exact B2.
Qed.
