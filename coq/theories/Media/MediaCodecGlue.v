(* The codec functions the fan-out calls on a published payload, taken from the
   C19 models (coq/theories/Codec), with the two hevc record-parser fixes of C05
   selected by [fixes]:
     fx_hevcrec     parseVpsSpsPpsFromRecord refuses len(payload) < 33 (ErrHevc)
     fx_hevcannexb  parseVpsSpsPpsAnnexbFromRecord skips an empty nalu
   No proofs here. *)
From Lal Require Export Media.MediaMsgChecked Media.MediaTsRemux Media.MediaRtspRemux Media.MediaBroadcast.
From Lal Require Export Codec.CodecBits Codec.CodecSpsAvc Codec.CodecSpsHevc Codec.CodecAvcSeqHeader Codec.CodecHevcSeqHeader.
Open Scope N_scope.

(* parseVpsSpsPpsFromRecord *)
Definition glue_hevc_record (fx : fixes) (p : bytes) : res (bytes * bytes * bytes) :=
  if fx_hevcrec fx && (lenN p <? 33) then Err err_hevc else hevc_parse_record p.

(* parseVpsSpsPpsAnnexbFromRecord, the C19 loop with the empty-nalu case selected by [skip] *)
Fixpoint glue_annexb_loop (skip : bool) (fuel : nat) (p : bytes) (i : N) (acc : bytes * bytes * bytes)
  : res (bytes * bytes * bytes) :=
  if negb (i + 4 <? lenN p) then Ok acc
  else match fuel with
  | O => Err err_out_of_fuel
  | S f =>
    match index_sc4 (skipn (N.to_nat i) p) 0 with
    | None => Ok acc
    | Some start =>
      let i := i + start in
      let e := match index_sc4 (skipn (N.to_nat (i + 4)) p) 0 with
               | Some k => k + 4
               | None => lenN p - i
               end in
      let nal := firstn (N.to_nat (e - 4)) (skipn (N.to_nat (i + 4)) p) in
      match nal with
      | [] => if skip then glue_annexb_loop skip f p (i + e) acc else Panic site_hevc_annexb_nal0
      | b :: _ =>
        let typ := N.land b 126 / 2 in
        let '(v, s, q) := acc in
        let acc' := if typ =? 32 then (v ++ nal, s, q)
                    else if typ =? 33 then (v, s ++ nal, q)
                    else if typ =? 34 then (v, s, q ++ nal)
                    else acc in
        glue_annexb_loop skip f p (i + e) acc'
      end
    end
  end.

Definition glue_hevc_annexb (fx : fixes) (p : bytes) : res (bytes * bytes * bytes) :=
  let* (v, s, q) := glue_annexb_loop (fx_hevcannexb fx) (length p) p 0 ([], [], []) in
  match v, s, q with
  | _ :: _, _ :: _, _ :: _ => Ok (v, s, q)
  | _, _, _ => Err err_hevc
  end.

(* ParseVpsSpsPpsFromSeqHeader(WithoutMalloc) *)
Definition glue_hevc_parse (fx : fixes) (p : bytes) : res (bytes * bytes * bytes) :=
  if lenN p <? 5 then Err err_short
  else if negb ((nth 0 p 0 =? 28) && (nth 1 p 0 =? 0) && (nth 2 p 0 =? 0)
                && (nth 3 p 0 =? 0) && (nth 4 p 0 =? 0)) then Err err_hevc
  else if lenN p <? 33 then Err err_hevc
  else match glue_hevc_record fx p with
       | Err _ => glue_hevc_annexb fx p
       | r => r
       end.

(* ParseVpsSpsPpsFromEnhancedSeqHeader *)
Definition glue_hevc_parse_enh (fx : fixes) (p : bytes) : res (bytes * bytes * bytes) :=
  let* b := CodecHevcSeqHeader.idx p 0 in
  if N.land b 15 =? 0 then glue_hevc_record fx p else Err err_hevc.

Definition glue_annexb3 (r : res (bytes * bytes * bytes)) : res bytes :=
  let* (v, s, q) := r in Ok (hsc4 ++ v ++ hsc4 ++ s ++ hsc4 ++ q).

Definition glue_cf (fx : fixes) : codec_fns :=
  mk_codec avc_seq_header2annexb
           (fun p => glue_annexb3 (glue_hevc_parse fx p))
           (fun p => glue_annexb3 (glue_hevc_parse_enh fx p)).

Definition glue_rf (fx : fixes) : rec_fns :=
  mk_rec avc_parse_seq_header (glue_hevc_parse fx) (glue_hevc_parse_enh fx).

(* avc.ParseSps on the sps of the sequence header: ctx.Width, ctx.Height *)
Definition glue_avc_dims (sps : bytes) : res (option (N * N)) :=
  match parse_sps_avc sps with
  | Ok c => Ok (Some (ac_width c, ac_height c))
  | Err e => if e =? err_out_of_fuel then Err e else Ok None
  | Panic s => Panic s
  end.

(* hevc.ParseSps into a zero Context: ctx.Width, ctx.Height *)
Definition glue_hevc_dims (sps : bytes) : res (option (N * N)) :=
  match hevc_parse_sps sps [] with
  | Ok l => Ok (Some (sps_get H_outw l, sps_get H_outh l))
  | Err e => if e =? err_out_of_fuel then Err e else Ok None
  | Panic s => Panic s
  end.

Definition glue_sf : sps_fns := mk_sps glue_avc_dims glue_hevc_dims.

(* the instances the drivers run *)
Definition m_ts_feed (fx : fixes) := ts_feed fx (glue_cf fx).
Definition m_rtsp_feed (fx : fixes) (add : bool) := rtsp_feed fx (glue_rf fx) cfg_fixed add.
Definition m_grun (fx : fixes) (c : grp_cfg) (l : list gev) : N * option N :=
  grun fx (glue_cf fx) (glue_rf fx) glue_sf cfg_fixed c grp_init l 0.
Definition m_gstep (fx : fixes) (c : grp_cfg) := gstep fx (glue_cf fx) (glue_rf fx) glue_sf cfg_fixed c.
