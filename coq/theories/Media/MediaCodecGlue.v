(* The codec functions the fan-out calls on a published payload, taken from the
   C19 models (coq/theories/Codec); [fx_hevc] selects the hevc record parsers
   before / after the two crash fixes of C05, [fx_pad] the SPS parsers before / after the F-13 repair.  No proofs here. *)
From Lal Require Export Media.MediaMsgChecked Media.MediaTsRemux Media.MediaRtspRemux Media.MediaBroadcast.
From Lal Require Export Codec.CodecBits Codec.CodecSpsAvc Codec.CodecSpsHevc Codec.CodecAvcSeqHeader Codec.CodecHevcSeqHeader.
Open Scope N_scope.

Definition glue_hevc_parse (fx : fixes) : bytes -> res (bytes * bytes * bytes) := hevc_parse_seq_header_f (fx_hevc fx).
Definition glue_hevc_parse_enh (fx : fixes) : bytes -> res (bytes * bytes * bytes) := hevc_parse_enhanced_seq_header_f (fx_hevc fx).

Definition glue_annexb3 (r : res (bytes * bytes * bytes)) : res bytes :=
  let* (v, s, q) := r in Ok (hsc4 ++ v ++ hsc4 ++ s ++ hsc4 ++ q).

Definition glue_cf (fx : fixes) : codec_fns :=
  mk_codec avc_seq_header2annexb
           (fun p => glue_annexb3 (glue_hevc_parse fx p))
           (fun p => glue_annexb3 (glue_hevc_parse_enh fx p)).

Definition glue_rf (fx : fixes) : rec_fns :=
  mk_rec avc_parse_seq_header (glue_hevc_parse fx) (glue_hevc_parse_enh fx).

(* avc.ParseSps on the sps of the sequence header: ctx.Width, ctx.Height *)
Definition glue_avc_dims (fx : fixes) (sps : bytes) : res (option (N * N)) :=
  match parse_sps_avc_f (fx_pad fx) sps with
  | Ok c => Ok (Some (ac_width c, ac_height c))
  | Err e => if e =? err_out_of_fuel then Err e else Ok None
  | Panic s => Panic s
  end.

(* hevc.ParseSps into a zero Context: ctx.Width, ctx.Height *)
Definition glue_hevc_dims (fx : fixes) (sps : bytes) : res (option (N * N)) :=
  match hevc_parse_sps_f (fx_pad fx) sps [] with
  | Ok l => Ok (Some (sps_get H_outw l, sps_get H_outh l))
  | Err e => if e =? err_out_of_fuel then Err e else Ok None
  | Panic s => Panic s
  end.

Definition glue_sf (fx : fixes) : sps_fns := mk_sps (glue_avc_dims fx) (glue_hevc_dims fx).

(* the instances the drivers run *)
Definition m_ts_feed (fx : fixes) := ts_feed fx (glue_cf fx).
Definition m_rtsp_feed (fx : fixes) (add : bool) := rtsp_feed fx (glue_rf fx) cfg_fixed add.
Definition m_grun (fx : fixes) (c : grp_cfg) (l : list gev) : N * option N :=
  grun fx (glue_cf fx) (glue_rf fx) (glue_sf fx) cfg_fixed c grp_init l 0.
Definition m_gstep (fx : fixes) (c : grp_cfg) := gstep fx (glue_cf fx) (glue_rf fx) (glue_sf fx) cfg_fixed c.
Definition m_gfinal (fx : fixes) (c : grp_cfg) (l : list gev) : option grp_st :=
  gfinal fx (glue_cf fx) (glue_rf fx) (glue_sf fx) cfg_fixed c grp_init l.
Definition m_gtotal (fx : fixes) (c : grp_cfg) (l : list gev) : option N :=
  gtotal fx (glue_cf fx) (glue_rf fx) (glue_sf fx) cfg_fixed c grp_init l.
