(* CHECKED versions of the RTMP message helpers of pkg/base/t_rtmp.go: every
   index / slice expression on the payload is a checked accessor that yields
   [Panic site] exactly when Go panics, and [&&] short-circuits as in Go.
   [fixes] selects, site by site, between the pinned code (false) and the code
   after the corresponding `fix:` commit (true).  No proofs here. *)
From Lal Require Export Common.LBytes Common.Res.
Open Scope N_scope.

Record fixes := mk_fixes {
  fx_avcsh : bool;      (* RtmpMsg.IsAvcKeySeqHeader checks len >= 2 *)
  fx_hevcsh : bool;     (* RtmpMsg.IsHevcKeySeqHeader checks len >= 1 / 5 / 2 *)
  fx_avckn : bool;      (* RtmpMsg.IsAvcKeyNalu checks len >= 2 *)
  fx_hevckn : bool;     (* RtmpMsg.IsHevcKeyNalu checks len >= 1 / 2 *)
  fx_aacsh : bool;      (* RtmpMsg.IsAacSeqHeader checks len >= 2 *)
  fx_vcid : bool;       (* RtmpMsg.VideoCodecId checks len >= 1 / 5 *)
  fx_tsidx : bool;      (* Rtmp2MpegtsRemuxer.feedVideo checks len > nalu index *)
  fx_rtspidx : bool;    (* Rtmp2RtspRemuxer.remux checks len > nalu index *)
  fx_hevc : bool;       (* hevc.parseVpsSpsPpsFromRecord checks len >= 33, parseVpsSpsPpsAnnexbFromRecord skips an empty nalu
                           (two fix commits, one flag: the C19 model has one `fixed` parameter for both) *)
  fx_dummy : bool;      (* DummyAudioFilter fills at most 10 s per message, 64-bit compare *)
  fx_pad : bool;        (* avc.ParseSps / hevc.ParseSps hand nazabits the RBSP copy with one zero byte appended (F-13) *)
  fx_bound : bool;      (* rtprtcp.IsAvcBoundary / IsHevcBoundary check the body length (C13's fix; F-45 from the publish side) *)
  fx_addflag : bool     (* Rtmp2RtspRemuxer.remux with RtspRemuxerAddSpsPps2KeyFrameFlag: first nalu = payload[4:], guarded (F-46) *)
}.
Definition fixes_pinned : fixes := mk_fixes false false false false false false false false false false false false false.
Definition fixes_all : fixes := mk_fixes true true true true true true true true true true true true true.

Record mmsg := mk_mmsg { mm_type : N; mm_ts : N; mm_pay : bytes }.

Definition t_audio : N := 8.
Definition t_video : N := 9.
Definition t_meta : N := 18.

(* panic sites; the drivers print them as panic@<pkg.Func>:<kind> *)
Definition s_avcsh : N := 101.     (* base.RtmpMsg.IsAvcKeySeqHeader:index *)
Definition s_hevcsh : N := 102.    (* base.RtmpMsg.IsHevcKeySeqHeader:index *)
Definition s_enh : N := 103.       (* base.RtmpMsg.IsEnhanced:index *)
Definition s_avckn : N := 104.     (* base.RtmpMsg.IsAvcKeyNalu:index *)
Definition s_hevckn : N := 105.    (* base.RtmpMsg.IsHevcKeyNalu:index *)
Definition s_enhn : N := 106.      (* base.RtmpMsg.IsEnchanedHevcNalu:index *)
Definition s_enhi : N := 107.      (* base.RtmpMsg.GetEnchanedHevcNaluIndex:index *)
Definition s_aacsh : N := 108.     (* base.RtmpMsg.IsAacSeqHeader:index *)
Definition s_vcid : N := 109.      (* base.RtmpMsg.VideoCodecId:index *)
Definition s_acid : N := 110.      (* base.RtmpMsg.AudioCodecId:index *)
Definition s_cts_slice : N := 111. (* base.RtmpMsg.Cts:slice *)
Definition s_cts_index : N := 112. (* base.RtmpMsg.Cts:index *)
Definition s_be24 : N := 113.      (* bele.BeUint24:index *)
Definition s_pts_slice : N := 114. (* base.RtmpMsg.Pts:slice *)
Definition s_ts_feedvideo : N := 115.  (* remux.Rtmp2MpegtsRemuxer.feedVideo:slice *)
Definition s_rtsp_remux : N := 116.    (* remux.Rtmp2RtspRemuxer.remux:slice *)
Definition s_ts_push : N := 117.       (* remux.rtmp2MpegtsFilter.Push:index *)
Definition s_avc_boundary : N := 120.   (* rtprtcp.IsAvcBoundary:index *)
Definition s_hevc_boundary : N := 121.  (* rtprtcp.IsHevcBoundary:index *)
Definition s_ts_onpop : N := 118.      (* an index inside onPop/feedAudio that the guards make unreachable *)

(* p[i] *)
Definition idx (site : N) (p : bytes) (i : nat) : res N :=
  match nth_error p i with Some b => Ok b | None => Panic site end.
(* p[n:] *)
Definition from (site : N) (p : bytes) (n : nat) : res bytes :=
  if Nat.leb n (length p) then Ok (skipn n p) else Panic site.
(* bele.BeUint24(q) = uint32(q[2]) | uint32(q[1])<<8 | uint32(q[0])<<16 *)
Definition be24 (q : bytes) : res N :=
  let* b2 := idx s_be24 q 2 in
  let* b1 := idx s_be24 q 1 in
  let* b0 := idx s_be24 q 0 in
  Ok (b0 * 65536 + b1 * 256 + b2).

Definition is_ext (b0 : N) : bool := 128 <=? b0.     (* b0 & 0x80 != 0 *)
Definition short (p : bytes) (n : nat) : bool := Nat.ltb (length p) n.   (* len(p) < n *)

(* a && b with Go's evaluation order *)
Definition andr (a : res bool) (b : res bool) : res bool :=
  let* x := a in if x then b else Ok false.
Definition orr (a : res bool) (b : res bool) : res bool :=
  let* x := a in if x then Ok true else b.
Definition byte_is (site : N) (p : bytes) (i : nat) (v : N) : res bool :=
  let* b := idx site p i in Ok (b =? v).

(* Payload[1]=='h' && Payload[2]=='v' && Payload[3]=='c' && Payload[4]=='1' *)
Definition hvc1_at (site : N) (p : bytes) : res bool :=
  andr (byte_is site p 1 104) (andr (byte_is site p 2 118) (andr (byte_is site p 3 99) (byte_is site p 4 49))).

Definition is_avc_key_seq_header (fx : fixes) (m : mmsg) : res bool :=
  let p := mm_pay m in
  if negb (mm_type m =? t_video) then Ok false
  else if fx_avcsh fx && short p 2 then Ok false
  else andr (byte_is s_avcsh p 0 23) (byte_is s_avcsh p 1 0).

Definition is_hevc_key_seq_header (fx : fixes) (m : mmsg) : res bool :=
  let p := mm_pay m in
  if negb (mm_type m =? t_video) then Ok false
  else if fx_hevcsh fx && short p 1 then Ok false
  else
    let* b0 := idx s_hevcsh p 0 in
    if is_ext b0 then
      if fx_hevcsh fx && short p 5 then Ok false
      else andr (hvc1_at s_hevcsh p) (Ok (b0 mod 16 =? 0))
    else
      if fx_hevcsh fx && short p 2 then Ok false
      else andr (Ok (b0 =? 28)) (byte_is s_hevcsh p 1 0).

Definition is_enhanced (m : mmsg) : res bool :=
  let* b0 := idx s_enh (mm_pay m) 0 in Ok (is_ext b0).

Definition is_video_key_seq_header (fx : fixes) (m : mmsg) : res bool :=
  orr (is_avc_key_seq_header fx m) (is_hevc_key_seq_header fx m).

Definition is_avc_key_nalu (fx : fixes) (m : mmsg) : res bool :=
  let p := mm_pay m in
  if negb (mm_type m =? t_video) then Ok false
  else if fx_avckn fx && short p 2 then Ok false
  else andr (byte_is s_avckn p 0 23) (byte_is s_avckn p 1 1).

Definition is_hevc_key_nalu (fx : fixes) (m : mmsg) : res bool :=
  let p := mm_pay m in
  if negb (mm_type m =? t_video) then Ok false
  else if fx_hevckn fx && short p 1 then Ok false
  else
    let* b0 := idx s_hevckn p 0 in
    if is_ext b0 then Ok (((b0 / 16) mod 8 =? 1) && negb (b0 mod 16 =? 0))
    else
      if fx_hevckn fx && short p 2 then Ok false
      else andr (Ok (b0 =? 28)) (byte_is s_hevckn p 1 1).

Definition is_video_key_nalu (fx : fixes) (m : mmsg) : res bool :=
  orr (is_avc_key_nalu fx m) (is_hevc_key_nalu fx m).

Definition is_enhanced_hevc_nalu (m : mmsg) : res bool :=
  let* b0 := idx s_enhn (mm_pay m) 0 in
  Ok (is_ext b0 && ((b0 mod 16 =? 1) || (b0 mod 16 =? 3))).

Definition enhanced_hevc_nalu_index (m : mmsg) : res nat :=
  let* b0 := idx s_enhi (mm_pay m) 0 in
  Ok (if is_ext b0 then (if b0 mod 16 =? 1 then 8%nat else if b0 mod 16 =? 3 then 5%nat else 0%nat) else 0%nat).

Definition audio_codec_id (m : mmsg) : res N :=
  let* b0 := idx s_acid (mm_pay m) 0 in Ok (b0 / 16).

Definition is_aac_seq_header (fx : fixes) (m : mmsg) : res bool :=
  let p := mm_pay m in
  if negb (mm_type m =? t_audio) then Ok false
  else if fx_aacsh fx && short p 2 then Ok false
  else andr (let* c := audio_codec_id m in Ok (c =? 10)) (byte_is s_aacsh p 1 0).

Definition codec_avc : N := 7.
Definition codec_hevc : N := 12.

Definition video_codec_id (fx : fixes) (m : mmsg) : res N :=
  let p := mm_pay m in
  if fx_vcid fx && short p 1 then Ok 0
  else
    let* b0 := idx s_vcid p 0 in
    if negb (is_ext b0) then Ok (b0 mod 16)
    else if fx_vcid fx && short p 5 then Ok 0
    else let* h := hvc1_at s_vcid p in Ok (if h then codec_hevc else codec_avc).

(* Cts *)
Definition cts (m : mmsg) : res N :=
  let p := mm_pay m in
  if mm_type m =? t_audio then let* q := from s_cts_slice p 2 in be24 q
  else
    let* b0 := idx s_cts_index p 0 in
    if is_ext b0 then
      if b0 mod 16 =? 1 then let* q := from s_cts_slice p 5 in be24 q
      else Ok 0
    else let* q := from s_cts_slice p 2 in be24 q.

(* Pts = TimestampAbs + BeUint24(Payload[2:]) in uint32 *)
Definition pts (m : mmsg) : res N :=
  let* q := from s_pts_slice (mm_pay m) 2 in
  let* c := be24 q in Ok ((mm_ts m + c) mod 4294967296).
