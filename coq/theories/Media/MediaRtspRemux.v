(* pkg/remux/rtmp2rtsp.go: Rtmp2RtspRemuxer.FeedRtmpMsg / doAnalyze / remux with
   the packet counts of pkg/rtprtcp's payload packers.  sdp.Pack and the RTP
   header serialisation are not modelled (C12 / C19): the observable is "the SDP
   callback fired" and the number of RTP packets per message.  No proofs here. *)
From Lal Require Export Media.MediaMsgChecked Media.MediaTsRemux Rtmp.RtmpAmf0 Rtmp.RtmpMetadata.
Open Scope N_scope.

(* sequence-header record parsers, plugged in from the codec models *)
Record rec_fns := mk_rec {
  rf_avc_parse : bytes -> res (bytes * bytes);            (* avc.ParseSpsPpsFromSeqHeader *)
  rf_hevc_parse : bytes -> res (bytes * bytes * bytes);   (* hevc.ParseVpsSpsPpsFromSeqHeader *)
  rf_hevc_parse_enh : bytes -> res (bytes * bytes * bytes) (* hevc.ParseVpsSpsPpsFromEnhancedSeqHeader *)
}.

(* base.AvPacketPt *)
Definition pt_unknown : N := 0.
Definition pt_g711u : N := 1.   (* only distinctness matters *)
Definition pt_g711a : N := 2.
Definition pt_opus : N := 3.
Definition pt_aac : N := 4.
Definition pt_avc : N := 5.
Definition pt_hevc : N := 6.

Record rtsp_st := mk_rtsp {
  rs_done : bool;                 (* analyzeDone *)
  rs_cache : list mmsg;           (* msgCache *)
  rs_vps : option bytes;          (* nil / non-nil: append(nil, empty...) stays nil *)
  rs_sps : option bytes;
  rs_pps : option bytes;
  rs_asc : option bytes;
  rs_audio_pt : N;
  rs_video_pt : N;
  rs_apacker : option N;          (* audio packer created, with the payload kind it was created for *)
  rs_vpacker : bool
}.
Definition rtsp_init : rtsp_st := mk_rtsp false [] None None None None pt_unknown pt_unknown None false.

Definition nz (b : bytes) : option bytes := match b with [] => None | _ => Some b end.

(* uint8(float64) of an AMF0 number (bit pattern): exact for |x| < 2^31,
   0 otherwise (amd64 conversion of an out-of-range value) *)
Definition f64_to_u8 (bits : N) : N :=
  let sign := bits / 9223372036854775808 in
  let e := (bits / 4503599627370496) mod 2048 in
  let frac := bits mod 4503599627370496 in
  if e <? 1023 then 0
  else if 1023 + 31 <=? e then 0
  else
    let m := 4503599627370496 + frac in           (* 1.frac * 2^52 *)
    let v := m / 2 ^ (1075 - e) in                (* e - 1023 <= 30 < 52 *)
    if sign =? 0 then v mod 256 else (256 - v mod 256) mod 256.

Definition k_audiocodecid : bytes := [97; 117; 100; 105; 111; 99; 111; 100; 101; 99; 105; 100].

(* RevSdp valid kind: the SDP callback fired; valid = sdp.Pack made a description (RawSdp non-nil), kind = the
   video payload type the parsed description announces (0 none / other, 1 avc, 2 hevc).
   RevRtp l: the RTP payloads (packet bodies behind the 12-byte header) handed to onRtpPacket, in order,
   each with its track (true = the video packer's payload type, false = the audio packer's) *)
Inductive rtsp_ev : Type := RevSdp (valid : bool) (kind : N) | RevRtp (l : list (bool * bytes)).

(* RtpPackerPayloadAvcHevc.PackNal, maxSize 1200: the payloads made of one nal *)
Definition rtp_max : N := 1200.

(* FU header bytes; [se] = 128 start / 64 end / 0 *)
Definition fu_header (hevc : bool) (b0 b1 se : N) : bytes :=
  if hevc then [N.lor 98 (N.land b0 129); b1; N.lor ((b0 / 2) mod 64) se]
  else [N.lor 28 (N.land b0 96); N.lor (b0 mod 32) se].

Fixpoint fu_loop (fuel : nat) (hevc : bool) (b0 b1 : N) (first : bool) (rest : bytes) : list bytes :=
  match fuel with
  | O => []
  | S f =>
    let chunk := rtp_max - (if hevc then 3 else 2) in
    if chunk <? lenN rest then
      (fu_header hevc b0 b1 (if first then 128 else 0) ++ firstn (N.to_nat chunk) rest)
        :: fu_loop f hevc b0 b1 false (skipn (N.to_nat chunk) rest)
    else [fu_header hevc b0 b1 64 ++ rest]
  end.

Definition nal_payloads (hevc : bool) (nal : bytes) : list bytes :=
  if lenN nal <=? rtp_max then [nal]
  else fu_loop (length nal) hevc (nth 0 nal 0) (nth 1 nal 0) true (skipn (if hevc then 2 else 1) nal).

(* RtpPackerPayloadAvcHevc.Pack with Typ = Avcc *)
Definition video_payloads (hevc : bool) (payload : bytes) : res (list bytes) :=
  match split_avcc payload with
  | Panic s => Panic s
  | Err e => if e =? err_out_of_fuel then Err e else Ok []
  | Ok nals =>
    Ok (flat_map (fun nal =>
          let b0 := hd 0 nal in
          let aud := if hevc then hevc_nal_type b0 =? 35 else avc_nal_type b0 =? 9 in
          if aud then [] else nal_payloads hevc nal) nals)
  end.

(* RtpPackerPayloadAac.Pack: AU-headers-length 16, one 13+3 bit AU header, the frame *)
Definition aac_payload (data : bytes) : bytes :=
  [0; 16; (lenN data / 32) mod 256; ((lenN data mod 32) * 8) mod 256] ++ data.

(* getAudioPacker: Some kind when a packer exists after the call *)
Definition rtsp_audio_packer (s : rtsp_st) : rtsp_st * bool :=
  match rs_apacker s with
  | Some _ => (s, true)
  | None =>
    let mk := fun k => (mk_rtsp (rs_done s) (rs_cache s) (rs_vps s) (rs_sps s) (rs_pps s) (rs_asc s) (rs_audio_pt s) (rs_video_pt s) (Some k) (rs_vpacker s), true) in
    if (rs_audio_pt s =? pt_g711a) || (rs_audio_pt s =? pt_g711u) then mk 1
    else if rs_audio_pt s =? pt_opus then mk 2
    else if rs_audio_pt s =? pt_aac then
      match rs_asc s with
      | None => (s, false)
      | Some asc => if short asc 2 then (s, false) else mk 3
      end
    else (s, false)
  end.

(* remux: number of RTP packets handed to onRtpPacket.  [add] =
   RtspRemuxerAddSpsPps2KeyFrameFlag (the key-frame rewrite slices Payload[9:]) *)
(* RtspRemuxerAddSpsPps2KeyFrameFlag: a key frame is re-packed as sps, pps (vps, sps, pps), first nalu.  [tail] = the
   first nalu's data as the code takes it (evaluated only where Go evaluates it; both tests are made, the second
   assignment wins) *)
Definition join_avcc (l : list bytes) : bytes := flat_map (fun x => be_put 4 (lenN x) ++ x) l.
Definition rtsp_add_spspps (fx : fixes) (s : rtsp_st) (m : mmsg) (payload : bytes) (tail : res bytes) : res bytes :=
  let get := fun (o : option bytes) => match o with Some x => x | None => [] end in
  let* ak := is_avc_key_nalu fx m in
  let* pa := (if ak && (match rs_pps s with Some _ => true | None => false end) then
                let* t := tail in Ok (join_avcc [get (rs_sps s); get (rs_pps s); t])
              else Ok payload) in
  let* hk := is_hevc_key_nalu fx m in
  match hk, rs_vps s, rs_pps s with
  | true, Some v, Some q => let* t := tail in Ok (join_avcc [v; get (rs_sps s); q; t])
  | _, _, _ => Ok pa
  end.

Definition s_rtsp_remux9 : N := 119.   (* remux.Rtmp2RtspRemuxer.remux:slice, Payload[9:] *)

Definition rtsp_remux (fx : fixes) (add : bool) (s : rtsp_st) (m : mmsg) : res (rtsp_st * list (bool * bytes)) :=
  let p := mm_pay m in
  if mm_type m =? t_audio then
    let '(s1, has) := rtsp_audio_packer s in
    if negb has then Ok (s1, [])
    else
      let* c := audio_codec_id m in
      let raw := (c =? 7) || (c =? 8) || (c =? 13) in
      let* data := (if raw then from s_rtsp_remux p 1 else from s_rtsp_remux p 2) in
      (* the packer was chosen by r.audioPt when it was created: aac wraps the data in an AU header *)
      Ok (s1, [(false, if match rs_apacker s1 with Some 3 => true | _ => false end then aac_payload data else data)])
  else if mm_type m =? t_video then
    match rs_sps s with
    | None => Ok (s, [])
    | Some _ =>
      let s1 := mk_rtsp (rs_done s) (rs_cache s) (rs_vps s) (rs_sps s) (rs_pps s) (rs_asc s) (rs_audio_pt s) (rs_video_pt s) (rs_apacker s) true in
      let* codec := video_codec_id fx m in
      let* en := (if codec =? codec_hevc then is_enhanced_hevc_nalu m else Ok false) in
      let* index := (if en then enhanced_hevc_nalu_index m else Ok 5%nat) in
      if fx_rtspidx fx && en && Nat.leb (length p) index then Ok (s1, [])
      else
        let* payload := from s_rtsp_remux p index in
        let* payload2 :=
          (if add then
             if fx_addflag fx then
               (* after the F-46 repair: the first nalu is payload[4:]; a key frame too short to hold a nalu length goes on unchanged *)
               if Nat.leb (length payload) 4 then Ok payload
               else rtsp_add_spspps fx s m payload (Ok (skipn 4 payload))
             else rtsp_add_spspps fx s m payload (from s_rtsp_remux9 p 9)
           else Ok payload) in
        (* the packer was created for r.videoPt: anything but AvPacketPtAvc packs as hevc *)
        let* n := video_payloads (negb (rs_video_pt s =? pt_avc)) payload2 in
        Ok (s1, map (pair true) n)
    end
  else Ok (s, []).

Fixpoint rtsp_remux_all (fx : fixes) (add : bool) (s : rtsp_st) (l : list mmsg) (acc : list (bool * bytes)) : res (rtsp_st * list (bool * bytes)) :=
  match l with
  | [] => Ok (s, acc)
  | m :: t => let* (s', n) := rtsp_remux fx add s m in rtsp_remux_all fx add s' t (acc ++ n)
  end.

Definition rtsp_max_analyze : nat := 16.

Definition rtsp_enough (s : rtsp_st) : bool :=
  (match rs_sps s, rs_pps s with
   | Some _, Some _ => (match rs_asc s with Some _ => true | None => false end) || negb (rs_audio_pt s =? pt_unknown)
   | _, _ => false
   end) || Nat.leb rtsp_max_analyze (length (rs_cache s)).

(* aac.AscContext.GetSamplingFrequency fails for index > 12 *)
Definition asc_sfi (asc : bytes) : N :=
  ((nth 0 asc 0 mod 8) * 2 + nth 1 asc 0 / 128).

(* sdp.Pack(videoInfo, audioInfo) + ParseSdp2LogicContext of its own text: is there a description at all, and
   which video payload type does it announce (0 none, 1 avc, 2 hevc) *)
Definition sdp_desc (s : rtsp_st) : bool * N :=
  let some := fun (o : option bytes) => match o with Some _ => true | None => false end in
  let vkind := if rs_video_pt s =? pt_avc then (if some (rs_sps s) && some (rs_pps s) then 1 else 0)
               else if rs_video_pt s =? pt_hevc then (if some (rs_sps s) && some (rs_pps s) && some (rs_vps s) then 2 else 0)
               else 0 in
  let has_audio := if rs_audio_pt s =? pt_aac then some (rs_asc s)
                   else (rs_audio_pt s =? pt_g711a) || (rs_audio_pt s =? pt_g711u) || (rs_audio_pt s =? pt_opus) in
  (negb (vkind =? 0) || has_audio, vkind).

(* doAnalyze *)
Definition rtsp_do_analyze (fx : fixes) (add : bool) (s : rtsp_st) : res (rtsp_st * list rtsp_ev) :=
  if negb (rtsp_enough s) then Ok (s, [])
  else
    let vpt := match rs_sps s, rs_pps s with
               | Some _, Some _ => (match rs_vps s with Some _ => pt_hevc | None => pt_avc end)
               | _, _ => rs_video_pt s
               end in
    let s1 := mk_rtsp (rs_done s) (rs_cache s) (rs_vps s) (rs_sps s) (rs_pps s) (rs_asc s) (rs_audio_pt s) vpt (rs_apacker s) (rs_vpacker s) in
    match rs_asc s1 with
    | Some asc =>
      if short asc 2 || (12 <? asc_sfi asc) then
        Ok (mk_rtsp (rs_done s1) (rs_cache s1) (rs_vps s1) (rs_sps s1) (rs_pps s1) None pt_aac vpt (rs_apacker s1) (rs_vpacker s1), [])
      else
        let s2 := mk_rtsp (rs_done s1) (rs_cache s1) (rs_vps s1) (rs_sps s1) (rs_pps s1) (rs_asc s1) pt_aac vpt (rs_apacker s1) (rs_vpacker s1) in
        let* (s3, n) := rtsp_remux_all fx add s2 (rs_cache s2) [] in
        Ok (mk_rtsp true [] (rs_vps s3) (rs_sps s3) (rs_pps s3) (rs_asc s3) (rs_audio_pt s3) (rs_video_pt s3) (rs_apacker s3) (rs_vpacker s3),
            [RevSdp (fst (sdp_desc s2)) (snd (sdp_desc s2)); RevRtp n])
    | None =>
      let* (s3, n) := rtsp_remux_all fx add s1 (rs_cache s1) [] in
      Ok (mk_rtsp true [] (rs_vps s3) (rs_sps s3) (rs_pps s3) (rs_asc s3) (rs_audio_pt s3) (rs_video_pt s3) (rs_apacker s3) (rs_vpacker s3),
          [RevSdp (fst (sdp_desc s1)) (snd (sdp_desc s1)); RevRtp n])
    end.

Definition set_audio_pt (s : rtsp_st) (pt : N) : rtsp_st :=
  mk_rtsp (rs_done s) (rs_cache s) (rs_vps s) (rs_sps s) (rs_pps s) (rs_asc s) pt (rs_video_pt s) (rs_apacker s) (rs_vpacker s).

(* the audio-codec sniffing at the top of FeedRtmpMsg *)
Definition rtsp_sniff_audio (s : rtsp_st) (m : mmsg) : res rtsp_st :=
  if (mm_type m =? t_audio) && (rs_audio_pt s =? pt_unknown) then
    let* c := audio_codec_id m in
    Ok (if c =? 8 then set_audio_pt s pt_g711u else if c =? 7 then set_audio_pt s pt_g711a
        else if c =? 13 then set_audio_pt s pt_opus else s)
  else Ok s.

(* a video sequence header during the analysis: r.sps, r.pps (, r.vps) = record parser result *)
Definition rtsp_store_headers (fx : fixes) (rf : rec_fns) (s0 : rtsp_st) (m : mmsg) : res rtsp_st :=
  let p := mm_pay m in
  let* ash2 := is_avc_key_seq_header fx m in
  if ash2 then
    match rf_avc_parse rf p with
    | Panic site => Panic site
    | Err _ => Ok (mk_rtsp (rs_done s0) (rs_cache s0) (rs_vps s0) None None (rs_asc s0) (rs_audio_pt s0) (rs_video_pt s0) (rs_apacker s0) (rs_vpacker s0))
    | Ok (sps, pps) => Ok (mk_rtsp (rs_done s0) (rs_cache s0) (rs_vps s0) (nz sps) (nz pps) (rs_asc s0) (rs_audio_pt s0) (rs_video_pt s0) (rs_apacker s0) (rs_vpacker s0))
    end
  else
    let* hsh := is_hevc_key_seq_header fx m in
    if hsh then
      let* enh := is_enhanced m in
      match (if enh then rf_hevc_parse_enh rf p else rf_hevc_parse rf p) with
      | Panic site => Panic site
      | Err _ => Ok (mk_rtsp (rs_done s0) (rs_cache s0) None None None (rs_asc s0) (rs_audio_pt s0) (rs_video_pt s0) (rs_apacker s0) (rs_vpacker s0))
      | Ok (vps, sps, pps) =>
        (* the enhanced parser returns sub-slices of the payload (non-nil even when empty);
           the classic one copies with append(nil, x...), which stays nil for an empty x *)
        let w := fun x => if enh then Some x else nz x in
        Ok (mk_rtsp (rs_done s0) (rs_cache s0) (w vps) (w sps) (w pps) (rs_asc s0) (rs_audio_pt s0) (rs_video_pt s0) (rs_apacker s0) (rs_vpacker s0))
      end
    else Ok s0.

Definition rtsp_set_asc (s0 : rtsp_st) (asc : bytes) : rtsp_st :=
  mk_rtsp (rs_done s0) (rs_cache s0) (rs_vps s0) (rs_sps s0) (rs_pps s0) (Some asc) (rs_audio_pt s0) (rs_video_pt s0) (rs_apacker s0) (rs_vpacker s0).
Definition rtsp_push_cache (s0 : rtsp_st) (m : mmsg) : rtsp_st :=
  mk_rtsp (rs_done s0) (rs_cache s0 ++ [m]) (rs_vps s0) (rs_sps s0) (rs_pps s0) (rs_asc s0) (rs_audio_pt s0) (rs_video_pt s0) (rs_apacker s0) (rs_vpacker s0).

(* a Go type assertion v.(float64) on what ObjectPairArray.Find returned (None = nil interface: key absent, or a
   null / undefined value, which the readers drop).  The AMF value is a sum type (number | boolean | string |
   pair list for object / ecma array / strict array): the comma-ok form `x, ok := v.(float64)` yields ok = false
   for every other summand, the unchecked form `v.(float64)` panics for them (and for nil) *)
Definition s_meta_assert : N := 122.   (* remux.Rtmp2RtspRemuxer.FeedRtmpMsg:explicit (interface conversion) *)
Definition assert_f64 (comma_ok : bool) (v : option aval) : res (option N) :=
  match v with
  | Some (ANum bits) => Ok (Some bits)
  | _ => if comma_ok then Ok None else Panic s_meta_assert
  end.

Definition k_audiosamplerate : bytes := [97; 117; 100; 105; 111; 115; 97; 109; 112; 108; 101; 114; 97; 116; 101].

(* the metadata branch: audiocodecid and audiosamplerate, both read with the comma-ok form in lal ([ok] = true);
   the sample rate only reaches the SDP text and the packers' clock rate, which are not modelled *)
Definition rtsp_meta_gen (ok : bool) (acfg : amf_cfg) (s : rtsp_st) (p : bytes) : res rtsp_st :=
  match fst (parse_metadata acfg p) with
  | Panic site => Panic site
  | Err _ => Ok s
  | Ok meta =>
    let* codec := assert_f64 ok (pairs_find k_audiocodecid meta) in
    let s1 := match codec with
              | Some bits =>
                let c := f64_to_u8 bits in
                if c =? 8 then set_audio_pt s pt_g711u else if c =? 7 then set_audio_pt s pt_g711a
                else if c =? 13 then set_audio_pt s pt_opus else s
              | None => s
              end in
    let* _ := assert_f64 ok (pairs_find k_audiosamplerate meta) in
    Ok s1
  end.
Definition rtsp_meta : amf_cfg -> rtsp_st -> bytes -> res rtsp_st := rtsp_meta_gen true.

Definition rtsp_gate_short (m : mmsg) : bool :=
  if mm_type m =? t_audio then Nat.leb (length (mm_pay m)) 2
  else if mm_type m =? t_video then Nat.leb (length (mm_pay m)) 5 else false.

(* FeedRtmpMsg *)
Definition rtsp_feed (fx : fixes) (rf : rec_fns) (acfg : amf_cfg) (add : bool) (s : rtsp_st) (m : mmsg) : res (rtsp_st * list rtsp_ev) :=
  let p := mm_pay m in
  if mm_type m =? t_meta then
    (* metadata only guides the analysis; once the sdp has been handed out it is not even parsed (lal fix of C06) *)
    if rs_done s then Ok (s, []) else let* s' := rtsp_meta acfg s p in Ok (s', [])
  else if rtsp_gate_short m then Ok (s, [])
  else
    let* s0 := rtsp_sniff_audio s m in
    let* ash := is_avc_key_seq_header fx m in
    let* vsh := (if ash then Ok true else is_hevc_key_seq_header fx m) in
    if negb (rs_done s0) then
      if vsh then
        let* s1 := rtsp_store_headers fx rf s0 m in
        rtsp_do_analyze fx add s1
      else
        let* aash := is_aac_seq_header fx m in
        if aash then
          let* asc := from s_rtsp_remux p 2 in
          rtsp_do_analyze fx add (rtsp_set_asc s0 asc)
        else rtsp_do_analyze fx add (rtsp_push_cache s0 m)
    else
      if vsh then Ok (s0, [])
      else
        let* aash := is_aac_seq_header fx m in
        if aash then Ok (s0, [])
        else
          let* (s1, n) := rtsp_remux fx add s0 m in Ok (s1, [RevRtp n]).
