(* pkg/remux/rtmp2mpegts_filter_.go (probe queue: Push / drain) and
   pkg/remux/rtmp2mpegts.go (onPop, feedVideo, feedAudio, FlushAudio, onFrame,
   timestamp filter), pkg/avc IterateNaluAvcc, pkg/aac NewAscContext.
   mpegts.Frame.Pack / PackPat / PackPmt are not modelled here (C09): a frame
   handed to onFrame is an output event.  No proofs here. *)
From Lal Require Export Media.MediaMsgChecked.
Open Scope N_scope.

(* ---- avc.IterateNaluAvcc / SplitNaluAvcc ---------------------------------- *)
Definition e_avcc_short : N := 1.

(* [rest] = nals[pos:]; None = the Go function returns an error (the callers
   here drop the message then); fuel = len(nals): 4 bytes consumed per turn *)
Fixpoint avcc_loop (fuel : nat) (rest : bytes) (acc : list bytes) : res (list bytes) :=
  match fuel with
  | O => Err err_out_of_fuel
  | S f =>
    match rest with
    | a :: b :: c :: d :: r =>
      let len := ((a * 256 + b) * 256 + c) * 256 + d in
      match r with
      | [] => Err e_avcc_short
      | _ :: _ =>
        if len <? lenN r then
          (if len =? 0 then avcc_loop f r acc
           else avcc_loop f (skipn (N.to_nat len) r) (firstn (N.to_nat len) r :: acc))
        else if len =? lenN r then Ok (rev (r :: acc))
        else Err e_avcc_short
      end
    | _ => Err e_avcc_short
    end
  end.
Definition split_avcc (nals : bytes) : res (list bytes) := avcc_loop (S (length nals)) nals [].

(* ---- output events --------------------------------------------------------- *)
Inductive ts_ev : Type :=
| EvPatPmt
| EvFrame (video : bool) (dts pts : N) (key boundary : bool) (rawlen : N).

(* ---- remuxer state --------------------------------------------------------- *)
(* Rtmp2MpegtsRemuxer without its probe filter *)
Record rmx_st := mk_rmx {
  ts_spspps : option bytes;       (* nil / non-nil (possibly empty) *)
  ts_asc : bool;                  (* ascCtx != nil *)
  ts_acache : N;                  (* len(audioCacheFrames) *)
  ts_afirst : N;                  (* audioCacheFirstFramePts *)
  ts_opened : bool;
  ts_abase : option N;            (* timestampFilter.basicAudioDts (MaxUint64 = None) *)
  ts_vbase : option N
}.
Definition rmx_init : rmx_st := mk_rmx None false 0 0 false None None.

(* rtmp2MpegtsFilter + the remuxer it pops into *)
Record ts_st := mk_ts {
  ts_done : bool;                 (* filter.done *)
  ts_data : list mmsg;            (* filter.data *)
  ts_acodec : option N;           (* filter.audioCodecId (-1 = None) *)
  ts_vcodec : option N;
  ts_rmx : rmx_st
}.
Definition ts_init : ts_st := mk_ts false [] None None rmx_init.

Definition ts_set_spspps (s : rmx_st) (v : option bytes) : rmx_st :=
  mk_rmx v (ts_asc s) (ts_acache s) (ts_afirst s) (ts_opened s) (ts_abase s) (ts_vbase s).
Definition ts_set_asc (s : rmx_st) (v : bool) : rmx_st :=
  mk_rmx (ts_spspps s) v (ts_acache s) (ts_afirst s) (ts_opened s) (ts_abase s) (ts_vbase s).
Definition ts_set_acache (s : rmx_st) (n first : N) : rmx_st :=
  mk_rmx (ts_spspps s) (ts_asc s) n first (ts_opened s) (ts_abase s) (ts_vbase s).

Definition spspps_cached (s : rmx_st) : bool :=     (* videoSeqHeaderCached: len(spspps) != 0 *)
  match ts_spspps s with Some (_ :: _) => true | _ => false end.

(* onFrame: timestamp filter, boundary decision, opened flag, event *)
Definition ts_on_frame (s : rmx_st) (video : bool) (dts ctsv : N) (key : bool) (rawlen : N) : rmx_st * ts_ev :=
  let base0 := if video then ts_vbase s else ts_abase s in
  let base := match base0 with Some b => b | None => dts end in
  (* rebaseDts (lal fix of C06 F-23): a dts below the base keeps its distance on the 33-bit clock *)
  let dts' := if dts <? base then (8589934592 - (base - dts) mod 8589934592) mod 8589934592 else dts - base in
  let pts' := dts' + 90 * ctsv in
  let boundary :=
    if video then key && (negb (ts_asc s) || negb (ts_opened s) || negb (ts_acache s =? 0))
    else negb (spspps_cached s) in
  let s' := mk_rmx (ts_spspps s) (ts_asc s) (ts_acache s) (ts_afirst s)
                  (ts_opened s || boundary)
                  (if video then ts_abase s else Some base) (if video then Some base else ts_vbase s) in
  (s', EvFrame video dts' pts' key boundary rawlen).

(* FlushAudio *)
Definition ts_flush_audio (s : rmx_st) : rmx_st * list ts_ev :=
  if ts_acache s =? 0 then (s, [])
  else
    let n := ts_acache s in
    let s1 := ts_set_acache s 0 (ts_afirst s) in
    let '(s2, ev) := ts_on_frame s1 false (ts_afirst s) 0 false n in
    (s2, [ev]).

Definition max_delay_by_audio : N := 150 * 90.
Definition max_delay_by_video : N := 300 * 90.
Definition adts_header_len : N := 7.

(* nal classification inside feedVideo *)
Definition avc_nal_type (b : N) : N := b mod 32.
Definition hevc_nal_type (b : N) : N := (b / 2) mod 64.
Definition hevc_is_irap (t : N) : bool := (16 <=? t) && (t <=? 23).

Definition aud_avc_len : N := 6.    (* avc.AudNalu  00 00 00 01 09 f0 *)
Definition aud_hevc_len : N := 7.   (* hevc.AudNalu 00 00 00 01 46 01 10 *)

Record fv_acc := mk_fv {
  fv_out : N;                  (* len(videoOut) *)
  fv_spspps : option bytes;    (* s.spspps *)
  fv_vps : bytes; fv_sps : bytes; fv_pps : bytes;
  fv_aud : bool; fv_sent : bool
}.

Definition sc4 : bytes := [0; 0; 0; 1].

(* one iteration of the nal loop; None = the function returns (appendSpsPps failed) *)
Definition fv_nal (hevc : bool) (a : fv_acc) (nal : bytes) : option fv_acc :=
  let b0 := hd 0 nal in
  let t := if hevc then hevc_nal_type b0 else avc_nal_type b0 in
  let skip_nal :=
    if hevc then (t =? 39) || (t =? 40) || (t =? 35)
    else (t =? 9) in
  if skip_nal then Some a
  else if (if hevc then t =? 32 else false) then Some (mk_fv (fv_out a) (fv_spspps a) nal (fv_sps a) (fv_pps a) (fv_aud a) (fv_sent a))
  else if (if hevc then t =? 33 else t =? 7) then Some (mk_fv (fv_out a) (fv_spspps a) (fv_vps a) nal (fv_pps a) (fv_aud a) (fv_sent a))
  else if (if hevc then t =? 34 else t =? 8) then
    let ok := if hevc then negb (lenN (fv_vps a) =? 0) && negb (lenN (fv_sps a) =? 0) && negb (lenN nal =? 0)
              else negb (lenN (fv_sps a) =? 0) && negb (lenN nal =? 0) in
    let sp := if ok then
                Some (if hevc then sc4 ++ fv_vps a ++ sc4 ++ fv_sps a ++ sc4 ++ nal
                      else sc4 ++ fv_sps a ++ sc4 ++ nal)
              else fv_spspps a in
    Some (mk_fv (fv_out a) sp (fv_vps a) (fv_sps a) nal (fv_aud a) (fv_sent a))
  else
    let out1 := if fv_aud a then fv_out a else fv_out a + (if hevc then aud_hevc_len else aud_avc_len) in
    let keyn := if hevc then hevc_is_irap t else (t =? 5) in
    let resetn := if hevc then negb (hevc_is_irap t) else (t =? 1) in
    let need := keyn && negb (fv_sent a) in
    match (if need then fv_spspps a else Some []) with
    | None => None
    | Some sp =>
      let out2 := if need then out1 + lenN sp else out1 in
      let sent := if keyn then true else if resetn then false else fv_sent a in
      let out3 := out2 + (if out2 =? 0 then 4 else 3) + lenN nal in
      Some (mk_fv out3 (fv_spspps a) (fv_vps a) (fv_sps a) (fv_pps a) true sent)
    end.

Fixpoint fv_loop (hevc : bool) (a : fv_acc) (nals : list bytes) : fv_acc * bool :=
  match nals with
  | [] => (a, true)
  | n :: t => match fv_nal hevc a n with
              | Some a' => fv_loop hevc a' t
              | None => (a, false)
              end
  end.

(* sequence-header record parsers used by feedVideo: Some annexb / None on error.
   They are parameters of the remuxer model so that the codec models (C19) plug in. *)
Record codec_fns := mk_codec {
  cf_avc_sh2annexb : bytes -> res bytes;          (* avc.SpsPpsSeqHeader2Annexb *)
  cf_hevc_sh2annexb : bytes -> res bytes;         (* hevc.VpsSpsPpsSeqHeader2Annexb *)
  cf_hevc_esh2annexb : bytes -> res bytes         (* hevc.VpsSpsPpsEnhancedSeqHeader2Annexb *)
}.

Definition res_opt {A} (r : res A) : res (option A) :=
  match r with Ok a => Ok (Some a) | Err _ => Ok None | Panic s => Panic s end.

(* feedVideo *)
Definition ts_feed_video (fx : fixes) (cf : codec_fns) (s : rmx_st) (m : mmsg) : res (rmx_st * list ts_ev) :=
  let p := mm_pay m in
  if Nat.leb (length p) 5 then Ok (s, [])
  else
    let* codec := video_codec_id fx m in
    if negb ((codec =? codec_avc) || (codec =? codec_hevc)) then Ok (s, [])
    else
      let* ash := is_avc_key_seq_header fx m in
      if ash then
        let* sp := res_opt (cf_avc_sh2annexb cf p) in Ok (ts_set_spspps s sp, [])
      else
        let* hsh := is_hevc_key_seq_header fx m in
        if hsh then
          let* enh := is_enhanced m in
          let* sp := res_opt (if enh then cf_hevc_esh2annexb cf p else cf_hevc_sh2annexb cf p) in
          Ok (ts_set_spspps s sp, [])
        else
          let hevc := codec =? codec_hevc in
          let* en := (if hevc then is_enhanced_hevc_nalu m else Ok false) in
          let* index := (if en then enhanced_hevc_nalu_index m else Ok 5%nat) in
          if fx_tsidx fx && en && Nat.leb (length p) index then Ok (s, [])
          else
            let* body := from s_ts_feedvideo p index in
            match split_avcc body with
            | Panic site => Panic site
            | Err e => if e =? err_out_of_fuel then Err e else Ok (s, [])
            | Ok nals =>
              let '(a, ok) := fv_loop hevc (mk_fv 0 (ts_spspps s) [] [] [] false false) nals in
              let s1 := ts_set_spspps s (fv_spspps a) in
              if negb ok then Ok (s1, [])
              else if fv_out a =? 0 then Ok (s1, [])
              else
                let dts := mm_ts m * 90 in
                let '(s2, ev1) :=
                  if negb (ts_acache s1 =? 0) && (ts_afirst s1 + max_delay_by_video <? dts) then ts_flush_audio s1 else (s1, []) in
                let* c := cts m in
                let* key := is_video_key_nalu fx m in
                let '(s3, ev2) := ts_on_frame s2 true dts c key (fv_out a) in
                Ok (s3, ev1 ++ [ev2])
            end.

(* feedAudio *)
Definition ts_feed_audio (fx : fixes) (s : rmx_st) (m : mmsg) : res (rmx_st * list ts_ev) :=
  let p := mm_pay m in
  if Nat.leb (length p) 2 then Ok (s, [])
  else
    let* codec := audio_codec_id m in
    let pts := mm_ts m * 90 in
    if codec =? 10 then
      let* b1 := idx s_ts_onpop p 1 in
      if b1 =? 0 then
        (* cacheAacSeqHeader: aac.NewAscContext(Payload[2:]) fails below 2 bytes *)
        let* asc := from s_ts_onpop p 2 in
        Ok (ts_set_asc s (negb (short asc 2)), [])
      else if negb (ts_asc s) then Ok (s, [])
      else
        let '(s1, ev1) :=
          if negb (ts_acache s =? 0) && (ts_afirst s + max_delay_by_audio <? pts) then ts_flush_audio s else (s, []) in
        let first := if ts_acache s1 =? 0 then pts else ts_afirst s1 in
        let* raw := from s_ts_onpop p 2 in
        Ok (ts_set_acache s1 (ts_acache s1 + adts_header_len + lenN raw) first, ev1)
    else
      let* raw := from s_ts_onpop p 1 in
      let s1 := ts_set_acache s (ts_acache s + lenN raw) pts in
      let '(s2, ev) := ts_flush_audio s1 in
      Ok (s2, ev).

(* onPop *)
Definition ts_on_pop (fx : fixes) (cf : codec_fns) (s : rmx_st) (m : mmsg) : res (rmx_st * list ts_ev) :=
  if mm_type m =? t_audio then
    let* c := audio_codec_id m in
    if negb ((c =? 10) || (c =? 13)) then Ok (s, []) else ts_feed_audio fx s m
  else if mm_type m =? t_video then ts_feed_video fx cf s m
  else Ok (s, []).

Fixpoint ts_pop_all (fx : fixes) (cf : codec_fns) (s : rmx_st) (l : list mmsg) (acc : list ts_ev) : res (rmx_st * list ts_ev) :=
  match l with
  | [] => Ok (s, acc)
  | m :: t => let* (s', ev) := ts_on_pop fx cf s m in ts_pop_all fx cf s' t (acc ++ ev)
  end.

Definition ts_max_probe : nat := 16.   (* calcFragmentHeaderQueueSize *)

(* Rtmp2MpegtsRemuxer.FeedRtmpMessage = filter.Push *)
Definition ts_feed (fx : fixes) (cf : codec_fns) (s : ts_st) (m : mmsg) : res (ts_st * list ts_ev) :=
  if ts_done s then
    let* (r, ev) := ts_on_pop fx cf (ts_rmx s) m in
    Ok (mk_ts true (ts_data s) (ts_acodec s) (ts_vcodec s) r, ev)
  else
    let data := ts_data s ++ [m] in
    let* ac := (if mm_type m =? t_audio then let* b0 := idx s_ts_push (mm_pay m) 0 in Ok (Some (b0 / 16)) else Ok (ts_acodec s)) in
    let* vc := (if mm_type m =? t_video then let* v := video_codec_id fx m in Ok (Some v) else Ok (ts_vcodec s)) in
    let both := match ac, vc with Some _, Some _ => true | _, _ => false end in
    if both || Nat.leb ts_max_probe (length data) then
      let* (r, ev) := ts_pop_all fx cf (ts_rmx s) data [] in
      Ok (mk_ts true [] ac vc r, EvPatPmt :: ev)
    else Ok (mk_ts false data ac vc (ts_rmx s), []).

(* Dispose = FlushAudio *)
Definition ts_dispose (s : ts_st) : ts_st * list ts_ev :=
  let (r, ev) := ts_flush_audio (ts_rmx s) in (mk_ts (ts_done s) (ts_data s) (ts_acodec s) (ts_vcodec s) r, ev).
