(* No step of the fan-out panics (or runs out of fuel) once the fixes are in;
   amortised work bound.  Generic in the codec functions: they must not panic on
   a non-empty payload, and the SPS carried by a published sequence header must
   make avc/hevc.ParseSps return (value or error). *)
From Lal Require Import Common.LBytes Common.Res Media.MediaMsgChecked Media.MediaMsgProofs Media.MediaDummyAudio Media.MediaDummyProofs
  Media.MediaTsRemux Media.MediaTsProofs Media.MediaRtspRemux Media.MediaRtspProofs Media.MediaBroadcast
  Rtmp.RtmpAmf0 Rtmp.RtmpMetadata Rtmp.RtmpMetadataProofs.
From Lal Require Net.NetChk Net.NetChkProofs Net.NetRtpHeader Net.NetRtpHeaderProofs.
From Coq Require Import Lia ZifyN ZifyNat ZifyBool.
Open Scope N_scope.

(* avc/hevc.ParseSps returns on the SPS of every record m's payload parses to *)
Definition stat_safe (rf : rec_fns) (sf : sps_fns) (m : mmsg) : Prop :=
  mm_type m = t_video ->
  (forall sps pps, rf_avc_parse rf (mm_pay m) = Ok (sps, pps) -> is_ok (sf_avc_dims sf sps)) /\
  (forall v sps q, rf_hevc_parse rf (mm_pay m) = Ok (v, sps, q) -> is_ok (sf_hevc_dims sf sps)) /\
  (forall v sps q, rf_hevc_parse_enh rf (mm_pay m) = Ok (v, sps, q) -> is_ok (sf_hevc_dims sf sps)).

Definition fx_all_ok (fx : fixes) : Prop :=
  fx_msg_ok fx /\ fx_tsidx fx = true /\ fx_rtspidx fx = true /\ fx_dummy fx = true /\ fx_bound fx = true /\ fx_addflag fx = true.

(* Group.feedRtpPacket with the fixed boundary classifiers is total *)
Lemma avc_boundary_total b : is_ok (NetRtpHeader.is_avc_boundary true b).
Proof.
  unfold NetRtpHeader.is_avc_boundary. cbn [andb]. pose (ok := fun (x : bool) => ex_intro (fun a => Ok x = Ok a) x eq_refl).
  destruct (lenN b <? 1) eqn:E1; [apply ok|]. apply N.ltb_ge in E1.
  destruct (NetChkProofs.idx_ok NetChk.s_avcbound_index b 0) as [b0 ->]; [lia|]. cbn [bind].
  destruct (NetRtpHeader.avc_boundary_type (b0 mod 32)); [apply ok|].
  destruct (b0 mod 32 =? 24).
  - destruct (lenN b <? 4) eqn:E4; cbn [bind].
    + destruct (b0 mod 32 =? 28); [|apply ok].
      destruct (lenN b <? 2) eqn:E2; [apply ok|]. apply N.ltb_ge in E2.
      destruct (NetChkProofs.idx_ok NetChk.s_avcbound_index b 1) as [b1 ->]; [lia|]. apply ok.
    + apply N.ltb_ge in E4. destruct (NetChkProofs.idx_ok NetChk.s_avcbound_index b 3) as [b3 ->]; [lia|]. cbn [bind].
      destruct (NetRtpHeader.avc_boundary_type (b3 mod 32)); [apply ok|].
      destruct (b0 mod 32 =? 28); [|apply ok].
      destruct (lenN b <? 2) eqn:E2; [apply ok|]. apply N.ltb_ge in E2.
      destruct (NetChkProofs.idx_ok NetChk.s_avcbound_index b 1) as [b1 ->]; [lia|]. apply ok.
  - cbn [bind]. destruct (b0 mod 32 =? 28); [|apply ok].
    destruct (lenN b <? 2) eqn:E2; [apply ok|]. apply N.ltb_ge in E2.
    destruct (NetChkProofs.idx_ok NetChk.s_avcbound_index b 1) as [b1 ->]; [lia|]. apply ok.
Qed.

Lemma hevc_boundary_total b : is_ok (NetRtpHeader.is_hevc_boundary true b).
Proof.
  unfold NetRtpHeader.is_hevc_boundary. cbn [andb]. pose (ok := fun (x : bool) => ex_intro (fun a => Ok x = Ok a) x eq_refl).
  destruct (lenN b <? 1) eqn:E1; [apply ok|]. apply N.ltb_ge in E1.
  destruct (NetChkProofs.idx_ok NetChk.s_hevcbound_index b 0) as [b0 ->]; [lia|]. cbn [bind].
  destruct (NetRtpHeader.hevc_boundary_type _); [apply ok|].
  destruct (_ =? 49); [|apply ok].
  destruct (lenN b <? 3) eqn:E3; [apply ok|]. apply N.ltb_ge in E3.
  destruct (NetChkProofs.idx_ok NetChk.s_hevcbound_index b 2) as [b2 ->]; [lia|]. apply ok.
Qed.

Lemma rtp_boundary_ok fx kind body : fx_bound fx = true -> is_ok (rtp_boundary fx kind body).
Proof.
  intro F. unfold rtp_boundary. rewrite F. destruct (kind =? 1).
  - destruct (avc_boundary_total body) as [v ->]. eexists; reflexivity.
  - destruct (kind =? 2); [|eexists; reflexivity]. destruct (hevc_boundary_total body) as [v ->]. eexists; reflexivity.
Qed.

Lemma feed_rtp_ok fx wk sdp subs body : fx_bound fx = true -> is_ok (feed_rtp fx wk sdp subs body).
Proof.
  intro F. unfold feed_rtp. destruct (negb wk); [eexists; reflexivity|].
  destruct (existsb _ subs); [|eexists; reflexivity].
  destruct sdp as [[v k]|]; [|eexists; reflexivity].
  unfold rtp_gate. destruct ((k =? 1) || (k =? 2)); [|eexists; reflexivity].
  destruct (fst body); [|eexists; reflexivity].
  destruct (rtp_boundary_ok fx k (snd body) F) as [b ->]. eexists; reflexivity.
Qed.

Lemma feed_rtp_all_ok fx wk sdp l : forall subs, fx_bound fx = true -> is_ok (feed_rtp_all fx wk sdp subs l).
Proof.
  induction l as [|b t IH]; intros subs F; cbn [feed_rtp_all]; [eexists; reflexivity|].
  destruct (feed_rtp_ok fx wk sdp subs b F) as [s' ->]. cbn [bind]. apply IH. exact F.
Qed.

Lemma rtsp_events_ok fx wk evs : forall sdp subs, fx_bound fx = true -> is_ok (rtsp_events fx wk sdp subs evs).
Proof.
  induction evs as [|e t IH]; intros sdp subs F; cbn [rtsp_events]; [eexists; reflexivity|].
  destruct e as [v k|l]; [apply IH; exact F|].
  destruct (feed_rtp_all_ok fx wk sdp l subs F) as [s' ->]. cbn [bind]. apply IH. exact F.
Qed.

Section Bc.
Variable fx : fixes.
Variable cf : codec_fns.
Variable rf : rec_fns.
Variable sf : sps_fns.
Variable acfg : amf_cfg.
Variable c : grp_cfg.
Hypothesis FX : fx_all_ok fx.
Hypothesis CF : cf_safe cf.
Hypothesis RF : rf_safe rf.

Let FM : fx_msg_ok fx := proj1 FX.

Lemma gop_feed_ok gop has m : is_ok (gop_feed fx gop has m).
Proof.
  destruct FM as (F1 & F2 & F3 & F4 & F5 & F6). unfold gop_feed.
  destruct (mm_type m =? t_meta); [eexists; reflexivity|].
  assert (H : is_ok (if mm_type m =? t_audio then is_aac_seq_header fx m else if mm_type m =? t_video then is_video_key_seq_header fx m else Ok false)).
  { destruct (mm_type m =? t_audio); [now apply aacsh_total|]. destruct (mm_type m =? t_video); [now apply vsh_total|eexists; reflexivity]. }
  destruct H as [hdr ->]. cbn [bind]. destruct hdr; [eexists; reflexivity|].
  destruct gop; [|eexists; reflexivity]. destruct (vkn_total fx m F3 F4) as [k ->]. eexists; reflexivity.
Qed.

Lemma sub_step_ok has m s : is_ok (sub_step fx has m s).
Proof.
  destruct FM as (F1 & F2 & F3 & F4 & F5 & F6). unfold sub_step.
  destruct (if sb_fresh s then _ else _); [|eexists; reflexivity].
  destruct (vkn_total fx m F3 F4) as [k ->]. eexists; reflexivity.
Qed.

Lemma subs_step_ok has m l : exists l', subs_step fx has m l = Ok l' /\ length l' = length l.
Proof.
  induction l as [|s t [t' [IH Hl]]]; cbn [subs_step]; [exists []; split; reflexivity|].
  destruct (sub_step_ok has m s) as [s' ->]. cbn [bind]. rewrite IH. cbn [bind].
  eexists; split; [reflexivity|]. cbn [length]. now rewrite Hl.
Qed.

Lemma bc_meta_ok m : bc_meta acfg m = Ok tt.
Proof.
  unfold bc_meta. destruct (mm_type m =? t_meta); [|reflexivity].
  destruct (parse_metadata_no_crash acfg (mm_pay m)) as [_ Hnp].
  destruct (fst (parse_metadata acfg (mm_pay m))) as [x|e|s]; [reflexivity|reflexivity|].
  exfalso. exact (Hnp s eq_refl).
Qed.

Lemma st_audio_ok g m : nonempty m -> is_ok (st_audio fx g m).
Proof.
  destruct FM as (F1 & F2 & F3 & F4 & F5 & F6). intro Hne. unfold st_audio.
  destruct (_ && _); [|eexists; reflexivity].
  destruct (acid_ok m Hne) as [k ->]. cbn [bind]. destruct (k =? 10); [now apply aacsh_total|eexists; reflexivity].
Qed.

Lemma st_video_ok g m : is_ok (st_video fx g m).
Proof.
  destruct FM as (F1 & F2 & F3 & F4 & F5 & F6). unfold st_video. destruct (negb _); [|eexists; reflexivity].
  destruct (avcsh_total fx m F1) as [a ->]. destruct (hevcsh_total fx m F2) as [h ->]. eexists; reflexivity.
Qed.

Lemma st_dims_ok g m : nonempty m -> stat_safe rf sf m -> is_ok (st_dims fx rf sf g m).
Proof.
  destruct FM as (F1 & F2 & F3 & F4 & F5 & F6). intros Hne Hsafe. unfold st_dims.
  destruct (_ || _); [|eexists; reflexivity].
  destruct (RF (mm_pay m) Hne) as (R1 & R2 & R3).
  assert (H1 : is_ok (st_dims_avc fx rf sf g m)).
  { unfold st_dims_avc. destruct (avcsh_total fx m F1) as [a Ha]. rewrite Ha. cbn [bind]. destruct a; [|eexists; reflexivity].
    destruct (Hsafe (avcsh_true_video fx m Ha)) as (S1 & _ & _).
    destruct (rf_avc_parse rf (mm_pay m)) as [[sps pps]|e|s] eqn:E; [|eexists; reflexivity|exfalso; exact (R1 s eq_refl)].
    destruct (S1 sps pps eq_refl) as [d ->]. eexists; reflexivity. }
  destruct H1 as [wh1 ->]. cbn [bind]. unfold st_dims_hevc.
  destruct (hevcsh_total fx m F2) as [h Hh]. rewrite Hh. cbn [bind]. destruct h; [|eexists; reflexivity].
  destruct (Hsafe (hevcsh_true_video fx m Hh)) as (_ & S2 & S3).
  destruct (enh_ok m Hne) as [enh ->]. cbn [bind].
  destruct (if enh then rf_hevc_parse_enh rf (mm_pay m) else rf_hevc_parse rf (mm_pay m)) as [[[v sps] q]|e|s] eqn:E;
    [|eexists; reflexivity|exfalso; destruct enh; [exact (R3 s E)|exact (R2 s E)]].
  assert (Hd : is_ok (sf_hevc_dims sf sps)) by (destruct enh; [exact (S3 v sps q E)|exact (S2 v sps q E)]).
  destruct Hd as [d ->]. eexists; reflexivity.
Qed.

Lemma stat_step_ok g m : nonempty m -> stat_safe rf sf m -> is_ok (stat_step fx rf sf g m).
Proof.
  intros Hne Hs. unfold stat_step.
  destruct (st_audio_ok g m Hne) as [ac ->]. cbn [bind].
  destruct (st_video_ok g m) as [vc ->]. cbn [bind].
  destruct (st_dims_ok g m Hne Hs) as [wh ->]. eexists; reflexivity.
Qed.

(* ---- invariant and potential ----------------------------------------------- *)
Definition ginv (g : grp_st) : Prop :=
  ts_inv (g_ts g) /\ rtsp_inv (g_rtsp g) /\
  du_inv (stat_safe rf sf) (g_dummy g) /\ du_inv_ts (g_dummy g).

Lemma bc_ts_ok g m : ts_inv (g_ts g) -> nonempty m ->
  exists t, bc_ts fx cf c g m = Ok t /\ ts_inv t.
Proof.
  intros Hi Hne. unfold bc_ts. destruct (gc_ts c); [|exists (g_ts g); split; [reflexivity|exact Hi]].
  pose proof FX as (_ & FT & _).
  destruct (ts_feed_ok fx cf FM FT CF (g_ts g) m Hi Hne) as (t & ev & -> & Ht). cbn [bind]. exists t. split; [reflexivity|exact Ht].
Qed.

Lemma bc_rtsp_ok g m : rtsp_inv (g_rtsp g) ->
  exists r x, bc_rtsp fx rf acfg c g m = Ok (r, x) /\ rtsp_inv r.
Proof.
  intros Hi. unfold bc_rtsp. destruct (gc_rtsp c); [|do 2 eexists; split; [reflexivity|exact Hi]].
  pose proof FX as (_ & _ & FR & _ & FB & FA).
  destruct (rtsp_feed_ok fx rf acfg FM FR FA RF (gc_add c) (g_rtsp g) m Hi) as (r & ev & -> & Hr). cbn [bind].
  destruct (rtsp_events_ok fx (gc_rtsp_wait c) ev (g_sdp g) (g_rsubs g) FB) as [x ->]. cbn [bind].
  do 2 eexists. split; [reflexivity|exact Hr].
Qed.

Lemma broadcast_ok g m :
  ginv g -> stat_safe rf sf m ->
  exists g' k, broadcast fx cf rf sf acfg c g m = Ok (g', k) /\ ginv g' /\ g_dummy g' = g_dummy g.
Proof.
  intros (Hts & Hrt & Hdu & Hdt) Hs. unfold broadcast. rewrite bc_meta_ok. cbn [bind].
  destruct (mm_pay m) as [|b0 rest] eqn:Ep.
  { do 2 eexists. split; [reflexivity|]. split; [repeat split; assumption|reflexivity]. }
  assert (Hne : nonempty m) by (unfold nonempty; rewrite Ep; cbn [length]; lia).
  destruct (bc_ts_ok g m Hts Hne) as (t & -> & Ht). cbn [bind].
  destruct (bc_rtsp_ok g m Hrt) as (r & [sdp' rsubs'] & -> & Hr). cbn [bind].
  destruct (subs_step_ok (g_rtmp_hasgop g) m (g_rtmp_subs g)) as (rs & -> & _). cbn [bind].
  destruct (subs_step_ok (g_flv_hasgop g) m (g_flv_subs g)) as (fs & -> & _). cbn [bind].
  assert (Hrg : is_ok (bc_rgop fx c g m)) by (unfold bc_rgop; destruct (gc_rtmp c); [apply gop_feed_ok|eexists; reflexivity]).
  destruct Hrg as [rg ->]. cbn [bind].
  assert (Hfg : is_ok (bc_fgop fx c g m)) by (unfold bc_fgop; destruct (gc_flv c); [apply gop_feed_ok|eexists; reflexivity]).
  destruct Hfg as [fg ->]. cbn [bind].
  destruct (stat_step_ok g m Hne Hs) as [[[[ac vc] w] h] ->]. cbn [bind].
  do 2 eexists. split; [reflexivity|]. split; [|reflexivity]. repeat split; assumption.
Qed.

Lemma broadcast_all_ok l : forall g k0,
  ginv g -> Forall (stat_safe rf sf) l ->
  exists g' k, broadcast_all fx cf rf sf acfg c g l k0 = Ok (g', k) /\ ginv g' /\ g_dummy g' = g_dummy g.
Proof.
  induction l as [|m t IH]; intros g k0 Hi Hl; cbn [broadcast_all].
  - do 2 eexists. split; [reflexivity|]. split; [exact Hi|reflexivity].
  - inversion Hl as [|? ? Hm Ht]; subst.
    destruct (broadcast_ok g m Hi Hm) as (g1 & k1 & -> & Hi1 & Hd1). cbn [bind].
    destruct (IH g1 (k0 + k1) Hi1 Ht) as (g2 & k2 & -> & Hi2 & Hd2).
    do 2 eexists. split; [reflexivity|]. split; [exact Hi2|congruence].
Qed.

Lemma GEN : forall ts, stat_safe rf sf (dummy_aac_frame ts) /\ stat_safe rf sf (dummy_aac_seq_header ts).
Proof. intro ts. split; intro H; discriminate H. Qed.

Lemma on_read_ok g m :
  ginv g -> stat_safe rf sf m -> ts_ok m ->
  exists g' k, on_read fx cf rf sf acfg c g m = Ok (g', k) /\ ginv g'.
Proof.
  intros Hi Hs Hts. unfold on_read. destruct (gc_dummy c) as [wait|].
  - destruct Hi as (Hi1 & Hi2 & Hi3 & Hi4).
    pose proof FX as ((F1 & F2 & _) & _ & _ & FD & _ & _).
    destruct (dummy_feed_ok (stat_safe rf sf) (fun ts => proj1 (GEN ts)) (fun ts => proj2 (GEN ts)) fx F1 F2 FD wait (g_dummy g) m Hi3 Hi4 Hts Hs)
      as (outs & d' & -> & Ho & _ & Hd1 & Hd2).
    cbn [bind].
    match goal with |- context [broadcast_all fx cf rf sf acfg c ?g1 outs ?k0] =>
      destruct (broadcast_all_ok outs g1 k0) as (g2 & k2 & -> & Hi' & _); [repeat split; assumption|exact Ho|] end.
    do 2 eexists. split; [reflexivity|exact Hi'].
  - destruct (broadcast_ok g m Hi Hs) as (g1 & k1 & -> & Hi1 & _). do 2 eexists. split; [reflexivity|exact Hi1].
Qed.

Definition ev_ok (e : gev) : Prop :=
  match e with GPub m => stat_safe rf sf m /\ ts_ok m | _ => True end.

Lemma ginv_try_play g : ginv g -> ginv (try_play g).
Proof. intro H. unfold try_play. destruct (g_sdp g) as [[[|] k]|]; exact H. Qed.

Lemma gstep_ok g e : ginv g -> ev_ok e -> exists g' k, gstep fx cf rf sf acfg c g e = Ok (g', k) /\ ginv g'.
Proof.
  intros Hi He. destruct e as [m| | | |]; cbn [gstep].
  - destruct He as [Hs Hts]. destruct (on_read_ok g m Hi Hs Hts) as (g' & k & -> & Hi'). cbn [bind].
    do 2 eexists. split; [reflexivity|apply ginv_try_play; exact Hi'].
  - do 2 eexists. split; [reflexivity|]. destruct Hi as (H1 & H2 & H3 & H4). repeat split; assumption.
  - do 2 eexists. split; [reflexivity|]. destruct Hi as (H1 & H2 & H3 & H4). repeat split; assumption.
  - do 2 eexists. split; [reflexivity|]. apply ginv_try_play. destruct Hi as (H1 & H2 & H3 & H4). repeat split; assumption.
  - do 2 eexists. split; [reflexivity|exact Hi].
Qed.

Lemma ginv_init : ginv grp_init.
Proof. repeat split; constructor. Qed.

Lemma grun_ok l : forall g oks, ginv g -> Forall ev_ok l -> snd (grun fx cf rf sf acfg c g l oks) = None.
Proof.
  induction l as [|e t IH]; intros g oks Hi Hl; cbn [grun]; [reflexivity|].
  inversion Hl as [|? ? He Ht]; subst.
  destruct (gstep_ok g e Hi He) as (g' & k & -> & Hi'). apply IH; assumption.
Qed.
End Bc.
