(* pkg/remux/dummy_audio_filter.go: DummyAudioFilter.Feed.  The filter sits in
   front of Group.broadcastByRtmpMsg when add_dummy_audio_enable is set; it
   returns the messages it pops, in order.  No proofs here. *)
From Lal Require Export Media.MediaMsgChecked.
Open Scope N_scope.

Definition max_u32 : N := 4294967295.

Record dummy_st := mk_dummy {
  du_stage : N;            (* 1 analysis, 2 normal, 3 dummy *)
  du_queue : list mmsg;    (* earlyStageQueue *)
  du_first_video_ts : N;
  du_prev_audio_ts : N;
  du_audio_count : N
}.
Definition dummy_init : dummy_st := mk_dummy 1 [] max_u32 max_u32 0.

(* makeAudioSeqHeader / makeOneAudio *)
Definition dummy_aac_seq_header (ts : N) : mmsg := mk_mmsg t_audio ts [175; 0; 17; 144].
Definition dummy_aac_frame (ts : N) : mmsg := mk_mmsg t_audio ts [175; 1; 33; 16; 4; 96; 140; 28].

(* calcAudioDurationMs *)
Definition dummy_dur (count : N) : N := if (count mod 3 =? 1) || (count mod 3 =? 2) then 21 else 22.

Definition dummy_max_fill_ms : N := 10000.
(* enough for the fixed loop: at most 10000/21 + 1 packets per message *)
Definition dummy_fuel : nat := 2000.

(* the fill loop of handleDummyStage; [wrap] = the pinned 32-bit addition.
   Returns (popped audio messages in order, prevAudioTs, audioCount). *)
Fixpoint dummy_fill (fuel : nat) (wrap : bool) (prev count ts : N) (acc : list mmsg)
  : res (list mmsg * N * N) :=
  match fuel with
  | O => Err err_out_of_fuel
  | S f =>
    let a := prev + dummy_dur count in
    let ats := if wrap then a mod 4294967296 else a in
    if ts <? ats then Ok (rev acc, prev, count)
    else dummy_fill f wrap (ats mod 4294967296) (count + 1) ts (dummy_aac_frame (ats mod 4294967296) :: acc)
  end.

(* handleDummyStage: (popped messages, state) *)
Definition dummy_stage3 (fx : fixes) (st : dummy_st) (m : mmsg) : res (list mmsg * dummy_st) :=
  if mm_type m =? t_audio then Ok ([], st)
  else if mm_type m =? t_meta then Ok ([m], st)
  else
    let* sh := is_video_key_seq_header fx m in
    if sh then Ok ([dummy_aac_seq_header (mm_ts m); m], st)
    else if du_prev_audio_ts st =? max_u32 then
      Ok ([dummy_aac_frame (mm_ts m); m],
          mk_dummy (du_stage st) (du_queue st) (du_first_video_ts st) (mm_ts m) (du_audio_count st + 1))
    else if fx_dummy fx && (du_prev_audio_ts st <? mm_ts m) && (dummy_max_fill_ms <? mm_ts m - du_prev_audio_ts st) then
      Ok ([dummy_aac_frame (mm_ts m); m],
          mk_dummy (du_stage st) (du_queue st) (du_first_video_ts st) (mm_ts m) (du_audio_count st + 1))
    else
      let* (auds, prev, count) := dummy_fill dummy_fuel (negb (fx_dummy fx)) (du_prev_audio_ts st) (du_audio_count st) (mm_ts m) [] in
      Ok (auds ++ [m], mk_dummy (du_stage st) (du_queue st) (du_first_video_ts st) prev count).

(* replay of the early-stage queue through handleDummyStage *)
Fixpoint dummy_replay (fx : fixes) (st : dummy_st) (q : list mmsg) (acc : list mmsg) : res (list mmsg * dummy_st) :=
  match q with
  | [] => Ok (acc, st)
  | x :: t => let* (o, st') := dummy_stage3 fx st x in dummy_replay fx st' t (acc ++ o)
  end.

Definition du_cache (st : dummy_st) (m : mmsg) : dummy_st :=
  mk_dummy (du_stage st) (du_queue st ++ [m]) (du_first_video_ts st) (du_prev_audio_ts st) (du_audio_count st).

(* handleAnalysisStage; [wait_ms] = add_dummy_audio_wait_audio_ms as uint32 *)
Definition dummy_stage1 (fx : fixes) (wait_ms : N) (st : dummy_st) (m : mmsg) : res (list mmsg * dummy_st) :=
  if mm_type m =? t_meta then Ok ([], du_cache st m)
  else if mm_type m =? t_audio then
    Ok (du_queue st ++ [m], mk_dummy 2 (du_queue st) (du_first_video_ts st) (du_prev_audio_ts st) (du_audio_count st))
  else if mm_type m =? t_video then
    let* sh := is_video_key_seq_header fx m in
    if sh then Ok ([], du_cache st m)
    else if du_first_video_ts st =? max_u32 then
      Ok ([], mk_dummy (du_stage st) (du_queue st ++ [m]) (mm_ts m) (du_prev_audio_ts st) (du_audio_count st))
    else if ((mm_ts m + 4294967296 - du_first_video_ts st) mod 4294967296) <? wait_ms then Ok ([], du_cache st m)
    else
      let st3 := mk_dummy 3 (du_queue st) (du_first_video_ts st) (du_prev_audio_ts st) (du_audio_count st) in
      let* (o1, st') := dummy_replay fx st3 (du_queue st) [] in
      let st'' := mk_dummy 3 [] (du_first_video_ts st') (du_prev_audio_ts st') (du_audio_count st') in
      let* (o2, st''') := dummy_stage3 fx st'' m in
      Ok (o1 ++ o2, st''')
  else Ok ([], st).

Definition dummy_feed (fx : fixes) (wait_ms : N) (st : dummy_st) (m : mmsg) : res (list mmsg * dummy_st) :=
  if du_stage st =? 1 then dummy_stage1 fx wait_ms st m
  else if du_stage st =? 2 then Ok ([m], st)
  else if du_stage st =? 3 then dummy_stage3 fx st m
  else Ok ([], st).
