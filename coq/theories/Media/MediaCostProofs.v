(* Work bounds: one fan-out step costs at most a constant (plus the number of
   rtmp / http-flv consumers) times the message size, plus the bytes still held
   in the two probe queues; the dummy audio filter pops a bounded number of
   messages per message it handles. *)
From Lal Require Import Common.LBytes Common.Res Media.MediaMsgChecked Media.MediaMsgProofs Media.MediaDummyAudio Media.MediaDummyProofs
  Media.MediaTsRemux Media.MediaRtspRemux Media.MediaBroadcast.
From Coq Require Import Lia ZifyN ZifyNat ZifyBool.
Open Scope N_scope.

Definition fan (g : grp_st) : N := 8 + lenN (g_rtmp_subs g) + lenN (g_flv_subs g).
(* bytes (and messages) waiting in Rtmp2MpegtsRemuxer's probe filter and Rtmp2RtspRemuxer's analysis cache *)
Definition pending (g : grp_st) : N := msgs_cost (ts_data (g_ts g)) + msgs_cost (rs_cache (g_rtsp g)).

Lemma bc_cost_le g m t r : bc_cost g m t r <= fan g * msg_cost m + pending g.
Proof.
  unfold bc_cost, fan, pending.
  destruct (negb (ts_done (g_ts g)) && ts_done t); destruct (negb (rs_done (g_rtsp g)) && rs_done r); lia.
Qed.

Lemma broadcast_cost fx cf rf sf acfg c g m g' k :
  broadcast fx cf rf sf acfg c g m = Ok (g', k) -> k <= fan g * msg_cost m + pending g.
Proof.
  unfold broadcast.
  destruct (bc_meta acfg m); cbn [bind]; try discriminate.
  destruct (mm_pay m) as [|b0 rest] eqn:Ep.
  { intro H. inversion H; subst. unfold fan, msg_cost. rewrite Ep. unfold lenN. cbn [length]. lia. }
  destruct (bc_ts fx cf c g m) as [t| |]; cbn [bind]; try discriminate.
  destruct (bc_rtsp fx rf acfg c g m) as [[r [sdp' rsubs']]| |]; cbn [bind]; try discriminate.
  destruct (subs_step fx (g_rtmp_hasgop g) m (g_rtmp_subs g)); cbn [bind]; try discriminate.
  destruct (subs_step fx (g_flv_hasgop g) m (g_flv_subs g)); cbn [bind]; try discriminate.
  destruct (bc_rgop fx c g m); cbn [bind]; try discriminate.
  destruct (bc_fgop fx c g m); cbn [bind]; try discriminate.
  destruct (stat_step fx rf sf g m) as [[[[ac vc] w] h]| |]; cbn [bind]; try discriminate.
  intro H. inversion H; subst. apply bc_cost_le.
Qed.

(* the dummy audio filter, fixed: at most 478 popped messages per message it handles
   (the one it was given plus at most 477 silent frames = 10 s), including each
   queued message replayed when the analysis stage ends *)
Lemma dummy_outputs_bounded fx wait st m :
  fx_avcsh fx = true -> fx_hevcsh fx = true -> fx_dummy fx = true ->
  Forall ts_ok (du_queue st) -> ts_ok m ->
  exists outs st', dummy_feed fx wait st m = Ok (outs, st') /\ lenN outs <= 478 * (lenN (du_queue st) + 1).
Proof.
  intros F1 F2 FD Hq Hm.
  destruct (dummy_feed_ok (fun _ => True) (fun _ => I) (fun _ => I) fx F1 F2 FD wait st m) as (outs & st' & E & _ & Hl & _ & _).
  - unfold du_inv. clear. induction (du_queue st); constructor; [exact I|assumption].
  - exact Hq.
  - exact Hm.
  - exact I.
  - exists outs, st'. split; assumption.
Qed.
