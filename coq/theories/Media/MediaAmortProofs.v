(* Amortised work bound over whole histories: potential = bytes held in the mpegts
   probe queue, the rtsp analysis cache and (weighted) the dummy audio filter's
   early-stage queue. *)
From Lal Require Import Common.LBytes Common.Res Media.MediaMsgChecked Media.MediaMsgProofs Media.MediaDummyAudio Media.MediaDummyProofs
  Media.MediaTsRemux Media.MediaTsProofs Media.MediaRtspRemux Media.MediaRtspProofs Media.MediaBroadcast Media.MediaBroadcastProofs
  Media.MediaCostProofs Rtmp.RtmpAmf0 Rtmp.RtmpMetadata.
From Coq Require Import Lia ZifyN ZifyNat ZifyBool.
Open Scope N_scope.

(* inversion of a chain of let* *)
Tactic Notation "bstep" hyp(H) "as" simple_intropattern(x) ident(E) :=
  match type of H with
  | bind ?r _ = Ok _ => destruct r as [x| |] eqn:E; cbn [bind] in H; try discriminate H
  end.

Lemma msgs_cost_app a b : msgs_cost (a ++ b) = msgs_cost a + msgs_cost b.
Proof. induction a as [|x t IH]; cbn [msgs_cost app fold_right]; [reflexivity|]. unfold msgs_cost in *. cbn [fold_right]. rewrite IH. lia. Qed.
Lemma msgs_cost_one m : msgs_cost [m] = msg_cost m.
Proof. unfold msgs_cost. cbn [fold_right]. lia. Qed.

(* ---- shapes of the two probe queues after one message ---------------------------- *)
Definition q_shape (done : bool) (q : list mmsg) (m : mmsg) (done' : bool) (q' : list mmsg) : Prop :=
  (done' = done /\ q' = q) \/
  (done = false /\ done' = false /\ q' = q ++ [m]) \/
  (done = false /\ done' = true /\ q' = []).

Lemma ts_feed_shape fx cf s m s' ev :
  ts_feed fx cf s m = Ok (s', ev) -> q_shape (ts_done s) (ts_data s) m (ts_done s') (ts_data s').
Proof.
  unfold ts_feed. destruct (ts_done s) eqn:D.
  - intro H. bstep H as [r e] E1. inversion H; subst. left. split; reflexivity.
  - intro H. bstep H as ac E1. bstep H as vc E2. destruct (_ || _).
    + bstep H as [r e] E3. inversion H; subst. right. right. repeat split.
    + inversion H; subst. right. left. repeat split.
Qed.

Lemma do_analyze_shape fx add s s' ev :
  rtsp_do_analyze fx add s = Ok (s', ev) ->
  (rs_cache s' = rs_cache s /\ rs_done s' = rs_done s) \/ (rs_done s' = true /\ rs_cache s' = []).
Proof.
  unfold rtsp_do_analyze. destruct (negb (rtsp_enough s)); [intro H; inversion H; subst; left; split; reflexivity|].
  cbn [rs_asc rs_cache rs_done].
  destruct (rs_asc s) as [asc|].
  - destruct (short asc 2 || (12 <? asc_sfi asc)); [intro H; inversion H; subst; left; split; reflexivity|].
    intro H. bstep H as [s3 n] E1. inversion H; subst. right. split; reflexivity.
  - intro H. bstep H as [s3 n] E1. inversion H; subst. right. split; reflexivity.
Qed.

Lemma audio_packer_done s : rs_done (fst (rtsp_audio_packer s)) = rs_done s.
Proof.
  unfold rtsp_audio_packer. destruct (rs_apacker s); [reflexivity|].
  destruct (_ || _); [reflexivity|]. destruct (_ =? pt_opus); [reflexivity|].
  destruct (_ =? pt_aac); [|reflexivity]. destruct (rs_asc s) as [asc|]; [|reflexivity].
  destruct (short asc 2); reflexivity.
Qed.

Section Shapes.
Variable fx : fixes.
Variable rf : rec_fns.
Variable acfg : amf_cfg.
Hypothesis FX : fx_msg_ok fx.
Hypothesis FR : fx_rtspidx fx = true.
Hypothesis FA : fx_addflag fx = true.
Hypothesis RF : rf_safe rf.
Variable add : bool.

Lemma rtsp_remux_done s m : gate_ok m -> forall s' n, rtsp_remux fx add s m = Ok (s', n) -> rs_cache s' = rs_cache s /\ rs_done s' = rs_done s.
Proof.
  intros Hg s' n H.
  destruct (rtsp_remux_ok fx FX FR FA add s m Hg) as (s1 & n1 & E & Hc). rewrite E in H. inversion H; subst. split; [exact Hc|].
  clear H. revert E. unfold rtsp_remux.
  destruct (mm_type m =? t_audio).
  { pose proof (audio_packer_done s) as Hd. destruct (rtsp_audio_packer s) as [sa has]. cbn [fst] in Hd.
    destruct (negb has); [intro H; inversion H; subst; exact Hd|].
    intro H. bstep H as c E1. bstep H as x E2. inversion H; subst. exact Hd. }
  destruct (mm_type m =? t_video); [|intro H; inversion H; reflexivity].
  destruct (rs_sps s); [|intro H; inversion H; reflexivity].
  intro H. bstep H as codec E1. bstep H as en E2. bstep H as index E3.
  destruct (_ && _ && _); [inversion H; reflexivity|].
  bstep H as payload E4. bstep H as payload2 E5. bstep H as n2 E6. inversion H; reflexivity.
Qed.

Lemma rtsp_meta_shape s p s' : rtsp_meta acfg s p = Ok s' -> rs_cache s' = rs_cache s /\ rs_done s' = rs_done s.
Proof.
  unfold rtsp_meta, rtsp_meta_gen.
  destruct (fst (parse_metadata acfg p)) as [meta|e|site]; [|intro X; inversion X; split; reflexivity|discriminate].
  intro X. bstep X as codec E1. bstep X as sr E2. inversion X. destruct codec as [bits|]; [|split; reflexivity].
  destruct (_ =? 8); [split; reflexivity|]. destruct (_ =? 7); [split; reflexivity|]. destruct (_ =? 13); split; reflexivity.
Qed.

Lemma rtsp_store_headers_shape s0 m s1 : rtsp_store_headers fx rf s0 m = Ok s1 -> rs_cache s1 = rs_cache s0 /\ rs_done s1 = rs_done s0.
Proof.
  unfold rtsp_store_headers. intro X. bstep X as a E1. destruct a.
  - destruct (rf_avc_parse rf (mm_pay m)) as [[sps pps]|e|site]; inversion X; split; reflexivity.
  - bstep X as h E2. destruct h; [|inversion X; split; reflexivity]. bstep X as enh E3.
    destruct (if enh then _ else _) as [[[v sp] q]|e|site]; inversion X; split; reflexivity.
Qed.

Lemma rtsp_feed_shape s m s' ev :
  rtsp_feed fx rf acfg add s m = Ok (s', ev) -> q_shape (rs_done s) (rs_cache s) m (rs_done s') (rs_cache s').
Proof.
  unfold rtsp_feed. destruct (mm_type m =? t_meta).
  { destruct (rs_done s) eqn:Ed0; [intro H; inversion H; subst; left; split; congruence|].
    intro H. bstep H as sm E1. inversion H; subst. left. destruct (rtsp_meta_shape _ _ _ E1) as [Hc Hd]. split; congruence. }
  destruct (rtsp_gate_short m) eqn:Gate; [intro H; inversion H; subst; left; split; reflexivity|].
  assert (Hg : gate_ok m).
  { unfold rtsp_gate_short in Gate. split; intro Ht; rewrite Ht in Gate; cbn in Gate; apply Nat.leb_gt in Gate; exact Gate. }
  destruct (rtsp_sniff_audio_ok fx FR FA s m Hg) as [s0 [-> [Hc0 Hd0]]]. cbn [bind].
  intro H. bstep H as ash E1. bstep H as vsh E2. rewrite <- Hc0, <- Hd0.
  destruct (negb (rs_done s0)) eqn:ND.
  - assert (Hdf : rs_done s0 = false) by (destruct (rs_done s0); [discriminate|reflexivity]).
    destruct vsh.
    + bstep H as s1 E3. destruct (rtsp_store_headers_shape _ _ _ E3) as [Hc1 Hd1].
      destruct (do_analyze_shape _ _ _ _ _ H) as [[Hc Hd]|[Hd Hc]].
      * left. split; congruence.
      * right. right. repeat split; [exact Hdf|exact Hd|exact Hc].
    + bstep H as aash E3. destruct aash.
      * bstep H as asc E4. destruct (do_analyze_shape _ _ _ _ _ H) as [[Hc Hd]|[Hd Hc]].
        -- left. cbn [rtsp_set_asc rs_cache rs_done] in Hc, Hd. split; congruence.
        -- right. right. repeat split; [exact Hdf|exact Hd|exact Hc].
      * destruct (do_analyze_shape _ _ _ _ _ H) as [[Hc Hd]|[Hd Hc]].
        -- right. left. cbn [rtsp_push_cache rs_cache rs_done] in Hc, Hd. repeat split; [exact Hdf|congruence|exact Hc].
        -- right. right. repeat split; [exact Hdf|exact Hd|exact Hc].
  - destruct vsh; [inversion H; subst; left; split; reflexivity|].
    bstep H as aash E3. destruct aash; [inversion H; subst; left; split; reflexivity|].
    bstep H as [s1 n] E4. inversion H; subst.
    destruct (rtsp_remux_done s0 m Hg s' n E4) as [Hc Hd]. left. split; congruence.
Qed.
End Shapes.

(* what one message costs against the queue it may sit in *)
Lemma q_shape_cost done q m done' q' :
  q_shape done q m done' q' ->
  (if negb done && done' then msgs_cost q else 0) + msgs_cost q' <= msgs_cost q + msg_cost m.
Proof.
  intros [[-> ->]|[(-> & -> & ->)|(-> & -> & ->)]].
  - destruct done; cbn [negb andb]; lia.
  - cbn [negb andb]. rewrite msgs_cost_app, msgs_cost_one. lia.
  - cbn [negb andb]. change (msgs_cost []) with 0. lia.
Qed.

(* ---- one fan-out step, amortised ---------------------------------------------------- *)
Section Amort.
Variable fx : fixes.
Variable cf : codec_fns.
Variable rf : rec_fns.
Variable sf : sps_fns.
Variable acfg : amf_cfg.
Variable c : grp_cfg.
Hypothesis FX : fx_all_ok fx.
Hypothesis CF : cf_safe cf.
Hypothesis RF : rf_safe rf.

Lemma bc_ts_shape g m t : bc_ts fx cf c g m = Ok t -> q_shape (ts_done (g_ts g)) (ts_data (g_ts g)) m (ts_done t) (ts_data t).
Proof.
  unfold bc_ts. destruct (gc_ts c); [|intro H; inversion H; subst; left; split; reflexivity].
  intro H. bstep H as [t1 ev] E1. inversion H; subst. eapply ts_feed_shape. exact E1.
Qed.

Lemma bc_rtsp_shape g m r x : bc_rtsp fx rf acfg c g m = Ok (r, x) -> q_shape (rs_done (g_rtsp g)) (rs_cache (g_rtsp g)) m (rs_done r) (rs_cache r).
Proof.
  unfold bc_rtsp. destruct (gc_rtsp c); [|intro H; inversion H; subst; left; split; reflexivity].
  intro H. bstep H as [r1 ev] E1. bstep H as x1 E2. inversion H; subst.
  pose proof FX as (FM & _ & FR & _ & _ & FA). eapply (rtsp_feed_shape fx rf acfg FM FR FA). exact E1.
Qed.

Lemma subs_step_len has m l l' : subs_step fx has m l = Ok l' -> length l' = length l.
Proof.
  intro H.
  destruct (subs_step_ok fx FX has m l) as (l2 & E & Hl). rewrite E in H. inversion H; subst. exact Hl.
Qed.

Lemma msg_cost_pos m : 1 <= msg_cost m.
Proof. unfold msg_cost. lia. Qed.

Lemma broadcast_amort g m g' k :
  broadcast fx cf rf sf acfg c g m = Ok (g', k) ->
  k + pending g' <= pending g + (fan g + 2) * msg_cost m /\ fan g' = fan g /\ g_dummy g' = g_dummy g.
Proof.
  unfold broadcast. intro H. bstep H as u E0.
  pose proof (msg_cost_pos m) as Hpos.
  destruct (mm_pay m) as [|b0 rest] eqn:Ep.
  { inversion H; subst. repeat split. unfold fan. nia. }
  bstep H as t E1. bstep H as [r [sdp' rsubs']] E2. bstep H as rsubs E3. bstep H as fsubs E4.
  bstep H as rg E5. bstep H as fg E6. bstep H as [[[ac vc] w] h] E7.
  inversion H; subst. clear H.
  pose proof (q_shape_cost _ _ _ _ _ (bc_ts_shape g m t E1)) as H1.
  pose proof (q_shape_cost _ _ _ _ _ (bc_rtsp_shape g m r _ E2)) as H2.
  pose proof (subs_step_len _ _ _ _ E3) as L3. pose proof (subs_step_len _ _ _ _ E4) as L4.
  repeat split.
  - unfold bc_cost, pending. cbn [g_ts g_rtsp]. fold (fan g). rewrite N.mul_add_distr_r.
    remember (fan g * msg_cost m) as X.
    remember (if negb (ts_done (g_ts g)) && ts_done t then msgs_cost (ts_data (g_ts g)) else 0) as D1.
    remember (if negb (rs_done (g_rtsp g)) && rs_done r then msgs_cost (rs_cache (g_rtsp g)) else 0) as D2.
    lia.
  - unfold fan, lenN. cbn [g_rtmp_subs g_flv_subs]. rewrite L3, L4. reflexivity.
Qed.

Lemma broadcast_all_amort l : forall g k0 g' k,
  broadcast_all fx cf rf sf acfg c g l k0 = Ok (g', k) ->
  k + pending g' <= k0 + pending g + (fan g + 2) * msgs_cost l /\ fan g' = fan g /\ g_dummy g' = g_dummy g.
Proof.
  induction l as [|m t IH]; intros g k0 g' k H; cbn [broadcast_all] in H.
  - inversion H; subst. change (msgs_cost []) with 0. repeat split. lia.
  - bstep H as [g1 k1] E1. destruct (broadcast_amort g m g1 k1 E1) as (A1 & A2 & A3).
    destruct (IH g1 (k0 + k1) g' k H) as (B1 & B2 & B3).
    repeat split; [|congruence|congruence].
    change (m :: t) with ([m] ++ t). rewrite msgs_cost_app, msgs_cost_one. rewrite A2 in B1.
    rewrite N.mul_add_distr_l. lia.
Qed.
End Amort.

(* ---- the dummy audio filter, amortised --------------------------------------------- *)
Definition fill_cost : N := 4293.   (* 477 silent frames of 1 + 8 bytes: 10 s *)

(* weight of the early-stage queue: every queued message is popped once, with at most 10 s of silence in front *)
Definition dW (st : dummy_st) : N :=
  if du_stage st =? 1 then msgs_cost (du_queue st) + fill_cost * lenN (du_queue st) else 0.

Lemma cost9_sum l : Forall (fun x => msg_cost x <= 9) l -> msgs_cost l <= 9 * lenN l.
Proof.
  induction l as [|x t IH]; intro H; [change (msgs_cost []) with 0; lia|]. inversion H as [|? ? Hx Ht]; subst.
  change (x :: t) with ([x] ++ t). rewrite msgs_cost_app, msgs_cost_one. specialize (IH Ht). unfold lenN in *. cbn [length app]. lia.
Qed.

Lemma lenN_cons {A} (x : A) l : lenN (x :: l) = 1 + lenN l.
Proof. unfold lenN. cbn [length]. lia. Qed.
Lemma lenN_app {A} (a b : list A) : lenN (a ++ b) = lenN a + lenN b.
Proof. unfold lenN. rewrite app_length. lia. Qed.

Section DummyCost.
Variable fx : fixes.
Hypothesis F1 : fx_avcsh fx = true.
Hypothesis F2 : fx_hevcsh fx = true.
Hypothesis FD : fx_dummy fx = true.

Lemma dummy_stage3_cost st m :
  ts_ok m ->
  exists outs st', dummy_stage3 fx st m = Ok (outs, st') /\ msgs_cost outs <= msg_cost m + fill_cost /\
                   du_queue st' = du_queue st /\ du_stage st' = du_stage st.
Proof.
  intros Hts. unfold dummy_stage3. unfold fill_cost.
  assert (C0 : msgs_cost [] <= msg_cost m + 4293) by (change (msgs_cost []) with 0; lia).
  assert (C1 : msgs_cost [m] <= msg_cost m + 4293) by (rewrite msgs_cost_one; lia).
  assert (C2 : forall x, msg_cost x <= 9 -> msgs_cost [x; m] <= msg_cost m + 4293).
  { intros x Hx. change [x; m] with ([x] ++ [m]). rewrite msgs_cost_app, !msgs_cost_one. lia. }
  destruct (mm_type m =? t_audio); [do 2 eexists; split; [reflexivity|]; refine (conj C0 (conj eq_refl eq_refl))|].
  destruct (mm_type m =? t_meta); [do 2 eexists; split; [reflexivity|]; refine (conj C1 (conj eq_refl eq_refl))|].
  destruct (vsh_total fx m F1 F2) as [sh ->]. cbn [bind].
  destruct sh; [do 2 eexists; split; [reflexivity|]; refine (conj (C2 _ _) (conj eq_refl eq_refl)); vm_compute; discriminate|].
  destruct (du_prev_audio_ts st =? max_u32);
    [do 2 eexists; split; [reflexivity|]; refine (conj (C2 _ _) (conj eq_refl eq_refl)); vm_compute; discriminate|].
  rewrite FD. cbn [andb negb].
  destruct ((du_prev_audio_ts st <? mm_ts m) && (dummy_max_fill_ms <? mm_ts m - du_prev_audio_ts st)) eqn:G;
    [do 2 eexists; split; [reflexivity|]; refine (conj (C2 _ _) (conj eq_refl eq_refl)); vm_compute; discriminate|].
  assert (Hgap : mm_ts m <= du_prev_audio_ts st \/ mm_ts m - du_prev_audio_ts st <= 10000).
  { apply andb_false_iff in G. destruct G as [G|G]; [left; apply N.ltb_ge in G; exact G|right; apply N.ltb_ge in G; exact G]. }
  assert (Q1 : forall ts, msg_cost (dummy_aac_frame ts) <= 9) by (intro; vm_compute; discriminate).
  assert (Q2 : forall ts, msg_cost (dummy_aac_seq_header ts) <= 9) by (intro; vm_compute; discriminate).
  destruct (dummy_fill_ok (fun x => msg_cost x <= 9) Q1 Q2 1999 (du_prev_audio_ts st) (du_audio_count st) (mm_ts m) [])
    as (auds & p' & c' & Ho & Hqa & Hl).
  - exact Hts.
  - change (N.of_nat 1999) with 1999. lia.
  - constructor.
  - change dummy_fuel with (S 1999). rewrite Ho. cbn [bind].
    do 2 eexists. split; [reflexivity|]. refine (conj _ (conj eq_refl eq_refl)).
    rewrite msgs_cost_app, msgs_cost_one. pose proof (cost9_sum _ Hqa). change (lenN []) with 0 in Hl. lia.
Qed.

Lemma dummy_replay_cost q : forall st acc,
  Forall ts_ok q ->
  exists outs st', dummy_replay fx st q acc = Ok (outs, st') /\
                   msgs_cost outs <= msgs_cost acc + msgs_cost q + fill_cost * lenN q /\ du_stage st' = du_stage st.
Proof.
  induction q as [|x t IH]; intros st acc Hts; cbn [dummy_replay].
  - do 2 eexists. split; [reflexivity|]. split; [|reflexivity]. change (msgs_cost []) with 0. change (lenN []) with 0. lia.
  - inversion Hts as [|? ? Hx Ht]; subst.
    destruct (dummy_stage3_cost st x Hx) as (o & st1 & -> & Ho & _ & Hsg). cbn [bind].
    destruct (IH st1 (acc ++ o) Ht) as (outs & st2 & -> & Houts & Hsg2).
    do 2 eexists. split; [reflexivity|]. split; [|congruence].
    rewrite msgs_cost_app in Houts. change (x :: t) with ([x] ++ t). rewrite msgs_cost_app, msgs_cost_one, lenN_app.
    change (lenN [x]) with 1. lia.
Qed.

Lemma dummy_feed_amort wait st m :
  du_inv_ts st -> ts_ok m ->
  exists outs st', dummy_feed fx wait st m = Ok (outs, st') /\ msgs_cost outs + dW st' <= dW st + msg_cost m + fill_cost.
Proof.
  intros Hits Hts. unfold dummy_feed.
  destruct (du_stage st =? 1) eqn:S1.
  - assert (Hc : forall st2, du_stage st2 = du_stage st -> du_queue st2 = du_queue st ++ [m] ->
                 msgs_cost [] + dW st2 <= dW st + msg_cost m + fill_cost).
    { intros st2 Hs Hq. unfold dW. rewrite Hs, S1, Hq, msgs_cost_app, msgs_cost_one, lenN_app.
      change (msgs_cost []) with 0. change (lenN [m]) with 1. lia. }
    unfold dummy_stage1.
    destruct (mm_type m =? t_meta); [do 2 eexists; split; [reflexivity|]; apply Hc; reflexivity|].
    destruct (mm_type m =? t_audio).
    { do 2 eexists. split; [reflexivity|]. unfold dW at 1. cbn [du_stage]. change (2 =? 1) with false. cbn iota.
      unfold dW. rewrite S1. rewrite msgs_cost_app, msgs_cost_one. unfold fill_cost. lia. }
    destruct (mm_type m =? t_video).
    2:{ do 2 eexists. split; [reflexivity|]. change (msgs_cost []) with 0. unfold fill_cost. lia. }
    destruct (vsh_total fx m F1 F2) as [sh ->]. cbn [bind].
    destruct sh; [do 2 eexists; split; [reflexivity|]; apply Hc; reflexivity|].
    destruct (du_first_video_ts st =? max_u32); [do 2 eexists; split; [reflexivity|]; apply Hc; reflexivity|].
    destruct (_ <? wait); [do 2 eexists; split; [reflexivity|]; apply Hc; reflexivity|].
    match goal with |- context [dummy_replay fx ?s3 (du_queue st) []] =>
      destruct (dummy_replay_cost (du_queue st) s3 [] Hits) as (o1 & st1 & -> & Ho1 & Hsg1) end.
    cbn [bind].
    match goal with |- context [dummy_stage3 fx ?s4 m] =>
      destruct (dummy_stage3_cost s4 m Hts) as (o2 & st2 & -> & Ho2 & _ & Hsg2) end.
    cbn [bind]. cbn [du_stage] in Hsg1, Hsg2.
    do 2 eexists. split; [reflexivity|].
    unfold dW at 1. rewrite Hsg2. change (3 =? 1) with false. cbn iota.
    unfold dW. rewrite S1. rewrite msgs_cost_app. change (msgs_cost []) with 0 in Ho1. lia.
  - assert (Hz : dW st = 0) by (unfold dW; rewrite S1; reflexivity).
    destruct (du_stage st =? 2).
    { do 2 eexists. split; [reflexivity|]. rewrite msgs_cost_one. unfold fill_cost. lia. }
    destruct (du_stage st =? 3); [|do 2 eexists; split; [reflexivity|]; change (msgs_cost []) with 0; unfold fill_cost; lia].
    destruct (dummy_stage3_cost st m Hts) as (o & st1 & -> & Ho & _ & Hsg).
    do 2 eexists. split; [reflexivity|]. unfold dW at 1. rewrite Hsg, S1. lia.
Qed.
End DummyCost.

(* ---- whole histories ------------------------------------------------------------------ *)
Section History.
Variable fx : fixes.
Variable cf : codec_fns.
Variable rf : rec_fns.
Variable sf : sps_fns.
Variable acfg : amf_cfg.
Variable c : grp_cfg.
Hypothesis FX : fx_all_ok fx.
Hypothesis CF : cf_safe cf.
Hypothesis RF : rf_safe rf.
Variable F : N.     (* bound on fan + 2 over the history *)

Definition phi (g : grp_st) : N := pending g + F * dW (g_dummy g).

Lemma on_read_amort g m :
  ginv rf sf g -> stat_safe rf sf m -> ts_ok m -> fan g + 2 <= F ->
  exists g' k, on_read fx cf rf sf acfg c g m = Ok (g', k) /\ ginv rf sf g' /\ fan g' = fan g /\
               k + phi g' <= phi g + (F + 1) * msg_cost m + F * fill_cost.
Proof.
  intros Hi Hs Hts HF. unfold on_read. destruct (gc_dummy c) as [wait|].
  - destruct Hi as (Hi1 & Hi2 & Hi3 & Hi4).
    pose proof FX as ((F1 & F2 & _) & _ & _ & FD & _ & _).
    destruct (dummy_feed_ok (stat_safe rf sf) (fun ts => proj1 (GEN rf sf ts)) (fun ts => proj2 (GEN rf sf ts)) fx F1 F2 FD wait (g_dummy g) m Hi3 Hi4 Hts Hs)
      as (outs & d' & E & Ho & _ & Hd1 & Hd2).
    destruct (dummy_feed_amort fx F1 F2 FD wait (g_dummy g) m Hi4 Hts) as (outs2 & d2 & E2 & Hcost).
    rewrite E in E2. inversion E2; subst outs2 d2. clear E2. rewrite E. cbn [bind].
    match goal with |- context [broadcast_all fx cf rf sf acfg c ?g1 outs ?k0] =>
      destruct (broadcast_all_ok fx cf rf sf acfg c FX CF RF outs g1 k0) as (g2 & k2 & E3 & Hi' & _); [repeat split; assumption|exact Ho|];
      destruct (broadcast_all_amort fx cf rf sf acfg c FX outs g1 k0 g2 k2 E3) as (A1 & A2 & A3) end.
    rewrite E3. do 2 eexists. split; [reflexivity|]. split; [exact Hi'|]. split; [exact A2|].
    unfold phi. rewrite A3. cbn [g_dummy]. unfold pending in *. cbn [g_ts g_rtsp] in A1. unfold fan in A1, HF. cbn [g_rtmp_subs g_flv_subs] in A1.
    fold (fan g) in A1, HF.
    assert (Hm : (fan g + 2) * msgs_cost outs <= F * msgs_cost outs) by (apply N.mul_le_mono_r; exact HF).
    assert (Hd : F * (msgs_cost outs + dW d') <= F * (dW (g_dummy g) + msg_cost m + fill_cost)) by (apply N.mul_le_mono_l; exact Hcost).
    rewrite !N.mul_add_distr_l in Hd. rewrite N.mul_add_distr_r. lia.
  - destruct (broadcast_ok fx cf rf sf acfg c FX CF RF g m Hi Hs) as (g1 & k1 & E & Hi1 & _).
    destruct (broadcast_amort fx cf rf sf acfg c FX g m g1 k1 E) as (A1 & A2 & A3).
    rewrite E. do 2 eexists. split; [reflexivity|]. split; [exact Hi1|]. split; [exact A2|].
    unfold phi. rewrite A3.
    assert (Hm : (fan g + 2) * msg_cost m <= F * msg_cost m) by (apply N.mul_le_mono_r; exact HF).
    rewrite N.mul_add_distr_r. lia.
Qed.

Lemma phi_try_play g : phi (try_play g) = phi g.
Proof. unfold try_play. destruct (g_sdp g) as [[[|] k]|]; reflexivity. Qed.
Lemma fan_try_play g : fan (try_play g) = fan g.
Proof. unfold try_play. destruct (g_sdp g) as [[[|] k]|]; reflexivity. Qed.

Lemma gtotal_amort l : forall g,
  ginv rf sf g -> Forall (ev_ok rf sf) l -> fan g + joins_count l + 2 <= F ->
  exists tot, gtotal fx cf rf sf acfg c g l = Some tot /\
              tot <= phi g + (F + 1) * pubs_cost l + F * fill_cost * pubs_count l.
Proof.
  induction l as [|e t IH]; intros g Hi Hl HF; cbn [gtotal pubs_cost pubs_count joins_count].
  - exists 0. split; [reflexivity|]. lia.
  - inversion Hl as [|? ? He Ht]; subst.
    destruct e as [m| | | |]; cbn [gstep].
    + destruct He as [Hs Hts]. cbn [joins_count] in HF.
      destruct (on_read_amort g m Hi Hs Hts ltac:(lia)) as (g' & k & -> & Hi' & Hfan & Hk). cbn [bind].
      destruct (IH (try_play g') (ginv_try_play rf sf g' Hi') Ht ltac:(rewrite fan_try_play; lia)) as (r & -> & Hr).
      rewrite phi_try_play in Hr.
      eexists. split; [reflexivity|]. rewrite !N.mul_add_distr_l. lia.
    + cbn [joins_count] in HF.
      match goal with |- context [gtotal fx cf rf sf acfg c ?g1 t] =>
        destruct (IH g1) as (r & -> & Hr);
          [destruct Hi as (H1 & H2 & H3 & H4); repeat split; assumption|exact Ht| |] end.
      * unfold fan in *. cbn [g_rtmp_subs g_flv_subs]. rewrite lenN_app. change (lenN [join_sub g]) with 1. lia.
      * eexists. split; [reflexivity|]. unfold phi, pending in *. cbn [g_ts g_rtsp g_dummy] in Hr. lia.
    + cbn [joins_count] in HF.
      match goal with |- context [gtotal fx cf rf sf acfg c ?g1 t] =>
        destruct (IH g1) as (r & -> & Hr);
          [destruct Hi as (H1 & H2 & H3 & H4); repeat split; assumption|exact Ht| |] end.
      * unfold fan in *. cbn [g_rtmp_subs g_flv_subs]. rewrite lenN_app. change (lenN [join_sub g]) with 1. lia.
      * eexists. split; [reflexivity|]. unfold phi, pending in *. cbn [g_ts g_rtsp g_dummy] in Hr. lia.
    + cbn [joins_count] in HF.
      match goal with |- context [gtotal fx cf rf sf acfg c ?g1 t] =>
        destruct (IH g1) as (r & -> & Hr);
          [apply ginv_try_play; destruct Hi as (H1 & H2 & H3 & H4); repeat split; assumption|exact Ht|rewrite fan_try_play; exact HF|] end.
      eexists. split; [reflexivity|]. rewrite phi_try_play in Hr. unfold phi, pending in *. cbn [g_ts g_rtsp g_dummy set_rsubs] in Hr. lia.
    + cbn [joins_count] in HF. destruct (IH g Hi Ht HF) as (r & -> & Hr). eexists. split; [reflexivity|]. lia.
Qed.
End History.
