(* The rtsp remuxer never panics (and never runs out of fuel) once the fixes are
   in, for both values of remux.RtspRemuxerAddSpsPps2KeyFrameFlag (after the F-46 repair), as
   long as the record parsers do not panic themselves. *)
From Lal Require Import Common.LBytes Common.Res Media.MediaMsgChecked Media.MediaMsgProofs Media.MediaTsRemux Media.MediaTsProofs
  Media.MediaRtspRemux Rtmp.RtmpAmf0 Rtmp.RtmpMetadata Rtmp.RtmpMetadataProofs.
From Coq Require Import Lia ZifyN ZifyNat ZifyBool.
Open Scope N_scope.

Definition rf_safe (rf : rec_fns) : Prop :=
  forall p, (1 <= length p)%nat ->
    no_panic (rf_avc_parse rf p) /\ no_panic (rf_hevc_parse rf p) /\ no_panic (rf_hevc_parse_enh rf p).

(* what the length gates of FeedRtmpMsg let through *)
Definition gate_ok (m : mmsg) : Prop :=
  (mm_type m = t_audio -> (2 < length (mm_pay m))%nat) /\ (mm_type m = t_video -> (5 < length (mm_pay m))%nat).

Definition rtsp_inv (s : rtsp_st) : Prop := Forall gate_ok (rs_cache s).

Lemma video_payloads_ok hevc payload : is_ok (video_payloads hevc payload).
Proof.
  unfold video_payloads. destruct (split_avcc_cases payload) as [[nals [-> _]]|[e [-> He]]]; [eexists; reflexivity|].
  apply N.eqb_neq in He. rewrite He. eexists; reflexivity.
Qed.

Lemma audio_packer_cache s : rs_cache (fst (rtsp_audio_packer s)) = rs_cache s.
Proof.
  unfold rtsp_audio_packer. destruct (rs_apacker s); [reflexivity|].
  destruct (_ || _); [reflexivity|]. destruct (_ =? pt_opus); [reflexivity|].
  destruct (_ =? pt_aac); [|reflexivity]. destruct (rs_asc s) as [asc|]; [|reflexivity].
  destruct (short asc 2); reflexivity.
Qed.

Section Rtsp.
Variable fx : fixes.
Variable rf : rec_fns.
Variable acfg : amf_cfg.
Hypothesis FX : fx_msg_ok fx.
Hypothesis FR : fx_rtspidx fx = true.
Hypothesis FA : fx_addflag fx = true.
Hypothesis RF : rf_safe rf.
Variable add : bool.

Lemma rtsp_add_spspps_ok s m payload t : is_ok (rtsp_add_spspps fx s m payload (Ok t)).
Proof.
  destruct FX as (F1 & F2 & F3 & F4 & F5 & F6). unfold rtsp_add_spspps.
  destruct (avckn_total fx m F3) as [ak ->]. cbn [bind].
  destruct (ak && _); cbn [bind]; (destruct (hevckn_total fx m F4) as [hk ->]; cbn [bind];
    destruct hk; [destruct (rs_vps s); [destruct (rs_pps s); eexists; reflexivity|eexists; reflexivity]|eexists; reflexivity]).
Qed.

Lemma rtsp_remux_ok s m :
  gate_ok m -> exists s' n, rtsp_remux fx add s m = Ok (s', n) /\ rs_cache s' = rs_cache s.
Proof.
  pose proof FX as (F1 & F2 & F3 & F4 & F5 & F6). intros [Ga Gv]. unfold rtsp_remux.
  destruct (mm_type m =? t_audio) eqn:Ta.
  { apply N.eqb_eq in Ta. specialize (Ga Ta).
    pose proof (audio_packer_cache s) as Hc. destruct (rtsp_audio_packer s) as [s1 has]. cbn [fst] in Hc.
    destruct (negb has); [do 2 eexists; split; [reflexivity|exact Hc]|].
    destruct (acid_ok m) as [c ->]; [lia|]. cbn [bind].
    destruct (_ || _); cbn zeta; rewrite from_ok by lia; cbn [bind]; do 2 eexists; (split; [reflexivity|exact Hc]). }
  destruct (mm_type m =? t_video) eqn:Tv; [|do 2 eexists; split; reflexivity].
  apply N.eqb_eq in Tv. specialize (Gv Tv).
  destruct (rs_sps s) as [sps|]; [|do 2 eexists; split; reflexivity].
  destruct (vcid_total fx m F6) as [codec ->]. cbn [bind].
  assert (Hne : (1 <= length (mm_pay m))%nat) by lia.
  assert (Hen : exists en, (if codec =? codec_hevc then is_enhanced_hevc_nalu m else Ok false) = Ok en /\ (en = true -> is_enhanced_hevc_nalu m = Ok true)).
  { destruct (codec =? codec_hevc).
    - destruct (enhn_ok m Hne) as [en E]. exists en. split; [exact E|]. intros ->. exact E.
    - exists false. split; [reflexivity|discriminate]. }
  destruct Hen as [en [-> Hen1]]. cbn [bind].
  assert (Hix : exists index, (if en then enhanced_hevc_nalu_index m else Ok 5%nat) = Ok index /\ (index = 5 \/ index = 8)%nat /\ (en = false -> index = 5%nat)).
  { destruct en.
    - destruct (enhi_ok m Hne) as [i [Hi _]]. exists i. repeat split; [exact Hi| |discriminate].
      exact (enhi_of_enhn m i (Hen1 eq_refl) Hi).
    - exists 5%nat. repeat split; lia. }
  destruct Hix as [index [-> [Hidx Hen5]]]. cbn [bind]. rewrite FR. cbn [andb].
  destruct (en && Nat.leb (length (mm_pay m)) index) eqn:G; [do 2 eexists; split; reflexivity|].
  assert (Hle : (index <= length (mm_pay m))%nat).
  { destruct en; cbn [andb] in G; [apply Nat.leb_gt in G; lia|]. rewrite (Hen5 eq_refl). lia. }
  rewrite from_ok by exact Hle. cbn [bind].
  assert (Hfin : forall (s1 : rtsp_st) h p2, exists s' n,
             (let* n := video_payloads h p2 in Ok (s1, map (pair true) n)) = Ok (s', n) /\ rs_cache s' = rs_cache s1).
  { intros s1 h p2. destruct (video_payloads_ok h p2) as [n ->]. cbn [bind]. do 2 eexists; split; reflexivity. }
  destruct add; [|cbn [bind]; exact (Hfin _ _ _)].
  rewrite FA. destruct (Nat.leb _ 4); [cbn [bind]; exact (Hfin _ _ _)|].
  destruct (rtsp_add_spspps_ok s m (skipn index (mm_pay m)) (skipn 4 (skipn index (mm_pay m)))) as [p2 Hp2].
  match goal with |- context [rtsp_add_spspps fx ?a ?b ?c ?e] =>
    destruct (rtsp_add_spspps fx a b c e) as [p3|er|si] eqn:E3 end.
  - cbn [bind]. exact (Hfin _ _ _).
  - exfalso. assert (Hx : @Err bytes er = Ok p2) by (rewrite <- E3; exact Hp2). discriminate Hx.
  - exfalso. assert (Hx : @Panic bytes si = Ok p2) by (rewrite <- E3; exact Hp2). discriminate Hx.
Qed.

Lemma rtsp_remux_all_ok l : forall s acc, Forall gate_ok l -> is_ok (rtsp_remux_all fx add s l acc).
Proof.
  induction l as [|m t IH]; intros s acc H; cbn [rtsp_remux_all]; [eexists; reflexivity|].
  inversion H as [|? ? Hm Ht]; subst.
  destruct (rtsp_remux_ok s m Hm) as [s' [n [-> _]]]. cbn [bind]. apply IH. exact Ht.
Qed.

Lemma rtsp_do_analyze_ok s :
  rtsp_inv s -> exists s' ev, rtsp_do_analyze fx add s = Ok (s', ev) /\ rtsp_inv s'.
Proof.
  intro Hinv. unfold rtsp_do_analyze.
  destruct (negb (rtsp_enough s)); [do 2 eexists; split; [reflexivity|exact Hinv]|].
  cbn [rs_asc rs_cache rs_done rs_vps rs_sps rs_pps rs_audio_pt rs_video_pt rs_apacker rs_vpacker].
  destruct (rs_asc s) as [asc|].
  - destruct (short asc 2 || (12 <? asc_sfi asc)); [do 2 eexists; split; [reflexivity|exact Hinv]|].
    match goal with |- context [rtsp_remux_all fx add ?s2 ?l []] => destruct (rtsp_remux_all_ok l s2 [] Hinv) as [[s3 n] ->] end.
    cbn [bind]. do 2 eexists; split; [reflexivity|constructor].
  - match goal with |- context [rtsp_remux_all fx add ?s2 ?l []] => destruct (rtsp_remux_all_ok l s2 [] Hinv) as [[s3 n] ->] end.
    cbn [bind]. do 2 eexists; split; [reflexivity|constructor].
Qed.

Lemma set_audio_pt_cache s pt : rs_cache (set_audio_pt s pt) = rs_cache s.
Proof. reflexivity. Qed.

(* no value type makes a comma-ok assertion panic *)
Lemma assert_f64_ok v : exists r, assert_f64 true v = Ok r.
Proof. destruct v as [[bits|b|str|l]|]; eexists; reflexivity. Qed.

Lemma rtsp_meta_ok s p : exists s', rtsp_meta acfg s p = Ok s' /\ rs_cache s' = rs_cache s.
Proof.
  unfold rtsp_meta, rtsp_meta_gen. destruct (parse_metadata_no_crash acfg p) as [_ Hnp].
  destruct (fst (parse_metadata acfg p)) as [meta|e|site].
  - destruct (assert_f64_ok (pairs_find MediaRtspRemux.k_audiocodecid meta)) as [codec ->]. cbn [bind].
    destruct (assert_f64_ok (pairs_find k_audiosamplerate meta)) as [sr ->]. cbn [bind].
    eexists; split; [reflexivity|]. destruct codec as [bits|]; [|reflexivity].
    destruct (_ =? 8); [reflexivity|]. destruct (_ =? 7); [reflexivity|]. destruct (_ =? 13); reflexivity.
  - eexists; split; reflexivity.
  - exfalso. exact (Hnp site eq_refl).
Qed.

Lemma rtsp_sniff_audio_ok s m :
  gate_ok m -> exists s0, rtsp_sniff_audio s m = Ok s0 /\ rs_cache s0 = rs_cache s /\ rs_done s0 = rs_done s.
Proof.
  intros [Ga _]. unfold rtsp_sniff_audio.
  destruct ((mm_type m =? t_audio) && (rs_audio_pt s =? pt_unknown)) eqn:E; [|exists s; repeat split].
  apply andb_true_iff in E. destruct E as [Ta _]. apply N.eqb_eq in Ta. specialize (Ga Ta).
  destruct (acid_ok m) as [c ->]; [lia|]. cbn [bind]. eexists. split; [reflexivity|].
  destruct (c =? 8); [split; reflexivity|]. destruct (c =? 7); [split; reflexivity|]. destruct (c =? 13); split; reflexivity.
Qed.

Lemma rtsp_store_headers_ok s0 m :
  (1 <= length (mm_pay m))%nat -> exists s1, rtsp_store_headers fx rf s0 m = Ok s1 /\ rs_cache s1 = rs_cache s0.
Proof.
  destruct FX as (F1 & F2 & F3 & F4 & F5 & F6). intro Hne. unfold rtsp_store_headers.
  destruct (RF (mm_pay m) Hne) as (R1 & R2 & R3).
  destruct (avcsh_total fx m F1) as [ash ->]. cbn [bind]. destruct ash.
  - destruct (rf_avc_parse rf (mm_pay m)) as [[sps pps]|e|site]; [eexists; split; reflexivity|eexists; split; reflexivity|].
    exfalso. exact (R1 site eq_refl).
  - destruct (hevcsh_total fx m F2) as [hsh ->]. cbn [bind]. destruct hsh; [|exists s0; split; reflexivity].
    destruct (enh_ok m Hne) as [enh ->]. cbn [bind].
    destruct (if enh then rf_hevc_parse_enh rf (mm_pay m) else rf_hevc_parse rf (mm_pay m)) as [[[vps sps] pps]|e|site] eqn:E;
      [eexists; split; reflexivity|eexists; split; reflexivity|].
    exfalso. destruct enh; [exact (R3 site E)|exact (R2 site E)].
Qed.

Lemma rtsp_feed_ok s m :
  rtsp_inv s -> exists s' ev, rtsp_feed fx rf acfg add s m = Ok (s', ev) /\ rtsp_inv s'.
Proof.
  destruct FX as (F1 & F2 & F3 & F4 & F5 & F6). intro Hinv. unfold rtsp_feed.
  destruct (mm_type m =? t_meta) eqn:Tm.
  { destruct (rs_done s); [do 2 eexists; split; [reflexivity|exact Hinv]|].
    destruct (rtsp_meta_ok s (mm_pay m)) as [s' [-> Hc]]. cbn [bind]. do 2 eexists; split; [reflexivity|].
    unfold rtsp_inv. rewrite Hc. exact Hinv. }
  destruct (rtsp_gate_short m) eqn:Gate; [do 2 eexists; split; [reflexivity|exact Hinv]|].
  assert (Hg : gate_ok m).
  { unfold rtsp_gate_short in Gate. split; intro Ht; rewrite Ht in Gate; cbn in Gate.
    - apply Nat.leb_gt in Gate. exact Gate.
    - apply Nat.leb_gt in Gate. exact Gate. }
  destruct (rtsp_sniff_audio_ok s m Hg) as [s0 [-> [Hc0 Hd0]]]. cbn [bind].
  assert (Hinv0 : rtsp_inv s0) by (unfold rtsp_inv; rewrite Hc0; exact Hinv).
  destruct (avcsh_total fx m F1) as [ash Hash]. rewrite Hash. cbn [bind].
  destruct (hevcsh_total fx m F2) as [hsh Hhsh].
  assert (Hvsh : exists vsh, (if ash then Ok true else is_hevc_key_seq_header fx m) = Ok vsh).
  { destruct ash; [eexists; reflexivity|exists hsh; exact Hhsh]. }
  destruct Hvsh as [vsh Hvsh]. rewrite Hvsh. cbn [bind].
  destruct (aacsh_total fx m F5) as [aash Haash].
  destruct (negb (rs_done s0)).
  - destruct vsh.
    + assert (Htv : mm_type m = t_video).
      { destruct ash; [exact (avcsh_true_video fx m Hash)|]. apply (hevcsh_true_video fx m). exact Hvsh. }
      assert (Hne : (1 <= length (mm_pay m))%nat) by (destruct Hg as [_ Gv]; specialize (Gv Htv); lia).
      destruct (rtsp_store_headers_ok s0 m Hne) as [s1 [-> Hc1]]. cbn [bind].
      apply rtsp_do_analyze_ok. unfold rtsp_inv. rewrite Hc1. exact Hinv0.
    + rewrite Haash. cbn [bind]. destruct aash.
      * assert (Hl : (2 <= length (mm_pay m))%nat).
        { destruct Hg as [Ga _]. specialize (Ga (aacsh_true_audio fx m Haash)). lia. }
        rewrite from_ok by exact Hl. cbn [bind]. apply rtsp_do_analyze_ok. exact Hinv0.
      * apply rtsp_do_analyze_ok. unfold rtsp_inv. cbn [rs_cache rtsp_push_cache]. apply Forall_app. split; [exact Hinv0|constructor; [exact Hg|constructor]].
  - destruct vsh; [do 2 eexists; split; [reflexivity|exact Hinv0]|].
    rewrite Haash. cbn [bind]. destruct aash; [do 2 eexists; split; [reflexivity|exact Hinv0]|].
    destruct (rtsp_remux_ok s0 m Hg) as [s1 [n [-> Hc1]]]. cbn [bind].
    do 2 eexists; split; [reflexivity|]. unfold rtsp_inv. rewrite Hc1. exact Hinv0.
Qed.
End Rtsp.
