(* DummyAudioFilter after the fix: never panics, never runs out of fuel, pops
   only messages it was given or the two kinds it makes itself, and makes at
   most 478 of them per message it handles. *)
From Lal Require Import Common.LBytes Common.Res Media.MediaMsgChecked Media.MediaMsgProofs Media.MediaDummyAudio.
From Coq Require Import Lia ZifyN ZifyNat ZifyBool.
Ltac Zify.zify_post_hook ::= Z.div_mod_to_equations.
Open Scope N_scope.

Lemma dummy_dur_ge c : 21 <= dummy_dur c.
Proof. unfold dummy_dur. destruct (_ || _); lia. Qed.
Lemma dummy_dur_le c : dummy_dur c <= 22.
Proof. unfold dummy_dur. destruct (_ || _); lia. Qed.

Section Q.
Variable Q : mmsg -> Prop.
Hypothesis Qframe : forall ts, Q (dummy_aac_frame ts).
Hypothesis Qsh : forall ts, Q (dummy_aac_seq_header ts).

(* the fill loop without wrap-around: enough fuel, output shape and count *)
Lemma dummy_fill_ok fuel : forall prev count ts acc,
  ts < 4294967296 -> ts < prev + 21 * N.of_nat fuel -> Forall Q acc ->
  exists outs prev' count',
    dummy_fill (S fuel) false prev count ts acc = Ok (outs, prev', count') /\
    Forall Q outs /\
    (lenN outs = lenN acc \/ 21 * lenN outs + prev <= 21 * lenN acc + ts).
Proof.
  induction fuel as [|k IH]; intros prev count ts acc Hts Hf Hq.
  - cbn [dummy_fill]. pose proof (dummy_dur_ge count).
    assert (E : (ts <? prev + dummy_dur count) = true) by (apply N.ltb_lt; lia). rewrite E.
    do 3 eexists. split; [reflexivity|]. split; [apply Forall_rev; exact Hq|].
    left. unfold lenN. now rewrite rev_length.
  - remember (S k) as fuel'. cbn [dummy_fill]. pose proof (dummy_dur_ge count) as Hd.
    destruct (ts <? prev + dummy_dur count) eqn:E.
    + do 3 eexists. split; [reflexivity|]. split; [apply Forall_rev; exact Hq|].
      left. unfold lenN. now rewrite rev_length.
    + apply N.ltb_ge in E.
      assert (Hm : (prev + dummy_dur count) mod 4294967296 = prev + dummy_dur count) by (apply N.mod_small; lia).
      rewrite Hm. subst fuel'.
      destruct (IH (prev + dummy_dur count) (count + 1) ts (dummy_aac_frame (prev + dummy_dur count) :: acc)) as (outs & p' & c' & Ho & Hq' & Hl).
      * exact Hts.
      * lia.
      * constructor; [apply Qframe|exact Hq].
      * do 3 eexists. split; [exact Ho|]. split; [exact Hq'|].
        right. unfold lenN in *. cbn [length] in Hl. lia.
Qed.

Definition du_inv (st : dummy_st) : Prop := Forall Q (du_queue st).

Section Fx.
Variable fx : fixes.
Hypothesis F1 : fx_avcsh fx = true.
Hypothesis F2 : fx_hevcsh fx = true.
Hypothesis FD : fx_dummy fx = true.

(* handleDummyStage *)
Lemma dummy_stage3_ok st m :
  mm_ts m < 4294967296 -> Q m ->
  exists outs st', dummy_stage3 fx st m = Ok (outs, st') /\ Forall Q outs /\ lenN outs <= 478 /\
                   du_queue st' = du_queue st /\ du_stage st' = du_stage st.
Proof.
  intros Hts Hq. unfold dummy_stage3.
  destruct (mm_type m =? t_audio); [do 2 eexists; repeat split; [constructor|cbn; lia]|].
  destruct (mm_type m =? t_meta); [do 2 eexists; repeat split; [repeat constructor; exact Hq|cbn; lia]|].
  destruct (vsh_total fx m F1 F2) as [sh ->]. cbn [bind].
  destruct sh; [do 2 eexists; repeat split; [repeat constructor; [apply Qsh|exact Hq]|cbn; lia]|].
  destruct (du_prev_audio_ts st =? max_u32); [do 2 eexists; repeat split; [repeat constructor; [apply Qframe|exact Hq]|cbn; lia]|].
  rewrite FD. cbn [andb negb].
  destruct ((du_prev_audio_ts st <? mm_ts m) && (dummy_max_fill_ms <? mm_ts m - du_prev_audio_ts st)) eqn:G;
    [do 2 eexists; repeat split; [repeat constructor; [apply Qframe|exact Hq]|cbn; lia]|].
  assert (Hgap : mm_ts m <= du_prev_audio_ts st \/ mm_ts m - du_prev_audio_ts st <= 10000).
  { apply andb_false_iff in G. destruct G as [G|G]; [left; apply N.ltb_ge in G; exact G|right; apply N.ltb_ge in G; exact G]. }
  destruct (dummy_fill_ok 1999 (du_prev_audio_ts st) (du_audio_count st) (mm_ts m) []) as (auds & p' & c' & Ho & Hqa & Hl).
  - exact Hts.
  - change (N.of_nat 1999) with 1999. lia.
  - constructor.
  - change dummy_fuel with (S 1999). rewrite Ho. cbn [bind].
    do 2 eexists. repeat split.
    + apply Forall_app. split; [exact Hqa|repeat constructor; exact Hq].
    + unfold lenN in *. rewrite app_length. cbn [length] in *. lia.
Qed.

Lemma dummy_replay_ok q : forall st acc,
  Forall (fun m => mm_ts m < 4294967296) q -> Forall Q q -> Forall Q acc ->
  exists outs st', dummy_replay fx st q acc = Ok (outs, st') /\ Forall Q outs /\
                   lenN outs <= lenN acc + 478 * lenN q /\ du_queue st' = du_queue st /\ du_stage st' = du_stage st.
Proof.
  induction q as [|x t IH]; intros st acc Hts Hq Hacc; cbn [dummy_replay].
  - do 2 eexists. repeat split; [exact Hacc|unfold lenN; cbn; lia].
  - inversion Hts as [|? ? Hx Ht]; subst. inversion Hq as [|? ? Qx Qt]; subst.
    destruct (dummy_stage3_ok st x Hx Qx) as (o & st1 & -> & Ho & Hl & Hqu & Hsg). cbn [bind].
    destruct (IH st1 (acc ++ o) Ht Qt) as (outs & st2 & -> & Houts & Hl2 & Hqu2 & Hsg2).
    + apply Forall_app; split; assumption.
    + do 2 eexists. repeat split; [exact Houts| |congruence|congruence].
      unfold lenN in *. rewrite app_length in Hl2. cbn [length]. lia.
Qed.

Definition ts_ok (m : mmsg) : Prop := mm_ts m < 4294967296.
Definition du_inv_ts (st : dummy_st) : Prop := Forall ts_ok (du_queue st).

(* Feed *)
Lemma dummy_feed_ok wait st m :
  du_inv st -> du_inv_ts st -> ts_ok m -> Q m ->
  exists outs st', dummy_feed fx wait st m = Ok (outs, st') /\ Forall Q outs /\
                   lenN outs <= 478 * (lenN (du_queue st) + 1) /\ du_inv st' /\ du_inv_ts st'.
Proof.
  intros Hinv Hits Hts Hq.
  assert (Hcache : du_inv (du_cache st m) /\ du_inv_ts (du_cache st m)).
  { split; unfold du_inv, du_inv_ts, du_cache; cbn [du_queue]; apply Forall_app; split; try assumption; repeat constructor; assumption. }
  assert (Hnil : lenN (@nil mmsg) <= 478 * (lenN (du_queue st) + 1)) by (unfold lenN; cbn [length]; lia).
  unfold dummy_feed.
  destruct (du_stage st =? 1).
  - unfold dummy_stage1.
    destruct (mm_type m =? t_meta).
    { do 2 eexists. split; [reflexivity|]. refine (conj (Forall_nil _) (conj Hnil Hcache)). }
    destruct (mm_type m =? t_audio).
    { do 2 eexists. split; [reflexivity|]. refine (conj _ (conj _ (conj Hinv Hits))).
      - apply Forall_app; split; [exact Hinv|repeat constructor; exact Hq].
      - unfold lenN. rewrite app_length. cbn [length]. lia. }
    destruct (mm_type m =? t_video); [|do 2 eexists; split; [reflexivity|]; refine (conj (Forall_nil _) (conj Hnil (conj Hinv Hits)))].
    destruct (vsh_total fx m F1 F2) as [sh ->]. cbn [bind].
    destruct sh; [do 2 eexists; split; [reflexivity|]; refine (conj (Forall_nil _) (conj Hnil Hcache))|].
    destruct (du_first_video_ts st =? max_u32).
    { do 2 eexists. split; [reflexivity|]. refine (conj (Forall_nil _) (conj Hnil Hcache)). }
    destruct (_ <? wait); [do 2 eexists; split; [reflexivity|]; refine (conj (Forall_nil _) (conj Hnil Hcache))|].
    match goal with |- context [dummy_replay fx ?s3 (du_queue st) []] =>
      destruct (dummy_replay_ok (du_queue st) s3 [] Hits Hinv (Forall_nil _)) as (o1 & st1 & -> & Ho1 & Hl1 & _ & _) end.
    cbn [bind].
    match goal with |- context [dummy_stage3 fx ?s4 m] =>
      destruct (dummy_stage3_ok s4 m Hts Hq) as (o2 & st2 & -> & Ho2 & Hl2 & Hqu2 & _) end.
    cbn [bind]. cbn [du_queue] in Hqu2.
    do 2 eexists. split; [reflexivity|]. refine (conj _ (conj _ (conj _ _))).
    + apply Forall_app; split; assumption.
    + unfold lenN in *. rewrite app_length. cbn [length] in *. lia.
    + unfold du_inv. rewrite Hqu2. constructor.
    + unfold du_inv_ts. rewrite Hqu2. constructor.
  - destruct (du_stage st =? 2).
    { do 2 eexists. split; [reflexivity|]. refine (conj _ (conj _ (conj Hinv Hits))).
      - repeat constructor; exact Hq.
      - unfold lenN. cbn [length]. lia. }
    destruct (du_stage st =? 3); [|do 2 eexists; split; [reflexivity|]; refine (conj (Forall_nil _) (conj Hnil (conj Hinv Hits)))].
    destruct (dummy_stage3_ok st m Hts Hq) as (o & st1 & -> & Ho & Hl & Hqu & _).
    do 2 eexists. split; [reflexivity|]. refine (conj Ho (conj _ (conj _ _))).
    + lia.
    + unfold du_inv. rewrite Hqu. exact Hinv.
    + unfold du_inv_ts. rewrite Hqu. exact Hits.
Qed.
End Fx.
End Q.
