(* The mpegts remuxer never panics on a non-empty payload once the fixes are in
   (and never runs out of fuel), whatever the record parsers return, as long as
   they do not panic themselves. *)
From Lal Require Import Common.LBytes Common.Res Media.MediaMsgChecked Media.MediaMsgProofs Media.MediaTsRemux.
From Coq Require Import Lia ZifyN ZifyNat ZifyBool.
Open Scope N_scope.

(* ---- IterateNaluAvcc -------------------------------------------------------- *)
Lemma avcc_loop_no_panic fuel : forall rest acc, no_panic (avcc_loop fuel rest acc).
Proof.
  induction fuel as [|f IH]; intros rest acc s; cbn [avcc_loop]; [discriminate|].
  destruct rest as [|a [|b [|c [|d r]]]]; try discriminate.
  destruct r as [|x r']; [discriminate|].
  destruct (_ <? lenN (x :: r')).
  - destruct (_ =? 0); apply IH.
  - destruct (_ =? lenN (x :: r')); discriminate.
Qed.

Lemma avcc_loop_fuel fuel : forall rest acc, (length rest < fuel)%nat -> avcc_loop fuel rest acc <> Err err_out_of_fuel.
Proof.
  induction fuel as [|f IH]; intros rest acc H; [lia|]. cbn [avcc_loop].
  destruct rest as [|a [|b [|c [|d r]]]]; try discriminate.
  destruct r as [|x r']; [discriminate|].
  cbn [length] in H.
  destruct (_ <? lenN (x :: r')).
  - destruct (_ =? 0); apply IH; [cbn [length]; lia|]. rewrite skipn_length. cbn [length]. lia.
  - destruct (_ =? lenN (x :: r')); discriminate.
Qed.

(* success means at least one nal: 4 bytes of length and one byte of data *)
Lemma avcc_loop_ok_len fuel rest acc l : avcc_loop fuel rest acc = Ok l -> (5 <= length rest)%nat.
Proof.
  destruct fuel as [|f]; cbn [avcc_loop]; [discriminate|].
  destruct rest as [|a [|b [|c [|d r]]]]; try discriminate.
  destruct r as [|x r']; [discriminate|]. intros _. cbn [length]. lia.
Qed.

Lemma split_avcc_cases nals :
  (exists l, split_avcc nals = Ok l /\ (5 <= length nals)%nat) \/ (exists e, split_avcc nals = Err e /\ e <> err_out_of_fuel).
Proof.
  unfold split_avcc. destruct (avcc_loop (S (length nals)) nals []) as [l|e|s] eqn:E.
  - left. exists l. split; [reflexivity|]. eapply avcc_loop_ok_len; exact E.
  - right. exists e. split; [reflexivity|]. intro He. subst e. revert E. apply avcc_loop_fuel. lia.
  - exfalso. revert E. apply avcc_loop_no_panic.
Qed.

(* ---- the remuxer ------------------------------------------------------------- *)
Definition cf_safe (cf : codec_fns) : Prop :=
  forall p, (1 <= length p)%nat ->
    no_panic (cf_avc_sh2annexb cf p) /\ no_panic (cf_hevc_sh2annexb cf p) /\ no_panic (cf_hevc_esh2annexb cf p).

Lemma res_opt_ok {A} (r : res A) : no_panic r -> is_ok (res_opt r).
Proof. intro H. destruct r as [a|e|s]; cbn; [eexists; reflexivity|eexists; reflexivity|]. exfalso. exact (H s eq_refl). Qed.

Definition fx_msg_ok (fx : fixes) : Prop :=
  fx_avcsh fx = true /\ fx_hevcsh fx = true /\ fx_avckn fx = true /\ fx_hevckn fx = true /\
  fx_aacsh fx = true /\ fx_vcid fx = true.

Section Ts.
Variable fx : fixes.
Variable cf : codec_fns.
Hypothesis FX : fx_msg_ok fx.
Hypothesis FT : fx_tsidx fx = true.
Hypothesis CF : cf_safe cf.

Lemma ts_feed_video_ok s m : (1 <= length (mm_pay m))%nat -> is_ok (ts_feed_video fx cf s m).
Proof.
  destruct FX as (F1 & F2 & F3 & F4 & F5 & F6). intro Hne. unfold ts_feed_video.
  destruct (Nat.leb (length (mm_pay m)) 5) eqn:L5; [eexists; reflexivity|]. apply Nat.leb_gt in L5.
  destruct (vcid_total fx m F6) as [codec ->]. cbn [bind].
  destruct (negb _); [eexists; reflexivity|].
  destruct (avcsh_total fx m F1) as [ash ->]. cbn [bind].
  destruct ash.
  { destruct (res_opt_ok (cf_avc_sh2annexb cf (mm_pay m))) as [sp ->]; [apply CF; exact Hne|]. eexists; reflexivity. }
  destruct (hevcsh_total fx m F2) as [hsh ->]. cbn [bind].
  destruct hsh.
  { destruct (enh_ok m Hne) as [enh ->]. cbn [bind].
    destruct (res_opt_ok (if enh then cf_hevc_esh2annexb cf (mm_pay m) else cf_hevc_sh2annexb cf (mm_pay m))) as [sp ->].
    - destruct enh; apply CF; exact Hne.
    - eexists; reflexivity. }
  assert (Hen : exists en, (if codec =? codec_hevc then is_enhanced_hevc_nalu m else Ok false) = Ok en /\ (en = true -> is_enhanced_hevc_nalu m = Ok true)).
  { destruct (codec =? codec_hevc).
    - destruct (enhn_ok m Hne) as [en E]. exists en. split; [exact E|]. intros ->. exact E.
    - exists false. split; [reflexivity|discriminate]. }
  destruct Hen as [en [-> Hen1]]. cbn [bind].
  assert (Hix : exists index, (if en then enhanced_hevc_nalu_index m else Ok 5%nat) = Ok index /\ (index = 5 \/ index = 8)%nat /\ (en = false -> index = 5%nat)).
  { destruct en.
    - destruct (enhi_ok m Hne) as [i [Hi _]]. exists i. repeat split; [exact Hi| |discriminate].
      exact (enhi_of_enhn m i (Hen1 eq_refl) Hi).
    - exists 5%nat. repeat split; lia. }
  destruct Hix as [index [-> [Hidx Hen5]]]. cbn [bind]. rewrite FT. cbn [andb].
  destruct (en && Nat.leb (length (mm_pay m)) index) eqn:G; [eexists; reflexivity|].
  assert (Hle : (index <= length (mm_pay m))%nat).
  { destruct en; cbn [andb] in G; [apply Nat.leb_gt in G; lia|]. rewrite (Hen5 eq_refl). lia. }
  rewrite from_ok by exact Hle. cbn [bind].
  destruct (split_avcc_cases (skipn index (mm_pay m))) as [[nals [-> Hlen]]|[e [-> He]]].
  2:{ apply N.eqb_neq in He. rewrite He. eexists; reflexivity. }
  rewrite skipn_length in Hlen.
  destruct (fv_loop _ _ nals) as [a ok]. destruct (negb ok); [eexists; reflexivity|].
  destruct (fv_out a =? 0); [eexists; reflexivity|].
  match goal with |- context [if ?c then ts_flush_audio ?x else ?y] => destruct (if c then ts_flush_audio x else y) as [s2 ev1] end.
  assert (Hc : is_ok (cts m)).
  { apply cts_ok. lia. }
  destruct Hc as [c ->]. cbn [bind].
  destruct (vkn_total fx m F3 F4) as [key ->]. cbn [bind].
  destruct (ts_on_frame s2 true _ c key (fv_out a)). eexists; reflexivity.
Qed.

Lemma ts_feed_audio_ok s m : is_ok (ts_feed_audio fx s m).
Proof.
  unfold ts_feed_audio.
  destruct (Nat.leb (length (mm_pay m)) 2) eqn:L2; [eexists; reflexivity|]. apply Nat.leb_gt in L2.
  destruct (acid_ok m) as [codec ->]; [lia|]. cbn [bind].
  destruct (codec =? 10).
  - destruct (idx_ok s_ts_onpop (mm_pay m) 1) as [b1 ->]; [lia|]. cbn [bind].
    destruct (b1 =? 0).
    + rewrite from_ok by lia. eexists; reflexivity.
    + destruct (negb (ts_asc s)); [eexists; reflexivity|].
      match goal with |- context [if ?c then ts_flush_audio ?x else ?y] => destruct (if c then ts_flush_audio x else y) as [s1 ev1] end.
      rewrite from_ok by lia. eexists; reflexivity.
  - rewrite from_ok by lia. cbn [bind]. destruct (ts_flush_audio _). eexists; reflexivity.
Qed.

Lemma ts_on_pop_ok s m : (1 <= length (mm_pay m))%nat -> is_ok (ts_on_pop fx cf s m).
Proof.
  intro Hne. unfold ts_on_pop. destruct (mm_type m =? t_audio).
  - destruct (acid_ok m Hne) as [c ->]. cbn [bind]. destruct (negb _); [eexists; reflexivity|apply ts_feed_audio_ok].
  - destruct (mm_type m =? t_video); [apply ts_feed_video_ok; exact Hne|eexists; reflexivity].
Qed.

Definition nonempty (m : mmsg) : Prop := (1 <= length (mm_pay m))%nat.

Lemma ts_pop_all_ok l : forall s acc, Forall nonempty l -> is_ok (ts_pop_all fx cf s l acc).
Proof.
  induction l as [|m t IH]; intros s acc H; cbn [ts_pop_all]; [eexists; reflexivity|].
  inversion H as [|? ? Hm Ht]; subst.
  destruct (ts_on_pop_ok s m Hm) as [[s' ev] ->]. cbn [bind]. apply IH. exact Ht.
Qed.

Definition ts_inv (s : ts_st) : Prop := Forall nonempty (ts_data s).

Lemma ts_feed_ok s m :
  ts_inv s -> nonempty m -> exists s' ev, ts_feed fx cf s m = Ok (s', ev) /\ ts_inv s'.
Proof.
  destruct FX as (F1 & F2 & F3 & F4 & F5 & F6). intros Hinv Hne. unfold ts_feed.
  destruct (ts_done s).
  - destruct (ts_on_pop_ok (ts_rmx s) m Hne) as [[r ev] ->]. cbn [bind]. do 2 eexists. split; [reflexivity|exact Hinv].
  - assert (Hac : exists ac, (if mm_type m =? t_audio then let* b0 := idx s_ts_push (mm_pay m) 0 in Ok (Some (b0 / 16)) else Ok (ts_acodec s)) = Ok ac).
    { destruct (mm_type m =? t_audio); [|eexists; reflexivity].
      destruct (idx_ok s_ts_push (mm_pay m) 0) as [b ->]; [exact Hne|]. eexists; reflexivity. }
    destruct Hac as [ac ->]. cbn [bind].
    assert (Hvc : exists vc, (if mm_type m =? t_video then let* v := video_codec_id fx m in Ok (Some v) else Ok (ts_vcodec s)) = Ok vc).
    { destruct (mm_type m =? t_video); [|eexists; reflexivity].
      destruct (vcid_total fx m F6) as [v ->]. eexists; reflexivity. }
    destruct Hvc as [vc ->]. cbn [bind].
    assert (Hd : Forall nonempty (ts_data s ++ [m])) by (apply Forall_app; split; [exact Hinv|constructor; [exact Hne|constructor]]).
    destruct (_ || _).
    + destruct (ts_pop_all_ok (ts_data s ++ [m]) (ts_rmx s) [] Hd) as [[r ev] ->]. cbn [bind].
      do 2 eexists. split; [reflexivity|]. constructor.
    + do 2 eexists. split; [reflexivity|exact Hd].
Qed.
End Ts.
