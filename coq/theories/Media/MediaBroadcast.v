(* pkg/logic/group__core_streaming.go: Group.OnReadRtmpAvMsg -> [DummyAudioFilter]
   -> Group.broadcastByRtmpMsg with every output enabled, as far as the
   published payload is concerned: every helper call on the payload, in the
   order the Go code makes it, with the state those calls depend on
   (subscriber flags, GOP cache emptiness, codec statistics, the remuxers).
   Also remux.GopCache.Feed (classification calls only; the ring is C02's).
   No proofs here. *)
From Lal Require Export Media.MediaMsgChecked Media.MediaDummyAudio Media.MediaTsRemux Media.MediaRtspRemux.
From Lal Require Net.NetRtpHeader.
Open Scope N_scope.

(* SPS parsers for the statistics block: Ok None = error return, Ok (Some (w, h)) *)
Record sps_fns := mk_sps {
  sf_avc_dims : bytes -> res (option (N * N));    (* avc.ParseSps: ctx.Width, ctx.Height *)
  sf_hevc_dims : bytes -> res (option (N * N))    (* hevc.ParseSps: PicWidthInLumaSamples, PicHeightInLumaSamples *)
}.

Record grp_cfg := mk_gcfg {
  gc_rtmp : bool;          (* RtmpConfig.Enable *)
  gc_rtmp_gop : bool;      (* RtmpConfig.GopNum > 0 *)
  gc_flv : bool;
  gc_flv_gop : bool;
  gc_ts : bool;            (* hls || httpts || record mpegts: the mpegts remuxer exists *)
  gc_rtsp : bool;
  gc_dummy : option N;     (* add_dummy_audio_enable with its wait (ms) *)
  gc_add : bool;           (* remux.RtspRemuxerAddSpsPps2KeyFrameFlag *)
  gc_rtsp_wait : bool      (* RtspConfig.OutWaitKeyFrameFlag *)
}.

Record sub := mk_sub { sb_fresh : bool; sb_wait : bool }.

(* an rtsp consumer: stage == ReadPlay, ShouldWaitVideoKeyFrame *)
Record rsub := mk_rsub { rb_play : bool; rb_wait : bool }.

Record grp_st := mk_grp {
  g_ts : ts_st;
  g_rtsp : rtsp_st;
  g_dummy : dummy_st;
  g_rtmp_subs : list sub;
  g_flv_subs : list sub;
  g_rtmp_hasgop : bool;    (* rtmpGopCache.GetGopCount() > 0 *)
  g_flv_hasgop : bool;
  g_acodec : bool;         (* stat.AudioCodec != "" *)
  g_vcodec : bool;
  g_w : N; g_h : N;
  g_sdp : option (bool * N);   (* group.sdpCtx: (RawSdp non-nil, video payload type 0 other / 1 avc / 2 hevc) *)
  g_rsubs : list rsub          (* rtspSubSessionSet *)
}.
Definition grp_init : grp_st := mk_grp ts_init rtsp_init dummy_init [] [] false false false false 0 0 None [].

(* remux.GopCache.Feed: (cache now holds a GOP?) *)
Definition gop_feed (fx : fixes) (gop : bool) (has : bool) (m : mmsg) : res bool :=
  if mm_type m =? t_meta then Ok has
  else
    let* hdr := (if mm_type m =? t_audio then is_aac_seq_header fx m
                 else if mm_type m =? t_video then is_video_key_seq_header fx m else Ok false) in
    if hdr then Ok has
    else if gop then let* k := is_video_key_nalu fx m in Ok (has || k)
    else Ok has.

(* one subscriber of the rtmp / http-flv loops: the fresh prologue, then the wait-for-key-frame test *)
Definition sub_step (fx : fixes) (has_gop : bool) (m : mmsg) (s : sub) : res sub :=
  let w := if sb_fresh s then (if has_gop then false else sb_wait s) else sb_wait s in
  if w then let* k := is_video_key_nalu fx m in Ok (mk_sub false (negb k))
  else Ok (mk_sub false false).

Fixpoint subs_step (fx : fixes) (has_gop : bool) (m : mmsg) (l : list sub) : res (list sub) :=
  match l with
  | [] => Ok []
  | s :: t => let* s' := sub_step fx has_gop m s in let* t' := subs_step fx has_gop m t in Ok (s' :: t')
  end.

(* the "record stat" block *)
Definition st_audio (fx : fixes) (g : grp_st) (m : mmsg) : res bool :=
  if negb (g_acodec g) && (mm_type m =? t_audio) then
    let* c := audio_codec_id m in
    if c =? 10 then is_aac_seq_header fx m
    else Ok ((c =? 8) || (c =? 7) || (c =? 13))
  else Ok (g_acodec g).

Definition st_video (fx : fixes) (g : grp_st) (m : mmsg) : res bool :=
  if negb (g_vcodec g) then
    let* a := is_avc_key_seq_header fx m in
    let* h := is_hevc_key_seq_header fx m in
    Ok (a || h)
  else Ok true.

Definition st_dims_avc (fx : fixes) (rf : rec_fns) (sf : sps_fns) (g : grp_st) (m : mmsg) : res (N * N) :=
  let* a := is_avc_key_seq_header fx m in
  if a then
    match rf_avc_parse rf (mm_pay m) with
    | Panic s => Panic s
    | Err _ => Ok (g_w g, g_h g)
    | Ok (sps, _) =>
      let* d := sf_avc_dims sf sps in
      Ok (match d with Some (w, h) => (w, h) | None => (g_w g, g_h g) end)
    end
  else Ok (g_w g, g_h g).

Definition st_dims_hevc (fx : fixes) (rf : rec_fns) (sf : sps_fns) (m : mmsg) (wh1 : N * N) : res (N * N) :=
  let* h := is_hevc_key_seq_header fx m in
  if h then
    let* enh := is_enhanced m in
    match (if enh then rf_hevc_parse_enh rf (mm_pay m) else rf_hevc_parse rf (mm_pay m)) with
    | Panic s => Panic s
    | Err _ => Ok wh1
    | Ok (_, sps, _) =>
      let* d := sf_hevc_dims sf sps in
      Ok (match d with Some (w, h) => (w, h) | None => wh1 end)
    end
  else Ok wh1.

Definition st_dims (fx : fixes) (rf : rec_fns) (sf : sps_fns) (g : grp_st) (m : mmsg) : res (N * N) :=
  if (g_w g =? 0) || (g_h g =? 0) then
    let* wh1 := st_dims_avc fx rf sf g m in st_dims_hevc fx rf sf m wh1
  else Ok (g_w g, g_h g).

Definition stat_step (fx : fixes) (rf : rec_fns) (sf : sps_fns) (g : grp_st) (m : mmsg) : res (bool * bool * N * N) :=
  let* ac := st_audio fx g m in
  let* vc := st_video fx g m in
  let* wh := st_dims fx rf sf g m in
  Ok (ac, vc, fst wh, snd wh).

Definition msg_cost (m : mmsg) : N := 1 + lenN (mm_pay m).
Definition msgs_cost (l : list mmsg) : N := fold_right (fun m acc => msg_cost m + acc) 0 l.

(* Group.feedRtpPacket on one packet body (rtprtcp.IsAvcBoundary / IsHevcBoundary: the C13 models, panic sites
   renamed): only sessions in stage ReadPlay that still wait look at the packet; the boundary is computed once,
   and only when such a session exists *)
Definition rtp_boundary (fx : fixes) (kind : N) (body : bytes) : res bool :=
  if kind =? 1 then
    match NetRtpHeader.is_avc_boundary (fx_bound fx) body with
    | Panic _ => Panic s_avc_boundary | r => r end
  else if kind =? 2 then
    match NetRtpHeader.is_hevc_boundary (fx_bound fx) body with
    | Panic _ => Panic s_hevc_boundary | r => r end
  else Ok true.

(* only a packet of the video track can start a GOP (fix F-34: `isVideo && IsAvcBoundary(pkt)`, the classifier is
   not even called for an audio packet); with a codec lal cannot classify every packet passes *)
Definition rtp_gate (fx : fixes) (kind : N) (vb : bool * bytes) : res bool :=
  if (kind =? 1) || (kind =? 2) then (if fst vb then rtp_boundary fx kind (snd vb) else Ok false) else Ok true.

Definition feed_rtp (fx : fixes) (wk : bool) (sdp : option (bool * N)) (subs : list rsub) (body : bool * bytes) : res (list rsub) :=
  if negb wk then Ok subs
  else if existsb (fun r => rb_play r && rb_wait r) subs then
    let* bd := (match sdp with Some (_, kind) => rtp_gate fx kind body | None => Ok false end) in
    Ok (if bd then map (fun r => if rb_play r && rb_wait r then mk_rsub true false else r) subs else subs)
  else Ok subs.

Fixpoint feed_rtp_all (fx : fixes) (wk : bool) (sdp : option (bool * N)) (subs : list rsub) (l : list (bool * bytes)) : res (list rsub) :=
  match l with
  | [] => Ok subs
  | b :: t => let* s' := feed_rtp fx wk sdp subs b in feed_rtp_all fx wk sdp s' t
  end.

(* what Rtmp2RtspRemuxer hands back to the group: onSdpFromRemux, onRtpPacketFromRemux *)
Fixpoint rtsp_events (fx : fixes) (wk : bool) (sdp : option (bool * N)) (subs : list rsub) (evs : list rtsp_ev)
  : res (option (bool * N) * list rsub) :=
  match evs with
  | [] => Ok (sdp, subs)
  | RevSdp v k :: t => rtsp_events fx wk (Some (v, k)) subs t
  | RevRtp l :: t => let* s' := feed_rtp_all fx wk sdp subs l in rtsp_events fx wk sdp s' t
  end.

(* the pieces of Group.broadcastByRtmpMsg, in call order *)
Definition bc_meta (acfg : amf_cfg) (m : mmsg) : res unit :=
  if mm_type m =? t_meta then
    match fst (parse_metadata acfg (mm_pay m)) with Panic s => Panic s | _ => Ok tt end
  else Ok tt.
Definition bc_ts (fx : fixes) (cf : codec_fns) (c : grp_cfg) (g : grp_st) (m : mmsg) : res ts_st :=
  if gc_ts c then let* (t, _) := ts_feed fx cf (g_ts g) m in Ok t else Ok (g_ts g).
Definition bc_rtsp (fx : fixes) (rf : rec_fns) (acfg : amf_cfg) (c : grp_cfg) (g : grp_st) (m : mmsg)
  : res (rtsp_st * (option (bool * N) * list rsub)) :=
  if gc_rtsp c then
    let* (r, evs) := rtsp_feed fx rf acfg (gc_add c) (g_rtsp g) m in
    let* x := rtsp_events fx (gc_rtsp_wait c) (g_sdp g) (g_rsubs g) evs in
    Ok (r, x)
  else Ok (g_rtsp g, (g_sdp g, g_rsubs g)).
Definition bc_rgop (fx : fixes) (c : grp_cfg) (g : grp_st) (m : mmsg) : res bool :=
  if gc_rtmp c then gop_feed fx (gc_rtmp_gop c) (g_rtmp_hasgop g) m else Ok (g_rtmp_hasgop g).
Definition bc_fgop (fx : fixes) (c : grp_cfg) (g : grp_st) (m : mmsg) : res bool :=
  if gc_flv c then gop_feed fx (gc_flv_gop c) (g_flv_hasgop g) m else Ok (g_flv_hasgop g).

(* work done for one message, counted in (message visits + payload bytes visited):
   every function called on a message is linear in that message's length, and a
   message is visited again only when a probe queue that holds it is drained *)
Definition bc_cost (g : grp_st) (m : mmsg) (ts' : ts_st) (rtsp' : rtsp_st) : N :=
  let drained_ts := if negb (ts_done (g_ts g)) && ts_done ts' then msgs_cost (ts_data (g_ts g)) else 0 in
  let drained_rtsp := if negb (rs_done (g_rtsp g)) && rs_done rtsp' then msgs_cost (rs_cache (g_rtsp g)) else 0 in
  (8 + lenN (g_rtmp_subs g) + lenN (g_flv_subs g)) * msg_cost m + drained_ts + drained_rtsp.

(* Group.broadcastByRtmpMsg: the new state and the work done *)
Definition broadcast (fx : fixes) (cf : codec_fns) (rf : rec_fns) (sf : sps_fns) (acfg : amf_cfg) (c : grp_cfg)
           (g : grp_st) (m : mmsg) : res (grp_st * N) :=
  let* _ := bc_meta acfg m in
  match mm_pay m with
  | [] => Ok (g, 1)
  | _ :: _ =>
    let* ts' := bc_ts fx cf c g m in
    let* (rtsp', (sdp', rsubs')) := bc_rtsp fx rf acfg c g m in
    let* rsubs := subs_step fx (g_rtmp_hasgop g) m (g_rtmp_subs g) in
    let* fsubs := subs_step fx (g_flv_hasgop g) m (g_flv_subs g) in
    let* rgop := bc_rgop fx c g m in
    let* fgop := bc_fgop fx c g m in
    let* (ac, vc, w, h) := stat_step fx rf sf g m in
    Ok (mk_grp ts' rtsp' (g_dummy g) rsubs fsubs rgop fgop ac vc w h sdp' rsubs', bc_cost g m ts' rtsp')
  end.

Fixpoint broadcast_all (fx : fixes) (cf : codec_fns) (rf : rec_fns) (sf : sps_fns) (acfg : amf_cfg) (c : grp_cfg)
         (g : grp_st) (l : list mmsg) (cost : N) : res (grp_st * N) :=
  match l with
  | [] => Ok (g, cost)
  | m :: t => let* (g', k) := broadcast fx cf rf sf acfg c g m in broadcast_all fx cf rf sf acfg c g' t (cost + k)
  end.

(* events of a history *)
Inductive gev : Type :=
| GPub (m : mmsg)
| GJoinRtmp
| GJoinFlv
| GJoinRtsp        (* DESCRIBE; SETUP + PLAY follow as soon as the group has a description (after this event or a publish) *)
| GJoinOther.      (* http-ts / hls consumers: no state the payload helpers depend on *)

(* Group.OnReadRtmpAvMsg *)
Definition on_read (fx : fixes) (cf : codec_fns) (rf : rec_fns) (sf : sps_fns) (acfg : amf_cfg) (c : grp_cfg)
           (g : grp_st) (m : mmsg) : res (grp_st * N) :=
  match gc_dummy c with
  | None => broadcast fx cf rf sf acfg c g m
  | Some wait =>
    let* (outs, d') := dummy_feed fx wait (g_dummy g) m in
    let g1 := mk_grp (g_ts g) (g_rtsp g) d' (g_rtmp_subs g) (g_flv_subs g) (g_rtmp_hasgop g) (g_flv_hasgop g)
                     (g_acodec g) (g_vcodec g) (g_w g) (g_h g) (g_sdp g) (g_rsubs g) in
    broadcast_all fx cf rf sf acfg c g1 outs (msg_cost m)
  end.

Definition join_sub (g : grp_st) : sub := mk_sub true (g_vcodec g).

Definition set_rsubs (g : grp_st) (l : list rsub) : grp_st :=
  mk_grp (g_ts g) (g_rtsp g) (g_dummy g) (g_rtmp_subs g) (g_flv_subs g) (g_rtmp_hasgop g) (g_flv_hasgop g)
         (g_acodec g) (g_vcodec g) (g_w g) (g_h g) (g_sdp g) l.

(* the rtsp client side of the harness: every session that has not sent PLAY yet does so once the group has a
   description (HandleNewRtspSubSessionPlay: it waits for a GOP start iff a video codec is known) *)
Definition try_play (g : grp_st) : grp_st :=
  match g_sdp g with
  | Some (true, _) => set_rsubs g (map (fun r => if rb_play r then r else mk_rsub true (rb_wait r && g_vcodec g)) (g_rsubs g))
  | _ => g
  end.

Definition gstep (fx : fixes) (cf : codec_fns) (rf : rec_fns) (sf : sps_fns) (acfg : amf_cfg) (c : grp_cfg)
           (g : grp_st) (e : gev) : res (grp_st * N) :=
  match e with
  | GPub m => let* (g', k) := on_read fx cf rf sf acfg c g m in Ok (try_play g', k)
  | GJoinRtmp => Ok (mk_grp (g_ts g) (g_rtsp g) (g_dummy g) (g_rtmp_subs g ++ [join_sub g]) (g_flv_subs g) (g_rtmp_hasgop g) (g_flv_hasgop g)
                            (g_acodec g) (g_vcodec g) (g_w g) (g_h g) (g_sdp g) (g_rsubs g), 0)
  | GJoinFlv => Ok (mk_grp (g_ts g) (g_rtsp g) (g_dummy g) (g_rtmp_subs g) (g_flv_subs g ++ [join_sub g]) (g_rtmp_hasgop g) (g_flv_hasgop g)
                           (g_acodec g) (g_vcodec g) (g_w g) (g_h g) (g_sdp g) (g_rsubs g), 0)
  | GJoinRtsp => Ok (try_play (set_rsubs g (g_rsubs g ++ [mk_rsub false true])), 0)
  | GJoinOther => Ok (g, 0)
  end.

(* a whole history: the per-publish outcomes (true = processed) and, if the
   history ended in a panic, its site *)
Fixpoint grun (fx : fixes) (cf : codec_fns) (rf : rec_fns) (sf : sps_fns) (acfg : amf_cfg) (c : grp_cfg)
         (g : grp_st) (l : list gev) (oks : N) : N * option N :=
  match l with
  | [] => (oks, None)
  | e :: t =>
    match gstep fx cf rf sf acfg c g e with
    | Ok (g', _) => grun fx cf rf sf acfg c g' t (match e with GPub _ => oks + 1 | _ => oks end)
    | Panic s => (oks, Some s)
    | Err e => (oks, Some (1000 + e))
    end
  end.

(* the state a history leaves behind (None if a step did not return) *)
Fixpoint gfinal (fx : fixes) (cf : codec_fns) (rf : rec_fns) (sf : sps_fns) (acfg : amf_cfg) (c : grp_cfg)
         (g : grp_st) (l : list gev) : option grp_st :=
  match l with
  | [] => Some g
  | e :: t =>
    match gstep fx cf rf sf acfg c g e with
    | Ok (g', _) => gfinal fx cf rf sf acfg c g' t
    | _ => None
    end
  end.

(* total work of a history (None if a step did not return) *)
Fixpoint gtotal (fx : fixes) (cf : codec_fns) (rf : rec_fns) (sf : sps_fns) (acfg : amf_cfg) (c : grp_cfg)
         (g : grp_st) (l : list gev) : option N :=
  match l with
  | [] => Some 0
  | e :: t =>
    match gstep fx cf rf sf acfg c g e with
    | Ok (g', k) => match gtotal fx cf rf sf acfg c g' t with Some r => Some (k + r) | None => None end
    | _ => None
    end
  end.

(* size of what a history publishes: sum of (1 + payload length), number of publishes, number of rtmp / http-flv joins *)
Fixpoint pubs_cost (l : list gev) : N :=
  match l with [] => 0 | GPub m :: t => msg_cost m + pubs_cost t | _ :: t => pubs_cost t end.
Fixpoint pubs_count (l : list gev) : N :=
  match l with [] => 0 | GPub _ :: t => 1 + pubs_count t | _ :: t => pubs_count t end.
Fixpoint joins_count (l : list gev) : N :=
  match l with [] => 0 | GJoinRtmp :: t => 1 + joins_count t | GJoinFlv :: t => 1 + joins_count t | _ :: t => joins_count t end.
