From Lal Require Import Common.LBytes Common.Res Common.LBytesProofs Common.BitsProofs Flv.FlvTag Flv.FlvWs.
From Coq Require Import Lia ZifyN ZifyNat ZifyBool.
Ltac Zify.zify_post_hook ::= Z.div_mod_to_equations.
Open Scope N_scope.

Lemma be_put_3 v : be_put 3 v = [(v / 65536) mod 256; (v / 256) mod 256; v mod 256].
Proof. cbn [be_put]. change (256 ^ N.of_nat 2) with 65536. change (256 ^ N.of_nat 1) with 256.
  change (256 ^ N.of_nat 0) with 1. now rewrite N.div_1_r. Qed.
Lemma be_put_4 v : be_put 4 v = [(v / 16777216) mod 256; (v / 65536) mod 256; (v / 256) mod 256; v mod 256].
Proof. cbn [be_put]. change (256 ^ N.of_nat 3) with 16777216. change (256 ^ N.of_nat 2) with 65536.
  change (256 ^ N.of_nat 1) with 256. change (256 ^ N.of_nat 0) with 1. now rewrite N.div_1_r. Qed.

Definition tag_wf (t ts : N) (p : bytes) : Prop :=
  t < 256 /\ ts < 4294967296 /\ lenN p < 16777216.

Lemma pack_tag_length t ts p : length (pack_tag t ts p) = (11 + length p + 4)%nat.
Proof. unfold pack_tag. rewrite !app_length, !be_put_length. cbn [length]. lia. Qed.

(* explicit layout *)
Lemma pack_tag_layout t ts p : tag_wf t ts p ->
  pack_tag t ts p =
    [t; (lenN p / 65536) mod 256; (lenN p / 256) mod 256; lenN p mod 256;
     (ts / 65536) mod 256; (ts / 256) mod 256; ts mod 256; (ts / 16777216) mod 256; 0; 0; 0]
    ++ p ++ be_put 4 (11 + lenN p).
Proof.
  intros (Ht & Hts & Hp). unfold pack_tag, u8, u32.
  rewrite (N.mod_small t), (N.mod_small ts), (N.mod_small (lenN p)), (N.mod_small (11 + lenN p)) by lia.
  rewrite !be_put_3. reflexivity.
Qed.

Lemma pack_tag_ok t ts p : bytes_ok p -> bytes_ok (pack_tag t ts p).
Proof.
  intro Hp. unfold pack_tag, u8.
  repeat apply bytes_ok_app; try apply be_put_ok; try assumption;
    repeat (apply bytes_ok_cons; [try (apply N.mod_lt; discriminate); try lia|]); constructor.
Qed.

(* ---- lal's reader on lal's writer ---- *)
Theorem read_tag_pack t ts p r : tag_wf t ts p ->
  read_tag (pack_tag t ts p ++ r)
  = Ok ({| tg_header := {| th_type := t; th_size := lenN p; th_ts := ts |};
           tg_raw := pack_tag t ts p |}, r).
Proof.
  intro Hwf. pose proof Hwf as (Ht & Hts & Hp).
  rewrite (pack_tag_layout _ _ _ Hwf).
  unfold read_tag.
  set (hdr := [t; _; _; _; _; _; _; _; 0; 0; 0]).
  rewrite <- app_assoc.
  rewrite (split_exact_app_n tag_header_size hdr) by reflexivity.
  assert (Hh : parse_tag_header hdr = {| th_type := t; th_size := lenN p; th_ts := ts |}).
  { unfold parse_tag_header, hdr. cbn [nth skipn firstn].
    unfold be_get. cbn [be_get_acc]. unfold u32. f_equal; lia. }
  rewrite Hh. cbn [th_size].
  rewrite <- app_assoc, app_assoc.
  rewrite split_exactN_eq.
  rewrite (split_exact_app_n _ (p ++ be_put 4 (11 + lenN p))).
  - reflexivity.
  - rewrite app_length, be_put_length. unfold lenN, prev_tag_size_field_size. lia.
Qed.

Theorem tag_payload_pack t ts p :
  tag_payload {| tg_header := {| th_type := t; th_size := lenN p; th_ts := ts |};
                 tg_raw := pack_tag t ts p |} = p.
Proof.
  unfold tag_payload. cbn [tg_raw]. rewrite pack_tag_length.
  unfold pack_tag. unfold tag_header_size, prev_tag_size_field_size.
  replace (11 + length p + 4 - 11 - 4)%nat with (length p) by lia.
  rewrite !app_assoc.
  set (pre := (((([u8 t] ++ _) ++ _) ++ _) ++ _)).
  assert (Hpre : length pre = 11%nat).
  { unfold pre. rewrite !app_length, !be_put_length. reflexivity. }
  rewrite <- app_assoc.
  rewrite skipn_app, <- Hpre, skipn_all, Nat.sub_diag, skipn_O. cbn [app].
  rewrite firstn_app, Nat.sub_diag, firstn_all, firstn_O. now rewrite app_nil_r.
Qed.

(* re-stamping a packed tag gives exactly the tag packed with the new timestamp,
   whatever the old and the new timestamp are (both sides of 2^24 included) *)
Theorem mod_tag_timestamp_pack t ts ts' p : tag_wf t ts p -> ts' < 4294967296 ->
  mod_tag_timestamp {| tg_header := {| th_type := t; th_size := lenN p; th_ts := ts |}; tg_raw := pack_tag t ts p |} ts'
  = {| tg_header := {| th_type := t; th_size := lenN p; th_ts := ts' |}; tg_raw := pack_tag t ts' p |}.
Proof.
  intros Hwf Hts'. pose proof Hwf as (Ht & Hts & Hp).
  assert (Hwf' : tag_wf t ts' p) by (repeat split; assumption).
  unfold mod_tag_timestamp. cbn [tg_raw tg_header th_type th_size].
  rewrite (pack_tag_layout _ _ _ Hwf), (pack_tag_layout _ _ _ Hwf').
  unfold u32. rewrite (N.mod_small ts') by lia. rewrite be_put_3.
  cbn [firstn skipn app]. reflexivity.
Qed.

(* reading a sequence of tags written by lal returns them all, in order *)
Definition mk_read_tag (x : spec_tag) : tag :=
  match x with (t, ts, p) =>
    {| tg_header := {| th_type := t; th_size := lenN p; th_ts := ts |}; tg_raw := pack_tag t ts p |} end.
Definition spec_tag_wf (x : spec_tag) : Prop := match x with (t, ts, p) => tag_wf t ts p end.

Lemma read_tags_stream tags : Forall spec_tag_wf tags ->
  forall fuel, (length tags <= fuel)%nat ->
  firstn (length tags) (read_tags (S fuel) (concat (map pack_spec_tag tags))) = map mk_read_tag tags.
Proof.
  induction tags as [|[[t ts] p] tags IH]; intros Hwf fuel Hf; [reflexivity|].
  inversion Hwf as [|? ? H1 H2]; subst.
  cbn [map concat length]. cbn [read_tags]. cbn [pack_spec_tag].
  rewrite read_tag_pack by exact H1.
  cbn [firstn mk_read_tag]. f_equal.
  destruct fuel as [|fuel]; [cbn in Hf; lia|].
  apply IH; [assumption|cbn in Hf; lia].
Qed.

(* all tags of a well-formed FLV file are read back exactly (and nothing else) *)
Lemma read_tags_exact tags : Forall spec_tag_wf tags ->
  forall fuel, (length tags < fuel)%nat ->
  read_tags fuel (concat (map pack_spec_tag tags)) = map mk_read_tag tags.
Proof.
  induction tags as [|[[t ts] p] tags IH]; intros Hwf fuel Hf.
  - destruct fuel; [reflexivity|]. reflexivity.
  - inversion Hwf as [|? ? H1 H2]; subst.
    destruct fuel as [|fuel]; [cbn in Hf; lia|].
    cbn [map concat read_tags pack_spec_tag]. rewrite read_tag_pack by exact H1.
    cbn [mk_read_tag]. f_equal. apply IH; [assumption|cbn in Hf; lia].
Qed.

Lemma concat_pack_length_ge tags :
  (length tags <= length (concat (map pack_spec_tag tags)))%nat.
Proof.
  induction tags as [|[[t ts] p] tags IH]; [reflexivity|].
  cbn [map concat length pack_spec_tag]. rewrite app_length, pack_tag_length. lia.
Qed.

Theorem flv_file_read_write tags : Forall spec_tag_wf tags ->
  flv_file_read (flv_file (map pack_spec_tag tags)) = map mk_read_tag tags.
Proof.
  intro Hwf. unfold flv_file_read, flv_file.
  change (skipn 13 (flv_header ++ ?x)) with x.
  destruct tags as [|x tags].
  - reflexivity.
  - apply read_tags_exact; [assumption|].
    rewrite app_length. change (length flv_header) with 13%nat.
    pose proof (concat_pack_length_ge (x :: tags)). lia.
Qed.

(* ---- the reference parser on lal's writer ---- *)
Lemma be_put_4_val v : v < 4294967296 ->
  let l := be_put 4 v in
  nth 0 l 0 * 16777216 + nth 1 l 0 * 65536 + nth 2 l 0 * 256 + nth 3 l 0 = v.
Proof. intro H. rewrite be_put_4. cbn [nth]. lia. Qed.

Theorem spec_parse_tag_pack t ts p r : tag_wf t ts p ->
  spec_parse_tag (pack_tag t ts p ++ r) = Some ((t, ts, p), r).
Proof.
  intro Hwf. pose proof Hwf as (Ht & Hts & Hp).
  rewrite (pack_tag_layout _ _ _ Hwf). cbn [app spec_parse_tag].
  cbn [N.eqb andb negb].
  replace (lenN p / 65536 mod 256 * 65536 + lenN p / 256 mod 256 * 256 + lenN p mod 256) with (lenN p) by lia.
  rewrite <- app_assoc. rewrite split_exactN_app.
  rewrite be_put_4. cbn [app].
  replace (_ * 16777216 + _ * 65536 + _ * 256 + _ =? 11 + lenN p) with true.
  2:{ symmetry. apply N.eqb_eq. lia. }
  f_equal. f_equal. f_equal. f_equal. lia.
Qed.

Lemma spec_parse_tags_stream tags : Forall spec_tag_wf tags ->
  forall fuel, (length tags <= fuel)%nat ->
  spec_parse_tags fuel (concat (map pack_spec_tag tags)) = Some tags.
Proof.
  induction tags as [|[[t ts] p] tags IH]; intros Hwf fuel Hf.
  - destruct fuel; reflexivity.
  - inversion Hwf as [|? ? H1 H2]; subst.
    destruct fuel as [|fuel]; [cbn in Hf; lia|].
    cbn [map concat pack_spec_tag].
    assert (Hne : exists b l, pack_tag t ts p ++ concat (map pack_spec_tag tags) = b :: l).
    { unfold pack_tag. cbn [app]. eauto. }
    destruct Hne as (b & l & Hbl).
    cbn [spec_parse_tags]. rewrite Hbl. rewrite <- Hbl.
    rewrite spec_parse_tag_pack by exact H1.
    rewrite IH; [reflexivity|assumption|cbn in Hf; lia].
Qed.

Theorem spec_parse_flv_file tags : Forall spec_tag_wf tags ->
  spec_parse_flv (flv_file (map pack_spec_tag tags)) = Some tags.
Proof.
  intro Hwf. unfold flv_file, flv_header. cbn [app spec_parse_flv].
  change (5 / 8 =? 0) with true. change ((5 / 2) mod 2 =? 0) with true. cbn [andb].
  apply spec_parse_tags_stream; [assumption|apply concat_pack_length_ge].
Qed.

(* ---- WebSocket ---- *)
Lemma lor_disjoint_128 b x : x < 128 -> N.lor (b2n b * 128) x = b2n b * 128 + x.
Proof. intro Hx. change 128 with (2 ^ 7). now apply lor_shift_add. Qed.

(* lal's subscriber framing: FIN, binary opcode, unmasked *)
Definition sub_ws_header (n : N) : bytes := make_ws_frame_header true false false false 2 n false 0.

Lemma sub_ws_header_small n : n < 126 -> sub_ws_header n = [130; n].
Proof.
  intro H. unfold sub_ws_header, make_ws_frame_header, u64, u8.
  rewrite (N.mod_small n) by lia.
  replace (n <? 126) with true by (symmetry; apply N.ltb_lt; lia).
  replace (n =? 126) with false by (symmetry; apply N.eqb_neq; lia).
  replace (n =? 127) with false by (symmetry; apply N.eqb_neq; lia).
  cbn [b2n app]. rewrite (lor_disjoint_128 false) by (apply N.mod_lt; discriminate).
  cbn [b2n]. rewrite (N.mod_small n 128) by lia. reflexivity.
Qed.

Lemma sub_ws_header_mid n : 126 <= n -> n <= 65535 -> sub_ws_header n = 130 :: 126 :: be_put 2 n.
Proof.
  intros H1 H2. unfold sub_ws_header, make_ws_frame_header, u64, u8, u16.
  rewrite (N.mod_small n 18446744073709551616) by lia.
  replace (n <? 126) with false by (symmetry; apply N.ltb_ge; lia).
  replace (n <=? 65535) with true by (symmetry; apply N.leb_le; lia).
  cbn [N.eqb Pos.eqb b2n app]. rewrite (N.mod_small n 65536) by lia. rewrite app_nil_r. reflexivity.
Qed.

Lemma sub_ws_header_big n : 65535 < n -> n < 18446744073709551616 ->
  sub_ws_header n = 130 :: 127 :: be_put 8 n.
Proof.
  intros H1 H2. unfold sub_ws_header, make_ws_frame_header, u64, u8.
  rewrite (N.mod_small n 18446744073709551616) by lia.
  replace (n <? 126) with false by (symmetry; apply N.ltb_ge; lia).
  replace (n <=? 65535) with false by (symmetry; apply N.leb_gt; lia).
  cbn [N.eqb Pos.eqb b2n app]. rewrite app_nil_r. reflexivity.
Qed.

Definition binary_final (p : bytes) : ws_frame :=
  {| wf_fin := true; wf_rsv := 0; wf_opcode := 2; wf_masked := false; wf_payload := p |}.

(* every unit written to a WebSocket subscriber is one complete, final,
   unmasked binary frame whose declared length equals the payload length *)
Theorem ws_parse_write p r : lenN p < 9223372036854775808 ->
  ws_parse (ws_write p ++ r) = Some (binary_final p, r).
Proof.
  intro Hlen. unfold ws_write, ws_write_units. cbn [concat]. rewrite app_nil_r.
  fold (sub_ws_header (lenN p)).
  destruct (N.ltb_spec (lenN p) 126) as [Hs|Hs].
  - rewrite sub_ws_header_small by exact Hs. cbn [app ws_parse].
    change (128 <=? 130) with true. change ((130 / 16) mod 8) with 0. change (130 mod 16) with 2.
    replace (128 <=? lenN p) with false by (symmetry; apply N.leb_gt; lia).
    rewrite (N.mod_small (lenN p) 128) by lia.
    replace (lenN p <? 126) with true by (symmetry; apply N.ltb_lt; lia).
    rewrite split_exactN_app. reflexivity.
  - destruct (N.leb_spec (lenN p) 65535) as [Hm|Hm].
    + rewrite sub_ws_header_mid by assumption. cbn [app ws_parse].
      change (128 <=? 130) with true. change ((130 / 16) mod 8) with 0. change (130 mod 16) with 2.
      change (128 <=? 126) with false. change (126 mod 128) with 126. cbn [N.ltb N.compare Pos.compare Pos.compare_cont N.eqb Pos.eqb].
      rewrite <- app_assoc.
      rewrite (split_exact_app_n 2 (be_put 2 (lenN p))) by (now rewrite be_put_length).
      rewrite be_get_put_small by (change (256 ^ N.of_nat 2) with 65536; lia).
      rewrite split_exactN_app. reflexivity.
    + rewrite sub_ws_header_big by lia. cbn [app ws_parse].
      change (128 <=? 130) with true. change ((130 / 16) mod 8) with 0. change (130 mod 16) with 2.
      change (128 <=? 127) with false. change (127 mod 128) with 127. cbn [N.ltb N.compare Pos.compare Pos.compare_cont N.eqb Pos.eqb].
      rewrite <- app_assoc.
      rewrite (split_exact_app_n 8 (be_put 8 (lenN p))) by (now rewrite be_put_length).
      rewrite be_get_put_small by (change (256 ^ N.of_nat 8) with 18446744073709551616; lia).
      replace (lenN p <? 9223372036854775808) with true by (symmetry; apply N.ltb_lt; lia).
      rewrite split_exactN_app. reflexivity.
Qed.

(* header length form: 7-bit, 16-bit or 64-bit, chosen by the payload length *)
Theorem ws_header_form n : n < 18446744073709551616 ->
  sub_ws_header n =
    if n <? 126 then [130; n]
    else if n <=? 65535 then 130 :: 126 :: be_put 2 n
    else 130 :: 127 :: be_put 8 n.
Proof.
  intro H. destruct (N.ltb_spec n 126); [now apply sub_ws_header_small|].
  destruct (N.leb_spec n 65535); [now apply sub_ws_header_mid|now apply sub_ws_header_big].
Qed.

Lemma ws_write_nonempty p : exists b l, ws_write p = b :: l.
Proof.
  unfold ws_write, ws_write_units, make_ws_frame_header. cbn [concat app]. eauto.
Qed.

Lemma ws_parse_all_writes units : Forall (fun p => lenN p < 9223372036854775808) units ->
  forall fuel, (length units <= fuel)%nat ->
  ws_parse_all fuel (concat (map ws_write units)) = Some (map binary_final units).
Proof.
  induction units as [|p units IH]; intros Hwf fuel Hf.
  - destruct fuel; reflexivity.
  - inversion Hwf as [|? ? H1 H2]; subst.
    destruct fuel as [|fuel]; [cbn in Hf; lia|].
    cbn [map concat].
    destruct (ws_write_nonempty p) as (b & l & Hbl).
    cbn [ws_parse_all].
    destruct (ws_write p ++ concat (map ws_write units)) as [|b' l'] eqn:E.
    { rewrite Hbl in E. discriminate. }
    rewrite <- E. rewrite ws_parse_write by exact H1.
    rewrite IH; [reflexivity|assumption|cbn in Hf; lia].
Qed.

Lemma ws_units_length_ge units : (length units <= length (concat (map ws_write units)))%nat.
Proof.
  induction units as [|p units IH]; [reflexivity|].
  cbn [map concat length]. rewrite app_length.
  destruct (ws_write_nonempty p) as (b & l & ->). cbn [length]. lia.
Qed.

(* the WebSocket subscriber stream parses into frames whose payloads,
   concatenated, are exactly the plain HTTP-FLV stream *)
Theorem ws_stream_is_flv_stream hdr tags :
  Forall (fun p => lenN p < 9223372036854775808) (hdr :: tags) ->
  exists frames,
    ws_parse_all (length (sub_stream true hdr tags)) (sub_stream true hdr tags) = Some frames /\
    Forall (fun f => wf_fin f = true /\ wf_opcode f = 2 /\ wf_masked f = false /\ wf_rsv f = 0) frames /\
    map wf_payload frames = hdr :: tags /\
    concat (map wf_payload frames) = sub_stream false hdr tags.
Proof.
  intro Hwf. exists (map binary_final (hdr :: tags)). unfold sub_stream.
  repeat split.
  - apply ws_parse_all_writes; [assumption|apply ws_units_length_ge].
  - apply Forall_forall. intros f Hf. apply in_map_iff in Hf. destruct Hf as (p & <- & _). now cbn.
  - rewrite map_map. cbn [binary_final wf_payload]. apply map_id.
  - rewrite map_map. cbn [binary_final wf_payload]. rewrite map_id. unfold plain_write. now rewrite map_id.
Qed.

(* a recording over an existing file of that name holds the new stream only *)
Lemma fold_fw_write tags f : fold_left fw_write tags f = f ++ concat tags.
Proof.
  revert f; induction tags as [|t tags IH]; intro f; cbn [fold_left concat].
  - rewrite app_nil_r; reflexivity.
  - rewrite IH; unfold fw_write; rewrite <- app_assoc; reflexivity.
Qed.
Lemma flv_record_is_file old tags : flv_record old tags = flv_file tags.
Proof. unfold flv_record, flv_file, fw_open; rewrite fold_fw_write; unfold fw_write; reflexivity. Qed.
