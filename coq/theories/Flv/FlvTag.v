(* Model of pkg/httpflv/tag.go (PackHttpflvTag, ReadTag, parseTagHeader),
   flv_file_writer.go / flv_file_reader.go and the FLV header constant.
   No proofs in this file. *)
From Lal Require Import Common.LBytes Common.Res.
Open Scope N_scope.

Definition tag_header_size : nat := 11.
Definition prev_tag_size_field_size : nat := 4.

(* httpflv.FlvHeader : 9-byte header + 4-byte PreviousTagSize0 *)
Definition flv_header : bytes := [70; 76; 86; 1; 5; 0; 0; 0; 9; 0; 0; 0; 0].

(* PackHttpflvTag(t uint8, timestamp uint32, in []byte) *)
Definition pack_tag (t ts : N) (p : bytes) : bytes :=
  [u8 t]
    ++ be_put 3 (u32 (lenN p))          (* BePutUint24(out[1:], uint32(len(in))) *)
    ++ be_put 3 (u32 ts)                (* BePutUint24(out[4:], timestamp&0xFFFFFF) *)
    ++ [(u32 ts / 16777216) mod 256]    (* out[7] = uint8(timestamp >> 24) *)
    ++ [0; 0; 0]
    ++ p
    ++ be_put 4 (u32 (11 + lenN p)).    (* BePutUint32(.., uint32(TagHeaderSize+len(in))) *)

Record tag_header := mk_tag_header { th_type : N; th_size : N; th_ts : N }.

(* parseTagHeader on an 11-byte slice.  StreamId is not parsed by lal. *)
Definition parse_tag_header (h : bytes) : tag_header :=
  {| th_type := nth 0 h 0;
     th_size := be_get (firstn 3 (skipn 1 h));
     th_ts := u32 (nth 7 h 0 * 16777216 + be_get (firstn 3 (skipn 4 h))) |}.

Record tag := mk_tag { tg_header : tag_header; tg_raw : bytes }.

Definition err_eof : N := 1.

(* ReadTag on a finite input: io.ReadAtLeast fails when the input is short. *)
Definition read_tag (l : bytes) : res (tag * bytes) :=
  match split_exact tag_header_size l with
  | None => Err err_eof
  | Some (raw_header, rest) =>
      let h := parse_tag_header raw_header in
      let needed := th_size h + N.of_nat prev_tag_size_field_size in
      match split_exactN needed rest with
      | None => Err err_eof
      | Some (body, rest') => Ok ({| tg_header := h; tg_raw := raw_header ++ body |}, rest')
      end
  end.

(* Tag.Payload() *)
Definition tag_payload (t : tag) : bytes :=
  firstn (length (tg_raw t) - tag_header_size - prev_tag_size_field_size)
         (skipn tag_header_size (tg_raw t)).

(* Tag.ModTagTimestamp(timestamp): rewrites the 24+8-bit timestamp in place *)
Definition mod_tag_timestamp (t : tag) (ts : N) : tag :=
  let raw := tg_raw t in
  {| tg_header := {| th_type := th_type (tg_header t); th_size := th_size (tg_header t); th_ts := u32 ts |};
     tg_raw := firstn 4 raw ++ be_put 3 (u32 ts) ++ [(u32 ts / 16777216) mod 256] ++ skipn 8 raw |}.

(* FlvFileWriter: WriteFlvHeader then WriteTag(tag.Raw) / WriteRaw *)
Definition flv_file (tags : list bytes) : bytes := flv_header ++ concat tags.

(* the recording as a file: Open is os.Create, which truncates whatever a file of that name held (a stream
   re-published within the same second reuses the name <stream>-<unix sec>.flv); every write appends *)
Definition fw_open (old : bytes) : bytes := [].
Definition fw_write (f b : bytes) : bytes := f ++ b.
Definition flv_record (old : bytes) (tags : list bytes) : bytes :=
  fold_left fw_write tags (fw_write (fw_open old) flv_header).

(* FlvFileReader: lazily skip the 13-byte header (Read on a short file returns
   what is there), then ReadTag until error. *)
Fixpoint read_tags (fuel : nat) (l : bytes) : list tag :=
  match fuel with
  | O => []
  | S f => match read_tag l with
           | Ok (t, rest) => t :: read_tags f rest
           | _ => []
           end
  end.
Definition flv_file_read (l : bytes) : list tag := read_tags (length l) (skipn 13 l).

(* ---------------------------------------------------------------------- *)
(* Independent reference: FLV as in the Adobe "Video File Format
   Specification v10" annex E.  A tag is (type, timestamp, payload). *)
Definition spec_tag := (N * N * bytes)%type.

Definition spec_parse_tag (l : bytes) : option (spec_tag * bytes) :=
  match l with
  | ty :: s2 :: s1 :: s0 :: t2 :: t1 :: t0 :: te :: i2 :: i1 :: i0 :: rest =>
      let size := s2 * 65536 + s1 * 256 + s0 in
      let ts := te * 16777216 + t2 * 65536 + t1 * 256 + t0 in
      if negb ((i2 =? 0) && (i1 =? 0) && (i0 =? 0)) then None else
      match split_exactN size rest with
      | None => None
      | Some (payload, rest1) =>
          match rest1 with
          | p3 :: p2 :: p1 :: p0 :: rest2 =>
              if (p3 * 16777216 + p2 * 65536 + p1 * 256 + p0) =? (11 + size)
              then Some ((ty, ts, payload), rest2) else None
          | _ => None
          end
      end
  | _ => None
  end.

Fixpoint spec_parse_tags (fuel : nat) (l : bytes) : option (list spec_tag) :=
  match l with
  | [] => Some []
  | _ => match fuel with
         | O => None
         | S f => match spec_parse_tag l with
                  | None => None
                  | Some (t, rest) =>
                      match spec_parse_tags f rest with
                      | None => None
                      | Some ts => Some (t :: ts)
                      end
                  end
         end
  end.

(* signature "FLV", version 1, flags (audio|video bits only), data offset 9,
   PreviousTagSize0 = 0 *)
Definition spec_parse_flv (l : bytes) : option (list spec_tag) :=
  match l with
  | 70 :: 76 :: 86 :: 1 :: flags :: 0 :: 0 :: 0 :: 9 :: 0 :: 0 :: 0 :: 0 :: rest =>
      if (flags / 8 =? 0) && ((flags / 2) mod 2 =? 0)
      then spec_parse_tags (length rest) rest else None
  | _ => None
  end.

Definition pack_spec_tag (t : spec_tag) : bytes :=
  match t with (ty, ts, p) => pack_tag ty ts p end.
