(* Model of base.MakeWsFrameHeader and the per-write framing of
   base.BasicHttpSubSession.Write; reference RFC 6455 frame parser. *)
From Lal Require Import Common.LBytes Common.Res.
Open Scope N_scope.

Definition b2n (b : bool) : N := if b then 1 else 0.

(* MakeWsFrameHeader(WsHeader{Fin,Rsv1,Rsv2,Rsv3,Opcode,PayloadLength,Masked,MaskKey}) *)
Definition make_ws_frame_header (fin r1 r2 r3 : bool) (opcode plen : N) (masked : bool) (key : N) : bytes :=
  let plen := u64 plen in
  let payload := if plen <? 126 then plen else if plen <=? 65535 then 126 else 127 in
  (* buf[0] |= fin<<7 | rsv1<<6 | rsv2<<5 | rsv3<<4 ; buf[0] |= opcode  (uint8 or) *)
  let b0 := N.lor (b2n fin * 128 + b2n r1 * 64 + b2n r2 * 32 + b2n r3 * 16) (u8 opcode) in
  let b1 := N.lor (b2n masked * 128) (payload mod 128) in
  [b0; b1]
    ++ (if payload =? 126 then be_put 2 (u16 plen)
        else if payload =? 127 then be_put 8 plen else [])
    ++ (if masked then le_put 4 (u32 key) else []).

(* BasicHttpSubSession.Write(b) with IsWebSocket: header and b are copied into
   one buffer and handed to the connection as ONE write (since the repair of
   F-25, property C15; before it they were two writes, header then b) *)
Definition ws_write_units (b : bytes) : list bytes :=
  [make_ws_frame_header true false false false 2 (lenN b) false 0 ++ b].
Definition ws_write (b : bytes) : bytes := concat (ws_write_units b).
Definition plain_write (b : bytes) : bytes := b.

(* the byte stream of an HTTP-FLV subscriber after the HTTP response header:
   WriteFlvHeader then one Write per tag *)
Definition sub_stream (ws : bool) (flv_header : bytes) (tags : list bytes) : bytes :=
  concat (map (if ws then ws_write else plain_write) (flv_header :: tags)).

(* ---------------------------------------------------------------------- *)
(* RFC 6455 section 5.2 reference frame parser (unmasked and masked). *)
Record ws_frame := mk_ws_frame
  { wf_fin : bool; wf_rsv : N; wf_opcode : N; wf_masked : bool; wf_payload : bytes }.

Fixpoint unmask (key : bytes) (i : nat) (p : bytes) : bytes :=
  match p with
  | [] => []
  | b :: t => N.lxor b (nth (i mod 4) key 0) :: unmask key (S i) t
  end.

Definition ws_parse (l : bytes) : option (ws_frame * bytes) :=
  match l with
  | b0 :: b1 :: rest =>
      let fin := 128 <=? b0 in
      let rsv := (b0 / 16) mod 8 in
      let opcode := b0 mod 16 in
      let masked := 128 <=? b1 in
      let l7 := b1 mod 128 in
      let lenrest :=
        if l7 <? 126 then Some (l7, rest)
        else if l7 =? 126 then
          match split_exact 2 rest with
          | Some (lb, r) => Some (be_get lb, r) | None => None end
        else
          match split_exact 8 rest with
          | Some (lb, r) => if be_get lb <? 9223372036854775808 then Some (be_get lb, r) else None
          | None => None end in
      match lenrest with
      | None => None
      | Some (plen, rest1) =>
          let keyrest := if masked then split_exact 4 rest1 else Some ([], rest1) in
          match keyrest with
          | None => None
          | Some (key, rest2) =>
              match split_exactN plen rest2 with
              | None => None
              | Some (p, rest3) =>
                  Some ({| wf_fin := fin; wf_rsv := rsv; wf_opcode := opcode; wf_masked := masked;
                           wf_payload := if masked then unmask key 0 p else p |}, rest3)
              end
          end
      end
  | _ => None
  end.

Fixpoint ws_parse_all (fuel : nat) (l : bytes) : option (list ws_frame) :=
  match l with
  | [] => Some []
  | _ => match fuel with
         | O => None
         | S f => match ws_parse l with
                  | None => None
                  | Some (fr, rest) =>
                      match ws_parse_all f rest with
                      | None => None
                      | Some frs => Some (fr :: frs)
                      end
                  end
         end
  end.
