(* Proofs for the SDP model: text primitives, decimal round trip, the line
   parsers on the templates Pack writes, and Pack -> ParseSdp2LogicContext. *)
From Coq Require Import Lia ZifyN ZifyNat ZifyBool.
From Lal Require Import Common.LBytes Common.Res Codec.CodecSdpText Codec.CodecSdp.
Ltac Zify.zify_post_hook ::= Z.div_mod_to_equations.
Open Scope N_scope.

(* ------------------------------------------------------------------ *)
(* "does not contain byte c", as a boolean so that literals compute    *)
Definition nob (c : N) (s : bytes) : bool := forallb (fun x => negb (x =? c)) s.

Lemma nob_app c a b : nob c (a ++ b) = nob c a && nob c b.
Proof. apply forallb_app. Qed.

Lemma nob_cons c x s : nob c (x :: s) = negb (x =? c) && nob c s.
Proof. reflexivity. Qed.

(* ---- break1 / split1 on  a ++ c :: b  when c does not occur in a ---- *)
Lemma break1_app c a b : nob c a = true -> break1 c (a ++ c :: b) = (a, Some b).
Proof.
  induction a as [|x a IH]; cbn [app break1 nob forallb]; intro H.
  - now rewrite N.eqb_refl.
  - apply andb_prop in H as [Hx Ha]. apply negb_true_iff in Hx. rewrite Hx.
    fold (nob c a) in Ha. now rewrite (IH Ha).
Qed.

Lemma break1_none c a : nob c a = true -> break1 c a = (a, None).
Proof.
  induction a as [|x a IH]; cbn [break1 nob forallb]; intro H; [reflexivity|].
  apply andb_prop in H as [Hx Ha]. apply negb_true_iff in Hx. rewrite Hx.
  fold (nob c a) in Ha. now rewrite (IH Ha).
Qed.

Lemma split1_app c a b : nob c a = true -> split1 c (a ++ c :: b) = a :: split1 c b.
Proof.
  induction a as [|x a IH]; cbn [app split1 nob forallb]; intro H.
  - now rewrite N.eqb_refl.
  - apply andb_prop in H as [Hx Ha]. apply negb_true_iff in Hx. rewrite Hx.
    fold (nob c a) in Ha. now rewrite (IH Ha).
Qed.

Lemma split1_none c a : nob c a = true -> split1 c a = [a].
Proof.
  induction a as [|x a IH]; cbn [split1 nob forallb]; intro H; [reflexivity|].
  apply andb_prop in H as [Hx Ha]. apply negb_true_iff in Hx. rewrite Hx.
  fold (nob c a) in Ha. now rewrite (IH Ha).
Qed.

(* ---- lines: "\n" -> "\r\n", then Split on "\r\n" ---- *)
Definition nocrlf (l : bytes) : bool := nob 10 l && nob 13 l.
Definition join_crlf (lines : list bytes) : bytes := concat (map (fun l => l ++ [13; 10]) lines).

Lemma replace_nl_app a b : replace_nl (a ++ b) = replace_nl a ++ replace_nl b.
Proof. unfold replace_nl. apply flat_map_app. Qed.

Lemma replace_nl_clean a : nob 10 a = true -> replace_nl a = a.
Proof.
  induction a as [|x a IH]; cbn [replace_nl flat_map nob forallb]; intro H; [reflexivity|].
  apply andb_prop in H as [Hx Ha]. apply negb_true_iff in Hx. rewrite Hx.
  fold (nob 10 a) in Ha. fold (replace_nl a). now rewrite (IH Ha).
Qed.

Lemma replace_nl_join lines :
  forallb nocrlf lines = true -> replace_nl (join_nl lines) = join_crlf lines.
Proof.
  induction lines as [|l r IH]; cbn [forallb]; intro H; [reflexivity|].
  apply andb_prop in H as [Hl Hr]. apply andb_prop in Hl as [H10 _].
  unfold join_nl, join_crlf in *. cbn [map concat].
  rewrite !replace_nl_app, (replace_nl_clean _ H10), (IH Hr). cbn. now rewrite <- app_assoc.
Qed.

Lemma split_crlf_app a b : nob 13 a = true -> split_crlf (a ++ 13 :: 10 :: b) = a :: split_crlf b.
Proof.
  induction a as [|x a IH]; intro H.
  - reflexivity.
  - cbn [nob forallb] in H. apply andb_prop in H as [Hx Ha]. apply negb_true_iff in Hx.
    fold (nob 13 a) in Ha. specialize (IH Ha).
    change ((x :: a) ++ 13 :: 10 :: b) with (x :: (a ++ 13 :: 10 :: b)).
    cbn [split_crlf]. destruct (a ++ 13 :: 10 :: b) as [|y t] eqn:E.
    + destruct a; discriminate.
    + rewrite Hx. cbn [andb]. rewrite IH. reflexivity.
Qed.

Lemma split_crlf_join lines :
  forallb nocrlf lines = true -> split_crlf (join_crlf lines) = lines ++ [[]].
Proof.
  induction lines as [|l r IH]; cbn [forallb]; intro H; [reflexivity|].
  apply andb_prop in H as [Hl Hr]. apply andb_prop in Hl as [_ H13].
  unfold join_crlf in *. cbn [map concat]. rewrite <- app_assoc. cbn [app].
  rewrite (split_crlf_app _ _ H13), (IH Hr). reflexivity.
Qed.

(* ---- trimming: nothing to trim when the tail holds no trimmed byte ---- *)
Lemma trim_right_f_keep f b :
  forallb (fun y => negb (f y)) b = true -> trim_right_f f b = b.
Proof.
  induction b as [|y b IH]; cbn [forallb trim_right_f]; intro H; [reflexivity|].
  apply andb_prop in H as [Hy Hb]. apply negb_true_iff in Hy. rewrite (IH Hb), Hy.
  destruct b; reflexivity.
Qed.

Lemma trim_right_f_app f a x b :
  f x = false -> forallb (fun y => negb (f y)) b = true ->
  trim_right_f f (a ++ x :: b) = a ++ x :: b.
Proof.
  intros Hx Hb. induction a as [|y a IH]; cbn [app].
  - apply trim_right_f_keep. cbn [forallb]. now rewrite Hx, Hb.
  - cbn [trim_right_f]. rewrite IH. destruct a; reflexivity.
Qed.

(* ------------------------------------------------------------------ *)
(* decimal round trip: Atoi (Sprintf "%d" z) = z on the int64 range    *)
Definition dval (acc : N) (s : bytes) : N := fold_left (fun a c => a * 10 + (c - 48)) s acc.
Definition digits (s : bytes) : Prop := Forall (fun c => 48 <= c <= 57) s.

Lemma dval_ge s : forall acc, acc <= dval acc s.
Proof.
  induction s as [|c t IH]; intro acc; cbn [dval fold_left]; [lia|].
  fold (dval (acc * 10 + (c - 48)) t). specialize (IH (acc * 10 + (c - 48))). lia.
Qed.

Lemma dval_snoc s d : forall acc, dval acc (s ++ [d]) = dval acc s * 10 + (d - 48).
Proof. intro acc. unfold dval. now rewrite fold_left_app. Qed.

Lemma dec_digits_S f n :
  dec_digits (S f) n = if n <? 10 then [48 + n] else dec_digits f (n / 10) ++ [48 + n mod 10].
Proof. reflexivity. Qed.

Lemma dec_digits_spec fuel : forall n, n < 10 ^ N.of_nat (S fuel) ->
  dval 0 (dec_digits (S fuel) n) = n /\ digits (dec_digits (S fuel) n) /\ dec_digits (S fuel) n <> [].
Proof.
  induction fuel as [|f IH]; intros n Hn.
  - change (10 ^ N.of_nat 1) with 10 in Hn. cbn [dec_digits].
    apply N.ltb_lt in Hn as Hb. rewrite Hb. cbn [dval fold_left].
    repeat split; [lia| constructor; [lia|constructor] | discriminate].
  - rewrite (dec_digits_S (S f)). destruct (n <? 10) eqn:Hb.
    + apply N.ltb_lt in Hb. cbn [dval fold_left].
      repeat split; [lia| constructor; [lia|constructor] | discriminate].
    + apply N.ltb_ge in Hb.
      assert (Hq : n / 10 < 10 ^ N.of_nat (S f)).
      { replace (N.of_nat (S (S f))) with (N.succ (N.of_nat (S f))) in Hn by lia.
        rewrite N.pow_succ_r' in Hn. apply N.div_lt_upper_bound; lia. }
      destruct (IH _ Hq) as (Hv & Hd & Hne).
      repeat split.
      * rewrite dval_snoc, Hv. lia.
      * apply Forall_app; split; [exact Hd|]. constructor; [|constructor].
        assert (n mod 10 < 10) by (apply N.mod_lt; discriminate). lia.
      * intro E. apply app_eq_nil in E as [_ E]. discriminate.
Qed.

Lemma pu_loop_digits s : forall acc, digits s -> dval acc s <= max_u64 -> pu_loop acc s = (dval acc s, 0).
Proof.
  induction s as [|c t IH]; intros acc Hd Hm; [reflexivity|].
  inversion Hd as [|? ? Hc Ht]; subst. cbn [pu_loop dval fold_left] in *.
  fold (dval (acc * 10 + (c - 48)) t) in *.
  pose proof (dval_ge t (acc * 10 + (c - 48))) as Hge.
  unfold is_digit. replace (48 <=? c) with true by (symmetry; apply N.leb_le; lia).
  replace (c <=? 57) with true by (symmetry; apply N.leb_le; lia). cbn [andb negb].
  unfold max_u64, cutoff10 in *.
  replace (1844674407370955162 <=? acc) with false by (symmetry; apply N.leb_gt; lia).
  replace (18446744073709551615 <? acc * 10 + (c - 48)) with false by (symmetry; apply N.ltb_ge; lia).
  apply IH; assumption.
Qed.

Lemma fmt_u_spec n : n < 10 ^ 20 ->
  dval 0 (fmt_u n) = n /\ digits (fmt_u n) /\ fmt_u n <> [].
Proof. intro H. unfold fmt_u. apply (dec_digits_spec 19). exact H. Qed.

Lemma parse_uint_fmt_u n : n <= two63 -> parse_uint (fmt_u n) = (n, 0).
Proof.
  intro H. unfold two63 in H. destruct (fmt_u_spec n) as (Hv & Hd & Hne); [lia|].
  unfold parse_uint. destruct (fmt_u n) as [|c t] eqn:E; [congruence|].
  rewrite pu_loop_digits; [now rewrite Hv| exact Hd | rewrite Hv; unfold max_u64; lia].
Qed.

Definition int64 (z : Z) : Prop := (- 9223372036854775808 <= z < 9223372036854775808)%Z.

Lemma atoi_fmt_d z : int64 z -> atoi (fmt_d z) = (z, 0).
Proof.
  unfold int64. intro Hz. destruct z as [|p|p]; cbn [fmt_d Z.to_N].
  - reflexivity.
  - assert (Hn : N.pos p <= two63) by (unfold two63; lia).
    pose proof (parse_uint_fmt_u _ Hn) as Hp.
    destruct (fmt_u_spec (N.pos p)) as (_ & Hd & Hne); [unfold two63 in Hn; lia|].
    unfold atoi. destruct (fmt_u (N.pos p)) as [|c t] eqn:E; [congruence|].
    inversion Hd as [|? ? Hc _]; subst.
    replace (c =? 45) with false by (symmetry; apply N.eqb_neq; lia).
    replace (c =? 43) with false by (symmetry; apply N.eqb_neq; lia).
    cbn [orb andb negb]. rewrite Hp. cbn [N.eqb andb negb].
    replace (two63 <=? N.pos p) with false by (symmetry; apply N.leb_gt; unfold two63; lia).
    reflexivity.
  - assert (Hn : N.pos p <= two63) by (unfold two63; lia).
    pose proof (parse_uint_fmt_u _ Hn) as Hp.
    unfold atoi. cbn [N.eqb Pos.eqb orb andb negb]. rewrite Hp. cbn [N.eqb andb negb].
    replace (two63 <? N.pos p) with false by (symmetry; apply N.ltb_ge; exact Hn).
    reflexivity.
Qed.

(* the characters of %d: '-' and digits *)
Lemma fmt_d_chars z : int64 z -> Forall (fun c => c = 45 \/ 48 <= c <= 57) (fmt_d z).
Proof.
  unfold int64. intro Hz.
  assert (Hu : forall n, n < 10 ^ 20 -> Forall (fun c => c = 45 \/ 48 <= c <= 57) (fmt_u n)).
  { intros n Hn. destruct (fmt_u_spec n Hn) as (_ & Hd & _).
    eapply Forall_impl; [|exact Hd]. intros; now right. }
  destruct z as [|p|p]; cbn [fmt_d Z.to_N].
  - apply Hu. reflexivity.
  - apply Hu. lia.
  - constructor; [now left|]. apply Hu. lia.
Qed.

Lemma fmt_d_nob c z : int64 z -> c <> 45 -> (c < 48 \/ 57 < c) -> nob c (fmt_d z) = true.
Proof.
  intros Hz H45 Hr. unfold nob. apply forallb_forall. intros x Hx.
  pose proof (fmt_d_chars z Hz) as Hc. rewrite Forall_forall in Hc. specialize (Hc x Hx).
  apply negb_true_iff, N.eqb_neq. lia.
Qed.
