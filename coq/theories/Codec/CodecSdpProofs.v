(* Proofs for the SDP model: text primitives, decimal round trip, the line
   parsers on the templates Pack writes, and Pack -> ParseSdp2LogicContext. *)
From Coq Require Import Lia ZifyN ZifyNat ZifyBool Strings.String.
From Lal Require Import Common.LBytes Common.Res Codec.CodecSdpText Codec.CodecSdp.
Ltac Zify.zify_post_hook ::= Z.div_mod_to_equations.
Open Scope N_scope.

(* ------------------------------------------------------------------ *)
(* "does not contain byte c", as a boolean so that literals compute    *)
Definition nob (c : N) (s : bytes) : bool := forallb (fun x => negb (x =? c)) s.

Lemma nob_app c a b : nob c (a ++ b) = nob c a && nob c b.
Proof. apply forallb_app. Qed.

Lemma nob_cons c x s : nob c (x :: s) = negb (x =? c) && nob c s.
Proof. reflexivity. Qed.

(* ---- break1 / split1 on  a ++ c :: b  when c does not occur in a ---- *)
Lemma break1_app c a b : nob c a = true -> break1 c (a ++ c :: b) = (a, Some b).
Proof.
  induction a as [|x a IH]; cbn [app break1 nob forallb]; intro H.
  - now rewrite N.eqb_refl.
  - apply andb_prop in H as [Hx Ha]. apply negb_true_iff in Hx. rewrite Hx.
    fold (nob c a) in Ha. now rewrite (IH Ha).
Qed.

Lemma break1_none c a : nob c a = true -> break1 c a = (a, None).
Proof.
  induction a as [|x a IH]; cbn [break1 nob forallb]; intro H; [reflexivity|].
  apply andb_prop in H as [Hx Ha]. apply negb_true_iff in Hx. rewrite Hx.
  fold (nob c a) in Ha. now rewrite (IH Ha).
Qed.

Lemma split1_app c a b : nob c a = true -> split1 c (a ++ c :: b) = a :: split1 c b.
Proof.
  induction a as [|x a IH]; cbn [app split1 nob forallb]; intro H.
  - now rewrite N.eqb_refl.
  - apply andb_prop in H as [Hx Ha]. apply negb_true_iff in Hx. rewrite Hx.
    fold (nob c a) in Ha. now rewrite (IH Ha).
Qed.

Lemma split1_none c a : nob c a = true -> split1 c a = [a].
Proof.
  induction a as [|x a IH]; cbn [split1 nob forallb]; intro H; [reflexivity|].
  apply andb_prop in H as [Hx Ha]. apply negb_true_iff in Hx. rewrite Hx.
  fold (nob c a) in Ha. now rewrite (IH Ha).
Qed.

(* ---- lines: "\n" -> "\r\n", then Split on "\r\n" ---- *)
Definition nocrlf (l : bytes) : bool := nob 10 l && nob 13 l.
Definition join_crlf (lines : list bytes) : bytes := concat (map (fun l => l ++ [13; 10]) lines).

Lemma replace_nl_app a b : replace_nl (a ++ b) = replace_nl a ++ replace_nl b.
Proof. unfold replace_nl. apply flat_map_app. Qed.

Lemma replace_nl_clean a : nob 10 a = true -> replace_nl a = a.
Proof.
  induction a as [|x a IH]; cbn [replace_nl flat_map nob forallb]; intro H; [reflexivity|].
  apply andb_prop in H as [Hx Ha]. apply negb_true_iff in Hx. rewrite Hx.
  fold (nob 10 a) in Ha. fold (replace_nl a). now rewrite (IH Ha).
Qed.

Lemma replace_nl_join lines :
  forallb nocrlf lines = true -> replace_nl (join_nl lines) = join_crlf lines.
Proof.
  induction lines as [|l r IH]; cbn [forallb]; intro H; [reflexivity|].
  apply andb_prop in H as [Hl Hr]. apply andb_prop in Hl as [H10 _].
  unfold join_nl, join_crlf in *. cbn [map concat].
  rewrite !replace_nl_app, (replace_nl_clean _ H10), (IH Hr). cbn. now rewrite <- app_assoc.
Qed.

Lemma split_crlf_app a b : nob 13 a = true -> split_crlf (a ++ 13 :: 10 :: b) = a :: split_crlf b.
Proof.
  induction a as [|x a IH]; intro H.
  - reflexivity.
  - cbn [nob forallb] in H. apply andb_prop in H as [Hx Ha]. apply negb_true_iff in Hx.
    fold (nob 13 a) in Ha. specialize (IH Ha).
    change ((x :: a) ++ 13 :: 10 :: b) with (x :: (a ++ 13 :: 10 :: b)).
    cbn [split_crlf]. destruct (a ++ 13 :: 10 :: b) as [|y t] eqn:E.
    + destruct a; discriminate.
    + rewrite Hx. cbn [andb]. rewrite IH. reflexivity.
Qed.

Lemma split_crlf_join lines :
  forallb nocrlf lines = true -> split_crlf (join_crlf lines) = lines ++ [[]].
Proof.
  induction lines as [|l r IH]; cbn [forallb]; intro H; [reflexivity|].
  apply andb_prop in H as [Hl Hr]. apply andb_prop in Hl as [_ H13].
  unfold join_crlf in *. cbn [map concat]. rewrite <- app_assoc. cbn [app].
  rewrite (split_crlf_app _ _ H13), (IH Hr). reflexivity.
Qed.

(* ---- trimming: nothing to trim when the tail holds no trimmed byte ---- *)
Lemma trim_right_f_keep f b :
  forallb (fun y => negb (f y)) b = true -> trim_right_f f b = b.
Proof.
  induction b as [|y b IH]; cbn [forallb trim_right_f]; intro H; [reflexivity|].
  apply andb_prop in H as [Hy Hb]. apply negb_true_iff in Hy. rewrite (IH Hb), Hy.
  destruct b; reflexivity.
Qed.

Lemma trim_right_f_app f a x b :
  f x = false -> forallb (fun y => negb (f y)) b = true ->
  trim_right_f f (a ++ x :: b) = a ++ x :: b.
Proof.
  intros Hx Hb. induction a as [|y a IH]; cbn [app].
  - apply trim_right_f_keep. cbn [forallb]. now rewrite Hx, Hb.
  - cbn [trim_right_f]. rewrite IH. destruct a; reflexivity.
Qed.

(* ------------------------------------------------------------------ *)
(* decimal round trip: Atoi (Sprintf "%d" z) = z on the int64 range    *)
Definition dval (acc : N) (s : bytes) : N := fold_left (fun a c => a * 10 + (c - 48)) s acc.
Definition digits (s : bytes) : Prop := Forall (fun c => 48 <= c <= 57) s.

Lemma dval_ge s : forall acc, acc <= dval acc s.
Proof.
  induction s as [|c t IH]; intro acc; cbn [dval fold_left]; [lia|].
  fold (dval (acc * 10 + (c - 48)) t). specialize (IH (acc * 10 + (c - 48))). lia.
Qed.

Lemma dval_snoc s d : forall acc, dval acc (s ++ [d]) = dval acc s * 10 + (d - 48).
Proof. intro acc. unfold dval. now rewrite fold_left_app. Qed.

Lemma dec_digits_S f n :
  dec_digits (S f) n = if n <? 10 then [48 + n] else dec_digits f (n / 10) ++ [48 + n mod 10].
Proof. reflexivity. Qed.

Lemma dec_digits_spec fuel : forall n, n < 10 ^ N.of_nat (S fuel) ->
  dval 0 (dec_digits (S fuel) n) = n /\ digits (dec_digits (S fuel) n) /\ dec_digits (S fuel) n <> [].
Proof.
  induction fuel as [|f IH]; intros n Hn.
  - change (10 ^ N.of_nat 1) with 10 in Hn. cbn [dec_digits].
    apply N.ltb_lt in Hn as Hb. rewrite Hb. cbn [dval fold_left].
    repeat split; [lia| constructor; [lia|constructor] | discriminate].
  - rewrite (dec_digits_S (S f)). destruct (n <? 10) eqn:Hb.
    + apply N.ltb_lt in Hb. cbn [dval fold_left].
      repeat split; [lia| constructor; [lia|constructor] | discriminate].
    + apply N.ltb_ge in Hb.
      assert (Hq : n / 10 < 10 ^ N.of_nat (S f)).
      { replace (N.of_nat (S (S f))) with (N.succ (N.of_nat (S f))) in Hn by lia.
        rewrite N.pow_succ_r' in Hn. apply N.div_lt_upper_bound; lia. }
      destruct (IH _ Hq) as (Hv & Hd & Hne).
      repeat split.
      * rewrite dval_snoc, Hv. lia.
      * apply Forall_app; split; [exact Hd|]. constructor; [|constructor].
        assert (n mod 10 < 10) by (apply N.mod_lt; discriminate). lia.
      * intro E. apply app_eq_nil in E as [_ E]. discriminate.
Qed.

Lemma pu_loop_digits s : forall acc, digits s -> dval acc s <= max_u64 -> pu_loop acc s = (dval acc s, 0).
Proof.
  induction s as [|c t IH]; intros acc Hd Hm; [reflexivity|].
  inversion Hd as [|? ? Hc Ht]; subst. cbn [pu_loop dval fold_left] in *.
  fold (dval (acc * 10 + (c - 48)) t) in *.
  pose proof (dval_ge t (acc * 10 + (c - 48))) as Hge.
  unfold is_digit. replace (48 <=? c) with true by (symmetry; apply N.leb_le; lia).
  replace (c <=? 57) with true by (symmetry; apply N.leb_le; lia). cbn [andb negb].
  unfold max_u64, cutoff10 in *.
  replace (1844674407370955162 <=? acc) with false by (symmetry; apply N.leb_gt; lia).
  replace (18446744073709551615 <? acc * 10 + (c - 48)) with false by (symmetry; apply N.ltb_ge; lia).
  apply IH; assumption.
Qed.

Lemma fmt_u_spec n : n < 10 ^ 20 ->
  dval 0 (fmt_u n) = n /\ digits (fmt_u n) /\ fmt_u n <> [].
Proof. intro H. unfold fmt_u. apply (dec_digits_spec 19). exact H. Qed.

Lemma parse_uint_fmt_u n : n <= two63 -> parse_uint (fmt_u n) = (n, 0).
Proof.
  intro H. unfold two63 in H. destruct (fmt_u_spec n) as (Hv & Hd & Hne); [lia|].
  unfold parse_uint. destruct (fmt_u n) as [|c t] eqn:E; [congruence|].
  rewrite pu_loop_digits; [now rewrite Hv| exact Hd | rewrite Hv; unfold max_u64; lia].
Qed.

Definition int64 (z : Z) : Prop := (- 9223372036854775808 <= z < 9223372036854775808)%Z.

Lemma atoi_fmt_d z : int64 z -> atoi (fmt_d z) = (z, 0).
Proof.
  unfold int64. intro Hz. destruct z as [|p|p]; cbn [fmt_d Z.to_N].
  - reflexivity.
  - assert (Hn : N.pos p <= two63) by (unfold two63; lia).
    pose proof (parse_uint_fmt_u _ Hn) as Hp.
    destruct (fmt_u_spec (N.pos p)) as (_ & Hd & Hne); [unfold two63 in Hn; lia|].
    unfold atoi. destruct (fmt_u (N.pos p)) as [|c t] eqn:E; [congruence|].
    inversion Hd as [|? ? Hc _]; subst.
    replace (c =? 45) with false by (symmetry; apply N.eqb_neq; lia).
    replace (c =? 43) with false by (symmetry; apply N.eqb_neq; lia).
    cbn [orb andb negb]. rewrite Hp. cbn [N.eqb andb negb].
    replace (two63 <=? N.pos p) with false by (symmetry; apply N.leb_gt; unfold two63; lia).
    reflexivity.
  - assert (Hn : N.pos p <= two63) by (unfold two63; lia).
    pose proof (parse_uint_fmt_u _ Hn) as Hp.
    unfold atoi. cbn [N.eqb Pos.eqb orb andb negb]. rewrite Hp. cbn [N.eqb andb negb].
    replace (two63 <? N.pos p) with false by (symmetry; apply N.ltb_ge; exact Hn).
    reflexivity.
Qed.

(* the characters of %d: '-' and digits *)
Lemma fmt_d_chars z : int64 z -> Forall (fun c => c = 45 \/ 48 <= c <= 57) (fmt_d z).
Proof.
  unfold int64. intro Hz.
  assert (Hu : forall n, n < 10 ^ 20 -> Forall (fun c => c = 45 \/ 48 <= c <= 57) (fmt_u n)).
  { intros n Hn. destruct (fmt_u_spec n Hn) as (_ & Hd & _).
    eapply Forall_impl; [|exact Hd]. intros; now right. }
  destruct z as [|p|p]; cbn [fmt_d Z.to_N].
  - apply Hu. reflexivity.
  - apply Hu. lia.
  - constructor; [now left|]. apply Hu. lia.
Qed.

Lemma fmt_d_nob c z : int64 z -> c <> 45 -> (c < 48 \/ 57 < c) -> nob c (fmt_d z) = true.
Proof.
  intros Hz H45 Hr. unfold nob. apply forallb_forall. intros x Hx.
  pose proof (fmt_d_chars z Hz) as Hc. rewrite Forall_forall in Hc. specialize (Hc x Hx).
  apply negb_true_iff, N.eqb_neq. lia.
Qed.

(* ------------------------------------------------------------------ *)
(* helpers for texts made of literal and symbolic segments             *)
Lemma drop_while_hd f x s : f x = false -> drop_while f (x :: s) = x :: s.
Proof. intro H. cbn [drop_while]. now rewrite H. Qed.

Lemma drop_while_app_hd f a r :
  match a with x :: _ => f x = false | [] => False end -> drop_while f (a ++ r) = a ++ r.
Proof. destruct a as [|x a]; [tauto|]. intro H. cbn [app]. now apply drop_while_hd. Qed.

Lemma drop_while_skip f x s : f x = true -> drop_while f (x :: s) = drop_while f s.
Proof. intro H. cbn [drop_while]. now rewrite H. Qed.

(* "trimming on the right changes nothing", closed under prefixing *)
Definition ends_ok (f : N -> bool) (s : bytes) : Prop := trim_right_f f s = s /\ s <> [].

Lemma ends_ok_cons f x s : ends_ok f s -> ends_ok f (x :: s).
Proof.
  intros [H Hne]. split; [|discriminate]. cbn [trim_right_f]. rewrite H.
  destruct s; [congruence|reflexivity].
Qed.

Lemma ends_ok_app f a s : ends_ok f s -> ends_ok f (a ++ s).
Proof. intro H. induction a as [|x a IH]; [exact H|]. cbn [app]. now apply ends_ok_cons. Qed.

Lemma ends_ok_tail f x b : f x = false -> forallb (fun y => negb (f y)) b = true -> ends_ok f (x :: b).
Proof.
  intros Hx Hb. split; [|discriminate].
  apply (trim_right_f_app f [] x b Hx Hb).
Qed.

(* ---- the line parsers on "a=rtpmap:<pt> <name>/<rate>[/<params>]" ---- *)
Lemma parse_a_rtpmap_3 ptxt pt name ratetxt rate params :
  nob 32 ptxt = true -> atoi ptxt = (pt, 0) -> nob 47 name = true ->
  nob 47 ratetxt = true -> atoi ratetxt = (rate, 0) ->
  parse_a_rtpmap (k_rtpmap ++ 58 :: (ptxt ++ 32 :: (name ++ 47 :: (ratetxt ++ 47 :: params))))
  = Ok {| rm_pt := pt; rm_name := name; rm_rate := rate; rm_params := params |}.
Proof.
  intros H1 H2 H3 H4 H5. unfold parse_a_rtpmap.
  rewrite break1_app by reflexivity. rewrite (break1_app 32 _ _ H1). rewrite H2. cbn [N.eqb negb].
  rewrite (break1_app 47 _ _ H3). rewrite (break1_app 47 _ _ H4). rewrite H5. reflexivity.
Qed.

Lemma parse_a_rtpmap_2 ptxt pt name ratetxt rate :
  nob 32 ptxt = true -> atoi ptxt = (pt, 0) -> nob 47 name = true ->
  nob 47 ratetxt = true -> atoi ratetxt = (rate, 0) ->
  parse_a_rtpmap (k_rtpmap ++ 58 :: (ptxt ++ 32 :: (name ++ 47 :: ratetxt)))
  = Ok {| rm_pt := pt; rm_name := name; rm_rate := rate; rm_params := [] |}.
Proof.
  intros H1 H2 H3 H4 H5. unfold parse_a_rtpmap.
  rewrite break1_app by reflexivity. rewrite (break1_app 32 _ _ H1). rewrite H2. cbn [N.eqb negb].
  rewrite (break1_app 47 _ _ H3). rewrite (break1_none 47 _ H4). rewrite H5. reflexivity.
Qed.

(* ---- "a=fmtp:<format> <body>" ---- *)
Lemma parse_a_fmtp_shape ptxt pt body :
  nob 32 ptxt = true -> atoi ptxt = (pt, 0) ->
  parse_a_fmtp (k_fmtp ++ 58 :: (ptxt ++ 32 :: body))
  = let* m := fmtp_params (split1 59 (trim_right_c 59 (trim_left_c 59 body))) [] in
    Ok {| fp_format := pt; fp_params := m |}.
Proof.
  intros H1 H2. unfold parse_a_fmtp.
  rewrite break1_app by reflexivity. rewrite (break1_app 32 _ _ H1). rewrite H2. reflexivity.
Qed.

Lemma fmtp_params_cons piece k v rest m :
  trim_space piece = k ++ 61 :: v -> nob 61 k = true ->
  fmtp_params (piece :: rest) m = fmtp_params rest (map_set k v m).
Proof. intros H1 H2. cbn [fmtp_params]. rewrite H1, (break1_app 61 _ _ H2). reflexivity. Qed.

(* ------------------------------------------------------------------ *)
(* literal pieces of the templates *)
Definition q_pm : bytes := Eval compute in s2b "packetization-mode=1"%string.
Definition q_pm_k : bytes := Eval compute in s2b "packetization-mode"%string.
Definition q_sprop : bytes := Eval compute in s2b " sprop-parameter-sets="%string.
Definition q_pli : bytes := Eval compute in s2b " profile-level-id=640016"%string.
Definition q_pli_k : bytes := Eval compute in s2b "profile-level-id"%string.
Definition q_pli_v : bytes := Eval compute in s2b "640016"%string.
Definition q_pid : bytes := Eval compute in s2b "profile-id=1"%string.
Definition q_pid_k : bytes := Eval compute in s2b "profile-id"%string.
Definition q_sps : bytes := Eval compute in s2b "sprop-sps="%string.
Definition q_pps : bytes := Eval compute in s2b "sprop-pps="%string.
Definition q_vps : bytes := Eval compute in s2b "sprop-vps="%string.
Definition q_aac_head : list bytes := Eval compute in
  map s2b ["profile-level-id=1"; "mode=AAC-hbr"; "sizelength=13"; "indexlength=3"; "indexdeltalength=3"]%string.
Definition q_config : bytes := Eval compute in s2b " config="%string.
Definition q_aac_params : list (bytes * bytes) := Eval compute in
  map (fun p => (s2b (fst p), s2b (snd p)))
      [("profile-level-id", "1"); ("mode", "AAC-hbr"); ("sizelength", "13"); ("indexlength", "3");
       ("indexdeltalength", "3")]%string.
Definition q_streamid0 : bytes := Eval compute in s2b "streamid=0"%string.
Definition q_streamid1 : bytes := Eval compute in s2b "streamid=1"%string.
Definition q_one : bytes := [49].
Definition q_two : bytes := [50].
Definition q_48000 : bytes := Eval compute in s2b "48000"%string.

(* the byte classes the encoded texts must avoid: ; , and ASCII white space *)
Definition clean_char (c : N) : bool := negb ((c =? 59) || (c =? 44) || ascii_space c).
Definition clean (s : bytes) : bool := forallb clean_char s.

Lemma clean_nob c s : clean_char c = false -> clean s = true -> nob c s = true.
Proof.
  intros Hc Hs. unfold nob, clean in *. rewrite forallb_forall in *. intros x Hx.
  specialize (Hs x Hx). apply negb_true_iff, N.eqb_neq. intro E. subst. congruence.
Qed.

Lemma clean_nospace s : clean s = true -> forallb (fun y => negb (ascii_space y)) s = true.
Proof.
  unfold clean. rewrite !forallb_forall. intros H x Hx. specialize (H x Hx).
  unfold clean_char in H. apply negb_true_iff in H. apply orb_false_iff in H as [_ H]. now rewrite H.
Qed.

Lemma forallb_app_true {A} (f : A -> bool) a b :
  forallb f a = true -> forallb f b = true -> forallb f (a ++ b) = true.
Proof. intros Ha Hb. now rewrite forallb_app, Ha, Hb. Qed.

Lemma nob_app_true c a b : nob c a = true -> nob c b = true -> nob c (a ++ b) = true.
Proof. apply forallb_app_true. Qed.

Lemma nob_cons_true c x s : (x =? c) = false -> nob c s = true -> nob c (x :: s) = true.
Proof. intros H1 H2. cbn [nob forallb]. fold (nob c s). now rewrite H1, H2. Qed.

Lemma nob_flip c s : nob c s = true -> forallb (fun y => negb (N.eqb c y)) s = true.
Proof.
  unfold nob. rewrite !forallb_forall. intros H x Hx. specialize (H x Hx). now rewrite N.eqb_sym.
Qed.

Lemma trim_space_nospace s : forallb (fun y => negb (ascii_space y)) s = true -> trim_space s = s.
Proof.
  intro H. unfold trim_space. destruct s as [|x s]; [reflexivity|].
  cbn [forallb] in H. apply andb_prop in H as H'. destruct H' as [Hx _]. apply negb_true_iff in Hx.
  rewrite drop_while_hd by exact Hx. now apply trim_right_f_keep.
Qed.

Lemma trim_space_skip x s : ascii_space x = true -> trim_space (x :: s) = trim_space s.
Proof. intro H. unfold trim_space. now rewrite drop_while_skip. Qed.

(* ------------------------------------------------------------------ *)
(* parseSdp2RawContext, one line at a time *)
Definition optl (md : option media_desc) : list media_desc := match md with Some d => [d] | None => [] end.
Definition new_md (m : m_line) : media_desc :=
  {| md_m := m; md_rtpmap := rtpmap_zero; md_fmtp := None; md_control := [] |}.

Lemma raw_step_plain l rest acc md :
  has_prefix k_m l = false -> has_prefix k_rtpmap l = false ->
  has_prefix k_fmtp l = false -> has_prefix k_control l = false ->
  raw_loop (l :: rest) acc md = raw_loop rest acc md.
Proof. intros H1 H2 H3 H4. cbn [raw_loop]. rewrite H1, H2, H3, H4. reflexivity. Qed.

Lemma raw_step_m l m rest acc md :
  has_prefix k_m l = true -> has_prefix k_rtpmap l = false ->
  has_prefix k_fmtp l = false -> has_prefix k_control l = false -> parse_m l = Ok m ->
  raw_loop (l :: rest) acc md = raw_loop rest (acc ++ optl md) (Some (new_md m)).
Proof. intros H1 H2 H3 H4 H5. cbn [raw_loop]. rewrite H1, H2, H3, H4, H5. reflexivity. Qed.

Lemma raw_step_rtpmap l r rest acc d :
  has_prefix k_m l = false -> has_prefix k_rtpmap l = true ->
  has_prefix k_fmtp l = false -> has_prefix k_control l = false -> parse_a_rtpmap l = Ok r ->
  raw_loop (l :: rest) acc (Some d)
  = raw_loop rest acc (Some {| md_m := md_m d; md_rtpmap := r; md_fmtp := md_fmtp d; md_control := md_control d |}).
Proof. intros H1 H2 H3 H4 H5. cbn [raw_loop]. rewrite H1, H2, H3, H4, H5. reflexivity. Qed.

Lemma raw_step_fmtp l f rest acc d :
  has_prefix k_m l = false -> has_prefix k_rtpmap l = false ->
  has_prefix k_fmtp l = true -> has_prefix k_control l = false -> parse_a_fmtp l = Ok f ->
  raw_loop (l :: rest) acc (Some d)
  = raw_loop rest acc (Some {| md_m := md_m d; md_rtpmap := md_rtpmap d; md_fmtp := Some f; md_control := md_control d |}).
Proof. intros H1 H2 H3 H4 H5. cbn [raw_loop]. rewrite H1, H2, H3, H4, H5. reflexivity. Qed.

Lemma raw_step_control l c rest acc d :
  has_prefix k_m l = false -> has_prefix k_rtpmap l = false ->
  has_prefix k_fmtp l = false -> has_prefix k_control l = true -> parse_a_control l = Ok c ->
  raw_loop (l :: rest) acc (Some d)
  = raw_loop rest acc (Some {| md_m := md_m d; md_rtpmap := md_rtpmap d; md_fmtp := md_fmtp d; md_control := c |}).
Proof. intros H1 H2 H3 H4 H5. cbn [raw_loop]. rewrite H1, H2, H3, H4, H5. reflexivity. Qed.

(* a block of lines that opens one media description and fills it *)
Definition block_ok (ls : list bytes) (d : media_desc) : Prop :=
  forallb nocrlf ls = true /\
  forall rest acc md, raw_loop (ls ++ rest) acc md = raw_loop rest (acc ++ optl md) (Some d).

Definition q_sid : bytes := Eval compute in s2b "streamid="%string.

Lemma header_skip tool rest :
  raw_loop (t_header ++ [t_tool ++ tool] ++ rest) [] None = raw_loop rest [] None.
Proof.
  unfold t_header. cbn [app].
  do 6 rewrite raw_step_plain by reflexivity. reflexivity.
Qed.

Lemma skeleton tool vl al (vd ad : option media_desc) :
  nocrlf tool = true ->
  match vd with Some d => block_ok vl d | None => vl = [] end ->
  match ad with Some d => block_ok al d | None => al = [] end ->
  parse_sdp_raw (replace_nl (join_nl (t_header ++ [t_tool ++ tool] ++ vl ++ al))) = Ok (optl vd ++ optl ad).
Proof.
  intros Ht Hv Ha.
  assert (Hvl : forallb nocrlf vl = true) by (destruct vd; [apply Hv|now subst]).
  assert (Hal : forallb nocrlf al = true) by (destruct ad; [apply Ha|now subst]).
  assert (Hall : forallb nocrlf (t_header ++ [t_tool ++ tool] ++ vl ++ al) = true).
  { repeat apply forallb_app_true; try assumption; [reflexivity|].
    cbn [forallb]. rewrite Bool.andb_true_r. unfold nocrlf in *. apply andb_prop in Ht as [H10 H13].
    apply andb_true_intro; split; apply nob_app_true; (reflexivity || assumption). }
  rewrite (replace_nl_join _ Hall). unfold parse_sdp_raw. cbv zeta. rewrite (split_crlf_join _ Hall).
  rewrite <- !app_assoc. rewrite header_skip.
  destruct vd as [dv|], ad as [da|].
  - destruct Hv as [_ Hv], Ha as [_ Ha]. rewrite Hv, Ha. reflexivity.
  - destruct Hv as [_ Hv]. subst al. rewrite Hv. reflexivity.
  - destruct Ha as [_ Ha]. subst vl. cbn [app]. rewrite Ha. reflexivity.
  - subst. reflexivity.
Qed.

Section PackParse.
  Variable b64_dec hex_dec : bytes -> bytes * bool.
  Variable b64_enc hex_enc : bytes -> bytes.
  (* trusted base: the laws of encoding/base64 (StdEncoding) and encoding/hex *)
  Hypothesis b64_rt : forall x, bytes_ok x -> b64_dec (b64_enc x) = (x, true).
  Hypothesis hex_rt : forall x, bytes_ok x -> hex_dec (hex_enc x) = (x, true).
  Hypothesis b64_clean : forall x, bytes_ok x -> clean (b64_enc x) = true.
  Hypothesis hex_clean : forall x, bytes_ok x -> clean (hex_enc x) = true.
  Hypothesis hex_len : forall x, bytes_ok x -> lenN (hex_enc x) = 2 * lenN x.

  (* ---- a=fmtp of H264 ---- *)
  Definition avc_params (S P : bytes) : list (bytes * bytes) :=
    [(q_pm_k, q_one); (k_sprop, S ++ [44] ++ P); (q_pli_k, q_pli_v)].

  Lemma fmtp_avc_line S P : clean S = true -> clean P = true ->
    parse_a_fmtp (t_fmtp_avc_1 ++ S ++ [44] ++ P ++ t_fmtp_avc_2)
    = Ok {| fp_format := 96; fp_params := avc_params S P |}.
  Proof.
    intros HS HP.
    replace (t_fmtp_avc_1 ++ S ++ [44] ++ P ++ t_fmtp_avc_2)
      with (k_fmtp ++ 58 :: ([57; 54] ++ 32 :: (q_pm ++ 59 :: ((q_sprop ++ S ++ [44] ++ P) ++ 59 :: q_pli))))
      by (rewrite <- ?app_assoc; reflexivity).
    rewrite (parse_a_fmtp_shape _ 96%Z) by reflexivity.
    unfold trim_left_c. rewrite drop_while_app_hd by reflexivity.
    assert (Hend : ends_ok (N.eqb 59) (q_pm ++ 59 :: (q_sprop ++ S ++ [44] ++ P) ++ 59 :: q_pli)).
    { apply ends_ok_app, ends_ok_cons, ends_ok_app, ends_ok_cons. split; [reflexivity|discriminate]. }
    unfold trim_right_c. rewrite (proj1 Hend).
    assert (H59 : nob 59 (q_sprop ++ S ++ [44] ++ P) = true).
    { repeat apply nob_app_true; try reflexivity; now apply clean_nob. }
    rewrite split1_app by reflexivity. rewrite (split1_app 59 _ _ H59). rewrite split1_none by reflexivity.
    rewrite (fmtp_params_cons q_pm q_pm_k q_one) by reflexivity.
    rewrite (fmtp_params_cons (q_sprop ++ S ++ [44] ++ P) k_sprop (S ++ [44] ++ P)); [| |reflexivity].
    - rewrite (fmtp_params_cons q_pli q_pli_k q_pli_v) by reflexivity. reflexivity.
    - unfold trim_space.
      change (q_sprop ++ S ++ [44] ++ P) with (32 :: (k_sprop ++ 61 :: (S ++ [44] ++ P))).
      rewrite drop_while_skip by reflexivity.
      change (k_sprop ++ 61 :: S ++ [44] ++ P) with (115 :: (tl k_sprop ++ 61 :: S ++ [44] ++ P)).
      rewrite drop_while_hd by reflexivity.
      apply trim_right_f_keep.
      change (115 :: tl k_sprop ++ 61 :: S ++ [44] ++ P) with ((k_sprop ++ [61]) ++ S ++ [44] ++ P).
      repeat apply forallb_app_true; try reflexivity; now apply clean_nospace.
  Qed.

  (* ---- a=fmtp of H265 ---- *)
  Definition hevc_params (S P V : bytes) : list (bytes * bytes) :=
    [(q_pid_k, q_one); (k_sprop_sps, S); (k_sprop_pps, P); (k_sprop_vps, V)].

  Lemma fmtp_hevc_line S P V : clean S = true -> clean P = true -> clean V = true ->
    parse_a_fmtp (t_fmtp_hevc_1 ++ S ++ t_fmtp_hevc_2 ++ P ++ t_fmtp_hevc_3 ++ V)
    = Ok {| fp_format := 98; fp_params := hevc_params S P V |}.
  Proof.
    intros HS HP HV.
    replace (t_fmtp_hevc_1 ++ S ++ t_fmtp_hevc_2 ++ P ++ t_fmtp_hevc_3 ++ V)
      with (k_fmtp ++ 58 :: ([57; 56] ++ 32 :: (q_pid ++ 59 :: ((q_sps ++ S) ++ 59 :: ((q_pps ++ P) ++ 59 :: (q_vps ++ V))))))
      by (rewrite <- ?app_assoc; reflexivity).
    rewrite (parse_a_fmtp_shape _ 98%Z) by reflexivity.
    unfold trim_left_c. rewrite drop_while_app_hd by reflexivity.
    assert (Hend : ends_ok (N.eqb 59) (q_pid ++ 59 :: (q_sps ++ S) ++ 59 :: (q_pps ++ P) ++ 59 :: (q_vps ++ V))).
    { apply ends_ok_app, ends_ok_cons, ends_ok_app, ends_ok_cons, ends_ok_app, ends_ok_cons.
      change (q_vps ++ V) with (k_sprop_vps ++ 61 :: V). apply ends_ok_app, ends_ok_tail; [reflexivity|].
      apply nob_flip. now apply clean_nob. }
    unfold trim_right_c. rewrite (proj1 Hend).
    assert (H1 : nob 59 (q_sps ++ S) = true) by (apply nob_app_true; [reflexivity|now apply clean_nob]).
    assert (H2 : nob 59 (q_pps ++ P) = true) by (apply nob_app_true; [reflexivity|now apply clean_nob]).
    assert (H3 : nob 59 (q_vps ++ V) = true) by (apply nob_app_true; [reflexivity|now apply clean_nob]).
    rewrite split1_app by reflexivity. rewrite (split1_app 59 _ _ H1), (split1_app 59 _ _ H2), (split1_none 59 _ H3).
    assert (Hts : forall q X, forallb (fun y => negb (ascii_space y)) q = true -> clean X = true -> trim_space (q ++ X) = q ++ X).
    { intros q X Hq HX. apply trim_space_nospace, forallb_app_true; [exact Hq|now apply clean_nospace]. }
    rewrite (fmtp_params_cons q_pid q_pid_k q_one) by reflexivity.
    rewrite (fmtp_params_cons (q_sps ++ S) k_sprop_sps S) by (first [reflexivity | rewrite Hts by (reflexivity || assumption); reflexivity]).
    rewrite (fmtp_params_cons (q_pps ++ P) k_sprop_pps P) by (first [reflexivity | rewrite Hts by (reflexivity || assumption); reflexivity]).
    rewrite (fmtp_params_cons (q_vps ++ V) k_sprop_vps V) by (first [reflexivity | rewrite Hts by (reflexivity || assumption); reflexivity]).
    reflexivity.
  Qed.

  (* ---- a=fmtp of AAC ---- *)
  Definition aac_params (H : bytes) : list (bytes * bytes) := q_aac_params ++ [(k_config, H)].

  Lemma fmtp_aac_line H : clean H = true ->
    parse_a_fmtp (t_fmtp ++ fmt_d pt_aac ++ t_fmtp_aac ++ H)
    = Ok {| fp_format := 97; fp_params := aac_params H |}.
  Proof.
    intros HH.
    replace (t_fmtp ++ fmt_d pt_aac ++ t_fmtp_aac ++ H)
      with (k_fmtp ++ 58 :: ([57; 55] ++ 32 :: (nth 0 q_aac_head [] ++ 59 :: (nth 1 q_aac_head [] ++ 59 :: (nth 2 q_aac_head [] ++ 59 ::
              (nth 3 q_aac_head [] ++ 59 :: (nth 4 q_aac_head [] ++ 59 :: (q_config ++ H))))))))
      by (rewrite <- ?app_assoc; reflexivity).
    rewrite (parse_a_fmtp_shape _ 97%Z) by reflexivity.
    unfold trim_left_c. rewrite drop_while_app_hd by reflexivity.
    assert (Hend : ends_ok (N.eqb 59) (nth 0 q_aac_head [] ++ 59 :: (nth 1 q_aac_head [] ++ 59 :: (nth 2 q_aac_head [] ++ 59 ::
              (nth 3 q_aac_head [] ++ 59 :: (nth 4 q_aac_head [] ++ 59 :: (q_config ++ H))))))).
    { do 5 apply ends_ok_app, ends_ok_cons.
      change (q_config ++ H) with (32 :: k_config ++ 61 :: H). apply ends_ok_cons, ends_ok_app, ends_ok_tail; [reflexivity|].
      apply nob_flip. now apply clean_nob. }
    unfold trim_right_c. rewrite (proj1 Hend).
    assert (H6 : nob 59 (q_config ++ H) = true) by (apply nob_app_true; [reflexivity|now apply clean_nob]).
    do 5 rewrite split1_app by reflexivity. rewrite (split1_none 59 _ H6).
    rewrite (fmtp_params_cons (nth 0 q_aac_head []) (fst (nth 0 q_aac_params ([], []))) (snd (nth 0 q_aac_params ([], [])))) by reflexivity.
    rewrite (fmtp_params_cons (nth 1 q_aac_head []) (fst (nth 1 q_aac_params ([], []))) (snd (nth 1 q_aac_params ([], [])))) by reflexivity.
    rewrite (fmtp_params_cons (nth 2 q_aac_head []) (fst (nth 2 q_aac_params ([], []))) (snd (nth 2 q_aac_params ([], [])))) by reflexivity.
    rewrite (fmtp_params_cons (nth 3 q_aac_head []) (fst (nth 3 q_aac_params ([], []))) (snd (nth 3 q_aac_params ([], [])))) by reflexivity.
    rewrite (fmtp_params_cons (nth 4 q_aac_head []) (fst (nth 4 q_aac_params ([], []))) (snd (nth 4 q_aac_params ([], [])))) by reflexivity.
    rewrite (fmtp_params_cons (q_config ++ H) k_config H); [reflexivity| |reflexivity].
    change (q_config ++ H) with (32 :: (k_config ++ [61]) ++ H). rewrite trim_space_skip by reflexivity.
    rewrite trim_space_nospace; [now rewrite <- app_assoc|].
    apply forallb_app_true; [reflexivity|now apply clean_nospace].
  Qed.

  (* ---- a=rtpmap lines ---- *)
  Lemma rtpmap_aac_line rate : int64 rate ->
    parse_a_rtpmap (t_rtpmap ++ fmt_d pt_aac ++ t_aac_1 ++ fmt_d rate ++ t_aac_2)
    = Ok {| rm_pt := 97; rm_name := k_aac; rm_rate := rate; rm_params := q_two |}.
  Proof.
    intro Hr.
    replace (t_rtpmap ++ fmt_d pt_aac ++ t_aac_1 ++ fmt_d rate ++ t_aac_2)
      with (k_rtpmap ++ 58 :: ([57; 55] ++ 32 :: (k_aac ++ 47 :: (fmt_d rate ++ 47 :: q_two))))
      by (rewrite <- ?app_assoc; reflexivity).
    apply parse_a_rtpmap_3; try reflexivity.
    - apply fmt_d_nob; [exact Hr|discriminate|left; reflexivity].
    - now apply atoi_fmt_d.
  Qed.

  Lemma rtpmap_g711_line (ptxt name tname : bytes) pt rate :
    int64 rate -> nob 32 ptxt = true -> atoi ptxt = (pt, 0) -> nob 47 name = true ->
    tname = 32 :: name ++ [47] ->
    parse_a_rtpmap (t_rtpmap ++ ptxt ++ tname ++ fmt_d rate)
    = Ok {| rm_pt := pt; rm_name := name; rm_rate := rate; rm_params := [] |}.
  Proof.
    intros Hr H1 H2 H3 ->.
    replace (t_rtpmap ++ ptxt ++ (32 :: name ++ [47]) ++ fmt_d rate)
      with (k_rtpmap ++ 58 :: (ptxt ++ 32 :: (name ++ 47 :: fmt_d rate)))
      by (cbn [app]; rewrite <- ?app_assoc; reflexivity).
    apply parse_a_rtpmap_2; try assumption.
    - apply fmt_d_nob; [exact Hr|discriminate|left; reflexivity].
    - now apply atoi_fmt_d.
  Qed.

  (* ---- the parameter-set readers on what the line parsers return ---- *)
  Lemma sps_pps_of_avc_params fmt s p : bytes_ok s -> bytes_ok p ->
    parse_sps_pps b64_dec {| fp_format := fmt; fp_params := avc_params (b64_enc s) (b64_enc p) |} = (Some s, Some p).
  Proof.
    intros Hs Hp. unfold parse_sps_pps. cbn [fp_params].
    change (map_get k_sprop (avc_params (b64_enc s) (b64_enc p))) with (Some (b64_enc s ++ [44] ++ b64_enc p)).
    cbn [app]. rewrite break1_app by (apply clean_nob; [reflexivity|now apply b64_clean]).
    cbv beta iota. now rewrite !b64_rt.
  Qed.

  Lemma vps_sps_pps_of_hevc_params fmt v s p : bytes_ok v -> bytes_ok s -> bytes_ok p ->
    parse_vps_sps_pps b64_dec {| fp_format := fmt; fp_params := hevc_params (b64_enc s) (b64_enc p) (b64_enc v) |}
    = (Some v, Some s, Some p).
  Proof.
    intros Hv Hs Hp. unfold parse_vps_sps_pps, dec_param. cbn [fp_params].
    change (map_get k_sprop_vps (hevc_params (b64_enc s) (b64_enc p) (b64_enc v))) with (Some (b64_enc v)).
    change (map_get k_sprop_sps (hevc_params (b64_enc s) (b64_enc p) (b64_enc v))) with (Some (b64_enc s)).
    change (map_get k_sprop_pps (hevc_params (b64_enc s) (b64_enc p) (b64_enc v))) with (Some (b64_enc p)).
    cbv beta iota. rewrite b64_rt by assumption. cbv beta iota. rewrite b64_rt by assumption.
    cbv beta iota. rewrite b64_rt by assumption. reflexivity.
  Qed.

  (* ParseAsc wants at least 4 hex digits: an AudioSpecificConfig shorter than
     2 bytes is written by Pack but not read back *)
  Lemma asc_of_aac_params fmt c : bytes_ok c ->
    parse_asc hex_dec {| fp_format := fmt; fp_params := aac_params (hex_enc c) |}
    = if 2 <=? lenN c then Some c else None.
  Proof.
    intro Hc. unfold parse_asc. cbn [fp_params].
    change (map_get k_config (aac_params (hex_enc c))) with (Some (hex_enc c)).
    cbv beta iota. rewrite !hex_len, hex_rt by assumption. cbn [fst].
    replace ((2 * lenN c) mod 2 =? 0) with true by (symmetry; apply N.eqb_eq; lia). cbn [negb orb].
    rewrite Bool.orb_false_r. destruct (2 <=? lenN c) eqn:E.
    - apply N.leb_le in E. replace (2 * lenN c <? 4) with false by (symmetry; apply N.ltb_ge; lia). reflexivity.
    - apply N.leb_gt in E. replace (2 * lenN c <? 4) with true by (symmetry; apply N.ltb_lt; lia). reflexivity.
  Qed.

  (* ---- the media descriptions Pack's blocks parse to ---- *)
  Definition vmd_avc (s p : bytes) : media_desc :=
    {| md_m := {| m_media := k_video; m_pt := 96 |};
       md_rtpmap := {| rm_pt := 96; rm_name := k_h264; rm_rate := 90000; rm_params := [] |};
       md_fmtp := Some {| fp_format := 96; fp_params := avc_params (b64_enc s) (b64_enc p) |};
       md_control := q_streamid0 |}.
  Definition vmd_hevc (v s p : bytes) : media_desc :=
    {| md_m := {| m_media := k_video; m_pt := 98 |};
       md_rtpmap := {| rm_pt := 98; rm_name := k_h265; rm_rate := 90000; rm_params := [] |};
       md_fmtp := Some {| fp_format := 98; fp_params := hevc_params (b64_enc s) (b64_enc p) (b64_enc v) |};
       md_control := q_streamid0 |}.
  Definition amd_aac (rate : Z) (c : bytes) (sid : Z) : media_desc :=
    {| md_m := {| m_media := k_audio; m_pt := 97 |};
       md_rtpmap := {| rm_pt := 97; rm_name := k_aac; rm_rate := rate; rm_params := q_two |};
       md_fmtp := Some {| fp_format := 97; fp_params := aac_params (hex_enc c) |};
       md_control := q_sid ++ fmt_d sid |}.
  Definition amd_plain (pt : Z) (name : bytes) (rate : Z) (params : bytes) (sid : Z) : media_desc :=
    {| md_m := {| m_media := k_audio; m_pt := pt |};
       md_rtpmap := {| rm_pt := pt; rm_name := name; rm_rate := rate; rm_params := params |};
       md_fmtp := None;
       md_control := q_sid ++ fmt_d sid |}.

  Ltac solve_nob :=
    repeat apply nob_app_true;
    first [ reflexivity
          | apply clean_nob; [reflexivity | first [apply b64_clean | apply hex_clean]; assumption]
          | apply fmt_d_nob; [assumption | discriminate | left; reflexivity] ].
  Ltac solve_nocrlf := unfold nocrlf; apply andb_true_intro; split; solve_nob.

  Lemma block_avc s p : bytes_ok s -> bytes_ok p ->
    block_ok [t_m_video ++ fmt_d pt_avc; t_rtpmap_h264;
              t_fmtp_avc_1 ++ b64_enc s ++ [44] ++ b64_enc p ++ t_fmtp_avc_2;
              t_control ++ fmt_d 0] (vmd_avc s p).
  Proof.
    intros Hs Hp. split.
    - cbn [forallb]. rewrite !Bool.andb_true_iff. repeat split; try reflexivity. solve_nocrlf.
    - intros rest acc md. cbn [app].
      rewrite (raw_step_m _ {| m_media := k_video; m_pt := 96 |}) by reflexivity.
      rewrite (raw_step_rtpmap _ {| rm_pt := 96; rm_name := k_h264; rm_rate := 90000; rm_params := [] |}) by reflexivity.
      rewrite (raw_step_fmtp _ {| fp_format := 96; fp_params := avc_params (b64_enc s) (b64_enc p) |})
        by (first [reflexivity | apply fmtp_avc_line; now apply b64_clean]).
      rewrite (raw_step_control _ q_streamid0) by reflexivity.
      reflexivity.
  Qed.

  Lemma block_hevc v s p : bytes_ok v -> bytes_ok s -> bytes_ok p ->
    block_ok [t_m_video ++ fmt_d pt_hevc; t_rtpmap_h265;
              t_fmtp_hevc_1 ++ b64_enc s ++ t_fmtp_hevc_2 ++ b64_enc p ++ t_fmtp_hevc_3 ++ b64_enc v;
              t_control ++ fmt_d 0] (vmd_hevc v s p).
  Proof.
    intros Hv Hs Hp. split.
    - cbn [forallb]. rewrite !Bool.andb_true_iff. repeat split; try reflexivity. solve_nocrlf.
    - intros rest acc md. cbn [app].
      rewrite (raw_step_m _ {| m_media := k_video; m_pt := 98 |}) by reflexivity.
      rewrite (raw_step_rtpmap _ {| rm_pt := 98; rm_name := k_h265; rm_rate := 90000; rm_params := [] |}) by reflexivity.
      rewrite (raw_step_fmtp _ {| fp_format := 98; fp_params := hevc_params (b64_enc s) (b64_enc p) (b64_enc v) |})
        by (first [reflexivity | apply fmtp_hevc_line; now apply b64_clean]).
      rewrite (raw_step_control _ q_streamid0) by reflexivity.
      reflexivity.
  Qed.

  Lemma control_line sid : parse_a_control (t_control ++ fmt_d sid) = Ok (q_sid ++ fmt_d sid).
  Proof. reflexivity. Qed.

  Lemma block_aac rate c sid : bytes_ok c -> int64 rate -> int64 sid ->
    block_ok [t_m_audio ++ fmt_d pt_aac; t_b_as;
              t_rtpmap ++ fmt_d pt_aac ++ t_aac_1 ++ fmt_d rate ++ t_aac_2;
              t_fmtp ++ fmt_d pt_aac ++ t_fmtp_aac ++ hex_enc c;
              t_control ++ fmt_d sid] (amd_aac rate c sid).
  Proof.
    intros Hc Hr Hs. split.
    - cbn [forallb]. rewrite !Bool.andb_true_iff. repeat split; try reflexivity; solve_nocrlf.
    - intros rest acc md. cbn [app].
      rewrite (raw_step_m _ {| m_media := k_audio; m_pt := 97 |}) by reflexivity.
      rewrite raw_step_plain by reflexivity.
      rewrite (raw_step_rtpmap _ {| rm_pt := 97; rm_name := k_aac; rm_rate := rate; rm_params := q_two |})
        by (first [reflexivity | now apply rtpmap_aac_line]).
      rewrite (raw_step_fmtp _ {| fp_format := 97; fp_params := aac_params (hex_enc c) |})
        by (first [reflexivity | apply fmtp_aac_line; now apply hex_clean]).
      rewrite (raw_step_control _ (q_sid ++ fmt_d sid)) by reflexivity.
      reflexivity.
  Qed.

  Lemma block_g711 (pt : Z) (name tname : bytes) rate sid :
    int64 rate -> int64 sid ->
    nob 32 (fmt_d pt) = true -> atoi (fmt_d pt) = (pt, 0) -> nocrlf (fmt_d pt) = true ->
    nob 47 name = true -> nocrlf tname = true -> tname = 32 :: name ++ [47] ->
    block_ok [t_m_audio ++ fmt_d pt; t_rtpmap ++ fmt_d pt ++ tname ++ fmt_d rate; t_control ++ fmt_d sid]
             (amd_plain pt name rate [] sid).
  Proof.
    intros Hr Hs H1 H2 H3 H4 H5 H6. split.
    - unfold nocrlf in H3, H5. apply andb_prop in H3 as [? ?]. apply andb_prop in H5 as [? ?].
      cbn [forallb]. rewrite !Bool.andb_true_iff. repeat split; try reflexivity;
        unfold nocrlf; apply andb_true_intro; split; repeat apply nob_app_true; try assumption; solve_nob.
    - intros rest acc md. cbn [app].
      rewrite (raw_step_m _ {| m_media := k_audio; m_pt := pt |}); try reflexivity.
      + rewrite (raw_step_rtpmap _ {| rm_pt := pt; rm_name := name; rm_rate := rate; rm_params := [] |})
          by (first [reflexivity | now apply (rtpmap_g711_line _ name tname)]).
        rewrite (raw_step_control _ (q_sid ++ fmt_d sid)) by reflexivity.
        reflexivity.
      + unfold parse_m.
        change (trim_prefix k_m (t_m_audio ++ fmt_d pt)) with (k_audio ++ 32 :: [48] ++ 32 :: (skipn 10 t_m_audio) ++ fmt_d pt).
        rewrite split1_app by reflexivity. rewrite split1_app by reflexivity.
        change (skipn 10 t_m_audio ++ fmt_d pt) with (firstn 7 (skipn 10 t_m_audio) ++ 32 :: fmt_d pt).
        rewrite split1_app by reflexivity. rewrite (split1_none 32 _ H1). rewrite H2. reflexivity.
  Qed.

  Lemma block_opus sid : int64 sid ->
    block_ok [t_m_audio ++ fmt_d pt_opus; t_rtpmap ++ fmt_d pt_opus ++ t_opus; t_control ++ fmt_d sid]
             (amd_plain 101 k_opus 48000 q_two sid).
  Proof.
    intros Hs. split.
    - cbn [forallb]. rewrite !Bool.andb_true_iff. repeat split; try reflexivity; solve_nocrlf.
    - intros rest acc md. cbn [app].
      rewrite (raw_step_m _ {| m_media := k_audio; m_pt := 101 |}) by reflexivity.
      rewrite (raw_step_rtpmap _ {| rm_pt := 101; rm_name := k_opus; rm_rate := 48000; rm_params := q_two |}) by reflexivity.
      rewrite (raw_step_control _ (q_sid ++ fmt_d sid)) by reflexivity.
      reflexivity.
  Qed.

  (* ---- ParseSdp2LogicContext on those media descriptions ---- *)
  Definition vtrack (pt : Z) : track :=
    {| tk_has := true; tk_rate := 90000; tk_base := pt; tk_orig := pt; tk_ctl := q_streamid0 |}.
  Definition atrack (pt rate sid : Z) : track :=
    {| tk_has := true; tk_rate := rate; tk_base := pt; tk_orig := pt; tk_ctl := q_sid ++ fmt_d sid |}.

  Lemma logic_avc c s p : bytes_ok s -> bytes_ok p ->
    logic_step b64_dec hex_dec c (vmd_avc s p)
    = {| lc_raw := lc_raw c; lc_audio := lc_audio c; lc_video := vtrack 96; lc_asc := lc_asc c;
         lc_vps := lc_vps c; lc_sps := Some s; lc_pps := Some p |}.
  Proof.
    intros Hs Hp. unfold logic_step, vmd_avc. cbn [md_m m_media md_rtpmap rm_name md_fmtp].
    change (beqb k_video k_audio) with false. change (beqb k_video k_video) with true.
    change (beqb k_h264 k_h264) with true. cbv iota.
    rewrite sps_pps_of_avc_params by assumption. reflexivity.
  Qed.

  Lemma logic_hevc c v s p : bytes_ok v -> bytes_ok s -> bytes_ok p ->
    logic_step b64_dec hex_dec c (vmd_hevc v s p)
    = {| lc_raw := lc_raw c; lc_audio := lc_audio c; lc_video := vtrack 98; lc_asc := lc_asc c;
         lc_vps := Some v; lc_sps := Some s; lc_pps := Some p |}.
  Proof.
    intros Hv Hs Hp. unfold logic_step, vmd_hevc. cbn [md_m m_media md_rtpmap rm_name md_fmtp].
    change (beqb k_video k_audio) with false. change (beqb k_video k_video) with true.
    change (beqb k_h265 k_h264) with false. change (beqb k_h265 k_h265) with true. cbv iota.
    rewrite vps_sps_pps_of_hevc_params by assumption. reflexivity.
  Qed.

  Lemma logic_aac c rate asc sid : bytes_ok asc ->
    logic_step b64_dec hex_dec c (amd_aac rate asc sid)
    = {| lc_raw := lc_raw c; lc_audio := atrack 97 rate sid; lc_video := lc_video c;
         lc_asc := if 2 <=? lenN asc then Some asc else None;
         lc_vps := lc_vps c; lc_sps := lc_sps c; lc_pps := lc_pps c |}.
  Proof.
    intros Hc. unfold logic_step, amd_aac. cbn [md_m m_media md_rtpmap rm_name md_fmtp].
    change (beqb k_audio k_audio) with true. change (equal_fold k_aac k_aac) with true. cbv iota.
    rewrite asc_of_aac_params by assumption. reflexivity.
  Qed.

  Lemma logic_plain c pt name rate params sid :
    (name = k_pcma /\ pt = pt_g711a) \/ (name = k_pcmu /\ pt = pt_g711u) \/ (name = k_opus /\ pt = pt_opus) ->
    logic_step b64_dec hex_dec c (amd_plain pt name rate params sid)
    = {| lc_raw := lc_raw c; lc_audio := atrack pt rate sid; lc_video := lc_video c;
         lc_asc := lc_asc c; lc_vps := lc_vps c; lc_sps := lc_sps c; lc_pps := lc_pps c |}.
  Proof. intros [[-> ->]|[[-> ->]|[-> ->]]]; reflexivity. Qed.

  (* ---- which streams Pack accepts ---- *)
  Definition video_kind (v : video_info) : option (Z * option bytes * bytes * bytes) :=
    if (vi_pt v =? pt_avc)%Z then
      match vi_sps v, vi_pps v with Some s, Some p => Some (pt_avc, None, s, p) | _, _ => None end
    else if (vi_pt v =? pt_hevc)%Z then
      match vi_sps v, vi_pps v, vi_vps v with
      | Some s, Some p, Some vp => Some (pt_hevc, Some vp, s, p)
      | _, _, _ => None
      end
    else None.
  (* payload type, clock rate, AudioSpecificConfig *)
  Definition audio_kind (a : audio_info) : option (Z * Z * option bytes) :=
    if (ai_pt a =? pt_aac)%Z then
      match ai_asc a with Some c => Some (pt_aac, ai_rate a, Some c) | None => None end
    else if (ai_pt a =? pt_g711a)%Z then Some (pt_g711a, ai_rate a, None)
    else if (ai_pt a =? pt_g711u)%Z then Some (pt_g711u, ai_rate a, None)
    else if (ai_pt a =? pt_opus)%Z then Some (pt_opus, 48000%Z, None)
    else None.

  Definition opt_ok (o : option bytes) : Prop := match o with Some x => bytes_ok x | None => True end.
  Definition vinfo_ok (v : video_info) : Prop := opt_ok (vi_vps v) /\ opt_ok (vi_sps v) /\ opt_ok (vi_pps v).
  Definition ainfo_ok (a : audio_info) : Prop := opt_ok (ai_asc a).

  Definition exp_ctx (raw : bytes) (vk : option (Z * option bytes * bytes * bytes))
             (ak : option (Z * Z * option bytes)) : logic_ctx :=
    {| lc_raw := raw;
       lc_audio := match ak with
                   | Some (pt, rate, _) => atrack pt rate (match vk with Some _ => 1 | None => 0 end)
                   | None => track_zero
                   end;
       lc_video := match vk with Some (pt, _, _, _) => vtrack pt | None => track_zero end;
       lc_asc := match ak with
                 | Some (_, _, Some c) => if 2 <=? lenN c then Some c else None
                 | _ => None
                 end;
       lc_vps := match vk with Some (_, vp, _, _) => vp | None => None end;
       lc_sps := match vk with Some (_, _, s, _) => Some s | None => None end;
       lc_pps := match vk with Some (_, _, _, p) => Some p | None => None end |}.

  (* the video block: its media description, or no lines at all *)
  Lemma video_block v : vinfo_ok v ->
    match video_kind v with
    | Some (pt, vp, s, p) =>
      exists d, block_ok (video_lines b64_enc v 0) d /\ video_lines b64_enc v 0 <> [] /\
                forall c, logic_step b64_dec hex_dec c d
                          = {| lc_raw := lc_raw c; lc_audio := lc_audio c; lc_video := vtrack pt; lc_asc := lc_asc c;
                               lc_vps := match vp with Some x => Some x | None => lc_vps c end;
                               lc_sps := Some s; lc_pps := Some p |}
    | None => video_lines b64_enc v 0 = []
    end.
  Proof.
    destruct v as [pt vps sps pps]. unfold vinfo_ok, video_kind, video_lines. cbn [vi_pt vi_vps vi_sps vi_pps].
    intros (Hv & Hs & Hp).
    destruct (pt =? pt_avc)%Z eqn:E1.
    - destruct sps as [s|], pps as [p|]; try reflexivity. cbn [opt_ok] in *.
      exists (vmd_avc s p). split; [now apply block_avc|]. split; [discriminate|]. intro c. now apply logic_avc.
    - destruct (pt =? pt_hevc)%Z eqn:E2; [|reflexivity].
      destruct sps as [s|], pps as [p|], vps as [vp|]; try reflexivity. cbn [opt_ok] in *.
      exists (vmd_hevc vp s p). split; [now apply block_hevc|]. split; [discriminate|]. intro c. now apply logic_hevc.
  Qed.

  Lemma audio_block a sid : ainfo_ok a -> int64 (ai_rate a) -> int64 sid ->
    match audio_kind a with
    | Some (pt, rate, asc) =>
      exists d, block_ok (audio_lines hex_enc a sid) d /\ audio_lines hex_enc a sid <> [] /\
                forall c, logic_step b64_dec hex_dec c d
                          = {| lc_raw := lc_raw c; lc_audio := atrack pt rate sid; lc_video := lc_video c;
                               lc_asc := match asc with
                                         | Some x => if 2 <=? lenN x then Some x else None
                                         | None => lc_asc c
                                         end;
                               lc_vps := lc_vps c; lc_sps := lc_sps c; lc_pps := lc_pps c |}
    | None => audio_lines hex_enc a sid = []
    end.
  Proof.
    intros Hc Hr Hs. destruct a as [pt rate asc]. unfold ainfo_ok, audio_kind, audio_lines in *. cbn [ai_pt ai_rate ai_asc] in *.
    destruct (pt =? pt_aac)%Z eqn:E1.
    { destruct asc as [c|]; [|reflexivity]. cbn [opt_ok] in Hc.
      exists (amd_aac rate c sid). split; [now apply block_aac|]. split; [discriminate|]. intro c0. now apply logic_aac. }
    destruct (pt =? pt_g711a)%Z eqn:E2.
    { exists (amd_plain pt_g711a k_pcma rate [] sid). split.
      - apply (block_g711 pt_g711a k_pcma t_pcma); try assumption; reflexivity.
      - split; [discriminate|]. intro c. apply logic_plain. now left. }
    destruct (pt =? pt_g711u)%Z eqn:E3.
    { exists (amd_plain pt_g711u k_pcmu rate [] sid). split.
      - apply (block_g711 pt_g711u k_pcmu t_pcmu); try assumption; reflexivity.
      - split; [discriminate|]. intro c. apply logic_plain. right. now left. }
    destruct (pt =? pt_opus)%Z eqn:E4; [|reflexivity].
    exists (amd_plain 101 k_opus 48000 q_two sid). split; [now apply block_opus|]. split; [discriminate|].
    intro c. apply (logic_plain c 101 k_opus). right. now right.
  Qed.

  Lemma pack_lines_some tool v a vl al :
    video_lines b64_enc v 0 = vl ->
    audio_lines hex_enc a (match vl with [] => 0%Z | _ => 1%Z end) = al ->
    vl <> [] \/ al <> [] ->
    pack_lines b64_enc hex_enc tool v a = Some (t_header ++ [t_tool ++ tool] ++ vl ++ al).
  Proof.
    intros <- <- H. unfold pack_lines. cbv zeta.
    destruct (video_lines b64_enc v 0) as [|x vl] eqn:E1.
    - destruct (audio_lines hex_enc a 0) as [|y al] eqn:E2; [destruct H; congruence|reflexivity].
    - reflexivity.
  Qed.

  Lemma pack_eval tool v a vl al vd ad :
    video_lines b64_enc v 0 = vl ->
    audio_lines hex_enc a (match vl with [] => 0%Z | _ => 1%Z end) = al ->
    vl <> [] \/ al <> [] -> nocrlf tool = true ->
    match vd with Some d => block_ok vl d | None => vl = [] end ->
    match ad with Some d => block_ok al d | None => al = [] end ->
    exists raw, sdp_pack_text b64_enc hex_enc tool v a = Some raw /\
                sdp_pack b64_dec hex_dec b64_enc hex_enc tool v a
                = Ok (fold_left (logic_step b64_dec hex_dec) (optl vd ++ optl ad) (logic_zero raw)).
  Proof.
    intros Hvl Hal Hne Ht Hv Ha.
    exists (replace_nl (join_nl (t_header ++ [t_tool ++ tool] ++ vl ++ al))).
    unfold sdp_pack, sdp_pack_text. rewrite (pack_lines_some tool v a vl al Hvl Hal Hne).
    split; [reflexivity|]. unfold parse_sdp_logic. rewrite (skeleton tool vl al vd ad Ht Hv Ha). reflexivity.
  Qed.

  (* Pack followed by ParseSdp2LogicContext (which Pack itself calls) *)
  Theorem sdp_pack_roundtrip tool v a :
    nocrlf tool = true -> vinfo_ok v -> ainfo_ok a -> int64 (ai_rate a) ->
    match video_kind v, audio_kind a with
    | None, None => sdp_pack b64_dec hex_dec b64_enc hex_enc tool v a = Err err_other
    | vk, ak => exists raw, sdp_pack_text b64_enc hex_enc tool v a = Some raw /\
                            sdp_pack b64_dec hex_dec b64_enc hex_enc tool v a = Ok (exp_ctx raw vk ak)
    end.
  Proof.
    intros Ht Hvo Hao Hr.
    assert (I0 : int64 0) by (unfold int64; lia). assert (I1 : int64 1) by (unfold int64; lia).
    pose proof (video_block v Hvo) as Hv.
    destruct (video_kind v) as [[[[vpt vvp] vs] vpp]|] eqn:Ev.
    - destruct Hv as (dv & Hbv & Hne & Hlv).
      pose proof (audio_block a 1 Hao Hr I1) as Ha.
      assert (Hsid : (match video_lines b64_enc v 0 with [] => 0%Z | _ => 1%Z end) = 1%Z)
        by (destruct (video_lines b64_enc v 0); congruence).
      destruct (audio_kind a) as [[[apt arate] aasc]|] eqn:Ea.
      + destruct Ha as (da & Hba & _ & Hla).
        destruct (pack_eval tool v a _ _ (Some dv) (Some da) eq_refl eq_refl (or_introl Hne) Ht) as (raw & Hraw & Hp).
        * exact Hbv.
        * rewrite Hsid. exact Hba.
        * exists raw. split; [exact Hraw|]. rewrite Hp. cbn [optl app fold_left]. rewrite Hlv, Hla.
          unfold exp_ctx. destruct vvp, aasc; reflexivity.
      + destruct (pack_eval tool v a _ _ (Some dv) None eq_refl eq_refl (or_introl Hne) Ht) as (raw & Hraw & Hp).
        * exact Hbv.
        * rewrite Hsid. exact Ha.
        * exists raw. split; [exact Hraw|]. rewrite Hp. cbn [optl app fold_left]. rewrite Hlv.
          unfold exp_ctx. destruct vvp; reflexivity.
    - pose proof (audio_block a 0 Hao Hr I0) as Ha.
      destruct (audio_kind a) as [[[apt arate] aasc]|] eqn:Ea.
      + destruct Ha as (da & Hba & Hne & Hla).
        destruct (pack_eval tool v a _ _ None (Some da) eq_refl eq_refl) as (raw & Hraw & Hp).
        * right. rewrite Hv. exact Hne.
        * exact Ht.
        * exact Hv.
        * rewrite Hv. exact Hba.
        * exists raw. split; [exact Hraw|]. rewrite Hp. cbn [optl app fold_left]. rewrite Hla.
          unfold exp_ctx. destruct aasc; reflexivity.
      + unfold sdp_pack, sdp_pack_text, pack_lines. cbv zeta. rewrite Hv, Ha. reflexivity.
  Qed.

  (* the same, field by field *)
  Corollary sdp_pack_video tool v a pt vp s p :
    nocrlf tool = true -> vinfo_ok v -> ainfo_ok a -> int64 (ai_rate a) ->
    video_kind v = Some (pt, vp, s, p) ->
    exists ctx, sdp_pack b64_dec hex_dec b64_enc hex_enc tool v a = Ok ctx /\
                lc_video ctx = vtrack pt /\ lc_vps ctx = vp /\ lc_sps ctx = Some s /\ lc_pps ctx = Some p.
  Proof.
    intros Ht Hv Ha Hr Hk. pose proof (sdp_pack_roundtrip tool v a Ht Hv Ha Hr) as H. rewrite Hk in H.
    destruct H as (raw & _ & H). eexists. split; [exact H|]. repeat split.
  Qed.

  Corollary sdp_pack_audio tool v a pt rate asc :
    nocrlf tool = true -> vinfo_ok v -> ainfo_ok a -> int64 (ai_rate a) ->
    audio_kind a = Some (pt, rate, asc) ->
    exists ctx, sdp_pack b64_dec hex_dec b64_enc hex_enc tool v a = Ok ctx /\
                lc_audio ctx = atrack pt rate (match video_kind v with Some _ => 1 | None => 0 end) /\
                lc_asc ctx = match asc with Some c => if 2 <=? lenN c then Some c else None | None => None end.
  Proof.
    intros Ht Hv Ha Hr Hk. pose proof (sdp_pack_roundtrip tool v a Ht Hv Ha Hr) as H. rewrite Hk in H.
    destruct (video_kind v) as [k|]; destruct H as (raw & _ & H); eexists; (split; [exact H|]); repeat split.
  Qed.

  Corollary sdp_pack_refuses tool v a :
    video_kind v = None -> audio_kind a = None ->
    sdp_pack b64_dec hex_dec b64_enc hex_enc tool v a = Err err_other.
  Proof.
    intros Hv Ha. unfold sdp_pack, sdp_pack_text, pack_lines. cbv zeta.
    assert (E1 : video_lines b64_enc v 0 = []).
    { destruct v as [pt vps sps pps]. unfold video_kind, video_lines in *. cbn [vi_pt vi_vps vi_sps vi_pps] in *.
      destruct (pt =? pt_avc)%Z; [destruct sps, pps; congruence|].
      destruct (pt =? pt_hevc)%Z; [destruct sps, pps, vps; congruence|reflexivity]. }
    assert (E2 : audio_lines hex_enc a 0 = []).
    { destruct a as [pt rate asc]. unfold audio_kind, audio_lines in *. cbn [ai_pt ai_rate ai_asc] in *.
      destruct (pt =? pt_aac)%Z; [destruct asc; congruence|].
      destruct (pt =? pt_g711a)%Z; [congruence|]. destruct (pt =? pt_g711u)%Z; [congruence|].
      destruct (pt =? pt_opus)%Z; [congruence|reflexivity]. }
    rewrite E1, E2. reflexivity.
  Qed.
End PackParse.

(* ------------------------------------------------------------------ *)
(* the codec laws are satisfiable: a lower-case hexadecimal codec meets all
   five (it stands in for base64 as well; only the laws matter) *)
Definition hexdig (n : N) : N := if n <? 10 then 48 + n else 87 + n.
Definition hexval (c : N) : option N :=
  if (48 <=? c) && (c <=? 57) then Some (c - 48)
  else if (97 <=? c) && (c <=? 102) then Some (c - 87) else None.
Definition w_enc (x : bytes) : bytes := flat_map (fun b => [hexdig (b / 16); hexdig (b mod 16)]) x.
Fixpoint w_dec_fuel (fuel : nat) (s : bytes) : bytes * bool :=
  match fuel with
  | O => ([], false)
  | S f =>
    match s with
    | [] => ([], true)
    | [_] => ([], false)
    | a :: b :: t =>
      match hexval a, hexval b with
      | Some h, Some l => let (r, ok) := w_dec_fuel f t in ((h * 16 + l) :: r, ok)
      | _, _ => ([], false)
      end
    end
  end.
Definition w_dec (s : bytes) : bytes * bool := w_dec_fuel (S (length s)) s.

Lemma hexval_hexdig n : n < 16 -> hexval (hexdig n) = Some n.
Proof.
  intro H.
  assert (C : n = 0 \/ n = 1 \/ n = 2 \/ n = 3 \/ n = 4 \/ n = 5 \/ n = 6 \/ n = 7 \/ n = 8 \/ n = 9 \/ n = 10 \/
              n = 11 \/ n = 12 \/ n = 13 \/ n = 14 \/ n = 15) by lia.
  repeat (destruct C as [->|C]; [reflexivity|]). subst. reflexivity.
Qed.

Lemma hexdig_clean n : n < 16 -> clean_char (hexdig n) = true.
Proof.
  intro H.
  assert (C : n = 0 \/ n = 1 \/ n = 2 \/ n = 3 \/ n = 4 \/ n = 5 \/ n = 6 \/ n = 7 \/ n = 8 \/ n = 9 \/ n = 10 \/
              n = 11 \/ n = 12 \/ n = 13 \/ n = 14 \/ n = 15) by lia.
  repeat (destruct C as [->|C]; [reflexivity|]). subst. reflexivity.
Qed.

Lemma w_dec_fuel_enc x : forall fuel, bytes_ok x -> (length (w_enc x) < fuel)%nat -> w_dec_fuel fuel (w_enc x) = (x, true).
Proof.
  induction x as [|b x IH]; intros fuel Hx Hf.
  - destruct fuel; [inversion Hf|reflexivity].
  - inversion Hx as [|? ? Hb Hx']; subst.
    change (w_enc (b :: x)) with (hexdig (b / 16) :: hexdig (b mod 16) :: w_enc x) in *.
    destruct fuel as [|fuel]; [inversion Hf|]. cbn [w_dec_fuel length] in *.
    rewrite !hexval_hexdig by (try (apply N.div_lt_upper_bound; lia); apply N.mod_lt; discriminate).
    rewrite IH by (try assumption; lia).
    f_equal. f_equal. lia.
Qed.

Lemma w_rt x : bytes_ok x -> w_dec (w_enc x) = (x, true).
Proof. intro H. unfold w_dec. apply w_dec_fuel_enc; [exact H|lia]. Qed.

Lemma w_clean x : bytes_ok x -> clean (w_enc x) = true.
Proof.
  induction x as [|b x IH]; intro Hx; [reflexivity|]. inversion Hx as [|? ? Hb Hx']; subst.
  change (w_enc (b :: x)) with (hexdig (b / 16) :: hexdig (b mod 16) :: w_enc x).
  unfold clean in *. cbn [forallb].
  rewrite !hexdig_clean by (try (apply N.div_lt_upper_bound; lia); apply N.mod_lt; discriminate).
  now rewrite IH.
Qed.

Lemma w_len x : bytes_ok x -> lenN (w_enc x) = 2 * lenN x.
Proof.
  intros _. unfold lenN. induction x as [|b x IH]; [reflexivity|].
  change (w_enc (b :: x)) with (hexdig (b / 16) :: hexdig (b mod 16) :: w_enc x). cbn [length]. lia.
Qed.
