(* lal pkg/hevc/hevc.go: nal2rbsp, ParseVps, ParseSps, parsePtl, updatePtl over
   the nazabits reader model.  hevc.Context is the assignment log.  No proofs. *)
From Lal Require Export Codec.CodecBits Codec.CodecRdM.
Open Scope N_scope.


(* hevc.Context fields *)
Definition H_width := 0.    Definition H_height := 1.   Definition H_space := 2.
Definition H_tier := 3.     Definition H_pidc := 4.     Definition H_compat := 5.
Definition H_constr := 6.   Definition H_level := 7.    Definition H_ntl := 8.
Definition H_nested := 9.   Definition H_chroma := 10.  Definition H_bdl := 11.
Definition H_bdc := 12.     Definition H_lsm1 := 13.    Definition H_cfgver := 14.
Definition H_outw := 15.    Definition H_outh := 16.
Definition hevc_ctx_nfields : nat := 17.

(* newContext() *)
Definition hevc_new_context : spslog :=
  [(H_cfgver, 1); (H_lsm1, 3); (H_compat, 4294967295); (H_constr, 281474976710655)].

(* updatePtl(ctx, &ptl) *)
Definition update_ptl (space tier pidc compat constr level : N) : gm unit :=
  do* _ <- g_set H_space space;
  do* ctier <- g_get H_tier;
  do* clevel <- g_get H_level;
  do* _ <- (if ctier <? tier then
              do* _ <- g_set H_level level; g_set H_tier tier
            else if clevel <? level then g_set H_level level else g_ret tt);
  do* cpidc <- g_get H_pidc;
  do* _ <- (if cpidc <? pidc then g_set H_pidc pidc else g_ret tt);
  do* ccompat <- g_get H_compat;
  do* _ <- g_set H_compat (N.land ccompat compat);
  do* cconstr <- g_get H_constr;
  g_set H_constr (N.land cconstr constr).

(* for i := 0; i < max; i++ { profile_present[i], level_present[i] = ReadBit, ReadBit } *)
Fixpoint ptl_flags (cnt : nat) : gm (list (N * N)) :=
  match cnt with
  | O => g_ret []
  | S c => do* p <- g_bit; do* l <- g_bit; do* t <- ptl_flags c; g_ret ((p, l) :: t)
  end.
Fixpoint ptl_skip2 (cnt : nat) : gm unit :=
  match cnt with
  | O => g_ret tt
  | S c => do* _ <- g_bits8 2; ptl_skip2 c
  end.
Fixpoint ptl_sub (fl : list (N * N)) : gm unit :=
  match fl with
  | [] => g_ret tt
  | (p, l) :: t =>
    do* _ <- (if negb (p =? 0) then
                do* _ <- g_bits32 32; do* _ <- g_bits32 32; do* _ <- g_bits32 24; g_ret tt
              else g_ret tt);
    do* _ <- (if negb (l =? 0) then do* _ <- g_bits8 8; g_ret tt else g_ret tt);
    ptl_sub t
  end.

(* parsePtl(br, ctx, maxSubLayersMinus1), maxSubLayersMinus1 <= 7 *)
Definition parse_ptl (maxsub : N) : gm unit :=
  do* space <- g_bits8 2;
  do* tier <- g_bit;
  do* pidc <- g_bits8 5;
  do* compat <- g_bits32 32;
  do* constr <- g_bits64 48;
  do* level <- g_bits8 8;
  do* _ <- update_ptl space tier pidc compat constr level;
  if maxsub =? 0 then g_ret tt
  else
    do* fl <- ptl_flags (N.to_nat maxsub);
    do* _ <- ptl_skip2 (8 - N.to_nat maxsub);
    ptl_sub fl.

Definition bump_ntl (maxsub : N) : gm unit :=
  do* ntl <- g_get H_ntl;
  if ntl <? maxsub + 1 then g_set H_ntl (maxsub + 1) else g_ret tt.

(* run a body on the rbsp of nal[2:] starting from context [ctx]; every reader
   error is an error return of the Go function *)
Definition hevc_run (pad : bool) (body : gm unit) (e : N) (nal : bytes) (ctx : spslog) : res spslog :=
  if lenN nal <? 2 then Err err_hevc
  else match body (br_new (nal2rbsp (skipn 2 nal) ++ (if pad then [0] else [])), ctx) with
       | Ok (Some _, st) => Ok (snd st)
       | Ok (None, _) => Err e
       | Err x => Err x
       | Panic p => Panic p
       end.

(* ParseVps: reader errors of the first three reads are mapped to ErrHevc, those
   inside parsePtl are returned as they are (ErrNazaBits) *)
Definition parse_vps_head : gm N :=
  do* _ <- g_bits16 12;
  do* maxsub <- g_bits8 3;
  do* _ <- bump_ntl maxsub;
  do* _ <- g_bits32 17;
  g_ret maxsub.
Definition hevc_parse_vps (vps : bytes) (ctx : spslog) : res spslog :=
  if lenN vps <? 2 then Err err_hevc
  else match parse_vps_head (br_new (nal2rbsp (skipn 2 vps)), ctx) with
       | Ok (Some maxsub, st) =>
         match parse_ptl maxsub st with
         | Ok (Some _, st') => Ok (snd st')
         | Ok (None, _) => Err err_bits
         | Err x => Err x
         | Panic p => Panic p
         end
       | Ok (None, _) => Err err_hevc
       | Err x => Err x
       | Panic p => Panic p
       end.

Fixpoint skip_ue (cnt : nat) : gm unit :=
  match cnt with
  | O => g_ret tt
  | S c => do* _ <- g_ue; skip_ue c
  end.

Definition parse_sps_hevc_body : gm unit :=
  do* _ <- g_bits8 4;
  do* maxsub <- g_bits8 3;
  do* _ <- bump_ntl maxsub;
  do* nested <- g_bit;
  do* _ <- g_set H_nested nested;
  do* _ <- parse_ptl maxsub;
  do* _ <- g_ue;
  do* cf <- g_ue;
  do* _ <- g_set H_chroma (cf mod 256);
  do* sep <- (if cf mod 256 =? 3 then g_bit else g_ret 0);
  do* w <- g_ue;
  do* _ <- g_set H_width w;
  do* h <- g_ue;
  do* _ <- g_set H_height h;
  do* cw <- g_bit;
  do* win <- (if negb (cw =? 0) then
                do* l <- g_ue; do* r <- g_ue; do* t <- g_ue; do* b <- g_ue; g_ret (l, r, t, b)
              else g_ret (0, 0, 0, 0));
  let '(l, r, t, b) := win in
  let cat := if sep =? 0 then cf mod 256 else 0 in
  let subw := if (cat =? 1) || (cat =? 2) then 2%Z else 1%Z in
  let subh := if cat =? 1 then 2%Z else 1%Z in
  do* _ <- g_set H_outw (wrap32 (Z.of_N w - subw * (Z.of_N l + Z.of_N r)));
  do* _ <- g_set H_outh (wrap32 (Z.of_N h - subh * (Z.of_N t + Z.of_N b)));
  do* bdl <- g_ue;
  do* _ <- g_set H_bdl (bdl mod 256);
  do* bdc <- g_ue;
  do* _ <- g_set H_bdc (bdc mod 256);
  do* _ <- g_ue;
  do* ord <- g_bit;
  do* _ <- skip_ue (3 * (if negb (ord =? 0) then N.to_nat maxsub + 1 else 1));
  skip_ue 6.

(* ParseSps: the nested-flag assignment `ctx.TemporalIdNested, err = br.ReadBit()`
   stores 0 on error, and the function then returns the error *)
(* pad = true: after the F-13 repair the reader gets the RBSP copy with one zero byte
   appended (see CodecSpsAvc.parse_sps_avc_f); ParseVps reads no Exp-Golomb code and is unchanged *)
Definition hevc_parse_sps_f (pad : bool) (sps : bytes) (ctx : spslog) : res spslog :=
  hevc_run pad parse_sps_hevc_body err_bits sps ctx.
Definition hevc_parse_sps : bytes -> spslog -> res spslog := hevc_parse_sps_f true.
Definition hevc_parse_sps_pinned : bytes -> spslog -> res spslog := hevc_parse_sps_f false.

Definition hevc_ctx_fields (c : spslog) : list N :=
  map (fun i => sps_get (N.of_nat i) c) (seq 0 hevc_ctx_nfields).
