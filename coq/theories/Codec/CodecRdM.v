(* Reader monad shared by the SPS/VPS parser models: nazabits reader state plus
   an assignment log (field id, value) standing for the Go struct being filled
   in; a field never assigned reads 0 (Go's zero value), the most recent
   assignment wins.  No proofs here. *)
From Lal Require Export Codec.CodecBits.
Open Scope N_scope.

Definition spslog := list (N * N).
Fixpoint sps_get (f : N) (l : spslog) : N :=
  match l with
  | [] => 0
  | (g, v) :: t => if g =? f then v else sps_get f t
  end.

Definition gst := (bitrd * spslog)%type.
(* Ok (Some a, st): continue; Ok (None, st): the Go function returned here;
   Err: only out-of-fuel; Panic *)
Definition gm (A : Type) := gst -> res (option A * gst).

Definition g_ret {A} (a : A) : gm A := fun st => Ok (Some a, st).
Definition g_stop {A} : gm A := fun st => Ok (None, st).
Definition g_bind {A B} (m : gm A) (k : A -> gm B) : gm B := fun st =>
  match m st with
  | Ok (Some a, st') => k a st'
  | Ok (None, st') => Ok (None, st')
  | Err e => Err e
  | Panic p => Panic p
  end.
Notation "'do*' x '<-' m ';' k" := (g_bind m (fun x => k))
  (at level 200, x pattern, m at level 100, k at level 200).

Definition g_set (f v : N) : gm unit := fun st => Ok (Some tt, (fst st, (f, v) :: snd st)).
Definition g_get (f : N) : gm N := fun st => Ok (Some (sps_get f (snd st)), st).

(* v, err := read(); if err != nil { return } *)
Definition g_read {A} (r : bitrd -> rd A) : gm A := fun st =>
  match r (fst st) with
  | Ok (Some v, s') => Ok (Some v, (s', snd st))
  | Ok (None, s') => Ok (None, (s', snd st))
  | Err e => Err e
  | Panic p => Panic p
  end.
(* v, _ := read()   (error ignored: zero value) *)
Definition g_read_ign {A} (dflt : A) (r : bitrd -> rd A) : gm A := fun st =>
  match r (fst st) with
  | Ok (Some v, s') => Ok (Some v, (s', snd st))
  | Ok (None, s') => Ok (Some dflt, (s', snd st))
  | Err e => Err e
  | Panic p => Panic p
  end.
(* if br.Err() != nil { return } *)
Definition g_check_err : gm unit := fun st =>
  if br_err (fst st) then Ok (None, st) else Ok (Some tt, st).

Definition g_bits8 (n : nat) : gm N := g_read (read_bits 8 n).
Definition g_bits16 (n : nat) : gm N := g_read (read_bits 16 n).
Definition g_ue : gm N := g_read read_ue.
Definition g_se : gm Z := g_read read_se.

Definition g_bits32 (n : nat) : gm N := g_read (read_bits 32 n).
Definition g_bits64 (n : nat) : gm N := g_read (read_bits 64 n).
Definition g_bit : gm N := g_read read_bit.
