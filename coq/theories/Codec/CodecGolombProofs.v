(* Bit strings, the nazabits reader model on written fields, Exp-Golomb round trip. *)
From Lal Require Import Common.LBytes Common.LBytesProofs Common.Res Codec.CodecBits Codec.CodecGolomb.
From Coq Require Import Lia ZifyN ZifyNat ZifyBool.
Ltac Zify.zify_post_hook ::= Z.div_mod_to_equations.
Open Scope N_scope.

(* ---------- values of bit strings ---------- *)
Lemma bits_val_acc_lin acc l : bits_val_acc acc l = acc * 2 ^ N.of_nat (length l) + bits_val l.
Proof.
  unfold bits_val. revert acc. induction l as [|b t IH]; intro acc.
  - cbn. lia.
  - cbn [bits_val_acc length]. rewrite IH. rewrite (IH (if b then N.succ_double 0 else N.double 0)).
    rewrite Nat2N.inj_succ, N.pow_succ_r'. destruct b; rewrite ?N.succ_double_spec, ?N.double_spec; lia.
Qed.

Lemma bits_val_cons b t : bits_val (b :: t) = N.b2n b * 2 ^ N.of_nat (length t) + bits_val t.
Proof.
  unfold bits_val at 1. cbn [bits_val_acc]. rewrite bits_val_acc_lin.
  destruct b; cbn [N.b2n]; rewrite ?N.succ_double_spec, ?N.double_spec; lia.
Qed.

Lemma bits_of_val_length n v : length (bits_of_val n v) = n.
Proof. induction n as [|n IH]; cbn [bits_of_val length]; congruence. Qed.

Lemma bits_val_of_val n v : bits_val (bits_of_val n v) = v mod 2 ^ N.of_nat n.
Proof.
  induction n as [|n IH].
  - cbn. now rewrite N.mod_1_r.
  - cbn [bits_of_val]. rewrite bits_val_cons, IH, bits_of_val_length.
    rewrite N.testbit_spec'. rewrite Nat2N.inj_succ, N.pow_succ_r'.
    set (P := 2 ^ N.of_nat n). assert (HP : 0 < P) by (apply N.neq_0_lt_0, N.pow_nonzero; discriminate).
    rewrite (N.mul_comm 2 P), N.mod_mul_r by lia. lia.
Qed.

Lemma bits_val_bound l : bits_val l < 2 ^ N.of_nat (length l).
Proof.
  induction l as [|b t IH].
  - cbn. lia.
  - rewrite bits_val_cons. cbn [length]. rewrite Nat2N.inj_succ, N.pow_succ_r'. destruct b; cbn [N.b2n]; lia.
Qed.

(* ---------- splitting ---------- *)
Lemma bits_split_app a r : bits_split (length a) (a ++ r) = Some (a, r).
Proof. induction a as [|b a IH]; cbn [length bits_split app]; [reflexivity|]. now rewrite IH. Qed.

Lemma bits_split_app_n n a r : n = length a -> bits_split n (a ++ r) = Some (a, r).
Proof. intros ->. apply bits_split_app. Qed.

(* ---------- reading a written fixed-width field ---------- *)
Definition st (l : bits) : bitrd := mk_bitrd l false.

Lemma read_bits_written w n v r :
  (0 < n)%nat -> v < 2 ^ N.of_nat n -> N.of_nat n <= w ->
  read_bits w n (st (bits_of_val n v ++ r)) = Ok (Some v, st r).
Proof.
  intros Hn Hv Hw. unfold read_bits, st. cbn [br_err br_rem].
  rewrite (bits_split_app_n n) by (now rewrite bits_of_val_length).
  destruct n as [|n]; [lia|].
  rewrite bits_val_of_val. rewrite (N.mod_small v) by assumption.
  rewrite N.mod_small; [reflexivity|].
  eapply N.lt_le_trans; [exact Hv|]. apply N.pow_le_mono_r; lia.
Qed.

Lemma read_flag_written w (b : bool) r :
  1 <= w -> read_bits w 1 (st (b :: r)) = Ok (Some (N.b2n b), st r).
Proof.
  intro Hw. unfold read_bits, st. cbn [br_err br_rem bits_split].
  replace (bits_val [b]) with (N.b2n b) by (destruct b; reflexivity).
  rewrite N.mod_small; [reflexivity|].
  apply N.lt_le_trans with (2 ^ 1); [destruct b; cbn; lia|]. apply N.pow_le_mono_r; lia.
Qed.

(* ---------- Exp-Golomb ---------- *)
Lemma ue_zeros_repeat n k t : ue_zeros (repeat false n ++ true :: t) k = Some ((n + k)%nat, t).
Proof.
  revert k; induction n as [|n IH]; intro k; cbn [repeat app ue_zeros]; [reflexivity|].
  rewrite IH. f_equal. f_equal. lia.
Qed.

Lemma write_ue_shape v :
  write_ue v = repeat false (ue_len v) ++ true :: bits_of_val (ue_len v) (v + 1 - 2 ^ N.of_nat (ue_len v)).
Proof.
  unfold write_ue. cbv zeta. fold (ue_len v). set (n := ue_len v).
  assert (En : n = N.to_nat (N.log2 (v + 1))) by reflexivity.
  cbn [bits_of_val]. f_equal. f_equal.
  - (* the top bit of v+1 is set *)
    rewrite En, N2Nat.id. apply N.bit_log2. lia.
  - (* lower bits agree *)
    assert (Hlog : 2 ^ N.of_nat n <= v + 1 < 2 ^ N.succ (N.of_nat n)).
    { rewrite En, N2Nat.id. apply N.log2_spec. lia. }
    clear - Hlog. generalize dependent (v + 1). intros x Hlog.
    assert (Hgen : forall k, (k <= n)%nat -> bits_of_val k x = bits_of_val k (x - 2 ^ N.of_nat n)).
    { induction k as [|k IH]; intro Hk; [reflexivity|].
      cbn [bits_of_val]. rewrite IH by lia. f_equal.
      (* bit k of x and of x - 2^n agree for k < n *)
      rewrite <- (N.mod_pow2_bits_low x (N.of_nat n) (N.of_nat k)) by lia.
      rewrite <- (N.mod_pow2_bits_low (x - 2 ^ N.of_nat n) (N.of_nat n) (N.of_nat k)) by lia.
      f_equal.
      replace x with ((x - 2 ^ N.of_nat n) + 1 * 2 ^ N.of_nat n) at 1 by lia.
      apply N.mod_add. apply N.pow_nonzero. discriminate. }
    apply Hgen. lia.
Qed.

Lemma write_ue_nonempty v : write_ue v <> [].
Proof. rewrite write_ue_shape. destruct (ue_len v); cbn; discriminate. Qed.

(* the reader returns exactly the written value and stops right behind it;
   a zero (a lone 1 bit) must not be the very last bit of the buffer, else
   the real reader panics (F-13) *)
Lemma read_ue_written v r :
  v + 1 < 4294967296 -> (v = 0 -> r <> []) ->
  read_ue (st (write_ue v ++ r)) = Ok (Some v, st r).
Proof.
  intros Hv Hr. unfold read_ue, st. cbn [br_err br_rem].
  rewrite write_ue_shape.
  set (n := ue_len v).
  assert (Hlog : 2 ^ N.of_nat n <= v + 1 < 2 ^ N.succ (N.of_nat n)).
  { subst n. unfold ue_len. rewrite N2Nat.id. apply N.log2_spec. lia. }
  assert (Hn32 : (n < 32)%nat).
  { destruct (Nat.ltb_spec n 32) as [H|H]; [exact H|exfalso].
    assert (2 ^ 32 <= 2 ^ N.of_nat n) by (apply N.pow_le_mono_r; lia).
    change (2 ^ 32) with 4294967296 in *. lia. }
  rewrite <- app_assoc. cbn [app].
  rewrite ue_zeros_repeat. rewrite Nat.add_0_r.
  destruct n as [|n'] eqn:En.
  - (* v = 0 *)
    assert (v = 0) by (cbn in Hlog; lia). subst v.
    cbn [bits_of_val app]. unfold read_bits. cbn [br_err br_rem bits_split].
    destruct r as [|b r']; [exfalso; now apply Hr|].
    reflexivity.
  - fold (st (bits_of_val (S n') (v + 1 - 2 ^ N.of_nat (S n')) ++ r)).
    rewrite read_bits_written.
    + unfold shl1_u32. replace (S n' <? 32)%nat with true by (symmetry; apply Nat.ltb_lt; lia).
      f_equal. f_equal. f_equal.
      replace (2 ^ N.of_nat (S n') + (v + 1 - 2 ^ N.of_nat (S n')) + 4294967295) with (v + 4294967296) by lia.
      rewrite N.add_mod by discriminate. rewrite N.mod_same by discriminate.
      rewrite N.add_0_r, N.mod_mod by discriminate. apply N.mod_small. lia.
    + lia.
    + rewrite N.pow_succ_r' in Hlog. lia.
    + lia.
Qed.

(* signed: only the number of bits consumed matters where lal skips the value *)
Lemma se_of_ue_of_se z : (- 1073741824 < z < 1073741824)%Z -> se_of_ue (ue_of_se z) = z.
Proof.
  intro Hz. unfold se_of_ue, ue_of_se.
  destruct (Z.ltb_spec 0 z) as [Hp|Hp].
  - rewrite Z2N.id by lia.
    assert (E : ((2 * z - 1 + 1) mod 4294967296 = 2 * z)%Z) by lia. rewrite E.
    replace (2 * z <? 2147483648)%Z with true by (symmetry; apply Z.ltb_lt; lia).
    replace (Z.odd (2 * z)) with false by (symmetry; rewrite Z.odd_mul; reflexivity).
    rewrite Z.shiftr_div_pow2 by lia. change (2 ^ 1)%Z with 2%Z. lia.
  - rewrite Z2N.id by lia.
    assert (E : ((-2 * z + 1) mod 4294967296 = -2 * z + 1)%Z) by lia. rewrite E.
    replace (-2 * z + 1 <? 2147483648)%Z with true by (symmetry; apply Z.ltb_lt; lia).
    replace (Z.odd (-2 * z + 1)) with true.
    2:{ symmetry. rewrite Z.add_comm. replace (1 + -2 * z)%Z with (1 + 2 * (- z))%Z by lia.
        rewrite Z.odd_add_mul_2. reflexivity. }
    rewrite Z.shiftr_div_pow2 by lia. change (2 ^ 1)%Z with 2%Z. lia.
Qed.

Lemma ue_of_se_bound z : (- 2147483648 < z < 2147483648)%Z -> ue_of_se z + 1 < 4294967296.
Proof. intro H. unfold ue_of_se. destruct (Z.ltb_spec 0 z); lia. Qed.

Lemma read_se_written z r :
  (- 2147483648 < z < 2147483648)%Z -> (z = 0%Z -> r <> []) ->
  read_se (st (write_se z ++ r)) = Ok (Some (se_of_ue (ue_of_se z)), st r).
Proof.
  intros Hz Hr. unfold read_se, write_se. rewrite read_ue_written; [reflexivity| |].
  - now apply ue_of_se_bound.
  - intro H0. apply Hr. unfold ue_of_se in H0. destruct (Z.ltb_spec 0 z); lia.
Qed.

(* ---------- bytes <-> bits ---------- *)
Lemma bits_of_byte_val b7 b6 b5 b4 b3 b2 b1 b0 :
  bits_of_byte (bits_val [b7; b6; b5; b4; b3; b2; b1; b0]) = [b7; b6; b5; b4; b3; b2; b1; b0].
Proof. destruct b7, b6, b5, b4, b3, b2, b1, b0; reflexivity. Qed.

(* converting a bit string to bytes (zero padding of the last byte) and back
   gives the bit string followed by the padding *)
Lemma bits_of_bytes_of_bits : forall l, exists pad, bits_of_bytes (bytes_of_bits l) = l ++ pad.
Proof.
  fix IH 1. intro l.
  destruct l as [|b7 [|b6 [|b5 [|b4 [|b3 [|b2 [|b1 [|b0 t]]]]]]]].
  - exists []. reflexivity.
  - exists (repeat false 7). cbn [bytes_of_bits length Nat.sub repeat app bits_of_bytes]. rewrite bits_of_byte_val. reflexivity.
  - exists (repeat false 6). cbn [bytes_of_bits length Nat.sub repeat app bits_of_bytes]. rewrite bits_of_byte_val. reflexivity.
  - exists (repeat false 5). cbn [bytes_of_bits length Nat.sub repeat app bits_of_bytes]. rewrite bits_of_byte_val. reflexivity.
  - exists (repeat false 4). cbn [bytes_of_bits length Nat.sub repeat app bits_of_bytes]. rewrite bits_of_byte_val. reflexivity.
  - exists (repeat false 3). cbn [bytes_of_bits length Nat.sub repeat app bits_of_bytes]. rewrite bits_of_byte_val. reflexivity.
  - exists (repeat false 2). cbn [bytes_of_bits length Nat.sub repeat app bits_of_bytes]. rewrite bits_of_byte_val. reflexivity.
  - exists (repeat false 1). cbn [bytes_of_bits length Nat.sub repeat app bits_of_bytes]. rewrite bits_of_byte_val. reflexivity.
  - destruct (IH t) as [pad Hpad]. exists pad.
    cbn [bytes_of_bits bits_of_bytes]. rewrite bits_of_byte_val, Hpad. reflexivity.
Qed.

Lemma bits_of_bytes_app a b : bits_of_bytes (a ++ b) = bits_of_bytes a ++ bits_of_bytes b.
Proof. induction a as [|x a IH]; cbn [app bits_of_bytes]; [reflexivity|]. now rewrite IH, app_assoc. Qed.

Lemma bytes_of_bits_ok : forall l, bytes_ok (bytes_of_bits l).
Proof.
  assert (H8 : forall b7 b6 b5 b4 b3 b2 b1 b0, bits_val [b7; b6; b5; b4; b3; b2; b1; b0] < 256).
  { intros. pose proof (bits_val_bound [b7; b6; b5; b4; b3; b2; b1; b0]) as H. cbn [length] in H. exact H. }
  fix IH 1. intro l.
  destruct l as [|b7 [|b6 [|b5 [|b4 [|b3 [|b2 [|b1 [|b0 t]]]]]]]];
    try (cbn [bytes_of_bits length Nat.sub repeat app]; constructor; [apply H8|constructor]).
  - constructor.
  - cbn [bytes_of_bits]. constructor; [apply H8|apply IH].
Qed.

(* without a bound on the written value: the low n bits come back *)
Lemma read_bits_written_mod w n v r :
  (0 < n)%nat -> N.of_nat n <= w ->
  read_bits w n (st (bits_of_val n v ++ r)) = Ok (Some (v mod 2 ^ N.of_nat n), st r).
Proof.
  intros Hn Hw. unfold read_bits, st. cbn [br_err br_rem].
  rewrite (bits_split_app_n n) by (now rewrite bits_of_val_length).
  destruct n as [|n]; [lia|].
  rewrite bits_val_of_val.
  rewrite (N.mod_small (v mod _)); [reflexivity|].
  eapply N.lt_le_trans; [apply N.mod_lt, N.pow_nonzero; discriminate|]. apply N.pow_le_mono_r; lia.
Qed.

Lemma app_ne_r {A} (a b : list A) : b <> [] -> a ++ b <> [].
Proof. intros H E. apply app_eq_nil in E. now apply H. Qed.
