(* SPECIFICATION side for C19 part D (HEVC): H.265 (ISO/IEC 23008-2) 7.3.2.2.1
   seq_parameter_set_rbsp() up to the fields that fix the picture size, as an
   ENCODER model, 7.3.3 profile_tier_level(), and the output picture size of
   7.4.3.2.1 (conformance window).  Independent of lal.  No proofs. *)
From Lal Require Export Codec.CodecBits Codec.CodecGolomb.
Open Scope N_scope.

(* one sub-layer of profile_tier_level(): the 88 bits of profile information
   (as chunks of 32 + 32 + 24 bits) when sub_layer_profile_present_flag, the
   level when sub_layer_level_present_flag *)
Record ptl_syntax := mk_ptl_syntax {
  pt_space : N; pt_tier : bool; pt_profile_idc : N; pt_compat : N; pt_constraint : N; pt_level : N;
  pt_subs : list (option (N * N * N) * option N)     (* one entry per sub-layer below the highest *)
}.

Record hevc_sps_syntax := mk_hevc_sps_syntax {
  hs_vps_id : N;
  hs_nesting : bool;
  hs_ptl : ptl_syntax;                                (* sps_max_sub_layers_minus1 = length (pt_subs ptl) *)
  hs_id : N;
  hs_chroma_format_idc : N;
  hs_separate_planes : bool;                          (* written iff chroma_format_idc = 3 *)
  hs_width : N;                                       (* pic_width_in_luma_samples *)
  hs_height : N;
  hs_conf_win : option (N * N * N * N);               (* left right top bottom offsets *)
  hs_bit_depth_luma_minus8 : N;
  hs_bit_depth_chroma_minus8 : N;
  hs_log2_max_poc_lsb_minus4 : N;
  hs_ordering_present : bool;
  hs_ordering : list (N * N * N);                     (* max_dec_pic_buffering_minus1, max_num_reorder_pics, max_latency_increase_plus1 *)
  hs_cb_tb : list N;                                  (* the six ue(v) that follow: log2 min cb/tb sizes and depths *)
  hs_tail : bits                                      (* everything after that, any bits *)
}.

Definition hs_max_sub (s : hevc_sps_syntax) : N := lenN (pt_subs (hs_ptl s)).

Definition enc_ptl (p : ptl_syntax) : bits :=
  let n := length (pt_subs p) in
  write_u 2 (pt_space p) ++ [pt_tier p] ++ write_u 5 (pt_profile_idc p)
  ++ write_u 32 (pt_compat p) ++ write_u 48 (pt_constraint p) ++ write_u 8 (pt_level p)
  ++ concat (map (fun e => [match fst e with Some _ => true | None => false end;
                            match snd e with Some _ => true | None => false end]) (pt_subs p))
  ++ (if Nat.eqb n 0 then [] else concat (repeat (write_u 2 0) (8 - n)))
  ++ concat (map (fun e =>
       (match fst e with Some (a, b, c) => write_u 32 a ++ write_u 32 b ++ write_u 24 c | None => [] end)
       ++ (match snd e with Some l => write_u 8 l | None => [] end)) (pt_subs p)).

Definition enc_ue3 (e : N * N * N) : bits :=
  let '(a, b, c) := e in write_ue a ++ write_ue b ++ write_ue c.

Definition enc_conf_win (c : option (N * N * N * N)) : bits :=
  match c with
  | None => [false]
  | Some (l, r, t, b) => true :: write_ue l ++ write_ue r ++ write_ue t ++ write_ue b
  end.

Definition encode_hevc_sps (s : hevc_sps_syntax) : bits :=
  write_u 4 (hs_vps_id s) ++ write_u 3 (hs_max_sub s) ++ [hs_nesting s]
  ++ enc_ptl (hs_ptl s)
  ++ write_ue (hs_id s)
  ++ write_ue (hs_chroma_format_idc s)
  ++ (if hs_chroma_format_idc s =? 3 then [hs_separate_planes s] else [])
  ++ write_ue (hs_width s) ++ write_ue (hs_height s)
  ++ enc_conf_win (hs_conf_win s)
  ++ write_ue (hs_bit_depth_luma_minus8 s) ++ write_ue (hs_bit_depth_chroma_minus8 s)
  ++ write_ue (hs_log2_max_poc_lsb_minus4 s)
  ++ [hs_ordering_present s]
  ++ concat (map enc_ue3 (hs_ordering s))
  ++ concat (map write_ue (hs_cb_tb s))
  ++ hs_tail s ++ [true].

(* NAL unit: two header bytes (type 33, layer 0, temporal id 0), RBSP with
   emulation prevention *)
Definition hevc_sps_nal (s : hevc_sps_syntax) : bytes :=
  66 :: 1 :: epb_insert (bytes_of_bits (encode_hevc_sps s)).

(* 7.4.3.2.1 / Table 6-1 *)
Definition hspec_chroma_array_type (s : hevc_sps_syntax) : N :=
  if (hs_chroma_format_idc s =? 3) && hs_separate_planes s then 0 else hs_chroma_format_idc s.
Definition hspec_sub_width_c (s : hevc_sps_syntax) : Z :=
  if (hspec_chroma_array_type s =? 1) || (hspec_chroma_array_type s =? 2) then 2 else 1.
Definition hspec_sub_height_c (s : hevc_sps_syntax) : Z :=
  if hspec_chroma_array_type s =? 1 then 2 else 1.
Definition hspec_win (s : hevc_sps_syntax) : Z * Z * Z * Z :=
  match hs_conf_win s with
  | None => (0, 0, 0, 0)%Z
  | Some (l, r, t, b) => (Z.of_N l, Z.of_N r, Z.of_N t, Z.of_N b)
  end.
Definition hspec_width (s : hevc_sps_syntax) : Z :=
  let '(l, r, _, _) := hspec_win s in Z.of_N (hs_width s) - hspec_sub_width_c s * (l + r).
Definition hspec_height (s : hevc_sps_syntax) : Z :=
  let '(_, _, t, b) := hspec_win s in Z.of_N (hs_height s) - hspec_sub_height_c s * (t + b).

Definition hue_okb (v : N) : bool := v + 1 <? 4294967296.

Definition ptl_okb (p : ptl_syntax) : bool :=
  (pt_space p <? 4) && (pt_profile_idc p <? 32) && (pt_compat p <? 4294967296)
  && (pt_constraint p <? 281474976710656) && (pt_level p <? 256)
  && Nat.leb (length (pt_subs p)) 6
  && forallb (fun e =>
       (match fst e with Some (a, b, c) => (a <? 4294967296) && (b <? 4294967296) && (c <? 16777216) | None => true end)
       && (match snd e with Some l => l <? 256 | None => true end)) (pt_subs p).

Definition hevc_sps_okb (s : hevc_sps_syntax) : bool :=
  (hs_vps_id s <? 16) && ptl_okb (hs_ptl s) && (hs_id s <=? 15)
  && (hs_chroma_format_idc s <=? 3)
  && hue_okb (hs_width s) && hue_okb (hs_height s)
  && match hs_conf_win s with
     | None => true
     | Some (l, r, t, b) => hue_okb l && hue_okb r && hue_okb t && hue_okb b
     end
  && (hs_bit_depth_luma_minus8 s <=? 8) && (hs_bit_depth_chroma_minus8 s <=? 8)
  && (hs_log2_max_poc_lsb_minus4 s <=? 12)
  && Nat.eqb (length (hs_ordering s)) (if hs_ordering_present s then S (length (pt_subs (hs_ptl s))) else 1)
  && forallb (fun e => let '(a, b, c) := e in hue_okb a && hue_okb b && hue_okb c) (hs_ordering s)
  && Nat.eqb (length (hs_cb_tb s)) 6 && forallb hue_okb (hs_cb_tb s)
  && (0 <? hspec_width s)%Z && (0 <? hspec_height s)%Z.
Definition hevc_sps_ok (s : hevc_sps_syntax) : Prop := hevc_sps_okb s = true.
