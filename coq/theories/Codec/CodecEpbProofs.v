(* nal2rbsp (bytes.Replace 00 00 03 -> 00 00) undoes emulation prevention. *)
From Lal Require Import Common.LBytes Common.Res Codec.CodecBits Codec.CodecGolomb.
From Coq Require Import Lia ZifyN ZifyNat ZifyBool.
Open Scope N_scope.

Lemma nal2rbsp_nz a t : a <> 0 -> nal2rbsp (a :: t) = a :: nal2rbsp t.
Proof. intro H. destruct a as [|p]; [congruence|]. reflexivity. Qed.

Lemma nal2rbsp_0_nil : nal2rbsp [0] = [0].
Proof. reflexivity. Qed.

Lemma nal2rbsp_0_nz b t : b <> 0 -> nal2rbsp (0 :: b :: t) = 0 :: nal2rbsp (b :: t).
Proof. intro H. destruct b as [|p]; [congruence|]. reflexivity. Qed.

Lemma nal2rbsp_00_nil : nal2rbsp [0; 0] = [0; 0].
Proof. reflexivity. Qed.

Lemma nal2rbsp_003 t : nal2rbsp (0 :: 0 :: 3 :: t) = 0 :: 0 :: nal2rbsp t.
Proof. reflexivity. Qed.

Lemma nal2rbsp_00_n3 c t : c <> 3 -> nal2rbsp (0 :: 0 :: c :: t) = 0 :: nal2rbsp (0 :: c :: t).
Proof.
  intro H. destruct c as [|[[p|p|]|p|]]; try reflexivity. congruence.
Qed.

(* z zero bytes already written, then the protected rest *)
Lemma nal2rbsp_epb_z : forall l z, (z <= 2)%nat ->
  nal2rbsp (repeat 0 z ++ epb_insert_z z l) = repeat 0 z ++ l.
Proof.
  induction l as [|b t IH]; intros z Hz.
  - cbn [epb_insert_z]. rewrite app_nil_r.
    destruct z as [|[|[|z]]]; try reflexivity. lia.
  - cbn [epb_insert_z].
    destruct z as [|[|[|z]]]; [| | |lia].
    + (* z = 0 *) cbn [Nat.leb andb repeat app].
      destruct (N.eqb_spec b 0) as [->|Hb].
      * apply (IH 1%nat). lia.
      * rewrite nal2rbsp_nz by assumption. f_equal. apply (IH 0%nat). lia.
    + (* z = 1 *) cbn [Nat.leb andb repeat app].
      destruct (N.eqb_spec b 0) as [->|Hb].
      * apply (IH 2%nat). lia.
      * rewrite nal2rbsp_0_nz by assumption. rewrite nal2rbsp_nz by assumption.
        f_equal. f_equal. apply (IH 0%nat). lia.
    + (* z = 2 *) cbn [Nat.leb andb repeat app].
      destruct (N.leb_spec b 3) as [H3|H3].
      * rewrite nal2rbsp_003.
        destruct (N.eqb_spec b 0) as [->|Hb].
        -- f_equal. f_equal. apply (IH 1%nat). lia.
        -- rewrite nal2rbsp_nz by assumption. f_equal. f_equal. f_equal. apply (IH 0%nat). lia.
      * assert (Hb0 : b <> 0) by lia. assert (Hb3 : b <> 3) by lia.
        replace (b =? 0) with false by (symmetry; now apply N.eqb_neq).
        rewrite nal2rbsp_00_n3 by assumption. rewrite nal2rbsp_0_nz by assumption.
        rewrite nal2rbsp_nz by assumption. f_equal. f_equal. f_equal. apply (IH 0%nat). lia.
Qed.

Lemma nal2rbsp_epb l : nal2rbsp (epb_insert l) = l.
Proof. exact (nal2rbsp_epb_z l 0%nat (Nat.le_0_l 2)). Qed.

(* with a non-zero NAL header byte in front *)
Lemma nal2rbsp_nal h l : h <> 0 -> nal2rbsp (h :: epb_insert l) = h :: l.
Proof. intro H. rewrite nal2rbsp_nz by assumption. now rewrite nal2rbsp_epb. Qed.
