(* lal pkg/avc/beta.go: ParseSps = parseSpsBasic + parseSpsGamma + the
   width/height computation, over the nazabits reader model (CodecBits.v).
   The Sps struct is modelled as an assignment log (field id, value); a field
   that was never assigned reads 0, exactly Go's zero value.  parseSpsGamma's
   error is ignored by ParseSps, so an early return just leaves the remaining
   fields unassigned.  No proofs here. *)
From Lal Require Export Codec.CodecBits Codec.CodecRdM.
Open Scope N_scope.

(* field ids of avc.Sps, in declaration order *)
Definition F_profile := 0.   Definition F_cs0 := 1.       Definition F_cs1 := 2.
Definition F_cs2 := 3.       Definition F_level := 4.     Definition F_spsid := 5.
Definition F_chroma := 6.    Definition F_rct := 7.       Definition F_bdl := 8.
Definition F_bdc := 9.       Definition F_bypass := 10.   Definition F_log2fn := 11.
Definition F_poctype := 12.  Definition F_log2poc := 13.  Definition F_numref := 14.
Definition F_gaps := 15.     Definition F_wmbs := 16.     Definition F_hmap := 17.
Definition F_fmo := 18.      Definition F_mbaff := 19.    Definition F_d8x8 := 20.
Definition F_cropflag := 21. Definition F_cl := 22.       Definition F_cr := 23.
Definition F_ct := 24.       Definition F_cb := 25.       Definition F_sarnum := 26.
Definition F_sarden := 27.
Definition avc_sps_nfields : nat := 28.

(* one scaling list: sizeOfScalingList iterations *)
Fixpoint scaling_list (j : nat) (last next : Z) : gm unit :=
  match j with
  | O => g_ret tt
  | S j' =>
    if (next =? 0)%Z then scaling_list j' last next
    else do* v <- g_se;
         let next' := ((last + v) mod 256)%Z in
         let last' := if (next' =? 0)%Z then last else next' in
         scaling_list j' last' next'
  end.

(* for i := i0; i < loop; i++ *)
Fixpoint scaling_lists (cnt : nat) (i : N) : gm unit :=
  match cnt with
  | O => g_ret tt
  | S c =>
    do* flag <- g_bits8 1;
    if flag =? 0 then scaling_lists c (i + 1)
    else do* _ <- scaling_list (if i <? 6 then 16%nat else 64%nat) 8%Z 8%Z;
         scaling_lists c (i + 1)
  end.

(* for i := 0; i < int(nrfipocc); i++ { ReadSeGolomb } : every successful read
   consumes at least one bit, fuel = remaining bits + 1 *)
Fixpoint skip_se (fuel : nat) (cnt : N) : gm unit :=
  if cnt =? 0 then g_ret tt
  else match fuel with
       | O => fun _ => Err err_out_of_fuel
       | S f => do* _ <- g_se; skip_se f (cnt - 1)
       end.

Definition is_high_profile (p : N) : bool :=
  existsb (N.eqb p) [100; 110; 122; 244; 44; 83; 86; 118; 128; 138; 139; 134].

Definition u32add (a b : N) : N := (a + b) mod 4294967296.

Definition sar_table : list (N * N) :=
  [(0,1); (1,1); (12,11); (10,11); (16,11); (40,33); (24,11); (20,11); (32,11);
   (80,33); (18,11); (15,11); (64,33); (160,99); (4,3); (3,2); (2,1)].

Definition gamma_chroma_part (profile : N) : gm unit :=
  if is_high_profile profile then
    do* chroma <- g_ue;
    do* _ <- g_set F_chroma chroma;
    do* _ <- (if chroma =? 3 then do* f <- g_bits8 1; g_set F_rct f else g_ret tt);
    do* bdl <- g_ue;
    do* _ <- g_set F_bdl (u32add bdl 8);
    do* bdc <- g_ue;
    do* _ <- g_set F_bdc (u32add bdc 8);
    do* byp <- g_bits8 1;
    do* _ <- g_set F_bypass byp;
    do* flag <- g_bits8 1;
    if flag =? 1 then scaling_lists (if chroma =? 3 then 12%nat else 8%nat) 0
    else g_ret tt
  else
    do* _ <- g_set F_chroma 1;
    do* _ <- g_set F_bdl 8;
    g_set F_bdc 8.

Definition gamma_poc_part : gm unit :=
  do* poc <- g_ue;
  do* _ <- g_set F_poctype poc;
  if poc =? 0 then
    do* l <- g_ue;
    g_set F_log2poc (u32add l 4)
  else if poc =? 1 then
    do* _ <- g_read_ign 0 (read_bits 8 1);
    do* _ <- g_read_ign 0%Z read_se;
    do* _ <- g_read_ign 0%Z read_se;
    do* _ <- g_check_err;
    do* n <- g_ue;
    fun st => skip_se (S (length (br_rem (fst st)))) n st
  else g_ret tt.

Definition gamma_vui_part : gm unit :=
  do* flag <- g_bits8 1;
  if flag =? 1 then
    do* flag2 <- g_bits8 1;
    if flag2 =? 1 then
      do* ari <- g_bits8 8;
      if ari =? 255 then
        do* n <- g_bits16 16;
        do* _ <- g_set F_sarnum n;
        do* d <- g_bits16 16;
        g_set F_sarden d
      else if ari <? 17 then
        let e := nth (N.to_nat ari) sar_table (0, 0) in
        do* _ <- g_set F_sarnum (fst e);
        g_set F_sarden (snd e)
      else g_ret tt
    else g_ret tt
  else g_ret tt.

Definition parse_sps_gamma (profile : N) : gm unit :=
  do* _ <- gamma_chroma_part profile;
  do* l2fn <- g_ue;
  do* _ <- g_set F_log2fn l2fn;
  do* _ <- gamma_poc_part;
  do* nrf <- g_read_ign 0 read_ue;
  do* _ <- g_set F_numref nrf;
  do* gaps <- g_read_ign 0 (read_bits 8 1);
  do* _ <- g_set F_gaps gaps;
  do* w <- g_read_ign 0 read_ue;
  do* _ <- g_set F_wmbs w;
  do* h <- g_read_ign 0 read_ue;
  do* _ <- g_set F_hmap h;
  do* _ <- g_check_err;
  do* fmo <- g_bits8 1;
  do* _ <- g_set F_fmo fmo;
  do* _ <- (if fmo =? 0 then do* m <- g_bits8 1; g_set F_mbaff m else g_ret tt);
  do* d8 <- g_bits8 1;
  do* _ <- g_set F_d8x8 d8;
  do* cf <- g_bits8 1;
  do* _ <- g_set F_cropflag cf;
  do* _ <- (if cf =? 1 then
              do* l <- g_read_ign 0 read_ue;
              do* _ <- g_set F_cl l;
              do* r <- g_read_ign 0 read_ue;
              do* _ <- g_set F_cr r;
              do* t <- g_read_ign 0 read_ue;
              do* _ <- g_set F_ct t;
              do* b <- g_read_ign 0 read_ue;
              do* _ <- g_set F_cb b;
              g_check_err
            else g_ret tt);
  do* _ <- gamma_vui_part;
  do* den <- g_get F_sarden;
  if den =? 0 then do* _ <- g_set F_sarnum 1; g_set F_sarden 1 else g_ret tt.

(* parseSpsBasic: every error is returned to the caller of ParseSps *)
Definition parse_sps_basic : gm unit :=
  do* _ <- g_bits8 8;
  do* p <- g_bits8 8;
  do* _ <- g_set F_profile p;
  do* c0 <- g_bits8 1;
  do* _ <- g_set F_cs0 c0;
  do* c1 <- g_bits8 1;
  do* _ <- g_set F_cs1 c1;
  do* c2 <- g_bits8 1;
  do* _ <- g_set F_cs2 c2;
  do* _ <- g_bits8 5;
  do* lv <- g_bits8 8;
  do* _ <- g_set F_level lv;
  do* id <- g_ue;
  do* _ <- g_set F_spsid id;
  if 32 <=? id then g_stop else g_ret tt.

(* ctx.Width / ctx.Height, uint32 arithmetic *)
(* crop units (H.264 7.4.2.1.1), as ParseSps computes them after the F-06 fix *)
Definition avc_crop_unit_x (l : spslog) : Z :=
  if (sps_get F_chroma l =? 1) || (sps_get F_chroma l =? 2) then 2%Z else 1%Z.
Definition avc_crop_unit_y (l : spslog) : Z :=
  (2 - Z.of_N (sps_get F_fmo l)) * (if sps_get F_chroma l =? 1 then 2%Z else 1%Z).
Definition avc_width (l : spslog) : N :=
  wrap32 ((Z.of_N (sps_get F_wmbs l) + 1) * 16
          - (Z.of_N (sps_get F_cl l) + Z.of_N (sps_get F_cr l)) * avc_crop_unit_x l).
Definition avc_height (l : spslog) : N :=
  wrap32 ((2 - Z.of_N (sps_get F_fmo l)) * (Z.of_N (sps_get F_hmap l) + 1) * 16
          - (Z.of_N (sps_get F_ct l) + Z.of_N (sps_get F_cb l)) * avc_crop_unit_y l).

(* the pinned tree (before the F-06 fix) used a fixed unit of 2 in both
   directions; kept for the _refuted lemma *)
Definition avc_width_pinned (l : spslog) : N :=
  wrap32 ((Z.of_N (sps_get F_wmbs l) + 1) * 16
          - (Z.of_N (sps_get F_cl l) + Z.of_N (sps_get F_cr l)) * 2).
Definition avc_height_pinned (l : spslog) : N :=
  wrap32 ((2 - Z.of_N (sps_get F_fmo l)) * (Z.of_N (sps_get F_hmap l) + 1) * 16
          - (Z.of_N (sps_get F_ct l) + Z.of_N (sps_get F_cb l)) * 2).

Record avc_ctx := mk_avc_ctx {
  ac_profile : N; ac_level : N; ac_width : N; ac_height : N; ac_sps : spslog }.

(* ParseSps on an already unescaped byte string (the pinned tree read the raw
   NAL unit like this; kept for the _refuted lemma) *)
Definition parse_sps_avc_raw (payload : bytes) : res avc_ctx :=
  match parse_sps_basic (br_new payload, []) with
  | Ok (None, st) => Err (if br_err (fst st) then err_bits else err_avc)
  | Err e => Err e
  | Panic p => Panic p
  | Ok (Some _, st) =>
    let profile := sps_get F_profile (snd st) in
    let fin (l : spslog) :=
      Ok (mk_avc_ctx profile (sps_get F_level l) (avc_width l) (avc_height l) l) in
    match parse_sps_gamma profile st with
    | Ok (_, st') => fin (snd st')
    | Err e => Err e
    | Panic p => Panic p
    end
  end.

(* ParseSps: bytes.Replace(payload, {0,0,3}, {0,0}, -1), then the reader.
   pad = true: the code after the F-13 repair hands nazabits the RBSP copy with one
   zero byte appended (no zero-width read can sit at the end of the buffer any
   more); pad = false: the tree before it, kept for the crash witnesses *)
Definition parse_sps_avc_f (pad : bool) (payload : bytes) : res avc_ctx :=
  parse_sps_avc_raw (nal2rbsp payload ++ (if pad then [0] else [])).
Definition parse_sps_avc : bytes -> res avc_ctx := parse_sps_avc_f true.
Definition parse_sps_avc_pinned : bytes -> res avc_ctx := parse_sps_avc_f false.

Definition avc_sps_fields (c : avc_ctx) : list N :=
  map (fun i => sps_get (N.of_nat i) (ac_sps c)) (seq 0 avc_sps_nfields).
