(* lal pkg/hevc/hevc.go: HEVCDecoderConfigurationRecord ("sequence header" with
   the 5-byte FLV/RTMP video tag prefix) build and parse, including the
   Annex-B fallback parser and its panic site.  No proofs here. *)
From Lal Require Export Codec.CodecBits Codec.CodecRdM Codec.CodecSpsHevc.
Open Scope N_scope.

Definition site_hevc_record_index : N := 2.   (* parseVpsSpsPpsFromRecord / Enhanced: payload[i] *)
Definition site_hevc_annexb_nal0 : N := 3.    (* parseVpsSpsPpsAnnexbFromRecord: nal[0] on an empty nal *)

Definition hsc4 : bytes := [0; 0; 0; 1].

(* BuildSeqHeaderFromVpsSpsPps *)
Definition hevc_build_seq_header (vps sps pps : bytes) : res bytes :=
  let* c1 := hevc_parse_vps vps hevc_new_context in
  let* c := hevc_parse_sps sps c1 in
  let g f := sps_get f c in
  Ok ([28; 0; 0; 0; 0; 1;
       N.lor (N.lor ((g H_space * 64) mod 256) ((g H_tier * 32) mod 256)) (g H_pidc)]
      ++ be_put 4 (g H_compat)
      ++ be_put 4 ((g H_constr / 65536) mod 4294967296) ++ be_put 2 (g H_constr mod 65536)
      ++ [g H_level; 240; 0; 252;
          N.lor (g H_chroma) 252; N.lor (g H_bdl) 248; N.lor (g H_bdc) 248; 0; 0;
          N.lor (N.lor ((g H_ntl * 8) mod 256) ((g H_nested * 4) mod 256)) (g H_lsm1);
          3]
      ++ [32; 0; 1] ++ be_put 2 (lenN vps) ++ vps
      ++ [33; 0; 1] ++ be_put 2 (lenN sps) ++ sps
      ++ [34; 0; 1] ++ be_put 2 (lenN pps) ++ pps).

(* checked accessors: Go index / bele.BeUint16(p[i:]) *)
Definition idx (p : bytes) (i : N) : res N :=
  match nth_error p (N.to_nat i) with
  | Some b => Ok b
  | None => Panic site_hevc_record_index
  end.
Definition u16_at (p : bytes) (i : N) : res N :=
  let* a := idx p i in let* b := idx p (i + 1) in Ok (a * 256 + b).
Definition slice_chk (p : bytes) (a b : N) : res bytes :=
  if (a <=? b) && (b <=? lenN p) then Ok (firstn (N.to_nat (b - a)) (skipn (N.to_nat a) p))
  else Panic site_hevc_record_index.

(* one array of the record: type byte, numNalus = 1, length, data; [need] is
   the constant of the length guard (33/38/43 + previous lengths) *)
Definition hevc_record_array (p : bytes) (index typ : N) (need : N) : res (bytes * N) :=
  let* t := idx p index in
  if negb (N.land t 63 =? typ) then Err err_hevc
  else
    let* n := u16_at p (index + 1) in
    if negb (n =? 1) then Err err_hevc
    else
      let* l := u16_at p (index + 3) in
      if lenN p <? need + l then Err err_hevc
      else
        let* d := slice_chk p (index + 5) (index + 5 + l) in
        Ok (d, l).

(* parseVpsSpsPpsFromRecord.  fixed = true: the code after the two crash fixes
   (length guard in front of payload[27]; an empty nal in the Annex-B fallback
   is skipped); fixed = false: the pinned tree, kept for the crash properties *)
Definition hevc_parse_record_f (fixed : bool) (p : bytes) : res (bytes * bytes * bytes) :=
  if fixed && (lenN p <? 33) then Err err_hevc else
  let* na := idx p 27 in
  if negb ((na =? 3) || (na =? 4)) then Err err_hevc
  else
    let* (vps, vl) := hevc_record_array p 28 32 33 in
    if lenN p <? 38 + vl then Err err_hevc
    else
      let* (sps, sl) := hevc_record_array p (33 + vl) 33 (38 + vl) in
      if lenN p <? 43 + vl + sl then Err err_hevc
      else
        let* (pps, _) := hevc_record_array p (38 + vl + sl) 34 (43 + vl + sl) in
        Ok (vps, sps, pps).

(* bytes.Index(l, {0,0,0,1}) *)
Fixpoint index_sc4 (l : bytes) (i : N) : option N :=
  match l with
  | 0 :: 0 :: 0 :: 1 :: _ => Some i
  | _ :: t => index_sc4 t (i + 1)
  | [] => None
  end.

(* parseVpsSpsPpsAnnexbFromRecord.  fuel = len(payload): i grows by >= 4 per turn *)
Fixpoint hevc_annexb_loop (fixed : bool) (fuel : nat) (p : bytes) (i : N) (acc : bytes * bytes * bytes)
  : res (bytes * bytes * bytes) :=
  if negb (i + 4 <? lenN p) then Ok acc
  else match fuel with
  | O => Err err_out_of_fuel
  | S f =>
    match index_sc4 (skipn (N.to_nat i) p) 0 with
    | None => Ok acc
    | Some start =>
      let i := i + start in
      let e := match index_sc4 (skipn (N.to_nat (i + 4)) p) 0 with
               | Some k => k + 4
               | None => lenN p - i
               end in
      let nal := firstn (N.to_nat (e - 4)) (skipn (N.to_nat (i + 4)) p) in
      match nal with
      | [] => if fixed then hevc_annexb_loop fixed f p (i + e) acc else Panic site_hevc_annexb_nal0
      | b :: _ =>
        let typ := N.land b 126 / 2 in
        let '(v, s, q) := acc in
        let acc' := if typ =? 32 then (v ++ nal, s, q)
                    else if typ =? 33 then (v, s ++ nal, q)
                    else if typ =? 34 then (v, s, q ++ nal)
                    else acc in
        hevc_annexb_loop fixed f p (i + e) acc'
      end
    end
  end.

Definition hevc_parse_annexb_record_f (fixed : bool) (p : bytes) : res (bytes * bytes * bytes) :=
  let* (v, s, q) := hevc_annexb_loop fixed (length p) p 0 ([], [], []) in
  match v, s, q with
  | _ :: _, _ :: _, _ :: _ => Ok (v, s, q)
  | _, _, _ => Err err_hevc
  end.

(* ParseVpsSpsPpsFromSeqHeader(WithoutMalloc), StrategyTryAnnexb... = true *)
Definition hevc_parse_seq_header_f (fixed : bool) (p : bytes) : res (bytes * bytes * bytes) :=
  if lenN p <? 5 then Err err_short
  else if negb ((nth 0 p 0 =? 28) && (nth 1 p 0 =? 0) && (nth 2 p 0 =? 0)
                && (nth 3 p 0 =? 0) && (nth 4 p 0 =? 0)) then Err err_hevc
  else if lenN p <? 33 then Err err_hevc
  else match hevc_parse_record_f fixed p with
       | Err _ => hevc_parse_annexb_record_f fixed p
       | r => r
       end.

(* ParseVpsSpsPpsFromEnhancedSeqHeader *)
Definition hevc_parse_enhanced_seq_header_f (fixed : bool) (p : bytes) : res (bytes * bytes * bytes) :=
  let* b := idx p 0 in
  if N.land b 15 =? 0 then hevc_parse_record_f fixed p else Err err_hevc.

(* the current code *)
Definition hevc_parse_record := hevc_parse_record_f true.
Definition hevc_parse_annexb_record := hevc_parse_annexb_record_f true.
Definition hevc_parse_seq_header := hevc_parse_seq_header_f true.
Definition hevc_parse_enhanced_seq_header := hevc_parse_enhanced_seq_header_f true.
(* the pinned tree *)
Definition hevc_parse_seq_header_pinned := hevc_parse_seq_header_f false.
Definition hevc_parse_enhanced_seq_header_pinned := hevc_parse_enhanced_seq_header_f false.

(* VpsSpsPpsSeqHeader2Annexb *)
Definition hevc_seq_header2annexb (p : bytes) : res bytes :=
  let* (v, s, q) := hevc_parse_seq_header p in
  Ok (hsc4 ++ v ++ hsc4 ++ s ++ hsc4 ++ q).
