(* Proofs about the AAC configuration model (C19 part C). *)
From Coq Require Import Lia ZifyN ZifyNat ZifyBool.
From Lal Require Import Common.LBytes Common.LBytesProofs Common.Res Codec.CodecBits Codec.CodecAac.
Open Scope N_scope.
Ltac Zify.zify_post_hook ::= Z.div_mod_to_equations.

(* ------------------------------------------------------------------ bit strings *)
Lemma bits_val_acc_lin l : forall acc, bits_val_acc acc l = acc * 2 ^ lenN l + bits_val l.
Proof.
  unfold bits_val. induction l as [|b t IH]; intros acc.
  - cbn. lia.
  - cbn [bits_val_acc]. rewrite IH. rewrite (IH (if b then N.succ_double 0 else N.double 0)).
    replace (lenN (b :: t)) with (N.succ (lenN t)) by (unfold lenN; cbn [length]; lia).
    rewrite N.pow_succ_r'. destruct b; rewrite ?N.succ_double_spec, ?N.double_spec; lia.
Qed.

Lemma bits_val_cons b t : bits_val (b :: t) = (if b then 1 else 0) * 2 ^ lenN t + bits_val t.
Proof. unfold bits_val at 1. cbn [bits_val_acc]. rewrite bits_val_acc_lin. destruct b; reflexivity. Qed.

Lemma bits_val_bound l : bits_val l < 2 ^ lenN l.
Proof.
  induction l as [|b t IH]; [cbn; lia|].
  rewrite bits_val_cons. replace (lenN (b :: t)) with (N.succ (lenN t)) by (unfold lenN; cbn [length]; lia).
  rewrite N.pow_succ_r'. destruct b; lia.
Qed.

Lemma bits_of_val_length n v : length (bits_of_val n v) = n.
Proof. induction n as [|n IH]; [reflexivity|]. cbn [bits_of_val length]. rewrite IH. reflexivity. Qed.

(* the writer puts the low n bits, the reader gets them back *)
Lemma bits_val_of_val n v : bits_val (bits_of_val n v) = v mod 2 ^ N.of_nat n.
Proof.
  induction n as [|n IH].
  - cbn. rewrite N.mod_1_r. reflexivity.
  - cbn [bits_of_val]. rewrite bits_val_cons, IH. unfold lenN. rewrite bits_of_val_length.
    rewrite Nat2N.inj_succ, N.pow_succ_r'.
    rewrite (N.mul_comm 2), N.mod_mul_r by (try apply N.pow_nonzero; lia).
    rewrite <- (N.testbit_spec' v (N.of_nat n)).
    destruct (N.testbit v (N.of_nat n)); cbn [N.b2n]; lia.
Qed.

Lemma bits_split_app a : forall r, bits_split (length a) (a ++ r) = Some (a, r).
Proof. induction a as [|b t IH]; intros r; [reflexivity|]. cbn [length app bits_split]. rewrite IH. reflexivity. Qed.

Lemma bits_split_length n : forall l a r, bits_split n l = Some (a, r) -> length a = n.
Proof.
  induction n as [|n IH]; intros l a r H.
  - cbn in H. injection H as <- _. reflexivity.
  - cbn [bits_split] in H. destruct l as [|b t]; [discriminate|].
    destruct (bits_split n t) as [[a' r']|] eqn:E; [|discriminate].
    injection H as <- _. cbn [length]. f_equal. exact (IH _ _ _ E).
Qed.

(* ------------------------------------------------------------------ reader steps *)
Lemma rd_ign_app w n a r : length a = n -> n <> 0%nat ->
  rd_ign w n (mk_bitrd (a ++ r) false) = (bits_val a mod 2 ^ w, mk_bitrd r false).
Proof.
  intros <- Hn. unfold rd_ign, read_bits. cbn [br_err br_rem].
  rewrite bits_split_app. destruct a as [|b t]; [cbn in Hn; congruence|]. reflexivity.
Qed.

Lemma skip_bits_app n a r : length a = n -> skip_bits n (mk_bitrd (a ++ r) false) = mk_bitrd r false.
Proof. intros <-. unfold skip_bits. cbn [br_err br_rem]. rewrite bits_split_app. reflexivity. Qed.

(* whatever the reader state, an n bit read is below 2^n *)
Lemma rd_ign_bound w n s : fst (rd_ign w n s) < 2 ^ N.of_nat n.
Proof.
  assert (H0 : 0 < 2 ^ N.of_nat n) by (apply N.neq_0_lt_0, N.pow_nonzero; lia).
  unfold rd_ign, read_bits. destruct (br_err s); [exact H0|].
  destruct (bits_split n (br_rem s)) as [[a r]|] eqn:E; [|exact H0].
  destruct n as [|n]; [destruct (br_rem s); exact H0|].
  cbn [fst]. apply bits_split_length in E.
  pose proof (bits_val_bound a) as Hb. unfold lenN in Hb. rewrite E in Hb.
  pose proof (N.mod_le (bits_val a) (2 ^ w)) as Hm.
  assert (2 ^ w <> 0) by (apply N.pow_nonzero; lia). specialize (Hm H). lia.
Qed.

(* ------------------------------------------------------------------ bytes <-> bits *)
Lemma bits_of_byte_val b7 b6 b5 b4 b3 b2 b1 b0 :
  bits_of_byte (bits_val [b7; b6; b5; b4; b3; b2; b1; b0]) = [b7; b6; b5; b4; b3; b2; b1; b0].
Proof. destruct b7, b6, b5, b4, b3, b2, b1, b0; reflexivity. Qed.

Lemma bits_of_bytes_app a b : bits_of_bytes (a ++ b) = bits_of_bytes a ++ bits_of_bytes b.
Proof. induction a as [|x t IH]; [reflexivity|]. cbn [app bits_of_bytes]. rewrite IH, app_assoc. reflexivity. Qed.

Lemma bits_bytes_roundtrip k : forall l, length l = (8 * k)%nat ->
  bits_of_bytes (bytes_of_bits l) = l /\ length (bytes_of_bits l) = k.
Proof.
  induction k as [|k IH]; intros l H.
  - destruct l; [split; reflexivity|cbn in H; lia].
  - do 8 (destruct l as [|? l]; [cbn in H; lia|]).
    cbn [bytes_of_bits bits_of_bytes length]. rewrite bits_of_byte_val.
    destruct (IH l) as [E1 E2]; [cbn [length] in H; lia|].
    rewrite E1, E2. split; reflexivity.
Qed.

Lemma bytes_of_bits_pad13 l : length l = 13%nat -> bytes_of_bits l = bytes_of_bits (l ++ [false; false; false]).
Proof.
  intros H. do 13 (destruct l as [|? l]; [discriminate|]).
  destruct l; [reflexivity|discriminate].
Qed.

(* finite check over a byte *)
Lemma byte_cases (P : N -> bool) :
  forallb P (map N.of_nat (seq 0 256)) = true -> forall b, b < 256 -> P b = true.
Proof.
  intros H b Hb. rewrite forallb_forall in H. apply H.
  apply in_map_iff. exists (N.to_nat b). split; [lia|]. apply in_seq. lia.
Qed.

Lemma bits_val_of_byte b : b < 256 -> bits_val (bits_of_byte b) = b.
Proof.
  intros H. apply N.eqb_eq.
  apply (byte_cases (fun b => bits_val (bits_of_byte b) =? b)); [vm_compute; reflexivity|exact H].
Qed.

Lemma bits_val_high5 b : b < 256 ->
  bits_val [N.testbit b 7; N.testbit b 6; N.testbit b 5; N.testbit b 4; N.testbit b 3; false; false; false] = b - b mod 8.
Proof.
  intros H. apply N.eqb_eq.
  apply (byte_cases (fun b => bits_val [N.testbit b 7; N.testbit b 6; N.testbit b 5; N.testbit b 4; N.testbit b 3; false; false; false]
                              =? b - b mod 8)); [vm_compute; reflexivity|exact H].
Qed.

Lemma bits_of_val5_val b4 b3 b2 b1 b0 : bits_of_val 5 (bits_val [b4; b3; b2; b1; b0] mod 2 ^ 8) = [b4; b3; b2; b1; b0].
Proof. destruct b4, b3, b2, b1, b0; reflexivity. Qed.
Lemma bits_of_val4_val b3 b2 b1 b0 : bits_of_val 4 (bits_val [b3; b2; b1; b0] mod 2 ^ 8) = [b3; b2; b1; b0].
Proof. destruct b3, b2, b1, b0; reflexivity. Qed.

(* ------------------------------------------------------------------ what the formats carry *)
Definition asc_carried (c : asc_ctx) : Prop := asc_aot c < 32 /\ asc_sfi c < 16 /\ asc_chan c < 16.
Definition adts_carried (c : asc_ctx) : Prop := 1 <= asc_aot c <= 4 /\ asc_sfi c < 16 /\ asc_chan c < 8.

Lemma adts_carried_asc c : adts_carried c -> asc_carried c.
Proof. unfold adts_carried, asc_carried. lia. Qed.

(* ------------------------------------------------------------------ AudioSpecificConfig *)
Lemma asc_bits_length c : length (asc_bits c) = 13%nat.
Proof. unfold asc_bits. rewrite !app_length, !bits_of_val_length. reflexivity. Qed.

Lemma asc_pack_length c : length (asc_pack c) = 2%nat.
Proof.
  unfold asc_pack. rewrite bytes_of_bits_pad13 by apply asc_bits_length.
  apply (bits_bytes_roundtrip 2). rewrite app_length, asc_bits_length. reflexivity.
Qed.

(* Pack then Unpack, with any bytes behind the two packed ones *)
Lemma asc_unpack_pack c ext : asc_carried c -> asc_unpack (asc_pack c ++ ext) = Ok c.
Proof.
  intros (Ha & Hs & Hc). unfold asc_unpack.
  replace (lenN (asc_pack c ++ ext) <? 2) with false
    by (symmetry; apply N.ltb_ge; unfold lenN; rewrite app_length, asc_pack_length; lia).
  f_equal. unfold br_new. rewrite bits_of_bytes_app. unfold asc_pack.
  rewrite bytes_of_bits_pad13 by apply asc_bits_length.
  destruct (bits_bytes_roundtrip 2 (asc_bits c ++ [false; false; false])) as [E _];
    [rewrite app_length, asc_bits_length; reflexivity|].
  rewrite E. unfold asc_bits, asc_read. rewrite <- !app_assoc.
  rewrite (rd_ign_app 8 5) by (try apply bits_of_val_length; discriminate).
  rewrite (rd_ign_app 8 4) by (try apply bits_of_val_length; discriminate).
  rewrite (rd_ign_app 8 4) by (try apply bits_of_val_length; discriminate).
  rewrite !bits_val_of_val. destruct c as [a s ch]. cbn [asc_aot asc_sfi asc_chan] in *.
  f_equal; change (2 ^ N.of_nat 5) with 32; change (2 ^ N.of_nat 4) with 16; change (2 ^ 8) with 256; lia.
Qed.

(* Unpack then Pack: the first 13 bits of the config, nothing else *)
Lemma asc_pack_unpack b0 b1 rest c : b0 < 256 -> b1 < 256 ->
  asc_unpack (b0 :: b1 :: rest) = Ok c -> asc_pack c = [b0; b1 - b1 mod 8].
Proof.
  intros H0 H1. unfold asc_unpack.
  replace (lenN (b0 :: b1 :: rest) <? 2) with false by (symmetry; apply N.ltb_ge; unfold lenN; cbn [length]; lia).
  intros E. injection E as <-. unfold br_new. cbn [bits_of_bytes]. unfold bits_of_byte. cbn [app].
  unfold asc_read.
  set (t := bits_of_bytes rest).
  change (N.testbit b0 7 :: N.testbit b0 6 :: N.testbit b0 5 :: N.testbit b0 4 :: N.testbit b0 3 :: N.testbit b0 2
          :: N.testbit b0 1 :: N.testbit b0 0 :: N.testbit b1 7 :: N.testbit b1 6 :: N.testbit b1 5 :: N.testbit b1 4
          :: N.testbit b1 3 :: N.testbit b1 2 :: N.testbit b1 1 :: N.testbit b1 0 :: t)
    with ([N.testbit b0 7; N.testbit b0 6; N.testbit b0 5; N.testbit b0 4; N.testbit b0 3]
          ++ [N.testbit b0 2; N.testbit b0 1; N.testbit b0 0; N.testbit b1 7]
          ++ [N.testbit b1 6; N.testbit b1 5; N.testbit b1 4; N.testbit b1 3]
          ++ (N.testbit b1 2 :: N.testbit b1 1 :: N.testbit b1 0 :: t)).
  rewrite (rd_ign_app 8 5) by (reflexivity || discriminate).
  rewrite (rd_ign_app 8 4) by (reflexivity || discriminate).
  rewrite (rd_ign_app 8 4) by (reflexivity || discriminate).
  unfold asc_pack, asc_bits. cbn [asc_aot asc_sfi asc_chan].
  rewrite bits_of_val5_val, !bits_of_val4_val. cbn [app bytes_of_bits length Nat.sub repeat].
  change [N.testbit b0 7; N.testbit b0 6; N.testbit b0 5; N.testbit b0 4; N.testbit b0 3; N.testbit b0 2; N.testbit b0 1; N.testbit b0 0]
    with (bits_of_byte b0).
  rewrite bits_val_of_byte by exact H0. rewrite bits_val_high5 by exact H1. reflexivity.
Qed.

(* ------------------------------------------------------------------ ADTS header *)
Lemma adts_bits_length c n : length (adts_bits c n) = 56%nat.
Proof. unfold adts_bits. rewrite !app_length, !bits_of_val_length. reflexivity. Qed.

Lemma adts_pack_length c n : length (adts_pack c n) = 7%nat.
Proof. apply (bits_bytes_roundtrip 7). apply adts_bits_length. Qed.

(* the header lal writes, read back by lal, with any payload behind it *)
Lemma adts_unpack_pack c n payload : adts_carried c -> n + 7 < 8192 ->
  adts_unpack (adts_pack c n ++ payload) = Ok (c, n + 7).
Proof.
  intros (Ha & Hs & Hc) Hn. unfold adts_unpack.
  replace (lenN (adts_pack c n ++ payload) <? 7) with false
    by (symmetry; apply N.ltb_ge; unfold lenN; rewrite app_length, adts_pack_length; lia).
  f_equal. unfold br_new. rewrite bits_of_bytes_app. unfold adts_pack.
  destruct (bits_bytes_roundtrip 7 (adts_bits c n)) as [E _]; [apply adts_bits_length|].
  rewrite E. unfold adts_bits, adts_read. rewrite <- !app_assoc.
  rewrite (app_assoc (bits_of_val 12 4095) (bits_of_val 4 1)).
  rewrite (skip_bits_app 16) by reflexivity.
  rewrite (rd_ign_app 8 2) by (try apply bits_of_val_length; discriminate).
  rewrite (rd_ign_app 8 4) by (try apply bits_of_val_length; discriminate).
  rewrite (skip_bits_app 1) by reflexivity.
  rewrite (rd_ign_app 8 3) by (try apply bits_of_val_length; discriminate).
  rewrite (skip_bits_app 4) by reflexivity.
  rewrite (rd_ign_app 16 13) by (try apply bits_of_val_length; discriminate).
  rewrite !bits_val_of_val. destruct c as [a s ch]. cbn [asc_aot asc_sfi asc_chan] in *.
  change (2 ^ N.of_nat 2) with 4; change (2 ^ N.of_nat 4) with 16; change (2 ^ N.of_nat 3) with 8;
    change (2 ^ N.of_nat 13) with 8192; change (2 ^ 8) with 256; change (2 ^ 16) with 65536.
  f_equal; [f_equal|]; lia.
Qed.

(* any 7 bytes: what Unpack returns is within what the header carries *)
Lemma adts_unpack_carried h c len : adts_unpack h = Ok (c, len) -> adts_carried c /\ len < 8192.
Proof.
  unfold adts_unpack. destruct (lenN h <? 7); [discriminate|]. intros E. injection E as E.
  unfold adts_read in E.
  set (s0 := skip_bits 16 (br_new h)) in E.
  pose proof (rd_ign_bound 8 2 s0) as B1. destruct (rd_ign 8 2 s0) as [v s1].
  pose proof (rd_ign_bound 8 4 s1) as B2. destruct (rd_ign 8 4 s1) as [sfi s2].
  set (s3 := skip_bits 1 s2) in E.
  pose proof (rd_ign_bound 8 3 s3) as B3. destruct (rd_ign 8 3 s3) as [ch s4].
  set (s5 := skip_bits 4 s4) in E.
  pose proof (rd_ign_bound 16 13 s5) as B4. destruct (rd_ign 16 13 s5) as [l s6].
  injection E as <- <-. cbn [fst] in *. unfold adts_carried. cbn [asc_aot asc_sfi asc_chan].
  change (2 ^ N.of_nat 2) with 4 in B1; change (2 ^ N.of_nat 4) with 16 in B2; change (2 ^ N.of_nat 3) with 8 in B3;
    change (2 ^ N.of_nat 13) with 8192 in B4.
  lia.
Qed.

(* ADTS header -> ASC -> ADTS header *)
Lemma adts_asc_adts h c len : adts_unpack h = Ok (c, len) ->
  asc_of_adts h = Ok (asc_pack c)
  /\ asc_unpack (asc_pack c) = Ok c
  /\ (7 <= len -> adts_unpack (adts_pack c (len - 7)) = Ok (c, len)).
Proof.
  intros E. destruct (adts_unpack_carried h c len E) as [Hc Hl]. repeat split.
  - unfold asc_of_adts. rewrite E. reflexivity.
  - rewrite <- (app_nil_r (asc_pack c)). apply asc_unpack_pack, adts_carried_asc, Hc.
  - intros H7. rewrite <- (app_nil_r (adts_pack c (len - 7))).
    rewrite adts_unpack_pack by (assumption || lia). do 2 f_equal. lia.
Qed.

(* ASC -> ADTS header -> ASC *)
Lemma asc_adts_asc asc c n : asc_unpack asc = Ok c -> adts_carried c -> n + 7 < 8192 ->
  adts_unpack (adts_pack c n) = Ok (c, n + 7)
  /\ asc_of_adts (adts_pack c n) = Ok (asc_pack c)
  /\ asc_unpack (asc_pack c) = Ok c.
Proof.
  intros _ Hc Hn.
  assert (E : adts_unpack (adts_pack c n) = Ok (c, n + 7))
    by (rewrite <- (app_nil_r (adts_pack c n)); apply adts_unpack_pack; assumption).
  repeat split; [exact E|apply (adts_asc_adts _ _ _ E)|apply (adts_asc_adts _ _ _ E)].
Qed.

(* ------------------------------------------------------------------ sequence header *)
Lemma aac_seqh_of_asc_ok asc : (2 <= length asc)%nat ->
  aac_seqh_of_asc asc = Ok (175 :: 0 :: asc)
  /\ skipn 2 (175 :: 0 :: asc) = asc
  /\ aac_seqh_unpack (175 :: 0 :: asc) = [10; 3; 1; 1; 0].
Proof.
  intros H. split; [|split; [reflexivity|]].
  - unfold aac_seqh_of_asc. replace (lenN asc <? 2) with false by (symmetry; apply N.ltb_ge; unfold lenN; lia). reflexivity.
  - unfold aac_seqh_unpack, br_new. cbn [bits_of_bytes].
    change (bits_of_byte 175) with ([true; false; true; false] ++ [true; true] ++ [true] ++ [true]).
    change (bits_of_byte 0) with (repeat false 8). rewrite <- !app_assoc.
    rewrite (rd_ign_app 8 4) by (reflexivity || discriminate).
    rewrite (rd_ign_app 8 2) by (reflexivity || discriminate).
    rewrite (rd_ign_app 8 1) by (reflexivity || discriminate).
    rewrite (rd_ign_app 8 1) by (reflexivity || discriminate).
    rewrite (rd_ign_app 8 8) by (reflexivity || discriminate).
    reflexivity.
Qed.

Lemma aac_seqh_of_adts_ok h c len : adts_unpack h = Ok (c, len) ->
  aac_seqh_of_adts h = Ok (175 :: 0 :: asc_pack c).
Proof.
  intros E. unfold aac_seqh_of_adts, asc_of_adts. rewrite E. cbn [bind].
  apply aac_seqh_of_asc_ok. rewrite asc_pack_length. lia.
Qed.

(* ------------------------------------------------------------------ what is lost *)
(* object type 5 (SBR, explicit signalling) comes back as 1; object type 0 as 4 *)
Lemma adts_object_type_refuted :
  exists c n, asc_carried c /\ n + 7 < 8192 /\ asc_aot c = 5 /\
    adts_unpack (adts_pack c n) = Ok (mk_asc 1 (asc_sfi c) (asc_chan c), n + 7).
Proof. exists (mk_asc 5 4 2), 100. repeat split; try (cbn; lia). Qed.

(* channel configuration 8 comes back as 0 *)
Lemma adts_channels_refuted :
  exists c n, asc_carried c /\ n + 7 < 8192 /\ asc_chan c = 8 /\
    adts_unpack (adts_pack c n) = Ok (mk_asc (asc_aot c) (asc_sfi c) 0, n + 7).
Proof. exists (mk_asc 2 4 8), 100. repeat split; try (cbn; lia). Qed.

(* a payload of 8185 bytes: the 13 bit length field wraps to 0 *)
Lemma adts_frame_length_refuted :
  exists c n, adts_carried c /\ n + 7 = 8192 /\ adts_unpack (adts_pack c n) = Ok (c, 0).
Proof. exists (mk_asc 2 4 2), 8185. repeat split; try (cbn; lia). Qed.

(* AAC-LC 44.1 kHz stereo with the backward compatible SBR extension
   (sync 0x2b7): only the first two bytes survive the ADTS header *)
Lemma asc_extension_refuted :
  exists asc c n, asc_unpack asc = Ok c /\ adts_carried c /\ n + 7 < 8192 /\
    asc_of_adts (adts_pack c n) = Ok [18; 16] /\ asc <> [18; 16].
Proof.
  exists [18; 16; 86; 229; 0], (mk_asc 2 4 2), 100.
  repeat split; try (cbn; lia); try reflexivity. discriminate.
Qed.

Lemma aac_example_ok :
  asc_unpack [18; 16; 86; 229; 0] = Ok (mk_asc 2 4 2) /\ adts_carried (mk_asc 2 4 2)
  /\ adts_pack (mk_asc 2 4 2) 376 = [255; 241; 80; 128; 47; 255; 252]
  /\ adts_unpack ([255; 241; 80; 128; 47; 255; 252] ++ [33; 0]) = Ok (mk_asc 2 4 2, 383)
  /\ asc_of_adts [255; 241; 80; 128; 47; 255; 252] = Ok [18; 16]
  /\ aac_seqh_of_adts [255; 241; 80; 128; 47; 255; 252] = Ok [175; 0; 18; 16].
Proof. repeat split; try reflexivity; cbn; lia. Qed.
