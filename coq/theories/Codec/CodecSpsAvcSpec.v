(* SPECIFICATION side for C19 part D: H.264 (ISO/IEC 14496-10) 7.3.2.1
   seq_parameter_set_rbsp() as an ENCODER model over an abstract syntax record,
   and the picture size the standard derives from it (7.4.2.1.1).  Written from
   the standard, independent of lal.  No proofs. *)
From Lal Require Export Codec.CodecBits Codec.CodecGolomb.
Open Scope N_scope.

(* seq_scaling_matrix: per list, None = seq_scaling_list_present_flag 0,
   Some deltas = the delta_scale values the encoder chose, in order *)
Record chroma_syntax := mk_chroma_syntax {
  cs_format_idc : N;                    (* chroma_format_idc 0..3 *)
  cs_separate_planes : bool;            (* separate_colour_plane_flag, written iff idc = 3 *)
  cs_bit_depth_luma_minus8 : N;
  cs_bit_depth_chroma_minus8 : N;
  cs_qpprime_bypass : bool;
  cs_scaling : option (list (option (list Z)))
}.

Inductive poc_syntax :=
| Poc0 (log2_max_poc_lsb_minus4 : N)
| Poc1 (delta_always_zero : bool) (offset_non_ref offset_top_bottom : Z) (offsets_ref_frame : list Z)
| Poc2.

Record vui_syntax := mk_vui_syntax {
  vs_aspect : option (N * N * N)        (* aspect_ratio_idc, sar_width, sar_height (written iff idc = 255) *)
}.

Record sps_syntax := mk_sps_syntax {
  ss_nal_ref_idc : N;                   (* 1..3 for an SPS *)
  ss_profile_idc : N;
  ss_constraint_flags : N;              (* constraint_set0..5 flags + reserved_zero_2bits, as one byte *)
  ss_level_idc : N;
  ss_id : N;
  ss_chroma : chroma_syntax;            (* written iff the profile carries chroma info *)
  ss_log2_max_frame_num_minus4 : N;
  ss_poc : poc_syntax;
  ss_max_num_ref_frames : N;
  ss_gaps_allowed : bool;
  ss_width_mbs_minus1 : N;
  ss_height_map_units_minus1 : N;
  ss_frame_mbs_only : bool;
  ss_mbaff : bool;                      (* written iff not frame_mbs_only *)
  ss_direct_8x8 : bool;
  ss_crop : option (N * N * N * N);     (* left right top bottom *)
  ss_vui : option vui_syntax;
  ss_tail : bits                        (* rest of vui_parameters() (when present): any bits *)
}.

Definition high_profile (p : N) : bool :=
  existsb (N.eqb p) [100; 110; 122; 244; 44; 83; 86; 118; 128; 138; 139; 134].

(* 7.3.2.1.1.1 scaling_list(): delta_scale is present while nextScale != 0 *)
Fixpoint enc_scaling_list (j : nat) (last next : Z) (ds : list Z) : bits :=
  match j with
  | O => []
  | S j' =>
    if (next =? 0)%Z then enc_scaling_list j' last next ds
    else
      let d := hd 0%Z ds in
      let next' := ((last + d + 256) mod 256)%Z in
      write_se d ++ enc_scaling_list j' (if (next' =? 0)%Z then last else next') next' (tl ds)
  end.

Fixpoint enc_scaling_lists (i : N) (ls : list (option (list Z))) : bits :=
  match ls with
  | [] => []
  | None :: t => false :: enc_scaling_lists (i + 1) t
  | Some ds :: t =>
    true :: enc_scaling_list (if i <? 6 then 16%nat else 64%nat) 8%Z 8%Z ds ++ enc_scaling_lists (i + 1) t
  end.

Definition enc_chroma (c : chroma_syntax) : bits :=
  write_ue (cs_format_idc c)
  ++ (if cs_format_idc c =? 3 then [cs_separate_planes c] else [])
  ++ write_ue (cs_bit_depth_luma_minus8 c)
  ++ write_ue (cs_bit_depth_chroma_minus8 c)
  ++ [cs_qpprime_bypass c]
  ++ match cs_scaling c with
     | None => [false]
     | Some ls => true :: enc_scaling_lists 0 ls
     end.

Definition enc_poc (p : poc_syntax) : bits :=
  match p with
  | Poc0 l => write_ue 0 ++ write_ue l
  | Poc1 dz o1 o2 offs =>
    write_ue 1 ++ [dz] ++ write_se o1 ++ write_se o2 ++ write_ue (lenN offs)
    ++ concat (map write_se offs)
  | Poc2 => write_ue 2
  end.

Definition enc_crop (c : option (N * N * N * N)) : bits :=
  match c with
  | None => [false]
  | Some (l, r, t, b) => true :: write_ue l ++ write_ue r ++ write_ue t ++ write_ue b
  end.

Definition enc_vui (v : option vui_syntax) : bits :=
  match v with
  | None => [false]
  | Some v =>
    true :: match vs_aspect v with
            | None => [false]
            | Some (idc, sw, sh) =>
              true :: write_u 8 idc ++ (if idc =? 255 then write_u 16 sw ++ write_u 16 sh else [])
            end
  end.

(* seq_parameter_set_data() followed by whatever else the encoder writes (rest
   of the VUI) and the rbsp_stop_one_bit; bytes_of_bits adds the alignment zeros *)
Definition encode_sps (s : sps_syntax) : bits :=
  write_u 8 (ss_profile_idc s) ++ write_u 8 (ss_constraint_flags s) ++ write_u 8 (ss_level_idc s)
  ++ write_ue (ss_id s)
  ++ (if high_profile (ss_profile_idc s) then enc_chroma (ss_chroma s) else [])
  ++ write_ue (ss_log2_max_frame_num_minus4 s)
  ++ enc_poc (ss_poc s)
  ++ write_ue (ss_max_num_ref_frames s)
  ++ [ss_gaps_allowed s]
  ++ write_ue (ss_width_mbs_minus1 s)
  ++ write_ue (ss_height_map_units_minus1 s)
  ++ [ss_frame_mbs_only s]
  ++ (if ss_frame_mbs_only s then [] else [ss_mbaff s])
  ++ [ss_direct_8x8 s]
  ++ enc_crop (ss_crop s)
  ++ enc_vui (ss_vui s)
  ++ ss_tail s
  ++ [true].

(* the NAL unit: header byte (forbidden_zero_bit 0, nal_ref_idc, type 7), then
   the RBSP with emulation prevention *)
Definition sps_nal (s : sps_syntax) : bytes :=
  (ss_nal_ref_idc s * 32 + 7) :: epb_insert (bytes_of_bits (encode_sps s)).

(* ---- 7.4.2.1.1: derived picture size ---- *)
Definition spec_chroma_format_idc (s : sps_syntax) : N :=
  if high_profile (ss_profile_idc s) then cs_format_idc (ss_chroma s) else 1.
Definition spec_separate_planes (s : sps_syntax) : bool :=
  high_profile (ss_profile_idc s) && (cs_format_idc (ss_chroma s) =? 3) && cs_separate_planes (ss_chroma s).
Definition spec_chroma_array_type (s : sps_syntax) : N :=
  if spec_separate_planes s then 0 else spec_chroma_format_idc s.
(* Table 6-1 *)
Definition spec_sub_width_c (s : sps_syntax) : Z :=
  if (spec_chroma_format_idc s =? 1) || (spec_chroma_format_idc s =? 2) then 2 else 1.
Definition spec_sub_height_c (s : sps_syntax) : Z :=
  if spec_chroma_format_idc s =? 1 then 2 else 1.
Definition spec_fmo (s : sps_syntax) : Z := if ss_frame_mbs_only s then 1 else 0.
(* (7-19) .. (7-22) *)
Definition spec_crop_unit_x (s : sps_syntax) : Z :=
  if spec_chroma_array_type s =? 0 then 1 else spec_sub_width_c s.
Definition spec_crop_unit_y (s : sps_syntax) : Z :=
  if spec_chroma_array_type s =? 0 then 2 - spec_fmo s else spec_sub_height_c s * (2 - spec_fmo s).
Definition spec_crop (s : sps_syntax) : Z * Z * Z * Z :=
  match ss_crop s with
  | None => (0, 0, 0, 0)%Z
  | Some (l, r, t, b) => (Z.of_N l, Z.of_N r, Z.of_N t, Z.of_N b)
  end.
(* PicWidthInSamplesL = 16 * PicWidthInMbs, FrameHeightInMbs = (2 - frame_mbs_only_flag) * PicHeightInMapUnits;
   the cropping rectangle is CropUnitX*left .. PicWidthInSamplesL - (CropUnitX*right + 1) etc. *)
Definition spec_width (s : sps_syntax) : Z :=
  let '(l, r, _, _) := spec_crop s in
  16 * (Z.of_N (ss_width_mbs_minus1 s) + 1) - spec_crop_unit_x s * (l + r).
Definition spec_height (s : sps_syntax) : Z :=
  let '(_, _, t, b) := spec_crop s in
  16 * (2 - spec_fmo s) * (Z.of_N (ss_height_map_units_minus1 s) + 1) - spec_crop_unit_y s * (t + b).

(* ---- value ranges of the standard (7.4.2.1.1), as far as the theorem needs them ---- *)
Definition ue_okb (v : N) : bool := v + 1 <? 4294967296.
Definition se_okb (z : Z) : bool := (-2147483648 <? z)%Z && (z <? 2147483648)%Z.
Definition delta_okb (z : Z) : bool := (-128 <=? z)%Z && (z <=? 127)%Z.

Definition scaling_okb (c : chroma_syntax) : bool :=
  match cs_scaling c with
  | None => true
  | Some ls =>
    Nat.eqb (length ls) (if cs_format_idc c =? 3 then 12%nat else 8%nat)
    && forallb (fun o => match o with None => true | Some ds => forallb delta_okb ds end) ls
  end.

Definition chroma_okb (c : chroma_syntax) : bool :=
  (cs_format_idc c <=? 3) && (cs_bit_depth_luma_minus8 c <=? 6) && (cs_bit_depth_chroma_minus8 c <=? 6)
  && scaling_okb c.

Definition poc_okb (p : poc_syntax) : bool :=
  match p with
  | Poc0 l => l <=? 12
  | Poc1 _ o1 o2 offs => se_okb o1 && se_okb o2 && (lenN offs <=? 255) && forallb se_okb offs
  | Poc2 => true
  end.

Definition vui_okb (v : option vui_syntax) : bool :=
  match v with
  | Some (mk_vui_syntax (Some (idc, sw, sh))) => (idc <? 256) && (sw <? 65536) && (sh <? 65536)
  | _ => true
  end.

Definition sps_okb (s : sps_syntax) : bool :=
  (1 <=? ss_nal_ref_idc s) && (ss_nal_ref_idc s <=? 3)
  && (ss_profile_idc s <? 256) && (ss_constraint_flags s <? 256) && (ss_level_idc s <? 256)
  && (ss_id s <=? 31)
  && (if high_profile (ss_profile_idc s) then chroma_okb (ss_chroma s) else true)
  && (ss_log2_max_frame_num_minus4 s <=? 12)
  && poc_okb (ss_poc s)
  && ue_okb (ss_max_num_ref_frames s)
  && (16 * (ss_width_mbs_minus1 s + 1) <? 4294967296)
  && (32 * (ss_height_map_units_minus1 s + 1) <? 4294967296)
  && match ss_crop s with
     | None => true
     | Some (l, r, t, b) => ue_okb l && ue_okb r && ue_okb t && ue_okb b
     end
  && (0 <? spec_width s)%Z && (0 <? spec_height s)%Z
  && vui_okb (ss_vui s).
Definition sps_ok (s : sps_syntax) : Prop := sps_okb s = true.
