(* lal pkg/avc/avc.go: AVCDecoderConfigurationRecord ("sequence header" with
   the 5-byte FLV/RTMP video tag prefix) build and parse.  No proofs here. *)
From Lal Require Export Codec.CodecBits Codec.CodecSpsAvc.
Open Scope N_scope.


Definition start_code4 : bytes := [0; 0; 0; 1].
Definition start_code3 : bytes := [0; 0; 1].

(* BuildSeqHeaderFromSpsPps: the length fields are the low 16 bits of len *)
Definition avc_build_seq_header (sps pps : bytes) : res bytes :=
  let* ctx := parse_sps_avc sps in
  Ok ([23; 0; 0; 0; 0; 1; ac_profile ctx; 0; ac_level ctx; 255; 225;
       (lenN sps / 256) mod 256; lenN sps mod 256]
      ++ sps ++ [1; (lenN pps / 256) mod 256; lenN pps mod 256] ++ pps).

Definition nth_or0 (i : nat) (l : bytes) : N := nth i l 0.

(* ParseSpsPpsFromSeqHeader(WithoutMalloc): every index is guarded by a
   length check in the Go code, so there is no panic site *)
Definition avc_parse_seq_header (p : bytes) : res (bytes * bytes) :=
  if lenN p <? 13 then Err err_short
  else if negb ((nth_or0 0 p =? 23) && (nth_or0 1 p =? 0) && (nth_or0 2 p =? 0)
                && (nth_or0 3 p =? 0) && (nth_or0 4 p =? 0)) then Err err_avc
  else if negb (N.land (nth_or0 10 p) 31 =? 1) then Err err_avc
  else
    let sl := nth_or0 11 p * 256 + nth_or0 12 p in
    if lenN p <? 13 + sl then Err err_short
    else
      let sps := firstn (N.to_nat sl) (skipn 13 p) in
      let rest := skipn (N.to_nat sl) (skipn 13 p) in
      if lenN p <? 16 + sl then Err err_short
      else if negb (nth_or0 0 rest =? 1) then Err err_avc   (* numOfPictureParameterSets: a full byte (fix abf3370) *)
      else
        let pl := nth_or0 1 rest * 256 + nth_or0 2 rest in
        if lenN p <? 16 + sl + pl then Err err_short
        else Ok (sps, firstn (N.to_nat pl) (skipn 3 rest)).

(* parseSpsPpsListFromSeqHeaderWithoutMalloc: nazabits byte-aligned reads.
   ReadBytes n at pos 0 = reserve (8n) then copy; ReadBits8 8 = one byte. *)
Fixpoint read_ps_list (cnt : nat) (p : bytes) : res (list bytes * bytes) :=
  match cnt with
  | O => Ok ([], p)
  | S c =>
    match split_exact 2 p with
    | None => Err err_bits
    | Some (l2, r) =>
      match split_exactN (be_get l2) r with
      | None => Err err_bits
      | Some (item, r') =>
        let* (items, r'') := read_ps_list c r' in Ok (item :: items, r'')
      end
    end
  end.

Definition avc_parse_seq_header_list (p : bytes) : res (list bytes * list bytes) :=
  if lenN p <? 5 then Err err_short
  else if negb ((nth_or0 0 p =? 23) && (nth_or0 1 p =? 0) && (nth_or0 2 p =? 0)
                && (nth_or0 3 p =? 0) && (nth_or0 4 p =? 0)) then Err err_avc
  else
    match split_exact 10 p with
    | None => Err err_bits
    | Some (_, r) =>
      match r with
      | [] => Err err_bits
      | b :: r1 =>
        let* (spss, r2) := read_ps_list (N.to_nat (N.land b 31)) r1 in
        match r2 with
        | [] => Err err_bits
        | b2 :: r3 =>
          (* numOfPictureParameterSets is a full byte (ISO/IEC 14496-15 5.2.4.1.1; fix abf3370); b2 < 256 *)
          let* (ppss, _) := read_ps_list (N.to_nat b2) r3 in
          Ok (spss, ppss)
        end
      end
    end.

Definition annexb_join4 (l : list bytes) : bytes :=
  concat (map (fun x => start_code4 ++ x) l).

(* SpsPpsSeqHeader2Annexb *)
Definition avc_seq_header2annexb (p : bytes) : res bytes :=
  let* (spss, ppss) := avc_parse_seq_header_list p in
  Ok (annexb_join4 spss ++ annexb_join4 ppss).

(* BuildSpsPps2Annexb *)
Definition avc_build_sps_pps2annexb (sps pps : bytes) : bytes :=
  start_code4 ++ sps ++ start_code4 ++ pps.
