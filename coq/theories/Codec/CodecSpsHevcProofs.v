(* C19 part D (HEVC): lal's hevc.ParseSps on every SPS of the encoder model of
   CodecSpsHevcSpec.v reports the coded size and the size inside the conformance window. *)
From Lal Require Import Common.LBytes Common.LBytesProofs Common.Res
  Codec.CodecBits Codec.CodecGolomb Codec.CodecRdM Codec.CodecSpsHevc Codec.CodecSpsHevcSpec
  Codec.CodecGolombProofs Codec.CodecRdMProofs Codec.CodecEpbProofs.
From Coq Require Import Lia ZifyN ZifyNat ZifyBool.
Open Scope N_scope.

Ltac unfold_h := unfold g_bits8, g_bits16, g_bits32, g_bits64, g_bit, g_ue, read_bit in *.

Lemma bind_ok {A B} (m : gm A) (k : A -> gm B) s a s' :
  m s = Ok (Some a, s') -> g_bind m k s = k a s'.
Proof. intro H. unfold g_bind. now rewrite H. Qed.

(* log-only computations always continue *)
Lemma update_ptl_total a b c d e f s lg :
  exists lg', update_ptl a b c d e f (s, lg) = Ok (Some tt, (s, lg')).
Proof.
  unfold update_ptl. rewrite !uset, !uget.
  destruct (sps_get H_tier ((H_space, a) :: lg) <? b).
  - rewrite bind_assoc, !uset, !uget.
    destruct (_ <? c); [rewrite uset|rewrite bind_ret]; rewrite uget, uset, uget; eexists; reflexivity.
  - destruct (sps_get H_level ((H_space, a) :: lg) <? f).
    + rewrite uset, uget. destruct (_ <? c); [rewrite uset|rewrite bind_ret]; rewrite uget, uset, uget; eexists; reflexivity.
    + rewrite bind_ret, uget. destruct (_ <? c); [rewrite uset|rewrite bind_ret]; rewrite uget, uset, uget; eexists; reflexivity.
Qed.

Lemma bump_ntl_total m s lg : exists lg', bump_ntl m (s, lg) = Ok (Some tt, (s, lg')).
Proof.
  unfold bump_ntl. rewrite bind_get. destruct (sps_get H_ntl lg <? m + 1); eexists; reflexivity.
Qed.

(* ---------- profile_tier_level ---------- *)
Definition sub_flags (e : option (N * N * N) * option N) : N * N :=
  (N.b2n (match fst e with Some _ => true | None => false end),
   N.b2n (match snd e with Some _ => true | None => false end)).

Lemma ptl_flags_ok : forall (subs : list (option (N * N * N) * option N)) r lg,
  ptl_flags (length subs)
    (st (concat (map (fun e => [match fst e with Some _ => true | None => false end;
                                match snd e with Some _ => true | None => false end]) subs) ++ r), lg)
  = Ok (Some (map sub_flags subs), (st r, lg)).
Proof.
  induction subs as [|e subs IH]; intros r lg; [reflexivity|].
  cbn [length ptl_flags map concat app]. unfold_h.
  rewrite (@bind_flag (list (N * N)) 8) by lia.
  rewrite (@bind_flag (list (N * N)) 8) by lia.
  rewrite (bind_ok _ _ _ _ _ (IH r lg)). reflexivity.
Qed.

Lemma ptl_skip2_ok : forall k r lg,
  ptl_skip2 k (st (concat (repeat (write_u 2 0) k) ++ r), lg) = Ok (Some tt, (st r, lg)).
Proof.
  induction k as [|k IH]; intros r lg; [reflexivity|].
  cbn [repeat concat ptl_skip2]. rewrite <- app_assoc. unfold_h. unfold write_u.
  rewrite (ubits 8 2) by (cbn; lia). apply IH.
Qed.

Definition sub_okb (e : option (N * N * N) * option N) : bool :=
  (match fst e with Some (a, b, c) => (a <? 4294967296) && (b <? 4294967296) && (c <? 16777216) | None => true end)
  && (match snd e with Some l => l <? 256 | None => true end).

Lemma ptl_sub_ok : forall (subs : list (option (N * N * N) * option N)) r lg,
  forallb sub_okb subs = true ->
  ptl_sub (map sub_flags subs)
    (st (concat (map (fun e =>
           (match fst e with Some (a, b, c) => write_u 32 a ++ write_u 32 b ++ write_u 24 c | None => [] end)
           ++ (match snd e with Some l => write_u 8 l | None => [] end)) subs) ++ r), lg)
  = Ok (Some tt, (st r, lg)).
Proof.
  induction subs as [|e subs IH]; intros r lg Hok; [reflexivity|].
  cbn [forallb] in Hok. apply andb_prop in Hok. destruct Hok as [He Hok].
  cbn [map concat ptl_sub sub_flags]. unfold sub_flags at 1.
  destruct e as [[[[a b] c]|] [l|]]; cbn [fst snd N.b2n N.eqb negb] in *; unfold sub_okb in He; cbn [fst snd] in He;
    unfold_h; unfold write_u; repeat rewrite <- app_assoc; cbn [app].
  - apply andb_prop in He. destruct He as [He Hl]. apply andb_prop in He. destruct He as [He Hc].
    apply andb_prop in He. destruct He as [Ha Hb]. apply N.ltb_lt in Ha, Hb, Hc, Hl.
    rewrite !bind_assoc.
    rewrite (ubits_small 32 32) by (cbn; lia). rewrite bind_assoc.
    rewrite (ubits_small 32 32) by (cbn; lia). rewrite bind_assoc.
    rewrite (ubits_small 32 24) by (cbn; lia). rewrite bind_ret.
    rewrite bind_assoc. rewrite (ubits_small 8 8) by (cbn; lia). rewrite bind_ret.
    now apply IH.
  - apply andb_prop in He. destruct He as [He _]. apply andb_prop in He. destruct He as [He Hc].
    apply andb_prop in He. destruct He as [Ha Hb]. apply N.ltb_lt in Ha, Hb, Hc.
    rewrite !bind_assoc.
    rewrite (ubits_small 32 32) by (cbn; lia). rewrite bind_assoc.
    rewrite (ubits_small 32 32) by (cbn; lia). rewrite bind_assoc.
    rewrite (ubits_small 32 24) by (cbn; lia). rewrite !bind_ret.
    now apply IH.
  - apply andb_prop in He. destruct He as [_ Hl]. apply N.ltb_lt in Hl.
    rewrite bind_ret. rewrite bind_assoc. rewrite (ubits_small 8 8) by (cbn; lia). rewrite bind_ret.
    now apply IH.
  - rewrite !bind_ret. now apply IH.
Qed.

Lemma parse_ptl_ok p r lg :
  ptl_okb p = true ->
  exists lg', parse_ptl (lenN (pt_subs p)) (st (enc_ptl p ++ r), lg) = Ok (Some tt, (st r, lg')).
Proof.
  intro Hok. unfold ptl_okb in Hok.
  apply andb_prop in Hok. destruct Hok as [Hok Hsubs].
  apply andb_prop in Hok. destruct Hok as [Hok Hlen].
  apply andb_prop in Hok. destruct Hok as [Hok Hlvl].
  apply andb_prop in Hok. destruct Hok as [Hok Hcon].
  apply andb_prop in Hok. destruct Hok as [Hok Hcom].
  apply andb_prop in Hok. destruct Hok as [Hsp Hpi].
  apply N.ltb_lt in Hsp, Hpi, Hcom, Hcon, Hlvl. apply Nat.leb_le in Hlen.
  unfold parse_ptl, enc_ptl. cbv zeta. unfold_h. unfold write_u. repeat rewrite <- app_assoc.
  rewrite (ubits_small 8 2) by (cbn; lia).
  cbn [app]. rewrite (uflag 8) by lia.
  rewrite (ubits_small 8 5) by (cbn; lia).
  rewrite (ubits_small 32 32) by (cbn; lia).
  rewrite (ubits_small 64 48) by (cbn; lia).
  rewrite (ubits_small 8 8) by (cbn; lia).
  destruct (update_ptl_total (pt_space p) (N.b2n (pt_tier p)) (pt_profile_idc p) (pt_compat p) (pt_constraint p)
              (pt_level p) (st (concat (map (fun e => [match fst e with Some _ => true | None => false end;
                                match snd e with Some _ => true | None => false end]) (pt_subs p)) ++
        (if Nat.eqb (length (pt_subs p)) 0 then [] else concat (repeat (bits_of_val 2 0) (8 - length (pt_subs p)))) ++
        concat (map (fun e =>
           (match fst e with Some (a, b, c) => bits_of_val 32 a ++ bits_of_val 32 b ++ bits_of_val 24 c | None => [] end)
           ++ (match snd e with Some l => bits_of_val 8 l | None => [] end)) (pt_subs p)) ++ r)) lg) as [lg' Hup].
  rewrite (bind_ok _ _ _ _ _ Hup).
  exists lg'.
  destruct (pt_subs p) as [|e subs] eqn:Es.
  - reflexivity.
  - replace (lenN (e :: subs) =? 0) with false by (symmetry; apply N.eqb_neq; unfold lenN; cbn [length]; lia).
    replace (N.to_nat (lenN (e :: subs))) with (length (e :: subs)) by (unfold lenN; lia).
    rewrite (bind_ok _ _ _ _ _ (ptl_flags_ok (e :: subs) _ lg')).
    replace (Nat.eqb (length (e :: subs)) 0) with false by reflexivity.
    fold (write_u 2 0).
    rewrite (bind_ok _ _ _ _ _ (ptl_skip2_ok (8 - length (e :: subs)) _ lg')).
    apply ptl_sub_ok. exact Hsubs.
Qed.

(* ---------- ue(v) runs that ParseSps skips ---------- *)
Lemma skip_ue_ok : forall (l : list N) r lg,
  forallb hue_okb l = true -> r <> [] ->
  skip_ue (length l) (st (concat (map write_ue l) ++ r), lg) = Ok (Some tt, (st r, lg)).
Proof.
  induction l as [|v l IH]; intros r lg Hok Hr; [reflexivity|].
  cbn [forallb] in Hok. apply andb_prop in Hok. destruct Hok as [Hv Hok]. apply N.ltb_lt in Hv.
  cbn [length skip_ue map concat]. rewrite <- app_assoc. unfold_h.
  rewrite uue by (try lia; ne). now apply IH.
Qed.

Definition flat3 (o : list (N * N * N)) : list N := flat_map (fun e => let '(a, b, c) := e in [a; b; c]) o.

Lemma flat3_enc o : concat (map enc_ue3 o) = concat (map write_ue (flat3 o)).
Proof.
  induction o as [|[[a b] c] o IH]; [reflexivity|].
  cbn [map concat flat3 flat_map enc_ue3 app]. rewrite IH. unfold flat3.
  repeat rewrite <- app_assoc. reflexivity.
Qed.

Lemma flat3_len o : length (flat3 o) = (3 * length o)%nat.
Proof. induction o as [|[[a b] c] o IH]; [reflexivity|]. cbn [flat3 flat_map length app] in *. unfold flat3 in IH. lia. Qed.

Lemma flat3_ok o :
  forallb (fun e => let '(a, b, c) := e in hue_okb a && hue_okb b && hue_okb c) o = true ->
  forallb hue_okb (flat3 o) = true.
Proof.
  induction o as [|[[a b] c] o IH]; intro H; [reflexivity|].
  cbn [forallb] in H. apply andb_prop in H. destruct H as [H1 H]. apply andb_prop in H1. destruct H1 as [H1 Hc].
  apply andb_prop in H1. destruct H1 as [Ha Hb].
  cbn [flat3 flat_map app forallb]. rewrite Ha, Hb, Hc. cbn [andb]. now apply IH.
Qed.

(* ---------- ParseSps body on the encoder's output ---------- *)
Definition win_n (s : hevc_sps_syntax) : N * N * N * N :=
  match hs_conf_win s with Some c => c | None => (0, 0, 0, 0) end.
Definition hevc_out_w (s : hevc_sps_syntax) : N :=
  let '(l, r, t, b) := win_n s in
  let cat := hspec_chroma_array_type s in
  wrap32 (Z.of_N (hs_width s) - (if (cat =? 1) || (cat =? 2) then 2%Z else 1%Z) * (Z.of_N l + Z.of_N r)).
Definition hevc_out_h (s : hevc_sps_syntax) : N :=
  let '(l, r, t, b) := win_n s in
  let cat := hspec_chroma_array_type s in
  wrap32 (Z.of_N (hs_height s) - (if cat =? 1 then 2%Z else 1%Z) * (Z.of_N t + Z.of_N b)).

Lemma hevc_cat_eq s :
  (if (if hs_chroma_format_idc s =? 3 then N.b2n (hs_separate_planes s) else 0) =? 0
   then hs_chroma_format_idc s else 0) = hspec_chroma_array_type s.
Proof.
  unfold hspec_chroma_array_type.
  destruct (hs_chroma_format_idc s =? 3); [|reflexivity]. destruct (hs_separate_planes s); reflexivity.
Qed.

Lemma hevc_body_ok s pad c0 :
  hevc_sps_ok s ->
  exists lg,
    parse_sps_hevc_body (st (encode_hevc_sps s ++ pad), c0)
    = Ok (Some tt, (st ((hs_tail s ++ [true]) ++ pad),
                    (H_bdc, hs_bit_depth_chroma_minus8 s mod 256) :: (H_bdl, hs_bit_depth_luma_minus8 s mod 256)
                    :: (H_outh, hevc_out_h s) :: (H_outw, hevc_out_w s)
                    :: (H_height, hs_height s) :: (H_width, hs_width s) :: lg)).
Proof.
  intro Hok. unfold hevc_sps_ok, hevc_sps_okb in Hok.
  apply andb_prop in Hok. destruct Hok as [Hok Hsh]. apply andb_prop in Hok. destruct Hok as [Hok Hsw].
  apply andb_prop in Hok. destruct Hok as [Hok Hcb]. apply andb_prop in Hok. destruct Hok as [Hok Hcbl].
  apply andb_prop in Hok. destruct Hok as [Hok Hord]. apply andb_prop in Hok. destruct Hok as [Hok Hordl].
  apply andb_prop in Hok. destruct Hok as [Hok Hpoc]. apply andb_prop in Hok. destruct Hok as [Hok Hbdc].
  apply andb_prop in Hok. destruct Hok as [Hok Hbdl]. apply andb_prop in Hok. destruct Hok as [Hok Hwin].
  apply andb_prop in Hok. destruct Hok as [Hok Hh]. apply andb_prop in Hok. destruct Hok as [Hok Hw].
  apply andb_prop in Hok. destruct Hok as [Hok Hcf]. apply andb_prop in Hok. destruct Hok as [Hok Hid].
  apply andb_prop in Hok. destruct Hok as [Hvid Hptl].
  apply N.ltb_lt in Hvid, Hw, Hh. apply N.leb_le in Hid, Hcf, Hbdl, Hbdc, Hpoc.
  apply Nat.eqb_eq in Hordl, Hcbl.
  assert (Hmax : hs_max_sub s < 8).
  { unfold hs_max_sub, lenN. unfold ptl_okb in Hptl. apply andb_prop in Hptl. destruct Hptl as [Hptl _].
    apply andb_prop in Hptl. destruct Hptl as [_ Hl]. apply Nat.leb_le in Hl. lia. }
  unfold parse_sps_hevc_body, encode_hevc_sps. unfold_h. unfold write_u. repeat rewrite <- app_assoc.
  rewrite (ubits_small 8 4) by (cbn; lia).
  rewrite (ubits_small 8 3) by (cbn; lia).
  match goal with |- context [g_bind (bump_ntl ?m) ?k (?s, ?l)] =>
    destruct (bump_ntl_total m s l) as [lg1 H1]; rewrite (bind_ok _ _ _ _ _ H1) end.
  cbn [app]. rewrite (uflag 8) by lia. rewrite uset.
  match goal with |- context [g_bind (parse_ptl _) ?k (st (enc_ptl ?p ++ ?r), ?l)] =>
    destruct (parse_ptl_ok p r l Hptl) as [lg2 H2]; unfold hs_max_sub; rewrite (bind_ok _ _ _ _ _ H2) end.
  rewrite uue by (try lia; ne).
  rewrite uue by (try lia; ne). rewrite uset.
  rewrite (N.mod_small (hs_chroma_format_idc s) 256) by lia.
  assert (Hsep : forall (k : N -> gm unit) r' lg',
    g_bind (if hs_chroma_format_idc s =? 3 then g_read (read_bits 8 1) else g_ret 0) k
      (st ((if hs_chroma_format_idc s =? 3 then [hs_separate_planes s] else []) ++ r'), lg')
    = k (if hs_chroma_format_idc s =? 3 then N.b2n (hs_separate_planes s) else 0) (st r', lg')).
  { intros k r' lg'. destruct (hs_chroma_format_idc s =? 3); [|reflexivity].
    cbn [app]. now rewrite (uflag 8) by lia. }
  rewrite Hsep.
  rewrite uue by (try lia; ne). rewrite uset.
  rewrite uue by (try lia; ne). rewrite uset.
  set (sepv := if hs_chroma_format_idc s =? 3 then N.b2n (hs_separate_planes s) else 0).
  assert (Hwin' : forall (k : N * N * N * N -> gm unit) r' lg', r' <> [] ->
    g_bind (g_read (read_bits 8 1)) (fun cw =>
      g_bind (if negb (cw =? 0) then
                do* l <- g_read read_ue; do* r <- g_read read_ue; do* t <- g_read read_ue; do* b <- g_read read_ue;
                g_ret (l, r, t, b)
              else g_ret (0, 0, 0, 0)) k)
      (st (enc_conf_win (hs_conf_win s) ++ r'), lg')
    = k (match hs_conf_win s with Some c => c | None => (0, 0, 0, 0) end) (st r', lg')).
  { intros k r' lg' Hr'. destruct (hs_conf_win s) as [[[[l r] t] b]|]; cbn [enc_conf_win app].
    - apply andb_prop in Hwin. destruct Hwin as [Hwin Hb']. apply andb_prop in Hwin. destruct Hwin as [Hwin Ht'].
      apply andb_prop in Hwin. destruct Hwin as [Hl' Hr'']. apply N.ltb_lt in Hl', Hr'', Ht', Hb'.
      rewrite (uflag 8) by lia. cbn [N.b2n N.eqb negb]. repeat rewrite <- app_assoc.
      rewrite bind_assoc. rewrite uue by (try lia; ne).
      rewrite bind_assoc. rewrite uue by (try lia; ne).
      rewrite bind_assoc. rewrite uue by (try lia; ne).
      rewrite bind_assoc. rewrite uue by (try lia; ne).
      reflexivity.
    - rewrite (uflag 8) by lia. reflexivity. }
  rewrite Hwin' by ne.
  fold (win_n s). set (win := win_n s).
  assert (Eout : forall lg',
     (let '(l, r, t, b) := win in
      let cat := if sepv =? 0 then hs_chroma_format_idc s else 0 in
      let subw := if (cat =? 1) || (cat =? 2) then 2%Z else 1%Z in
      let subh := if cat =? 1 then 2%Z else 1%Z in
      do* _ <- g_set H_outw (wrap32 (Z.of_N (hs_width s) - subw * (Z.of_N l + Z.of_N r)));
      do* _ <- g_set H_outh (wrap32 (Z.of_N (hs_height s) - subh * (Z.of_N t + Z.of_N b)));
      do* bdl <- g_read read_ue;
      do* _ <- g_set H_bdl (bdl mod 256);
      do* bdc <- g_read read_ue;
      do* _ <- g_set H_bdc (bdc mod 256);
      do* _ <- g_read read_ue;
      do* ord <- g_read (read_bits 8 1);
      do* _ <- skip_ue (3 * (if negb (ord =? 0) then N.to_nat (lenN (pt_subs (hs_ptl s))) + 1 else 1));
      skip_ue 6)
       (st (write_ue (hs_bit_depth_luma_minus8 s) ++ write_ue (hs_bit_depth_chroma_minus8 s) ++
            write_ue (hs_log2_max_poc_lsb_minus4 s) ++ [hs_ordering_present s] ++
            concat (map enc_ue3 (hs_ordering s)) ++ concat (map write_ue (hs_cb_tb s)) ++ hs_tail s ++ [true] ++ pad), lg')
     = Ok (Some tt, (st ((hs_tail s ++ [true]) ++ pad),
                     (H_bdc, hs_bit_depth_chroma_minus8 s mod 256) :: (H_bdl, hs_bit_depth_luma_minus8 s mod 256)
                     :: (H_outh, hevc_out_h s) :: (H_outw, hevc_out_w s) :: lg'))).
  { intro lg'.
    unfold hevc_out_w, hevc_out_h. fold win. subst sepv. rewrite hevc_cat_eq.
    destruct win as [[[l r] t] b]. cbv zeta.
    rewrite !uset.
    rewrite uue by (try lia; ne). rewrite uset.
    rewrite uue by (try lia; ne). rewrite uset.
    rewrite uue by (try lia; ne).
    cbn [app]. rewrite (uflag 8) by lia.
    rewrite flat3_enc.
    replace (3 * (if negb (N.eqb (N.b2n (hs_ordering_present s)) 0%N) then (N.to_nat (lenN (pt_subs (hs_ptl s))) + 1)%nat else 1%nat))%nat
      with (length (flat3 (hs_ordering s))).
    2:{ rewrite flat3_len, Hordl. unfold lenN. destruct (hs_ordering_present s); cbn [N.b2n N.eqb negb]; lia. }
    erewrite bind_ok; [|apply skip_ue_ok; [apply flat3_ok; exact Hord|ne]].
    rewrite <- Hcbl.
    replace (hs_tail s ++ true :: pad) with ((hs_tail s ++ [true]) ++ pad) by (rewrite <- app_assoc; reflexivity).
    rewrite skip_ue_ok; [reflexivity|assumption|].
    intro E. apply app_eq_nil in E. destruct E as [E _]. apply app_eq_nil in E. destruct E as [_ E]. discriminate. }
  eexists. unfold lenN in *. rewrite Eout. rewrite <- app_assoc. reflexivity.
Qed.

(* ---------- hevc.ParseSps on the NAL unit of the encoder model ---------- *)
Lemma wrap32_small_h z : (0 <= z < 4294967296)%Z -> Z.of_N (wrap32 z) = z.
Proof. intro H. unfold wrap32. rewrite Z.mod_small by lia. lia. Qed.

Theorem dims_hevc s c0 :
  hevc_sps_ok s ->
  exists c,
    hevc_parse_sps (hevc_sps_nal s) c0 = Ok c /\
    sps_get H_width c = hs_width s /\ sps_get H_height c = hs_height s /\
    Z.of_N (sps_get H_outw c) = hspec_width s /\ Z.of_N (sps_get H_outh c) = hspec_height s.
Proof.
  intro Hok. unfold hevc_parse_sps, hevc_parse_sps_f, hevc_run, hevc_sps_nal.
  replace (lenN (66 :: 1 :: epb_insert (bytes_of_bits (encode_hevc_sps s))) <? 2) with false.
  2:{ symmetry. apply N.ltb_ge. unfold lenN. cbn [length]. lia. }
  cbn [skipn]. rewrite nal2rbsp_epb. unfold br_new.
  (* the zero byte ParseSps appends to the RBSP copy is more trailing data *)
  rewrite bits_of_bytes_app.
  destruct (bits_of_bytes_of_bits (encode_hevc_sps s)) as [pad Hpad]. rewrite Hpad, <- app_assoc.
  destruct (hevc_body_ok s (pad ++ bits_of_bytes [0]) c0 Hok) as [lg Hbody].
  fold (st (encode_hevc_sps s ++ pad ++ bits_of_bytes [0])). rewrite Hbody. cbn [snd].
  eexists. split; [reflexivity|]. split; [reflexivity|]. split; [reflexivity|].
  cbn [sps_get N.eqb Pos.eqb H_outw H_outh H_bdc H_bdl].
  (* sizes *)
  unfold hevc_sps_ok, hevc_sps_okb in Hok.
  apply andb_prop in Hok. destruct Hok as [Hok Hsh]. apply andb_prop in Hok. destruct Hok as [Hok Hsw].
  apply Z.ltb_lt in Hsh, Hsw.
  do 8 (apply andb_prop in Hok; destruct Hok as [Hok _]).
  apply andb_prop in Hok. destruct Hok as [Hok Hh]. apply andb_prop in Hok. destruct Hok as [Hok Hw].
  apply N.ltb_lt in Hw, Hh. clear Hok.
  unfold hevc_out_w, hevc_out_h, win_n, hspec_width, hspec_height, hspec_win, hspec_sub_width_c, hspec_sub_height_c in *.
  destruct (hs_conf_win s) as [[[[l r] t] b]|].
  - split; (rewrite wrap32_small_h; [reflexivity|]).
    + destruct ((hspec_chroma_array_type s =? 1) || (hspec_chroma_array_type s =? 2)); lia.
    + destruct (hspec_chroma_array_type s =? 1); lia.
  - split; (rewrite wrap32_small_h; [lia|]).
    + destruct ((hspec_chroma_array_type s =? 1) || (hspec_chroma_array_type s =? 2)); lia.
    + destruct (hspec_chroma_array_type s =? 1); lia.
Qed.
