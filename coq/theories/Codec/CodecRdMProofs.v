(* Symbolic execution of the reader monad on written fields. *)
From Lal Require Import Common.LBytes Common.Res Codec.CodecBits Codec.CodecGolomb Codec.CodecRdM
  Codec.CodecGolombProofs.
From Coq Require Import Lia ZifyN ZifyNat ZifyBool.
Open Scope N_scope.

Ltac ne := repeat (first [ assumption | discriminate | apply app_ne_r ]).

Lemma bind_ret {A B} (a : A) (k : A -> gm B) s : g_bind (g_ret a) k s = k a s.
Proof. reflexivity. Qed.

Lemma bind_set {B} f v (k : unit -> gm B) s lg : g_bind (g_set f v) k (s, lg) = k tt (s, (f, v) :: lg).
Proof. reflexivity. Qed.

Lemma bind_get {B} f (k : N -> gm B) s lg : g_bind (g_get f) k (s, lg) = k (sps_get f lg) (s, lg).
Proof. reflexivity. Qed.

Lemma bind_check_err {B} (k : unit -> gm B) l lg : g_bind g_check_err k (st l, lg) = k tt (st l, lg).
Proof. reflexivity. Qed.

Lemma bind_assoc {A B C} (m : gm A) (k : A -> gm B) (k2 : B -> gm C) s :
  g_bind (g_bind m k) k2 s = g_bind m (fun a => g_bind (k a) k2) s.
Proof. unfold g_bind. destruct (m s) as [[[a|] s']|e|p]; reflexivity. Qed.

Section Reads.
Context {B : Type}.

Lemma bind_bits w n v r lg (k : N -> gm B) :
  (0 < n)%nat -> N.of_nat n <= w ->
  g_bind (g_read (read_bits w n)) k (st (bits_of_val n v ++ r), lg) = k (v mod 2 ^ N.of_nat n) (st r, lg).
Proof.
  intros Hn Hw. unfold g_bind, g_read. cbn [fst snd]. now rewrite read_bits_written_mod.
Qed.

Lemma bind_bits_small w n v r lg (k : N -> gm B) :
  (0 < n)%nat -> N.of_nat n <= w -> v < 2 ^ N.of_nat n ->
  g_bind (g_read (read_bits w n)) k (st (bits_of_val n v ++ r), lg) = k v (st r, lg).
Proof. intros Hn Hw Hv. rewrite bind_bits by assumption. now rewrite N.mod_small. Qed.

Lemma bind_flag w (b : bool) r lg (k : N -> gm B) :
  1 <= w -> g_bind (g_read (read_bits w 1)) k (st (b :: r), lg) = k (N.b2n b) (st r, lg).
Proof. intro Hw. unfold g_bind, g_read. cbn [fst snd]. now rewrite read_flag_written. Qed.

Lemma bind_flag_ign w (b : bool) r lg (k : N -> gm B) :
  1 <= w -> g_bind (g_read_ign 0 (read_bits w 1)) k (st (b :: r), lg) = k (N.b2n b) (st r, lg).
Proof. intro Hw. unfold g_bind, g_read_ign. cbn [fst snd]. now rewrite read_flag_written. Qed.

Lemma bind_ue v r lg (k : N -> gm B) :
  v + 1 < 4294967296 -> r <> [] ->
  g_bind (g_read read_ue) k (st (write_ue v ++ r), lg) = k v (st r, lg).
Proof. intros Hv Hr. unfold g_bind, g_read. cbn [fst snd]. now rewrite read_ue_written. Qed.

Lemma bind_ue_ign v r lg (k : N -> gm B) :
  v + 1 < 4294967296 -> r <> [] ->
  g_bind (g_read_ign 0 read_ue) k (st (write_ue v ++ r), lg) = k v (st r, lg).
Proof. intros Hv Hr. unfold g_bind, g_read_ign. cbn [fst snd]. now rewrite read_ue_written. Qed.

Lemma bind_se z r lg (k : Z -> gm B) :
  (- 2147483648 < z < 2147483648)%Z -> r <> [] ->
  g_bind (g_read read_se) k (st (write_se z ++ r), lg) = k (se_of_ue (ue_of_se z)) (st r, lg).
Proof. intros Hz Hr. unfold g_bind, g_read. cbn [fst snd]. now rewrite read_se_written. Qed.

Lemma bind_se_ign z r lg (k : Z -> gm B) :
  (- 2147483648 < z < 2147483648)%Z -> r <> [] ->
  g_bind (g_read_ign 0%Z read_se) k (st (write_se z ++ r), lg) = k (se_of_ue (ue_of_se z)) (st r, lg).
Proof. intros Hz Hr. unfold g_bind, g_read_ign. cbn [fst snd]. now rewrite read_se_written. Qed.
End Reads.

(* the instances at unit (the continuation type of every parser here) *)
Definition ubits := @bind_bits unit.
Definition ubits_small := @bind_bits_small unit.
Definition uflag := @bind_flag unit.
Definition uflag_ign := @bind_flag_ign unit.
Definition uue := @bind_ue unit.
Definition uue_ign := @bind_ue_ign unit.
Definition use := @bind_se unit.
Definition use_ign := @bind_se_ign unit.
Definition uset := @bind_set unit.
Definition uget := @bind_get unit.
Definition ucheck := @bind_check_err unit.

(* lookup in an extended log *)
Definition keys_in (ks : list N) (a : spslog) : bool :=
  forallb (fun p => existsb (N.eqb (fst p)) ks) a.

Lemma sps_get_skip f ks a b :
  keys_in ks a = true -> existsb (N.eqb f) ks = false -> sps_get f (a ++ b) = sps_get f b.
Proof.
  intros Ha Hf. induction a as [|[g v] a IH]; [reflexivity|].
  cbn [keys_in forallb fst] in Ha. apply andb_prop in Ha. destruct Ha as [Hg Ha].
  cbn [app sps_get]. destruct (N.eqb_spec g f) as [->|Hne].
  - rewrite Hf in Hg. discriminate.
  - apply IH. exact Ha.
Qed.

Lemma keys_in_app ks a b : keys_in ks (a ++ b) = keys_in ks a && keys_in ks b.
Proof. unfold keys_in. apply forallb_app. Qed.
