(* WRITER side of the bit-level syntax, from the specifications (H.264 9.1
   Exp-Golomb codes, 7.4.1 emulation prevention): used only by the encoder
   models that the theorems quantify over, never by the lal models.  No proofs. *)
From Lal Require Export Codec.CodecBits.
Open Scope N_scope.

(* ue(v): codeNum v is written as N zero bits followed by the (N+1)-bit binary
   representation of v+1, N = floor(log2(v+1)) *)
Definition ue_len (v : N) : nat := N.to_nat (N.log2 (v + 1)).
Definition write_ue (v : N) : bits :=
  let n := N.to_nat (N.log2 (v + 1)) in repeat false n ++ bits_of_val (S n) (v + 1).

(* se(v): k > 0 -> codeNum 2k-1, k <= 0 -> codeNum -2k   (Table 9-3) *)
Definition ue_of_se (z : Z) : N := if (0 <? z)%Z then Z.to_N (2 * z - 1) else Z.to_N (- 2 * z).
Definition write_se (z : Z) : bits := write_ue (ue_of_se z).

(* u(n) / flag *)
Definition write_u (n : nat) (v : N) : bits := bits_of_val n v.

(* emulation prevention (7.4.1): within the NAL unit payload a byte <= 3 that
   follows two zero bytes is preceded by an emulation_prevention_three_byte.
   z = number of zero bytes just written (saturating at 2) *)
Fixpoint epb_insert_z (z : nat) (l : bytes) : bytes :=
  match l with
  | [] => []
  | b :: t =>
    if Nat.leb 2 z && (b <=? 3)
    then 3 :: b :: epb_insert_z (if b =? 0 then 1%nat else 0%nat) t
    else b :: epb_insert_z (if b =? 0 then S z else 0%nat) t
  end.
Definition epb_insert (l : bytes) : bytes := epb_insert_z 0 l.
