(* Sequence headers with several parameter sets: lal's list parser and its
   Annex-B conversion return EVERY set of an ISO/IEC 14496-15 record, in
   order, byte for byte - for every number of sets the record can express. *)
From Lal Require Import Common.LBytes Common.LBytesProofs Common.Res
  Codec.CodecBits Codec.CodecAvcSeqHeader Codec.CodecHevcSeqHeader Codec.CodecSeqHeaderMulti.
From Coq Require Import Lia ZifyN ZifyNat ZifyBool.
Ltac Zify.zify_post_hook ::= Z.div_mod_to_equations.
Open Scope N_scope.

Definition set_ok (x : bytes) : Prop := lenN x < 65536.

Lemma read_ps_list_entries l rest :
  Forall set_ok l ->
  read_ps_list (length l) (ps_entries l ++ rest) = Ok (l, rest).
Proof.
  induction l as [|x l IH]; intro H.
  - reflexivity.
  - inversion H as [|? ? Hx Hl]; subst. specialize (IH Hl).
    unfold ps_entries in *. cbn [map concat length read_ps_list].
    unfold ps_entry at 1. rewrite <- !app_assoc.
    rewrite (split_exact_app_n 2 (be_put 2 (lenN x))) by (now rewrite be_put_length).
    rewrite be_get_put_small by (unfold set_ok in Hx; cbn; lia).
    rewrite split_exactN_app. rewrite IH. reflexivity.
Qed.

Lemma land31_count n : (n < 32)%nat -> N.land (224 + N.of_nat n) 31 = N.of_nat n.
Proof.
  intro H. change 31 with (N.ones 5). rewrite N.land_ones. change (2 ^ 5) with 32. lia.
Qed.

Lemma avc_multi_parse_list prof compat lvl spss ppss :
  (length spss < 32)%nat -> (length ppss < 256)%nat ->
  Forall set_ok spss -> Forall set_ok ppss ->
  avc_parse_seq_header_list (avc_record_multi prof compat lvl spss ppss) = Ok (spss, ppss).
Proof.
  intros Hns Hnp Hs Hp. unfold avc_parse_seq_header_list, avc_record_multi.
  set (tail := ps_entries spss ++ [N.of_nat (length ppss)] ++ ps_entries ppss).
  cbn [app nth_or0 nth].
  replace (lenN _ <? 5) with false
    by (symmetry; apply N.ltb_ge; unfold lenN; cbn [length]; lia).
  cbn [N.eqb Pos.eqb andb negb].
  unfold split_exact. cbn [length Nat.leb firstn skipn].
  rewrite land31_count by assumption. rewrite Nat2N.id.
  subst tail. rewrite (read_ps_list_entries spss _ Hs). cbn [bind app].
  rewrite Nat2N.id.
  rewrite <- (app_nil_r (ps_entries ppss)). rewrite (read_ps_list_entries ppss [] Hp).
  reflexivity.
Qed.

(* SpsPpsSeqHeader2Annexb: a start code in front of every set, nothing lost, nothing added *)
Lemma avc_multi_annexb prof compat lvl spss ppss :
  (length spss < 32)%nat -> (length ppss < 256)%nat ->
  Forall set_ok spss -> Forall set_ok ppss ->
  avc_seq_header2annexb (avc_record_multi prof compat lvl spss ppss)
  = Ok (annexb_join4 spss ++ annexb_join4 ppss).
Proof.
  intros. unfold avc_seq_header2annexb. rewrite avc_multi_parse_list by assumption. reflexivity.
Qed.

Lemma annexb_join4_length l :
  lenN (annexb_join4 l) = 4 * N.of_nat (length l) + lenN (concat l).
Proof.
  unfold annexb_join4, lenN. induction l as [|x l IH]; [reflexivity|].
  cbn [map concat length]. rewrite !app_length. cbn [start_code4 length]. lia.
Qed.

Lemma ps_entries_length l :
  lenN (ps_entries l) = 2 * N.of_nat (length l) + lenN (concat l).
Proof.
  unfold ps_entries, lenN. induction l as [|x l IH]; [reflexivity|].
  cbn [map concat length]. unfold ps_entry at 1. rewrite !app_length, be_put_length. lia.
Qed.

(* the Annex-B form is LONGER than the record from seven sets on: a buffer of len(payload) bytes cannot hold it *)
Lemma avc_multi_annexb_longer prof compat lvl spss ppss :
  (7 <= length spss + length ppss)%nat ->
  lenN (avc_record_multi prof compat lvl spss ppss) < lenN (annexb_join4 spss ++ annexb_join4 ppss).
Proof.
  intro H. unfold avc_record_multi.
  assert (E : forall a b : bytes, lenN (a ++ b) = lenN a + lenN b)
    by (intros; unfold lenN; rewrite app_length; lia).
  rewrite !E, !annexb_join4_length, !ps_entries_length. unfold lenN. cbn [length]. lia.
Qed.
