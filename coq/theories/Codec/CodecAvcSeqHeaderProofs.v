(* Round trip of the AVC sequence header (AVCDecoderConfigurationRecord). *)
From Lal Require Import Common.LBytes Common.LBytesProofs Common.Res
  Codec.CodecBits Codec.CodecRdM Codec.CodecSpsAvc Codec.CodecAvcSeqHeader.
From Coq Require Import Lia ZifyN ZifyNat ZifyBool.
Ltac Zify.zify_post_hook ::= Z.div_mod_to_equations.
Open Scope N_scope.

Lemma len16_recompose n : n < 65536 -> (n / 256) mod 256 * 256 + n mod 256 = n.
Proof. intro H. lia. Qed.

Lemma firstn_app_exact {A} (a b : list A) n : n = length a -> firstn n (a ++ b) = a.
Proof. intros ->. rewrite firstn_app, Nat.sub_diag, firstn_all, firstn_O. apply app_nil_r. Qed.

Lemma skipn_app_exact {A} (a b : list A) n : n = length a -> skipn n (a ++ b) = b.
Proof. intros ->. rewrite skipn_app, Nat.sub_diag, skipn_all, skipn_O. reflexivity. Qed.

(* the header as a function of profile / level *)
Definition avc_header (prof lvl : N) (sps pps : bytes) : bytes :=
  [23; 0; 0; 0; 0; 1; prof; 0; lvl; 255; 225; (lenN sps / 256) mod 256; lenN sps mod 256]
  ++ sps ++ [1; (lenN pps / 256) mod 256; lenN pps mod 256] ++ pps.

Lemma avc_build_shape sps pps h :
  avc_build_seq_header sps pps = Ok h ->
  exists ctx, parse_sps_avc sps = Ok ctx /\ h = avc_header (ac_profile ctx) (ac_level ctx) sps pps.
Proof.
  unfold avc_build_seq_header, bind. destruct (parse_sps_avc sps) as [ctx|e|p]; try discriminate.
  intro H; inversion H; subst. exists ctx. split; reflexivity.
Qed.

Lemma avc_build_ok_iff sps pps :
  (exists h, avc_build_seq_header sps pps = Ok h) <-> (exists ctx, parse_sps_avc sps = Ok ctx).
Proof.
  unfold avc_build_seq_header, bind. split.
  - intros [h H]. destruct (parse_sps_avc sps) as [ctx|e|p]; try discriminate. now exists ctx.
  - intros [ctx H]. rewrite H. eexists; reflexivity.
Qed.

Lemma avc_header_len prof lvl sps pps :
  lenN (avc_header prof lvl sps pps) = 16 + lenN sps + lenN pps.
Proof.
  unfold avc_header, lenN. cbn [app length]. rewrite !app_length. cbn [length]. lia.
Qed.

Lemma avc_parse_header prof lvl sps pps :
  lenN sps < 65536 -> lenN pps < 65536 ->
  avc_parse_seq_header (avc_header prof lvl sps pps) = Ok (sps, pps).
Proof.
  intros Hs Hp. unfold avc_parse_seq_header.
  set (p := avc_header prof lvl sps pps).
  assert (Hlen : lenN p = 16 + lenN sps + lenN pps) by apply avc_header_len.
  assert (H0 : nth_or0 0 p = 23) by reflexivity.
  assert (H1 : nth_or0 1 p = 0) by reflexivity.
  assert (H2 : nth_or0 2 p = 0) by reflexivity.
  assert (H3 : nth_or0 3 p = 0) by reflexivity.
  assert (H4 : nth_or0 4 p = 0) by reflexivity.
  assert (H10 : nth_or0 10 p = 225) by reflexivity.
  assert (H11 : nth_or0 11 p = (lenN sps / 256) mod 256) by reflexivity.
  assert (H12 : nth_or0 12 p = lenN sps mod 256) by reflexivity.
  assert (Hskip : skipn 13 p = sps ++ [1; (lenN pps / 256) mod 256; lenN pps mod 256] ++ pps) by reflexivity.
  rewrite Hlen, H0, H1, H2, H3, H4, H10, H11, H12, Hskip.
  rewrite (len16_recompose _ Hs).
  rewrite (skipn_app_exact sps) by (unfold lenN; now rewrite Nat2N.id).
  rewrite (firstn_app_exact sps) by (unfold lenN; now rewrite Nat2N.id).
  cbn [app nth_or0 nth skipn].
  rewrite (len16_recompose _ Hp).
  rewrite firstn_all2 by (unfold lenN; rewrite Nat2N.id; lia).
  change (N.land 225 31) with 1.
  cbn [N.eqb Pos.eqb andb negb].
  replace (16 + lenN sps + lenN pps <? 13) with false by (symmetry; apply N.ltb_ge; lia).
  replace (16 + lenN sps + lenN pps <? 13 + lenN sps) with false by (symmetry; apply N.ltb_ge; lia).
  replace (16 + lenN sps + lenN pps <? 16 + lenN sps) with false by (symmetry; apply N.ltb_ge; lia).
  replace (16 + lenN sps + lenN pps <? 16 + lenN sps + lenN pps) with false by (symmetry; apply N.ltb_ge; lia).
  reflexivity.
Qed.

(* parse (build sps pps) = (sps, pps) for every parameter-set length the
   record can express *)
Lemma avc_seq_header_roundtrip sps pps h :
  lenN sps < 65536 -> lenN pps < 65536 ->
  avc_build_seq_header sps pps = Ok h ->
  avc_parse_seq_header h = Ok (sps, pps).
Proof.
  intros Hs Hp Hb. apply avc_build_shape in Hb. destruct Hb as (ctx & _ & ->).
  now apply avc_parse_header.
Qed.

(* the list parser / Annex-B conversion on the same header *)
Lemma read_ps_list_one item r :
  lenN item < 65536 ->
  read_ps_list 1 ([(lenN item / 256) mod 256; lenN item mod 256] ++ item ++ r) = Ok ([item], r).
Proof.
  intro H. cbn [read_ps_list app]. unfold split_exact. cbn [length Nat.leb firstn skipn].
  unfold be_get. cbn [be_get_acc].
  replace (0 * 256 + (lenN item / 256) mod 256) with ((lenN item / 256) mod 256) by lia.
  rewrite (len16_recompose _ H). rewrite split_exactN_app. reflexivity.
Qed.

Lemma avc_parse_list_header prof lvl sps pps :
  lenN sps < 65536 -> lenN pps < 65536 ->
  avc_parse_seq_header_list (avc_header prof lvl sps pps) = Ok ([sps], [pps]).
Proof.
  intros Hs Hp. unfold avc_parse_seq_header_list.
  set (p := avc_header prof lvl sps pps).
  assert (Hlen : lenN p = 16 + lenN sps + lenN pps) by apply avc_header_len.
  assert (H0 : nth_or0 0 p = 23) by reflexivity.
  assert (H1 : nth_or0 1 p = 0) by reflexivity.
  assert (H2 : nth_or0 2 p = 0) by reflexivity.
  assert (H3 : nth_or0 3 p = 0) by reflexivity.
  assert (H4 : nth_or0 4 p = 0) by reflexivity.
  assert (Hsplit : split_exact 10 p
                   = Some ([23; 0; 0; 0; 0; 1; prof; 0; lvl; 255],
                           225 :: ([(lenN sps / 256) mod 256; lenN sps mod 256] ++ sps
                                   ++ (1 :: [(lenN pps / 256) mod 256; lenN pps mod 256] ++ pps ++ [])))).
  { unfold split_exact. subst p. unfold avc_header. cbn [app length Nat.leb firstn skipn].
    rewrite app_nil_r. reflexivity. }
  rewrite Hlen, H0, H1, H2, H3, H4, Hsplit.
  replace (16 + lenN sps + lenN pps <? 5) with false by (symmetry; apply N.ltb_ge; lia).
  cbn [N.eqb Pos.eqb andb negb].
  change (N.to_nat (N.land 225 31)) with 1%nat.
  rewrite (read_ps_list_one sps _ Hs). cbn [bind].
  change (N.to_nat 1) with 1%nat.
  rewrite (read_ps_list_one pps [] Hp). reflexivity.
Qed.

Lemma avc_annexb_of_header sps pps h :
  lenN sps < 65536 -> lenN pps < 65536 ->
  avc_build_seq_header sps pps = Ok h ->
  avc_seq_header2annexb h = Ok (start_code4 ++ sps ++ start_code4 ++ pps)
  /\ avc_build_sps_pps2annexb sps pps = start_code4 ++ sps ++ start_code4 ++ pps.
Proof.
  intros Hs Hp Hb. apply avc_build_shape in Hb. destruct Hb as (ctx & _ & ->).
  split; [|reflexivity].
  unfold avc_seq_header2annexb. rewrite avc_parse_list_header by assumption.
  cbn [bind annexb_join4 map concat]. rewrite !app_nil_r, <- app_assoc. reflexivity.
Qed.
