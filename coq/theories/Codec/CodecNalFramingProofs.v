(* Proofs about the NAL framing model (C19 part B). *)
From Coq Require Import Lia ZifyN ZifyNat ZifyBool.
From Lal Require Import Common.LBytes Common.LBytesProofs Common.Res Codec.CodecNalFraming.
Open Scope N_scope.
Ltac Zify.zify_post_hook ::= Z.div_mod_to_equations.

(* ------------------------------------------------------------------ spec side *)
(* what emulation prevention guarantees of a NAL unit (H.264 7.4.1, 7.4.1.1):
   no start code prefix 00 00 01 inside, the last byte is not 00 (so it is not
   empty either) *)
Definition no_sc (u : bytes) : Prop := forall a b, u <> a ++ 0 :: 0 :: 1 :: b.
Definition nal_wf (u : bytes) : Prop := no_sc u /\ last u 0 <> 0.

(* a start code with k zero bytes: k = 2 is 00 00 01, k = 3 is 00 00 00 01,
   larger k = leading_zero_8bits / trailing_zero_8bits of the previous unit *)
Fixpoint join_annexb (l : list (nat * bytes)) : bytes :=
  match l with
  | [] => []
  | (k, u) :: t => repeat 0 k ++ 1 :: u ++ join_annexb t
  end.

(* the same with explicit trailing_zero_8bits after every unit *)
Fixpoint join_annexb_tz (l : list (nat * bytes * nat)) : bytes :=
  match l with
  | [] => []
  | (k, u, z) :: t => repeat 0 k ++ 1 :: u ++ repeat 0 z ++ join_annexb_tz t
  end.

Definition sc_ok (x : nat * bytes) : Prop := (2 <= fst x)%nat /\ nal_wf (snd x).
Definition sc_tz_ok (x : nat * bytes * nat) : Prop := (2 <= fst (fst x))%nat /\ nal_wf (snd (fst x)).

(* boolean check of no_sc, for examples *)
Definition is_sc_prefix (l : bytes) : bool :=
  match l with a :: b :: c :: _ => (a =? 0) && (b =? 0) && (c =? 1) | _ => false end.
Fixpoint has_sc (l : bytes) : bool :=
  is_sc_prefix l || match l with [] => false | _ :: t => has_sc t end.

Lemma has_sc_false_no_sc u : has_sc u = false -> no_sc u.
Proof.
  intros H a b E. subst u. induction a as [|x a IH].
  - cbn in H. discriminate.
  - apply IH. cbn [app has_sc] in H. apply orb_false_iff in H. apply H.
Qed.

(* ------------------------------------------------------------------ list helpers *)
Lemma repeat_snoc_cons {A} (x : A) n l : repeat x (S n) ++ l = repeat x n ++ x :: l.
Proof. induction n as [|n IH]; [reflexivity|]. cbn in *. f_equal. exact IH. Qed.

Lemma no_sc_suffix a u : no_sc (a ++ u) -> no_sc u.
Proof. intros H x y E. apply (H (a ++ x) y). rewrite E, <- app_assoc. reflexivity. Qed.

Lemma last_cons_cons (b c : N) t d : last (b :: c :: t) d = last (c :: t) d.
Proof. reflexivity. Qed.

Lemma nal_wf_nonempty u : nal_wf u -> u <> [].
Proof. intros [_ H] E. subst. cbn in H. congruence. Qed.

(* ------------------------------------------------------------------ the start-code scan *)
Lemma next_sc_zeros k : forall zs r, (2 <= zs + k)%nat ->
  next_sc zs (repeat 0 k ++ 1 :: r) = Some ([], S (zs + k), r).
Proof.
  induction k as [|k IH]; intros zs r H.
  - cbn [repeat app next_sc]. change (1 =? 0) with false. change (1 =? 1) with true. cbn [andb].
    replace (Nat.leb 2 zs) with true by (symmetry; apply Nat.leb_le; lia).
    rewrite Nat.add_0_r. reflexivity.
  - cbn [repeat app next_sc]. change (0 =? 0) with true. cbv iota.
    rewrite IH by lia. do 3 f_equal. lia.
Qed.

Lemma next_sc_app u : forall zs k r,
  no_sc (repeat 0 zs ++ u) -> last u 0 <> 0 -> (2 <= k)%nat ->
  next_sc zs (u ++ repeat 0 k ++ 1 :: r) = Some (repeat 0 zs ++ u, S k, r).
Proof.
  induction u as [|b t IH]; intros zs k r Hns Hl Hk.
  - cbn in Hl. congruence.
  - cbn [app next_sc]. destruct (N.eqb_spec b 0) as [->|Hb0].
    + destruct t as [|c t']; [cbn in Hl; congruence|].
      rewrite (IH (S zs) k r).
      * rewrite repeat_snoc_cons. reflexivity.
      * rewrite repeat_snoc_cons. exact Hns.
      * exact Hl.
      * exact Hk.
    + destruct ((b =? 1) && Nat.leb 2 zs) eqn:E.
      * exfalso. apply andb_true_iff in E. destruct E as [E1 E2].
        apply N.eqb_eq in E1. subst b. apply Nat.leb_le in E2.
        apply (Hns (repeat 0 (zs - 2)) t).
        replace zs with ((zs - 2) + 2)%nat at 1 by lia.
        rewrite repeat_app, <- app_assoc. reflexivity.
      * destruct t as [|c t'].
        -- cbn [app]. rewrite next_sc_zeros by lia. reflexivity.
        -- rewrite (IH 0%nat k r).
           ++ reflexivity.
           ++ cbn [repeat app]. apply (no_sc_suffix (repeat 0 zs ++ [b])).
              rewrite <- app_assoc. exact Hns.
           ++ exact Hl.
           ++ exact Hk.
Qed.

Lemma next_sc_only_zeros z : forall zs, next_sc zs (repeat 0 z) = None.
Proof. induction z as [|z IH]; intros zs; [reflexivity|]. cbn [repeat next_sc]. change (0 =? 0) with true. apply IH. Qed.

Lemma next_sc_none u : forall zs z, no_sc (repeat 0 zs ++ u) -> next_sc zs (u ++ repeat 0 z) = None.
Proof.
  induction u as [|b t IH]; intros zs z Hns.
  - apply next_sc_only_zeros.
  - cbn [app next_sc]. destruct (N.eqb_spec b 0) as [->|Hb0].
    + apply IH. rewrite repeat_snoc_cons. exact Hns.
    + destruct ((b =? 1) && Nat.leb 2 zs) eqn:E.
      * exfalso. apply andb_true_iff in E. destruct E as [E1 E2].
        apply N.eqb_eq in E1. subst b. apply Nat.leb_le in E2.
        apply (Hns (repeat 0 (zs - 2)) t).
        replace zs with ((zs - 2) + 2)%nat at 1 by lia.
        rewrite repeat_app, <- app_assoc. reflexivity.
      * rewrite (IH 0%nat z); [reflexivity|].
        cbn [repeat app]. apply (no_sc_suffix (repeat 0 zs ++ [b])).
        rewrite <- app_assoc. exact Hns.
Qed.

(* the scan consumes at least the three bytes of the start code *)
Lemma next_sc_shorter l : forall zs pre n r,
  next_sc zs l = Some (pre, n, r) -> (length r < length l)%nat.
Proof.
  induction l as [|b t IH]; intros zs pre n r H; [discriminate|].
  cbn [next_sc] in H. destruct (b =? 0).
  - apply IH in H. cbn. lia.
  - destruct ((b =? 1) && Nat.leb 2 zs).
    + injection H as _ _ <-. cbn. lia.
    + destruct (next_sc 0 t) as [[[p m] r']|] eqn:E; [|discriminate].
      injection H as _ _ <-. apply IH in E. cbn. lia.
Qed.

(* ------------------------------------------------------------------ trailing zeros *)
Lemma trim_zeros_zeros z : trim_zeros (repeat 0 z) = [].
Proof. induction z as [|z IH]; [reflexivity|]. cbn [repeat trim_zeros]. rewrite IH. reflexivity. Qed.

Lemma trim_zeros_cons b t :
  trim_zeros (b :: t) = match trim_zeros t with [] => if b =? 0 then [] else [b] | t' => b :: t' end.
Proof. reflexivity. Qed.

Lemma trim_zeros_id u : last u 0 <> 0 -> trim_zeros u = u.
Proof.
  induction u as [|b t IH]; intros H; [cbn in H; congruence|].
  destruct t as [|c t'].
  - cbn in *. destruct (N.eqb_spec b 0); congruence.
  - rewrite trim_zeros_cons. rewrite last_cons_cons in H. rewrite (IH H). reflexivity.
Qed.

Lemma trim_zeros_app u z : last u 0 <> 0 -> trim_zeros (u ++ repeat 0 z) = u.
Proof.
  induction u as [|b t IH]; intros H; [cbn in H; congruence|].
  destruct t as [|c t'].
  - cbn [app]. rewrite trim_zeros_cons, trim_zeros_zeros. cbn in H.
    destruct (N.eqb_spec b 0); congruence.
  - rewrite last_cons_cons in H.
    change ((b :: c :: t') ++ repeat 0 z) with (b :: ((c :: t') ++ repeat 0 z)).
    rewrite trim_zeros_cons, (IH H). reflexivity.
Qed.

(* ------------------------------------------------------------------ Annex B iterator *)
(* [trim = false] (the pinned tree) only when nothing follows the last unit *)
Lemma annexb_loop_join trim z (Hz : trim = false -> z = 0%nat) :
  forall t u fuel, nal_wf u -> Forall sc_ok t -> (length t < fuel)%nat ->
  annexb_loop trim fuel (u ++ join_annexb t ++ repeat 0 z) = (u :: map snd t, None).
Proof.
  induction t as [|[k u'] t IH]; intros u fuel [Hns Hl] Ht Hf.
  - destruct fuel as [|f]; [cbn in Hf; lia|].
    cbn [join_annexb app annexb_loop map].
    rewrite (next_sc_none u 0 z) by exact Hns.
    assert (E : (if trim then trim_zeros (u ++ repeat 0 z) else u ++ repeat 0 z) = u).
    { destruct trim.
      - apply trim_zeros_app. exact Hl.
      - rewrite (Hz eq_refl). cbn. apply app_nil_r. }
    rewrite E. destruct u; [cbn in Hl; congruence|reflexivity].
  - destruct fuel as [|f]; [cbn in Hf; lia|].
    inversion Ht as [|? ? [Hk Hw] Ht']; subst. cbn [fst snd] in Hk, Hw.
    assert (E : u ++ join_annexb ((k, u') :: t) ++ repeat 0 z
                = u ++ repeat 0 k ++ 1 :: (u' ++ join_annexb t ++ repeat 0 z)).
    { cbn [join_annexb]. rewrite <- !app_assoc. cbn [app]. rewrite <- !app_assoc. reflexivity. }
    rewrite E. cbn [annexb_loop map snd].
    rewrite (next_sc_app u 0 k) by (assumption || exact Hns).
    cbn [repeat app].
    rewrite (IH u' f Hw Ht') by (cbn in Hf; lia).
    destruct u; [cbn in Hl; congruence|reflexivity].
Qed.

Lemma join_annexb_length l : (length l <= length (join_annexb l))%nat.
Proof.
  induction l as [|[k u] t IH]; [cbn; lia|].
  cbn [join_annexb length]. rewrite app_length. cbn [length]. rewrite app_length. lia.
Qed.

Lemma iterate_annexb_join_gen trim z (Hz : trim = false -> z = 0%nat) l :
  l <> [] -> Forall sc_ok l ->
  iterate_nalu_annexb_gen trim (join_annexb l ++ repeat 0 z) = (map snd l, None).
Proof.
  intros Hne Hl. destruct l as [|[k u] t]; [congruence|].
  inversion Hl as [|? ? [Hk Hw] Ht]; subst. cbn [fst snd] in Hk, Hw.
  unfold iterate_nalu_annexb_gen. cbn [join_annexb map snd].
  rewrite <- !app_assoc. cbn [app]. rewrite <- !app_assoc.
  rewrite next_sc_zeros by lia.
  apply annexb_loop_join; try assumption.
  rewrite !app_length. cbn [length]. rewrite !app_length.
  pose proof (join_annexb_length t). lia.
Qed.

(* the fixed code: any trailing_zero_8bits after the last unit *)
Lemma iterate_annexb_join l z :
  l <> [] -> Forall sc_ok l ->
  iterate_nalu_annexb (join_annexb l ++ repeat 0 z) = (map snd l, None).
Proof. apply iterate_annexb_join_gen. discriminate. Qed.

(* the pinned code: right only without zero bytes after the last unit *)
Lemma iterate_annexb_pinned_join l :
  l <> [] -> Forall sc_ok l ->
  iterate_nalu_annexb_pinned (join_annexb l) = (map snd l, None).
Proof.
  intros. rewrite <- (app_nil_r (join_annexb l)).
  apply (iterate_annexb_join_gen false 0%nat); auto.
Qed.

Lemma iterate_annexb_pinned_refuted :
  exists l z, l <> [] /\ Forall sc_ok l /\
    iterate_nalu_annexb_pinned (join_annexb l ++ repeat 0 z) <> (map snd l, None).
Proof.
  exists [(2%nat, [101; 136])], 1%nat. split; [discriminate|]. split.
  - constructor; [|constructor]. split; [cbn; lia|]. split.
    + apply has_sc_false_no_sc. reflexivity.
    + cbn. discriminate.
  - vm_compute. discriminate.
Qed.

(* zero bytes between two units belong to the next start code *)
Fixpoint absorb_tz (carry : nat) (l : list (nat * bytes * nat)) : list (nat * bytes) :=
  match l with
  | [] => []
  | (k, u, z) :: t => ((carry + k)%nat, u) :: absorb_tz z t
  end.
Fixpoint last_tz (carry : nat) (l : list (nat * bytes * nat)) : nat :=
  match l with
  | [] => carry
  | (_, _, z) :: t => last_tz z t
  end.

Lemma join_annexb_tz_absorb l : forall c,
  repeat 0 c ++ join_annexb_tz l = join_annexb (absorb_tz c l) ++ repeat 0 (last_tz c l).
Proof.
  induction l as [|[[k u] z] t IH]; intros c.
  - cbn. rewrite app_nil_r. reflexivity.
  - cbn [join_annexb_tz absorb_tz last_tz join_annexb].
    rewrite repeat_app, <- !app_assoc. cbn [app]. rewrite <- !app_assoc.
    rewrite (IH z). reflexivity.
Qed.

Lemma absorb_tz_units l : forall c, map snd (absorb_tz c l) = map (fun x => snd (fst x)) l.
Proof. induction l as [|[[k u] z] t IH]; intros c; [reflexivity|]. cbn. rewrite IH. reflexivity. Qed.

Lemma absorb_tz_ok l : forall c, Forall sc_tz_ok l -> Forall sc_ok (absorb_tz c l).
Proof.
  induction l as [|[[k u] z] t IH]; intros c H; [constructor|].
  inversion H as [|? ? [Hk Hw] Ht]; subst. cbn in Hk, Hw.
  cbn [absorb_tz]. constructor; [split; cbn; [lia|exact Hw]|apply IH; exact Ht].
Qed.

Lemma iterate_annexb_join_tz l :
  l <> [] -> Forall sc_tz_ok l ->
  iterate_nalu_annexb (join_annexb_tz l) = (map (fun x => snd (fst x)) l, None).
Proof.
  intros Hne Hl.
  change (join_annexb_tz l) with (repeat 0 0 ++ join_annexb_tz l).
  rewrite join_annexb_tz_absorb, <- (absorb_tz_units l 0%nat).
  apply iterate_annexb_join.
  - destruct l as [|[[k u] z] t]; [congruence|discriminate].
  - apply absorb_tz_ok. exact Hl.
Qed.

(* IterateNaluStartCode on data + start code *)
Lemma start_code_found u k r :
  nal_wf u -> (2 <= k)%nat ->
  iterate_nalu_start_code (u ++ repeat 0 k ++ 1 :: r) 0 = Some (lenN u, N.of_nat (S k)).
Proof.
  intros [Hns Hl] Hk. unfold iterate_nalu_start_code.
  destruct u as [|b t]; [cbn in Hl; congruence|].
  replace (lenN ((b :: t) ++ repeat 0 k ++ 1 :: r) <=? 0) with false
    by (symmetry; apply N.leb_gt; unfold lenN; cbn [app length]; lia).
  cbn [N.to_nat skipn]. rewrite (next_sc_app (b :: t) 0 k r) by assumption.
  reflexivity.
Qed.

(* ------------------------------------------------------------------ AVCC iterator *)
Definition avcc_ok (u : bytes) : Prop := u <> [] /\ lenN u < 4294967296.

Lemma join_avcc_nonempty u t : join_nalu_avcc (u :: t) <> [].
Proof. unfold join_nalu_avcc, avcc_unit. cbn. discriminate. Qed.

Lemma be_get_put4 n : n < 4294967296 -> be_get (be_put 4 n) = n.
Proof. intros H. apply be_get_put_small. exact H. Qed.

Lemma avcc_loop_join : forall t u fuel, avcc_ok u -> Forall avcc_ok t -> (length t < fuel)%nat ->
  avcc_loop fuel (avcc_unit u ++ join_nalu_avcc t) = (u :: t, None).
Proof.
  induction t as [|u' t IH]; intros u fuel [Hne Hlen] Ht Hf.
  - destruct fuel as [|f]; [cbn in Hf; lia|].
    unfold join_nalu_avcc. cbn [map concat]. rewrite app_nil_r.
    unfold avcc_unit. cbn [avcc_loop].
    rewrite (split_exact_app_n 4 (be_put 4 (lenN u)) u) by (symmetry; apply be_put_length).
    rewrite be_get_put4 by exact Hlen.
    destruct u as [|b v]; [congruence|].
    rewrite N.ltb_irrefl, N.eqb_refl.
    replace (lenN (b :: v) =? 0) with false by (symmetry; apply N.eqb_neq; unfold lenN; cbn; lia).
    reflexivity.
  - destruct fuel as [|f]; [cbn in Hf; lia|].
    inversion Ht as [|? ? Hu' Ht']; subst.
    unfold avcc_unit at 1. cbn [avcc_loop]. rewrite <- app_assoc.
    rewrite (split_exact_app_n 4 (be_put 4 (lenN u)) (u ++ join_nalu_avcc (u' :: t)))
      by (symmetry; apply be_put_length).
    rewrite be_get_put4 by exact Hlen.
    destruct u as [|b v]; [congruence|].
    cbn [app].
    change (b :: v ++ join_nalu_avcc (u' :: t)) with ((b :: v) ++ join_nalu_avcc (u' :: t)).
    assert (Hlt : lenN (b :: v) <? lenN ((b :: v) ++ join_nalu_avcc (u' :: t)) = true).
    { apply N.ltb_lt. rewrite lenN_app. pose proof (join_avcc_nonempty u' t) as Hn.
      destruct (join_nalu_avcc (u' :: t)); [congruence|]. unfold lenN. cbn [length]. lia. }
    rewrite Hlt.
    replace (lenN (b :: v) =? 0) with false by (symmetry; apply N.eqb_neq; unfold lenN; cbn; lia).
    unfold lenN at 1 2. rewrite Nat2N.id.
    rewrite firstn_app, Nat.sub_diag, firstn_all. cbn [firstn]. rewrite app_nil_r.
    rewrite skipn_app, Nat.sub_diag, skipn_all. cbn [skipn app].
    change (join_nalu_avcc (u' :: t)) with (avcc_unit u' ++ join_nalu_avcc t).
    rewrite (IH u' f Hu' Ht') by (cbn in Hf; lia). reflexivity.
Qed.

Lemma iterate_avcc_join nals :
  nals <> [] -> Forall avcc_ok nals -> iterate_nalu_avcc (join_nalu_avcc nals) = (nals, None).
Proof.
  intros Hne H. destruct nals as [|u t]; [congruence|].
  inversion H as [|? ? Hu Ht]; subst. unfold iterate_nalu_avcc.
  change (join_nalu_avcc (u :: t)) with (avcc_unit u ++ join_nalu_avcc t).
  apply avcc_loop_join; try assumption.
  rewrite app_length. unfold avcc_unit. rewrite app_length, be_put_length.
  assert (length t <= length (join_nalu_avcc t))%nat.
  { clear. induction t as [|x t IH]; [cbn; lia|].
    change (join_nalu_avcc (x :: t)) with (avcc_unit x ++ join_nalu_avcc t).
    unfold avcc_unit. rewrite !app_length, be_put_length. cbn [length]. lia. }
  lia.
Qed.

(* ------------------------------------------------------------------ converters *)
Lemma avcc2annexb_join nals :
  nals <> [] -> Forall avcc_ok nals -> avcc2annexb (join_nalu_avcc nals) = (annexb_join4 nals, None).
Proof. intros Hne H. unfold avcc2annexb. rewrite iterate_avcc_join by assumption. reflexivity. Qed.

Lemma annexb2avcc_join l z :
  l <> [] -> Forall sc_ok l ->
  annexb2avcc (join_annexb l ++ repeat 0 z) = (join_nalu_avcc (map snd l), None).
Proof.
  intros Hne H. unfold annexb2avcc, annexb2avcc_gen.
  fold iterate_nalu_annexb. rewrite iterate_annexb_join by assumption. reflexivity.
Qed.

Lemma annexb_join4_is_join nals : annexb_join4 nals = join_annexb (map (fun u => (3%nat, u)) nals).
Proof.
  unfold annexb_join4. induction nals as [|u t IH]; [reflexivity|].
  cbn [map concat join_annexb]. rewrite IH. unfold start_code4. cbn [repeat app]. reflexivity.
Qed.

Lemma map_snd_sc3 (nals : list bytes) : map snd (map (fun u => (3%nat, u)) nals) = nals.
Proof. induction nals as [|u t IH]; [reflexivity|]. cbn. rewrite IH. reflexivity. Qed.

Lemma iterate_annexb_join4 nals :
  nals <> [] -> Forall nal_wf nals -> iterate_nalu_annexb (annexb_join4 nals) = (nals, None).
Proof.
  intros Hne H. rewrite annexb_join4_is_join, <- (app_nil_r (join_annexb _)).
  change (@nil N) with (repeat 0 0). rewrite iterate_annexb_join.
  - rewrite map_snd_sc3. reflexivity.
  - destruct nals; [congruence|discriminate].
  - clear Hne. induction H as [|u t Hu Ht IH]; [constructor|].
    cbn [map]. constructor; [split; [cbn; lia|exact Hu]|exact IH].
Qed.

(* ------------------------------------------------------------------ totality: the fuel is enough *)
Lemma annexb_loop_fuel trim : forall fuel rest, (length rest < fuel)%nat ->
  snd (annexb_loop trim fuel rest) <> Some err_out_of_fuel.
Proof.
  induction fuel as [|f IH]; intros rest H; [lia|].
  cbn [annexb_loop]. destruct (next_sc 0 rest) as [[[pre n] r]|] eqn:E.
  - destruct pre; [cbn; discriminate|].
    apply next_sc_shorter in E.
    specialize (IH r ltac:(lia)). destruct (annexb_loop trim f r). exact IH.
  - destruct (if trim then trim_zeros rest else rest); cbn; discriminate.
Qed.

Lemma iterate_annexb_total trim nals :
  snd (iterate_nalu_annexb_gen trim nals) <> Some err_out_of_fuel.
Proof.
  unfold iterate_nalu_annexb_gen. destruct (next_sc 0 nals) as [[[pre n] r]|] eqn:E.
  - apply annexb_loop_fuel. apply next_sc_shorter in E. lia.
  - cbn. discriminate.
Qed.

Lemma avcc_loop_fuel : forall fuel rest, (length rest < fuel)%nat ->
  snd (avcc_loop fuel rest) <> Some err_out_of_fuel.
Proof.
  induction fuel as [|f IH]; intros rest H; [lia|].
  cbn [avcc_loop]. unfold split_exact.
  destruct (Nat.leb 4 (length rest)) eqn:E4; [|cbn; discriminate].
  apply Nat.leb_le in E4.
  assert (Hs : length (skipn 4 rest) = (length rest - 4)%nat) by apply skipn_length.
  destruct (skipn 4 rest) as [|b r] eqn:Er; [cbn; discriminate|].
  set (len := be_get (firstn 4 rest)).
  destruct (len <? lenN (b :: r)) eqn:E1.
  - destruct (len =? 0).
    + apply IH. lia.
    + pose proof (skipn_length (N.to_nat len) (b :: r)) as Hk.
      specialize (IH (skipn (N.to_nat len) (b :: r)) ltac:(lia)).
      destruct (avcc_loop f (skipn (N.to_nat len) (b :: r))). exact IH.
  - destruct (len =? lenN (b :: r)).
    + destruct (len =? 0); [apply IH; lia|cbn; discriminate].
    + cbn. discriminate.
Qed.

Lemma iterate_avcc_total nals : snd (iterate_nalu_avcc nals) <> Some err_out_of_fuel.
Proof. apply avcc_loop_fuel. lia. Qed.

(* ------------------------------------------------------------------ the property in one statement *)
Definition len32_ok (x : nat * bytes) : Prop := lenN (snd x) < 4294967296.

Lemma sc_ok_units l : Forall sc_ok l -> Forall nal_wf (map snd l).
Proof. induction 1 as [|x t [_ Hx] _ IH]; cbn [map]; constructor; assumption. Qed.

Lemma sc_ok_avcc_units l : Forall sc_ok l -> Forall len32_ok l -> Forall avcc_ok (map snd l).
Proof.
  induction 1 as [|x t [_ Hx] _ IH]; intros H2; cbn [map]; [constructor|].
  inversion H2; subst. constructor; [split; [apply nal_wf_nonempty; exact Hx|assumption]|auto].
Qed.

Lemma framing_all l z :
  l <> [] -> Forall sc_ok l -> Forall len32_ok l ->
  let nals := map snd l in
  let s := join_annexb l ++ repeat 0 z in
  iterate_nalu_annexb s = (nals, None)
  /\ annexb2avcc s = (join_nalu_avcc nals, None)
  /\ iterate_nalu_avcc (join_nalu_avcc nals) = (nals, None)
  /\ avcc2annexb (join_nalu_avcc nals) = (annexb_join4 nals, None)
  /\ iterate_nalu_annexb (annexb_join4 nals) = (nals, None).
Proof.
  intros Hne Hsc Hlen nals s.
  assert (Hn : nals <> []) by (destruct l; [congruence|discriminate]).
  pose proof (sc_ok_units l Hsc) as Hw. pose proof (sc_ok_avcc_units l Hsc Hlen) as Ha.
  repeat split.
  - apply iterate_annexb_join; assumption.
  - apply annexb2avcc_join; assumption.
  - apply iterate_avcc_join; assumption.
  - apply avcc2annexb_join; assumption.
  - apply iterate_annexb_join4; assumption.
Qed.

(* a concrete stream: 3-byte, 4-byte and 6-byte start codes, a unit with an
   emulation prevention byte and embedded 00 00 / 00 01, zero bytes between the
   units and three trailing zero bytes *)
Definition example_units : list (nat * bytes) :=
  [(3%nat, [103; 100; 0; 40]); (2%nat, [104; 0; 0; 3; 1; 0; 1; 238]); (5%nat, [101])].

Lemma example_units_ok : example_units <> [] /\ Forall sc_ok example_units /\ Forall len32_ok example_units.
Proof.
  split; [discriminate|]. split.
  - repeat constructor; cbn; try lia; try discriminate; apply has_sc_false_no_sc; reflexivity.
  - repeat constructor.
Qed.
