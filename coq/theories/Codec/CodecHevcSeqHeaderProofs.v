(* Round trip of the HEVC sequence header (HEVCDecoderConfigurationRecord). *)
From Lal Require Import Common.LBytes Common.LBytesProofs Common.Res
  Codec.CodecBits Codec.CodecRdM Codec.CodecSpsHevc Codec.CodecHevcSeqHeader
  Codec.CodecAvcSeqHeaderProofs.
From Coq Require Import Lia ZifyN ZifyNat ZifyBool.
Ltac Zify.zify_post_hook ::= Z.div_mod_to_equations.
Open Scope N_scope.

(* the 28 bytes in front of the arrays, as a function of the parsed context *)
Definition hevc_pre (c : spslog) : bytes :=
  let g f := sps_get f c in
  [28; 0; 0; 0; 0; 1;
   N.lor (N.lor ((g H_space * 64) mod 256) ((g H_tier * 32) mod 256)) (g H_pidc)]
  ++ be_put 4 (g H_compat)
  ++ be_put 4 ((g H_constr / 65536) mod 4294967296) ++ be_put 2 (g H_constr mod 65536)
  ++ [g H_level; 240; 0; 252;
      N.lor (g H_chroma) 252; N.lor (g H_bdl) 248; N.lor (g H_bdc) 248; 0; 0;
      N.lor (N.lor ((g H_ntl * 8) mod 256) ((g H_nested * 4) mod 256)) (g H_lsm1);
      3].

Definition hevc_array (typ : N) (d : bytes) : bytes :=
  [typ; 0; 1] ++ be_put 2 (lenN d) ++ d.

Lemma be_put_2 v : be_put 2 v = [(v / 256) mod 256; v mod 256].
Proof.
  cbn [be_put]. change (256 ^ N.of_nat 1) with 256. change (256 ^ N.of_nat 0) with 1.
  now rewrite N.div_1_r.
Qed.

Lemma hevc_array_eq typ d :
  hevc_array typ d = [typ; 0; 1; (lenN d / 256) mod 256; lenN d mod 256] ++ d.
Proof. unfold hevc_array. rewrite be_put_2. reflexivity. Qed.

Definition hevc_header (c : spslog) (vps sps pps : bytes) : bytes :=
  hevc_pre c ++ hevc_array 32 vps ++ hevc_array 33 sps ++ hevc_array 34 pps.

Lemma hevc_build_shape vps sps pps h :
  hevc_build_seq_header vps sps pps = Ok h ->
  exists c1 c, hevc_parse_vps vps hevc_new_context = Ok c1 /\ hevc_parse_sps sps c1 = Ok c /\
               h = hevc_header c vps sps pps.
Proof.
  unfold hevc_build_seq_header, bind.
  destruct (hevc_parse_vps vps hevc_new_context) as [c1|e|p] eqn:E1; try discriminate.
  destruct (hevc_parse_sps sps c1) as [c|e|p] eqn:E2; try discriminate.
  intro H; injection H as <-. exists c1, c. split; [reflexivity|split; [exact E2|reflexivity]].
Qed.

Lemma hevc_build_ok_iff vps sps pps :
  (exists h, hevc_build_seq_header vps sps pps = Ok h) <->
  (exists c1 c, hevc_parse_vps vps hevc_new_context = Ok c1 /\ hevc_parse_sps sps c1 = Ok c).
Proof.
  unfold hevc_build_seq_header, bind. split.
  - intros [h H]. destruct (hevc_parse_vps vps hevc_new_context) as [c1|e|p] eqn:E1; try discriminate.
    destruct (hevc_parse_sps sps c1) as [c|e|p] eqn:E2; try discriminate. exists c1, c. split; [reflexivity|exact E2].
  - intros (c1 & c & H1 & H2). rewrite H1, H2. eexists; reflexivity.
Qed.

Lemma hevc_pre_len c : lenN (hevc_pre c) = 28.
Proof. reflexivity. Qed.

Lemma hevc_array_len t d : lenN (hevc_array t d) = 5 + lenN d.
Proof. rewrite hevc_array_eq. rewrite lenN_app. unfold lenN. cbn [length]. lia. Qed.

Lemma idx_app pre l k : idx (pre ++ l) (lenN pre + k) = idx l k.
Proof.
  unfold idx, lenN. replace (N.to_nat (N.of_nat (length pre) + k)) with (length pre + N.to_nat k)%nat by lia.
  rewrite nth_error_app2 by lia. replace (length pre + N.to_nat k - length pre)%nat with (N.to_nat k) by lia.
  reflexivity.
Qed.

Lemma idx_app0 pre l : idx (pre ++ l) (lenN pre) = idx l 0.
Proof. rewrite <- (N.add_0_r (lenN pre)) at 1. apply idx_app. Qed.

(* one array is read back, whatever precedes and follows it *)
Lemma hevc_record_array_ok pre typ d rest need :
  lenN d < 65536 -> N.land typ 63 = typ ->
  need + lenN d <= lenN (pre ++ hevc_array typ d ++ rest) ->
  hevc_record_array (pre ++ hevc_array typ d ++ rest) (lenN pre) typ need = Ok (d, lenN d).
Proof.
  intros Hd Ht Hneed. unfold hevc_record_array, u16_at.
  rewrite <- !N.add_assoc. change (1 + 1) with 2. change (3 + 1) with 4.
  rewrite idx_app0, !idx_app.
  rewrite !hevc_array_eq. cbn [app]. unfold idx.
  change (N.to_nat 0) with 0%nat. change (N.to_nat 1) with 1%nat. change (N.to_nat 2) with 2%nat.
  change (N.to_nat 3) with 3%nat. change (N.to_nat 4) with 4%nat.
  cbn [nth_error bind].
  rewrite Ht, N.eqb_refl. cbn [negb].
  replace (0 * 256 + 1) with 1 by reflexivity. cbn [N.eqb Pos.eqb negb].
  rewrite (len16_recompose _ Hd).
  set (arr := typ :: 0 :: 1 :: (lenN d / 256) mod 256 :: lenN d mod 256 :: d ++ rest).
  assert (Harr : pre ++ arr = (pre ++ [typ; 0; 1; (lenN d / 256) mod 256; lenN d mod 256]) ++ d ++ rest)
    by (subst arr; rewrite <- app_assoc; reflexivity).
  assert (HL : lenN (pre ++ arr) = lenN pre + 5 + lenN d + lenN rest).
  { rewrite Harr, !lenN_app. unfold lenN at 2. cbn [length]. lia. }
  assert (Hneed' : need + lenN d <= lenN pre + 5 + lenN d + lenN rest).
  { rewrite <- HL. rewrite hevc_array_eq in Hneed. exact Hneed. }
  rewrite HL.
  replace (lenN pre + 5 + lenN d + lenN rest <? need + lenN d) with false by (symmetry; apply N.ltb_ge; lia).
  unfold slice_chk. rewrite HL.
  replace ((lenN pre + 5 <=? lenN pre + 5 + lenN d) && (lenN pre + 5 + lenN d <=? lenN pre + 5 + lenN d + lenN rest))
    with true by (symmetry; apply andb_true_intro; split; apply N.leb_le; lia).
  cbn [bind]. f_equal. f_equal.
  rewrite Harr.
  rewrite skipn_app_exact by (rewrite app_length; unfold lenN; cbn [length]; lia).
  apply firstn_app_exact. unfold lenN. lia.
Qed.

Lemma hevc_parse_record_header c vps sps pps :
  lenN vps < 65536 -> lenN sps < 65536 -> lenN pps < 65536 ->
  hevc_parse_record (hevc_header c vps sps pps) = Ok (vps, sps, pps).
Proof.
  intros Hv Hs Hp. unfold hevc_parse_record, hevc_parse_record_f.
  assert (Hlen : lenN (hevc_header c vps sps pps) = 43 + lenN vps + lenN sps + lenN pps).
  { unfold hevc_header. rewrite !lenN_app, hevc_pre_len, !hevc_array_len. lia. }
  rewrite Hlen at 1.
  replace (43 + lenN vps + lenN sps + lenN pps <? 33) with false by (symmetry; apply N.ltb_ge; lia).
  cbn [andb].
  assert (H27 : idx (hevc_header c vps sps pps) 27 = Ok 3) by reflexivity.
  rewrite H27. cbn [bind N.eqb Pos.eqb orb negb].
  (* VPS array *)
  replace 28 with (lenN (hevc_pre c)) at 1 by apply hevc_pre_len.
  unfold hevc_header at 1.
  rewrite (hevc_record_array_ok (hevc_pre c) 32 vps) by
    (try assumption; try reflexivity; fold (hevc_header c vps sps pps); rewrite Hlen; lia).
  cbn [bind]. rewrite Hlen.
  replace (43 + lenN vps + lenN sps + lenN pps <? 38 + lenN vps) with false by (symmetry; apply N.ltb_ge; lia).
  (* SPS array *)
  replace (33 + lenN vps) with (lenN (hevc_pre c ++ hevc_array 32 vps))
    by (rewrite lenN_app, hevc_pre_len, hevc_array_len; lia).
  replace (hevc_header c vps sps pps)
    with ((hevc_pre c ++ hevc_array 32 vps) ++ hevc_array 33 sps ++ hevc_array 34 pps) at 1
    by (unfold hevc_header; rewrite <- !app_assoc; reflexivity).
  rewrite (hevc_record_array_ok _ 33 sps) by
    (try assumption; try reflexivity;
     replace ((hevc_pre c ++ hevc_array 32 vps) ++ hevc_array 33 sps ++ hevc_array 34 pps)
       with (hevc_header c vps sps pps) by (unfold hevc_header; rewrite <- !app_assoc; reflexivity);
     rewrite Hlen; lia).
  cbn [bind].
  replace (43 + lenN vps + lenN sps + lenN pps <? 43 + lenN vps + lenN sps) with false by (symmetry; apply N.ltb_ge; lia).
  (* PPS array *)
  replace (38 + lenN vps + lenN sps) with (lenN ((hevc_pre c ++ hevc_array 32 vps) ++ hevc_array 33 sps))
    by (rewrite !lenN_app, hevc_pre_len, !hevc_array_len; lia).
  replace (hevc_header c vps sps pps)
    with (((hevc_pre c ++ hevc_array 32 vps) ++ hevc_array 33 sps) ++ hevc_array 34 pps ++ [])
    by (unfold hevc_header; rewrite <- !app_assoc, app_nil_r; reflexivity).
  rewrite (hevc_record_array_ok _ 34 pps) by
    (try assumption; try reflexivity;
     replace (((hevc_pre c ++ hevc_array 32 vps) ++ hevc_array 33 sps) ++ hevc_array 34 pps ++ [])
       with (hevc_header c vps sps pps) by (unfold hevc_header; rewrite <- !app_assoc, app_nil_r; reflexivity);
     rewrite Hlen; lia).
  reflexivity.
Qed.

Lemma hevc_parse_header c vps sps pps :
  lenN vps < 65536 -> lenN sps < 65536 -> lenN pps < 65536 ->
  hevc_parse_seq_header (hevc_header c vps sps pps) = Ok (vps, sps, pps)
  /\ hevc_parse_enhanced_seq_header (hevc_header c vps sps pps) = Err err_hevc.
Proof.
  intros Hv Hs Hp. unfold hevc_parse_seq_header, hevc_parse_enhanced_seq_header,
    hevc_parse_seq_header_f, hevc_parse_enhanced_seq_header_f.
  fold hevc_parse_record.
  assert (Hlen : lenN (hevc_header c vps sps pps) = 43 + lenN vps + lenN sps + lenN pps).
  { unfold hevc_header. rewrite !lenN_app, hevc_pre_len, !hevc_array_len. lia. }
  rewrite Hlen, hevc_parse_record_header by assumption.
  replace (43 + lenN vps + lenN sps + lenN pps <? 5) with false by (symmetry; apply N.ltb_ge; lia).
  replace (43 + lenN vps + lenN sps + lenN pps <? 33) with false by (symmetry; apply N.ltb_ge; lia).
  split; reflexivity.
Qed.

Lemma hevc_seq_header_roundtrip vps sps pps h :
  lenN vps < 65536 -> lenN sps < 65536 -> lenN pps < 65536 ->
  hevc_build_seq_header vps sps pps = Ok h ->
  hevc_parse_seq_header h = Ok (vps, sps, pps)
  /\ hevc_seq_header2annexb h = Ok (hsc4 ++ vps ++ hsc4 ++ sps ++ hsc4 ++ pps).
Proof.
  intros Hv Hs Hp Hb. apply hevc_build_shape in Hb. destruct Hb as (c1 & c & _ & _ & ->).
  destruct (hevc_parse_header c vps sps pps Hv Hs Hp) as [H1 _].
  split; [exact H1|]. unfold hevc_seq_header2annexb. rewrite H1. reflexivity.
Qed.
