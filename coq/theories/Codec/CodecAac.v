(* lal pkg/aac/aac.go and pkg/aac/seqheader.go: AudioSpecificConfig (first 13
   bits), ADTS header, FLV/RTMP AAC sequence header.
     AscContext.Unpack / NewAscContext / Pack / PackAdtsHeader / PackToAdtsHeader
     / GetSamplingFrequency, AdtsHeaderContext.Unpack / NewAdtsHeaderContext,
     MakeAscWithAdtsHeader, SequenceHeaderContext.Unpack,
     MakeAudioDataSeqHeaderWithAsc / WithAdtsHeader.
   They use naza's nazabits: the reader is CodecBits.read_bits (ReadBits8 n =
   read_bits 8 n, ReadBits16 n = read_bits 16 n); `x, _ = br.ReadBits8(n)` drops
   the error and keeps the zero value; SkipBits n reserves n bits and moves the
   cursor.  The writer puts the low n bits of a uint8/uint16 MSB first into a
   zeroed buffer (bits_of_val / bytes_of_bits).  Struct fields are uint8 /
   uint16: every model value below is < 256 (the drivers truncate).  The length
   checks in front of every reader/writer use make the code panic free (the
   writer touches at most byte 6 of a buffer of >= 7 bytes, byte 1 of 2).
   No proofs here. *)
From Lal Require Export Common.LBytes Common.Res Codec.CodecBits.
Open Scope N_scope.

Definition err_sampling_index : N := 7.   (* base.ErrSamplingFrequencyIndex *)

Record asc_ctx := mk_asc { asc_aot : N; asc_sfi : N; asc_chan : N }.

(* v, _ = br.ReadBitsW(n), n > 0 (read_bits only panics for n = 0) *)
Definition rd_ign (w : N) (n : nat) (s : bitrd) : N * bitrd :=
  match read_bits w n s with
  | Ok (Some v, s') => (v, s')
  | Ok (None, s') => (0, s')
  | _ => (0, s)
  end.

(* _ = br.SkipBits(n) *)
Definition skip_bits (n : nat) (s : bitrd) : bitrd :=
  if br_err s then s
  else match bits_split n (br_rem s) with
       | None => br_fail s
       | Some (_, r) => mk_bitrd r false
       end.

(* ---------------------------------------------------------------- AudioSpecificConfig *)
Definition asc_read (s : bitrd) : asc_ctx :=
  let (aot, s1) := rd_ign 8 5 s in
  let (sfi, s2) := rd_ign 8 4 s1 in
  let (ch, _) := rd_ign 8 4 s2 in
  mk_asc aot sfi ch.

(* AscContext.Unpack / NewAscContext *)
Definition asc_unpack (asc : bytes) : res asc_ctx :=
  if lenN asc <? 2 then Err err_short else Ok (asc_read (br_new asc)).

Definition asc_bits (c : asc_ctx) : bits :=
  bits_of_val 5 (asc_aot c) ++ bits_of_val 4 (asc_sfi c) ++ bits_of_val 4 (asc_chan c).

(* AscContext.Pack: 13 bits into make([]byte, 2) *)
Definition asc_pack (c : asc_ctx) : bytes := bytes_of_bits (asc_bits c).

(* ---------------------------------------------------------------- ADTS header *)
(* the 56 bits PackToAdtsHeader writes: syncword, ID 0 / layer 00 /
   protection_absent 1, profile = uint8(AudioObjectType-1) (2 low bits),
   sampling index, private 0, channel configuration (3 low bits),
   original/home/copyright 0000, frame length = uint16(frameLength + 7) (13 low
   bits), buffer fullness 0x7ff, number of raw data blocks 0 *)
Definition adts_bits (c : asc_ctx) (frame_length : N) : bits :=
  bits_of_val 12 4095 ++ bits_of_val 4 1
  ++ bits_of_val 2 ((asc_aot c + 255) mod 256)
  ++ bits_of_val 4 (asc_sfi c) ++ bits_of_val 1 0 ++ bits_of_val 3 (asc_chan c) ++ bits_of_val 4 0
  ++ bits_of_val 13 ((frame_length + 7) mod 65536)
  ++ bits_of_val 11 2047 ++ bits_of_val 2 0.

(* PackToAdtsHeader(out, frameLength), frameLength >= 0: the new content of out *)
Definition adts_pack_to (c : asc_ctx) (out : bytes) (frame_length : N) : res bytes :=
  if lenN out <? 7 then Err err_short
  else Ok (bytes_of_bits (adts_bits c frame_length) ++ skipn 7 out).

(* PackAdtsHeader(frameLength): out = make([]byte, 7), the error is dropped *)
Definition adts_pack (c : asc_ctx) (frame_length : N) : bytes :=
  bytes_of_bits (adts_bits c frame_length).

(* GetSamplingFrequency *)
Definition asc_sampling_frequency (c : asc_ctx) : res N :=
  match nth_error [96000; 88200; 64000; 48000; 44100; 32000; 24000; 22050; 16000; 12000; 11025; 8000; 7350]
                  (N.to_nat (asc_sfi c)) with
  | Some f => Ok f
  | None => Err err_sampling_index
  end.

Definition adts_read (s : bitrd) : asc_ctx * N :=
  let s0 := skip_bits 16 s in
  let (v, s1) := rd_ign 8 2 s0 in
  let (sfi, s2) := rd_ign 8 4 s1 in
  let s3 := skip_bits 1 s2 in
  let (ch, s4) := rd_ign 8 3 s3 in
  let s5 := skip_bits 4 s4 in
  let (len, _) := rd_ign 16 13 s5 in
  (mk_asc ((v + 1) mod 256) sfi ch, len).

(* AdtsHeaderContext.Unpack / NewAdtsHeaderContext: (AscCtx, AdtsLength) *)
Definition adts_unpack (h : bytes) : res (asc_ctx * N) :=
  if lenN h <? 7 then Err err_short else Ok (adts_read (br_new h)).

(* MakeAscWithAdtsHeader *)
Definition asc_of_adts (h : bytes) : res bytes :=
  let* (c, _) := adts_unpack h in Ok (asc_pack c).

(* ---------------------------------------------------------------- FLV / RTMP sequence header *)
(* SequenceHeaderContext.Unpack: SoundFormat, SoundRate, SoundSize, SoundType, AacPacketType *)
Definition aac_seqh_unpack (b : bytes) : list N :=
  let s := br_new b in
  let (f, s1) := rd_ign 8 4 s in
  let (r, s2) := rd_ign 8 2 s1 in
  let (z, s3) := rd_ign 8 1 s2 in
  let (t, s4) := rd_ign 8 1 s3 in
  let (p, _) := rd_ign 8 8 s4 in
  [f; r; z; t; p].

(* MakeAudioDataSeqHeaderWithAsc *)
Definition aac_seqh_of_asc (asc : bytes) : res bytes :=
  if lenN asc <? 2 then Err err_short else Ok (175 :: 0 :: asc).

(* MakeAudioDataSeqHeaderWithAdtsHeader *)
Definition aac_seqh_of_adts (h : bytes) : res bytes :=
  let* asc := asc_of_adts h in aac_seqh_of_asc asc.
