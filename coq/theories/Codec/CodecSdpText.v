(* Go `strings` / `strconv` / `fmt` primitives that lal's pkg/sdp uses, on byte
   lists, exact for 7-bit ASCII text (strings.TrimSpace and strings.EqualFold
   look at Unicode code points for bytes >= 0x80; the generator keeps those out
   of the places where the two functions look).  No proofs here. *)
From Coq Require Import Strings.String Strings.Ascii.
From Lal Require Export Common.LBytes Common.Res.
Open Scope N_scope.

(* text constants are written as Coq strings and evaluated to byte lists at
   definition time (`Eval compute in s2b "..."`) *)
Definition s2b (s : string) : bytes := map N_of_ascii (list_ascii_of_string s).

(* ---- comparison, prefixes ---- *)
Fixpoint beqb (a b : bytes) : bool :=
  match a, b with
  | [], [] => true
  | x :: a', y :: b' => (x =? y) && beqb a' b'
  | _, _ => false
  end.

(* strings.HasPrefix(s, p) *)
Fixpoint has_prefix (p s : bytes) : bool :=
  match p with
  | [] => true
  | x :: p' => match s with [] => false | y :: s' => (x =? y) && has_prefix p' s' end
  end.

(* strings.TrimPrefix(s, p) *)
Definition trim_prefix (p s : bytes) : bytes :=
  if has_prefix p s then skipn (length p) s else s.

(* ---- splitting ---- *)
Definition cons_hd (x : N) (l : list bytes) : list bytes :=
  match l with h :: r => (x :: h) :: r | [] => [[x]] end.

(* strings.Split(s, string(c)) for a one-byte separator: Count+1 pieces *)
Fixpoint split1 (c : N) (s : bytes) : list bytes :=
  match s with
  | [] => [[]]
  | x :: t => if x =? c then [] :: split1 c t else cons_hd x (split1 c t)
  end.

(* strings.SplitN(s, string(c), 2): (before, Some after) at the first c,
   (s, None) when c does not occur *)
Fixpoint break1 (c : N) (s : bytes) : bytes * option bytes :=
  match s with
  | [] => ([], None)
  | x :: t => if x =? c then ([], Some t)
              else let (a, b) := break1 c t in (x :: a, b)
  end.

(* strings.Split(s, "\r\n") *)
Fixpoint split_crlf (s : bytes) : list bytes :=
  match s with
  | [] => [[]]
  | x :: t =>
    match t with
    | y :: t' => if (x =? 13) && (y =? 10) then [] :: split_crlf t'
                 else cons_hd x (split_crlf t)
    | [] => [[x]]
    end
  end.

(* strings.ReplaceAll(s, "\n", "\r\n") *)
Definition replace_nl (s : bytes) : bytes :=
  flat_map (fun x => if x =? 10 then [13; 10] else [x]) s.

(* ---- trimming ---- *)
Fixpoint drop_while (f : N -> bool) (s : bytes) : bytes :=
  match s with
  | [] => []
  | x :: t => if f x then drop_while f t else s
  end.
Fixpoint trim_right_f (f : N -> bool) (s : bytes) : bytes :=
  match s with
  | [] => []
  | x :: t => match trim_right_f f t with
              | [] => if f x then [] else [x]
              | t' => x :: t'
              end
  end.
(* strings.TrimLeft(s, string(c)) / TrimRight *)
Definition trim_left_c (c : N) := drop_while (N.eqb c).
Definition trim_right_c (c : N) := trim_right_f (N.eqb c).
(* strings.TrimSpace, ASCII: \t \n \v \f \r and space *)
Definition ascii_space (c : N) : bool := ((9 <=? c) && (c <=? 13)) || (c =? 32).
Definition trim_space (s : bytes) : bytes := trim_right_f ascii_space (drop_while ascii_space s).

(* strings.EqualFold, ASCII *)
Definition lower (c : N) : N := if (65 <=? c) && (c <=? 90) then c + 32 else c.
Fixpoint equal_fold (a b : bytes) : bool :=
  match a, b with
  | [], [] => true
  | x :: a', y :: b' => (lower x =? lower y) && equal_fold a' b'
  | _, _ => false
  end.

(* ---- strconv.Atoi (64-bit int): value and error kind (0 none, 1 syntax,
   2 range).  Same result as strconv.ParseInt(s, 10, 0), which Atoi's fast
   path agrees with; the value is what Go returns together with the error
   (ParseM ignores the error and keeps the value). ---- *)
Definition is_digit (c : N) : bool := (48 <=? c) && (c <=? 57).
Definition max_u64 : N := 18446744073709551615.
Definition cutoff10 : N := 1844674407370955162.    (* maxUint64/10 + 1 *)
Definition two63 : N := 9223372036854775808.

Fixpoint pu_loop (n : N) (s : bytes) : N * N :=
  match s with
  | [] => (n, 0)
  | c :: t =>
    if negb (is_digit c) then (0, 1)
    else if cutoff10 <=? n then (max_u64, 2)
    else let n1 := n * 10 + (c - 48) in
         if max_u64 <? n1 then (max_u64, 2) else pu_loop n1 t
  end.
Definition parse_uint (s : bytes) : N * N :=
  match s with [] => (0, 1) | _ => pu_loop 0 s end.

Definition atoi (s : bytes) : Z * N :=
  match s with
  | [] => (0%Z, 1)
  | c :: t =>
    let neg := c =? 45 in
    let body := if (c =? 43) || (c =? 45) then t else s in
    let (un, e) := parse_uint body in
    if e =? 1 then (0%Z, 1)
    else if negb neg && (two63 <=? un) then ((Z.of_N two63 - 1)%Z, 2)
    else if neg && (two63 <? un) then ((- Z.of_N two63)%Z, 2)
    else ((if neg then - Z.of_N un else Z.of_N un)%Z, 0)
  end.

(* ---- fmt "%d" of an int ---- *)
Fixpoint dec_digits (fuel : nat) (n : N) : bytes :=
  match fuel with
  | O => []
  | S f => if n <? 10 then [48 + n] else dec_digits f (n / 10) ++ [48 + n mod 10]
  end.
(* 20 digits are enough for every |int64| *)
Definition fmt_u (n : N) : bytes := dec_digits 20 n.
Definition fmt_d (z : Z) : bytes :=
  match z with
  | Zneg p => 45 :: fmt_u (Npos p)
  | _ => fmt_u (Z.to_N z)
  end.

(* ---- Go map[string]string with insertion in program order: association
   list, a later insert of the same key replaces the value ---- *)
Fixpoint map_set (k v : bytes) (m : list (bytes * bytes)) : list (bytes * bytes) :=
  match m with
  | [] => [(k, v)]
  | (k', v') :: r => if beqb k k' then (k, v) :: r else (k', v') :: map_set k v r
  end.
Fixpoint map_get (k : bytes) (m : list (bytes * bytes)) : option bytes :=
  match m with
  | [] => None
  | (k', v') :: r => if beqb k k' then Some v' else map_get k r
  end.
