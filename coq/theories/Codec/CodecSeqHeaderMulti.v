(* Sequence headers with SEVERAL parameter sets.

   - spec side (independent of lal): the AVCDecoderConfigurationRecord of
     ISO/IEC 14496-15 5.2.4.1.1 with any number of SPS (5-bit count) and PPS
     (8-bit count), behind the 5-byte FLV/RTMP video tag prefix;
   - lal side: avc.ParseSpsPpsListFromSeqHeader (copies of what
     parseSpsPpsListFromSeqHeaderWithoutMalloc returns) and what
     remux.Rtmp2RtspRemuxer.FeedRtmpMsg hands to sdp.Pack for a sequence header
     (exactly one set per kind, otherwise the first of each list; an empty set
     becomes a nil slice and the analysis waits on).
   No proofs here. *)
From Lal Require Export Codec.CodecAvcSeqHeader Codec.CodecHevcSeqHeader.
Open Scope N_scope.

(* ---- spec: ISO/IEC 14496-15 writer *)
Definition ps_entry (x : bytes) : bytes := be_put 2 (lenN x) ++ x.
Definition ps_entries (l : list bytes) : bytes := concat (map ps_entry l).

Definition avc_record_multi (prof compat lvl : N) (spss ppss : list bytes) : bytes :=
  [23; 0; 0; 0; 0; 1; prof; compat; lvl; 255; 224 + N.of_nat (length spss)]
  ++ ps_entries spss ++ [N.of_nat (length ppss)] ++ ps_entries ppss.

(* ---- lal: avc.ParseSpsPpsListFromSeqHeader *)
Definition avc_parse_seq_header_list_copy (p : bytes) : res (list bytes * list bytes) :=
  avc_parse_seq_header_list p.

(* ---- lal: Rtmp2RtspRemuxer, AVC sequence header -> (sps, pps) given to sdp.Pack.
   None = no sdp yet (the remuxer keeps analysing). *)
Definition nonnil (x : bytes) : bool := match x with [] => false | _ => true end.

Definition avc_sdp_select (p : bytes) : option (bytes * bytes) :=
  match avc_parse_seq_header p with
  | Ok (s, q) => Some (s, q)
  | _ =>
    match avc_parse_seq_header_list p with
    | Ok (s :: _, q :: _) => Some (s, q)
    | _ => None
    end
  end.

Definition avc_hdr_sdp (p : bytes) : option (bytes * bytes) :=
  if lenN p <=? 5 then None
  else match avc_sdp_select p with
       | Some (s, q) => if nonnil s && nonnil q then Some (s, q) else None
       | None => None
       end.

(* HEVC (not enhanced): ParseVpsSpsPpsFromSeqHeader; an empty vps makes the remuxer announce H264 (vps stays nil) *)
Definition hevc_hdr_sdp (p : bytes) : option (bytes * bytes * bytes) :=
  if lenN p <=? 5 then None
  else match hevc_parse_seq_header p with
       | Ok (v, s, q) => if nonnil s && nonnil q then Some (v, s, q) else None
       | _ => None
       end.
